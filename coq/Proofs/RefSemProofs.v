(* Proofs about the reference evaluator Model/RefSem.v (for all programs: induction on fuel
   and on the lists of sub-forms; nothing here is a computation over samples). *)
From Coq Require Import ZArith Bool List Lia.
From ZV Require Import Model.Num Proofs.NumProofs Model.RefSem.
Import ListNotations.
Open Scope Z_scope.

(* ================================================================= 1. lookup, frames *)

Lemma assoc_fr_set_same : forall x v fr, assoc x (fr_set x v fr) = Some v.
Proof.
  induction fr as [|[y w] r IH]; simpl.
  - rewrite Z.eqb_refl. reflexivity.
  - destruct (x =? y) eqn:E; simpl; rewrite E; auto.
Qed.

Lemma assoc_fr_set_other : forall x y v fr, x <> y -> assoc y (fr_set x v fr) = assoc y fr.
Proof.
  induction fr as [|[z w] r IH]; simpl; intros Hn.
  - destruct (y =? x) eqn:E; [apply Z.eqb_eq in E; congruence|reflexivity].
  - destruct (x =? z) eqn:E; simpl.
    + apply Z.eqb_eq in E. subst z. destruct (y =? x) eqn:E2; [apply Z.eqb_eq in E2; congruence|reflexivity].
    + destruct (y =? z); auto.
Qed.

Lemma nth_error_set_nth_same : forall A (l : list A) n x, (n < length l)%nat ->
  nth_error (set_nth n x l) n = Some x.
Proof.
  induction l; simpl; intros n x H; [lia|]. destruct n; simpl; [reflexivity|]. apply IHl. lia.
Qed.

Lemma nth_error_set_nth_other : forall A (l : list A) n m x, n <> m ->
  nth_error (set_nth n x l) m = nth_error l m.
Proof.
  induction l; simpl; intros n m x H; [destruct n; reflexivity|].
  destruct n; destruct m; simpl; try congruence; auto.
Qed.

Lemma length_set_nth : forall A (l : list A) n x, length (set_nth n x l) = length l.
Proof. induction l; simpl; intros; [destruct n; reflexivity|]. destruct n; simpl; auto. Qed.

(* shadowing: lookup returns the binding of the innermost frame of the static chain that
   binds the name *)
Lemma lookup_chain_innermost : forall fs env x f v,
  lookup_chain fs env x = Some (f, v) ->
  exists env1 env2 fr,
    env = env1 ++ f :: env2 /\ nth_error fs f = Some fr /\ assoc x fr = Some v /\
    Forall (fun g => forall fg, nth_error fs g = Some fg -> assoc x fg = None) env1.
Proof.
  induction env as [|g env IH]; simpl; intros x f v H; [discriminate|].
  destruct (nth_error fs g) as [fr|] eqn:Eg.
  - destruct (assoc x fr) as [w|] eqn:Ea.
    + inversion H; subst. exists [], env, fr. repeat split; auto.
    + destruct (IH _ _ _ H) as (e1 & e2 & fr' & -> & Hn & Ha & Hall).
      exists (g :: e1), e2, fr'. repeat split; auto. constructor; auto.
      intros fg Hfg. rewrite Eg in Hfg. inversion Hfg; subst; auto.
  - destruct (IH _ _ _ H) as (e1 & e2 & fr' & -> & Hn & Ha & Hall).
    exists (g :: e1), e2, fr'. repeat split; auto. constructor; auto.
    intros fg Hfg. rewrite Eg in Hfg. discriminate.
Qed.

Lemma lookup_chain_head : forall fs f env x fr v,
  nth_error fs f = Some fr -> assoc x fr = Some v -> lookup_chain fs (f :: env) x = Some (f, v).
Proof. intros. simpl. rewrite H, H0. reflexivity. Qed.

Lemma lookup_chain_skip : forall fs f env x fr,
  nth_error fs f = Some fr -> assoc x fr = None ->
  lookup_chain fs (f :: env) x = lookup_chain fs env x.
Proof. intros. simpl. rewrite H, H0. reflexivity. Qed.

(* an update made through one chain is seen through every chain that finds the name in the
   same frame (closures created in one activation share the frame) *)
Lemma update_seen_by_sibling : forall s env1 env2 x f v1 v2 v,
  lookup_chain (frames s) env1 x = Some (f, v1) ->
  lookup_chain (frames s) env2 x = Some (f, v2) ->
  lookup_chain (frames (upd_frame f x v s)) env2 x = Some (f, v).
Proof.
  intros s env1 env2 x f v1 v2 v H1 H2.
  destruct (lookup_chain_innermost _ _ _ _ _ H1) as (_ & _ & fr & _ & Hf & _ & _).
  unfold upd_frame. rewrite Hf. simpl.
  assert (Hlen : (f < length (frames s))%nat) by (apply nth_error_Some; congruence).
  clear H1. revert H2. induction env2 as [|g env2 IH]; simpl; [discriminate|].
  intros H2. destruct (Nat.eq_dec g f) as [->|Hne].
  - rewrite nth_error_set_nth_same by assumption. rewrite assoc_fr_set_same. reflexivity.
  - rewrite nth_error_set_nth_other by congruence.
    destruct (nth_error (frames s) g) as [fg|] eqn:Eg.
    + destruct (assoc x fg) eqn:Ea.
      * inversion H2; subst. congruence.
      * apply IH. assumption.
    + apply IH. assumption.
Qed.

(* a frame allocated by push_frame is new, empty, and leaves every other frame alone *)
Lemma push_frame_fresh : forall s f s1, push_frame s = (f, s1) ->
  f = length (frames s) /\ nth_error (frames s) f = None /\
  frames s1 = frames s ++ [[]] /\ nth_error (frames s1) f = Some [] /\
  (forall g, (g < length (frames s))%nat -> nth_error (frames s1) g = nth_error (frames s) g) /\
  arrays s1 = arrays s /\ trace s1 = trace s.
Proof.
  unfold push_frame. intros s f s1 H. inversion H; subst; clear H. simpl.
  repeat split; auto.
  - apply nth_error_None. lia.
  - rewrite nth_error_app2 by lia. rewrite Nat.sub_diag. reflexivity.
  - intros g Hg. apply nth_error_app1. assumption.
Qed.

(* ================================================================= 2. unfolding facts *)

(* every activation / let / newScope / for evaluates its body under a frame id that was not
   in the store before, placed in front of the static chain *)
Lemma apply_closure_fresh : forall n nm ps rest body cenv args s binds,
  zip_params ps rest args [] = Some binds ->
  apply (S n) (VClos nm ps rest body cenv) args s =
  (_ <- bind_all (length (frames s)) binds ;;
   no_loop_sig ELoop (ev_begin (eval n) (length (frames s) :: cenv) body)) (snd (push_frame s)).
Proof. intros. simpl. rewrite H. reflexivity. Qed.

Lemma scope_fresh : forall n env es s,
  eval (S n) env (EScope es) s =
  ev_begin (eval n) (length (frames s) :: env) es (snd (push_frame s)).
Proof. reflexivity. Qed.

Lemma let_fresh : forall n env bs body s,
  eval (S n) env (ELet false bs body) s =
  (vs <- ev_list (eval n) (length (frames s) :: env) (map snd bs) ;;
   _ <- bind_all (length (frames s)) (rev (combine (map fst bs) vs)) ;;
   ev_begin (eval n) (length (frames s) :: env) body) (snd (push_frame s)).
Proof. reflexivity. Qed.

Lemma letseq_fresh : forall n env bs body s,
  eval (S n) env (ELet true bs body) s =
  (_ <- ev_letseq (eval n) (length (frames s)) (length (frames s) :: env) bs ;;
   ev_begin (eval n) (length (frames s) :: env) body) (snd (push_frame s)).
Proof. reflexivity. Qed.

Lemma for_fresh : forall n env lbl i t st body s,
  eval (S n) env (EFor lbl i t st body) s =
  (_ <- no_loop_sig EUnspec (eval n (length (frames s) :: env) i) ;;
   for_loop (eval n) n (length (frames s) :: env) lbl t st body) (snd (push_frame s)).
Proof. reflexivity. Qed.

(* a closure captures exactly the static chain of the place where it is created *)
Lemma fn_captures_env : forall n env ps rest body s,
  eval (S n) env (EFn ps rest body) s = (Done (VClos None ps rest body env), s).
Proof. reflexivity. Qed.

(* ================================================================= 3. control flow *)

Section Combinators.
  Variable ev : list nat -> expr -> M value.

  (* cond: the first arm whose test is truthy decides; the remaining arms and the default
     are never consulted (the result does not depend on them) *)
  Lemma cond_first_true : forall env c b r d s v s1,
    ev env c s = (Done v, s1) -> truthy v = true ->
    ev_cond ev env ((c, b) :: r) d s = ev env b s1.
  Proof. intros. simpl. unfold bindM. rewrite H, H0. reflexivity. Qed.

  Lemma cond_first_false : forall env c b r d s v s1,
    ev env c s = (Done v, s1) -> truthy v = false ->
    ev_cond ev env ((c, b) :: r) d s = ev_cond ev env r d s1.
  Proof. intros. simpl. unfold bindM. rewrite H, H0. reflexivity. Qed.

  Lemma cond_only_needed : forall env c b r d r' d' s v s1,
    ev env c s = (Done v, s1) -> truthy v = true ->
    ev_cond ev env ((c, b) :: r) d s = ev_cond ev env ((c, b) :: r') d' s.
  Proof. intros. rewrite !(cond_first_true _ _ _ _ _ _ _ _ H H0). reflexivity. Qed.

  Lemma cond_default : forall env d s, ev_cond ev env [] d s = ev env d s.
  Proof. reflexivity. Qed.

  (* and: a falsy operand that is not the last one is the value; what follows is not evaluated *)
  Lemma and_short_circuit : forall env e r r' s v s1,
    r <> [] -> r' <> [] ->
    ev env e s = (Done v, s1) -> truthy v = false ->
    ev_and ev env (e :: r) s = (Done v, s1) /\ ev_and ev env (e :: r') s = (Done v, s1).
  Proof.
    intros env e r r' s v s1 Hr Hr' H Ht.
    destruct r as [|a r]; [congruence|]. destruct r' as [|a' r']; [congruence|].
    simpl. unfold bindM, ret. rewrite H, Ht. auto.
  Qed.

  Lemma and_continue : forall env e a r s v s1,
    ev env e s = (Done v, s1) -> truthy v = true ->
    ev_and ev env (e :: a :: r) s = ev_and ev env (a :: r) s1.
  Proof. intros. simpl. unfold bindM. rewrite H, H0. reflexivity. Qed.

  Lemma and_last : forall env e s, ev_and ev env [e] s = ev env e s.
  Proof. reflexivity. Qed.

  Lemma or_short_circuit : forall env e r r' s v s1,
    r <> [] -> r' <> [] ->
    ev env e s = (Done v, s1) -> truthy v = true ->
    ev_or ev env (e :: r) s = (Done v, s1) /\ ev_or ev env (e :: r') s = (Done v, s1).
  Proof.
    intros env e r r' s v s1 Hr Hr' H Ht.
    destruct r as [|a r]; [congruence|]. destruct r' as [|a' r']; [congruence|].
    simpl. unfold bindM, ret. rewrite H, Ht. auto.
  Qed.

  Lemma or_continue : forall env e a r s v s1,
    ev env e s = (Done v, s1) -> truthy v = false ->
    ev_or ev env (e :: a :: r) s = ev_or ev env (a :: r) s1.
  Proof. intros. simpl. unfold bindM. rewrite H, H0. reflexivity. Qed.

  Lemma or_last : forall env e s, ev_or ev env [e] s = ev env e s.
  Proof. reflexivity. Qed.

  (* running a list of forms one after the other, threading the store *)
  Inductive run_all (env : list nat) : list expr -> store -> list value -> store -> Prop :=
  | ra_nil : forall s, run_all env [] s [] s
  | ra_cons : forall e r s v s1 vs s2,
      ev env e s = (Done v, s1) -> run_all env r s1 vs s2 -> run_all env (e :: r) s (v :: vs) s2.

  Lemma ev_begin_cons : forall env e r, r <> [] ->
    ev_begin ev env (e :: r) = (_ <- ev env e ;; ev_begin ev env r).
  Proof. intros env e r H. destruct r; [congruence|reflexivity]. Qed.

  (* begin: when the forms before the last all return, the value (and outcome) of the
     sequence is that of the last form, run in the store they leave *)
  Lemma begin_value_is_last : forall env es e s vs s1,
    run_all env es s vs s1 -> ev_begin ev env (es ++ [e]) s = ev env e s1.
  Proof.
    intros env es e s vs s1 H. induction H; [reflexivity|].
    change ((e0 :: r) ++ [e]) with (e0 :: (r ++ [e])).
    rewrite ev_begin_cons by (destruct r; discriminate).
    unfold bindM. rewrite H. assumption.
  Qed.

  Lemma begin_stops_at_first_failure : forall env es e r s vs s1 g s2,
    run_all env es s vs s1 -> ev env e s1 = (Sig g, s2) -> r <> [] ->
    ev_begin ev env (es ++ e :: r) s = (Sig g, s2).
  Proof.
    intros env es e r s vs s1 g s2 H He Hr. induction H.
    - simpl app. rewrite ev_begin_cons by assumption. unfold bindM. rewrite He. reflexivity.
    - change ((e0 :: r0) ++ e :: r) with (e0 :: (r0 ++ e :: r)).
      rewrite ev_begin_cons by (destruct r0; discriminate).
      unfold bindM. rewrite H. apply IHrun_all. assumption.
  Qed.

  (* arguments of a call: each one evaluated exactly once, left to right *)
  Inductive run_args (env : list nat) : list expr -> store -> list value -> store -> Prop :=
  | rg_nil : forall s, run_args env [] s [] s
  | rg_cons : forall e r s v s1 vs s2,
      cc [] e = true -> ev env e s = (Done v, s1) -> run_args env r s1 vs s2 ->
      run_args env (e :: r) s (v :: vs) s2.

  Lemma ev_args_iff_run_args : forall env es s vs s',
    ev_args ev env es s = (Done vs, s') <-> run_args env es s vs s'.
  Proof.
    intros env es. induction es as [|e r IH]; intros s vs s'; simpl.
    - unfold ret. split; intros H; [inversion H; constructor|inversion H; reflexivity].
    - split.
      + destruct (cc [] e) eqn:Ec; [|discriminate].
        unfold bindM. destruct (ev env e s) as [[v|g|] s1] eqn:Ee; try discriminate.
        destruct (ev_args ev env r s1) as [[vs1|g|] s2] eqn:Er; try discriminate.
        unfold ret. intros H; inversion H; subst. econstructor; eauto. apply IH. assumption.
      + intros H. inversion H as [|e' r' s0 v s1 vs1 s2 Hc He Hr]; subst. rewrite Hc. unfold bindM. rewrite He.
        apply IH in Hr. rewrite Hr. reflexivity.
  Qed.

  Lemma ev_args_app : forall env es1 es2 s vs1 s1,
    ev_args ev env es1 s = (Done vs1, s1) ->
    ev_args ev env (es1 ++ es2) s =
    match ev_args ev env es2 s1 with
    | (Done vs2, s2) => (Done (vs1 ++ vs2), s2)
    | (Sig g, s2) => (Sig g, s2)
    | (Fuel, s2) => (Fuel, s2)
    end.
  Proof.
    intros env es1. induction es1 as [|e r IH]; intros es2 s vs1 s1 H; simpl in *.
    - inversion H; subst. destruct (ev_args ev env es2 s1) as [[?|?|] ?]; reflexivity.
    - destruct (cc [] e); [|discriminate]. unfold bindM in *.
      destruct (ev env e s) as [[v|g|] s0]; try discriminate.
      destruct (ev_args ev env r s0) as [[vs0|g|] s2] eqn:Er; try discriminate.
      inversion H; subst. rewrite (IH es2 _ _ _ Er).
      destruct (ev_args ev env es2 s1) as [[?|?|] ?]; reflexivity.
  Qed.

  (* a failing argument stops the call: later arguments are not evaluated *)
  Lemma ev_args_stops : forall env es1 e r s vs1 s1 g s2,
    ev_args ev env es1 s = (Done vs1, s1) -> cc [] e = true -> ev env e s1 = (Sig g, s2) ->
    ev_args ev env (es1 ++ e :: r) s = (Sig g, s2).
  Proof.
    intros. rewrite (ev_args_app _ _ _ _ _ _ H). simpl. rewrite H0. unfold bindM. rewrite H1. reflexivity.
  Qed.
End Combinators.

(* the call: callee first, then the arguments, then the application (which receives the
   callee value, the argument values and the store, but NOT the caller's static chain) *)
Lemma call_sequence : forall n env f args s fv s1 vs s2,
  (match f with EVar _ => true | _ => cc [] f end) = true ->
  eval n env f s = (Done fv, s1) -> is_fn fv = true ->
  ev_args (eval n) env args s1 = (Done vs, s2) ->
  eval (S n) env (ECall f args) s = apply n fv vs s2.
Proof.
  intros n env f args s fv s1 vs s2 Hc Hf Hfn Ha.
  simpl. unfold call_expr, bindM.
  assert (E : (match f with EVar _ => eval n env f | _ => if cc [] f then eval n env f else raise ELoop end) s
              = (Done fv, s1)).
  { destruct f; try (rewrite Hc); assumption. }
  rewrite E. destruct fv; try discriminate; rewrite Ha; reflexivity.
Qed.

Lemma call_callee_fails : forall n env f args s g s1,
  (match f with EVar _ => true | _ => cc [] f end) = true ->
  eval n env f s = (Sig g, s1) ->
  eval (S n) env (ECall f args) s = (Sig g, s1).
Proof.
  intros n env f args s g s1 Hc Hf. simpl. unfold call_expr, bindM.
  assert (E : (match f with EVar _ => eval n env f | _ => if cc [] f then eval n env f else raise ELoop end) s
              = (Sig g, s1)).
  { destruct f; try (rewrite Hc); assumption. }
  rewrite E. reflexivity.
Qed.

(* break / continue and the loop they address *)
Lemma for_loop_break_hits : forall ev k env lbl test step body s t s1 l s2,
  ev env test s = (Done t, s1) -> truthy t = true ->
  ev_begin ev env body s1 = (Sig (SBreak l), s2) -> hits l lbl = true ->
  for_loop ev (S k) env lbl test step body s = (Done VNil, s2).
Proof.
  intros. simpl. unfold bindM, no_loop_sig. rewrite H. rewrite H0. rewrite H1, H2. reflexivity.
Qed.

Lemma for_loop_break_passes : forall ev k env lbl test step body s t s1 l s2,
  ev env test s = (Done t, s1) -> truthy t = true ->
  ev_begin ev env body s1 = (Sig (SBreak l), s2) -> hits l lbl = false ->
  for_loop ev (S k) env lbl test step body s = (Sig (SBreak l), s2).
Proof.
  intros. simpl. unfold bindM, no_loop_sig. rewrite H. rewrite H0. rewrite H1, H2. reflexivity.
Qed.

Lemma for_loop_continue_hits : forall ev k env lbl test step body s t s1 l s2,
  ev env test s = (Done t, s1) -> truthy t = true ->
  ev_begin ev env body s1 = (Sig (SCont l), s2) -> hits l lbl = true ->
  for_loop ev (S k) env lbl test step body s =
  (_ <- no_loop_sig EUnspec (ev env step) ;; for_loop ev k env lbl test step body) s2.
Proof.
  intros. simpl. unfold bindM at 1. unfold no_loop_sig at 1. rewrite H. rewrite H0. rewrite H1, H2. reflexivity.
Qed.

Lemma for_loop_continue_passes : forall ev k env lbl test step body s t s1 l s2,
  ev env test s = (Done t, s1) -> truthy t = true ->
  ev_begin ev env body s1 = (Sig (SCont l), s2) -> hits l lbl = false ->
  for_loop ev (S k) env lbl test step body s = (Sig (SCont l), s2).
Proof.
  intros. simpl. unfold bindM, no_loop_sig. rewrite H. rewrite H0. rewrite H1, H2. reflexivity.
Qed.

Lemma for_loop_exit : forall ev k env lbl test step body s t s1,
  ev env test s = (Done t, s1) -> truthy t = false ->
  for_loop ev (S k) env lbl test step body s = (Done VNil, s1).
Proof. intros. simpl. unfold bindM, no_loop_sig. rewrite H. rewrite H0. reflexivity. Qed.

(* which loop a break addresses: an unlabelled one the innermost, a labelled one the
   innermost loop carrying that label *)
Lemma hits_unlabelled : forall mine, hits None mine = true.
Proof. reflexivity. Qed.
Lemma hits_labelled : forall x mine, hits (Some x) mine = true <-> mine = Some x.
Proof.
  intros x mine. simpl. destruct mine as [y|]; split; intros H; try discriminate.
  - apply Z.eqb_eq in H. subst. reflexivity.
  - inversion H; subst. apply Z.eqb_refl.
Qed.

(* a break/continue never crosses a function activation: it becomes the error ELoop there *)
Lemma no_loop_sig_spec : forall A e (m : M A) s r s1, no_loop_sig e m s = (r, s1) ->
  (forall l, r <> Sig (SBreak l)) /\ (forall l, r <> Sig (SCont l)).
Proof.
  unfold no_loop_sig. intros A e m s r s1 H.
  destruct (m s) as [[a|[l|l|e0]|] s0]; inversion H; subst; split; intros; discriminate.
Qed.

(* ================================================================= 4. arithmetic *)

Lemma arith2 : forall op a b, arith op (VInt a) [VInt b] = ret (VInt (wrap64 (op a b))).
Proof. reflexivity. Qed.

Lemma add_wraps_ref : forall ap a b s,
  prim_apply ap PAdd [VInt a; VInt b] s = (Done (VInt (wrap64 (a + b))), s) /\
  in_i64 (wrap64 (a + b)) = true /\ (wrap64 (a + b) - (a + b)) mod two64 = 0.
Proof. intros. split; [reflexivity|]. split; [apply wrap64_range|apply wrap64_congr]. Qed.

Lemma sub_wraps_ref : forall ap a b s,
  prim_apply ap PSub [VInt a; VInt b] s = (Done (VInt (wrap64 (a - b))), s) /\
  in_i64 (wrap64 (a - b)) = true /\ (wrap64 (a - b) - (a - b)) mod two64 = 0.
Proof. intros. split; [reflexivity|]. split; [apply wrap64_range|apply wrap64_congr]. Qed.

Lemma mul_wraps_ref : forall ap a b s,
  prim_apply ap PMul [VInt a; VInt b] s = (Done (VInt (wrap64 (a * b))), s) /\
  in_i64 (wrap64 (a * b)) = true /\ (wrap64 (a * b) - (a * b)) mod two64 = 0.
Proof. intros. split; [reflexivity|]. split; [apply wrap64_range|apply wrap64_congr]. Qed.

(* ================================================================= 4b. floats, list concatenation, apply *)

(* every float is true, 0.0 included (expressions.go:IsTruthy has no float case) *)
Lemma float_is_true_ref : forall m e, truthy (VFlt m e) = true.
Proof. reflexivity. Qed.

Lemma val_list_list_val : forall l, val_list (list_val l) = Some l.
Proof. induction l as [|v l IH]; simpl; [reflexivity|rewrite IH; reflexivity]. Qed.

Lemma cat_lists_app : forall ls acc, cat_lists acc (map list_val ls) = Some (acc ++ concat ls).
Proof.
  induction ls as [|l ls IH]; simpl; intros acc; [rewrite app_nil_r; reflexivity|].
  rewrite val_list_list_val, IH, app_assoc. reflexivity.
Qed.

Lemma no_sym_lists : forall ls,
  existsb (fun v => match v with VSym _ => true | _ => false end) (map list_val ls) = false.
Proof. induction ls as [|l ls IH]; simpl; [reflexivity|]. rewrite IH. destruct l; reflexivity. Qed.

(* concat of two or more lists: the elements of all of them in order, and nothing else happens (lists
   are values: no argument can change, the store is the one before) *)
Lemma concat_lists_ref : forall ap v l l2 ls s,
  prim_apply ap PConcat (list_val (v :: l) :: list_val l2 :: map list_val ls) s
  = (Done (list_val ((v :: l) ++ l2 ++ concat ls)), s).
Proof.
  intros. pose proof (no_sym_lists ((v :: l) :: l2 :: ls)) as Hn.
  simpl in Hn |- *. rewrite Hn. rewrite !val_list_list_val. rewrite cat_lists_app.
  rewrite <- app_assoc. reflexivity.
Qed.

(* apply hands the ELEMENTS of its second argument to the function as they are: they are not evaluated
   again (a symbol stays a symbol, a list a list) and an array among them is the same array *)
Lemma apply_passes_values_ref : forall ap f a o s, is_fn f = true -> nth_error (arrays s) a = Some o ->
  prim_apply ap PApply [f; VArr a] s = ap f (a_elems o) s.
Proof. intros ap f a o s Hf Ha. simpl. rewrite Hf. unfold bindM, get_arr. rewrite Ha. reflexivity. Qed.

Lemma apply_passes_list_ref : forall ap f v l s, is_fn f = true ->
  prim_apply ap PApply [f; list_val (v :: l)] s = ap f (v :: l) s.
Proof. intros ap f v l s Hf. simpl. rewrite Hf. rewrite val_list_list_val. reflexivity. Qed.

(* integer division (numerictower.go:NumericIntDo Div): an exact quotient is an integer, an inexact one is
   the float64 quotient fdiv_z, written m * 2^e *)
Lemma div_ref : forall ap a b s, (b =? 0) = false ->
  prim_apply ap PDiv [VInt a; VInt b] s =
  if Z.rem a b =? 0 then (Done (VInt (wrap64 (Z.quot a b))), s)
  else match flt_of_f64 (fdiv_z a b) with
       | Some me => (Done (VFlt (fst me) (snd me)), s)
       | None => (Sig (SErr EUnspec), s)
       end.
Proof.
  intros ap a b s Hb. simpl. rewrite Hb. destruct (Z.rem a b =? 0); [reflexivity|].
  destruct (flt_of_f64 _); reflexivity.
Qed.

Lemma div_exact_ref : forall ap a b s, (b =? 0) = false -> Z.rem a b = 0 ->
  prim_apply ap PDiv [VInt a; VInt b] s = (Done (VInt (wrap64 (Z.quot a b))), s).
Proof. intros ap a b s Hb Hr. simpl. rewrite Hb, Hr. reflexivity. Qed.

Lemma div_inexact_not_int_ref : forall ap a b s z, (b =? 0) = false -> Z.rem a b <> 0 ->
  fst (prim_apply ap PDiv [VInt a; VInt b] s) <> Done (VInt z).
Proof.
  intros ap a b s z Hb Hr. simpl. rewrite Hb. destruct (Z.rem a b =? 0) eqn:E; [apply Z.eqb_eq in E; contradiction|].
  destruct (flt_of_f64 _); simpl; discriminate.
Qed.

(* concat / append on a string: characters are appended as their UTF-8 encoding *)
Lemma concat_str_chr_ref : forall ap s0 c t s,
  prim_apply ap PConcat [VStr s0; VChr c; VStr t] s = (Done (VStr ((s0 ++ utf8 c) ++ t)), s) /\
  prim_apply ap PAppend [VStr s0; VChr c] s = (Done (VStr (s0 ++ utf8 c)), s).
Proof. intros. split; reflexivity. Qed.

(* ================================================================= 5. fuel monotonicity *)

(* m' does whatever m does whenever m finishes (value or signal) *)
Definition le_M {A} (m m' : M A) : Prop :=
  forall s r s', m s = (r, s') -> r <> Fuel -> m' s = (r, s').

Lemma le_M_refl : forall A (m : M A), le_M m m.
Proof. unfold le_M. auto. Qed.

Lemma le_bind : forall A B (m m' : M A) (k k' : A -> M B),
  le_M m m' -> (forall a, le_M (k a) (k' a)) -> le_M (bindM m k) (bindM m' k').
Proof.
  unfold le_M, bindM. intros A B m m' k k' Hm Hk s r s' H Hr.
  destruct (m s) as [[a|g|] s1] eqn:E.
  - rewrite (Hm _ _ _ E) by discriminate. apply Hk; assumption.
  - rewrite (Hm _ _ _ E) by discriminate. assumption.
  - inversion H; subst. congruence.
Qed.

Lemma le_no_loop_sig : forall A e (m m' : M A), le_M m m' -> le_M (no_loop_sig e m) (no_loop_sig e m').
Proof.
  unfold le_M, no_loop_sig. intros A e m m' Hm s r s' H Hr.
  destruct (m s) as [[a|g|] s1] eqn:E.
  - rewrite (Hm _ _ _ E) by discriminate. assumption.
  - rewrite (Hm _ _ _ E) by discriminate. assumption.
  - inversion H; subst. congruence.
Qed.

Lemma le_push : forall A (k k' : nat -> M A), (forall f, le_M (k f) (k' f)) ->
  le_M (fun s => let '(f, s1) := push_frame s in k f s1) (fun s => let '(f, s1) := push_frame s in k' f s1).
Proof.
  unfold le_M. intros A k k' H s r s' E Hr. destruct (push_frame s) as [f s1]. apply H; assumption.
Qed.

Section MonoOpen.
  Variables ev ev' : list nat -> expr -> M value.
  Variables ap ap' : value -> list value -> M value.
  Hypothesis Hev : forall env e, le_M (ev env e) (ev' env e).
  Hypothesis Hap : forall f args, le_M (ap f args) (ap' f args).

  Lemma le_ev_list : forall env es, le_M (ev_list ev env es) (ev_list ev' env es).
  Proof.
    induction es as [|e r IH]; simpl; [apply le_M_refl|].
    apply le_bind; [apply Hev|]. intros v. apply le_bind; [apply IH|]. intros; apply le_M_refl.
  Qed.

  Lemma le_ev_begin : forall env es, le_M (ev_begin ev env es) (ev_begin ev' env es).
  Proof.
    induction es as [|e r IH]; simpl; [apply le_M_refl|].
    destruct r as [|e2 r]; [apply Hev|].
    apply le_bind; [apply Hev|]. intros _. apply IH.
  Qed.

  Lemma le_ev_cond : forall env arms d, le_M (ev_cond ev env arms d) (ev_cond ev' env arms d).
  Proof.
    induction arms as [|[c b] r IH]; simpl; intros d; [apply Hev|].
    apply le_bind; [apply Hev|]. intros v. destruct (truthy v); [apply Hev|apply IH].
  Qed.

  Lemma le_ev_and : forall env es, le_M (ev_and ev env es) (ev_and ev' env es).
  Proof.
    induction es as [|e r IH]; simpl; [apply le_M_refl|].
    destruct r as [|e2 r]; [apply Hev|].
    apply le_bind; [apply Hev|]. intros v. destruct (truthy v); [apply IH|apply le_M_refl].
  Qed.

  Lemma le_ev_or : forall env es, le_M (ev_or ev env es) (ev_or ev' env es).
  Proof.
    induction es as [|e r IH]; simpl; [apply le_M_refl|].
    destruct r as [|e2 r]; [apply Hev|].
    apply le_bind; [apply Hev|]. intros v. destruct (truthy v); [apply le_M_refl|apply IH].
  Qed.

  Lemma le_ev_args : forall env es, le_M (ev_args ev env es) (ev_args ev' env es).
  Proof.
    induction es as [|e r IH]; simpl; [apply le_M_refl|].
    destruct (cc [] e); [|apply le_M_refl].
    apply le_bind; [apply Hev|]. intros v. apply le_bind; [apply IH|]. intros; apply le_M_refl.
  Qed.

  Lemma le_ev_letseq : forall f env bs, le_M (ev_letseq ev f env bs) (ev_letseq ev' f env bs).
  Proof.
    induction bs as [|[x e] r IH]; simpl; [apply le_M_refl|].
    apply le_bind; [apply Hev|]. intros v. apply le_bind; [apply le_M_refl|]. intros _. apply IH.
  Qed.

  Lemma le_for_loop : forall k k' env lbl test step body, (k <= k')%nat ->
    le_M (for_loop ev k env lbl test step body) (for_loop ev' k' env lbl test step body).
  Proof.
    induction k as [|k IH]; intros k' env lbl test step body Hk.
    - unfold le_M. simpl. intros s r s' H Hr. inversion H; subst. congruence.
    - destruct k' as [|k']; [lia|]. simpl.
      apply le_bind; [apply le_no_loop_sig; apply Hev|]. intros t.
      destruct (truthy t); [|apply le_M_refl].
      assert (Hnext : le_M (_ <- no_loop_sig EUnspec (ev env step) ;; for_loop ev k env lbl test step body)
                           (_ <- no_loop_sig EUnspec (ev' env step) ;; for_loop ev' k' env lbl test step body)).
      { apply le_bind; [apply le_no_loop_sig; apply Hev|]. intros _. apply IH. lia. }
      unfold le_M. intros s r s' H Hr.
      destruct (ev_begin ev env body s) as [[v|[l|l|e]|] s1] eqn:E.
      + rewrite (le_ev_begin _ _ _ _ _ E) by discriminate. apply Hnext; assumption.
      + rewrite (le_ev_begin _ _ _ _ _ E) by discriminate. assumption.
      + rewrite (le_ev_begin _ _ _ _ _ E) by discriminate.
        destruct (hits l lbl); [apply Hnext; assumption|assumption].
      + rewrite (le_ev_begin _ _ _ _ _ E) by discriminate. assumption.
      + inversion H; subst. congruence.
  Qed.

  Lemma le_call_expr : forall env f args, le_M (call_expr ev ap env f args) (call_expr ev' ap' env f args).
  Proof.
    intros env f args. unfold call_expr. apply le_bind.
    - destruct f; try apply Hev; destruct (cc [] _); try apply Hev; apply le_M_refl.
    - intros fv. destruct fv; try apply le_M_refl;
        (apply le_bind; [apply le_ev_args|intros vs; apply Hap]).
  Qed.

  Lemma le_map_arr : forall f xs t, le_M (map_arr ap f xs t) (map_arr ap' f xs t).
  Proof.
    induction xs as [|x r IH]; simpl; intros t; [apply le_M_refl|].
    apply le_bind; [apply Hap|]. intros y. apply le_bind; [apply le_M_refl|]. intros t1.
    apply le_bind; [apply IH|]. intros; apply le_M_refl.
  Qed.

  Lemma le_map_pairs : forall f v, le_M (map_pairs ap f v) (map_pairs ap' f v).
  Proof.
    induction v; simpl; try apply le_M_refl.
    apply le_bind; [apply Hap|]. intros h'. apply le_bind; [apply IHv2|]. intros; apply le_M_refl.
  Qed.

  Lemma le_prim_apply : forall p args, le_M (prim_apply ap p args) (prim_apply ap' p args).
  Proof.
    intros p args. destruct p; simpl; try apply le_M_refl.
    - (* PMap *)
      destruct args as [|f [|c [|? ?]]]; try apply le_M_refl.
      destruct (is_fn f); [|apply le_M_refl].
      destruct c; try apply le_M_refl.
      + apply le_map_pairs.
      + apply le_bind; [apply le_M_refl|]. intros o. apply le_bind; [apply le_map_arr|]. intros; apply le_M_refl.
    - (* PApply *)
      destruct args as [|f [|c [|? ?]]]; try apply le_M_refl.
      destruct (is_fn f); [|apply le_M_refl].
      destruct c; try apply le_M_refl.
      + destruct (val_list _); [apply Hap|apply le_M_refl].
      + apply le_bind; [apply le_M_refl|]. intros o. apply Hap.
  Qed.
End MonoOpen.

Lemma eval_apply_step_mono : forall n,
  (forall env e, le_M (eval n env e) (eval (S n) env e)) /\
  (forall f args, le_M (apply n f args) (apply (S n) f args)).
Proof.
  induction n as [|n [IHe IHa]].
  - split; intros; unfold le_M; simpl; intros s r s' H Hr; inversion H; subst; congruence.
  - split.
    + intros env e. destruct e; simpl; try apply le_M_refl.
      * apply le_bind; [apply le_ev_list; assumption|]. intros; apply le_M_refl.
      * apply le_call_expr; assumption.
      * apply le_ev_begin; assumption.
      * apply le_ev_cond; assumption.
      * apply le_ev_and; assumption.
      * apply le_ev_or; assumption.
      * apply le_bind; [apply IHe|]. intros; apply le_M_refl.
      * apply le_bind; [apply IHe|]. intros; apply le_M_refl.
      * destruct seq.
        -- apply (le_push _ (fun f => _ <- ev_letseq (eval n) f (f :: env) bs ;; ev_begin (eval n) (f :: env) body)
                          (fun f => _ <- ev_letseq (eval (S n)) f (f :: env) bs ;; ev_begin (eval (S n)) (f :: env) body)).
           intros f. apply le_bind; [apply le_ev_letseq; assumption|]. intros _. apply le_ev_begin; assumption.
        -- apply (le_push _ (fun f => vs <- ev_list (eval n) (f :: env) (map snd bs) ;;
                                      _ <- bind_all f (rev (combine (map fst bs) vs)) ;; ev_begin (eval n) (f :: env) body)
                          (fun f => vs <- ev_list (eval (S n)) (f :: env) (map snd bs) ;;
                                      _ <- bind_all f (rev (combine (map fst bs) vs)) ;; ev_begin (eval (S n)) (f :: env) body)).
           intros f. apply le_bind; [apply le_ev_list; assumption|]. intros vs.
           apply le_bind; [apply le_M_refl|]. intros _. apply le_ev_begin; assumption.
      * apply (le_push _ (fun f => ev_begin (eval n) (f :: env) es) (fun f => ev_begin (eval (S n)) (f :: env) es)).
        intros f. apply le_ev_begin; assumption.
      * apply (le_push _ (fun f => _ <- no_loop_sig EUnspec (eval n (f :: env) e1) ;;
                                    for_loop (eval n) n (f :: env) lbl e2 e3 body)
                        (fun f => _ <- no_loop_sig EUnspec (eval (S n) (f :: env) e1) ;;
                                    for_loop (eval (S n)) (S n) (f :: env) lbl e2 e3 body)).
        intros f. apply le_bind; [apply le_no_loop_sig; apply IHe|]. intros _.
        apply le_for_loop; [assumption|lia].
    + intros f args. destruct f; simpl; try apply le_M_refl.
      * destruct (zip_params ps rest args []) as [binds|]; [|apply le_M_refl].
        apply (le_push _ (fun fid => _ <- bind_all fid binds ;; no_loop_sig ELoop (ev_begin (eval n) (fid :: env) body))
                        (fun fid => _ <- bind_all fid binds ;; no_loop_sig ELoop (ev_begin (eval (S n)) (fid :: env) body))).
        intros fid. apply le_bind; [apply le_M_refl|]. intros _. apply le_no_loop_sig. apply le_ev_begin; assumption.
      * apply le_prim_apply; assumption.
Qed.

Theorem eval_fuel_mono : forall n n' env e s r s',
  eval n env e s = (r, s') -> r <> Fuel -> (n <= n')%nat -> eval n' env e s = (r, s').
Proof.
  intros n n' env e s r s' H Hr Hle. induction Hle; [assumption|].
  apply (proj1 (eval_apply_step_mono m)); assumption.
Qed.

Theorem apply_fuel_mono : forall n n' f args s r s',
  apply n f args s = (r, s') -> r <> Fuel -> (n <= n')%nat -> apply n' f args s = (r, s').
Proof.
  intros n n' f args s r s' H Hr Hle. induction Hle; [assumption|].
  apply (proj2 (eval_apply_step_mono m)); assumption.
Qed.

(* the evaluator is a function: two runs that both finish agree, whatever their fuel *)
Theorem eval_deterministic : forall n1 n2 env e s r1 s1 r2 s2,
  eval n1 env e s = (r1, s1) -> eval n2 env e s = (r2, s2) -> r1 <> Fuel -> r2 <> Fuel ->
  r1 = r2 /\ s1 = s2.
Proof.
  intros n1 n2 env e s r1 s1 r2 s2 H1 H2 Hr1 Hr2.
  destruct (Nat.le_ge_cases n1 n2) as [L|L].
  - rewrite (eval_fuel_mono _ _ _ _ _ _ _ H1 Hr1 L) in H2. inversion H2; auto.
  - rewrite (eval_fuel_mono _ _ _ _ _ _ _ H2 Hr2 L) in H1. inversion H1; auto.
Qed.

Theorem eval_program_fuel_mono : forall n n' k forms,
  o_res (eval_program_cfg n k forms) <> Fuel -> (n <= n')%nat ->
  eval_program_cfg n' k forms = eval_program_cfg n k forms.
Proof.
  intros n n' k forms H Hle. unfold eval_program_cfg in *.
  destruct (forallb (cc []) forms); [|reflexivity].
  destruct (ev_begin (eval n) [0%nat] forms (init_store k)) as [r s] eqn:E.
  assert (Hr : r <> Fuel).
  { intros ->. apply H. reflexivity. }
  assert (L : le_M (ev_begin (eval n) [0%nat] forms) (ev_begin (eval n') [0%nat] forms)).
  { apply le_ev_begin. intros env e s0 r0 s0' H0 Hr0. eapply eval_fuel_mono; eauto. }
  rewrite (L _ _ _ E Hr). reflexivity.
Qed.

(* ================================================================= 6. the store only grows *)


(* s' extends s: the trace is extended at the new end, no frame and no binding disappears,
   no array disappears, the failure threshold is unchanged *)
Definition ext (s s' : store) : Prop :=
  (exists t, trace s' = t ++ trace s) /\
  (forall f fr x v, nth_error (frames s) f = Some fr -> assoc x fr = Some v ->
     exists fr' v', nth_error (frames s') f = Some fr' /\ assoc x fr' = Some v') /\
  (forall f, (f < length (frames s))%nat -> (f < length (frames s'))%nat) /\
  (forall a, (a < length (arrays s))%nat -> (a < length (arrays s'))%nat) /\
  fail_at s' = fail_at s.

Lemma ext_refl : forall s, ext s s.
Proof.
  intros s. repeat split; auto. - exists []. reflexivity. - intros; eauto.
Qed.

Lemma ext_trans : forall a b c, ext a b -> ext b c -> ext a c.
Proof.
  intros a b c (T1 & F1 & L1 & A1 & K1) (T2 & F2 & L2 & A2 & K2). repeat split.
  - destruct T1 as [t1 E1], T2 as [t2 E2]. exists (t2 ++ t1). rewrite E2, E1, app_assoc. reflexivity.
  - intros f fr x v Hf Ha. destruct (F1 _ _ _ _ Hf Ha) as (fr1 & v1 & Hf1 & Ha1). eauto.
  - auto.
  - auto.
  - congruence.
Qed.

Definition pres {A} (m : M A) : Prop := forall s r s', m s = (r, s') -> ext s s'.

Lemma pres_ret : forall A (a : A), pres (ret a).
Proof. unfold pres, ret. intros. inversion H; subst. apply ext_refl. Qed.
Lemma pres_raise : forall A e, pres (@raise A e).
Proof. unfold pres, raise. intros. inversion H; subst. apply ext_refl. Qed.

Lemma pres_bind : forall A B (m : M A) (k : A -> M B), pres m -> (forall a, pres (k a)) -> pres (bindM m k).
Proof.
  unfold pres, bindM. intros A B m k Hm Hk s r s' H.
  destruct (m s) as [[a|g|] s1] eqn:E.
  - eapply ext_trans; [eapply Hm; eauto|eapply Hk; eauto].
  - inversion H; subst. eapply Hm; eauto.
  - inversion H; subst. eapply Hm; eauto.
Qed.

Lemma pres_no_loop_sig : forall A e (m : M A), pres m -> pres (no_loop_sig e m).
Proof.
  unfold pres, no_loop_sig. intros A e m Hm s r s' H.
  destruct (m s) as [[a|[l|l|e0]|] s1] eqn:E; inversion H; subst; eapply Hm; eauto.
Qed.

Lemma ext_with_arrays : forall s ars, (length (arrays s) <= length ars)%nat -> ext s (with_arrays s ars).
Proof.
  intros s ars H. repeat split; simpl; auto.
  - exists []. reflexivity.
  - intros; eauto.
  - intros; lia.
Qed.

Lemma ext_upd_frame : forall s f x v, ext s (upd_frame f x v s).
Proof.
  intros s f x v. unfold upd_frame. destruct (nth_error (frames s) f) as [fr|] eqn:E; [|apply ext_refl].
  assert (Hlen : (f < length (frames s))%nat) by (apply nth_error_Some; congruence).
  repeat split; simpl; auto.
  - exists []. reflexivity.
  - intros g fg y w Hg Hy. destruct (Nat.eq_dec f g) as [<-|Hne].
    + rewrite nth_error_set_nth_same by assumption. rewrite E in Hg. inversion Hg; subst fg.
      destruct (Z.eq_dec x y) as [<-|Hxy].
      * eexists _, _. split; [reflexivity|apply assoc_fr_set_same].
      * eexists _, _. split; [reflexivity|]. rewrite assoc_fr_set_other by assumption. eassumption.
    + rewrite nth_error_set_nth_other by assumption. eauto.
  - intros g Hg. rewrite length_set_nth. assumption.
Qed.

Lemma type_of_length : forall d ars v, length (snd (type_of d ars v)) = length ars.
Proof.
  induction d as [|d IH]; intros ars v; destruct v; simpl; auto.
  destruct (nth_error ars a) as [o|]; simpl; auto.
  destruct (a_ty o); simpl; auto.
  destruct (a_elems o) as [|v0 r]; simpl; [apply length_set_nth|].
  specialize (IH ars v0). destruct (type_of d ars v0) as [[t|] ars1]; simpl in *; auto.
  destruct (nth_error ars1 a); simpl; [rewrite length_set_nth|]; assumption.
Qed.

Arguments type_of : simpl never.
Arguments cmp_val : simpl never.
Arguments snap : simpl never.

Lemma pres_bind_frame : forall f x v, pres (bind f x v).
Proof.
  unfold pres, bind. intros f x v s r s' H.
  destruct (nth_error (frames s) f) as [fr|]; [|inversion H; subst; apply ext_refl].
  destruct (assoc x fr) as [cur|].
  - pose proof (type_of_length depth_limit (arrays s) cur) as L1.
    destruct (type_of depth_limit (arrays s) cur) as [lt ars1]. simpl in L1.
    pose proof (type_of_length depth_limit ars1 v) as L2.
    destruct (type_of depth_limit ars1 v) as [rt ars2]. simpl in L2.
    assert (E2 : ext s (with_arrays s ars2)) by (apply ext_with_arrays; lia).
    destruct lt as [a|]; destruct rt as [b|]; try (destruct (ty_eqb a b));
      inversion H; subst; try assumption;
      (eapply ext_trans; [exact E2|apply ext_upd_frame]).
  - inversion H; subst. apply ext_upd_frame.
Qed.

Lemma pres_bind_all : forall f xs, pres (bind_all f xs).
Proof.
  induction xs as [|[x v] r IH]; simpl; [apply pres_ret|].
  apply pres_bind; [apply pres_bind_frame|]. intros _. apply IH.
Qed.

Lemma ext_push_frame : forall s, ext s (snd (push_frame s)).
Proof.
  intros s. unfold push_frame. simpl. repeat split; simpl; auto.
  - exists []. reflexivity.
  - intros f fr x v Hf Ha. exists fr, v. split; [|assumption].
    rewrite nth_error_app1; [assumption|]. apply nth_error_Some. congruence.
  - intros f Hf. rewrite app_length. simpl. lia.
Qed.

Lemma pres_push : forall A (k : nat -> M A), (forall f, pres (k f)) ->
  pres (fun s => let '(f, s1) := push_frame s in k f s1).
Proof.
  unfold pres. intros A k H s r s' E. pose proof (ext_push_frame s) as P.
  destruct (push_frame s) as [f s1]. simpl in P. eapply ext_trans; [exact P|eapply H; eauto].
Qed.

Lemma pres_alloc_arr : forall vs t, pres (alloc_arr vs t).
Proof.
  unfold pres, alloc_arr. intros vs t s r s' H. inversion H; subst.
  apply ext_with_arrays. rewrite app_length. lia.
Qed.

Lemma pres_get_arr : forall a, pres (get_arr a).
Proof.
  unfold pres, get_arr. intros a s r s' H.
  destruct (nth_error (arrays s) a); inversion H; subst; apply ext_refl.
Qed.

Section PresOpen.
  Variable ev : list nat -> expr -> M value.
  Variable ap : value -> list value -> M value.
  Hypothesis Hev : forall env e, pres (ev env e).
  Hypothesis Hap : forall f args, pres (ap f args).

  Lemma pres_ev_list : forall env es, pres (ev_list ev env es).
  Proof.
    induction es as [|e r IH]; simpl; [apply pres_ret|].
    apply pres_bind; [apply Hev|]. intros v. apply pres_bind; [apply IH|]. intros; apply pres_ret.
  Qed.

  Lemma pres_ev_begin : forall env es, pres (ev_begin ev env es).
  Proof.
    induction es as [|e r IH]; simpl; [apply pres_ret|].
    destruct r as [|e2 r]; [apply Hev|]. apply pres_bind; [apply Hev|]. intros _. apply IH.
  Qed.

  Lemma pres_ev_cond : forall env arms d, pres (ev_cond ev env arms d).
  Proof.
    induction arms as [|[c b] r IH]; simpl; intros d; [apply Hev|].
    apply pres_bind; [apply Hev|]. intros v. destruct (truthy v); [apply Hev|apply IH].
  Qed.

  Lemma pres_ev_and : forall env es, pres (ev_and ev env es).
  Proof.
    induction es as [|e r IH]; simpl; [apply pres_raise|].
    destruct r as [|e2 r]; [apply Hev|].
    apply pres_bind; [apply Hev|]. intros v. destruct (truthy v); [apply IH|apply pres_ret].
  Qed.

  Lemma pres_ev_or : forall env es, pres (ev_or ev env es).
  Proof.
    induction es as [|e r IH]; simpl; [apply pres_raise|].
    destruct r as [|e2 r]; [apply Hev|].
    apply pres_bind; [apply Hev|]. intros v. destruct (truthy v); [apply pres_ret|apply IH].
  Qed.

  Lemma pres_ev_args : forall env es, pres (ev_args ev env es).
  Proof.
    induction es as [|e r IH]; simpl; [apply pres_ret|].
    destruct (cc [] e); [|apply pres_raise].
    apply pres_bind; [apply Hev|]. intros v. apply pres_bind; [apply IH|]. intros; apply pres_ret.
  Qed.

  Lemma pres_ev_letseq : forall f env bs, pres (ev_letseq ev f env bs).
  Proof.
    induction bs as [|[x e] r IH]; simpl; [apply pres_ret|].
    apply pres_bind; [apply Hev|]. intros v. apply pres_bind; [apply pres_bind_frame|]. intros _. apply IH.
  Qed.

  Lemma pres_for_loop : forall k env lbl test step body, pres (for_loop ev k env lbl test step body).
  Proof.
    induction k as [|k IH]; intros env lbl test step body; simpl.
    - unfold pres. intros s r s' H. inversion H; subst. apply ext_refl.
    - apply pres_bind; [apply pres_no_loop_sig; apply Hev|]. intros t.
      destruct (truthy t); [|apply pres_ret].
      assert (Hnext : pres (_ <- no_loop_sig EUnspec (ev env step) ;; for_loop ev k env lbl test step body)).
      { apply pres_bind; [apply pres_no_loop_sig; apply Hev|]. intros _. apply IH. }
      unfold pres. intros s r s' H.
      pose proof (pres_ev_begin env body s) as PB.
      destruct (ev_begin ev env body s) as [[v|[l|l|e]|] s1] eqn:E; specialize (PB _ _ eq_refl).
      + eapply ext_trans; [exact PB|eapply Hnext; eauto].
      + destruct (hits l lbl); inversion H; subst; assumption.
      + destruct (hits l lbl); [eapply ext_trans; [exact PB|eapply Hnext; eauto]|inversion H; subst; assumption].
      + inversion H; subst; assumption.
      + inversion H; subst; assumption.
  Qed.

  Lemma pres_call_expr : forall env f args, pres (call_expr ev ap env f args).
  Proof.
    intros env f args. unfold call_expr. apply pres_bind.
    - destruct f; try apply Hev; destruct (cc [] _); try apply Hev; apply pres_raise.
    - intros fv. destruct fv; try apply pres_raise;
        try (destruct args; [apply pres_ret|apply pres_raise]);
        (apply pres_bind; [apply pres_ev_args|intros vs; apply Hap]).
  Qed.

  Lemma pres_arith : forall op r acc, pres (arith op acc r).
  Proof.
    induction r as [|b r IH]; simpl; intros acc; [destruct acc; first [apply pres_ret|apply pres_raise]|].
    destruct acc; try apply pres_raise; destruct b; try apply pres_raise. apply IH.
  Qed.

  Lemma pres_divide : forall r acc, pres (divide acc r).
  Proof.
    induction r as [|b r IH]; simpl; intros acc; [apply pres_ret|].
    destruct acc; try apply pres_raise. destruct b; try apply pres_raise.
    destruct (_ =? 0); [apply pres_raise|]. destruct (_ =? 0); [apply IH|].
    destruct (flt_of_f64 _); [apply IH|apply pres_raise].
  Qed.

  Lemma pres_compare_prim : forall test args, pres (compare_prim test args).
  Proof.
    intros test args. unfold compare_prim.
    destruct args as [|a [|b [|? ?]]]; try apply pres_raise.
    unfold pres. intros s r s' H. destruct (cmp_val _ _ _ _); inversion H; subst; apply ext_refl.
  Qed.

  Lemma pres_map_arr : forall f xs t, pres (map_arr ap f xs t).
  Proof.
    induction xs as [|x r IH]; simpl; intros t; [apply pres_ret|].
    apply pres_bind; [apply Hap|]. intros y. apply pres_bind.
    - destruct t; [apply pres_ret|]. unfold pres. intros s r0 s' H.
      pose proof (type_of_length depth_limit (arrays s) y) as L.
      destruct (type_of depth_limit (arrays s) y) as [ty1 ars1]. simpl in L.
      inversion H; subst. apply ext_with_arrays. lia.
    - intros t1. apply pres_bind; [apply IH|]. intros; apply pres_ret.
  Qed.

  Lemma pres_map_pairs : forall f v, pres (map_pairs ap f v).
  Proof.
    induction v; simpl; try apply pres_raise; try apply pres_ret.
    apply pres_bind; [apply Hap|]. intros h'. apply pres_bind; [apply IHv2|]. intros; apply pres_ret.
  Qed.

  Lemma pres_cat_arrs : forall rest acc, pres (cat_arrs acc rest).
  Proof.
    induction rest as [|b r IH]; simpl; intros acc; [apply pres_ret|].
    destruct b; try apply pres_raise. apply pres_bind; [apply pres_get_arr|]. intros o. apply IH.
  Qed.

  Lemma pres_aset_write : forall a i v o,
    pres (fun s => (Done VNil, with_arrays s (set_nth a (mkArr (set_nth (Z.to_nat i) v (a_elems o)) (a_ty o)) (arrays s)))).
  Proof.
    unfold pres. intros a i v o s r s' H. inversion H; subst. apply ext_with_arrays. rewrite length_set_nth. lia.
  Qed.

  Ltac pres_auto :=
    repeat first
      [ apply pres_ret | apply pres_raise | apply pres_alloc_arr | apply pres_aset_write
      | apply pres_compare_prim | apply pres_arith | apply pres_divide | apply Hap | apply pres_map_pairs | apply pres_cat_arrs
      | apply pres_bind; [first [apply pres_get_arr | apply pres_map_arr | apply pres_cat_arrs]|intros ?]
      | match goal with |- pres (match ?x with _ => _ end) => destruct x end
      | match goal with |- pres (if ?x then _ else _) => destruct x end ].

  Lemma pres_prim_apply : forall p args, pres (prim_apply ap p args).
  Proof.
    intros p args. destruct p; simpl; try (solve [pres_auto]).
    - (* PTrace *)
      unfold pres. intros s r s' H. inversion H; subst. repeat split; simpl; auto.
      + eexists [_]. reflexivity.
      + intros; eauto.
    - (* PFailK *)
      unfold pres. intros s r s' H.
      match type of H with (if ?c then _ else _) = _ => destruct c end;
        inversion H; subst; (repeat split; simpl; auto; [exists []; reflexivity|intros; eauto]).
  Qed.
End PresOpen.

Lemma eval_apply_pres : forall n,
  (forall env e, pres (eval n env e)) /\ (forall f args, pres (apply n f args)).
Proof.
  induction n as [|n [IHe IHa]].
  - split; intros; unfold pres; simpl; intros s r s' H; inversion H; subst; apply ext_refl.
  - split.
    + intros env e. destruct e; simpl; try apply pres_ret.
      * unfold pres. intros s r s' H. destruct (lookup_chain _ _ _) as [[? ?]|]; inversion H; subst; apply ext_refl.
      * apply pres_bind; [apply pres_ev_list; assumption|]. intros; apply pres_alloc_arr.
      * apply pres_call_expr; assumption.
      * apply pres_ev_begin; assumption.
      * apply pres_ev_cond; assumption.
      * apply pres_ev_and; assumption.
      * apply pres_ev_or; assumption.
      * apply pres_bind; [apply IHe|]. intros v. apply pres_bind; [apply pres_bind_frame|]. intros; apply pres_ret.
      * apply pres_bind; [apply IHe|]. intros v. unfold pres. intros s r s' H.
        destruct (lookup_chain _ _ _) as [[f ?]|].
        -- inversion H; subst. apply ext_upd_frame.
        -- revert H. apply (pres_bind _ _ (bind (hd 0%nat env) x v) (fun _ => ret v)); [apply pres_bind_frame|intros; apply pres_ret].
      * destruct seq.
        -- apply (pres_push _ (fun f => _ <- ev_letseq (eval n) f (f :: env) bs ;; ev_begin (eval n) (f :: env) body)).
           intros f. apply pres_bind; [apply pres_ev_letseq; assumption|]. intros _. apply pres_ev_begin; assumption.
        -- apply (pres_push _ (fun f => vs <- ev_list (eval n) (f :: env) (map snd bs) ;;
                                       _ <- bind_all f (rev (combine (map fst bs) vs)) ;; ev_begin (eval n) (f :: env) body)).
           intros f. apply pres_bind; [apply pres_ev_list; assumption|]. intros vs.
           apply pres_bind; [apply pres_bind_all|]. intros _. apply pres_ev_begin; assumption.
      * apply (pres_push _ (fun f => ev_begin (eval n) (f :: env) es)). intros f. apply pres_ev_begin; assumption.
      * apply (pres_push _ (fun f => _ <- no_loop_sig EUnspec (eval n (f :: env) e1) ;;
                                     for_loop (eval n) n (f :: env) lbl e2 e3 body)).
        intros f. apply pres_bind; [apply pres_no_loop_sig; apply IHe|]. intros _. apply pres_for_loop; assumption.
      * unfold pres. intros s r s' H. inversion H; subst. apply ext_refl.
      * unfold pres. intros s r s' H. inversion H; subst. apply ext_refl.
      * apply pres_bind; [apply pres_bind_frame|]. intros; apply pres_ret.
    + intros f args. destruct f; simpl; try apply pres_raise.
      * destruct (zip_params ps rest args []) as [binds|]; [|apply pres_raise].
        apply (pres_push _ (fun fid => _ <- bind_all fid binds ;; no_loop_sig ELoop (ev_begin (eval n) (fid :: env) body))).
        intros fid. apply pres_bind; [apply pres_bind_all|]. intros _. apply pres_no_loop_sig. apply pres_ev_begin; assumption.
      * apply pres_prim_apply; assumption.
Qed.

(* frames and their bindings are never removed; the trace is only ever extended *)
Theorem eval_extends_store : forall n env e s r s', eval n env e s = (r, s') -> ext s s'.
Proof. intros. eapply (proj1 (eval_apply_pres n)); eauto. Qed.

Theorem apply_extends_store : forall n f args s r s', apply n f args s = (r, s') -> ext s s'.
Proof. intros. eapply (proj2 (eval_apply_pres n)); eauto. Qed.

(* ================================================================= 7. closures ignore the caller's frames *)

Ltac csplit := repeat match goal with |- _ /\ _ => split end.

Section NonInterference.
  (* F: a set of frames (the caller's locals) that nothing else refers to *)
  Variable F : nat -> Prop.
  Hypothesis F_not_global : ~ F 0%nat.      (* the global frame is not hidden *)

  Definition disj (env : list nat) : Prop := Forall (fun f => ~ F f) env.

  Fixpoint val_ok (v : value) : Prop :=
    match v with
    | VClos _ _ _ _ env => disj env
    | VPair h t => val_ok h /\ val_ok t
    | _ => True
    end.

  Definition frame_ok (fr : frame) : Prop := Forall (fun xv => val_ok (snd xv)) fr.
  Definition arrs_ok (ars : list arrobj) : Prop :=
    forall a o, nth_error ars a = Some o -> Forall val_ok (a_elems o).

  (* the two stores agree on everything except the contents of the frames in F, and no
     value outside F mentions a frame of F *)
  Record rel (s1 s2 : store) : Prop := mkRel {
    r_len : length (frames s1) = length (frames s2);
    r_bound : forall f, F f -> (f < length (frames s1))%nat;
    r_same : forall f, ~ F f -> nth_error (frames s1) f = nth_error (frames s2) f;
    r_ok : forall f fr, ~ F f -> nth_error (frames s1) f = Some fr -> frame_ok fr;
    r_arr : arrays s1 = arrays s2;
    r_arr_ok : arrs_ok (arrays s1);
    r_trace : trace s1 = trace s2;
    r_ctr : fail_ctr s1 = fail_ctr s2;
    r_at : fail_at s1 = fail_at s2
  }.

  Definition unt (s s' : store) : Prop :=
    forall f, F f -> nth_error (frames s') f = nth_error (frames s) f.

  Lemma unt_refl : forall s, unt s s. Proof. unfold unt; auto. Qed.
  Lemma unt_trans : forall a b c, unt a b -> unt b c -> unt a c.
  Proof. unfold unt. intros a b c H1 H2 f Hf. rewrite H2, H1; auto. Qed.

  Definition ni {A} (ok : A -> Prop) (m : M A) : Prop :=
    forall s1 s2 r s1', rel s1 s2 -> m s1 = (r, s1') ->
      exists s2', m s2 = (r, s2') /\ rel s1' s2' /\ unt s1 s1' /\ unt s2 s2' /\
                  (forall a, r = Done a -> ok a).

  Lemma rel_store : forall s1 s2 ars tr c, rel s1 s2 -> arrs_ok ars ->
    rel (mkStore (frames s1) ars tr c (fail_at s1)) (mkStore (frames s2) ars tr c (fail_at s1)).
  Proof. intros s1 s2 ars tr c R H. constructor; simpl; try apply R; auto. Qed.

  Lemma fin_same : forall A (ok : A -> Prop) (r : res A) s1 s2,
    rel s1 s2 -> (forall a, r = Done a -> ok a) ->
    exists s2', (r, s2) = (r, s2') /\ rel s1 s2' /\ unt s1 s1 /\ unt s2 s2' /\ (forall a, r = Done a -> ok a).
  Proof. intros. exists s2. auto using unt_refl. Qed.

  Lemma fin_store : forall A (ok : A -> Prop) (r : res A) s1 s2 ars tr c,
    rel s1 s2 -> arrs_ok ars -> (forall a, r = Done a -> ok a) ->
    exists s2', (r, mkStore (frames s2) ars tr c (fail_at s1)) = (r, s2') /\
                rel (mkStore (frames s1) ars tr c (fail_at s1)) s2' /\
                unt s1 (mkStore (frames s1) ars tr c (fail_at s1)) /\ unt s2 s2' /\
                (forall a, r = Done a -> ok a).
  Proof.
    intros. eexists. split; [reflexivity|]. split; [apply rel_store; assumption|].
    split; [intros ? ?; reflexivity|]. split; [intros ? ?; reflexivity|assumption].
  Qed.

  Lemma fin_arrays : forall A (ok : A -> Prop) (r : res A) s1 s2 ars,
    rel s1 s2 -> arrs_ok ars -> (forall a, r = Done a -> ok a) ->
    exists s2', (r, with_arrays s2 ars) = (r, s2') /\ rel (with_arrays s1 ars) s2' /\
                unt s1 (with_arrays s1 ars) /\ unt s2 s2' /\ (forall a, r = Done a -> ok a).
  Proof.
    intros A ok r s1 s2 ars R H Hok. eexists. split; [reflexivity|].
    split; [constructor; simpl; try apply R; auto|].
    split; [intros ? ?; reflexivity|]. split; [intros ? ?; reflexivity|assumption].
  Qed.

  Ltac okdone := let a := fresh in let E := fresh in intros a E; first [discriminate E | inversion E; subst; auto].

  Lemma ni_ret : forall A (ok : A -> Prop) a, ok a -> ni ok (ret a).
  Proof.
    unfold ni, ret. intros A ok a Ha s1 s2 r s1' R H. inversion H; subst.
    apply fin_same; [assumption|okdone].
  Qed.

  Lemma ni_raise : forall A (ok : A -> Prop) e, ni ok (raise e).
  Proof.
    unfold ni, raise. intros A ok e s1 s2 r s1' R H. inversion H; subst.
    apply fin_same; [assumption|okdone].
  Qed.

  Lemma ni_weaken : forall A (ok ok' : A -> Prop) m, (forall a, ok a -> ok' a) -> ni ok m -> ni ok' m.
  Proof.
    unfold ni. intros A ok ok' m Hw Hm s1 s2 r s1' R H.
    destruct (Hm _ _ _ _ R H) as (s2' & E & R' & U1 & U2 & Hok). exists s2'. csplit; auto.
  Qed.

  Lemma ni_bind : forall A B (okA : A -> Prop) (okB : B -> Prop) (m : M A) (k : A -> M B),
    ni okA m -> (forall a, okA a -> ni okB (k a)) -> ni okB (bindM m k).
  Proof.
    unfold ni, bindM. intros A B okA okB m k Hm Hk s1 s2 r s1' R H.
    destruct (m s1) as [[a|g|] t1] eqn:E.
    - destruct (Hm _ _ _ _ R E) as (t2 & E2 & R' & U1 & U2 & Hok). rewrite E2.
      destruct (Hk a (Hok a eq_refl) _ _ _ _ R' H) as (s2' & E3 & R'' & U1' & U2' & Hok').
      exists s2'. csplit; eauto using unt_trans.
    - destruct (Hm _ _ _ _ R E) as (t2 & E2 & R' & U1 & U2 & Hok). rewrite E2.
      inversion H; subst. exists t2. csplit; auto; try (intros; discriminate).
    - destruct (Hm _ _ _ _ R E) as (t2 & E2 & R' & U1 & U2 & Hok). rewrite E2.
      inversion H; subst. exists t2. csplit; auto; try (intros; discriminate).
  Qed.

  Lemma ni_no_loop_sig : forall A (ok : A -> Prop) e (m : M A), ni ok m -> ni ok (no_loop_sig e m).
  Proof.
    unfold ni, no_loop_sig. intros A ok e m Hm s1 s2 r s1' R H.
    destruct (m s1) as [[a|[l|l|e0]|] t1] eqn:E;
      destruct (Hm _ _ _ _ R E) as (t2 & E2 & R' & U1 & U2 & Hok); rewrite E2;
      inversion H; subst; exists t2; csplit; auto; try (intros; discriminate).
  Qed.

  (* ---- primitive store operations ---- *)

  Lemma lookup_same : forall s1 s2 env x, rel s1 s2 -> disj env ->
    lookup_chain (frames s1) env x = lookup_chain (frames s2) env x.
  Proof.
    intros s1 s2 env x R. induction env as [|f env IH]; intros D; simpl; [reflexivity|].
    inversion D; subst. rewrite <- (r_same _ _ R f) by assumption.
    destruct (nth_error (frames s1) f) as [fr|]; [destruct (assoc x fr)|]; auto.
  Qed.

  Lemma assoc_ok : forall x fr v, frame_ok fr -> assoc x fr = Some v -> val_ok v.
  Proof.
    induction fr as [|[y w] r IH]; simpl; intros v Hf H; [discriminate|].
    inversion Hf; subst. destruct (x =? y); [inversion H; subst; assumption|auto].
  Qed.

  Lemma lookup_ok : forall s1 s2 env x f v, rel s1 s2 -> disj env ->
    lookup_chain (frames s1) env x = Some (f, v) -> ~ F f /\ val_ok v.
  Proof.
    intros s1 s2 env x f v R D H.
    destruct (lookup_chain_innermost _ _ _ _ _ H) as (e1 & e2 & fr & -> & Hn & Ha & _).
    assert (Hf : ~ F f). { unfold disj in D. rewrite Forall_forall in D. apply D. apply in_or_app. right. left. reflexivity. }
    split; [assumption|]. eapply assoc_ok; [eapply r_ok; eauto|eassumption].
  Qed.

  Lemma fr_set_ok : forall x v fr, frame_ok fr -> val_ok v -> frame_ok (fr_set x v fr).
  Proof.
    induction fr as [|[y w] r IH]; simpl; intros Hf Hv.
    - constructor; [assumption|constructor].
    - inversion Hf; subst. destruct (x =? y); constructor; simpl; auto. apply IH; assumption.
  Qed.

  Lemma rel_upd : forall s1 s2 f x v, rel s1 s2 -> ~ F f -> val_ok v ->
    rel (upd_frame f x v s1) (upd_frame f x v s2) /\ unt s1 (upd_frame f x v s1) /\ unt s2 (upd_frame f x v s2).
  Proof.
    intros s1 s2 f x v R Hf Hv. unfold upd_frame. rewrite <- (r_same _ _ R f Hf).
    destruct (nth_error (frames s1) f) as [fr|] eqn:E; [|csplit; auto using unt_refl; apply R].
    assert (L1 : (f < length (frames s1))%nat) by (apply nth_error_Some; congruence).
    assert (L2 : (f < length (frames s2))%nat) by (rewrite <- (r_len _ _ R); assumption).
    split; [|split].
    - constructor; simpl; try apply R.
      + rewrite !length_set_nth. apply R.
      + intros g Hg. rewrite length_set_nth. apply (r_bound _ _ R g Hg).
      + intros g Hg. destruct (Nat.eq_dec f g) as [<-|Hne].
        * rewrite !nth_error_set_nth_same by assumption. reflexivity.
        * rewrite !nth_error_set_nth_other by assumption. apply (r_same _ _ R g Hg).
      + intros g fg Hg Hn. destruct (Nat.eq_dec f g) as [<-|Hne].
        * rewrite nth_error_set_nth_same in Hn by assumption. inversion Hn; subst.
          apply fr_set_ok; [eapply r_ok; eauto|assumption].
        * rewrite nth_error_set_nth_other in Hn by assumption. eapply r_ok; eauto.
    - intros g Hg. simpl. rewrite nth_error_set_nth_other; [reflexivity|]. intros ->. contradiction.
    - intros g Hg. simpl. rewrite nth_error_set_nth_other; [reflexivity|]. intros ->. contradiction.
  Qed.

  Lemma rel_arrays : forall s1 s2 ars, rel s1 s2 -> arrs_ok ars -> rel (with_arrays s1 ars) (with_arrays s2 ars).
  Proof. intros s1 s2 ars R H. constructor; simpl; try apply R; auto. Qed.

  Lemma type_of_ok : forall d ars v, arrs_ok ars -> arrs_ok (snd (type_of d ars v)).
  Proof.
    induction d as [|d IH]; intros ars v H; destruct v; try exact H.
    unfold type_of; fold type_of.
    destruct (nth_error ars a) as [o|] eqn:Ea; [|exact H].
    destruct (a_ty o); [exact H|].
    destruct (a_elems o) as [|v0 r] eqn:Ee.
    - intros b ob Hb. simpl in Hb. destruct (Nat.eq_dec a b) as [<-|Hne].
      + rewrite nth_error_set_nth_same in Hb by (apply nth_error_Some; congruence).
        inversion Hb; subst. constructor.
      + rewrite nth_error_set_nth_other in Hb by assumption. eauto.
    - specialize (IH ars v0 H). destruct (type_of d ars v0) as [[t|] ars1]; simpl in IH; [|exact IH].
      destruct (nth_error ars1 a) as [o1|] eqn:E1; [|exact IH].
      intros b ob Hb. simpl in Hb. destruct (Nat.eq_dec a b) as [<-|Hne].
      + rewrite nth_error_set_nth_same in Hb by (apply nth_error_Some; congruence).
        inversion Hb; subst. simpl. eapply IH; eauto.
      + rewrite nth_error_set_nth_other in Hb by assumption. eauto.
  Qed.

  Arguments type_of : simpl never.

  Lemma ni_bind_frame : forall f x v, ~ F f -> val_ok v -> ni (fun _ => True) (bind f x v).
  Proof.
    unfold ni, bind. intros f x v Hf Hv s1 s2 r s1' R H.
    rewrite <- (r_same _ _ R f Hf), <- (r_arr _ _ R).
    destruct (nth_error (frames s1) f) as [fr|].
    - destruct (assoc x fr) as [cur|].
      + pose proof (type_of_ok depth_limit (arrays s1) cur (r_arr_ok _ _ R)) as O1.
        destruct (type_of depth_limit (arrays s1) cur) as [lt ars1]. simpl in O1.
        pose proof (type_of_ok depth_limit ars1 v O1) as O2.
        destruct (type_of depth_limit ars1 v) as [rt ars2]. simpl in O2.
        pose proof (rel_arrays _ _ ars2 R O2) as R2.
        destruct (rel_upd _ _ f x v R2 Hf Hv) as (R3 & U1 & U2).
        destruct lt as [a|]; destruct rt as [b|]; try (destruct (ty_eqb a b)); inversion H; subst.
        all: try (exists (upd_frame f x v (with_arrays s2 ars2)); split; [reflexivity|];
                  split; [exact R3|]; split; [exact U1|]; split; [exact U2|intros; exact I]).
        exists (with_arrays s2 ars2). split; [reflexivity|]. split; [exact R2|].
        split; [intros ? ?; reflexivity|]. split; [intros ? ?; reflexivity|intros; discriminate].
      + destruct (rel_upd _ _ f x v R Hf Hv) as (R3 & U1 & U2).
        inversion H; subst. exists (upd_frame f x v s2). csplit; auto.
    - inversion H; subst. exists s2. csplit; auto using unt_refl; try (intros; discriminate).
  Qed.

  Lemma ni_bind_all : forall f xs, ~ F f -> Forall (fun xv => val_ok (snd xv)) xs ->
    ni (fun _ => True) (bind_all f xs).
  Proof.
    induction xs as [|[x v] r IH]; simpl; intros Hf Hx; [apply ni_ret; auto|].
    inversion Hx; subst. eapply ni_bind; [apply ni_bind_frame; assumption|]. intros _ _. apply IH; assumption.
  Qed.

  Lemma ni_push : forall A (ok : A -> Prop) (k : nat -> M A),
    (forall f, ~ F f -> ni ok (k f)) ->
    ni ok (fun s => let '(f, s1) := push_frame s in k f s1).
  Proof.
    unfold ni. intros A ok k Hk s1 s2 r s1' R H. unfold push_frame in *. rewrite <- (r_len _ _ R).
    assert (Hf : ~ F (length (frames s1))). { intros C. apply (r_bound _ _ R) in C. lia. }
    assert (R' : rel (with_frames s1 (frames s1 ++ [[]])) (with_frames s2 (frames s2 ++ [[]]))).
    { constructor; simpl; try apply R.
      - rewrite !app_length. rewrite (r_len _ _ R). reflexivity.
      - intros f Hff. rewrite app_length. apply (r_bound _ _ R) in Hff. lia.
      - intros f Hff. destruct (Nat.lt_ge_cases f (length (frames s1))) as [L|L].
        + rewrite !nth_error_app1 by (try rewrite <- (r_len _ _ R); assumption). apply (r_same _ _ R f Hff).
        + rewrite !nth_error_app2 by (try rewrite <- (r_len _ _ R); assumption). rewrite (r_len _ _ R). reflexivity.
      - intros f fr Hff Hn. destruct (Nat.lt_ge_cases f (length (frames s1))) as [L|L].
        + rewrite nth_error_app1 in Hn by assumption. eapply r_ok; eauto.
        + rewrite nth_error_app2 in Hn by assumption.
          destruct (f - length (frames s1))%nat as [|[|?]]; simpl in Hn; inversion Hn; subst. constructor. }
    destruct (Hk _ Hf _ _ _ _ R' H) as (s2' & E & R'' & U1 & U2 & Hok).
    exists s2'. csplit; auto.
    - intros f Hff. rewrite (U1 f Hff). simpl. apply nth_error_app1. apply (r_bound _ _ R f Hff).
    - intros f Hff. rewrite (U2 f Hff). simpl. apply nth_error_app1. rewrite <- (r_len _ _ R). apply (r_bound _ _ R f Hff).
  Qed.

  Lemma ni_alloc_arr : forall vs t, Forall val_ok vs -> ni val_ok (alloc_arr vs t).
  Proof.
    unfold ni, alloc_arr. intros vs t Hv s1 s2 r s1' R H. inversion H; subst. rewrite <- (r_arr _ _ R).
    apply fin_arrays; [assumption| |okdone; exact I].
    intros a o Ha.
    destruct (Nat.lt_ge_cases a (length (arrays s1))) as [L|L].
    - rewrite nth_error_app1 in Ha by assumption. eapply (r_arr_ok _ _ R); eauto.
    - rewrite nth_error_app2 in Ha by assumption.
      destruct (a - length (arrays s1))%nat as [|[|?]]; simpl in Ha; inversion Ha; subst. assumption.
  Qed.

  Lemma ni_get_arr : forall a, ni (fun o => Forall val_ok (a_elems o)) (get_arr a).
  Proof.
    unfold ni, get_arr. intros a s1 s2 r s1' R H. rewrite <- (r_arr _ _ R).
    destruct (nth_error (arrays s1) a) as [o|] eqn:E; inversion H; subst; (apply fin_same; [assumption|]).
    - intros o' Eo. inversion Eo; subst. eapply (r_arr_ok _ _ R); eauto.
    - okdone.
  Qed.

  Section NIOpen.
    Variable ev : list nat -> expr -> M value.
    Variable ap : value -> list value -> M value.
    Hypothesis Hev : forall env e, disj env -> ni val_ok (ev env e).
    Hypothesis Hap : forall f args, val_ok f -> Forall val_ok args -> ni val_ok (ap f args).

    Lemma ni_ev_list : forall env es, disj env -> ni (Forall val_ok) (ev_list ev env es).
    Proof.
      intros env es D. induction es as [|e r IH]; simpl; [apply ni_ret; constructor|].
      eapply ni_bind; [apply Hev; assumption|]. intros v Hv.
      eapply ni_bind; [apply IH|]. intros vs Hvs. apply ni_ret. constructor; assumption.
    Qed.

    Lemma ni_ev_begin : forall env es, disj env -> ni val_ok (ev_begin ev env es).
    Proof.
      intros env es D. induction es as [|e r IH]; simpl; [apply ni_ret; exact I|].
      destruct r as [|e2 r]; [apply Hev; assumption|].
      eapply ni_bind; [apply Hev; assumption|]. intros _ _. apply IH.
    Qed.

    Lemma ni_ev_cond : forall env arms d, disj env -> ni val_ok (ev_cond ev env arms d).
    Proof.
      intros env arms d D. induction arms as [|[c b] r IH]; simpl; [apply Hev; assumption|].
      eapply ni_bind; [apply Hev; assumption|]. intros v _. destruct (truthy v); [apply Hev; assumption|apply IH].
    Qed.

    Lemma ni_ev_and : forall env es, disj env -> ni val_ok (ev_and ev env es).
    Proof.
      intros env es D. induction es as [|e r IH]; simpl; [apply ni_raise|].
      destruct r as [|e2 r]; [apply Hev; assumption|].
      eapply ni_bind; [apply Hev; assumption|]. intros v Hv. destruct (truthy v); [apply IH|apply ni_ret; assumption].
    Qed.

    Lemma ni_ev_or : forall env es, disj env -> ni val_ok (ev_or ev env es).
    Proof.
      intros env es D. induction es as [|e r IH]; simpl; [apply ni_raise|].
      destruct r as [|e2 r]; [apply Hev; assumption|].
      eapply ni_bind; [apply Hev; assumption|]. intros v Hv. destruct (truthy v); [apply ni_ret; assumption|apply IH].
    Qed.

    Lemma ni_ev_args : forall env es, disj env -> ni (Forall val_ok) (ev_args ev env es).
    Proof.
      intros env es D. induction es as [|e r IH]; simpl; [apply ni_ret; constructor|].
      destruct (cc [] e); [|apply ni_raise].
      eapply ni_bind; [apply Hev; assumption|]. intros v Hv.
      eapply ni_bind; [apply IH|]. intros vs Hvs. apply ni_ret. constructor; assumption.
    Qed.

    Lemma ni_ev_letseq : forall f env bs, ~ F f -> disj env -> ni (fun _ => True) (ev_letseq ev f env bs).
    Proof.
      intros f env bs Hf D. induction bs as [|[x e] r IH]; simpl; [apply ni_ret; exact I|].
      eapply ni_bind; [apply Hev; assumption|]. intros v Hv.
      eapply ni_bind; [apply ni_bind_frame; assumption|]. intros _ _. apply IH.
    Qed.

    Lemma ni_for_loop : forall k env lbl test step body, disj env ->
      ni val_ok (for_loop ev k env lbl test step body).
    Proof.
      induction k as [|k IH]; intros env lbl test step body D; simpl.
      - unfold ni. intros s1 s2 r s1' R H. inversion H; subst. apply fin_same; [assumption|okdone].
      - eapply ni_bind; [apply ni_no_loop_sig; apply Hev; assumption|]. intros t _.
        destruct (truthy t); [|apply ni_ret; exact I].
        assert (Hnext : ni val_ok (_ <- no_loop_sig EUnspec (ev env step) ;; for_loop ev k env lbl test step body)).
        { eapply ni_bind; [apply ni_no_loop_sig; apply Hev; assumption|]. intros _ _. apply IH. assumption. }
        unfold ni. intros s1 s2 r s1' R H.
        destruct (ev_begin ev env body s1) as [[v|[l|l|e]|] t1] eqn:E;
          destruct (ni_ev_begin env body D _ _ _ _ R E) as (t2 & E2 & R' & U1 & U2 & Hok); rewrite E2.
        + destruct (Hnext _ _ _ _ R' H) as (s2' & E3 & R'' & U1' & U2' & Hok').
          exists s2'. csplit; eauto using unt_trans.
        + destruct (hits l lbl); inversion H; subst; exists t2; csplit; auto; try (intros a Ea; inversion Ea; exact I).
        + destruct (hits l lbl).
          * destruct (Hnext _ _ _ _ R' H) as (s2' & E3 & R'' & U1' & U2' & Hok').
            exists s2'. csplit; eauto using unt_trans.
          * inversion H; subst. exists t2. csplit; auto; try (intros; discriminate).
        + inversion H; subst. exists t2. csplit; auto; try (intros; discriminate).
        + inversion H; subst. exists t2. csplit; auto; try (intros; discriminate).
    Qed.

    Lemma ni_call_expr : forall env f args, disj env -> ni val_ok (call_expr ev ap env f args).
    Proof.
      intros env f args D. unfold call_expr. eapply ni_bind.
      - instantiate (1 := val_ok). destruct f; try (apply Hev; assumption);
          destruct (cc [] _); try (apply Hev; assumption); apply ni_raise.
      - intros fv Hfv. destruct fv; try apply ni_raise;
          try (destruct args; [apply ni_ret; assumption|apply ni_raise]);
          (eapply ni_bind; [apply ni_ev_args; assumption|intros vs Hvs; apply Hap; assumption]).
    Qed.

    Lemma ni_arith : forall op r acc, val_ok acc -> ni val_ok (arith op acc r).
    Proof.
      induction r as [|b r IH]; simpl; intros acc Ha; [destruct acc; first [apply ni_raise|apply ni_ret; assumption]|].
      destruct acc; try apply ni_raise; destruct b; try apply ni_raise. apply IH. exact I.
    Qed.

    Lemma ni_divide : forall r acc, val_ok acc -> ni val_ok (divide acc r).
    Proof.
      induction r as [|b r IH]; simpl; intros acc Ha; [apply ni_ret; assumption|].
      destruct acc; try apply ni_raise. destruct b; try apply ni_raise.
      destruct (_ =? 0); [apply ni_raise|]. destruct (_ =? 0); [apply IH; exact I|].
      destruct (flt_of_f64 _); [apply IH; exact I|apply ni_raise].
    Qed.

    Lemma ni_compare_prim : forall test args, ni val_ok (compare_prim test args).
    Proof.
      intros test args. unfold compare_prim.
      destruct args as [|a [|b [|? ?]]]; try apply ni_raise.
      unfold ni. intros s1 s2 r s1' R H. rewrite <- (r_arr _ _ R).
      destruct (cmp_val _ _ _ _); inversion H; subst; (apply fin_same; [assumption|okdone; exact I]).
    Qed.

    Lemma ni_map_arr : forall f xs t, val_ok f -> Forall val_ok xs ->
      ni (fun yt => Forall val_ok (fst yt)) (map_arr ap f xs t).
    Proof.
      intros f xs. induction xs as [|x r IH]; simpl; intros t Hf Hx; [apply ni_ret; constructor|].
      inversion Hx; subst.
      eapply ni_bind; [apply Hap; [assumption|constructor; [assumption|constructor]]|]. intros y Hy.
      eapply ni_bind with (okA := fun _ => True).
      - destruct t; [apply ni_ret; exact I|].
        unfold ni. intros s1 s2 r0 s1' R H. rewrite <- (r_arr _ _ R).
        pose proof (type_of_ok depth_limit (arrays s1) y (r_arr_ok _ _ R)) as O.
        destruct (type_of depth_limit (arrays s1) y) as [ty1 ars1]. simpl in O.
        inversion H; subst. apply fin_arrays; [assumption|assumption|okdone].
      - intros t1 _. eapply ni_bind; [apply IH; assumption|]. intros yt Hyt; cbv beta in Hyt. apply ni_ret. simpl. constructor; assumption.
    Qed.

    Lemma ni_map_pairs : forall f v, val_ok f -> val_ok v -> ni val_ok (map_pairs ap f v).
    Proof.
      intros f v Hf. induction v; simpl; intros Hv; try apply ni_raise; try (apply ni_ret; exact I).
      destruct Hv as [Hh Ht].
      eapply ni_bind; [apply Hap; [assumption|constructor; [assumption|constructor]]|]. intros h' Hh'.
      eapply ni_bind; [apply IHv2; assumption|]. intros t' Ht'. apply ni_ret. split; assumption.
    Qed.

    Lemma list_val_ok : forall vs, Forall val_ok vs -> val_ok (list_val vs).
    Proof. induction vs; simpl; intros H; [exact I|]. inversion H; subst. split; auto. Qed.

    Lemma val_list_ok : forall v l, val_ok v -> val_list v = Some l -> Forall val_ok l.
    Proof.
      induction v; simpl; intros l Hv H; try discriminate.
      - inversion H; subst. constructor.
      - destruct Hv as [Hh Ht]. destruct (val_list v2) as [r|] eqn:E; [|discriminate].
        inversion H; subst. constructor; auto.
    Qed.

    Lemma set_nth_ok : forall (vs : list value) n v, Forall val_ok vs -> val_ok v -> Forall val_ok (set_nth n v vs).
    Proof.
      induction vs as [|w r IH]; intros n v H Hv; [destruct n; constructor|].
      inversion H; subst. destruct n; simpl; constructor; auto.
    Qed.

    Lemma nth_ok : forall (vs : list value) n, Forall val_ok vs -> val_ok (nth n vs VNil).
    Proof.
      induction vs as [|w r IH]; intros n H; [destruct n; exact I|].
      inversion H; subst. destruct n; simpl; auto.
    Qed.

    Lemma ni_aset_write : forall a i v o, Forall val_ok (a_elems o) -> val_ok v ->
      ni val_ok (fun s => (Done VNil, with_arrays s (set_nth a (mkArr (set_nth (Z.to_nat i) v (a_elems o)) (a_ty o)) (arrays s)))).
    Proof.
      unfold ni. intros a i v o Ho Hv s1 s2 r s1' R H. inversion H; subst. rewrite <- (r_arr _ _ R).
      apply fin_arrays; [assumption| |okdone; exact I]. intros b ob Hb.
      destruct (Nat.eq_dec a b) as [<-|Hne].
      - destruct (Nat.lt_ge_cases a (length (arrays s1))) as [L|L].
        + rewrite nth_error_set_nth_same in Hb by assumption. inversion Hb; subst. simpl. apply set_nth_ok; assumption.
        + assert (nth_error (set_nth a (mkArr (set_nth (Z.to_nat i) v (a_elems o)) (a_ty o)) (arrays s1)) a = None)
            by (apply nth_error_None; rewrite length_set_nth; assumption). congruence.
      - rewrite nth_error_set_nth_other in Hb by assumption. eapply (r_arr_ok _ _ R); eauto.
    Qed.

    Lemma val_ok_list_val : forall l, Forall val_ok l -> val_ok (list_val l).
    Proof. induction 1; simpl; [exact I|split; assumption]. Qed.

    Lemma cat_lists_ok : forall rest acc l, Forall val_ok acc -> Forall val_ok rest ->
      cat_lists acc rest = Some l -> Forall val_ok l.
    Proof.
      induction rest as [|b r IH]; simpl; intros acc l Ha Hr E.
      - inversion E; subst. assumption.
      - inversion Hr as [|? ? Hb Hr']; subst. destruct (val_list b) as [lb|] eqn:Eb; [|discriminate].
        apply (IH (acc ++ lb)); [|assumption|assumption].
        apply Forall_app. split; [assumption|eapply val_list_ok; eauto].
    Qed.

    Lemma ni_cat_arrs : forall rest acc, Forall val_ok acc -> ni (Forall val_ok) (cat_arrs acc rest).
    Proof.
      induction rest as [|b r IH]; simpl; intros acc Ha; [apply ni_ret; assumption|].
      destruct b; try apply ni_raise. eapply ni_bind; [apply ni_get_arr|]. intros o Ho; cbv beta in Ho.
      apply IH. apply Forall_app. split; assumption.
    Qed.

    Lemma ni_prim_apply : forall p args, Forall val_ok args -> ni val_ok (prim_apply ap p args).
    Proof.
      intros p args Hargs. destruct p; simpl.
      - destruct args; [apply ni_raise|]. inversion Hargs; subst. apply ni_arith; assumption.
      - destruct args; [apply ni_raise|]. inversion Hargs; subst. apply ni_arith; assumption.
      - destruct args as [|a [|b r]]; try apply ni_raise. inversion Hargs; subst.
        apply (ni_arith Z.mul (b :: r) a); assumption.
      - apply ni_compare_prim.
      - apply ni_compare_prim.
      - apply ni_compare_prim.
      - apply ni_compare_prim.
      - apply ni_compare_prim.
      - apply ni_compare_prim.
      - destruct args as [|a [|? ?]]; try apply ni_raise. apply ni_ret. exact I.
      - destruct args as [|a [|b [|? ?]]]; try apply ni_raise. inversion Hargs as [|? ? Ha Hr]; subst.
        inversion Hr; subst. apply ni_ret. split; assumption.
      - (* PFirst *)
        destruct args as [|a [|? ?]]; try (destruct a; apply ni_raise); try apply ni_raise.
        inversion Hargs; subst. destruct a; try apply ni_raise.
        + apply ni_ret. simpl in *. tauto.
        + eapply ni_bind; [apply ni_get_arr|]. intros o Ho; cbv beta in Ho. destruct (a_elems o) as [|w ws] eqn:Eo; [apply ni_raise|].
          inversion Ho; subst. apply ni_ret. assumption.
      - (* PRest *)
        destruct args as [|a [|? ?]]; try (destruct a; apply ni_raise); try apply ni_raise.
        inversion Hargs; subst. destruct a; try apply ni_raise.
        + apply ni_ret. exact I.
        + apply ni_ret. simpl in *. tauto.
      - apply ni_ret. apply list_val_ok. assumption.
      - apply ni_alloc_arr. assumption.
      - (* PAget *)
        destruct args as [|a r]; [apply ni_raise|]. inversion Hargs as [|? ? Ha Hr]; subst.
        destruct a; try apply ni_raise.
        destruct r as [|i r]; [apply ni_raise|]. inversion Hr as [|? ? Hi Hr2]; subst.
        destruct i; try (destruct r as [|? [|? ?]]; apply ni_raise).
        destruct r as [|d0 [|? ?]]; try apply ni_raise.
        + eapply ni_bind; [apply ni_get_arr|]. intros o Ho; cbv beta in Ho. destruct (_ && _); [|apply ni_raise].
          apply ni_ret. apply nth_ok. assumption.
        + inversion Hr2; subst. eapply ni_bind; [apply ni_get_arr|]. intros o Ho; cbv beta in Ho. destruct (_ && _).
          * apply ni_ret. apply nth_ok. assumption.
          * apply ni_ret. assumption.
      - (* PAset *)
        destruct args as [|a r]; [apply ni_raise|]. inversion Hargs as [|? ? Ha Hr]; subst.
        destruct a; try apply ni_raise.
        destruct r as [|i r]; [apply ni_raise|]. inversion Hr as [|? ? Hi Hr2]; subst.
        destruct i; try (destruct r as [|? [|? ?]]; apply ni_raise).
        destruct r as [|v [|? ?]]; try apply ni_raise. inversion Hr2; subst.
        eapply ni_bind; [apply ni_get_arr|]. intros o Ho; cbv beta in Ho. destruct (_ && _); [|apply ni_raise].
        apply ni_aset_write; assumption.
      - (* PAppend *)
        destruct args as [|a [|v [|? ?]]]; try (destruct a; apply ni_raise); try apply ni_raise.
        inversion Hargs as [|? ? Ha Hr]; subst. inversion Hr; subst.
        destruct a; try apply ni_raise.
        + destruct v; first [apply ni_raise | apply ni_ret; exact I].
        + eapply ni_bind; [apply ni_get_arr|]. intros o Ho; cbv beta in Ho. apply ni_alloc_arr.
          apply Forall_app. split; [assumption|constructor; [assumption|constructor]].
        + destruct a; try apply ni_raise; destruct v; apply ni_raise.
      - (* PLen *)
        destruct args as [|a [|? ?]]; try (destruct a; apply ni_raise); try apply ni_raise.
        destruct a; try apply ni_raise; try (apply ni_ret; exact I).
        + destruct (val_list _); [apply ni_ret; exact I|apply ni_raise].
        + eapply ni_bind; [apply ni_get_arr|]. intros o Ho; cbv beta in Ho. apply ni_ret. exact I.
      - (* PConcat *)
        destruct (existsb _ args); [apply ni_raise|].
        destruct args as [|a rest]; [apply ni_raise|]. inversion Hargs as [|? ? Ha Hrest]; subst.
        destruct a; try apply ni_raise.
        + destruct (cat_strs _ _); [apply ni_ret; exact I|apply ni_raise].
        + destruct rest as [|b rest']; [apply ni_ret; assumption|].
          destruct Ha as [Ha1 Ha2].
          destruct (val_list a2) as [l2|] eqn:E2; [|apply ni_raise].
          destruct (cat_lists (a1 :: l2) (b :: rest')) as [l|] eqn:Ec; [|apply ni_raise].
          apply ni_ret. apply val_ok_list_val.
          eapply cat_lists_ok; [| |exact Ec]; [|assumption].
          constructor; [assumption|eapply val_list_ok; eauto].
        + eapply ni_bind; [apply ni_get_arr|]. intros o Ho; cbv beta in Ho.
          eapply ni_bind; [apply ni_cat_arrs; assumption|]. intros els Hels.
          apply ni_alloc_arr; assumption.
      - (* PDiv *)
        destruct args; [apply ni_raise|]. inversion Hargs; subst. apply ni_divide; assumption.
      - (* PMap *)
        destruct args as [|f [|c [|? ?]]]; try apply ni_raise.
        inversion Hargs as [|? ? Hf Hr]; subst. inversion Hr; subst.
        destruct (is_fn f); [|apply ni_raise].
        destruct c; try apply ni_raise.
        + apply ni_map_pairs; assumption.
        + eapply ni_bind; [apply ni_get_arr|]. intros o Ho; cbv beta in Ho.
          eapply ni_bind; [apply ni_map_arr; assumption|]. intros yt Hyt; cbv beta in Hyt. apply ni_alloc_arr. assumption.
      - (* PApply *)
        destruct args as [|f [|c [|? ?]]]; try apply ni_raise.
        inversion Hargs as [|? ? Hf Hr]; subst. inversion Hr as [|? ? Hc ?]; subst.
        destruct (is_fn f); [|apply ni_raise].
        destruct c; try apply ni_raise.
        + destruct (val_list (VPair c1 c2)) as [l|] eqn:E; [|apply ni_raise].
          apply Hap; [assumption|]. eapply val_list_ok; eauto.
        + eapply ni_bind; [apply ni_get_arr|]. intros o Ho; cbv beta in Ho. apply Hap; assumption.
      - (* PTrace *)
        unfold ni. intros s1 s2 r s1' R H. inversion H; subst.
        rewrite <- (r_arr _ _ R), <- (r_trace _ _ R), <- (r_ctr _ _ R), <- (r_at _ _ R).
        apply fin_store; [assumption|apply (r_arr_ok _ _ R)|].
        intros a E. inversion E; subst. destruct args; [exact I|inversion Hargs; assumption].
      - (* PFailK *)
        unfold ni. intros s1 s2 r s1' R H.
        rewrite <- (r_arr _ _ R), <- (r_trace _ _ R), <- (r_ctr _ _ R), <- (r_at _ _ R).
        match type of H with (if ?c then _ else _) = _ => destruct c end; inversion H; subst;
          (apply fin_store; [assumption|apply (r_arr_ok _ _ R)|]).
        + okdone.
        + intros a E. inversion E; subst. destruct args; [exact I|inversion Hargs; assumption].
    Qed.

    Lemma zip_params_ok : forall ps rest args acc binds,
      Forall val_ok args -> Forall (fun xv => val_ok (snd xv)) acc ->
      zip_params ps rest args acc = Some binds -> Forall (fun xv => val_ok (snd xv)) binds.
    Proof.
      induction ps as [|p ps IH]; simpl; intros rest args acc binds Ha Hacc H.
      - destruct rest as [r|].
        + inversion H; subst. constructor; [simpl; apply list_val_ok; assumption|assumption].
        + destruct args; [inversion H; subst; assumption|discriminate].
      - destruct args as [|a args]; [discriminate|]. inversion Ha; subst.
        eapply IH; [eassumption| |eassumption]. constructor; assumption.
    Qed.
  End NIOpen.

  Fixpoint datum_val_ok (d : datum) : val_ok (datum_val d) :=
    match d with
    | DInt _ => I
    | DSym _ => I
    | DFlt h => match norm2 80 h (-1) as p return val_ok (let '(m, e) := p in VFlt m e) with (_, _) => I end
    | DChr _ => I
    | DList ds =>
      (fix go (l : list datum) : val_ok (fold_right (fun x acc => VPair (datum_val x) acc) VNil l) :=
         match l with
         | [] => I
         | x :: r => conj (datum_val_ok x) (go r)
         end) ds
    end.

  Lemma hd_ok : forall env, disj env -> ~ F (hd 0%nat env).
  Proof. intros env D. destruct env; simpl; [assumption|inversion D; assumption]. Qed.

  Lemma ni_sig : forall g, ni val_ok (fun s => (@Sig value g, s)).
  Proof.
    unfold ni. intros g s1 s2 r s1' R H. inversion H; subst. apply fin_same; [assumption|okdone].
  Qed.

  Lemma eval_apply_ni : forall n,
    (forall env e, disj env -> ni val_ok (eval n env e)) /\
    (forall f args, val_ok f -> Forall val_ok args -> ni val_ok (apply n f args)).
  Proof.
    induction n as [|n [IHe IHa]].
    - split; [intros env e D|intros f args Hf Hargs]; unfold ni; simpl; intros s1 s2 r s1' R H0; inversion H0; subst;
        (apply fin_same; [assumption|okdone]).
    - split.
      + intros env e D. destruct e; simpl; try (apply ni_ret; exact I).
        * (* EQuote *) apply ni_ret. apply datum_val_ok.
        * (* EVar *)
          unfold ni. intros s1 s2 r s1' R H. rewrite <- (lookup_same _ _ _ x R D).
          destruct (lookup_chain (frames s1) env x) as [[f v]|] eqn:E; inversion H; subst;
            (apply fin_same; [assumption|]).
          -- intros a Ea. inversion Ea; subst. eapply lookup_ok; eauto.
          -- okdone.
        * eapply ni_bind; [apply ni_ev_list; assumption|]. intros vs Hvs. apply ni_alloc_arr. assumption.
        * apply ni_call_expr; assumption.
        * apply ni_ev_begin; assumption.
        * apply ni_ev_cond; assumption.
        * apply ni_ev_and; assumption.
        * apply ni_ev_or; assumption.
        * (* EDef *)
          eapply ni_bind; [apply IHe; assumption|]. intros v Hv.
          eapply ni_bind; [apply ni_bind_frame; [apply hd_ok; assumption|assumption]|].
          intros _ _. apply ni_ret. assumption.
        * (* ESet *)
          eapply ni_bind; [apply IHe; assumption|]. intros v Hv.
          unfold ni. intros s1 s2 r s1' R H. rewrite <- (lookup_same _ _ _ x R D).
          destruct (lookup_chain (frames s1) env x) as [[f w]|] eqn:E.
          -- destruct (lookup_ok _ _ _ _ _ _ R D E) as [Hf _].
             destruct (rel_upd _ _ f x v R Hf Hv) as (R' & U1 & U2).
             inversion H; subst. eexists. split; [reflexivity|].
             split; [exact R'|]. split; [exact U1|]. split; [exact U2|]. intros a Ea. inversion Ea; subst. assumption.
          -- revert s1 s2 r s1' R H E.
             assert (N : ni val_ok (_ <- bind (hd 0%nat env) x v ;; ret v)).
             { eapply ni_bind; [apply ni_bind_frame; [apply hd_ok; assumption|assumption]|].
               intros _ _. apply ni_ret. assumption. }
             intros s1 s2 r s1' R H _. apply (N _ _ _ _ R H).
        * (* ELet *)
          destruct seq.
          -- apply (ni_push _ _ (fun f => _ <- ev_letseq (eval n) f (f :: env) bs ;; ev_begin (eval n) (f :: env) body)).
             intros f Hf. assert (D' : disj (f :: env)) by (constructor; assumption).
             eapply ni_bind; [apply ni_ev_letseq; assumption|]. intros _ _. apply ni_ev_begin; assumption.
          -- apply (ni_push _ _ (fun f => vs <- ev_list (eval n) (f :: env) (map snd bs) ;;
                                         _ <- bind_all f (rev (combine (map fst bs) vs)) ;; ev_begin (eval n) (f :: env) body)).
             intros f Hf. assert (D' : disj (f :: env)) by (constructor; assumption).
             eapply ni_bind; [apply ni_ev_list; assumption|]. intros vs Hvs.
             eapply ni_bind; [apply ni_bind_all; [assumption|]|intros _ _; apply ni_ev_begin; assumption].
             apply Forall_rev. clear - Hvs. revert vs Hvs. generalize (map fst bs) as xs.
             induction xs as [|x xs IH]; intros vs Hvs; simpl; [constructor|].
             destruct vs; [constructor|]. inversion Hvs; subst. constructor; [assumption|apply IH; assumption].
        * (* EScope *)
          apply (ni_push _ _ (fun f => ev_begin (eval n) (f :: env) es)).
          intros f Hf. apply ni_ev_begin; [assumption|constructor; assumption].
        * (* EFor *)
          apply (ni_push _ _ (fun f => _ <- no_loop_sig EUnspec (eval n (f :: env) e1) ;;
                                       for_loop (eval n) n (f :: env) lbl e2 e3 body)).
          intros f Hf. assert (D' : disj (f :: env)) by (constructor; assumption).
          eapply ni_bind; [apply ni_no_loop_sig; apply IHe; assumption|]. intros _ _.
          apply ni_for_loop; assumption.
        * apply ni_sig.
        * apply ni_sig.
        * (* EFn *) apply ni_ret. exact D.
        * (* EDefn *)
          eapply ni_bind; [apply ni_bind_frame; [apply hd_ok; assumption|exact D]|].
          intros _ _. apply ni_ret. exact I.
      + intros f args Hf Hargs. destruct f; simpl; try apply ni_raise.
        * destruct (zip_params ps rest args []) as [binds|] eqn:Z; [|apply ni_raise].
          apply (ni_push _ _ (fun fid => _ <- bind_all fid binds ;; no_loop_sig ELoop (ev_begin (eval n) (fid :: env) body))).
          intros fid Hfid.
          eapply ni_bind; [apply ni_bind_all; [assumption|eapply zip_params_ok; eauto; constructor]|].
          intros _ _. apply ni_no_loop_sig. apply ni_ev_begin; [assumption|constructor; assumption].
        * apply ni_prim_apply; assumption.
  Qed.

  (* Calling a closure in two states that differ only in frames F (the caller's locals, which
     neither the closure's static chain, nor the arguments, nor any other frame or array
     refer to) gives the same outcome, the same trace, the same effects on every other
     frame, and leaves the frames of F untouched in both. *)
  Theorem closure_ignores_caller_frames : forall n nm ps rest body cenv args s1 s2 r s1',
    rel s1 s2 -> disj cenv -> Forall val_ok args ->
    apply n (VClos nm ps rest body cenv) args s1 = (r, s1') ->
    exists s2', apply n (VClos nm ps rest body cenv) args s2 = (r, s2') /\
                rel s1' s2' /\ unt s1 s1' /\ unt s2 s2'.
  Proof.
    intros n nm ps rest body cenv args s1 s2 r s1' R D Ha H.
    destruct (proj2 (eval_apply_ni n) (VClos nm ps rest body cenv) args D Ha _ _ _ _ R H)
      as (s2' & E & R' & U1 & U2 & _).
    exists s2'. auto.
  Qed.

  Theorem eval_ignores_hidden_frames : forall n env e s1 s2 r s1',
    rel s1 s2 -> disj env -> eval n env e s1 = (r, s1') ->
    exists s2', eval n env e s2 = (r, s2') /\ rel s1' s2' /\ unt s1 s1' /\ unt s2 s2'.
  Proof.
    intros n env e s1 s2 r s1' R D H.
    destruct (proj1 (eval_apply_ni n) env e D _ _ _ _ R H) as (s2' & E & R' & U1 & U2 & _).
    exists s2'. auto.
  Qed.
End NonInterference.

(* ================================================================= 8. the call, with its trace *)

Lemma run_args_ext : forall n env args s vs s', run_args (eval n) env args s vs s' -> ext s s'.
Proof.
  intros n env args s vs s' H. apply ev_args_iff_run_args in H.
  eapply (pres_ev_args (eval n)); [|exact H]. intros env0 e. apply (proj1 (eval_apply_pres n)).
Qed.

(* (f a1 .. an): the callee is evaluated first, then every argument exactly once from left
   to right (run_args), then the function is applied; the trace of the call is the trace of
   the callee, then of the arguments in order, then of the body *)
Theorem args_once_ltr : forall n env f args s fv s1 vs s2 r s3,
  (match f with EVar _ => true | _ => cc [] f end) = true ->
  eval n env f s = (Done fv, s1) -> is_fn fv = true ->
  run_args (eval n) env args s1 vs s2 ->
  apply n fv vs s2 = (r, s3) ->
  eval (S n) env (ECall f args) s = (r, s3) /\
  exists tc ta tb, trace s1 = tc ++ trace s /\ trace s2 = ta ++ tc ++ trace s /\
                   trace s3 = tb ++ ta ++ tc ++ trace s.
Proof.
  intros n env f args s fv s1 vs s2 r s3 Hc Hf Hfn Ha Hap.
  split.
  - rewrite (call_sequence n env f args s fv s1 vs s2 Hc Hf Hfn); [assumption|].
    apply ev_args_iff_run_args. assumption.
  - destruct (eval_extends_store _ _ _ _ _ _ Hf) as [[tc Ec] _].
    destruct (run_args_ext _ _ _ _ _ _ Ha) as [[ta Ea] _].
    destruct (apply_extends_store _ _ _ _ _ _ Hap) as [[tb Eb] _].
    exists tc, ta, tb. rewrite Eb, Ea, Ec. auto.
Qed.

(* ================================================================= 9. break/continue only address enclosing loops *)

(* a loop-control signal that escapes an expression accepted by the compile check `cc loops`
   addresses one of the loops of `loops` (the loops around it in its compile unit) *)
Definition sig_ok (loops : list (option ident)) (A : Type) (r : res A) : Prop :=
  match r with
  | Sig (SBreak l) | Sig (SCont l) => loop_ok l loops = true
  | _ => True
  end.

Definition scoped {A} (loops : list (option ident)) (m : M A) : Prop :=
  forall s r s', m s = (r, s') -> sig_ok loops A r.

Lemma scoped_ret : forall A loops (a : A), scoped loops (ret a).
Proof. unfold scoped, ret. intros. inversion H; subst. exact I. Qed.
Lemma scoped_raise : forall A loops e, scoped loops (@raise A e).
Proof. unfold scoped, raise. intros. inversion H; subst. exact I. Qed.

Lemma scoped_bind : forall A B loops (m : M A) (k : A -> M B),
  scoped loops m -> (forall a, scoped loops (k a)) -> scoped loops (bindM m k).
Proof.
  unfold scoped, bindM. intros A B loops m k Hm Hk s r s' H.
  destruct (m s) as [[a|g|] s1] eqn:E.
  - eapply Hk; eauto.
  - inversion H; subst. apply (Hm _ _ _ E).
  - inversion H; subst. exact I.
Qed.

Lemma scoped_no_loop_sig : forall A loops e (m : M A), scoped loops (no_loop_sig e m).
Proof.
  unfold scoped, no_loop_sig. intros A loops e m s r s' H.
  destruct (m s) as [[a|[l|l|e0]|] s1]; inversion H; subst; exact I.
Qed.

(* a computation that never raises a loop signal is scoped for any loops *)
Definition quiet {A} (m : M A) : Prop :=
  forall s r s', m s = (r, s') -> (forall l, r <> Sig (SBreak l)) /\ (forall l, r <> Sig (SCont l)).

Lemma quiet_scoped : forall A loops (m : M A), quiet m -> scoped loops m.
Proof.
  unfold quiet, scoped. intros A loops m Hq s r s' H. destruct (Hq _ _ _ H) as [Hb Hc].
  destruct r as [a|[l|l|e]|]; simpl; auto; [exfalso; eapply Hb|exfalso; eapply Hc]; reflexivity.
Qed.

Lemma scoped_nil_quiet : forall A (m : M A), scoped [] m -> quiet m.
Proof.
  unfold quiet, scoped. intros A m Hs s r s' H. specialize (Hs _ _ _ H).
  split; intros l ->; simpl in Hs; destruct l; simpl in Hs; discriminate.
Qed.

Lemma quiet_ret : forall A (a : A), quiet (ret a).
Proof. unfold quiet, ret. intros. inversion H; subst. split; intros; discriminate. Qed.
Lemma quiet_raise : forall A e, quiet (@raise A e).
Proof. unfold quiet, raise. intros. inversion H; subst. split; intros; discriminate. Qed.
Lemma quiet_bind : forall A B (m : M A) (k : A -> M B), quiet m -> (forall a, quiet (k a)) -> quiet (bindM m k).
Proof.
  unfold quiet, bindM. intros A B m k Hm Hk s r s' H.
  destruct (m s) as [[a|g|] s1] eqn:E.
  - eapply Hk; eauto.
  - inversion H; subst. destruct (Hm _ _ _ E) as [Hb Hc].
    split; intros l C; inversion C; subst; [eapply Hb|eapply Hc]; reflexivity.
  - inversion H; subst. split; intros; discriminate.
Qed.
Lemma quiet_no_loop_sig : forall A e (m : M A), quiet (no_loop_sig e m).
Proof.
  unfold quiet, no_loop_sig. intros A e m s r s' H.
  destruct (m s) as [[a|[l|l|e0]|] s1]; inversion H; subst; split; intros; discriminate.
Qed.
Lemma quiet_state : forall A (f : store -> res A * store),
  (forall s, (forall l, fst (f s) <> Sig (SBreak l)) /\ (forall l, fst (f s) <> Sig (SCont l))) -> quiet f.
Proof. unfold quiet. intros A f Hf s r s' H. specialize (Hf s). rewrite H in Hf. exact Hf. Qed.

Lemma loop_ok_weaken : forall l mine loops, loop_ok l (mine :: loops) = true -> hits l mine = false ->
  loop_ok l loops = true.
Proof.
  intros l mine loops H Hh. destruct l as [x|]; simpl in *; [|discriminate].
  destruct mine as [y|]; simpl in *.
  - rewrite Hh in H. exact H.
  - exact H.
Qed.

Lemma quiet_bind_frame : forall f x v, quiet (bind f x v).
Proof.
  intros f x v. apply quiet_state. intros s. unfold bind.
  destruct (nth_error (frames s) f); [|split; intros; discriminate].
  destruct (assoc x f0); [|split; intros; discriminate].
  destruct (type_of depth_limit (arrays s) v0) as [lt ars1].
  destruct (type_of depth_limit ars1 v) as [rt ars2].
  destruct lt; destruct rt; try (destruct (ty_eqb t t0)); split; intros; discriminate.
Qed.

Lemma quiet_bind_all : forall f xs, quiet (bind_all f xs).
Proof.
  induction xs as [|[x v] r IH]; simpl; [apply quiet_ret|].
  apply quiet_bind; [apply quiet_bind_frame|]. intros _. apply IH.
Qed.

Lemma scoped_push : forall A loops (k : nat -> M A), (forall f, scoped loops (k f)) ->
  scoped loops (fun s => let '(f, s1) := push_frame s in k f s1).
Proof. unfold scoped. intros A loops k H s r s' E. destruct (push_frame s) as [f s1]. eapply H; eauto. Qed.

Lemma quiet_push : forall A (k : nat -> M A), (forall f, quiet (k f)) ->
  quiet (fun s => let '(f, s1) := push_frame s in k f s1).
Proof. unfold quiet. intros A k H s r s' E. destruct (push_frame s) as [f s1]. eapply H; eauto. Qed.

Section ScopedOpen.
  Variable ev : list nat -> expr -> M value.
  Variable ap : value -> list value -> M value.
  Hypothesis Hev : forall loops env e, cc loops e = true -> scoped loops (ev env e).
  Hypothesis Hap : forall f args, quiet (ap f args).

  Lemma scoped_ev_list : forall loops env es, forallb (cc loops) es = true -> scoped loops (ev_list ev env es).
  Proof.
    induction es as [|e r IH]; simpl; intros H; [apply scoped_ret|].
    apply andb_prop in H. destruct H as [He Hr].
    apply scoped_bind; [apply Hev; assumption|]. intros v. apply scoped_bind; [apply IH; assumption|]. intros; apply scoped_ret.
  Qed.

  Lemma scoped_ev_begin : forall loops env es, forallb (cc loops) es = true -> scoped loops (ev_begin ev env es).
  Proof.
    induction es as [|e r IH]; simpl; intros H; [apply scoped_ret|].
    apply andb_prop in H. destruct H as [He Hr].
    destruct r as [|e2 r]; [apply Hev; assumption|].
    apply scoped_bind; [apply Hev; assumption|]. intros _. apply IH. assumption.
  Qed.

  Lemma scoped_ev_cond : forall loops env arms d,
    forallb (fun cb => cc loops (fst cb) && cc loops (snd cb)) arms = true -> cc loops d = true ->
    scoped loops (ev_cond ev env arms d).
  Proof.
    induction arms as [|[c b] r IH]; simpl; intros d H Hd; [apply Hev; assumption|].
    apply andb_prop in H. destruct H as [Hcb Hr]. apply andb_prop in Hcb. destruct Hcb as [Hc Hb].
    apply scoped_bind; [apply Hev; assumption|]. intros v. destruct (truthy v); [apply Hev; assumption|apply IH; assumption].
  Qed.

  Lemma scoped_ev_and : forall loops env es, forallb (cc loops) es = true -> scoped loops (ev_and ev env es).
  Proof.
    induction es as [|e r IH]; simpl; intros H; [apply scoped_raise|].
    apply andb_prop in H. destruct H as [He Hr].
    destruct r as [|e2 r]; [apply Hev; assumption|].
    apply scoped_bind; [apply Hev; assumption|]. intros v. destruct (truthy v); [apply IH; assumption|apply scoped_ret].
  Qed.

  Lemma scoped_ev_or : forall loops env es, forallb (cc loops) es = true -> scoped loops (ev_or ev env es).
  Proof.
    induction es as [|e r IH]; simpl; intros H; [apply scoped_raise|].
    apply andb_prop in H. destruct H as [He Hr].
    destruct r as [|e2 r]; [apply Hev; assumption|].
    apply scoped_bind; [apply Hev; assumption|]. intros v. destruct (truthy v); [apply scoped_ret|apply IH; assumption].
  Qed.

  (* the arguments of a call are their own compile units: nothing escapes them *)
  Lemma quiet_ev_args : forall env es, quiet (ev_args ev env es).
  Proof.
    induction es as [|e r IH]; simpl; [apply quiet_ret|].
    destruct (cc [] e) eqn:Ec; [|apply quiet_raise].
    apply quiet_bind; [apply scoped_nil_quiet; apply Hev; assumption|]. intros v.
    apply quiet_bind; [apply IH|]. intros; apply quiet_ret.
  Qed.

  Lemma quiet_call_expr : forall env f args, quiet (call_expr ev ap env f args).
  Proof.
    intros env f args. unfold call_expr. apply quiet_bind.
    - destruct f; try (apply scoped_nil_quiet; apply Hev; reflexivity);
        destruct (cc [] _) eqn:Ec; try apply quiet_raise; apply scoped_nil_quiet; apply Hev; assumption.
    - intros fv. destruct fv; try apply quiet_raise;
        try (destruct args; [apply quiet_ret|apply quiet_raise]);
        (apply quiet_bind; [apply quiet_ev_args|intros vs; apply Hap]).
  Qed.

  Lemma scoped_ev_letseq : forall loops f env bs, forallb (fun xb => cc loops (snd xb)) bs = true ->
    scoped loops (ev_letseq ev f env bs).
  Proof.
    induction bs as [|[x e] r IH]; simpl; intros H; [apply scoped_ret|].
    apply andb_prop in H. destruct H as [He Hr].
    apply scoped_bind; [apply Hev; assumption|]. intros v.
    apply scoped_bind; [apply quiet_scoped; apply quiet_bind_frame|]. intros _. apply IH. assumption.
  Qed.

  Lemma scoped_for_loop : forall k loops env lbl test step body,
    forallb (cc (lbl :: loops)) body = true ->
    scoped loops (for_loop ev k env lbl test step body).
  Proof.
    induction k as [|k IH]; intros loops env lbl test step body Hb; simpl.
    - unfold scoped. intros s r s' H. inversion H; subst. exact I.
    - apply scoped_bind; [apply scoped_no_loop_sig|]. intros t.
      destruct (truthy t); [|apply scoped_ret].
      assert (Hnext : scoped loops (_ <- no_loop_sig EUnspec (ev env step) ;; for_loop ev k env lbl test step body)).
      { apply scoped_bind; [apply scoped_no_loop_sig|]. intros _. apply IH. assumption. }
      unfold scoped. intros s r s' H.
      pose proof (scoped_ev_begin (lbl :: loops) env body Hb s) as PB.
      destruct (ev_begin ev env body s) as [[v|[l|l|e]|] s1] eqn:E; specialize (PB _ _ eq_refl); simpl in PB.
      + eapply Hnext; eauto.
      + destruct (hits l lbl) eqn:Eh; inversion H; subst; simpl; [exact I|]. eapply loop_ok_weaken; eauto.
      + destruct (hits l lbl) eqn:Eh; [eapply Hnext; eauto|]. inversion H; subst; simpl. eapply loop_ok_weaken; eauto.
      + inversion H; subst. exact I.
      + inversion H; subst. exact I.
  Qed.
End ScopedOpen.

Lemma quiet_prim_apply : forall ap p args, (forall f a, quiet (ap f a)) -> quiet (prim_apply ap p args).
Proof.
  intros ap p args Hap.
  assert (Harith : forall op r acc, quiet (arith op acc r)).
  { induction r as [|b r IH]; simpl; intros acc; [destruct acc; first [apply quiet_ret|apply quiet_raise]|].
    destruct acc; try apply quiet_raise; destruct b; try apply quiet_raise. apply IH. }
  assert (Hdiv : forall r acc, quiet (divide acc r)).
  { induction r as [|b r IH]; simpl; intros acc; [apply quiet_ret|].
    destruct acc; try apply quiet_raise. destruct b; try apply quiet_raise.
    destruct (_ =? 0); [apply quiet_raise|]. destruct (_ =? 0); [apply IH|].
    destruct (flt_of_f64 _); [apply IH|apply quiet_raise]. }
  assert (Hcmp : forall test a, quiet (compare_prim test a)).
  { intros test a. unfold compare_prim. destruct a as [|x [|y [|? ?]]]; try apply quiet_raise.
    apply quiet_state. intros s. destruct (cmp_val _ _ _ _); split; intros; discriminate. }
  assert (Hget : forall a, quiet (get_arr a)).
  { intros a. apply quiet_state. intros s. unfold get_arr. destruct (nth_error _ _); split; intros; discriminate. }
  assert (Halloc : forall vs t, quiet (alloc_arr vs t)).
  { intros vs t. apply quiet_state. intros s. split; intros; discriminate. }
  assert (Hmp : forall f v, quiet (map_pairs ap f v)).
  { intros f v. induction v; simpl; try apply quiet_raise; try apply quiet_ret.
    apply quiet_bind; [apply Hap|]. intros h'. apply quiet_bind; [apply IHv2|]. intros; apply quiet_ret. }
  assert (Hma : forall f xs t, quiet (map_arr ap f xs t)).
  { intros f xs. induction xs as [|x r IH]; simpl; intros t; [apply quiet_ret|].
    apply quiet_bind; [apply Hap|]. intros y. apply quiet_bind.
    - destruct t; [apply quiet_ret|]. apply quiet_state. intros s.
      destruct (type_of depth_limit (arrays s) y). split; intros; discriminate.
    - intros t1. apply quiet_bind; [apply IH|]. intros; apply quiet_ret. }
  assert (Hcat : forall rest acc, quiet (cat_arrs acc rest)).
  { induction rest as [|b r IH]; simpl; intros acc; [apply quiet_ret|].
    destruct b; try apply quiet_raise. apply quiet_bind; [apply Hget|]. intros o. apply IH. }
  destruct p; simpl;
    repeat first
      [ apply quiet_ret | apply quiet_raise | apply Halloc | apply Hcmp | apply Harith | apply Hdiv | apply Hap | apply Hmp
      | apply quiet_bind; [first [apply Hget | apply Hma | apply Hcat]|intros ?]
      | apply quiet_state; intros ?; split; intros; discriminate
      | match goal with |- quiet (match ?x with _ => _ end) => destruct x end
      | match goal with |- quiet (if ?x then _ else _) => destruct x end ].
  - apply quiet_state. intros s.
    match goal with |- context [if ?c then _ else _] => destruct c end; split; intros; discriminate.
Qed.

Lemma eval_apply_scoped : forall n,
  (forall loops env e, cc loops e = true -> scoped loops (eval n env e)) /\
  (forall f args, quiet (apply n f args)).
Proof.
  induction n as [|n [IHe IHa]].
  - split; intros.
    + unfold scoped; simpl. intros s r s' H0. inversion H0; subst. exact I.
    + apply quiet_state. intros s. simpl. split; intros; discriminate.
  - split.
    + intros loops env e Hc. destruct e; simpl in Hc |- *; try apply scoped_ret.
      * apply quiet_scoped. apply quiet_state. intros s. destruct (lookup_chain _ _ _) as [[? ?]|]; split; intros; discriminate.
      * apply scoped_bind; [apply scoped_ev_list; assumption|]. intros vs. apply quiet_scoped. apply quiet_state. intros; split; intros; discriminate.
      * apply quiet_scoped. apply quiet_call_expr; assumption.
      * apply scoped_ev_begin; assumption.
      * apply andb_prop in Hc. destruct Hc. apply scoped_ev_cond; assumption.
      * apply scoped_ev_and; assumption.
      * apply scoped_ev_or; assumption.
      * apply scoped_bind; [apply IHe; assumption|]. intros v.
        apply scoped_bind; [apply quiet_scoped; apply quiet_bind_frame|]. intros; apply scoped_ret.
      * apply scoped_bind; [apply IHe; assumption|]. intros v. apply quiet_scoped. apply quiet_state. intros s.
        destruct (lookup_chain _ _ _) as [[f ?]|]; [split; intros; discriminate|].
        pose proof (quiet_bind _ _ (bind (hd 0%nat env) x v) (fun _ => ret v) (quiet_bind_frame _ _ _) (fun _ => quiet_ret _ v) s) as Q.
        destruct ((_ <- bind (hd 0%nat env) x v ;; ret v) s) as [r0 s0]. exact (Q _ _ eq_refl).
      * apply andb_prop in Hc. destruct Hc as [Hbs Hbody]. destruct seq.
        -- apply (scoped_push _ loops (fun f => _ <- ev_letseq (eval n) f (f :: env) bs ;; ev_begin (eval n) (f :: env) body)).
           intros f. apply scoped_bind; [apply scoped_ev_letseq; assumption|]. intros _. apply scoped_ev_begin; assumption.
        -- apply (scoped_push _ loops (fun f => vs <- ev_list (eval n) (f :: env) (map snd bs) ;;
                                               _ <- bind_all f (rev (combine (map fst bs) vs)) ;; ev_begin (eval n) (f :: env) body)).
           intros f. apply scoped_bind.
           ++ apply scoped_ev_list; [assumption|]. rewrite forallb_forall in *. intros e He.
              apply in_map_iff in He. destruct He as ([x e0] & <- & Hin). apply (Hbs _ Hin).
           ++ intros vs. apply scoped_bind; [apply quiet_scoped; apply quiet_bind_all|]. intros _.
              apply scoped_ev_begin; assumption.
      * apply (scoped_push _ loops (fun f => ev_begin (eval n) (f :: env) es)).
        intros f. apply scoped_ev_begin; assumption.
      * apply andb_prop in Hc. destruct Hc as [Hc Hbody].
        apply (scoped_push _ loops (fun f => _ <- no_loop_sig EUnspec (eval n (f :: env) e1) ;;
                                             for_loop (eval n) n (f :: env) lbl e2 e3 body)).
        intros f. apply scoped_bind; [apply scoped_no_loop_sig|]. intros _. apply scoped_for_loop; assumption.
      * unfold scoped. intros s r s' H. inversion H; subst. simpl. exact Hc.
      * unfold scoped. intros s r s' H. inversion H; subst. simpl. exact Hc.
      * apply scoped_bind; [apply quiet_scoped; apply quiet_bind_frame|]. intros; apply scoped_ret.
    + intros f args. destruct f; simpl; try apply quiet_raise.
      * destruct (zip_params ps rest args []) as [binds|]; [|apply quiet_raise].
        apply (quiet_push _ (fun fid => _ <- bind_all fid binds ;; no_loop_sig ELoop (ev_begin (eval n) (fid :: env) body))).
        intros fid. apply quiet_bind; [apply quiet_bind_all|]. intros _. apply quiet_no_loop_sig.
      * apply quiet_prim_apply. assumption.
Qed.

(* a break/continue that escapes an expression addresses a loop of its compile unit *)
Theorem escaping_signal_addresses_enclosing_loop : forall n loops env e s r s',
  cc loops e = true -> eval n env e s = (r, s') ->
  match r with
  | Sig (SBreak l) | Sig (SCont l) => loop_ok l loops = true
  | _ => True
  end.
Proof. intros n loops env e s r s' Hc H. exact (proj1 (eval_apply_scoped n) loops env e Hc s r s' H). Qed.

(* hence nothing escapes a top-level form, a call argument, or a function activation *)
Theorem toplevel_has_no_stray_signal : forall n env e s r s',
  cc [] e = true -> eval n env e s = (r, s') ->
  (forall l, r <> Sig (SBreak l)) /\ (forall l, r <> Sig (SCont l)).
Proof.
  intros n env e s r s' Hc H.
  apply (scoped_nil_quiet _ (eval n env e)) with (s := s) (s' := s'); [|assumption].
  apply (proj1 (eval_apply_scoped n)). assumption.
Qed.
