(* C09, converse direction: whenever the reference run finishes, the optimising (strict) run with
   twice the fuel finishes with the same result and store, or stops with the verdict SShadow.
   Induction on the fuel of the REFERENCE evaluator; a chain of nested applies of the running
   closure is re-associated into iterations of tloop. *)
From Coq Require Import ZArith Bool List Lia.
From ZV Require Import Model.Num Model.RefSemTco Proofs.RefSemTcoProofs.
Import ListNotations.
Open Scope Z_scope.

Definition shadowed {A} (mt : M A) (s : store) : Prop := exists s'', mt s = (Sig SShadow, s'').

(* non-tail computations: the optimising side gives the same, or stops with SShadow *)
Definition convN {A} (mr mt : M A) : Prop :=
  forall s r s', mr s = (r, s') -> r <> Fuel -> mt s = (r, s') \/ shadowed mt s.

(* tail computations: ... or it leaves with a tail signal, and what the reference run still did
   is the call of the running closure with those arguments, with less fuel than J *)
Definition convT (self : option (ident * value)) (J : nat) (mr mt : M value) : Prop :=
  forall s r s', mr s = (r, s') -> r <> Fuel ->
    mt s = (r, s') \/ shadowed mt s \/
    (exists f c vs s1 j, self = Some (f, c) /\ mt s = (Sig (STail vs), s1) /\ (j < J)%nat /\
                         apply j c vs s1 = (r, s')).

Definition convP (tl : bool) self J (mr mt : M value) : Prop :=
  if tl then convT self J mr mt else convN mr mt.

Lemma convN_convT : forall self J mr mt, convN mr mt -> convT self J mr mt.
Proof. intros self J mr mt H s r s' E Hr. destruct (H _ _ _ E Hr); auto. Qed.

Lemma convN_convP : forall tl self J mr mt, convN mr mt -> convP tl self J mr mt.
Proof. intros [|] self J mr mt H; simpl; [apply convN_convT|]; assumption. Qed.

Lemma convT_weaken : forall self J J' mr mt, (J <= J')%nat -> convT self J mr mt -> convT self J' mr mt.
Proof.
  intros self J J' mr mt L H s r s' E Hr. destruct (H _ _ _ E Hr) as [A|[B|[f [c [vs [s1 [j [Hs [Ht [Hj Ha]]]]]]]]]]; auto.
  right; right. exists f, c, vs, s1, j. repeat split; auto. lia.
Qed.

Lemma convP_weaken : forall tl self J J' mr mt, (J <= J')%nat -> convP tl self J mr mt -> convP tl self J' mr mt.
Proof. intros [|]; simpl; [apply convT_weaken|auto]. Qed.

Lemma convN_refl : forall A (m : M A), convN m m.
Proof. intros A m s r s' E _. left. assumption. Qed.

Lemma convN_bind : forall A B (mr mt : M A) (kr kt : A -> M B),
  convN mr mt -> (forall a, convN (kr a) (kt a)) -> convN (bindM mr kr) (bindM mt kt).
Proof.
  intros A B mr mt kr kt H1 H2 s r s' E Hr. unfold bindM in E. unfold shadowed, bindM.
  destruct (mr s) as [[a|g|] s1] eqn:E1.
  - destruct (H1 _ _ _ E1 ltac:(discriminate)) as [Ht|[s'' Ht]]; rewrite Ht; [|right; eauto].
    destruct (H2 a _ _ _ E Hr) as [Hk|[s'' Hk]]; [left; assumption|right; eauto].
  - inversion E; subst. destruct (H1 _ _ _ E1 ltac:(discriminate)) as [Ht|[s'' Ht]]; rewrite Ht; [left; reflexivity|right; eauto].
  - inversion E; subst. congruence.
Qed.

Lemma convT_bind : forall A self J (mr mt : M A) (kr kt : A -> M value),
  convN mr mt -> (forall a, convT self J (kr a) (kt a)) -> convT self J (bindM mr kr) (bindM mt kt).
Proof.
  intros A self J mr mt kr kt H1 H2 s r s' E Hr. unfold bindM in E. unfold shadowed, bindM.
  destruct (mr s) as [[a|g|] s1] eqn:E1.
  - destruct (H1 _ _ _ E1 ltac:(discriminate)) as [Ht|[s'' Ht]]; rewrite Ht; [|right; left; eauto].
    destruct (H2 a _ _ _ E Hr) as [Hk|[[s'' Hk]|Hk]]; [left; assumption|right; left; eauto|right; right; assumption].
  - inversion E; subst. destruct (H1 _ _ _ E1 ltac:(discriminate)) as [Ht|[s'' Ht]]; rewrite Ht; [left; reflexivity|right; left; eauto].
  - inversion E; subst. congruence.
Qed.

Lemma convP_bind : forall A tl self J (mr mt : M A) (kr kt : A -> M value),
  convN mr mt -> (forall a, convP tl self J (kr a) (kt a)) -> convP tl self J (bindM mr kr) (bindM mt kt).
Proof. intros A [|]; simpl; [apply convT_bind|intros self J; apply convN_bind]. Qed.

Lemma convN_push : forall A (kr kt : nat -> M A), (forall f, convN (kr f) (kt f)) ->
  convN (fun s => let '(f, s1) := push_frame s in kr f s1) (fun s => let '(f, s1) := push_frame s in kt f s1).
Proof. intros A kr kt H s r s' E Hr. unfold shadowed. destruct (push_frame s) as [f s1]. apply (H f _ _ _ E Hr). Qed.

Lemma convT_push : forall self J (kr kt : nat -> M value), (forall f, convT self J (kr f) (kt f)) ->
  convT self J (fun s => let '(f, s1) := push_frame s in kr f s1) (fun s => let '(f, s1) := push_frame s in kt f s1).
Proof. intros self J kr kt H s r s' E Hr. unfold shadowed. destruct (push_frame s) as [f s1]. apply (H f _ _ _ E Hr). Qed.

Lemma convP_push : forall tl self J (kr kt : nat -> M value), (forall f, convP tl self J (kr f) (kt f)) ->
  convP tl self J (fun s => let '(f, s1) := push_frame s in kr f s1) (fun s => let '(f, s1) := push_frame s in kt f s1).
Proof. intros [|]; simpl; [apply convT_push|intros self J; apply convN_push]. Qed.

Lemma convN_no_loop_sig : forall A e (mr mt : M A), convN mr mt -> convN (no_loop_sig e mr) (no_loop_sig e mt).
Proof.
  intros A e mr mt H s r s' E Hr. unfold no_loop_sig in E. unfold shadowed, no_loop_sig.
  destruct (mr s) as [[a|[l|l|e0|vs|]|] s1] eqn:E1; inversion E; subst;
    try (destruct (H _ _ _ E1 ltac:(discriminate)) as [Ht|[s'' Ht]]; rewrite Ht; [left; reflexivity|right; eauto]).
  congruence.
Qed.

Lemma convT_no_loop_sig : forall self J e (mr mt : M value), convT self J mr mt ->
  (forall f c, self = Some (f, c) -> forall j vs s r s', apply j c vs s = (r, s') -> noloop r) ->
  convT self J (no_loop_sig e mr) (no_loop_sig e mt).
Proof.
  intros self J e mr mt H Hc s r s' E Hr. unfold no_loop_sig in E. unfold shadowed, no_loop_sig.
  destruct (mr s) as [r0 s1] eqn:E1.
  assert (Hr0 : r0 <> Fuel). { intros ->. inversion E; subst. congruence. }
  destruct (H _ _ _ E1 Hr0) as [Ht|[[s'' Ht]|[f [c [vs [s2 [j [Hs [Ht [Hj Ha]]]]]]]]]]; rewrite Ht.
  - left. exact E.
  - right; left. eauto.
  - right; right. exists f, c, vs, s2, j. repeat split; auto.
    destruct (Hc _ _ Hs _ _ _ _ _ Ha) as [Nb Nc].
    destruct r0 as [a|[l|l|e0|tv|]|]; inversion E; subst; try assumption;
      [exfalso; apply (Nb l); reflexivity|exfalso; apply (Nc l); reflexivity].
Qed.

Section ConvOpen.
  Variables evr evt : list nat -> expr -> M value.
  Variables apr apt : value -> list value -> M value.
  Hypothesis Hev : forall env e, convN (evr env e) (evt env e).
  Hypothesis Hap : forall f args, convN (apr f args) (apt f args).

  Lemma conv_ev_list : forall env es, convN (ev_list evr env es) (ev_list evt env es).
  Proof.
    induction es as [|e r IH]; simpl; [apply convN_refl|].
    apply convN_bind; [apply Hev|]. intros v. apply convN_bind; [apply IH|]. intros; apply convN_refl.
  Qed.

  Lemma conv_ev_begin : forall env es, convN (ev_begin evr env es) (ev_begin evt env es).
  Proof.
    induction es as [|e r IH]; simpl; [apply convN_refl|].
    destruct r as [|e2 r]; [apply Hev|].
    apply convN_bind; [apply Hev|]. intros _. apply IH.
  Qed.

  Lemma conv_ev_args : forall env es, convN (ev_args evr env es) (ev_args evt env es).
  Proof.
    induction es as [|e r IH]; simpl; [apply convN_refl|].
    destruct (cc [] e); [|apply convN_refl].
    apply convN_bind; [apply Hev|]. intros v. apply convN_bind; [apply IH|]. intros; apply convN_refl.
  Qed.

  Lemma conv_ev_letseq : forall f env bs, convN (ev_letseq evr f env bs) (ev_letseq evt f env bs).
  Proof.
    induction bs as [|[x e] r IH]; simpl; [apply convN_refl|].
    apply convN_bind; [apply Hev|]. intros v. apply convN_bind; [apply convN_refl|]. intros _. apply IH.
  Qed.

  Lemma conv_for_loop : forall k k' env lbl test step body, (k <= k')%nat ->
    convN (for_loop evr k env lbl test step body) (for_loop evt k' env lbl test step body).
  Proof.
    induction k as [|k IH]; intros k' env lbl test step body Hk.
    - intros s r s' E Hr. simpl in E. inversion E; subst. congruence.
    - destruct k' as [|k']; [lia|]. simpl.
      apply convN_bind; [apply convN_no_loop_sig; apply Hev|]. intros t.
      destruct (truthy t); [|apply convN_refl].
      assert (Hnext : convN (_ <- no_loop_sig EUnspec (evr env step) ;; for_loop evr k env lbl test step body)
                            (_ <- no_loop_sig EUnspec (evt env step) ;; for_loop evt k' env lbl test step body)).
      { apply convN_bind; [apply convN_no_loop_sig; apply Hev|]. intros _. apply IH. lia. }
      intros s r s' E Hr. unfold shadowed.
      destruct (ev_begin evr env body s) as [rb s1] eqn:Eb.
      assert (Hrb : rb <> Fuel). { intros ->. inversion E; subst. congruence. }
      destruct (conv_ev_begin env body _ _ _ Eb Hrb) as [Ht|[s'' Ht]]; rewrite Ht; [|right; eauto].
      destruct rb as [v|[l|l|e|vs|]|]; try (left; exact E); try (apply Hnext; assumption).
      destruct (hits l lbl); [apply Hnext; assumption|left; exact E].
  Qed.

  Lemma conv_call_expr : forall env f args, convN (call_expr evr apr env f args) (call_expr evt apt env f args).
  Proof.
    intros env f args. unfold call_expr. apply convN_bind.
    - destruct f; try apply Hev; destruct (cc [] _); try apply Hev; apply convN_refl.
    - intros fv. destruct fv; try apply convN_refl;
        (apply convN_bind; [apply conv_ev_args|intros vs; apply Hap]).
  Qed.

  Lemma conv_map_arr : forall f xs t, convN (map_arr apr f xs t) (map_arr apt f xs t).
  Proof.
    induction xs as [|x r IH]; simpl; intros t; [apply convN_refl|].
    apply convN_bind; [apply Hap|]. intros y. apply convN_bind; [apply convN_refl|]. intros t1.
    apply convN_bind; [apply IH|]. intros; apply convN_refl.
  Qed.

  Lemma conv_map_pairs : forall f v, convN (map_pairs apr f v) (map_pairs apt f v).
  Proof.
    induction v; simpl; try apply convN_refl.
    apply convN_bind; [apply Hap|]. intros h'. apply convN_bind; [apply IHv2|]. intros; apply convN_refl.
  Qed.

  Lemma conv_prim_apply : forall p args, convN (prim_apply apr p args) (prim_apply apt p args).
  Proof.
    intros p args. destruct p; simpl; try apply convN_refl.
    - destruct args as [|f [|c [|? ?]]]; try apply convN_refl.
      destruct (is_fn f); [|apply convN_refl].
      destruct c; try apply convN_refl.
      + apply conv_map_pairs.
      + apply convN_bind; [apply convN_refl|]. intros o. apply convN_bind; [apply conv_map_arr|]. intros; apply convN_refl.
    - destruct args as [|f [|c [|? ?]]]; try apply convN_refl.
      destruct (is_fn f); [|apply convN_refl].
      destruct c; try apply convN_refl.
      + destruct (val_list _); [apply Hap|apply convN_refl].
      + apply convN_bind; [apply convN_refl|]. intros o. apply Hap.
  Qed.
End ConvOpen.

Section ConvTail.
  Variable evr : list nat -> expr -> M value.
  Variable evtt : bool -> list nat -> expr -> M value.
  Variable self : option (ident * value).
  Variable J : nat.
  Hypothesis Hevt : forall tl env e, convP tl self J (evr env e) (evtt tl env e).

  Lemma conv_tev_begin : forall tl env es, convP tl self J (ev_begin evr env es) (tev_begin evtt tl env es).
  Proof.
    induction es as [|e r IH]; simpl; [apply convN_convP; apply convN_refl|].
    destruct r as [|e2 r]; [apply Hevt|].
    apply convP_bind; [apply (Hevt false)|]. intros _. apply IH.
  Qed.

  Lemma conv_tev_cond : forall tl env arms d, convP tl self J (ev_cond evr env arms d) (tev_cond evtt tl env arms d).
  Proof.
    induction arms as [|[c b] r IH]; simpl; intros d; [apply Hevt|].
    apply convP_bind; [apply (Hevt false)|]. intros v. destruct (truthy v); [apply Hevt|apply IH].
  Qed.

  Lemma conv_tev_and : forall tl env es, convP tl self J (ev_and evr env es) (tev_and evtt tl env es).
  Proof.
    induction es as [|e r IH]; simpl; [apply convN_convP; apply convN_refl|].
    destruct r as [|e2 r]; [apply Hevt|].
    apply convP_bind; [apply (Hevt false)|]. intros v. destruct (truthy v); [apply IH|apply convN_convP; apply convN_refl].
  Qed.

  Lemma conv_tev_or : forall tl env es, convP tl self J (ev_or evr env es) (tev_or evtt tl env es).
  Proof.
    induction es as [|e r IH]; simpl; [apply convN_convP; apply convN_refl|].
    destruct r as [|e2 r]; [apply Hevt|].
    apply convP_bind; [apply (Hevt false)|]. intros v. destruct (truthy v); [apply convN_convP; apply convN_refl|apply IH].
  Qed.
End ConvTail.

(* ---- the reference evaluator never produces the two signals of the optimising model ---- *)

Definition bad (g : sig) : Prop := match g with STail _ | SShadow => True | _ => False end.
Definition cleanM {A} (m : M A) : Prop := forall s r s' g, m s = (r, s') -> bad g -> r <> Sig g.

Ltac cl_fin := let Hc := fresh in intros Hc; inversion Hc; subst; simpl in *; contradiction.

Lemma clean_ret : forall A (a : A), cleanM (ret a).
Proof. intros A a s r s' g E Hb. inversion E; subst. discriminate. Qed.
Lemma clean_raise : forall A e, cleanM (@raise A e).
Proof. intros A e s r s' g E Hb. inversion E; subst. cl_fin. Qed.
Lemma clean_bind : forall A B (m : M A) (k : A -> M B), cleanM m -> (forall a, cleanM (k a)) -> cleanM (bindM m k).
Proof.
  intros A B m k Hm Hk s r s' g E Hb. unfold bindM in E. destruct (m s) as [[a|g0|] s1] eqn:E1.
  - eapply Hk; eassumption.
  - inversion E; subst. intros Hc. inversion Hc; subst. apply (Hm _ _ _ _ E1 Hb). reflexivity.
  - inversion E; subst. discriminate.
Qed.
Lemma clean_push : forall A (k : nat -> M A), (forall f, cleanM (k f)) -> cleanM (fun s => let '(f, s1) := push_frame s in k f s1).
Proof. intros A k H s r s' g E Hb. destruct (push_frame s) as [f s1]. eapply H; eassumption. Qed.
Lemma clean_no_loop_sig : forall A e (m : M A), cleanM m -> cleanM (no_loop_sig e m).
Proof.
  intros A e m H s r s' g E Hb. unfold no_loop_sig in E.
  destruct (m s) as [[a|[l|l|e0|vs|]|] s1] eqn:E1; inversion E; subst; try discriminate; try cl_fin.
  - apply (H _ _ _ _ E1 Hb).
  - apply (H _ _ _ _ E1 Hb).
Qed.

Lemma clean_bind_frame : forall f x v, cleanM (bind f x v).
Proof.
  intros f x v s r s' g E Hb. destruct r as [a|g0|]; try discriminate.
  destruct (bind_sig _ _ _ _ _ _ E) as [e0 He]. subst. cl_fin.
Qed.
Lemma clean_bind_all : forall f xs, cleanM (bind_all f xs).
Proof.
  induction xs as [|[x v] r IH]; simpl; [apply clean_ret|].
  apply clean_bind; [apply clean_bind_frame|intros _; apply IH].
Qed.
Lemma clean_get_arr : forall a, cleanM (get_arr a).
Proof. intros a s r s' g E Hb. unfold get_arr in E. destruct (nth_error (arrays s) a); inversion E; subst; [discriminate|cl_fin]. Qed.
Lemma clean_alloc : forall vs t, cleanM (alloc_arr vs t).
Proof. intros vs t s r s' g E Hb. inversion E; subst. discriminate. Qed.
Lemma clean_arith : forall op r acc, cleanM (arith op acc r).
Proof.
  induction r as [|b r IH]; simpl; intros acc; [apply clean_ret|].
  destruct acc; destruct b; try apply clean_raise. apply IH.
Qed.
Lemma clean_compare : forall test args, cleanM (compare_prim test args).
Proof.
  intros test args. unfold compare_prim. destruct args as [|a [|b [|? ?]]]; try apply clean_raise.
  intros s r s' g E Hb. destruct (cmp_val depth_limit (arrays s) a b); inversion E; subst; try discriminate; cl_fin.
Qed.

Lemma clean_typeof_step : forall y : value,
  cleanM (fun s => let '(ty1, ars1) := type_of depth_limit (arrays s) y in (Done ty1, with_arrays s ars1)).
Proof.
  intros y s r s' g E Hb. cbv beta in E. destruct (type_of depth_limit (arrays s) y) as [ty1 ars1].
  inversion E; subst. discriminate.
Qed.

Ltac cl :=
  match goal with
  | |- cleanM (ret _) => apply clean_ret
  | |- cleanM (raise _) => apply clean_raise
  | |- cleanM (alloc_arr _ _) => apply clean_alloc
  | |- cleanM (arith _ _ _) => apply clean_arith
  | |- cleanM (compare_prim _ _) => apply clean_compare
  | |- cleanM (get_arr _) => apply clean_get_arr
  | |- cleanM (bindM _ _) => apply clean_bind; [|intros ?]
  | |- cleanM (match ?x with _ => _ end) => destruct x
  | |- cleanM (if ?c then _ else _) => destruct c
  end.

Section CleanOpen.
  Variable ev : list nat -> expr -> M value.
  Variable ap : value -> list value -> M value.
  Hypothesis Hev : forall env e, cleanM (ev env e).
  Hypothesis Hap : forall f args, cleanM (ap f args).

  Lemma clean_ev_list : forall env es, cleanM (ev_list ev env es).
  Proof. induction es as [|e r IH]; simpl; [apply clean_ret|]. apply clean_bind; [apply Hev|]. intros v. apply clean_bind; [apply IH|intros; apply clean_ret]. Qed.
  Lemma clean_ev_begin : forall env es, cleanM (ev_begin ev env es).
  Proof. induction es as [|e r IH]; simpl; [apply clean_ret|]. destruct r; [apply Hev|]. apply clean_bind; [apply Hev|intros _; apply IH]. Qed.
  Lemma clean_ev_cond : forall env arms d, cleanM (ev_cond ev env arms d).
  Proof. induction arms as [|[c b] r IH]; simpl; intros d; [apply Hev|]. apply clean_bind; [apply Hev|]. intros v. destruct (truthy v); [apply Hev|apply IH]. Qed.
  Lemma clean_ev_and : forall env es, cleanM (ev_and ev env es).
  Proof. induction es as [|e r IH]; simpl; [apply clean_raise|]. destruct r; [apply Hev|]. apply clean_bind; [apply Hev|]. intros v. destruct (truthy v); [apply IH|apply clean_ret]. Qed.
  Lemma clean_ev_or : forall env es, cleanM (ev_or ev env es).
  Proof. induction es as [|e r IH]; simpl; [apply clean_raise|]. destruct r; [apply Hev|]. apply clean_bind; [apply Hev|]. intros v. destruct (truthy v); [apply clean_ret|apply IH]. Qed.
  Lemma clean_ev_args : forall env es, cleanM (ev_args ev env es).
  Proof. induction es as [|e r IH]; simpl; [apply clean_ret|]. destruct (cc [] e); [|apply clean_raise]. apply clean_bind; [apply Hev|]. intros v. apply clean_bind; [apply IH|intros; apply clean_ret]. Qed.
  Lemma clean_ev_letseq : forall f env bs, cleanM (ev_letseq ev f env bs).
  Proof. induction bs as [|[x e] r IH]; simpl; [apply clean_ret|]. apply clean_bind; [apply Hev|]. intros v. apply clean_bind; [apply clean_bind_frame|intros _; apply IH]. Qed.

  Lemma clean_for_loop : forall k env lbl test step body, cleanM (for_loop ev k env lbl test step body).
  Proof.
    induction k as [|k IH]; intros env lbl test step body; simpl.
    - intros s r s' g E Hb. inversion E; subst. discriminate.
    - apply clean_bind; [apply clean_no_loop_sig; apply Hev|]. intros t. destruct (truthy t); [|apply clean_ret].
      assert (Hn : cleanM (_ <- no_loop_sig EUnspec (ev env step) ;; for_loop ev k env lbl test step body)).
      { apply clean_bind; [apply clean_no_loop_sig; apply Hev|intros _; apply IH]. }
      intros s r s' g E Hb.
      destruct (ev_begin ev env body s) as [[v|[l|l|e|vs|]|] s1] eqn:Eb.
      + eapply Hn; eassumption.
      + destruct (hits l lbl); inversion E; subst; [discriminate|cl_fin].
      + destruct (hits l lbl); [eapply Hn; eassumption|inversion E; subst; cl_fin].
      + inversion E; subst. cl_fin.
      + exfalso. apply (clean_ev_begin env body _ _ _ (STail vs) Eb I). reflexivity.
      + exfalso. apply (clean_ev_begin env body _ _ _ SShadow Eb I). reflexivity.
      + inversion E; subst. discriminate.
  Qed.

  Lemma clean_call_expr : forall env f args, cleanM (call_expr ev ap env f args).
  Proof.
    intros env f args. unfold call_expr. apply clean_bind.
    - destruct f; try apply Hev; destruct (cc [] _); try apply Hev; apply clean_raise.
    - intros fv. destruct fv; try apply clean_raise; try (destruct args; [apply clean_ret|apply clean_raise]);
        (apply clean_bind; [apply clean_ev_args|intros vs; apply Hap]).
  Qed.

  Lemma clean_map_arr : forall f xs t, cleanM (map_arr ap f xs t).
  Proof.
    induction xs as [|x r IH]; simpl; intros t; [apply clean_ret|].
    apply clean_bind; [apply Hap|]. intros y. apply clean_bind.
    - destruct t; [apply clean_ret|apply clean_typeof_step].
    - intros t1. apply clean_bind; [apply IH|intros; apply clean_ret].
  Qed.
  Lemma clean_map_pairs : forall f v, cleanM (map_pairs ap f v).
  Proof.
    induction v; simpl; try apply clean_raise; try apply clean_ret.
    apply clean_bind; [apply Hap|]. intros h'. apply clean_bind; [apply IHv2|intros; apply clean_ret].
  Qed.

  Lemma clean_prim_apply : forall p args, cleanM (prim_apply ap p args).
  Proof.
    intros p args. destruct p.
    21:{ simpl. destruct args as [|f [|c [|? ?]]]; try apply clean_raise.
         destruct (is_fn f); [|apply clean_raise]. destruct c; try apply clean_raise.
         - destruct (val_list _); [apply Hap|apply clean_raise].
         - apply clean_bind; [apply clean_get_arr|intros o; apply Hap]. }
    20:{ simpl. destruct args as [|f [|c [|? ?]]]; try apply clean_raise.
         destruct (is_fn f); [|apply clean_raise]. destruct c; try apply clean_raise.
         - apply clean_map_pairs.
         - apply clean_bind; [apply clean_get_arr|]. intros o. apply clean_bind; [apply clean_map_arr|intros; apply clean_alloc]. }
    all: simpl; repeat cl.
    all: intros s r s' g E Hb; simpl in E.
    all: repeat match goal with
                | E : context[if ?c then _ else _] |- _ => destruct c
                end; inversion E; subst; try discriminate; cl_fin.
  Qed.
End CleanOpen.

Lemma ref_clean : forall k,
  (forall env e, cleanM (eval k env e)) /\ (forall f args, cleanM (apply k f args)).
Proof.
  induction k as [|k [IHe IHa]].
  - split; intros; intros s r s' g E Hb; inversion E; subst; discriminate.
  - split.
    + intros env e. destruct e; simpl; try apply clean_ret.
      * intros s r s' g E Hb. destruct (lookup_chain (frames s) env x) as [[? ?]|]; inversion E; subst; [discriminate|cl_fin].
      * apply clean_bind; [apply clean_ev_list; assumption|intros; apply clean_alloc].
      * apply clean_call_expr; assumption.
      * apply clean_ev_begin; assumption.
      * apply clean_ev_cond; assumption.
      * apply clean_ev_and; assumption.
      * apply clean_ev_or; assumption.
      * apply clean_bind; [apply IHe|]. intros v. apply clean_bind; [apply clean_bind_frame|intros; apply clean_ret].
      * apply clean_bind; [apply IHe|]. intros v s r s' g E Hb.
        destruct (lookup_chain (frames s) env x) as [[? ?]|].
        -- inversion E; subst. discriminate.
        -- revert E Hb. apply (clean_bind _ _ _ _ (clean_bind_frame _ _ _) (fun _ => clean_ret _ v)).
      * destruct seq.
        -- apply (clean_push _ (fun f => _ <- ev_letseq (eval k) f (f :: env) bs ;; ev_begin (eval k) (f :: env) body)).
           intros f. apply clean_bind; [apply clean_ev_letseq; assumption|intros _; apply clean_ev_begin; assumption].
        -- apply (clean_push _ (fun f => vs <- ev_list (eval k) (f :: env) (map snd bs) ;;
                                         _ <- bind_all f (rev (combine (map fst bs) vs)) ;; ev_begin (eval k) (f :: env) body)).
           intros f. apply clean_bind; [apply clean_ev_list; assumption|]. intros vs.
           apply clean_bind; [apply clean_bind_all|intros _; apply clean_ev_begin; assumption].
      * apply (clean_push _ (fun f => ev_begin (eval k) (f :: env) es)). intros f. apply clean_ev_begin; assumption.
      * apply (clean_push _ (fun f => _ <- no_loop_sig EUnspec (eval k (f :: env) e1) ;; for_loop (eval k) k (f :: env) lbl e2 e3 body)).
        intros f. apply clean_bind; [apply clean_no_loop_sig; apply IHe|intros _; apply clean_for_loop; assumption].
      * intros s r s' g E Hb. inversion E; subst. cl_fin.
      * intros s r s' g E Hb. inversion E; subst. cl_fin.
      * apply clean_bind; [apply clean_bind_frame|intros; apply clean_ret].
    + intros f args. destruct f; simpl; try apply clean_raise.
      * destruct (zip_params ps rest args []); [|apply clean_raise].
        apply (clean_push _ (fun fid => _ <- bind_all fid l ;; no_loop_sig ELoop (ev_begin (eval k) (fid :: env) body))).
        intros fid. apply clean_bind; [apply clean_bind_all|intros _; apply clean_no_loop_sig; apply clean_ev_begin; assumption].
      * apply clean_prim_apply; assumption.
Qed.

(* ---- the converse simulation ---- *)

Definition CE (k : nat) : Prop := forall n, (2 * k <= n)%nat -> forall self tl env e,
  convP tl self k (eval k env e) (evs n self tl env e).
Definition CA (k : nat) : Prop := forall n, (2 * k <= n)%nat -> forall f args,
  convN (apply k f args) (aps n f args).
Definition CL (k : nat) : Prop := forall n, (2 * k + 1 <= n)%nat -> forall nm ps rest body cenv binds,
  convN (body_ref k body cenv binds) (tls n (VClos nm ps rest body cenv) binds).

Lemma conv_fuel0 : forall A (m mt : M A), (forall s, m s = (Fuel, s)) -> convN m mt.
Proof. intros A m mt H s r s' E Hr. rewrite H in E. inversion E; subst. congruence. Qed.

Lemma conv_main : forall k, CE k /\ CA k /\ CL k.
Proof.
  induction k as [k IH] using lt_wf_ind.
  assert (HE : CE k).
  { destruct k as [|k0].
    - intros n Hn self tl env e. apply convN_convP. apply conv_fuel0. reflexivity.
    - intros n Hn self tl env e. destruct n as [|n0]; [lia|].
      destruct (IH k0 ltac:(lia)) as [IHe [IHa _]].
      assert (Hevt : forall tl env e, convP tl self (S k0) (eval k0 env e) (evs n0 self tl env e)).
      { intros tl0 env0 e0. apply (convP_weaken tl0 self k0 (S k0)); [lia|]. apply IHe. lia. }
      assert (IHe0 : forall env e, convN (eval k0 env e) (evs n0 self false env e)).
      { intros env0 e0. apply (IHe n0 ltac:(lia) self false). }
      assert (IHa0 : forall f args, convN (apply k0 f args) (aps n0 f args)).
      { intros f args. apply IHa. lia. }
      destruct e; unfold evs; simpl; fold evs; fold aps; try (apply convN_convP; apply convN_refl).
      + apply convN_convP. apply convN_bind; [apply conv_ev_list; exact IHe0|intros; apply convN_refl].
      + (* call *)
        destruct (is_self self tl e (length args)) as [[nm c]|] eqn:Es.
        2:{ apply convN_convP. apply conv_call_expr; [exact IHe0|exact IHa0]. }
        unfold is_self in Es. destruct tl; [|discriminate]. destruct self as [[nm' c']|]; [|discriminate].
        destruct e; try discriminate.
        destruct ((x =? nm') && arity_fits c' (length args)) eqn:Eg; [|discriminate].
        inversion Es; subst nm' c'. clear Es.
        apply andb_true_iff in Eg. destruct Eg as [Ex Ear]. apply Z.eqb_eq in Ex. subst x.
        simpl. intros s r s' E Hr. unfold shadowed.
        unfold call_expr in E. unfold bindM in E at 1.
        destruct k0 as [|k1]; [simpl in E; inversion E; subst; congruence|].
        rewrite eval_var in E.
        destruct (lookup_chain (frames s) env nm) as [[fr v]|] eqn:El; [|right; left; eauto].
        destruct (clos_eqb v c) eqn:Ec; [|right; left; eauto].
        apply clos_eqb_sound in Ec. subst v.
        destruct c as [| | | | | | |n1 ps rest body cenv|]; try discriminate Ear.
        cbv beta iota in E. unfold bindM in E. unfold bindM.
        destruct (ev_args (eval (S k1)) env args s) as [[vs|g|] s1] eqn:Ea.
        * destruct (conv_ev_args _ _ IHe0 env args _ _ _ Ea ltac:(discriminate)) as [Ht|[s'' Ht]]; rewrite Ht; [|right; left; eauto].
          right; right. exists nm, (VClos n1 ps rest body cenv), vs, s1, (S k1). repeat split; auto.
        * inversion E; subst.
          destruct (conv_ev_args _ _ IHe0 env args _ _ _ Ea ltac:(discriminate)) as [Ht|[s'' Ht]]; rewrite Ht; [left; reflexivity|right; left; eauto].
        * inversion E; subst. congruence.
      + apply conv_tev_begin. exact Hevt.
      + apply conv_tev_cond. exact Hevt.
      + apply conv_tev_and. exact Hevt.
      + apply conv_tev_or. exact Hevt.
      + apply convN_convP. apply convN_bind; [apply IHe0|intros; apply convN_refl].
      + apply convN_convP. apply convN_bind; [apply IHe0|intros; apply convN_refl].
      + destruct seq.
        * apply (convP_push tl self (S k0)
                   (fun f => _ <- ev_letseq (eval k0) f (f :: env) bs ;; ev_begin (eval k0) (f :: env) body)
                   (fun f => _ <- ev_letseq (evs n0 self false) f (f :: env) bs ;; tev_begin (evs n0 self) tl (f :: env) body)).
          intros f. apply convP_bind; [apply conv_ev_letseq; exact IHe0|]. intros _. apply conv_tev_begin. exact Hevt.
        * apply (convP_push tl self (S k0)
                   (fun f => vs <- ev_list (eval k0) (f :: env) (map snd bs) ;;
                             _ <- bind_all f (rev (combine (map fst bs) vs)) ;; ev_begin (eval k0) (f :: env) body)
                   (fun f => vs <- ev_list (evs n0 self false) (f :: env) (map snd bs) ;;
                             _ <- bind_all f (rev (combine (map fst bs) vs)) ;; tev_begin (evs n0 self) tl (f :: env) body)).
          intros f. apply convP_bind; [apply conv_ev_list; exact IHe0|]. intros vs.
          apply convP_bind; [apply convN_refl|]. intros _. apply conv_tev_begin. exact Hevt.
      + apply (convP_push tl self (S k0) (fun f => ev_begin (eval k0) (f :: env) es) (fun f => tev_begin (evs n0 self) tl (f :: env) es)).
        intros f. apply conv_tev_begin. exact Hevt.
      + apply convN_convP.
        apply (convN_push _ (fun f => _ <- no_loop_sig EUnspec (eval k0 (f :: env) e1) ;; for_loop (eval k0) k0 (f :: env) lbl e2 e3 body)
                            (fun f => _ <- no_loop_sig EUnspec (evs n0 self false (f :: env) e1) ;;
                                      for_loop (evs n0 self false) n0 (f :: env) lbl e2 e3 body)).
        intros f. apply convN_bind; [apply convN_no_loop_sig; apply IHe0|]. intros _.
        apply conv_for_loop; [exact IHe0|lia]. }
  assert (HL : CL k).
  { intros n Hn nm ps rest body cenv binds. destruct n as [|m]; [lia|].
    set (c := VClos nm ps rest body cenv).
    intros s r s' E Hr. unfold shadowed. unfold c. rewrite tls_unfold. fold c. unfold body_ref in E.
    destruct (push_frame s) as [fid s1] eqn:Ep.
    set (mr := _ <- bind_all fid binds ;; no_loop_sig ELoop (ev_begin (eval k) (fid :: cenv) body)) in E.
    set (mt := _ <- bind_all fid binds ;; no_loop_sig ELoop (tev_begin (evs m (self_of c)) true (fid :: cenv) body)).
    assert (Hconv : convT (self_of c) k mr mt).
    { apply convT_bind; [apply convN_refl|]. intros _. apply convT_no_loop_sig.
      - apply (conv_tev_begin (eval k) (evs m (self_of c)) (self_of c) k) with (tl := true).
        intros tl env e. apply HE. lia.
      - intros f0 c0 Hs j vs s0 r0 s0' Ha. unfold c in Hs. simpl in Hs. destruct nm; inversion Hs; subst.
        eapply apply_clos_noloop; eassumption. }
    assert (Hclean : forall g, bad g -> r <> Sig g).
    { intros g Hb. revert E Hb.
      apply (clean_bind _ _ _ _ (clean_bind_all fid binds)
               (fun _ => clean_no_loop_sig _ ELoop _ (clean_ev_begin _ (proj1 (ref_clean k)) (fid :: cenv) body))). }
    destruct (Hconv _ _ _ E Hr) as [Ht|[[s'' Ht]|[f0 [c0 [vs [s2 [j [Hs [Ht [Hj Ha]]]]]]]]]]; rewrite Ht.
    - left. destruct r as [a|[l|l|e0|vs|]|]; try reflexivity.
      + exfalso. apply (Hclean (STail vs) I). reflexivity.
    - right. eauto.
    - unfold c in Hs. simpl in Hs. destruct nm as [nm|]; inversion Hs; subst f0 c0. fold c in Ha.
      destruct j as [|j']; [simpl in Ha; inversion Ha; subst; congruence|].
      unfold c in Ha. simpl in Ha. fold c in Ha.
      destruct (zip_params ps rest vs []) as [binds'|] eqn:Ez.
      + destruct (IH j' ltac:(lia)) as [_ [_ IHl]].
        apply (IHl m ltac:(lia) (Some nm) ps rest body cenv binds' s2 r s'); [|exact Hr].
        unfold body_ref. exact Ha.
      + left. unfold raise in Ha. exact Ha. }
  split; [exact HE|]. split; [|exact HL].
  (* apply *)
  intros n Hn f args. destruct k as [|k0]; [apply conv_fuel0; reflexivity|].
  destruct n as [|n0]; [lia|].
  destruct (IH k0 ltac:(lia)) as [_ [IHa IHl]].
  destruct f; unfold aps; simpl; fold aps; fold tls; try apply convN_refl.
  - destruct (zip_params ps rest args []) as [binds|]; [|apply convN_refl].
    apply (IHl n0 ltac:(lia) name ps rest body env binds).
  - apply conv_prim_apply. intros f a. apply IHa. lia.
Qed.

Theorem tail_invisible_converse_run_proof : forall k failat forms r s',
  ev_begin (eval k) [O] forms (init_store failat) = (r, s') -> r <> Fuel ->
  tev_begin (eval_tco true false (2 * k) None) false [O] forms (init_store failat) = (r, s') \/
  exists s'', tev_begin (eval_tco true false (2 * k) None) false [O] forms (init_store failat) = (Sig SShadow, s'').
Proof.
  intros k failat forms r s' E Hr.
  pose proof (conv_tev_begin (eval k) (evs (2 * k) None) None k) as H.
  specialize (H (fun tl env e => proj1 (conv_main k) (2 * k)%nat (le_n _) None tl env e) false [O] forms).
  simpl in H. apply (H _ _ _ E Hr).
Qed.

Theorem tail_invisible_converse_proof : forall k failat forms o,
  eval_program_cfg k failat forms = o -> o_res o <> Fuel ->
  (exists h, eval_program_tco true false (2 * k) failat forms = (o, false, h)) \/
  snd (fst (eval_program_tco true false (2 * k) failat forms)) = true.
Proof.
  intros k failat forms o E Hf. unfold eval_program_cfg in E. unfold eval_program_tco.
  destruct (forallb (cc []) forms); [|left; exists O; subst; reflexivity].
  destruct (ev_begin (eval k) [0%nat] forms (init_store failat)) as [r s'] eqn:Er.
  assert (Hr : r <> Fuel). { intros ->. subst o. apply Hf. reflexivity. }
  assert (Hc : forall g, bad g -> r <> Sig g).
  { intros g Hb. exact (clean_ev_begin _ (proj1 (ref_clean k)) [0%nat] forms _ _ _ g Er Hb). }
  destruct (tail_invisible_converse_run_proof _ _ _ _ _ Er Hr) as [Ht|[s'' Ht]]; rewrite Ht.
  - left. exists (hwm s'). subst o. unfold finish_tco, finish.
    destruct r as [v|[l|l|e|vs|]|]; try reflexivity.
    exfalso. apply (Hc SShadow I). reflexivity.
  - right. reflexivity.
Qed.

(* with the side condition as a property of the program: no strict run, whatever its fuel, ends
   with the verdict SShadow *)
Definition no_self_shadow (failat : nat) (forms : list expr) : Prop :=
  forall n, snd (fst (eval_program_tco true false n failat forms)) = false.

Theorem tail_invisible_converse_cond_proof : forall k failat forms o,
  eval_program_cfg k failat forms = o -> o_res o <> Fuel -> no_self_shadow failat forms ->
  exists n h, eval_program_tco true false n failat forms = (o, false, h).
Proof.
  intros k failat forms o E Hf Hn.
  destruct (tail_invisible_converse_proof _ _ _ _ E Hf) as [[h Hh]|Hs].
  - exists (2 * k)%nat, h. exact Hh.
  - rewrite (Hn (2 * k)%nat) in Hs. discriminate.
Qed.

Theorem converse_apply_proof : forall k f args s r s',
  apply k f args s = (r, s') -> r <> Fuel ->
  apply_tco true false (2 * k) f args s = (r, s') \/ exists s'', apply_tco true false (2 * k) f args s = (Sig SShadow, s'').
Proof. intros k f args s r s' E Hr. exact (proj1 (proj2 (conv_main k)) (2 * k)%nat (le_n _) f args s r s' E Hr). Qed.
