(* Proofs about Model/RefSemTco.v (C09).  Section 1 (fuel monotonicity of the reference evaluator) is
   the proof of Proofs/RefSemProofs.v replayed on the copy of the evaluator; the rest is new. *)
From Coq Require Import ZArith Bool List Lia.
From ZV Require Import Model.Num Model.RefSemTco.
Import ListNotations.
Open Scope Z_scope.

(* ================================================================= 1. fuel monotonicity (ref) *)

(* m' does whatever m does whenever m finishes (value or signal) *)
Definition le_M {A} (m m' : M A) : Prop :=
  forall s r s', m s = (r, s') -> r <> Fuel -> m' s = (r, s').

Lemma le_M_refl : forall A (m : M A), le_M m m.
Proof. unfold le_M. auto. Qed.

Lemma le_bind : forall A B (m m' : M A) (k k' : A -> M B),
  le_M m m' -> (forall a, le_M (k a) (k' a)) -> le_M (bindM m k) (bindM m' k').
Proof.
  unfold le_M, bindM. intros A B m m' k k' Hm Hk s r s' H Hr.
  destruct (m s) as [[a|g|] s1] eqn:E.
  - rewrite (Hm _ _ _ E) by discriminate. apply Hk; assumption.
  - rewrite (Hm _ _ _ E) by discriminate. assumption.
  - inversion H; subst. congruence.
Qed.

Lemma le_no_loop_sig : forall A e (m m' : M A), le_M m m' -> le_M (no_loop_sig e m) (no_loop_sig e m').
Proof.
  unfold le_M, no_loop_sig. intros A e m m' Hm s r s' H Hr.
  destruct (m s) as [[a|g|] s1] eqn:E.
  - rewrite (Hm _ _ _ E) by discriminate. assumption.
  - rewrite (Hm _ _ _ E) by discriminate. assumption.
  - inversion H; subst. congruence.
Qed.

Lemma le_push : forall A (k k' : nat -> M A), (forall f, le_M (k f) (k' f)) ->
  le_M (fun s => let '(f, s1) := push_frame s in k f s1) (fun s => let '(f, s1) := push_frame s in k' f s1).
Proof.
  unfold le_M. intros A k k' H s r s' E Hr. destruct (push_frame s) as [f s1]. apply H; assumption.
Qed.

Section MonoOpen.
  Variables ev ev' : list nat -> expr -> M value.
  Variables ap ap' : value -> list value -> M value.
  Hypothesis Hev : forall env e, le_M (ev env e) (ev' env e).
  Hypothesis Hap : forall f args, le_M (ap f args) (ap' f args).

  Lemma le_ev_list : forall env es, le_M (ev_list ev env es) (ev_list ev' env es).
  Proof.
    induction es as [|e r IH]; simpl; [apply le_M_refl|].
    apply le_bind; [apply Hev|]. intros v. apply le_bind; [apply IH|]. intros; apply le_M_refl.
  Qed.

  Lemma le_ev_begin : forall env es, le_M (ev_begin ev env es) (ev_begin ev' env es).
  Proof.
    induction es as [|e r IH]; simpl; [apply le_M_refl|].
    destruct r as [|e2 r]; [apply Hev|].
    apply le_bind; [apply Hev|]. intros _. apply IH.
  Qed.

  Lemma le_ev_cond : forall env arms d, le_M (ev_cond ev env arms d) (ev_cond ev' env arms d).
  Proof.
    induction arms as [|[c b] r IH]; simpl; intros d; [apply Hev|].
    apply le_bind; [apply Hev|]. intros v. destruct (truthy v); [apply Hev|apply IH].
  Qed.

  Lemma le_ev_and : forall env es, le_M (ev_and ev env es) (ev_and ev' env es).
  Proof.
    induction es as [|e r IH]; simpl; [apply le_M_refl|].
    destruct r as [|e2 r]; [apply Hev|].
    apply le_bind; [apply Hev|]. intros v. destruct (truthy v); [apply IH|apply le_M_refl].
  Qed.

  Lemma le_ev_or : forall env es, le_M (ev_or ev env es) (ev_or ev' env es).
  Proof.
    induction es as [|e r IH]; simpl; [apply le_M_refl|].
    destruct r as [|e2 r]; [apply Hev|].
    apply le_bind; [apply Hev|]. intros v. destruct (truthy v); [apply le_M_refl|apply IH].
  Qed.

  Lemma le_ev_args : forall env es, le_M (ev_args ev env es) (ev_args ev' env es).
  Proof.
    induction es as [|e r IH]; simpl; [apply le_M_refl|].
    destruct (cc [] e); [|apply le_M_refl].
    apply le_bind; [apply Hev|]. intros v. apply le_bind; [apply IH|]. intros; apply le_M_refl.
  Qed.

  Lemma le_ev_letseq : forall f env bs, le_M (ev_letseq ev f env bs) (ev_letseq ev' f env bs).
  Proof.
    induction bs as [|[x e] r IH]; simpl; [apply le_M_refl|].
    apply le_bind; [apply Hev|]. intros v. apply le_bind; [apply le_M_refl|]. intros _. apply IH.
  Qed.

  Lemma le_for_loop : forall k k' env lbl test step body, (k <= k')%nat ->
    le_M (for_loop ev k env lbl test step body) (for_loop ev' k' env lbl test step body).
  Proof.
    induction k as [|k IH]; intros k' env lbl test step body Hk.
    - unfold le_M. simpl. intros s r s' H Hr. inversion H; subst. congruence.
    - destruct k' as [|k']; [lia|]. simpl.
      apply le_bind; [apply le_no_loop_sig; apply Hev|]. intros t.
      destruct (truthy t); [|apply le_M_refl].
      assert (Hnext : le_M (_ <- no_loop_sig EUnspec (ev env step) ;; for_loop ev k env lbl test step body)
                           (_ <- no_loop_sig EUnspec (ev' env step) ;; for_loop ev' k' env lbl test step body)).
      { apply le_bind; [apply le_no_loop_sig; apply Hev|]. intros _. apply IH. lia. }
      unfold le_M. intros s r s' H Hr.
      destruct (ev_begin ev env body s) as [[v|[l|l|e|tv|]|] s1] eqn:E.
      + rewrite (le_ev_begin _ _ _ _ _ E) by discriminate. apply Hnext; assumption.
      + rewrite (le_ev_begin _ _ _ _ _ E) by discriminate. assumption.
      + rewrite (le_ev_begin _ _ _ _ _ E) by discriminate.
        destruct (hits l lbl); [apply Hnext; assumption|assumption].
      + rewrite (le_ev_begin _ _ _ _ _ E) by discriminate. assumption.
      + rewrite (le_ev_begin _ _ _ _ _ E) by discriminate. assumption.
      + rewrite (le_ev_begin _ _ _ _ _ E) by discriminate. assumption.
      + inversion H; subst. congruence.
  Qed.

  Lemma le_call_expr : forall env f args, le_M (call_expr ev ap env f args) (call_expr ev' ap' env f args).
  Proof.
    intros env f args. unfold call_expr. apply le_bind.
    - destruct f; try apply Hev; destruct (cc [] _); try apply Hev; apply le_M_refl.
    - intros fv. destruct fv; try apply le_M_refl;
        (apply le_bind; [apply le_ev_args|intros vs; apply Hap]).
  Qed.

  Lemma le_map_arr : forall f xs t, le_M (map_arr ap f xs t) (map_arr ap' f xs t).
  Proof.
    induction xs as [|x r IH]; simpl; intros t; [apply le_M_refl|].
    apply le_bind; [apply Hap|]. intros y. apply le_bind; [apply le_M_refl|]. intros t1.
    apply le_bind; [apply IH|]. intros; apply le_M_refl.
  Qed.

  Lemma le_map_pairs : forall f v, le_M (map_pairs ap f v) (map_pairs ap' f v).
  Proof.
    induction v; simpl; try apply le_M_refl.
    apply le_bind; [apply Hap|]. intros h'. apply le_bind; [apply IHv2|]. intros; apply le_M_refl.
  Qed.

  Lemma le_prim_apply : forall p args, le_M (prim_apply ap p args) (prim_apply ap' p args).
  Proof.
    intros p args. destruct p; simpl; try apply le_M_refl.
    - (* PMap *)
      destruct args as [|f [|c [|? ?]]]; try apply le_M_refl.
      destruct (is_fn f); [|apply le_M_refl].
      destruct c; try apply le_M_refl.
      + apply le_map_pairs.
      + apply le_bind; [apply le_M_refl|]. intros o. apply le_bind; [apply le_map_arr|]. intros; apply le_M_refl.
    - (* PApply *)
      destruct args as [|f [|c [|? ?]]]; try apply le_M_refl.
      destruct (is_fn f); [|apply le_M_refl].
      destruct c; try apply le_M_refl.
      + destruct (val_list _); [apply Hap|apply le_M_refl].
      + apply le_bind; [apply le_M_refl|]. intros o. apply Hap.
  Qed.
End MonoOpen.

Lemma eval_apply_step_mono : forall n,
  (forall env e, le_M (eval n env e) (eval (S n) env e)) /\
  (forall f args, le_M (apply n f args) (apply (S n) f args)).
Proof.
  induction n as [|n [IHe IHa]].
  - split; intros; unfold le_M; simpl; intros s r s' H Hr; inversion H; subst; congruence.
  - split.
    + intros env e. destruct e; simpl; try apply le_M_refl.
      * apply le_bind; [apply le_ev_list; assumption|]. intros; apply le_M_refl.
      * apply le_call_expr; assumption.
      * apply le_ev_begin; assumption.
      * apply le_ev_cond; assumption.
      * apply le_ev_and; assumption.
      * apply le_ev_or; assumption.
      * apply le_bind; [apply IHe|]. intros; apply le_M_refl.
      * apply le_bind; [apply IHe|]. intros; apply le_M_refl.
      * destruct seq.
        -- apply (le_push _ (fun f => _ <- ev_letseq (eval n) f (f :: env) bs ;; ev_begin (eval n) (f :: env) body)
                          (fun f => _ <- ev_letseq (eval (S n)) f (f :: env) bs ;; ev_begin (eval (S n)) (f :: env) body)).
           intros f. apply le_bind; [apply le_ev_letseq; assumption|]. intros _. apply le_ev_begin; assumption.
        -- apply (le_push _ (fun f => vs <- ev_list (eval n) (f :: env) (map snd bs) ;;
                                      _ <- bind_all f (rev (combine (map fst bs) vs)) ;; ev_begin (eval n) (f :: env) body)
                          (fun f => vs <- ev_list (eval (S n)) (f :: env) (map snd bs) ;;
                                      _ <- bind_all f (rev (combine (map fst bs) vs)) ;; ev_begin (eval (S n)) (f :: env) body)).
           intros f. apply le_bind; [apply le_ev_list; assumption|]. intros vs.
           apply le_bind; [apply le_M_refl|]. intros _. apply le_ev_begin; assumption.
      * apply (le_push _ (fun f => ev_begin (eval n) (f :: env) es) (fun f => ev_begin (eval (S n)) (f :: env) es)).
        intros f. apply le_ev_begin; assumption.
      * apply (le_push _ (fun f => _ <- no_loop_sig EUnspec (eval n (f :: env) e1) ;;
                                    for_loop (eval n) n (f :: env) lbl e2 e3 body)
                        (fun f => _ <- no_loop_sig EUnspec (eval (S n) (f :: env) e1) ;;
                                    for_loop (eval (S n)) (S n) (f :: env) lbl e2 e3 body)).
        intros f. apply le_bind; [apply le_no_loop_sig; apply IHe|]. intros _.
        apply le_for_loop; [assumption|lia].
    + intros f args. destruct f; simpl; try apply le_M_refl.
      * destruct (zip_params ps rest args []) as [binds|]; [|apply le_M_refl].
        apply (le_push _ (fun fid => _ <- bind_all fid binds ;; no_loop_sig ELoop (ev_begin (eval n) (fid :: env) body))
                        (fun fid => _ <- bind_all fid binds ;; no_loop_sig ELoop (ev_begin (eval (S n)) (fid :: env) body))).
        intros fid. apply le_bind; [apply le_M_refl|]. intros _. apply le_no_loop_sig. apply le_ev_begin; assumption.
      * apply le_prim_apply; assumption.
Qed.

Theorem eval_fuel_mono : forall n n' env e s r s',
  eval n env e s = (r, s') -> r <> Fuel -> (n <= n')%nat -> eval n' env e s = (r, s').
Proof.
  intros n n' env e s r s' H Hr Hle. induction Hle; [assumption|].
  apply (proj1 (eval_apply_step_mono m)); assumption.
Qed.

Theorem apply_fuel_mono : forall n n' f args s r s',
  apply n f args s = (r, s') -> r <> Fuel -> (n <= n')%nat -> apply n' f args s = (r, s').
Proof.
  intros n n' f args s r s' H Hr Hle. induction Hle; [assumption|].
  apply (proj2 (eval_apply_step_mono m)); assumption.
Qed.


(* ================================================================= 2. equality of closures *)

Lemma list_eqb_sound : forall A (eqb : A -> A -> bool) (a b : list A),
  (forall x y, In x a -> eqb x y = true -> x = y) -> list_eqb eqb a b = true -> a = b.
Proof.
  induction a as [|x a IH]; destruct b as [|y b]; simpl; intros Hs H; try discriminate; [reflexivity|].
  apply andb_true_iff in H. destruct H as [H1 H2].
  f_equal; [apply Hs; auto|apply IH; auto].
Qed.

Lemma zlist_eqb_sound : forall a b : list Z, list_eqb Z.eqb a b = true -> a = b.
Proof. intros a b. apply list_eqb_sound. intros x y _ H. apply Z.eqb_eq. exact H. Qed.

Lemma natlist_eqb_sound : forall a b : list nat, list_eqb Nat.eqb a b = true -> a = b.
Proof. intros a b. apply list_eqb_sound. intros x y _ H. apply Nat.eqb_eq. exact H. Qed.

Lemma optz_eqb_sound : forall a b : option Z, opt_eqb Z.eqb a b = true -> a = b.
Proof.
  intros [x|] [y|]; simpl; intros H; try discriminate; [|reflexivity].
  apply Z.eqb_eq in H. subst. reflexivity.
Qed.

Lemma datum_eqb_sound : forall a b, datum_eqb a b = true -> a = b.
Proof.
  fix IH 1. intros a b. destruct a as [x|x|xs]; destruct b as [y|y|ys]; simpl; intros H; try discriminate.
  - apply Z.eqb_eq in H. subst. reflexivity.
  - apply Z.eqb_eq in H. subst. reflexivity.
  - f_equal. revert ys H. induction xs as [|x xs IHxs]; destruct ys as [|y ys]; intros H; try discriminate; [reflexivity|].
    apply andb_true_iff in H. destruct H as [H1 H2]. f_equal; [apply IH; exact H1|apply IHxs; exact H2].
Qed.

Ltac split_andb :=
  repeat match goal with
         | H : _ && _ = true |- _ => apply andb_true_iff in H; destruct H
         end.

(* the nested lists are handled by an inner induction on the list (a sub-term of the expression) *)
Ltac elist IH es H :=
  let IHes := fresh "IHes" in
  let H1 := fresh "H1" in let H2 := fresh "H2" in
  revert H;
  match goal with |- _ ?xs ?ys = true -> _ => revert ys end;
  induction es as [|? es IHes]; intros [|? ?] H; try discriminate; [reflexivity|];
  apply andb_true_iff in H; destruct H as [H1 H2];
  f_equal; [apply IH; exact H1|apply IHes; exact H2].

Lemma expr_eqb_sound : forall a b, expr_eqb a b = true -> a = b.
Proof.
  fix IH 1. intros a b.
  destruct a; destruct b; simpl; intros H; try discriminate; split_andb;
    repeat match goal with
           | H : (_ =? _) = true |- _ => apply Z.eqb_eq in H; subst
           | H : Bool.eqb _ _ = true |- _ => apply Bool.eqb_prop in H; subst
           | H : list_eqb Z.eqb _ _ = true |- _ => apply zlist_eqb_sound in H; subst
           | H : opt_eqb Z.eqb _ _ = true |- _ => apply optz_eqb_sound in H; subst
           | H : datum_eqb _ _ = true |- _ => apply datum_eqb_sound in H; subst
           | H : expr_eqb ?x _ = true |- _ => apply (IH x) in H; subst
           end; try reflexivity.
  - f_equal. elist IH es H.
  - f_equal. elist IH args H0.
  - f_equal. elist IH es H.
  - f_equal.
    revert H. revert arms0.
    induction arms as [|[c1 b1] arms IHarms]; intros [|[c2 b2] ?] H; try discriminate; [reflexivity|].
    apply andb_true_iff in H; destruct H as [Hab Hr]; apply andb_true_iff in Hab; destruct Hab as [Ha Hb].
    apply (IH c1) in Ha. apply (IH b1) in Hb. subst. f_equal. apply IHarms. assumption.
  - f_equal. elist IH es H.
  - f_equal. elist IH es H.
  - f_equal.
    + revert H1. revert bs0.
      induction bs as [|[x1 e1] bs IHbs]; intros [|[x2 e2] ?] H; try discriminate; [reflexivity|].
      apply andb_true_iff in H; destruct H as [Hab Hr]; apply andb_true_iff in Hab; destruct Hab as [Ha Hb].
      apply Z.eqb_eq in Ha. apply (IH e1) in Hb. subst. f_equal. apply IHbs. assumption.
    + elist IH body H0.
  - f_equal. elist IH es H.
  - f_equal. elist IH body H0.
  - f_equal. elist IH body H0.
  - f_equal. elist IH body H0.
Qed.

Lemma clos_eqb_sound : forall v c, clos_eqb v c = true -> v = c.
Proof.
  intros v c. destruct v; destruct c; simpl; intros H; try discriminate. split_andb.
  apply optz_eqb_sound in H. apply zlist_eqb_sound in H3. apply optz_eqb_sound in H2.
  apply natlist_eqb_sound in H0.
  apply list_eqb_sound in H1; [subst; reflexivity|]. intros x y _. apply expr_eqb_sound.
Qed.

(* ================================================================= 3. the optimisation is invisible *)

(* a run of the strict model that is conclusive: not out of fuel, not stopped at a shadowed name *)
Definition okr {A} (r : res A) : Prop := r <> Fuel /\ r <> Sig SShadow.
Definition notail {A} (r : res A) : Prop := forall vs, r <> Sig (STail vs).
Definition mono {A} (mr : nat -> M A) : Prop := forall k, le_M (mr k) (mr (S k)).

Lemma mono_le : forall A (mr : nat -> M A), mono mr -> forall k k', (k <= k')%nat -> le_M (mr k) (mr k').
Proof.
  intros A mr Hm k k' Hle. induction Hle; [apply le_M_refl|].
  intros s r s' H Hr. apply Hm; [apply IHHle; assumption|assumption].
Qed.

(* non-tail computations: same result, never a tail signal *)
Definition simN {A} (mt : M A) (mr : nat -> M A) : Prop :=
  forall s r s', mt s = (r, s') -> okr r -> notail r /\ exists k, mr k s = (r, s').

(* tail computations: same result, or a tail signal whose continuation (the call of the running
   closure c with the new arguments, as the reference semantics makes it) gives the result of the
   reference run *)
Definition simT (self : option (ident * value)) (mt : M value) (mr : nat -> M value) : Prop :=
  forall s r s', mt s = (r, s') -> okr r ->
    (notail r /\ exists k, mr k s = (r, s')) \/
    (exists f c vs, self = Some (f, c) /\ r = Sig (STail vs) /\
       forall j r2 s2, apply j c vs s' = (r2, s2) -> r2 <> Fuel -> exists k, mr k s = (r2, s2)).

Definition simP (tl : bool) (self : option (ident * value)) (mt : M value) (mr : nat -> M value) : Prop :=
  if tl then simT self mt mr else simN mt mr.

Lemma simN_simT : forall self mt mr, simN mt mr -> simT self mt mr.
Proof. intros self mt mr H s r s' E Hok. left. apply (H _ _ _ E Hok). Qed.

Lemma simN_simP : forall tl self mt mr, simN mt mr -> simP tl self mt mr.
Proof. intros [|] self mt mr H; simpl; [apply simN_simT|]; assumption. Qed.

Lemma simN_shift : forall A (mt : M A) mr, simN mt (fun k => mr (S k)) -> simN mt mr.
Proof. intros A mt mr H s r s' E Hok. destruct (H _ _ _ E Hok) as [Hn [k Hk]]. split; [assumption|exists (S k); assumption]. Qed.

Lemma simT_shift : forall self mt mr, simT self mt (fun k => mr (S k)) -> simT self mt mr.
Proof.
  intros self mt mr H s r s' E Hok. destruct (H _ _ _ E Hok) as [[Hn [k Hk]]|[f [c [vs [Hs [Hr Hc]]]]]].
  - left. split; [assumption|exists (S k); assumption].
  - right. exists f, c, vs. split; [assumption|]. split; [assumption|].
    intros j r2 s2 Ha Hf. destruct (Hc _ _ _ Ha Hf) as [k Hk]. exists (S k). assumption.
Qed.

Lemma simP_shift : forall tl self mt mr, simP tl self mt (fun k => mr (S k)) -> simP tl self mt mr.
Proof. intros [|]; simpl; [apply simT_shift|intros self; apply simN_shift]. Qed.

Lemma okr_done : forall A (a : A), okr (Done a).
Proof. intros; split; discriminate. Qed.

Lemma okr_cast : forall A B g, okr (@Sig A g) -> okr (@Sig B g).
Proof. intros A B g [H1 H2]. split; [discriminate|]. intros Hc. apply H2. inversion Hc. reflexivity. Qed.
Lemma notail_cast : forall A B g, notail (@Sig A g) -> notail (@Sig B g).
Proof. intros A B g H vs Hc. apply (H vs). inversion Hc. reflexivity. Qed.

Lemma simN_same : forall A (m : M A), (forall s r s', m s = (r, s') -> notail r) -> simN m (fun _ => m).
Proof. intros A m Hn s r s' E _. split; [eapply Hn; eassumption|exists O; assumption]. Qed.

Lemma simN_ret : forall A (a : A), simN (ret a) (fun _ => ret a).
Proof. intros. apply simN_same. unfold ret. intros s r s' E vs. inversion E. discriminate. Qed.

Lemma simN_raise : forall A e, simN (@raise A e) (fun _ => raise e).
Proof. intros. apply simN_same. unfold raise. intros s r s' E vs. inversion E. discriminate. Qed.

Lemma simN_bind : forall A B (mt : M A) mr (kt : A -> M B) kr,
  simN mt mr -> mono mr -> (forall a, simN (kt a) (kr a)) -> (forall a, mono (kr a)) ->
  simN (bindM mt kt) (fun k => bindM (mr k) (fun a => kr a k)).
Proof.
  intros A B mt mr kt kr H1 M1 H2 M2 s r s' E Hok. unfold bindM in E.
  destruct (mt s) as [[a|g|] s1] eqn:E1.
  - destruct (H1 _ _ _ E1 (okr_done _ a)) as [_ [k1 Hk1]].
    destruct (H2 a _ _ _ E Hok) as [Hn [k2 Hk2]]. split; [assumption|].
    exists (Nat.max k1 k2). unfold bindM.
    rewrite (mono_le _ _ M1 k1 (Nat.max k1 k2) (Nat.le_max_l _ _) _ _ _ Hk1) by discriminate.
    apply (mono_le _ _ (M2 a) k2 (Nat.max k1 k2) (Nat.le_max_r _ _) _ _ _ Hk2). apply Hok.
  - inversion E; subst. destruct (H1 _ _ _ E1 (okr_cast _ _ _ Hok)) as [Hn [k1 Hk1]].
    split; [apply (notail_cast _ _ _ Hn)|].
    exists k1. unfold bindM. rewrite Hk1. reflexivity.
  - inversion E; subst. destruct Hok as [Hf _]. congruence.
Qed.

Lemma simT_bind : forall A self (mt : M A) mr (kt : A -> M value) kr,
  simN mt mr -> mono mr -> (forall a, simT self (kt a) (kr a)) -> (forall a, mono (kr a)) ->
  simT self (bindM mt kt) (fun k => bindM (mr k) (fun a => kr a k)).
Proof.
  intros A self mt mr kt kr H1 M1 H2 M2 s r s' E Hok. unfold bindM in E.
  destruct (mt s) as [[a|g|] s1] eqn:E1.
  - destruct (H1 _ _ _ E1 (okr_done _ a)) as [_ [k1 Hk1]].
    destruct (H2 a _ _ _ E Hok) as [[Hn [k2 Hk2]]|[f [c [vs [Hs [Hr Hc]]]]]].
    + left. split; [assumption|].
      exists (Nat.max k1 k2). unfold bindM.
      rewrite (mono_le _ _ M1 k1 (Nat.max k1 k2) (Nat.le_max_l _ _) _ _ _ Hk1) by discriminate.
      apply (mono_le _ _ (M2 a) k2 (Nat.max k1 k2) (Nat.le_max_r _ _) _ _ _ Hk2). apply Hok.
    + right. exists f, c, vs. split; [assumption|]. split; [assumption|].
      intros j r2 s2 Ha Hf. destruct (Hc _ _ _ Ha Hf) as [k2 Hk2].
      exists (Nat.max k1 k2). unfold bindM.
      rewrite (mono_le _ _ M1 k1 (Nat.max k1 k2) (Nat.le_max_l _ _) _ _ _ Hk1) by discriminate.
      apply (mono_le _ _ (M2 a) k2 (Nat.max k1 k2) (Nat.le_max_r _ _) _ _ _ Hk2). assumption.
  - left. inversion E; subst. destruct (H1 _ _ _ E1 (okr_cast _ _ _ Hok)) as [Hn [k1 Hk1]].
    split; [apply (notail_cast _ _ _ Hn)|].
    exists k1. unfold bindM. rewrite Hk1. reflexivity.
  - inversion E; subst. destruct Hok as [Hf _]. congruence.
Qed.

Lemma simP_bind : forall A tl self (mt : M A) mr (kt : A -> M value) kr,
  simN mt mr -> mono mr -> (forall a, simP tl self (kt a) (kr a)) -> (forall a, mono (kr a)) ->
  simP tl self (bindM mt kt) (fun k => bindM (mr k) (fun a => kr a k)).
Proof. intros A [|]; simpl; [apply simT_bind|intros self; apply simN_bind]. Qed.

Lemma simN_push : forall A (kt : nat -> M A) kr, (forall f, simN (kt f) (kr f)) ->
  simN (fun s => let '(f, s1) := push_frame s in kt f s1) (fun k s => let '(f, s1) := push_frame s in kr f k s1).
Proof. intros A kt kr H s r s' E Hok. destruct (push_frame s) as [f s1]. apply (H f _ _ _ E Hok). Qed.

Lemma simT_push : forall self (kt : nat -> M value) kr, (forall f, simT self (kt f) (kr f)) ->
  simT self (fun s => let '(f, s1) := push_frame s in kt f s1) (fun k s => let '(f, s1) := push_frame s in kr f k s1).
Proof. intros self kt kr H s r s' E Hok. destruct (push_frame s) as [f s1]. apply (H f _ _ _ E Hok). Qed.

Lemma simP_push : forall tl self (kt : nat -> M value) kr, (forall f, simP tl self (kt f) (kr f)) ->
  simP tl self (fun s => let '(f, s1) := push_frame s in kt f s1) (fun k s => let '(f, s1) := push_frame s in kr f k s1).
Proof. intros [|]; simpl; [apply simT_push|intros self; apply simN_push]. Qed.

Lemma simN_no_loop_sig : forall A e (mt : M A) mr, simN mt mr -> simN (no_loop_sig e mt) (fun k => no_loop_sig e (mr k)).
Proof.
  intros A e mt mr H s r s' E Hok. unfold no_loop_sig in E.
  destruct (mt s) as [[a|[l|l|e0|vs|]|] s1] eqn:E1; inversion E; subst.
  - destruct (H _ _ _ E1 Hok) as [Hn [k Hk]]. split; [assumption|]. exists k. unfold no_loop_sig. rewrite Hk. reflexivity.
  - assert (Ho : okr (@Sig A (SBreak l))) by (split; discriminate).
    destruct (H _ _ _ E1 Ho) as [Hn [k Hk]]. split; [intros vs; discriminate|]. exists k. unfold no_loop_sig. rewrite Hk. reflexivity.
  - assert (Ho : okr (@Sig A (SCont l))) by (split; discriminate).
    destruct (H _ _ _ E1 Ho) as [Hn [k Hk]]. split; [intros vs; discriminate|]. exists k. unfold no_loop_sig. rewrite Hk. reflexivity.
  - destruct (H _ _ _ E1 Hok) as [Hn [k Hk]]. split; [assumption|]. exists k. unfold no_loop_sig. rewrite Hk. reflexivity.
  - destruct (H _ _ _ E1 Hok) as [Hn [k Hk]]. exfalso. apply (Hn vs). reflexivity.
  - destruct Hok as [_ Hs]. congruence.
  - destruct Hok as [Hf _]. congruence.
Qed.

(* monotone families on the reference side *)
Lemma mono_const : forall A (m : M A), mono (fun _ => m).
Proof. intros A m k. apply le_M_refl. Qed.

Lemma mono_bind : forall A B (mr : nat -> M A) (kr : A -> nat -> M B),
  mono mr -> (forall a, mono (kr a)) -> mono (fun k => bindM (mr k) (fun a => kr a k)).
Proof. intros A B mr kr H1 H2 k. apply le_bind; [apply H1|intros a; apply H2]. Qed.

Lemma mono_push : forall A (kr : nat -> nat -> M A), (forall f, mono (kr f)) ->
  mono (fun k s => let '(f, s1) := push_frame s in kr f k s1).
Proof. intros A kr H k. apply (le_push _ (fun f => kr f k) (fun f => kr f (S k))). intros f. apply H. Qed.

Lemma mono_no_loop_sig : forall A e (mr : nat -> M A), mono mr -> mono (fun k => no_loop_sig e (mr k)).
Proof. intros A e mr H k. apply le_no_loop_sig. apply H. Qed.

Lemma mono_eval : forall env e, mono (fun k => eval k env e).
Proof. intros env e k. apply (proj1 (eval_apply_step_mono k)). Qed.
Lemma mono_apply : forall f args, mono (fun k => apply k f args).
Proof. intros f args k. apply (proj2 (eval_apply_step_mono k)). Qed.

Ltac mono_open L := intros; let k := fresh "k" in intro k; apply L; intros; first [apply (proj1 (eval_apply_step_mono k))|apply (proj2 (eval_apply_step_mono k))].

Lemma mono_ev_list : forall env es, mono (fun k => ev_list (eval k) env es).
Proof. mono_open le_ev_list. Qed.
Lemma mono_ev_begin : forall env es, mono (fun k => ev_begin (eval k) env es).
Proof. mono_open le_ev_begin. Qed.
Lemma mono_ev_cond : forall env arms d, mono (fun k => ev_cond (eval k) env arms d).
Proof. mono_open le_ev_cond. Qed.
Lemma mono_ev_and : forall env es, mono (fun k => ev_and (eval k) env es).
Proof. mono_open le_ev_and. Qed.
Lemma mono_ev_or : forall env es, mono (fun k => ev_or (eval k) env es).
Proof. mono_open le_ev_or. Qed.
Lemma mono_ev_args : forall env es, mono (fun k => ev_args (eval k) env es).
Proof. mono_open le_ev_args. Qed.
Lemma mono_ev_letseq : forall f env bs, mono (fun k => ev_letseq (eval k) f env bs).
Proof. mono_open le_ev_letseq. Qed.
Lemma mono_call_expr : forall env f args, mono (fun k => call_expr (eval k) (apply k) env f args).
Proof. mono_open le_call_expr. Qed.
Lemma mono_prim_apply : forall p args, mono (fun k => prim_apply (apply k) p args).
Proof. mono_open le_prim_apply. Qed.
Lemma mono_map_arr : forall f xs t, mono (fun k => map_arr (apply k) f xs t).
Proof. mono_open le_map_arr. Qed.
Lemma mono_map_pairs : forall f v, mono (fun k => map_pairs (apply k) f v).
Proof. mono_open le_map_pairs. Qed.
Lemma mono_for_loop : forall j env lbl t st b, mono (fun k => for_loop (eval k) (j + k) env lbl t st b).
Proof.
  intros j env lbl t st b k. apply le_for_loop; [intros; apply (proj1 (eval_apply_step_mono k))|lia].
Qed.

Section SimOpen.
  Variable evt : list nat -> expr -> M value.
  Variable apt : value -> list value -> M value.
  Hypothesis Hev : forall env e, simN (evt env e) (fun k => eval k env e).
  Hypothesis Hap : forall f args, simN (apt f args) (fun k => apply k f args).

  Lemma sim_ev_list : forall env es, simN (ev_list evt env es) (fun k => ev_list (eval k) env es).
  Proof.
    induction es as [|e r IH]; simpl; [apply simN_ret|].
    apply (simN_bind _ _ _ _ _ (fun v k => vs <- ev_list (eval k) env r ;; ret (v :: vs))); [apply Hev|apply mono_eval| |].
    - intros v. apply (simN_bind _ _ _ _ _ (fun vs _ => ret (v :: vs))); [apply IH|apply mono_ev_list| |].
      + intros vs. apply simN_ret.
      + intros vs. apply mono_const.
    - intros v. apply mono_bind; [apply mono_ev_list|intros; apply mono_const].
  Qed.

  Lemma sim_ev_args : forall env es, simN (ev_args evt env es) (fun k => ev_args (eval k) env es).
  Proof.
    induction es as [|e r IH]; simpl; [apply simN_ret|].
    destruct (cc [] e); [|apply simN_raise].
    apply (simN_bind _ _ _ _ _ (fun v k => vs <- ev_args (eval k) env r ;; ret (v :: vs))); [apply Hev|apply mono_eval| |].
    - intros v. apply (simN_bind _ _ _ _ _ (fun vs _ => ret (v :: vs))); [apply IH|apply mono_ev_args| |].
      + intros vs. apply simN_ret.
      + intros vs. apply mono_const.
    - intros v. apply mono_bind; [apply mono_ev_args|intros; apply mono_const].
  Qed.

  Lemma notail_bind_frame : forall f x v s r s', bind f x v s = (r, s') -> notail r.
  Proof.
    intros f x v s r s' E vs. unfold bind in E.
    destruct (nth_error (frames s) f); [|inversion E; discriminate].
    destruct (assoc x f0); [|inversion E; discriminate].
    destruct (type_of depth_limit (arrays s) v0) as [lt ars1].
    destruct (type_of depth_limit ars1 v) as [rt ars2].
    destruct lt; destruct rt; try (inversion E; discriminate).
    destruct (ty_eqb t t0); inversion E; discriminate.
  Qed.

  Lemma simN_bind_frame : forall f x v, simN (bind f x v) (fun _ => bind f x v).
  Proof. intros. apply simN_same. apply notail_bind_frame. Qed.

  Lemma simN_bind_all : forall f xs, simN (bind_all f xs) (fun _ => bind_all f xs).
  Proof.
    intros f xs. apply simN_same. induction xs as [|[x v] r IH]; simpl; intros s rr s' E vs.
    - inversion E. discriminate.
    - unfold bindM in E. destruct (bind f x v s) as [[u|g|] s1] eqn:E1.
      + apply (IH _ _ _ E).
      + inversion E; subst. intros Hc. apply (notail_bind_frame _ _ _ _ _ _ E1 vs). inversion Hc. reflexivity.
      + inversion E. discriminate.
  Qed.

  Lemma sim_ev_letseq : forall f env bs, simN (ev_letseq evt f env bs) (fun k => ev_letseq (eval k) f env bs).
  Proof.
    induction bs as [|[x e] r IH]; simpl; [apply simN_ret|].
    apply (simN_bind _ _ _ _ _ (fun v k => _ <- bind f x v ;; ev_letseq (eval k) f env r)); [apply Hev|apply mono_eval| |].
    - intros v. apply (simN_bind _ _ _ _ _ (fun _ k => ev_letseq (eval k) f env r)); [apply simN_bind_frame|apply mono_const| |].
      + intros _. apply IH.
      + intros _. apply mono_ev_letseq.
    - intros v. apply mono_bind; [apply mono_const|intros; apply mono_ev_letseq].
  Qed.
End SimOpen.

Section SimOpen2.
  Variable evt : list nat -> expr -> M value.
  Variable apt : value -> list value -> M value.
  Hypothesis Hev : forall env e, simN (evt env e) (fun k => eval k env e).
  Hypothesis Hap : forall f args, simN (apt f args) (fun k => apply k f args).

  Lemma sim_ev_begin : forall env es, simN (ev_begin evt env es) (fun k => ev_begin (eval k) env es).
  Proof.
    induction es as [|e r IH]; simpl; [apply simN_ret|].
    destruct r as [|e2 r]; [apply Hev|].
    apply (simN_bind _ _ _ _ _ (fun _ k => ev_begin (eval k) env (e2 :: r))); [apply Hev|apply mono_eval| |].
    - intros _. apply IH.
    - intros _. apply mono_ev_begin.
  Qed.

  Lemma sim_for_loop : forall j env lbl test step body,
    simN (for_loop evt j env lbl test step body) (fun k => for_loop (eval k) (j + k) env lbl test step body).
  Proof.
    induction j as [|j IH]; intros env lbl test step body s r s' E Hok.
    - simpl in E. inversion E; subst. destruct Hok as [Hf _]. congruence.
    - simpl in E. unfold bindM in E at 1.
      pose proof (simN_no_loop_sig _ EUnspec _ _ (Hev env test)) as St.
      destruct (no_loop_sig EUnspec (evt env test) s) as [[t|g|] s0] eqn:Et.
      2:{ inversion E; subst. destruct (St _ _ _ Et (okr_cast _ _ _ Hok)) as [Hn [k Hk]].
          split; [apply (notail_cast _ _ _ Hn)|]. exists k. simpl. unfold bindM at 1. rewrite Hk. reflexivity. }
      2:{ inversion E; subst. destruct Hok as [Hf _]. congruence. }
      destruct (St _ _ _ Et (okr_done _ t)) as [_ [k0 Hk0]].
      assert (Mt : mono (fun k => no_loop_sig EUnspec (eval k env test))) by (apply mono_no_loop_sig; apply mono_eval).
      destruct (truthy t) eqn:Tt.
      2:{ unfold ret in E. inversion E; subst. split; [intros vs; discriminate|]. exists k0. simpl. unfold bindM at 1. rewrite Hk0. rewrite Tt. reflexivity. }
      set (nextt := _ <- no_loop_sig EUnspec (evt env step) ;; for_loop evt j env lbl test step body) in E.
      set (nextr := fun k => _ <- no_loop_sig EUnspec (eval k env step) ;; for_loop (eval k) (j + k) env lbl test step body).
      assert (Sn : simN nextt nextr).
      { apply (simN_bind _ _ _ _ _ (fun _ k => for_loop (eval k) (j + k) env lbl test step body)).
        - apply simN_no_loop_sig. apply Hev.
        - apply mono_no_loop_sig. apply mono_eval.
        - intros _. apply IH.
        - intros _. apply mono_for_loop. }
      assert (Mn : mono nextr).
      { apply mono_bind; [apply mono_no_loop_sig; apply mono_eval|intros _; apply mono_for_loop]. }
      assert (Fin : forall k1 k2 rb s1, ev_begin (eval k1) env body s0 = (rb, s1) -> rb <> Fuel ->
                 (forall K, (k0 <= K)%nat -> (k1 <= K)%nat -> (k2 <= K)%nat ->
                   for_loop (eval K) (S j + K) env lbl test step body s =
                   match rb with
                   | Done _ => nextr K s1
                   | Sig (SCont l) => if hits l lbl then nextr K s1 else (Sig (SCont l), s1)
                   | Sig (SBreak l) => if hits l lbl then (Done VNil, s1) else (Sig (SBreak l), s1)
                   | _ => (rb, s1)
                   end)).
      { intros k1 k2 rb s1 Hb Hrb K L0 L1 L2. simpl. unfold bindM at 1.
        rewrite (mono_le _ _ Mt k0 K L0 _ _ _ Hk0) by discriminate. rewrite Tt.
        rewrite (mono_le _ _ (mono_ev_begin env body) k1 K L1 _ _ _ Hb) by assumption.
        destruct rb as [v|[l|l|e|vs|]|]; reflexivity. }
      pose proof (sim_ev_begin env body) as Sb.
      destruct (ev_begin evt env body s0) as [[v|[l|l|e|vs|]|] s1] eqn:Eb.
      + destruct (Sb _ _ _ Eb (okr_done _ v)) as [_ [k1 Hk1]].
        destruct (Sn _ _ _ E Hok) as [Hn [k2 Hk2]]. split; [assumption|].
        exists (Nat.max k0 (Nat.max k1 k2)).
        rewrite (Fin k1 k2 _ _ Hk1) by (try discriminate; lia).
        apply (mono_le _ _ Mn k2); [lia|assumption|apply Hok].
      + assert (Ho : okr (@Sig value (SBreak l))) by (split; discriminate).
        destruct (Sb _ _ _ Eb Ho) as [_ [k1 Hk1]].
        assert (Hn : notail r) by (destruct (hits l lbl); inversion E; subst; intros vs; discriminate).
        split; [assumption|]. exists (Nat.max k0 k1).
        rewrite (Fin k1 O _ _ Hk1) by (try discriminate; lia). assumption.
      + assert (Ho : okr (@Sig value (SCont l))) by (split; discriminate).
        destruct (Sb _ _ _ Eb Ho) as [_ [k1 Hk1]].
        destruct (hits l lbl) eqn:Hh.
        * destruct (Sn _ _ _ E Hok) as [Hn [k2 Hk2]]. split; [assumption|].
          exists (Nat.max k0 (Nat.max k1 k2)).
          rewrite (Fin k1 k2 _ _ Hk1) by (try discriminate; lia). rewrite Hh.
          apply (mono_le _ _ Mn k2); [lia|assumption|apply Hok].
        * inversion E; subst. split; [intros vs; discriminate|]. exists (Nat.max k0 k1).
          rewrite (Fin k1 O _ _ Hk1) by (try discriminate; lia). rewrite Hh. reflexivity.
      + inversion E; subst. destruct (Sb _ _ _ Eb Hok) as [Hn [k1 Hk1]]. split; [assumption|].
        exists (Nat.max k0 k1). rewrite (Fin k1 O _ _ Hk1) by (try discriminate; lia). reflexivity.
      + inversion E; subst. destruct (Sb _ _ _ Eb Hok) as [Hn _]. exfalso. apply (Hn vs). reflexivity.
      + inversion E; subst. destruct Hok as [_ Hs]. congruence.
      + inversion E; subst. destruct Hok as [Hf _]. congruence.
  Qed.
End SimOpen2.

Lemma simN_notail : forall A (mt : M A) mr, simN mt mr -> forall s r s', mt s = (r, s') -> notail r.
Proof.
  intros A mt mr H s r s' E vs Hr. subst r.
  assert (Ho : okr (@Sig A (STail vs))) by (split; discriminate).
  destruct (H _ _ _ E Ho) as [Hn _]. apply (Hn vs). reflexivity.
Qed.

Lemma simN_ext : forall A (mt : M A) (mr : nat -> M A),
  (forall k, mr k = mt) -> (forall s r s', mt s = (r, s') -> notail r) -> simN mt mr.
Proof. intros A mt mr He Hn s r s' E _. split; [eapply Hn; eassumption|exists O; rewrite He; assumption]. Qed.

Ltac nt_inv :=
  match goal with
  | E : (_, _) = (_, _) |- _ => inversion E; subst; clear E; try (intros ? ?; discriminate)
  end.

Lemma notail_arith : forall op r acc s rr s', arith op acc r s = (rr, s') -> notail rr.
Proof.
  induction r as [|b r IH]; simpl; intros acc s rr s' E.
  - unfold ret in E. nt_inv.
  - destruct acc; destruct b; try (unfold raise in E; nt_inv). eapply IH; eassumption.
Qed.

Lemma notail_compare : forall test args s rr s', compare_prim test args s = (rr, s') -> notail rr.
Proof.
  intros test args s rr s' E. unfold compare_prim in E.
  destruct args as [|a [|b [|? ?]]]; try (unfold raise in E; nt_inv).
  destruct (cmp_val depth_limit (arrays s) a b); nt_inv.
Qed.

Lemma notail_get_arr : forall a s (r : res arrobj) s', get_arr a s = (r, s') -> notail r.
Proof. intros a s r s' E. unfold get_arr in E. destruct (nth_error (arrays s) a); nt_inv. Qed.

Lemma notail_alloc : forall vs t s r s', alloc_arr vs t s = (r, s') -> notail r.
Proof. intros vs t s r s' E. unfold alloc_arr in E. nt_inv. Qed.

Lemma notail_bindM : forall A B (m : M A) (k : A -> M B),
  (forall s r s', m s = (r, s') -> notail r) -> (forall a s r s', k a s = (r, s') -> notail r) ->
  forall s r s', bindM m k s = (r, s') -> notail r.
Proof.
  intros A B m k Hm Hk s r s' E. unfold bindM in E. destruct (m s) as [[a|g|] s1] eqn:E1.
  - eapply Hk; eassumption.
  - inversion E; subst. apply (notail_cast _ _ _ (Hm _ _ _ E1)).
  - inversion E; subst. intros vs; discriminate.
Qed.

Lemma notail_ret : forall A (a : A) s r s', ret a s = (r, s') -> notail r.
Proof. intros A a s r s' E. unfold ret in E. nt_inv. Qed.
Lemma notail_raise : forall A e s (r : res A) s', raise e s = (r, s') -> notail r.
Proof. intros A e s r s' E. unfold raise in E. nt_inv. Qed.

Ltac nt :=
  match goal with
  | E : ret _ _ = (_, _) |- _ => eapply notail_ret; exact E
  | E : raise _ _ = (_, _) |- _ => eapply notail_raise; exact E
  | E : alloc_arr _ _ _ = (_, _) |- _ => eapply notail_alloc; exact E
  | E : arith _ _ _ _ = (_, _) |- _ => eapply notail_arith; exact E
  | E : bindM (get_arr _) _ _ = (_, _) |- _ =>
    eapply (notail_bindM _ _ _ _ (notail_get_arr _)); [|exact E]; clear E; intros ? ? ? ? E; simpl in E
  | E : (_, _) = (_, _) |- _ => inversion E; subst; clear E; intros ? ?; discriminate
  | E : context[match ?x with _ => _ end] |- _ => destruct x; simpl in E
  | E : context[if ?c then _ else _] |- _ => destruct c; simpl in E
  end.

Section SimPrim.
  Variable apt : value -> list value -> M value.
  Hypothesis Hap : forall f args, simN (apt f args) (fun k => apply k f args).

  Lemma sim_map_arr : forall f xs t, simN (map_arr apt f xs t) (fun k => map_arr (apply k) f xs t).
  Proof.
    induction xs as [|x r IH]; simpl; intros t; [apply simN_ret|].
    apply (simN_bind _ _ _ _ _ (fun y k =>
             t1 <- (match t with
                    | Some _ => ret t
                    | None => fun s => let '(ty1, ars1) := type_of depth_limit (arrays s) y in (Done ty1, with_arrays s ars1)
                    end) ;;
             yt <- map_arr (apply k) f r t1 ;; ret (y :: fst yt, snd yt))); [apply Hap|apply mono_apply| |].
    - intros y.
      apply (simN_bind _ _ _ _ _ (fun t1 k => yt <- map_arr (apply k) f r t1 ;; ret (y :: fst yt, snd yt))).
      + apply simN_same. intros s rr s' E. destruct t; [eapply notail_ret; eassumption|].
        destruct (type_of depth_limit (arrays s) y). nt_inv.
      + apply mono_const.
      + intros t1. apply (simN_bind _ _ _ _ _ (fun yt _ => ret (y :: fst yt, snd yt))); [apply IH|apply mono_map_arr| |].
        * intros yt. apply simN_ret.
        * intros yt. apply mono_const.
      + intros t1. apply mono_bind; [apply mono_map_arr|intros; apply mono_const].
    - intros y. apply mono_bind; [apply mono_const|]. intros t1. apply mono_bind; [apply mono_map_arr|intros; apply mono_const].
  Qed.

  Lemma sim_map_pairs : forall f v, simN (map_pairs apt f v) (fun k => map_pairs (apply k) f v).
  Proof.
    induction v; simpl; try apply simN_raise; try apply simN_ret.
    apply (simN_bind _ _ _ _ _ (fun h' k => t' <- map_pairs (apply k) f v2 ;; ret (VPair h' t'))); [apply Hap|apply mono_apply| |].
    - intros h'. apply (simN_bind _ _ _ _ _ (fun t' _ => ret (VPair h' t'))); [apply IHv2|apply mono_map_pairs| |].
      + intros t'. apply simN_ret.
      + intros t'. apply mono_const.
    - intros h'. apply mono_bind; [apply mono_map_pairs|intros; apply mono_const].
  Qed.

  Lemma simN_get_arr : forall a, simN (get_arr a) (fun _ => get_arr a).
  Proof. intros. apply simN_same. apply notail_get_arr. Qed.

  Lemma sim_prim_apply : forall p args, simN (prim_apply apt p args) (fun k => prim_apply (apply k) p args).
  Proof.
    intros p args. destruct p.
    21:{ (* PApply *) simpl.
      destruct args as [|f [|c [|? ?]]]; try apply simN_raise.
      destruct (is_fn f); [|apply simN_raise].
      destruct c; try apply simN_raise.
      + destruct (val_list _); [apply Hap|apply simN_raise].
      + apply (simN_bind _ _ _ _ _ (fun o k => apply k f (a_elems o))); [apply simN_get_arr|apply mono_const| |].
        * intros o. apply Hap.
        * intros o. apply mono_apply. }
    20:{ (* PMap *) simpl.
      destruct args as [|f [|c [|? ?]]]; try apply simN_raise.
      destruct (is_fn f); [|apply simN_raise].
      destruct c; try apply simN_raise.
      + apply sim_map_pairs.
      + apply (simN_bind _ _ _ _ _ (fun o k => rt <- map_arr (apply k) f (a_elems o) None ;; alloc_arr (fst rt) (snd rt)));
          [apply simN_get_arr|apply mono_const| |].
        * intros o. apply (simN_bind _ _ _ _ _ (fun rt _ => alloc_arr (fst rt) (snd rt))); [apply sim_map_arr|apply mono_map_arr| |].
          -- intros rt. apply simN_same. apply notail_alloc.
          -- intros rt. apply mono_const.
        * intros o. apply mono_bind; [apply mono_map_arr|intros; apply mono_const]. }
    all: apply simN_ext; [intros k; reflexivity|]; simpl; intros s r s' E.
    all: try (destruct args as [|a0 r0]; [eapply notail_raise; eassumption|eapply notail_arith; eassumption]).
    all: try (eapply notail_compare; eassumption).
    all: repeat nt.
  Qed.
End SimPrim.

Section SimCall.
  Variable evt : list nat -> expr -> M value.
  Variable apt : value -> list value -> M value.
  Hypothesis Hev : forall env e, simN (evt env e) (fun k => eval k env e).
  Hypothesis Hap : forall f args, simN (apt f args) (fun k => apply k f args).

  Lemma sim_call_expr : forall env f args,
    simN (call_expr evt apt env f args) (fun k => call_expr (eval k) (apply k) env f args).
  Proof.
    intros env f args. unfold call_expr.
    apply (simN_bind _ _ _ _ _ (fun fv k =>
             match fv with
             | VClos _ _ _ _ _ | VPrim _ => vs <- ev_args (eval k) env args ;; apply k fv vs
             | VSym _ | VArr _ => raise EUnspec
             | _ => match args with [] => ret fv | _ => raise EOther end
             end)).
    - destruct f; try apply Hev; destruct (cc [] _); try apply Hev; apply simN_raise.
    - destruct f; try apply mono_eval; destruct (cc [] _); try apply mono_eval; apply mono_const.
    - intros fv. destruct fv; try apply simN_raise; try (destruct args; [apply simN_ret|apply simN_raise]);
        (apply (simN_bind _ _ _ _ _ (fun vs k => apply k _ vs)); [apply sim_ev_args; assumption|apply mono_ev_args| |];
         [intros vs; apply Hap|intros vs; apply mono_apply]).
    - intros fv. destruct fv; try apply mono_const; try (destruct args; apply mono_const);
        (apply mono_bind; [apply mono_ev_args|intros vs; apply mono_apply]).
  Qed.
End SimCall.

Section SimTail.
  Variable evtt : bool -> list nat -> expr -> M value.
  Variable self : option (ident * value).
  Hypothesis Hevt : forall tl env e, simP tl self (evtt tl env e) (fun k => eval k env e).

  Lemma sim_tev_begin : forall tl env es, simP tl self (tev_begin evtt tl env es) (fun k => ev_begin (eval k) env es).
  Proof.
    induction es as [|e r IH]; simpl; [apply simN_simP; apply simN_ret|].
    destruct r as [|e2 r]; [apply Hevt|].
    apply (simP_bind _ _ _ _ _ _ (fun _ k => ev_begin (eval k) env (e2 :: r))); [apply (Hevt false)|apply mono_eval| |].
    - intros _. apply IH.
    - intros _. apply mono_ev_begin.
  Qed.

  Lemma sim_tev_cond : forall tl env arms d, simP tl self (tev_cond evtt tl env arms d) (fun k => ev_cond (eval k) env arms d).
  Proof.
    induction arms as [|[c b] r IH]; simpl; intros d; [apply Hevt|].
    apply (simP_bind _ _ _ _ _ _ (fun v k => if truthy v then eval k env b else ev_cond (eval k) env r d)); [apply (Hevt false)|apply mono_eval| |].
    - intros v. destruct (truthy v); [apply Hevt|apply IH].
    - intros v. destruct (truthy v); [apply mono_eval|apply mono_ev_cond].
  Qed.

  Lemma sim_tev_and : forall tl env es, simP tl self (tev_and evtt tl env es) (fun k => ev_and (eval k) env es).
  Proof.
    induction es as [|e r IH]; simpl; [apply simN_simP; apply simN_raise|].
    destruct r as [|e2 r]; [apply Hevt|].
    apply (simP_bind _ _ _ _ _ _ (fun v k => if truthy v then ev_and (eval k) env (e2 :: r) else ret v)); [apply (Hevt false)|apply mono_eval| |].
    - intros v. destruct (truthy v); [apply IH|apply simN_simP; apply simN_ret].
    - intros v. destruct (truthy v); [apply mono_ev_and|apply mono_const].
  Qed.

  Lemma sim_tev_or : forall tl env es, simP tl self (tev_or evtt tl env es) (fun k => ev_or (eval k) env es).
  Proof.
    induction es as [|e r IH]; simpl; [apply simN_simP; apply simN_raise|].
    destruct r as [|e2 r]; [apply Hevt|].
    apply (simP_bind _ _ _ _ _ _ (fun v k => if truthy v then ret v else ev_or (eval k) env (e2 :: r))); [apply (Hevt false)|apply mono_eval| |].
    - intros v. destruct (truthy v); [apply simN_simP; apply simN_ret|apply IH].
    - intros v. destruct (truthy v); [apply mono_const|apply mono_ev_or].
  Qed.
End SimTail.

Definition noloop {A} (r : res A) : Prop := (forall l, r <> Sig (SBreak l)) /\ (forall l, r <> Sig (SCont l)).

Lemma bind_sig : forall f x v s g s', bind f x v s = (Sig g, s') -> exists e, g = SErr e.
Proof.
  intros f x v s g s' E. unfold bind in E.
  destruct (nth_error (frames s) f); [|inversion E; eauto].
  destruct (assoc x f0); [|inversion E].
  destruct (type_of depth_limit (arrays s) v0) as [lt ars1].
  destruct (type_of depth_limit ars1 v) as [rt ars2].
  destruct lt; destruct rt; try (inversion E; fail).
  destruct (ty_eqb t t0); inversion E; eauto.
Qed.

Lemma bind_all_sig : forall f xs s g s', bind_all f xs s = (Sig g, s') -> exists e, g = SErr e.
Proof.
  induction xs as [|[x v] r IH]; simpl; intros s g s' E.
  - inversion E.
  - unfold bindM in E. destruct (bind f x v s) as [[u|g0|] s1] eqn:E1.
    + eapply IH; eassumption.
    + inversion E; subst. eapply bind_sig; eassumption.
    + inversion E.
Qed.

Lemma apply_clos_noloop : forall j nm ps rest body cenv vs s r s',
  apply j (VClos nm ps rest body cenv) vs s = (r, s') -> noloop r.
Proof.
  intros j nm ps rest body cenv vs s r s' E. destruct j as [|j]; simpl in E.
  - inversion E; subst. split; congruence.
  - destruct (zip_params ps rest vs []) as [binds|].
    + unfold bindM, no_loop_sig, push_frame in E. simpl in E.
      match type of E with context[bind_all ?a ?b ?c] => destruct (bind_all a b c) as [[u|g|] s2] eqn:Eb end.
      * match type of E with context[ev_begin ?a ?b ?c ?d] => destruct (ev_begin a b c d) as [[a0|[l|l|e0|tv|]|] s3] end;
          inversion E; subst; split; congruence.
      * inversion E; subst. destruct (bind_all_sig _ _ _ _ _ Eb) as [e0 He]. subst. split; congruence.
      * inversion E; subst. split; congruence.
    + unfold raise in E. inversion E; subst. split; congruence.
Qed.

Lemma simT_no_loop_sig : forall self e (mt : M value) mr,
  simT self mt mr ->
  (forall f c, self = Some (f, c) -> forall j vs s r s', apply j c vs s = (r, s') -> noloop r) ->
  simT self (no_loop_sig e mt) (fun k => no_loop_sig e (mr k)).
Proof.
  intros self e mt mr H Hc s r s' E Hok. unfold no_loop_sig in E.
  destruct (mt s) as [[a|[l|l|e0|vs|]|] s1] eqn:E1; inversion E; subst.
  - destruct (H _ _ _ E1 Hok) as [[Hn [k Hk]]|[f [c [vs [Hs [Hr _]]]]]]; [|discriminate].
    left. split; [assumption|]. exists k. unfold no_loop_sig. rewrite Hk. reflexivity.
  - assert (Ho : okr (@Sig value (SBreak l))) by (split; discriminate).
    destruct (H _ _ _ E1 Ho) as [[Hn [k Hk]]|[f [c [vs [Hs [Hr _]]]]]]; [|discriminate].
    left. split; [intros vs; discriminate|]. exists k. unfold no_loop_sig. rewrite Hk. reflexivity.
  - assert (Ho : okr (@Sig value (SCont l))) by (split; discriminate).
    destruct (H _ _ _ E1 Ho) as [[Hn [k Hk]]|[f [c [vs [Hs [Hr _]]]]]]; [|discriminate].
    left. split; [intros vs; discriminate|]. exists k. unfold no_loop_sig. rewrite Hk. reflexivity.
  - destruct (H _ _ _ E1 Hok) as [[Hn [k Hk]]|[f [c [vs [Hs [Hr _]]]]]]; [|discriminate].
    left. split; [assumption|]. exists k. unfold no_loop_sig. rewrite Hk. reflexivity.
  - destruct (H _ _ _ E1 Hok) as [[Hn _]|[f [c [vs0 [Hs [Hr Hk]]]]]]; [exfalso; apply (Hn vs); reflexivity|].
    right. exists f, c, vs0. split; [assumption|]. split; [assumption|].
    intros j r2 s2 Ha Hf. destruct (Hk _ _ _ Ha Hf) as [k Hk2]. exists k. unfold no_loop_sig. rewrite Hk2.
    destruct (Hc _ _ Hs _ _ _ _ _ Ha) as [Nb Nc].
    destruct r2 as [a|[l|l|e0|tv|]|]; try reflexivity; [exfalso; apply (Nb l); reflexivity|exfalso; apply (Nc l); reflexivity].
  - destruct Hok as [_ Hs]. congruence.
  - destruct Hok as [Hf _]. congruence.
Qed.

(* the strict model without the counter: what the theorem speaks of *)
Definition evs := eval_tco true false.
Definition aps := apply_tco true false.
Definition tls := tloop true false.

Definition body_ref (k : nat) (body : list expr) (cenv : list nat) (binds : list (ident * value)) : M value :=
  fun s => let '(fid, s1) := push_frame s in
           (_ <- bind_all fid binds ;; no_loop_sig ELoop (ev_begin (eval k) (fid :: cenv) body)) s1.

Lemma mono_for_loop_diag : forall env lbl t st b, mono (fun k => for_loop (eval k) k env lbl t st b).
Proof. intros env lbl t st b k. apply le_for_loop; [intros; apply (proj1 (eval_apply_step_mono k))|lia]. Qed.

Lemma sim_for_loop_diag : forall evt, (forall env e, simN (evt env e) (fun k => eval k env e)) ->
  forall j env lbl test step body,
  simN (for_loop evt j env lbl test step body) (fun k => for_loop (eval k) k env lbl test step body).
Proof.
  intros evt Hev j env lbl test step body s r s' E Hok.
  destruct (sim_for_loop evt Hev j env lbl test step body _ _ _ E Hok) as [Hn [k Hk]].
  split; [assumption|]. exists (j + k)%nat.
  assert (L : le_M (for_loop (eval k) (j + k) env lbl test step body) (for_loop (eval (j + k)) (j + k) env lbl test step body)).
  { apply le_for_loop; [|lia]. intros env0 e0. apply (mono_le _ _ (mono_eval env0 e0)). lia. }
  apply L; [assumption|apply Hok].
Qed.

Lemma zip_params_acc_some : forall ps rest args acc acc', zip_params ps rest args acc = None <-> zip_params ps rest args acc' = None.
Proof.
  induction ps as [|p ps IH]; intros rest args acc acc'; simpl.
  - destruct rest; [split; discriminate|]. destruct args; split; intros H; try discriminate; reflexivity.
  - destruct args; [split; reflexivity|]. apply IH.
Qed.

Lemma eval_var : forall k env x s,
  eval (S k) env (EVar x) s = match lookup_chain (frames s) env x with
                              | Some (_, v) => (Done v, s)
                              | None => (Sig (SErr EUnbound), s)
                              end.
Proof. reflexivity. Qed.

Lemma tls_unfold : forall n nm ps rest body cenv binds s,
  tls (S n) (VClos nm ps rest body cenv) binds s =
  let '(fid, s1) := push_frame s in
  match (_ <- bind_all fid binds ;;
         no_loop_sig ELoop (tev_begin (evs n (self_of (VClos nm ps rest body cenv))) true (fid :: cenv) body)) s1 with
  | (Sig (STail vs), s2) =>
    match zip_params ps rest vs [] with
    | Some binds' => tls n (VClos nm ps rest body cenv) binds' s2
    | None => (Sig (SErr EOther), s2)
    end
  | r => r
  end.
Proof. reflexivity. Qed.

Lemma sim_main : forall n,
  (forall self tl env e, simP tl self (evs n self tl env e) (fun k => eval k env e)) /\
  (forall f args, simN (aps n f args) (fun k => apply k f args)) /\
  (forall nm ps rest body cenv binds,
      simN (tls n (VClos nm ps rest body cenv) binds) (fun k => body_ref k body cenv binds)).
Proof.
  induction n as [|n [IHe [IHa IHl]]].
  - assert (F : forall A (m : M A) mr, (forall s, m s = (Fuel, s)) -> simN m mr).
    { intros A m mr Hm s r s' E [Hf _]. rewrite Hm in E. inversion E; subst. congruence. }
    split; [|split]; intros.
    + apply simN_simP. apply F. reflexivity.
    + apply F. reflexivity.
    + apply F. reflexivity.
  - split; [|split].
    + (* eval_tco *)
      intros self tl env e.
      pose proof (IHe self false) as IHe0. simpl in IHe0.
      apply simP_shift. destruct e; unfold evs; simpl; fold evs; fold aps.
      * apply simN_simP; apply simN_ret.
      * apply simN_simP; apply simN_ret.
      * apply simN_simP; apply simN_ret.
      * apply simN_simP; apply simN_ret.
      * apply simN_simP; apply simN_ret.
      * apply simN_simP. apply simN_ext; [reflexivity|]. intros s r s' E.
        destruct (lookup_chain (frames s) env x) as [[? ?]|]; inversion E; subst; intros ? ?; discriminate.
      * apply simN_simP.
        apply (simN_bind _ _ _ _ _ (fun vs _ => alloc_arr vs None)); [apply sim_ev_list; exact IHe0|apply mono_ev_list| |].
        -- intros vs. apply simN_same. apply notail_alloc.
        -- intros vs. apply mono_const.
      * (* call *)
        destruct (is_self self tl e (length args)) as [[nm c]|] eqn:Es.
        2:{ apply simN_simP. apply sim_call_expr; [exact IHe0|exact IHa]. }
        unfold is_self in Es. destruct tl; [|discriminate]. destruct self as [[nm' c']|]; [|discriminate].
        destruct e; try discriminate.
        destruct ((x =? nm') && arity_fits c' (length args)) eqn:Eg; [|discriminate].
        inversion Es; subst nm' c'. clear Es.
        apply andb_true_iff in Eg. destruct Eg as [Ex Ear]. apply Z.eqb_eq in Ex. subst x.
        simpl. intros s r s' E Hok.
        destruct (lookup_chain (frames s) env nm) as [[fr v]|] eqn:El;
          [|inversion E; subst; destruct Hok as [_ Hs]; congruence].
        destruct (clos_eqb v c) eqn:Ec; [|inversion E; subst; destruct Hok as [_ Hs]; congruence].
        apply clos_eqb_sound in Ec. subst v.
        destruct c as [| | | | | | |n0 ps rest body cenv|]; try discriminate Ear.
        set (c := VClos n0 ps rest body cenv) in *.
        pose proof (sim_ev_args _ IHe0 env args) as Sa.
        unfold bindM in E.
        destruct (ev_args (evs n (Some (nm, c)) false) env args s) as [[vs|g|] s1] eqn:Ea.
        -- inversion E; subst r s'. right. exists nm, c, vs. split; [reflexivity|]. split; [reflexivity|].
           intros j r2 s2 Hap Hf.
           destruct (Sa _ _ _ Ea (okr_done _ vs)) as [_ [k1 Hk1]].
           exists (S (Nat.max k1 j)). unfold call_expr. unfold bindM at 1. rewrite eval_var, El.
           cbv beta iota. unfold c at 1. cbv beta iota. fold c. unfold bindM.
           rewrite (mono_le _ _ (mono_ev_args env args) k1 (S (Nat.max k1 j)) ltac:(lia) _ _ _ Hk1) by discriminate.
           apply (mono_le _ _ (mono_apply c vs) j (S (Nat.max k1 j)) ltac:(lia) _ _ _ Hap Hf).
        -- inversion E; subst r s'. left.
           destruct (Sa _ _ _ Ea (okr_cast _ _ _ Hok)) as [Hn [k1 Hk1]].
           split; [apply (notail_cast _ _ _ Hn)|].
           exists (S k1). unfold call_expr. unfold bindM at 1. rewrite eval_var, El.
           cbv beta iota. unfold c at 1. cbv beta iota. fold c. unfold bindM.
           rewrite (mono_le _ _ (mono_ev_args env args) k1 (S k1) ltac:(lia) _ _ _ Hk1); [reflexivity|].
           destruct Hok as [Hf _]. intros Hx. apply Hf. inversion Hx. 
        -- inversion E; subst. destruct Hok as [Hf _]. congruence.
      * apply sim_tev_begin. exact (IHe self).
      * apply sim_tev_cond. exact (IHe self).
      * apply sim_tev_and. exact (IHe self).
      * apply sim_tev_or. exact (IHe self).
      * apply simN_simP.
        apply (simN_bind _ _ _ _ _ (fun v _ => _ <- bind (hd O env) x v ;; ret v)); [apply IHe0|apply mono_eval| |].
        -- intros v. apply (simN_bind _ _ _ _ _ (fun _ _ => ret v)); [apply simN_bind_frame|apply mono_const| |].
           ++ intros _. apply simN_ret.
           ++ intros _. apply mono_const.
        -- intros v. apply mono_const.
      * apply simN_simP.
        apply (simN_bind _ _ _ _ _ (fun v _ => fun s => match lookup_chain (frames s) env x with
                                                     | Some (f, _) => (Done v, upd_frame f x v s)
                                                     | None => (_ <- bind (hd O env) x v ;; ret v) s
                                                     end)); [apply IHe0|apply mono_eval| |].
        -- intros v. apply simN_same. intros s r s' E.
           destruct (lookup_chain (frames s) env x) as [[? ?]|].
           ++ inversion E; subst. intros ? ?; discriminate.
           ++ revert E. apply notail_bindM; [apply notail_bind_frame|]. intros; eapply notail_ret; eassumption.
        -- intros v. apply mono_const.
      * destruct seq.
        -- apply (simP_push tl self
                    (fun f => _ <- ev_letseq (evs n self false) f (f :: env) bs ;; tev_begin (evs n self) tl (f :: env) body)
                    (fun f k => _ <- ev_letseq (eval k) f (f :: env) bs ;; ev_begin (eval k) (f :: env) body)).
           intros f.
           apply (simP_bind _ _ _ _ _ _ (fun _ k => ev_begin (eval k) (f :: env) body));
             [apply sim_ev_letseq; exact IHe0|apply mono_ev_letseq| |].
           ++ intros _. apply sim_tev_begin. exact (IHe self).
           ++ intros _. apply mono_ev_begin.
        -- apply (simP_push tl self
                    (fun f => vs <- ev_list (evs n self false) (f :: env) (map snd bs) ;;
                              _ <- bind_all f (rev (combine (map fst bs) vs)) ;; tev_begin (evs n self) tl (f :: env) body)
                    (fun f k => vs <- ev_list (eval k) (f :: env) (map snd bs) ;;
                                _ <- bind_all f (rev (combine (map fst bs) vs)) ;; ev_begin (eval k) (f :: env) body)).
           intros f.
           apply (simP_bind _ _ _ _ _ _ (fun vs k => _ <- bind_all f (rev (combine (map fst bs) vs)) ;; ev_begin (eval k) (f :: env) body));
             [apply sim_ev_list; exact IHe0|apply mono_ev_list| |].
           ++ intros vs. apply (simP_bind _ _ _ _ _ _ (fun _ k => ev_begin (eval k) (f :: env) body));
                [apply simN_bind_all|apply mono_const| |].
              ** intros _. apply sim_tev_begin. exact (IHe self).
              ** intros _. apply mono_ev_begin.
           ++ intros vs. apply mono_bind; [apply mono_const|intros _; apply mono_ev_begin].
      * apply (simP_push tl self (fun f => tev_begin (evs n self) tl (f :: env) es) (fun f k => ev_begin (eval k) (f :: env) es)).
        intros f. apply sim_tev_begin. exact (IHe self).
      * apply simN_simP.
        apply (simN_push _ (fun f => _ <- no_loop_sig EUnspec (evs n self false (f :: env) e1) ;;
                                     for_loop (evs n self false) n (f :: env) lbl e2 e3 body)
                           (fun f k => _ <- no_loop_sig EUnspec (eval k (f :: env) e1) ;;
                                       for_loop (eval k) k (f :: env) lbl e2 e3 body)).
        intros f.
        apply (simN_bind _ _ _ _ _ (fun _ k => for_loop (eval k) k (f :: env) lbl e2 e3 body)).
        -- apply simN_no_loop_sig. apply IHe0.
        -- apply mono_no_loop_sig. apply mono_eval.
        -- intros _. apply sim_for_loop_diag. exact IHe0.
        -- intros _. apply mono_for_loop_diag.
      * apply simN_simP. apply simN_ext; [reflexivity|]. intros s r s' E. inversion E; subst. intros ? ?; discriminate.
      * apply simN_simP. apply simN_ext; [reflexivity|]. intros s r s' E. inversion E; subst. intros ? ?; discriminate.
      * apply simN_simP; apply simN_ret.
      * apply simN_simP.
        apply (simN_bind _ _ _ _ _ (fun _ _ => ret VNil)); [apply simN_bind_frame|apply mono_const| |].
        -- intros _. apply simN_ret.
        -- intros _. apply mono_const.
    + (* apply_tco *)
      intros f args. apply simN_shift. destruct f; unfold aps; simpl; fold aps; fold tls; try apply simN_raise.
      * destruct (zip_params ps rest args []) as [binds|]; [|apply simN_raise].
        exact (IHl name ps rest body env binds).
      * apply sim_prim_apply. exact IHa.
    + (* tloop *)
      intros nm ps rest body cenv binds.
      set (c := VClos nm ps rest body cenv).
      intros s r s' E Hok. unfold c in E. rewrite tls_unfold in E. fold c in E.
      unfold body_ref.
      destruct (push_frame s) as [fid s1] eqn:Ep.
      set (mt := _ <- bind_all fid binds ;; no_loop_sig ELoop (tev_begin (evs n (self_of c)) true (fid :: cenv) body)) in E.
      set (mr := fun k => _ <- bind_all fid binds ;; no_loop_sig ELoop (ev_begin (eval k) (fid :: cenv) body)).
      assert (Hsim : simT (self_of c) mt mr).
      { apply (simT_bind _ _ _ _ _ (fun _ k => no_loop_sig ELoop (ev_begin (eval k) (fid :: cenv) body)));
          [apply simN_bind_all|apply mono_const| |].
        - intros _. apply (simT_no_loop_sig (self_of c) ELoop _ (fun k => ev_begin (eval k) (fid :: cenv) body)).
          + apply (sim_tev_begin (evs n (self_of c)) (self_of c) (IHe (self_of c)) true).
          + intros f0 c0 Hs j vs s0 r0 s0' Ha. unfold c in Hs. simpl in Hs. destruct nm; inversion Hs; subst.
            eapply apply_clos_noloop; eassumption.
        - intros _ k. apply le_no_loop_sig. apply (mono_ev_begin (fid :: cenv) body k). }
      destruct (mt s1) as [[v|g|] s2] eqn:Em.
      * inversion E; subst. destruct (Hsim _ _ _ Em Hok) as [[Hn [k Hk]]|[f0 [c0 [vs [_ [Hr _]]]]]]; [|discriminate].
        split; [assumption|]. exists k. exact Hk.
      * destruct g as [l|l|e0|vs|].
        -- inversion E; subst. destruct (Hsim _ _ _ Em Hok) as [[Hn [k Hk]]|[f0 [c0 [vs [_ [Hr _]]]]]]; [|discriminate].
           split; [assumption|]. exists k. exact Hk.
        -- inversion E; subst. destruct (Hsim _ _ _ Em Hok) as [[Hn [k Hk]]|[f0 [c0 [vs [_ [Hr _]]]]]]; [|discriminate].
           split; [assumption|]. exists k. exact Hk.
        -- inversion E; subst. destruct (Hsim _ _ _ Em Hok) as [[Hn [k Hk]]|[f0 [c0 [vs [_ [Hr _]]]]]]; [|discriminate].
           split; [assumption|]. exists k. exact Hk.
        -- assert (Ho : okr (@Sig value (STail vs))) by (split; discriminate).
           destruct (Hsim _ _ _ Em Ho) as [[Hn _]|[f0 [c0 [vs0 [Hs [Hr Hk]]]]]]; [exfalso; apply (Hn vs); reflexivity|].
           inversion Hr; subst vs0. unfold c in Hs. simpl in Hs. destruct nm as [nm|]; inversion Hs; subst f0 c0. fold c in Hk.
           destruct (zip_params ps rest vs []) as [binds'|] eqn:Ez.
           ++ destruct (IHl (Some nm) ps rest body cenv binds' _ _ _ E Hok) as [Hn [m Hm]].
              split; [assumption|].
              assert (Ha : apply (S m) c vs s2 = (r, s')).
              { unfold c. simpl. rewrite Ez. exact Hm. }
              destruct (Hk _ _ _ Ha (proj1 Hok)) as [k Hk2]. exists k. exact Hk2.
           ++ inversion E; subst r s'. split; [intros ? ?; discriminate|].
              assert (Ha : apply 1 c vs s2 = (Sig (SErr EOther), s2)).
              { unfold c. simpl. rewrite Ez. reflexivity. }
              destruct (Hk _ _ _ Ha ltac:(discriminate)) as [k Hk2]. exists k. exact Hk2.
        -- inversion E; subst. destruct Hok as [_ Hs]. congruence.
      * inversion E; subst. destruct Hok as [Hf _]. congruence.
Qed.

(* ---- the theorems of Properties/C09.v ---- *)

Theorem tail_invisible_apply_proof : forall n f args s r s',
  apply_tco true false n f args s = (r, s') -> r <> Fuel -> r <> Sig SShadow ->
  exists k, apply k f args s = (r, s').
Proof.
  intros n f args s r s' E Hf Hs.
  destruct (proj1 (proj2 (sim_main n)) f args s r s' E (conj Hf Hs)) as [_ Hk]. exact Hk.
Qed.

Theorem tail_invisible_run_proof : forall n failat forms r s',
  tev_begin (eval_tco true false n None) false [O] forms (init_store failat) = (r, s') ->
  r <> Fuel -> r <> Sig SShadow ->
  exists k, ev_begin (eval k) [O] forms (init_store failat) = (r, s').
Proof.
  intros n failat forms r s' E Hf Hs.
  pose proof (sim_tev_begin (evs n None) None (proj1 (sim_main n) None) false [O] forms) as H.
  simpl in H. destruct (H _ _ _ E (conj Hf Hs)) as [_ Hk]. exact Hk.
Qed.

Theorem tail_invisible_proof : forall n failat forms o h,
  eval_program_tco true false n failat forms = (o, false, h) -> o_res o <> Fuel ->
  exists k, eval_program_cfg k failat forms = o.
Proof.
  intros n failat forms o h E Hf. unfold eval_program_tco in E. unfold eval_program_cfg.
  destruct (forallb (cc []) forms); [|inversion E; subst; exists O; reflexivity].
  destruct (tev_begin (eval_tco true false n None) false [0%nat] forms (init_store failat)) as [r s'] eqn:Er.
  unfold finish_tco in E.
  assert (Hr : r <> Fuel). { intros ->. inversion E; subst. apply Hf. reflexivity. }
  assert (Hs : r <> Sig SShadow). { intros ->. inversion E. }
  destruct (tail_invisible_run_proof _ _ _ _ _ Er Hr Hs) as [k Hk]. exists k. rewrite Hk. unfold finish.
  destruct r as [v|[l|l|e|vs|]|]; inversion E; subst; reflexivity.
Qed.

(* ---- space: the loop of one activation does not accumulate depth ---- *)

Lemma depth_push : forall s, depth (snd (push_frame s)) = depth s /\ hwm (snd (push_frame s)) = hwm s.
Proof. intros s. split; reflexivity. Qed.

Lemma depth_bind : forall f x v s r s', bind f x v s = (r, s') -> depth s' = depth s /\ hwm s' = hwm s.
Proof.
  intros f x v s r s' E. unfold bind in E.
  destruct (nth_error (frames s) f) eqn:En; [|inversion E; subst; auto].
  destruct (assoc x f0).
  - destruct (type_of depth_limit (arrays s) v0) as [lt ars1].
    destruct (type_of depth_limit ars1 v) as [rt ars2].
    assert (U : forall s0, depth (upd_frame f x v s0) = depth s0 /\ hwm (upd_frame f x v s0) = hwm s0).
    { intros s0. unfold upd_frame. destruct (nth_error (frames s0) f); split; reflexivity. }
    assert (U' : depth (upd_frame f x v (with_arrays s ars2)) = depth s /\ hwm (upd_frame f x v (with_arrays s ars2)) = hwm s).
    { destruct (U (with_arrays s ars2)) as [U1 U2]. simpl in U1, U2. split; assumption. }
    destruct lt; destruct rt; try (inversion E; subst; exact U').
    destruct (ty_eqb t t0); inversion E; subst; [exact U'|split; reflexivity].
  - inversion E; subst. unfold upd_frame. rewrite En. split; reflexivity.
Qed.

Lemma depth_bind_all : forall f xs s r s', bind_all f xs s = (r, s') -> depth s' = depth s /\ hwm s' = hwm s.
Proof.
  induction xs as [|[x v] rr IH]; simpl; intros s r s' E.
  - inversion E; subst. auto.
  - unfold bindM in E. destruct (bind f x v s) as [[u|g|] s1] eqn:E1.
    + destruct (depth_bind _ _ _ _ _ _ E1) as [A B]. destruct (IH _ _ _ E) as [C D]. split; congruence.
    + inversion E; subst. eapply depth_bind; eassumption.
    + inversion E; subst. eapply depth_bind; eassumption.
Qed.

Theorem tail_space_constant_proof : forall strict nm ps rest body cenv (d B : nat),
  (* every single run of the body started at depth d below the mark B ends at depth d below B *)
  (forall m env s0 r0 s0', depth s0 = d -> (hwm s0 <= B)%nat ->
     tev_begin (eval_tco strict true m (self_of (VClos nm ps rest body cenv))) true env body s0 = (r0, s0') ->
     depth s0' = d /\ (hwm s0' <= B)%nat) ->
  (* then so does the loop, whatever the number of iterations *)
  forall n binds s r s', depth s = d -> (hwm s <= B)%nat ->
    tloop strict true n (VClos nm ps rest body cenv) binds s = (r, s') ->
    depth s' = d /\ (hwm s' <= B)%nat.
Proof.
  intros strict nm ps rest body cenv d B Hbody. induction n as [|n IH]; intros binds s r s' Hd Hh E.
  - simpl in E. inversion E; subst. auto.
  - simpl in E. unfold push_frame in E. unfold bindM, no_loop_sig in E.
    match type of E with context[bind_all ?a ?b ?c] => destruct (bind_all a b c) as [[u|g|] s2] eqn:Eb end.
    + destruct (depth_bind_all _ _ _ _ _ Eb) as [D2 H2]. simpl in D2, H2.
      match type of E with context[tev_begin ?a ?b ?c ?dd ?e] => destruct (tev_begin a b c dd e) as [r3 s3] eqn:Et end.
      assert (Hb : depth s3 = d /\ (hwm s3 <= B)%nat).
      { eapply (Hbody _ _ s2); [rewrite D2; exact Hd|rewrite H2; exact Hh|exact Et]. }
      destruct r3 as [v|[l|l|e0|vs|]|]; try (inversion E; subst; exact Hb).
      destruct (zip_params ps rest vs []) as [binds'|]; [|inversion E; subst; exact Hb].
      destruct Hb as [Hb1 Hb2]. eapply IH; [exact Hb1|exact Hb2|exact E].
    + destruct (depth_bind_all _ _ _ _ _ Eb) as [D2 H2]. simpl in D2, H2.
      assert (X : depth s2 = d /\ (hwm s2 <= B)%nat) by (split; [rewrite D2; exact Hd|rewrite H2; exact Hh]).
      destruct (bind_all_sig _ _ _ _ _ Eb) as [e0 He]. subst g. inversion E; subst; exact X.
    + destruct (depth_bind_all _ _ _ _ _ Eb) as [D2 H2]. simpl in D2, H2.
      assert (X : depth s2 = d /\ (hwm s2 <= B)%nat) by (split; [rewrite D2; exact Hd|rewrite H2; exact Hh]).
      inversion E; subst; exact X.
Qed.

(* ---- tail positions ---- *)

(* sub is in tail position of e: the inductive closure of the one-step rules of the generator *)
Inductive in_tail_position : expr -> expr -> Prop :=
| tp_here : forall e, in_tail_position e e
| tp_begin : forall es l sub, in_tail_position l sub -> in_tail_position (EBegin (es ++ [l])) sub
| tp_cond_arm : forall arms1 c b arms2 d sub, in_tail_position b sub -> in_tail_position (ECond (arms1 ++ (c, b) :: arms2) d) sub
| tp_cond_default : forall arms d sub, in_tail_position d sub -> in_tail_position (ECond arms d) sub
| tp_let : forall q bs body l sub, in_tail_position l sub -> in_tail_position (ELet q bs (body ++ [l])) sub
| tp_scope : forall es l sub, in_tail_position l sub -> in_tail_position (EScope (es ++ [l])) sub
| tp_and : forall es l sub, in_tail_position l sub -> in_tail_position (EAnd (es ++ [l])) sub
| tp_or : forall es l sub, in_tail_position l sub -> in_tail_position (EOr (es ++ [l])) sub.

Section Flags.
  Variable ev : bool -> list nat -> expr -> M value.

  (* the last form gets the flag, the forms before it get false *)
  Lemma tev_begin_last : forall tl env es l s,
    tev_begin ev tl env (es ++ [l]) s =
    match es with [] => ev tl env l s | _ => (_ <- tev_begin ev false env es ;; ev tl env l) s end.
  Proof.
    induction es as [|e r IH]; intros l s; [reflexivity|].
    destruct r as [|e2 r]; [reflexivity|].
    change (tev_begin ev tl env ((e :: e2 :: r) ++ [l]) s) with ((_ <- ev false env e ;; tev_begin ev tl env ((e2 :: r) ++ [l])) s).
    change (tev_begin ev false env (e :: e2 :: r)) with (_ <- ev false env e ;; tev_begin ev false env (e2 :: r)).
    unfold bindM. destruct (ev false env e s) as [[a|g|] s1]; try reflexivity.
    rewrite IH. unfold bindM. reflexivity.
  Qed.

  (* every arm body and the default get the flag, the tests get false *)
  Lemma tev_cond_flags : forall tl env c b r d,
    tev_cond ev tl env ((c, b) :: r) d = (v <- ev false env c ;; if truthy v then ev tl env b else tev_cond ev tl env r d)
    /\ tev_cond ev tl env [] d = ev tl env d.
  Proof. intros. split; reflexivity. Qed.

  (* the last arm of and / or gets the flag, the arms before it get false *)
  Lemma tev_and_flags : forall tl env e e2 r,
    tev_and ev tl env [e] = ev tl env e /\
    tev_and ev tl env (e :: e2 :: r) = (v <- ev false env e ;; if truthy v then tev_and ev tl env (e2 :: r) else ret v).
  Proof. intros. split; reflexivity. Qed.
  Lemma tev_or_flags : forall tl env e e2 r,
    tev_or ev tl env [e] = ev tl env e /\
    tev_or ev tl env (e :: e2 :: r) = (v <- ev false env e ;; if truthy v then ret v else tev_or ev tl env (e2 :: r)).
  Proof. intros. split; reflexivity. Qed.
End Flags.

(* one step of the evaluator: which sub-forms receive the flag tl, which receive false *)
Theorem tail_flag_rules_proof : forall strict count n self tl env,
  let ev := eval_tco strict count n self in
  (forall es, eval_tco strict count (S n) self tl env (EBegin es) = tev_begin ev tl env es) /\
  (forall arms d, eval_tco strict count (S n) self tl env (ECond arms d) = tev_cond ev tl env arms d) /\
  (forall es, eval_tco strict count (S n) self tl env (EAnd es) = tev_and ev tl env es) /\
  (forall es, eval_tco strict count (S n) self tl env (EOr es) = tev_or ev tl env es) /\
  (forall es s, eval_tco strict count (S n) self tl env (EScope es) s =
                let '(f, s1) := push_frame s in tev_begin ev tl (f :: env) es s1) /\
  (forall bs body s, eval_tco strict count (S n) self tl env (ELet false bs body) s =
                let '(f, s1) := push_frame s in
                (vs <- ev_list (ev false) (f :: env) (map snd bs) ;;
                 _ <- bind_all f (rev (combine (map fst bs) vs)) ;; tev_begin ev tl (f :: env) body) s1) /\
  (forall bs body s, eval_tco strict count (S n) self tl env (ELet true bs body) s =
                let '(f, s1) := push_frame s in
                (_ <- ev_letseq (ev false) f (f :: env) bs ;; tev_begin ev tl (f :: env) body) s1) /\
  (forall es, eval_tco strict count (S n) self tl env (EArr es) = (vs <- ev_list (ev false) env es ;; alloc_arr vs None)) /\
  (forall x e, eval_tco strict count (S n) self tl env (EDef x e) = (v <- ev false env e ;; _ <- bind (hd O env) x v ;; ret v)) /\
  (forall lbl i t st body s, eval_tco strict count (S n) self tl env (EFor lbl i t st body) s =
                let '(f, s1) := push_frame s in
                (_ <- no_loop_sig EUnspec (ev false (f :: env) i) ;; for_loop (ev false) n (f :: env) lbl t st body) s1) /\
  (forall f args, is_self self tl f (length args) = None ->
                eval_tco strict count (S n) self tl env (ECall f args) = call_expr (ev false) (apply_tco strict count n) env f args).
Proof.
  intros. repeat split; intros; try reflexivity. simpl. rewrite H. reflexivity.
Qed.

(* a self call is a jump exactly when the flag is set, the head is the function's own name and
   the argument count fits *)
Theorem self_call_rule_proof : forall self tl f nargs nm c,
  is_self self tl f nargs = Some (nm, c) <->
  tl = true /\ self = Some (nm, c) /\ f = EVar nm /\ arity_fits c nargs = true.
Proof.
  intros self tl f nargs nm c. unfold is_self. split.
  - destruct tl; [|discriminate]. destruct self as [[nm' c']|]; [|discriminate]. destruct f; try discriminate.
    destruct ((x =? nm') && arity_fits c' nargs) eqn:E; [|discriminate]. intros H. inversion H; subst.
    apply andb_true_iff in E. destruct E as [E1 E2]. apply Z.eqb_eq in E1. subst. auto.
  - intros [-> [-> [-> Ha]]]. rewrite Z.eqb_refl, Ha. reflexivity.
Qed.
