(* C09, space: tail_space_constant WITHOUT the per-iteration hypothesis, for a syntactic class of
   loops: the body calls nothing but first-order primitives (by names it never rebinds) and itself
   in tail position with the right number of arguments.  Then one call of the function is ONE
   activation, whatever the number of iterations. *)
From Coq Require Import ZArith Bool List Lia.
From ZV Require Import Model.Num Model.RefSemTco Proofs.RefSemTcoProofs.
Import ListNotations.
Open Scope Z_scope.

Definition safe_prim (p : prim) : bool := match p with PMap | PApply => false | _ => true end.
Definition is_safe_name (g : ident) : bool :=
  existsb (fun p => safe_prim p && (prim_ident p =? g)) all_prims.

Section Class.
  Variable f : ident.     (* the function's own name *)
  Variable np : nat.      (* its number of parameters (no rest parameter) *)

  Fixpoint simple (tl : bool) (e : expr) {struct e} : bool :=
    let fix seq (es : list expr) : bool :=
      match es with
      | [] => true
      | [x] => simple tl x
      | x :: r => simple false x && seq r
      end in
    match e with
    | EInt _ | EBool _ | ENil | EStr _ | EQuote _ | EVar _ | EFn _ _ _ => true
    | ECall (EVar g) args =>
      forallb (simple false) args &&
      (is_safe_name g || (tl && (g =? f) && Nat.eqb (length args) np))
    | EBegin es | EScope es | EAnd es | EOr es => seq es
    | ECond arms d =>
      (fix arms_ok (l : list (expr * expr)) : bool :=
         match l with
         | [] => true
         | (c, b) :: r => simple false c && simple tl b && arms_ok r
         end) arms && simple tl d
    | EDef x e1 | ESet x e1 => negb (is_safe_name x) && simple false e1
    | ELet _ bs body =>
      forallb (fun xb => negb (is_safe_name (fst xb)) && simple false (snd xb)) bs && seq body
    | _ => false
    end.

  Definition simple_seq (tl : bool) : list expr -> bool :=
    fix seq (es : list expr) : bool :=
      match es with
      | [] => true
      | [x] => simple tl x
      | x :: r => simple false x && seq r
      end.

  Definition simple_arms (tl : bool) : list (expr * expr) -> bool :=
    fix arms_ok (l : list (expr * expr)) : bool :=
      match l with
      | [] => true
      | (c, b) :: r => simple false c && simple tl b && arms_ok r
      end.
End Class.

(* s' differs from s only in ways that no lookup of a safe primitive name can see, and not in
   the activation counters *)
Definition keeps (s s' : store) : Prop :=
  (forall env g, is_safe_name g = true -> lookup_chain (frames s') env g = lookup_chain (frames s) env g) /\
  depth s' = depth s /\ hwm s' = hwm s.

Definition prims_ok (s : store) (env : list nat) : Prop :=
  forall p, safe_prim p = true -> exists fr, lookup_chain (frames s) env (prim_ident p) = Some (fr, VPrim p).

Lemma keeps_refl : forall s, keeps s s.
Proof. intros s. repeat split; auto. Qed.

Lemma keeps_trans : forall a b c, keeps a b -> keeps b c -> keeps a c.
Proof.
  intros a b c [A1 [A2 A3]] [B1 [B2 B3]]. repeat split; try congruence.
  intros env g Hg. rewrite B1, A1; auto.
Qed.

Lemma keeps_frames : forall s s', frames s' = frames s -> depth s' = depth s -> hwm s' = hwm s -> keeps s s'.
Proof. intros s s' H1 H2 H3. repeat split; auto. intros. rewrite H1. reflexivity. Qed.

Lemma safe_name_of_prim : forall p, safe_prim p = true -> is_safe_name (prim_ident p) = true.
Proof. intros p H. destruct p; try discriminate; reflexivity. Qed.

Lemma safe_name_inv : forall g, is_safe_name g = true -> exists p, safe_prim p = true /\ prim_ident p = g.
Proof.
  intros g H. unfold is_safe_name in H. apply existsb_exists in H. destruct H as [p [_ H]].
  apply andb_true_iff in H. destruct H as [H1 H2]. apply Z.eqb_eq in H2. eauto.
Qed.

Lemma prims_ok_keeps : forall s s' env, keeps s s' -> prims_ok s env -> prims_ok s' env.
Proof.
  intros s s' env [K _] H p Hp. destruct (H p Hp) as [fr Hfr]. exists fr.
  rewrite K; [assumption|apply safe_name_of_prim; assumption].
Qed.

(* lookups along any chain do not see a new empty frame *)
Lemma lookup_push : forall (fs : list frame) env g, lookup_chain (fs ++ [([] : frame)]) env g = lookup_chain fs env g.
Proof.
  induction env as [|fr env IH]; intros g; simpl; [reflexivity|].
  destruct (Nat.lt_ge_cases fr (length fs)) as [L|L].
  - rewrite nth_error_app1 by assumption. destruct (nth_error fs fr); [|apply IH].
    destruct (assoc g f); [reflexivity|apply IH].
  - rewrite (proj2 (nth_error_None fs fr)) by assumption.
    destruct (nth_error (fs ++ [([] : frame)]) fr) as [fr0|] eqn:E; [|apply IH].
    assert (fr0 = []).
    { rewrite nth_error_app2 in E by assumption. destruct (fr - length fs)%nat as [|[|?]]; simpl in E; inversion E; reflexivity. }
    subst. simpl. apply IH.
Qed.

Lemma keeps_push : forall s, keeps s (snd (push_frame s)).
Proof. intros s. repeat split; auto. intros env g _. simpl. apply lookup_push. Qed.

Lemma assoc_fr_set_other : forall x y v fr, x <> y -> assoc y (fr_set x v fr) = assoc y fr.
Proof.
  induction fr as [|[z w] r IH]; simpl; intros Hne.
  - destruct (y =? x) eqn:E; [apply Z.eqb_eq in E; congruence|reflexivity].
  - destruct (x =? z) eqn:E; simpl.
    + apply Z.eqb_eq in E. subst z. destruct (y =? x) eqn:E2; [apply Z.eqb_eq in E2; congruence|reflexivity].
    + destruct (y =? z); [reflexivity|apply IH; assumption].
Qed.

Lemma nth_error_set_nth : forall A (l : list A) n m x,
  nth_error (set_nth n x l) m = if Nat.eqb n m then (match nth_error l n with Some _ => Some x | None => None end) else nth_error l m.
Proof.
  induction l as [|a l IH]; intros n m x.
  - simpl. destruct n, m; simpl; try reflexivity. destruct (Nat.eqb n m); reflexivity.
  - destruct n, m; simpl; try reflexivity. apply IH.
Qed.

Lemma lookup_upd_other : forall s fr x v env g, x <> g ->
  lookup_chain (frames (upd_frame fr x v s)) env g = lookup_chain (frames s) env g.
Proof.
  intros s fr x v env g Hne. unfold upd_frame. destruct (nth_error (frames s) fr) as [fr0|] eqn:E; [|reflexivity].
  simpl. induction env as [|a env IH]; simpl; [reflexivity|].
  rewrite nth_error_set_nth. destruct (Nat.eqb fr a) eqn:Ea.
  - apply Nat.eqb_eq in Ea. subst a. rewrite E. rewrite assoc_fr_set_other by assumption.
    destruct (assoc g fr0); [reflexivity|apply IH].
  - destruct (nth_error (frames s) a); [|apply IH]. destruct (assoc g f); [reflexivity|apply IH].
Qed.

Lemma keeps_upd : forall s fr x v, is_safe_name x = false -> keeps s (upd_frame fr x v s).
Proof.
  intros s fr x v Hx. split; [|unfold upd_frame; destruct (nth_error (frames s) fr); split; reflexivity].
  intros env g Hg. apply lookup_upd_other. intros ->. congruence.
Qed.

Lemma keeps_bind : forall fr x v s r s', is_safe_name x = false -> bind fr x v s = (r, s') -> keeps s s'.
Proof.
  intros fr x v s r s' Hx E. unfold bind in E.
  destruct (nth_error (frames s) fr) eqn:En; [|inversion E; subst; apply keeps_refl].
  destruct (assoc x f).
  - destruct (type_of depth_limit (arrays s) v0) as [lt ars1].
    destruct (type_of depth_limit ars1 v) as [rt ars2].
    assert (K1 : keeps s (with_arrays s ars2)) by (apply keeps_frames; reflexivity).
    assert (K2 : keeps s (upd_frame fr x v (with_arrays s ars2))).
    { eapply keeps_trans; [exact K1|apply keeps_upd; assumption]. }
    destruct lt; destruct rt; try (inversion E; subst; exact K2).
    destruct (ty_eqb t t0); inversion E; subst; [exact K2|exact K1].
  - inversion E; subst. apply keeps_upd. assumption.
Qed.

Lemma keeps_bind_all : forall fr xs s r s',
  (forall x v, In (x, v) xs -> is_safe_name x = false) -> bind_all fr xs s = (r, s') -> keeps s s'.
Proof.
  induction xs as [|[x v] rr IH]; simpl; intros s r s' Hx E.
  - inversion E; subst. apply keeps_refl.
  - unfold bindM in E. destruct (bind fr x v s) as [[u|g|] s1] eqn:E1.
    + eapply keeps_trans; [eapply keeps_bind; [|exact E1]; eapply Hx; left; reflexivity|].
      eapply IH; [|exact E]. intros; eapply Hx; right; eassumption.
    + inversion E; subst. eapply keeps_bind; [|exact E1]. eapply Hx; left; reflexivity.
    + inversion E; subst. eapply keeps_bind; [|exact E1]. eapply Hx; left; reflexivity.
Qed.

(* first-order primitives leave the frames and the counters alone *)
Definition fkM {A} (m : M A) : Prop :=
  forall s r s', m s = (r, s') -> frames s' = frames s /\ depth s' = depth s /\ hwm s' = hwm s.

Lemma fk_ret : forall A (a : A), fkM (ret a).
Proof. intros A a s r s' E. inversion E; subst. auto. Qed.
Lemma fk_raise : forall A e, fkM (@raise A e).
Proof. intros A e s r s' E. inversion E; subst. auto. Qed.
Lemma fk_bind : forall A B (m : M A) (k : A -> M B), fkM m -> (forall a, fkM (k a)) -> fkM (bindM m k).
Proof.
  intros A B m k Hm Hk s r s' E. unfold bindM in E. destruct (m s) as [[a|g|] s1] eqn:E1.
  - destruct (Hm _ _ _ E1) as [A1 [A2 A3]]. destruct (Hk a _ _ _ E) as [B1 [B2 B3]]. repeat split; congruence.
  - inversion E; subst. eapply Hm; eassumption.
  - inversion E; subst. eapply Hm; eassumption.
Qed.
Lemma fk_get_arr : forall a, fkM (get_arr a).
Proof. intros a s r s' E. unfold get_arr in E. destruct (nth_error (arrays s) a); inversion E; subst; auto. Qed.
Lemma fk_alloc : forall vs t, fkM (alloc_arr vs t).
Proof. intros vs t s r s' E. inversion E; subst. auto. Qed.
Lemma fk_arith : forall op r acc, fkM (arith op acc r).
Proof.
  induction r as [|b r IH]; simpl; intros acc; [apply fk_ret|].
  destruct acc; destruct b; try apply fk_raise. apply IH.
Qed.
Lemma fk_compare : forall test args, fkM (compare_prim test args).
Proof.
  intros test args. unfold compare_prim. destruct args as [|a [|b [|? ?]]]; try apply fk_raise.
  intros s r s' E. destruct (cmp_val depth_limit (arrays s) a b); inversion E; subst; auto.
Qed.

Ltac fk :=
  match goal with
  | |- fkM (ret _) => apply fk_ret
  | |- fkM (raise _) => apply fk_raise
  | |- fkM (alloc_arr _ _) => apply fk_alloc
  | |- fkM (arith _ _ _) => apply fk_arith
  | |- fkM (compare_prim _ _) => apply fk_compare
  | |- fkM (get_arr _) => apply fk_get_arr
  | |- fkM (bindM _ _) => apply fk_bind; [|intros ?]
  | |- fkM (match ?x with _ => _ end) => destruct x
  | |- fkM (if ?c then _ else _) => destruct c
  end.

Lemma fk_prim : forall ap p args, safe_prim p = true -> fkM (prim_apply ap p args).
Proof.
  intros ap p args Hp. destruct p; try discriminate Hp; simpl; repeat fk.
  all: intros s r s' E; simpl in E.
  all: repeat match goal with
              | E : context[if ?c then _ else _] |- _ => destruct c
              end; inversion E; subst; simpl; auto.
Qed.

Lemma prims_ok_push : forall s env, prims_ok s env -> prims_ok (snd (push_frame s)) (fst (push_frame s) :: env).
Proof.
  intros s env H p Hp. destruct (H p Hp) as [fr Hfr]. exists fr. simpl.
  rewrite nth_error_app2 by lia. rewrite Nat.sub_diag. simpl.
  rewrite lookup_push. exact Hfr.
Qed.

Section Sub.
  Variable f : ident.
  Variable np : nat.
  Variable ev : bool -> list nat -> expr -> M value.
  Hypothesis Hev : forall tl env e s r s', simple f np tl e = true -> prims_ok s env ->
    ev tl env e s = (r, s') -> keeps s s'.

  Lemma sp_seq : forall tl env es s r s', simple_seq f np tl es = true -> prims_ok s env ->
    tev_begin ev tl env es s = (r, s') -> keeps s s'.
  Proof.
    induction es as [|e r0 IH]; intros s r s' H Hp E.
    - inversion E; subst. apply keeps_refl.
    - destruct r0 as [|e2 r0]; [eapply Hev; eassumption|].
      change (simple f np false e && simple_seq f np tl (e2 :: r0) = true) in H.
      apply andb_true_iff in H. destruct H as [H1 H2].
      change ((_ <- ev false env e ;; tev_begin ev tl env (e2 :: r0)) s = (r, s')) in E. unfold bindM in E.
      destruct (ev false env e s) as [[a|g|] s1] eqn:E1.
      + pose proof (Hev _ _ _ _ _ _ H1 Hp E1) as K1.
        eapply keeps_trans; [exact K1|]. eapply IH; [exact H2|eapply prims_ok_keeps; eassumption|exact E].
      + inversion E; subst. eapply Hev; eassumption.
      + inversion E; subst. eapply Hev; eassumption.
  Qed.

  Lemma sp_and : forall tl env es s r s', simple_seq f np tl es = true -> prims_ok s env ->
    tev_and ev tl env es s = (r, s') -> keeps s s'.
  Proof.
    induction es as [|e r0 IH]; intros s r s' H Hp E.
    - inversion E; subst. apply keeps_refl.
    - destruct r0 as [|e2 r0]; [eapply Hev; eassumption|].
      change (simple f np false e && simple_seq f np tl (e2 :: r0) = true) in H.
      apply andb_true_iff in H. destruct H as [H1 H2].
      change ((v <- ev false env e ;; if truthy v then tev_and ev tl env (e2 :: r0) else ret v) s = (r, s')) in E. unfold bindM in E.
      destruct (ev false env e s) as [[a|g|] s1] eqn:E1.
      + pose proof (Hev _ _ _ _ _ _ H1 Hp E1) as K1. destruct (truthy a).
        * eapply keeps_trans; [exact K1|]. eapply IH; [exact H2|eapply prims_ok_keeps; eassumption|exact E].
        * inversion E; subst. exact K1.
      + inversion E; subst. eapply Hev; eassumption.
      + inversion E; subst. eapply Hev; eassumption.
  Qed.

  Lemma sp_or : forall tl env es s r s', simple_seq f np tl es = true -> prims_ok s env ->
    tev_or ev tl env es s = (r, s') -> keeps s s'.
  Proof.
    induction es as [|e r0 IH]; intros s r s' H Hp E.
    - inversion E; subst. apply keeps_refl.
    - destruct r0 as [|e2 r0]; [eapply Hev; eassumption|].
      change (simple f np false e && simple_seq f np tl (e2 :: r0) = true) in H.
      apply andb_true_iff in H. destruct H as [H1 H2].
      change ((v <- ev false env e ;; if truthy v then ret v else tev_or ev tl env (e2 :: r0)) s = (r, s')) in E. unfold bindM in E.
      destruct (ev false env e s) as [[a|g|] s1] eqn:E1.
      + pose proof (Hev _ _ _ _ _ _ H1 Hp E1) as K1. destruct (truthy a).
        * inversion E; subst. exact K1.
        * eapply keeps_trans; [exact K1|]. eapply IH; [exact H2|eapply prims_ok_keeps; eassumption|exact E].
      + inversion E; subst. eapply Hev; eassumption.
      + inversion E; subst. eapply Hev; eassumption.
  Qed.

  Lemma sp_cond : forall tl env arms d s r s', simple_arms f np tl arms = true -> simple f np tl d = true ->
    prims_ok s env -> tev_cond ev tl env arms d s = (r, s') -> keeps s s'.
  Proof.
    induction arms as [|[c b] r0 IH]; intros d s r s' H Hd Hp E.
    - eapply Hev; eassumption.
    - change (simple f np false c && simple f np tl b && simple_arms f np tl r0 = true) in H.
      apply andb_true_iff in H. destruct H as [H12 H3]. apply andb_true_iff in H12. destruct H12 as [H1 H2].
      simpl in E. unfold bindM in E.
      destruct (ev false env c s) as [[a|g|] s1] eqn:E1.
      + pose proof (Hev _ _ _ _ _ _ H1 Hp E1) as K1.
        assert (Hp1 : prims_ok s1 env) by (eapply prims_ok_keeps; eassumption).
        eapply keeps_trans; [exact K1|]. destruct (truthy a); [exact (Hev _ _ _ _ _ _ H2 Hp1 E)|exact (IH _ _ _ _ H3 Hd Hp1 E)].
      + inversion E; subst. exact (Hev _ _ _ _ _ _ H1 Hp E1).
      + inversion E; subst. exact (Hev _ _ _ _ _ _ H1 Hp E1).
  Qed.

  Lemma sp_args : forall env es s (r : res (list value)) s', forallb (simple f np false) es = true -> prims_ok s env ->
    ev_args (ev false) env es s = (r, s') -> keeps s s'.
  Proof.
    induction es as [|e r0 IH]; simpl; intros s r s' H Hp E.
    - inversion E; subst. apply keeps_refl.
    - apply andb_true_iff in H. destruct H as [H1 H2].
      destruct (cc [] e); [|inversion E; subst; apply keeps_refl].
      unfold bindM in E. destruct (ev false env e s) as [[a|g|] s1] eqn:E1.
      + pose proof (Hev _ _ _ _ _ _ H1 Hp E1) as K1.
        destruct (ev_args (ev false) env r0 s1) as [[vs|g|] s2] eqn:E2; inversion E; subst;
          (eapply keeps_trans; [exact K1|]; eapply IH; [exact H2|eapply prims_ok_keeps; eassumption|exact E2]).
      + inversion E; subst. eapply Hev; eassumption.
      + inversion E; subst. eapply Hev; eassumption.
  Qed.

  Lemma sp_list : forall env es s (r : res (list value)) s', forallb (simple f np false) es = true -> prims_ok s env ->
    ev_list (ev false) env es s = (r, s') -> keeps s s'.
  Proof.
    induction es as [|e r0 IH]; simpl; intros s r s' H Hp E.
    - inversion E; subst. apply keeps_refl.
    - apply andb_true_iff in H. destruct H as [H1 H2].
      unfold bindM in E. destruct (ev false env e s) as [[a|g|] s1] eqn:E1.
      + pose proof (Hev _ _ _ _ _ _ H1 Hp E1) as K1.
        destruct (ev_list (ev false) env r0 s1) as [[vs|g|] s2] eqn:E2; inversion E; subst;
          (eapply keeps_trans; [exact K1|]; eapply IH; [exact H2|eapply prims_ok_keeps; eassumption|exact E2]).
      + inversion E; subst. eapply Hev; eassumption.
      + inversion E; subst. eapply Hev; eassumption.
  Qed.

  Lemma sp_letseq : forall fr env bs s (r : res unit) s',
    forallb (fun xb => negb (is_safe_name (fst xb)) && simple f np false (snd xb)) bs = true -> prims_ok s env ->
    ev_letseq (ev false) fr env bs s = (r, s') -> keeps s s'.
  Proof.
    induction bs as [|[x e] r0 IH]; simpl; intros s r s' H Hp E.
    - inversion E; subst. apply keeps_refl.
    - apply andb_true_iff in H. destruct H as [H1 H2]. apply andb_true_iff in H1. destruct H1 as [Hx H1].
      apply negb_true_iff in Hx.
      unfold bindM in E. destruct (ev false env e s) as [[a|g|] s1] eqn:E1.
      + pose proof (Hev _ _ _ _ _ _ H1 Hp E1) as K1.
        destruct (bind fr x a s1) as [[u|g|] s2] eqn:E2.
        * pose proof (keeps_bind _ _ _ _ _ _ Hx E2) as K2.
          eapply keeps_trans; [exact K1|]. eapply keeps_trans; [exact K2|].
          eapply IH; [exact H2| |exact E]. eapply prims_ok_keeps; [exact K2|]. eapply prims_ok_keeps; eassumption.
        * inversion E; subst. eapply keeps_trans; [exact K1|]. eapply keeps_bind; eassumption.
        * inversion E; subst. eapply keeps_trans; [exact K1|]. eapply keeps_bind; eassumption.
      + inversion E; subst. eapply Hev; eassumption.
      + inversion E; subst. eapply Hev; eassumption.
  Qed.
End Sub.

Lemma eval_tco_var : forall strict count k self tl env x s,
  eval_tco strict count (S k) self tl env (EVar x) s =
  match lookup_chain (frames s) env x with
  | Some (_, v) => (Done v, s)
  | None => (Sig (SErr EUnbound), s)
  end.
Proof. reflexivity. Qed.

Section Main.
  Variable strict : bool.
  Variable f : ident.
  Variable ps : list ident.
  Variable body : list expr.
  Variable cenv : list nat.
  Let c := VClos (Some f) ps None body cenv.
  Let np := length ps.
  Hypothesis Hf : is_safe_name f = false.

  Lemma in_rev_combine : forall (xs : list ident) (vs : list value) x v, In (x, v) (rev (combine xs vs)) -> In x xs.
  Proof. intros xs vs x v H. apply in_rev in H. eapply in_combine_l; eassumption. Qed.

  Lemma sp_eval : forall n tl env e s r s', simple f np tl e = true -> prims_ok s env ->
    eval_tco strict true n (Some (f, c)) tl env e s = (r, s') -> keeps s s'.
  Proof.
    induction n as [|n IH]; intros tl env e s r s' H Hp E.
    - simpl in E. inversion E; subst. apply keeps_refl.
    - pose proof (fun tl env e s r s' => IH tl env e s r s') as Hev.
      destruct e; try discriminate H; simpl in E.
      + inversion E; subst; apply keeps_refl.
      + inversion E; subst; apply keeps_refl.
      + inversion E; subst; apply keeps_refl.
      + inversion E; subst; apply keeps_refl.
      + inversion E; subst; apply keeps_refl.
      + destruct (lookup_chain (frames s) env x) as [[? ?]|]; inversion E; subst; apply keeps_refl.
      + (* call *)
        destruct e; try discriminate H.
        change (forallb (simple f np false) args &&
                (is_safe_name x || (tl && (x =? f) && Nat.eqb (length args) np)) = true) in H.
        apply andb_true_iff in H. destruct H as [Ha Hg].
        destruct (is_safe_name x) eqn:Hs.
        * (* a first-order primitive *)
          assert (Hne : (x =? f) = false). { apply Z.eqb_neq. intros ->. congruence. }
          assert (Hself : is_self (Some (f, c)) tl (EVar x) (length args) = None).
          { unfold is_self. destruct tl; [|reflexivity]. rewrite Hne. reflexivity. }
          rewrite Hself in E. unfold call_expr in E. unfold bindM in E at 1.
          destruct (safe_name_inv _ Hs) as [p [Hps Hpi]]. destruct (Hp p Hps) as [fr Hfr]. rewrite Hpi in Hfr.
          destruct n as [|n1]; [simpl in E; inversion E; subst; apply keeps_refl|].
          rewrite eval_tco_var in E. rewrite Hfr in E. cbv beta iota in E. unfold bindM in E.
          destruct (ev_args (eval_tco strict true (S n1) (Some (f, c)) false) env args s) as [[vs|g|] s1] eqn:Eargs.
          -- pose proof (sp_args f np _ Hev env args _ _ _ Ha Hp Eargs) as K1.
             eapply keeps_trans; [exact K1|].
             change (prim_apply (apply_tco strict true n1) p vs s1 = (r, s')) in E.
             destruct (fk_prim (apply_tco strict true n1) p vs Hps _ _ _ E) as [F1 [F2 F3]].
             apply keeps_frames; assumption.
          -- inversion E; subst. exact (sp_args f np _ Hev env args _ _ _ Ha Hp Eargs).
          -- inversion E; subst. exact (sp_args f np _ Hev env args _ _ _ Ha Hp Eargs).
        * (* the self tail call *)
          simpl in Hg. apply andb_true_iff in Hg. destruct Hg as [Hg Hlen]. apply andb_true_iff in Hg. destruct Hg as [Htl Hx].
          subst tl. apply Z.eqb_eq in Hx. subst x.
          assert (Hself : is_self (Some (f, c)) true (EVar f) (length args) = Some (f, c)).
          { unfold is_self. rewrite Z.eqb_refl. unfold c at 1. simpl. fold np. rewrite Hlen. reflexivity. }
          rewrite Hself in E.
          assert (J : forall s0 r0 s0', (vs <- ev_args (eval_tco strict true n (Some (f, c)) false) env args ;; (fun s1 => (@Sig value (STail vs), s1))) s0 = (r0, s0') ->
                      prims_ok s0 env -> keeps s0 s0').
          { intros s0 r0 s0' E0 Hp0. unfold bindM in E0.
            destruct (ev_args (eval_tco strict true n (Some (f, c)) false) env args s0) as [[vs|g|] s1] eqn:Eargs;
              inversion E0; subst; exact (sp_args f np _ Hev env args _ _ _ Ha Hp0 Eargs). }
          destruct strict.
          -- destruct (lookup_chain (frames s) env f) as [[? v]|]; [|inversion E; subst; apply keeps_refl].
             destruct (clos_eqb v c); [|inversion E; subst; apply keeps_refl]. exact (J _ _ _ E Hp).
          -- exact (J _ _ _ E Hp).
      + exact (sp_seq f np _ Hev tl env es _ _ _ H Hp E).
      + change (simple_arms f np tl arms && simple f np tl e = true) in H.
        apply andb_true_iff in H. destruct H as [H1 H2].
        exact (sp_cond f np _ Hev tl env arms e _ _ _ H1 H2 Hp E).
      + exact (sp_and f np _ Hev tl env es _ _ _ H Hp E).
      + exact (sp_or f np _ Hev tl env es _ _ _ H Hp E).
      + (* def *)
        change (negb (is_safe_name x) && simple f np false e = true) in H.
        apply andb_true_iff in H. destruct H as [Hx H1]. apply negb_true_iff in Hx.
        unfold bindM in E.
        destruct (eval_tco strict true n (Some (f, c)) false env e s) as [[a|g|] s1] eqn:E1.
        * pose proof (IH _ _ _ _ _ _ H1 Hp E1) as K1.
          destruct (bind (hd 0%nat env) x a s1) as [[u|g|] s2] eqn:E2; inversion E; subst;
            (eapply keeps_trans; [exact K1|eapply keeps_bind; eassumption]).
        * inversion E; subst. exact (IH _ _ _ _ _ _ H1 Hp E1).
        * inversion E; subst. exact (IH _ _ _ _ _ _ H1 Hp E1).
      + (* set *)
        change (negb (is_safe_name x) && simple f np false e = true) in H.
        apply andb_true_iff in H. destruct H as [Hx H1]. apply negb_true_iff in Hx.
        unfold bindM in E.
        destruct (eval_tco strict true n (Some (f, c)) false env e s) as [[a|g|] s1] eqn:E1.
        * pose proof (IH _ _ _ _ _ _ H1 Hp E1) as K1. eapply keeps_trans; [exact K1|].
          destruct (lookup_chain (frames s1) env x) as [[fr ?]|].
          -- inversion E; subst. apply keeps_upd. assumption.
          -- destruct (bind (hd 0%nat env) x a s1) as [[u|g|] s2] eqn:E2; inversion E; subst; eapply keeps_bind; eassumption.
        * inversion E; subst. exact (IH _ _ _ _ _ _ H1 Hp E1).
        * inversion E; subst. exact (IH _ _ _ _ _ _ H1 Hp E1).
      + (* let / letseq *)
        change (forallb (fun xb => negb (is_safe_name (fst xb)) && simple f np false (snd xb)) bs && simple_seq f np tl body0 = true) in H.
        apply andb_true_iff in H. destruct H as [Hb Hbody].
        pose proof (keeps_push s) as Kp. pose proof (prims_ok_push s env Hp) as Hpp.
        assert (Hfold : exists fr sp, keeps s sp /\ prims_ok sp (fr :: env) /\
                  (if seq then (_ <- ev_letseq (eval_tco strict true n (Some (f, c)) false) fr (fr :: env) bs ;;
                                tev_begin (eval_tco strict true n (Some (f, c))) tl (fr :: env) body0) sp
                   else (vs <- ev_list (eval_tco strict true n (Some (f, c)) false) (fr :: env) (map snd bs) ;;
                         _ <- bind_all fr (rev (combine (map fst bs) vs)) ;;
                         tev_begin (eval_tco strict true n (Some (f, c))) tl (fr :: env) body0) sp) = (r, s')).
        { exists (fst (push_frame s)), (snd (push_frame s)). split; [exact Kp|]. split; [exact Hpp|]. destruct seq; exact E. }
        clear E Kp Hpp. destruct Hfold as [fr [sp [Kp [Hpp E]]]].
        eapply keeps_trans; [exact Kp|].
        destruct seq.
        * unfold bindM in E.
          destruct (ev_letseq (eval_tco strict true n (Some (f, c)) false) fr (fr :: env) bs sp) as [[u|g|] s1] eqn:E1.
          -- pose proof (sp_letseq f np _ Hev fr (fr :: env) bs _ _ _ Hb Hpp E1) as K1.
             eapply keeps_trans; [exact K1|].
             exact (sp_seq f np _ Hev tl (fr :: env) body0 _ _ _ Hbody (prims_ok_keeps _ _ _ K1 Hpp) E).
          -- inversion E; subst. exact (sp_letseq f np _ Hev fr (fr :: env) bs _ _ _ Hb Hpp E1).
          -- inversion E; subst. exact (sp_letseq f np _ Hev fr (fr :: env) bs _ _ _ Hb Hpp E1).
        * unfold bindM in E.
          assert (Hinit : forallb (simple f np false) (map snd bs) = true).
          { clear -Hb. induction bs as [|[x e0] r0 IHb]; simpl in *; [reflexivity|].
            apply andb_true_iff in Hb. destruct Hb as [H1 H2]. apply andb_true_iff in H1. destruct H1 as [_ H1].
            rewrite H1. simpl. apply IHb. exact H2. }
          assert (Hnames : forall x, In x (map fst bs) -> is_safe_name x = false).
          { clear -Hb. induction bs as [|[x0 e0] r0 IHb]; simpl in *; intros x Hin; [contradiction|].
            apply andb_true_iff in Hb. destruct Hb as [H1 H2]. apply andb_true_iff in H1. destruct H1 as [H1 _].
            apply negb_true_iff in H1. destruct Hin as [<-|Hin]; [exact H1|apply IHb; assumption]. }
          destruct (ev_list (eval_tco strict true n (Some (f, c)) false) (fr :: env) (map snd bs) sp) as [[vs|g|] s1] eqn:E1.
          -- pose proof (sp_list f np _ Hev (fr :: env) _ _ _ _ Hinit Hpp E1) as K1.
             eapply keeps_trans; [exact K1|].
             destruct (bind_all fr (rev (combine (map fst bs) vs)) s1) as [[u|g|] s2] eqn:E2.
             ++ assert (K2 : keeps s1 s2).
                { eapply keeps_bind_all; [|exact E2]. intros x v Hin. apply Hnames. eapply in_rev_combine; eassumption. }
                eapply keeps_trans; [exact K2|].
                exact (sp_seq f np _ Hev tl (fr :: env) body0 _ _ _ Hbody
                         (prims_ok_keeps _ _ _ K2 (prims_ok_keeps _ _ _ K1 Hpp)) E).
             ++ inversion E; subst. eapply keeps_bind_all; [|exact E2]. intros x v Hin. apply Hnames. eapply in_rev_combine; eassumption.
             ++ inversion E; subst. eapply keeps_bind_all; [|exact E2]. intros x v Hin. apply Hnames. eapply in_rev_combine; eassumption.
          -- inversion E; subst. exact (sp_list f np _ Hev (fr :: env) _ _ _ _ Hinit Hpp E1).
          -- inversion E; subst. exact (sp_list f np _ Hev (fr :: env) _ _ _ _ Hinit Hpp E1).
      + (* newScope *)
        pose proof (keeps_push s) as Kp. pose proof (prims_ok_push s env Hp) as Hpp.
        assert (Hfold : exists fr sp, keeps s sp /\ prims_ok sp (fr :: env) /\
                  tev_begin (eval_tco strict true n (Some (f, c))) tl (fr :: env) es sp = (r, s')).
        { exists (fst (push_frame s)), (snd (push_frame s)). split; [exact Kp|]. split; [exact Hpp|]. exact E. }
        clear E Kp Hpp. destruct Hfold as [fr [sp [Kp [Hpp E]]]].
        eapply keeps_trans; [exact Kp|].
        exact (sp_seq f np _ Hev tl (fr :: env) es _ _ _ H Hpp E).
      + inversion E; subst; apply keeps_refl.
  Qed.
End Main.

Lemma tloop_unfold : forall strict count n nm ps rest body cenv binds s,
  tloop strict count (S n) (VClos nm ps rest body cenv) binds s =
  let '(fid, s1) := push_frame s in
  match (_ <- bind_all fid binds ;;
         no_loop_sig ELoop (tev_begin (eval_tco strict count n (self_of (VClos nm ps rest body cenv))) true (fid :: cenv) body)) s1 with
  | (Sig (STail vs), s2) =>
    match zip_params ps rest vs [] with
    | Some binds' => tloop strict count n (VClos nm ps rest body cenv) binds' s2
    | None => (Sig (SErr EOther), s2)
    end
  | r => r
  end.
Proof. reflexivity. Qed.

Lemma zip_names : forall ps0 args acc out,
  zip_params ps0 None args acc = Some out ->
  (forall x, In x ps0 -> is_safe_name x = false) ->
  (forall x (v : value), In (x, v) acc -> is_safe_name x = false) ->
  forall x v, In (x, v) out -> is_safe_name x = false.
Proof.
  induction ps0 as [|p ps0 IH]; simpl; intros args acc out E Hps Hacc x v Hin.
  - destruct args; inversion E; subst. eapply Hacc; eassumption.
  - destruct args as [|a args]; [discriminate|].
    eapply (IH args ((p, a) :: acc) out E); [intros; apply Hps; right; assumption| |exact Hin].
    intros x0 v0 [Heq|Hin0]; [inversion Heq; subst; apply Hps; left; reflexivity|eapply Hacc; eassumption].
Qed.

Section Loop.
  Variable strict : bool.
  Variable f : ident.
  Variable ps : list ident.
  Variable body : list expr.
  Variable cenv : list nat.
  Let c := VClos (Some f) ps None body cenv.
  Hypothesis Hf : is_safe_name f = false.
  Hypothesis Hps : forall x, In x ps -> is_safe_name x = false.
  Hypothesis Hbody : simple_seq f (length ps) true body = true.

  Theorem sp_tloop : forall n binds s r s',
    (forall x v, In (x, v) binds -> is_safe_name x = false) -> prims_ok s cenv ->
    tloop strict true n c binds s = (r, s') -> keeps s s'.
  Proof.
    induction n as [|n IH]; intros binds s r s' Hb Hp E.
    - simpl in E. inversion E; subst. apply keeps_refl.
    - unfold c in E. rewrite tloop_unfold in E. fold c in E.
      pose proof (keeps_push s) as Kp. pose proof (prims_ok_push s cenv Hp) as Hpp.
      destruct (push_frame s) as [fid s1]. simpl in Kp, Hpp.
      unfold bindM in E.
      destruct (bind_all fid binds s1) as [[u|g|] s2] eqn:Eb.
      + pose proof (keeps_bind_all _ _ _ _ _ Hb Eb) as K2.
        assert (Hp2 : prims_ok s2 (fid :: cenv)) by (eapply prims_ok_keeps; eassumption).
        unfold no_loop_sig in E.
        destruct (tev_begin (eval_tco strict true n (self_of c)) true (fid :: cenv) body s2) as [r4 s4] eqn:E4.
        assert (K4 : keeps s2 s4).
        { eapply (sp_seq f (length ps) (eval_tco strict true n (Some (f, c)))); [|exact Hbody|exact Hp2|exact E4].
          intros tl env e s0 r0 s0' H0 Hp0 E0. eapply (sp_eval strict f ps body cenv Hf); eassumption. }
        assert (K : keeps s s4) by (eapply keeps_trans; [exact Kp|eapply keeps_trans; eassumption]).
        destruct r4 as [v|[l|l|e0|vs|]|]; try (inversion E; subst; exact K).
        destruct (zip_params ps None vs []) as [binds'|] eqn:Ez; [|inversion E; subst; exact K].
        eapply keeps_trans; [exact K|].
        eapply IH; [|eapply prims_ok_keeps; eassumption|exact E].
        eapply zip_names; [exact Ez|exact Hps|]. intros x v [].
      + destruct (bind_all_sig _ _ _ _ _ Eb) as [e0 He]. subst g. inversion E; subst. eapply keeps_trans; [exact Kp|]. eapply keeps_bind_all; [exact Hb|exact Eb].
      + inversion E; subst. eapply keeps_trans; [exact Kp|]. eapply keeps_bind_all; [exact Hb|exact Eb].
  Qed.

  (* one call = one activation, whatever the number of iterations *)
  Theorem tail_space_constant_syntactic_proof : forall n args s r s',
    prims_ok s cenv -> apply_tco strict true n c args s = (r, s') ->
    depth s' = depth s /\ (hwm s' = hwm s \/ hwm s' = Nat.max (hwm s) (S (depth s))).
  Proof.
    intros n args s r s' Hp E. destruct n as [|n]; [simpl in E; inversion E; subst; auto|].
    unfold c in E. simpl in E.
    destruct (zip_params ps None args []) as [binds|] eqn:Ez; [|inversion E; subst; auto].
    fold c in E.
    destruct (tloop strict true n c binds (enter s)) as [r1 s1] eqn:El. inversion E; subst.
    assert (K : keeps (enter s) s1).
    { eapply sp_tloop; [| |exact El].
      - eapply zip_names; [exact Ez|exact Hps|]. intros x v [].
      - exact Hp. }
    destruct K as [_ [Kd Kh]]. simpl in Kd, Kh. simpl. rewrite Kd, Kh. auto.
  Qed.
End Loop.

(* the global frame of a fresh interpreter resolves every first-order primitive name *)
Lemma prims_ok_init : forall failat, prims_ok (init_store failat) [O].
Proof. intros failat p Hp. exists O. destruct p; try discriminate Hp; reflexivity. Qed.
