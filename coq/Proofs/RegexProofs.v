(* A lower bound on the length of any string a regex can match (used: a Uint64 token has >= 3 runes). *)
From Coq Require Import ZArith List Bool Lia.
From ZV Require Import Model.Regex.
Import ListNotations.

Fixpoint minlen (r : re) : option nat :=
  match r with
  | Empty => None
  | Eps | Bol | Eol | Star _ => Some 0%nat
  | Cls _ => Some 1%nat
  | Cat a b => match minlen a, minlen b with Some x, Some y => Some (x + y)%nat | _, _ => None end
  | Alt a b => match minlen a, minlen b with
               | Some x, Some y => Some (Nat.min x y)
               | Some x, None => Some x
               | None, y => y
               end
  end.

(* lb o n: every length described by o is at least n *)
Definition lb (o : option nat) (n : nat) : Prop := match o with None => True | Some m => (n <= m)%nat end.

Lemma nullable_minlen : forall r first, nullable first r = true -> minlen r = Some 0%nat.
Proof.
  induction r; intros first H; simpl in *; try discriminate; try reflexivity.
  - apply andb_prop in H. destruct H as [H1 H2]. rewrite (IHr1 _ H1), (IHr2 _ H2). reflexivity.
  - apply orb_prop in H. destruct H as [H|H].
    + rewrite (IHr1 _ H). destruct (minlen r2); reflexivity.
    + rewrite (IHr2 _ H). destruct (minlen r1) as [x|]; [rewrite Nat.min_0_r|]; reflexivity.
Qed.

Lemma nullable_mid_minlen : forall r first, nullable_mid first r = true -> minlen r = Some 0%nat.
Proof.
  induction r; intros first H; simpl in *; try discriminate; try reflexivity.
  - apply andb_prop in H. destruct H as [H1 H2]. rewrite (IHr1 _ H1), (IHr2 _ H2). reflexivity.
  - apply orb_prop in H. destruct H as [H|H].
    + rewrite (IHr1 _ H). destruct (minlen r2); reflexivity.
    + rewrite (IHr2 _ H). destruct (minlen r1) as [x|]; [rewrite Nat.min_0_r|]; reflexivity.
Qed.

(* lb-style facts about the smart constructors *)
Lemma lb_cat : forall a b n m, lb (minlen a) n -> lb (minlen b) m -> lb (minlen (cat a b)) (n + m).
Proof.
  intros a b n m Ha Hb.
  assert (lb (minlen (Cat a b)) (n + m)) as HC.
  { simpl. destruct (minlen a), (minlen b); simpl in *; try exact I; lia. }
  destruct a; destruct b; simpl in *; try exact I; try exact HC;
    repeat match goal with |- context [minlen ?r] => destruct (minlen r) end; simpl in *; try exact I; lia.
Qed.

Lemma lb_alt : forall a b n, lb (minlen a) n -> lb (minlen b) n -> lb (minlen (alt a b)) n.
Proof.
  intros a b n Ha Hb.
  assert (lb (minlen (Alt a b)) n) as HA.
  { simpl. destruct (minlen a), (minlen b); simpl in *; try exact I; try lia; apply Nat.min_glb; assumption. }
  unfold alt. destruct a; try exact Hb; destruct b; try exact Ha; try exact HA;
    match goal with |- context [if ?c then _ else _] => destruct c end; try exact Ha; exact HA.
Qed.

Lemma lb_weaken : forall o n m, (m <= n)%nat -> lb o n -> lb o m.
Proof. intros [x|] n m H1 H2; simpl in *; [lia|exact I]. Qed.

Lemma lb_deriv : forall r first c n, lb (minlen r) (S n) -> lb (minlen (deriv first c r)) n.
Proof.
  induction r; intros first c n H; simpl in *; try exact I.
  - destruct (in_cls c ranges); simpl; [lia|exact I].
  - (* Cat *)
    assert (forall o, lb o 0) as L0 by (intros [x|]; simpl; [lia|exact I]).
    assert (lb (minlen (cat (deriv first c r1) r2)) n) as H1.
    { destruct (minlen r1) as [x|] eqn:E1.
      - destruct (minlen r2) as [y|] eqn:E2.
        + simpl in H. destruct x as [|x].
          * apply (lb_cat _ _ 0 n); [apply L0|rewrite E2; simpl; lia].
          * apply (lb_weaken _ (x + (n - x))); [lia|].
            apply lb_cat; [apply IHr1; simpl; lia|rewrite E2; simpl; lia].
        + apply (lb_cat _ _ 0 n); [apply L0|rewrite E2; exact I].
      - apply (lb_weaken _ (n + 0)); [lia|]. apply lb_cat; [apply IHr1; exact I|apply L0]. }
    destruct (nullable_mid first r1) eqn:N; [|exact H1].
    apply lb_alt; [exact H1|]. apply IHr2.
    rewrite (nullable_mid_minlen _ _ N) in H. destruct (minlen r2); simpl in *; [lia|exact I].
  - (* Alt *)
    apply lb_alt; [apply IHr1|apply IHr2]; destruct (minlen r1), (minlen r2); simpl in *; try exact I; lia.
  - exfalso; lia.
Qed.

Lemma matches_lb : forall s r first n, lb (minlen r) n -> matches_from first r s = true -> (n <= length s)%nat.
Proof.
  induction s as [|c s IH]; intros r first n H M; simpl in *.
  - rewrite (nullable_minlen _ _ M) in H. simpl in H. lia.
  - destruct n as [|n]; [lia|]. apply le_n_S. eapply IH; [apply lb_deriv; exact H|exact M].
Qed.

Lemma re_match_minlen : forall r s m, minlen r = Some m -> re_match r s = true -> (m <= length s)%nat.
Proof. intros r s m H M. eapply matches_lb; [rewrite H; simpl; apply le_n|exact M]. Qed.
