(* C12: reasoning about the Brzozowski-derivative matcher of Model/Regex.v (owner C13).
   1. A derivation system [D first last r w] (r matches w; first / last say whether the match starts at the
      beginning / stops at the end of the text, for the anchors) and the COMPLETENESS of the matcher:
      D first true r w -> matches_from first r w = true.  Used for every positive classification fact.
   2. A reflective certificate for negative facts: a finite set of derivative states closed under an
      alphabet, none of them nullable, never matches a word over that alphabet. *)
From Coq Require Import ZArith List Bool Lia.
From ZV Require Import Model.Regex.
Import ListNotations.
Open Scope Z_scope.

Definition isnil (w : list Z) : bool := match w with [] => true | _ => false end.

Inductive D : bool -> bool -> re -> list Z -> Prop :=
| D_eps : forall f l, D f l Eps []
| D_cls : forall f l rs c, in_cls c rs = true -> D f l (Cls rs) [c]
| D_cat : forall f l a b u v, D f (l && isnil v) a u -> D (f && isnil u) l b v -> D f l (Cat a b) (u ++ v)
| D_altl : forall f l a b w, D f l a w -> D f l (Alt a b) w
| D_altr : forall f l a b w, D f l b w -> D f l (Alt a b) w
| D_star0 : forall f l a, D f l (Star a) []
| D_star1 : forall f l a u v, u <> [] -> D f (l && isnil v) a u -> D false l (Star a) v -> D f l (Star a) (u ++ v)
| D_bol : forall l, D true l Bol []
| D_eol : forall f, D f true Eol [].

Lemma ranges_eqb_eq : forall a b, ranges_eqb a b = true -> a = b.
Proof.
  induction a as [|[x1 y1] a IH]; destruct b as [|[x2 y2] b]; simpl; intros H; try discriminate; [reflexivity|].
  apply andb_true_iff in H. destruct H as [H H3]. apply andb_true_iff in H. destruct H as [H1 H2].
  apply Z.eqb_eq in H1. apply Z.eqb_eq in H2. subst. f_equal. apply IH; assumption.
Qed.

Lemma re_eqb_eq : forall a b, re_eqb a b = true -> a = b.
Proof.
  induction a; destruct b; simpl; intros H; try discriminate; try reflexivity.
  - f_equal. apply ranges_eqb_eq; assumption.
  - apply andb_true_iff in H. destruct H. f_equal; auto.
  - apply andb_true_iff in H. destruct H. f_equal; auto.
  - f_equal; auto.
Qed.

Lemma D_empty : forall f l w, ~ D f l Empty w.
Proof. intros f l w H. inversion H. Qed.

Lemma alt_cases : forall r s, (r = Empty /\ alt r s = s) \/ (s = Empty /\ alt r s = r) \/
  (re_eqb r s = true /\ alt r s = r) \/ alt r s = Alt r s.
Proof.
  intros r s. unfold alt. destruct r; auto; destruct s; auto;
    match goal with |- context [re_eqb ?a ?b] => destruct (re_eqb a b) eqn:E end; auto.
Qed.

Lemma D_alt_l : forall f l r s w, D f l r w -> D f l (alt r s) w.
Proof.
  intros f l r s w H. destruct (alt_cases r s) as [[E1 E2]|[[E1 E2]|[[E1 E2]|E2]]]; rewrite E2.
  - subst. exfalso; eapply D_empty; eassumption.
  - assumption.
  - assumption.
  - apply D_altl; assumption.
Qed.

Lemma D_alt_r : forall f l r s w, D f l s w -> D f l (alt r s) w.
Proof.
  intros f l r s w H. destruct (alt_cases r s) as [[E1 E2]|[[E1 E2]|[[E1 E2]|E2]]]; rewrite E2.
  - assumption.
  - subst. exfalso; eapply D_empty; eassumption.
  - apply re_eqb_eq in E1. subst. assumption.
  - apply D_altr; assumption.
Qed.

Lemma D_cat_smart : forall f l a b w, D f l (Cat a b) w -> D f l (cat a b) w.
Proof.
  intros f l a b w H. inversion H as [| |f' l' a' b' u v Ha Hb| | | | | |]; subst.
  unfold cat. destruct a; try (exfalso; eapply D_empty; eassumption).
  - (* Eps *) inversion Ha; subst. simpl in *. rewrite andb_true_r in Hb. destruct b; try assumption; exfalso; eapply D_empty; eassumption.
  - destruct b; try assumption; try (exfalso; eapply D_empty; eassumption).
    inversion Hb; subst. simpl in Ha. rewrite andb_true_r in Ha. rewrite app_nil_r. assumption.
  - destruct b; try assumption; try (exfalso; eapply D_empty; eassumption).
    inversion Hb; subst. simpl in Ha. rewrite andb_true_r in Ha. rewrite app_nil_r. assumption.
  - destruct b; try assumption; try (exfalso; eapply D_empty; eassumption).
    inversion Hb; subst. simpl in Ha. rewrite andb_true_r in Ha. rewrite app_nil_r. assumption.
  - destruct b; try assumption; try (exfalso; eapply D_empty; eassumption).
    inversion Hb; subst. simpl in Ha. rewrite andb_true_r in Ha. rewrite app_nil_r. assumption.
  - destruct b; try assumption; try (exfalso; eapply D_empty; eassumption).
    inversion Hb; subst. simpl in Ha. rewrite andb_true_r in Ha. rewrite app_nil_r. assumption.
  - destruct b; try assumption; try (exfalso; eapply D_empty; eassumption).
    inversion Hb; subst. simpl in Ha. rewrite andb_true_r in Ha. rewrite app_nil_r. assumption.
Qed.

Lemma D_nil : forall f l r w, D f l r w -> w = [] -> (if l then nullable f r else nullable_mid f r) = true.
Proof.
  intros f l r w H. induction H; intros E; try discriminate; try (destruct l; reflexivity).
  - apply app_eq_nil in E. destruct E; subst. simpl in *. rewrite andb_true_r in *.
    specialize (IHD1 eq_refl). specialize (IHD2 eq_refl). destruct l; simpl; rewrite IHD1, IHD2; reflexivity.
  - specialize (IHD E). destruct l; simpl; rewrite IHD; reflexivity.
  - specialize (IHD E). destruct l; simpl; rewrite IHD; apply orb_true_r.
  - reflexivity.
Qed.

Lemma D_deriv : forall f l r w0, D f l r w0 -> forall c w, w0 = c :: w -> D false l (deriv f c r) w.
Proof.
  intros f l r w0 H. induction H; intros c0 w0 E; try discriminate.
  - inversion E; subst. simpl. rewrite H. constructor.
  - cbn [deriv]. destruct u as [|x u'].
    + simpl in E. subst v. simpl in H, H0. rewrite andb_false_r in H. rewrite andb_true_r in H0.
      pose proof (D_nil _ _ _ _ H eq_refl) as Hn. simpl in Hn. rewrite Hn.
      apply D_alt_r. pose proof (IHD2 c0 w0 eq_refl) as I2. simpl in I2. rewrite andb_true_r in I2. exact I2.
    + simpl in E. inversion E; subst.
      assert (D false l (cat (deriv f c0 a) b) (u' ++ v)) as Hc.
      { apply D_cat_smart. constructor; [apply (IHD1 c0 u' eq_refl)|]. simpl in H0. rewrite andb_false_r in H0. exact H0. }
      destruct (nullable_mid f a); [apply D_alt_l|]; exact Hc.
  - cbn [deriv]. apply D_alt_l. apply (IHD c0 w0 E).
  - cbn [deriv]. apply D_alt_r. apply (IHD c0 w0 E).
  - cbn [deriv]. destruct u as [|x u']; [congruence|]. simpl in E. inversion E; subst.
    apply D_cat_smart. constructor; [apply (IHD1 c0 u' eq_refl)|exact H1].
Qed.

Theorem D_complete : forall w f r, D f true r w -> matches_from f r w = true.
Proof.
  induction w as [|c w IH]; intros f r H.
  - exact (D_nil _ _ _ _ H eq_refl).
  - simpl. apply IH. eapply D_deriv; [exact H|reflexivity].
Qed.

(* ---- building derivations ---- *)

Fixpoint anchor_free (r : re) : bool :=
  match r with
  | Bol | Eol => false
  | Cat a b | Alt a b => anchor_free a && anchor_free b
  | Star a => anchor_free a
  | _ => true
  end.

Lemma D_flags : forall f l r w, D f l r w -> anchor_free r = true -> forall f' l', D f' l' r w.
Proof.
  intros f l r w H. induction H; intros A f' l'; simpl in A; try discriminate; try (constructor; assumption).
  - apply andb_true_iff in A. destruct A. constructor; auto.
  - apply andb_true_iff in A. destruct A. apply D_altl; auto.
  - apply andb_true_iff in A. destruct A. apply D_altr; auto.
  - constructor; auto.
Qed.

Lemma D_star_cls : forall rs w f l, Forall (fun c => in_cls c rs = true) w -> D f l (Star (Cls rs)) w.
Proof.
  intros rs w. induction w as [|c w IH]; intros f l F; [constructor|].
  inversion F; subst. change (c :: w) with ([c] ++ w). constructor; [discriminate|constructor; assumption|apply IH; assumption].
Qed.

Lemma D_cat' : forall f l a b u v w, w = u ++ v -> D f (l && isnil v) a u -> D (f && isnil u) l b v -> D f l (Cat a b) w.
Proof. intros; subst; constructor; assumption. Qed.

(* anchor-free pieces can be glued without looking at the flags *)
Lemma D_cat_af : forall a b u v, anchor_free a = true -> anchor_free b = true ->
  (forall f l, D f l a u) -> (forall f l, D f l b v) -> forall f l, D f l (Cat a b) (u ++ v).
Proof. intros. constructor; auto. Qed.

Lemma D_opt_some : forall a u, (forall f l, D f l a u) -> forall f l, D f l (Alt a Eps) u.
Proof. intros. apply D_altl; auto. Qed.
Lemma D_opt_none : forall a f l, D f l (Alt a Eps) [].
Proof. intros. apply D_altr; constructor. Qed.

(* ^ body $ *)
Lemma D_anchored : forall body w, (forall f l, D f l body w) -> D true true (Cat Bol (Cat body Eol)) w.
Proof.
  intros body w H. apply (D_cat' _ _ _ _ [] w); [reflexivity|constructor|].
  apply (D_cat' _ _ _ _ w []); [rewrite app_nil_r; reflexivity|apply H|constructor].
Qed.

(* ---- negative facts by a closed set of states ---- *)

Definition in_states (r : re) (S : list re) : bool := existsb (re_eqb r) S.

Definition closed_cert (S : list re) (alpha : list Z) : bool :=
  forallb (fun r => negb (nullable false r) && forallb (fun c => in_states (deriv false c r) S) alpha) S.

Lemma in_states_In : forall r S, in_states r S = true -> In r S.
Proof.
  intros r S H. unfold in_states in H. apply existsb_exists in H. destruct H as [x [Hx E]].
  apply re_eqb_eq in E. subst. assumption.
Qed.

Lemma closed_no_match : forall S alpha, closed_cert S alpha = true ->
  forall w r, Forall (fun c => In c alpha) w -> In r S -> matches_from false r w = false.
Proof.
  intros S alpha C. unfold closed_cert in C. rewrite forallb_forall in C.
  induction w as [|c w IH]; intros r F Hr.
  - simpl. specialize (C r Hr). apply andb_true_iff in C. destruct C as [C _]. destruct (nullable false r); [discriminate|reflexivity].
  - inversion F; subst. simpl. apply IH; [assumption|].
    specialize (C r Hr). apply andb_true_iff in C. destruct C as [_ C]. rewrite forallb_forall in C.
    apply in_states_In. apply C. assumption.
Qed.

(* the whole regex R (matching starts with first = true) on a non-empty word over alpha *)
Definition no_match_cert (R : re) (S : list re) (alpha : list Z) : bool :=
  negb (nullable true R) && forallb (fun c => in_states (deriv true c R) S) alpha && closed_cert S alpha.

Theorem no_match : forall R S alpha, no_match_cert R S alpha = true ->
  forall w, Forall (fun c => In c alpha) w -> re_match R w = false.
Proof.
  intros R S alpha C w F. unfold no_match_cert in C. apply andb_true_iff in C. destruct C as [C C3].
  apply andb_true_iff in C. destruct C as [C1 C2]. unfold re_match. destruct w as [|c w].
  - simpl. destruct (nullable true R); [discriminate|reflexivity].
  - inversion F; subst. simpl. apply (closed_no_match S alpha C3); [assumption|].
    rewrite forallb_forall in C2. apply in_states_In. apply C2. assumption.
Qed.

(* the states reachable from R over alpha, explored to a fixed depth (for building S by computation) *)
Definition add_state (r : re) (S : list re) : list re := if in_states r S then S else S ++ [r].
Definition step_states (alpha : list Z) (S : list re) : list re :=
  fold_left (fun acc r => fold_left (fun acc2 c => add_state (deriv false c r) acc2) alpha acc) S S.
Fixpoint explore (n : nat) (alpha : list Z) (S : list re) : list re :=
  match n with O => S | S n' => explore n' alpha (step_states alpha S) end.
Definition states_of (R : re) (alpha : list Z) (n : nat) : list re :=
  explore n alpha (fold_left (fun acc c => add_state (deriv true c R) acc) alpha []).

(* ---- a "killer" rune: after a prefix over the alphabet K every state dies on x ---- *)

Lemma matches_Empty' : forall s b, matches_from b Empty s = false.
Proof. induction s as [|c s IH]; intros b; [reflexivity|]. simpl. apply IH. Qed.

Definition kill_cert (R : re) (S : list re) (K xs : list Z) : bool :=
  forallb (fun c => in_states (deriv true c R) S) K &&
  forallb (fun x => re_eqb (deriv true x R) Empty) xs &&
  forallb (fun r => forallb (fun c => in_states (deriv false c r) S) K &&
                    forallb (fun x => re_eqb (deriv false x r) Empty) xs) S.

Theorem killed : forall R S K xs, kill_cert R S K xs = true ->
  forall pre x post, Forall (fun c => In c K) pre -> In x xs -> re_match R (pre ++ x :: post) = false.
Proof.
  intros R S K xs C pre x post F Hx. unfold kill_cert in C.
  apply andb_true_iff in C. destruct C as [C C3]. apply andb_true_iff in C. destruct C as [C1 C2].
  rewrite forallb_forall in C1, C2, C3.
  assert (forall pre r, Forall (fun c => In c K) pre -> In r S -> matches_from false r (pre ++ x :: post) = false) as Hgen.
  { induction pre0 as [|c p IH]; intros r Fp Hr.
    - simpl. specialize (C3 r Hr). apply andb_true_iff in C3. destruct C3 as [_ C3]. rewrite forallb_forall in C3.
      specialize (C3 x Hx). apply re_eqb_eq in C3. rewrite C3. apply matches_Empty'.
    - inversion Fp; subst. simpl. apply IH; [assumption|].
      specialize (C3 r Hr). apply andb_true_iff in C3. destruct C3 as [C3 _]. rewrite forallb_forall in C3.
      apply in_states_In. apply C3. assumption. }
  unfold re_match. destruct pre as [|c p].
  - simpl. specialize (C2 x Hx). apply re_eqb_eq in C2. rewrite C2. apply matches_Empty'.
  - inversion F; subst. simpl. apply Hgen; [assumption|]. apply in_states_In. apply C1. assumption.
Qed.
