(* C04 — proofs about Model/Resident.v: the loop stack is put back on every way out of the generator
   (rejections included), one EvalString refines the executable summary exec_fate, and after ANY history
   of texts — rejected by the parser, rejected by the generator at any nesting depth inside loops,
   failed at run time, or successful, in any order, the host never calling Clear() — the interpreter is
   quiet; after every successful one it is at rest in every resident structure. *)
From Coq Require Import List ZArith Bool Arith Lia.
Require Import ZV.Model.Bytecode ZV.Model.Verifier ZV.Proofs.VerifierProofs ZV.Model.Resident.
Import ListNotations.

(* ---------- induction over compile trees ---------- *)
Section Ind.
  Variable P : ctree -> Prop.
  Hypothesis Hleaf : forall ok, P (TLeaf ok).
  Hypothesis Hnode : forall subs, Forall P subs -> P (TNode subs).
  Hypothesis Hfor : forall lbl subs, Forall P subs -> P (TFor lbl subs).
  Hypothesis Hjump : forall lbl, P (TJump lbl).
  Fixpoint ctree_ind_nested (t : ctree) : P t :=
    match t with
    | TLeaf ok => Hleaf ok
    | TNode subs =>
      Hnode subs ((fix go (l : list ctree) : Forall P l :=
                     match l with [] => Forall_nil P | x :: r => Forall_cons x (ctree_ind_nested x) (go r) end) subs)
    | TFor lbl subs =>
      Hfor lbl subs ((fix go (l : list ctree) : Forall P l :=
                        match l with [] => Forall_nil P | x :: r => Forall_cons x (ctree_ind_nested x) (go r) end) subs)
    | TJump lbl => Hjump lbl
    end.
End Ind.

Lemma compile_node : forall subs ls, compile (TNode subs) ls = compile_list subs ls.
Proof. reflexivity. Qed.
Lemma compile_for : forall lbl subs ls,
  compile (TFor lbl subs) ls = let (ok, ls1) := compile_list subs (mkLoop lbl (length ls) :: ls) in (ok, tl ls1).
Proof. reflexivity. Qed.

Lemma compile_list_keeps : forall subs, Forall (fun t => forall ls, snd (compile t ls) = ls) subs ->
  forall ls, snd (compile_list subs ls) = ls.
Proof.
  induction subs as [|t r IH]; intros HP ls; [reflexivity|].
  inversion HP as [|? ? Ht Hr]; subst. simpl.
  pose proof (Ht ls) as E. destruct (compile t ls) as [ok ls1]. simpl in E. subst ls1.
  destruct ok; [now apply IH|reflexivity].
Qed.

(* GenerateForLoop's deferred Pop: whatever happens below — success or a rejection at any depth —
   the loop stack after compiling a form is the loop stack before it *)
Theorem compile_keeps_loops_lemma : forall t ls, snd (compile t ls) = ls.
Proof.
  induction t as [ok|subs IH|lbl subs IH|lbl] using ctree_ind_nested; intros ls.
  - reflexivity.
  - rewrite compile_node. now apply compile_list_keeps.
  - rewrite compile_for.
    pose proof (compile_list_keeps subs IH (mkLoop lbl (length ls) :: ls)) as E.
    destruct (compile_list subs (mkLoop lbl (length ls) :: ls)) as [ok ls1]. simpl in *. now subst ls1.
  - reflexivity.
Qed.

(* ---------- one EvalString, in detail ---------- *)

Definition chunk := (list instr * finfo * annot)%type.

Inductive fate :=
| FParse (res : pstate)
| FCompile (n : nat) (t : ctree)
| FRunErr (n : nat) (t : ctree) (ch : chunk) (fail : cstate)   (* fail: the stacks when the instruction failed *)
| FOk (n : nat) (t : ctree) (ch : chunk).

Definition class_of (f : fate) : fclass :=
  match f with
  | FParse r => KParse r
  | FCompile n t => KCompile n t
  | FRunErr n t _ fail => KRunErr n t (data fail)
  | FOk n t _ => KOk n t
  end.

(* environment.go: EvalString = LoadString (parser.ResetAddNewInput; ParseTokens; LoadExpressions:
   GenerateBegin, append to mainfunc) ; Run *)
Definition eval_text (f : fate) (s s' : istate) : Prop :=
  match f with
  | FParse res => s' = set_par s res
  | FCompile n t =>
    fst (compile t (i_loops s)) = false /\
    s' = set_loops (set_par s (p_parsed n (p_reset (i_par s)))) (snd (compile t (i_loops s)))
  | FRunErr n t ch fail =>
    fst (compile t (i_loops s)) = true /\
    s' = mkI (resize (length (i_data s)) (data fail)) (i_sc s) (i_ad s) (snd (compile t (i_loops s))) 0
             (p_parsed n (p_reset (i_par s)))
  | FOk n t ch =>
    fst (compile t (i_loops s)) = true /\
    exists c2, eval_chunk ch (cs_of (set_loops s (snd (compile t (i_loops s))))) c2 /\
      s' = mkI (data c2) (sc c2) (ad c2) (snd (compile t (i_loops s)))
               (length (fst (fst ch)) - pc c2) (p_parsed n (p_reset (i_par s)))
  end.

Inductive rhistory : list fate -> istate -> istate -> Prop :=
| rh_nil : forall s, rhistory [] s s
| rh_cons : forall f r s s1 s2, eval_text f s s1 -> rhistory r s1 s2 -> rhistory (f :: r) s s2.

Lemma quiet_inv : forall s, quiet s = true ->
  i_data s = [] /\ i_sc s = 1 /\ i_ad s = 0 /\ i_loops s = [] /\ i_pend s = 0.
Proof.
  intros s H. unfold quiet in H. repeat (apply andb_prop in H as [H ?]).
  destruct (i_data s); [|discriminate]. destruct (i_loops s); [|discriminate].
  repeat match goal with E : Nat.eqb _ _ = true |- _ => apply Nat.eqb_eq in E end. auto.
Qed.

Lemma resize_0 : forall l, resize 0 l = [].
Proof.
  intros l. unfold resize. simpl. rewrite Nat.sub_0_r. apply skipn_all.
Qed.

(* the detailed semantics of one EvalString on a quiet interpreter is the executable summary *)
Theorem eval_text_refines_lemma : forall f s s', quiet s = true -> eval_text f s s' ->
  exec_fate (class_of f) s = Some s'.
Proof.
  intros f s s' Hq He. destruct (quiet_inv s Hq) as (Hd & Hs & Ha & Hl & Hp).
  destruct f as [res|n t|n t ch fail|n t ch]; simpl in *.
  - now subst.
  - destruct He as [Hc ->]. destruct (compile t (i_loops s)) as [ok ls]. simpl in *. now subst ok.
  - destruct He as [Hc ->]. destruct (compile t (i_loops s)) as [ok ls]. simpl in *. now subst ok.
  - destruct He as [Hc (c2 & Hev & ->)].
    pose proof (compile_keeps_loops_lemma t (i_loops s)) as Hk.
    destruct (compile t (i_loops s)) as [ok ls]. simpl in *. subst ok ls.
    destruct ch as [[code fi] a]. destruct Hev as (Hchk & s1 & Hrun & Hend & ->). simpl in *.
    assert (R : at_rest (run_finish s1) = true).
    { eapply (toplevel_rest_lemma code fi a (mkc 0 (i_data s) (i_sc s) (i_ad s) (length (i_loops s))) s1);
        [exact Hchk| |reflexivity|exact Hrun|exact Hend].
      unfold at_rest. simpl. rewrite Hd, Hs, Ha, Hl. reflexivity. }
    unfold at_rest in R. destruct (data (run_finish s1)) eqn:Ed; [|discriminate].
    apply andb_prop in R as [R R3]. apply andb_prop in R as [R1 R2].
    apply Nat.eqb_eq in R1. apply Nat.eqb_eq in R2.
    assert (Hpc : pc (run_finish s1) = pc s1) by (unfold run_finish; destruct (data s1); reflexivity).
    rewrite Hpc, R1, R2, Hd, Hs, Ha. replace (length code - pc s1) with 0 by lia. reflexivity.
Qed.

(* ---------- the executable summary keeps the interpreter quiet ---------- *)

Lemma exec_fate_quiet : forall k s s', quiet s = true -> exec_fate k s = Some s' -> quiet s' = true.
Proof.
  intros k s s' Hq He. destruct (quiet_inv s Hq) as (Hd & Hs & Ha & Hl & Hp).
  destruct k as [res|n t|n t fd|n t]; simpl in He.
  - inversion He; subst. exact Hq.
  - pose proof (compile_keeps_loops_lemma t (i_loops s)) as Hk.
    destruct (compile t (i_loops s)) as [ok ls]. simpl in Hk. subst ls.
    destruct ok; [discriminate|]. inversion He; subst. unfold quiet in *. simpl. exact Hq.
  - pose proof (compile_keeps_loops_lemma t (i_loops s)) as Hk.
    destruct (compile t (i_loops s)) as [ok ls]. simpl in Hk. subst ls.
    destruct ok; [|discriminate]. inversion He; subst. unfold quiet. simpl.
    rewrite Hd. simpl. rewrite resize_0, Hs, Ha, Hl. reflexivity.
  - pose proof (compile_keeps_loops_lemma t (i_loops s)) as Hk.
    destruct (compile t (i_loops s)) as [ok ls]. simpl in Hk. subst ls.
    destruct ok; [|discriminate]. inversion He; subst. unfold quiet. simpl.
    rewrite Hd, Hs, Ha, Hl. reflexivity.
Qed.

Theorem exec_history_quiet_lemma : forall ks s s', quiet s = true -> exec_history ks s = Some s' -> quiet s' = true.
Proof.
  induction ks as [|k r IH]; intros s s' Hq He; simpl in He.
  - inversion He; subst. exact Hq.
  - destruct (exec_fate k s) as [s1|] eqn:E; [|discriminate].
    apply (IH s1 s'); [apply (exec_fate_quiet k s s1 Hq E)|exact He].
Qed.

(* after ANY history of texts (each rejected at whatever stage or successful) the four stacks are at
   rest, no loop record is left and nothing is pending *)
Theorem resident_history_lemma : forall fs s s', quiet s = true -> rhistory fs s s' -> quiet s' = true.
Proof.
  intros fs s s' Hq H. induction H as [s|f r s s1 s2 He _ IH]; [exact Hq|].
  apply IH. apply (exec_fate_quiet (class_of f) s s1 Hq). apply eval_text_refines_lemma; assumption.
Qed.

(* and after a successful evaluation at the end of any such history every resident structure is at
   rest: the parser holds no suspended parse even when earlier texts left one *)
Theorem rest_after_success_lemma : forall fs n t ch s s1 s',
  quiet s = true -> rhistory fs s s1 -> eval_text (FOk n t ch) s1 s' ->
  at_rest_all s' = true /\ p_exprs (i_par s') = n /\ at_rest (cs_of s') = true.
Proof.
  intros fs n t ch s s1 s' Hq Hh He.
  pose proof (resident_history_lemma _ _ _ Hq Hh) as Hq1.
  pose proof (eval_text_refines_lemma _ _ _ Hq1 He) as Hx.
  pose proof (exec_fate_quiet _ _ _ Hq1 Hx) as Hq2.
  simpl in Hx. destruct (compile t (i_loops s1)) as [ok ls]. destruct ok; [|discriminate].
  inversion Hx; subst s'. clear Hx.
  split; [|split].
  - unfold at_rest_all. rewrite Hq2. reflexivity.
  - reflexivity.
  - destruct (quiet_inv _ Hq2) as (Hd & Hs & Ha & Hl & Hp). simpl in *.
    unfold at_rest, cs_of. simpl. rewrite Hd, Hs, Ha, Hl. reflexivity.
Qed.

(* a text is accepted or rejected by the generator exactly as a new interpreter would accept or reject
   it, whatever the interpreter has been through: in particular (break) / (continue) outside a loop *)
Theorem accepts_as_new_lemma : forall fs s s' t, quiet s = true -> rhistory fs s s' ->
  compile t (i_loops s') = compile t (i_loops i_new).
Proof.
  intros fs s s' t Hq H. pose proof (resident_history_lemma _ _ _ Hq H) as Hq'.
  destruct (quiet_inv _ Hq') as (_ & _ & _ & Hl & _). now rewrite Hl.
Qed.

Theorem jump_outside_refused_lemma : forall fs s s' lbl, quiet s = true -> rhistory fs s s' ->
  fst (compile (TJump lbl) (i_loops s')) = false.
Proof.
  intros fs s s' lbl Hq H. rewrite (accepts_as_new_lemma fs s s' (TJump lbl) Hq H). reflexivity.
Qed.
