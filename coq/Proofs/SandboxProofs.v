(* C08: proofs about the capability semantics (Model/Sandbox.v) over the generated tables. *)
From Coq Require Import String List Bool.
Require Import ZV.Generated.SandboxTables ZV.Model.Sandbox.
Import ListNotations.
Open Scope string_scope.
Open Scope list_scope.

(* ---- induction principle for programs (nested lists) ---- *)
Section ProgInd.
  Variable P : prog -> Prop.
  Hypothesis HConst : P PConst.
  Hypothesis HRef : forall n, P (PRef n).
  Hypothesis HCall : forall f args, P f -> Forall P args -> P (PCall f args).
  Hypothesis HSpecial : forall n args, Forall P args -> P (PSpecial n args).
  Hypothesis HMacro : forall n args, Forall P args -> P (PMacro n args).
  Hypothesis HDef : forall n e, P e -> P (PDef n e).
  Hypothesis HSeq : forall es, Forall P es -> P (PSeq es).
  Hypothesis HEval : forall e, P e -> P (PEval e).

  Fixpoint prog_ind' (p : prog) : P p :=
    let fix all (l : list prog) : Forall P l :=
      match l with
      | [] => Forall_nil P
      | x :: xs => Forall_cons x (prog_ind' x) (all xs)
      end in
    match p with
    | PConst => HConst
    | PRef n => HRef n
    | PCall f args => HCall f args (prog_ind' f) (all args)
    | PSpecial n args => HSpecial n args (all args)
    | PMacro n args => HMacro n args (all args)
    | PDef n e => HDef n e (prog_ind' e)
    | PSeq es => HSeq es (all es)
    | PEval e => HEval e (prog_ind' e)
    end.
End ProgInd.

(* ---- inclusion lemmas ---- *)

Lemma incl_flat_map : forall (A : Type) (f : A -> list string) (l : list A) (C : list string),
  (forall a, In a l -> incl (f a) C) -> incl (flat_map f l) C.
Proof.
  intros A f l C H x Hx. apply in_flat_map in Hx. destruct Hx as [a [Ha Hxa]].
  exact (H a Ha x Hxa).
Qed.

Lemma fns_named_prim : forall n bs, incl (fns_named n bs) (prim_fns bs).
Proof.
  intros n bs x Hx. unfold fns_named in Hx. apply in_flat_map in Hx.
  destruct Hx as [[[n' k] f] [Hb Hx]].
  unfold prim_fns. apply in_flat_map. exists (n', k, f). split; [exact Hb|].
  destruct (String.eqb n n'); destruct (is_value k); simpl in *; tauto.
Qed.

Lemma specials_named_incl : forall n, incl (specials_named n) (map snd special_forms).
Proof.
  intros n x Hx. unfold specials_named in Hx. apply in_flat_map in Hx.
  destruct Hx as [s [Hs Hx]]. destruct (String.eqb n (fst s)); simpl in Hx; [|tauto].
  destruct Hx as [Hx|[]]. subst x. apply in_map. exact Hs.
Qed.

Lemma closure_bind : forall c, incl (prim_fns (bindings c)) (closure c).
Proof. intros c x Hx. unfold closure. apply in_or_app. left. exact Hx. Qed.

Lemma closure_special : forall c, incl (map snd special_forms) (closure c).
Proof. intros c x Hx. unfold closure. apply in_or_app. right. apply in_or_app. left. exact Hx. Qed.

Lemma closure_implicit : forall c, incl implicit_fns (closure c).
Proof.
  intros c x Hx. unfold closure. apply in_or_app. right. apply in_or_app. right.
  apply in_or_app. left. exact Hx.
Qed.

Lemma closure_vm : forall c, incl vm_core (closure c).
Proof.
  intros c x Hx. unfold closure. apply in_or_app. right. apply in_or_app. right.
  apply in_or_app. right. exact Hx.
Qed.

Lemma resolve_incl : forall c fuel n, incl (resolve c fuel n) (closure c).
Proof.
  intros c fuel. induction fuel as [|fuel IH]; intros n; simpl.
  - apply incl_app.
    + eapply incl_tran; [apply fns_named_prim | apply closure_bind].
    + rewrite app_nil_r. eapply incl_tran; [apply specials_named_incl | apply closure_special].
  - apply incl_app.
    + eapply incl_tran; [apply fns_named_prim | apply closure_bind].
    + apply incl_app.
      * eapply incl_tran; [apply specials_named_incl | apply closure_special].
      * destruct (assoc n (script_macros c)) as [ms|].
        -- apply incl_flat_map. intros m _. apply IH.
        -- intros x [].
Qed.

Local Arguments resolve : simpl never.
Local Arguments macro_fuel : simpl never.
Local Arguments implicit_fns : simpl never.
Local Arguments vm_core : simpl never.
Local Arguments closure : simpl never.

Definition env_ok (C : list string) (env : aenv) : Prop :=
  forall a, In a env -> incl (snd a) C.

Lemma lookup_alias_incl : forall C n env, env_ok C env -> incl (lookup_alias n env) C.
Proof.
  intros C n env H. unfold lookup_alias. apply incl_flat_map. intros a Ha.
  destruct (String.eqb n (fst a)); [exact (H a Ha) | intros x []].
Qed.

Definition res_ok (C : list string) (r : res) : Prop :=
  match r with (e, h, rr) => env_ok C e /\ incl h C /\ incl rr C end.

Lemma run_list_ok : forall C (f : aenv -> prog -> res) l,
  Forall (fun p => forall env, env_ok C env -> res_ok C (f env p)) l ->
  forall env, env_ok C env -> res_ok C (run_list f env l).
Proof.
  intros C f l H. induction H as [|x xs Hx Hxs IH]; intros env He; simpl.
  - repeat split; [exact He | intros y [] | intros y []].
  - specialize (Hx env He). destruct (f env x) as [[e1 h1] r1]. destruct Hx as [He1 [Hh1 Hr1]].
    specialize (IH e1 He1). destruct (run_list f e1 xs) as [[e2 h2] r2]. destruct IH as [He2 [Hh2 Hr2]].
    repeat split; [exact He2 | apply incl_app; assumption | apply incl_app; assumption].
Qed.

Local Opaque implicit_fns vm_core resolve closure.

Lemma run_ok : forall c p env, env_ok (closure c) env -> res_ok (closure c) (run c env p).
Proof.
  intros c p. induction p using prog_ind'; intros env He.
  - simpl. repeat split; [exact He | intros y [] | intros y []].
  - simpl. repeat split; [exact He | | intros y []].
    apply incl_app; [apply lookup_alias_incl; exact He | apply resolve_incl].
  - simpl. specialize (IHp env He). destruct (run c env p) as [[e1 hf] rf]. destruct IHp as [He1 [Hhf Hrf]].
    pose proof (run_list_ok (closure c) (run c) args H e1 He1) as HL.
    destruct (run_list (run c) e1 args) as [[e2 ha] ra]. destruct HL as [He2 [Hha Hra]].
    repeat split; [exact He2 | apply incl_app; assumption |].
    repeat apply incl_app; try assumption. apply closure_implicit.
  - simpl. pose proof (run_list_ok (closure c) (run c) args H env He) as HL.
    destruct (run_list (run c) env args) as [[e2 ha] ra]. destruct HL as [He2 [Hha Hra]].
    repeat split; [exact He2 | apply incl_app; [assumption | apply resolve_incl] |].
    repeat apply incl_app; try assumption. apply resolve_incl.
  - simpl. pose proof (run_list_ok (closure c) (run c) args H env He) as HL.
    destruct (run_list (run c) env args) as [[e2 ha] ra]. destruct HL as [He2 [Hha Hra]].
    repeat split; [exact He2 | apply incl_app; [assumption | apply resolve_incl] |].
    repeat apply incl_app; try assumption. apply resolve_incl.
  - simpl. specialize (IHp env He). destruct (run c env p) as [[e1 h] r]. destruct IHp as [He1 [Hh Hr]].
    repeat split; [| exact Hh | exact Hr].
    intros a [Ha|Ha]; [subst a; exact Hh | exact (He1 a Ha)].
  - simpl. exact (run_list_ok (closure c) (run c) es H env He).
  - simpl. specialize (IHp env He). destruct (run c env p) as [[e1 h] r]. destruct IHp as [He1 [Hh Hr]].
    repeat split; [exact He1 | exact Hh |].
    repeat apply incl_app; try assumption. apply resolve_incl.
Qed.

(* aliases, eval, apply, map, macros add nothing: whatever a program reaches is in the closure *)
Theorem capability_closed : forall c p, incl (prims_reached c p) (closure c).
Proof.
  intros c p. unfold prims_reached.
  assert (He : env_ok (closure c) []) by (intros a []).
  pose proof (run_ok c p [] He) as H. destruct (run c [] p) as [[e h] r]. destruct H as [_ [_ Hr]].
  apply incl_app; [exact Hr | apply closure_vm].
Qed.

Local Transparent implicit_fns vm_core resolve closure.

(* ---- purity of the generated tables (closed by vm_compute over the GENERATED file) ---- *)

Lemma tables_ok_bare : tables_ok Bare = true. Proof. vm_compute. reflexivity. Qed.
Lemma tables_ok_std : tables_ok Std = true. Proof. vm_compute. reflexivity. Qed.
Lemma tables_ok_bin : tables_ok Bin = true. Proof. vm_compute. reflexivity. Qed.

Lemma tables_ok_sandboxed : forall c : cfg, sandboxed c = true -> tables_ok c = true.
Proof.
  intros [] H; [exact tables_ok_bare | exact tables_ok_std | exact tables_ok_bin | vm_compute in H; discriminate H].
Qed.

Lemma pure_true : forall c f, pure c f = true -> effect_of c f = [].
Proof. intros c f. unfold pure. destruct (effect_of c f); [reflexivity | discriminate]. Qed.

Lemma tables_ok_parts : forall c, tables_ok c = true ->
  forallb (binding_pure c) (bindings c) = true /\ forallb (special_pure c) special_forms = true /\
  forallb (binding_pure c) implicit_prims = true /\ forallb (pure c) vm_core = true.
Proof.
  intros c H. unfold tables_ok in H.
  apply andb_prop in H. destruct H as [H1 H]. apply andb_prop in H. destruct H as [H2 H].
  apply andb_prop in H. destruct H as [H3 H4]. repeat split; assumption.
Qed.

Lemma binding_pure_spec : forall c n k f, binding_pure c (n, k, f) = true -> k <> KValue -> effect_of c f = [].
Proof.
  intros c n k f H Hk. simpl in H. apply orb_prop in H. destruct H as [H|H].
  - destruct k; simpl in H; try discriminate. exfalso. apply Hk. reflexivity.
  - apply pure_true. exact H.
Qed.

(* generic: any interpreter context whose tables pass tables_ok *)
Theorem ctx_tables_pure : forall (c : ctx) n k f, tables_ok c = true ->
  In (n, k, f) (bindings c) -> k <> KValue -> effect_of c f = [].
Proof.
  intros c n k f Hs Hin Hk.
  destruct (tables_ok_parts c Hs) as [H1 _].
  rewrite forallb_forall in H1. exact (binding_pure_spec c n k f (H1 _ Hin) Hk).
Qed.

Theorem ctx_special_forms_pure : forall (c : ctx) n f, tables_ok c = true ->
  In (n, f) special_forms -> effect_of c f = [].
Proof.
  intros c n f Hs Hin.
  destruct (tables_ok_parts c Hs) as [_ [H2 _]].
  rewrite forallb_forall in H2. apply pure_true. exact (H2 _ Hin).
Qed.

Lemma implicit_never_value : forall n k f, In (n, k, f) implicit_prims -> k <> KValue.
Proof.
  intros n k f Hin.
  assert (Hall : forallb (fun b => match b with (_, k, _) => negb (is_value k) end) implicit_prims = true)
    by (vm_compute; reflexivity).
  rewrite forallb_forall in Hall. specialize (Hall _ Hin). simpl in Hall.
  intros E. subst k. discriminate Hall.
Qed.

Theorem ctx_implicit_prims_pure : forall (c : ctx) n k f, tables_ok c = true -> In (n, k, f) implicit_prims -> effect_of c f = [].
Proof.
  intros c n k f Hs Hin.
  destruct (tables_ok_parts c Hs) as [_ [_ [H3 _]]].
  rewrite forallb_forall in H3. exact (binding_pure_spec c n k f (H3 _ Hin) (implicit_never_value n k f Hin)).
Qed.

Theorem ctx_vm_core_pure : forall (c : ctx) f, tables_ok c = true -> In f vm_core -> effect_of c f = [].
Proof.
  intros c f Hs Hin.
  destruct (tables_ok_parts c Hs) as [_ [_ [_ H4]]].
  rewrite forallb_forall in H4. apply pure_true. exact (H4 _ Hin).
Qed.

Lemma in_prim_fns : forall f bs, In f (prim_fns bs) -> exists n k, In (n, k, f) bs /\ is_value k = false.
Proof.
  intros f bs H. unfold prim_fns in H. apply in_flat_map in H. destruct H as [[[n k] f'] [Hb Hx]].
  destruct (is_value k) eqn:E; simpl in Hx; [tauto|]. destruct Hx as [Hx|[]]. subst f'.
  exists n, k. split; assumption.
Qed.

(* every primitive of the closure of a context with pure tables is effect-free *)
Theorem ctx_closure_pure : forall (c : ctx) f, tables_ok c = true -> In f (closure c) -> effect_of c f = [].
Proof.
  intros c f Hs Hin. unfold closure in Hin.
  apply in_app_or in Hin. destruct Hin as [Hin|Hin].
  - apply in_prim_fns in Hin. destruct Hin as [n [k [Hb Hk]]].
    apply (ctx_tables_pure c n k f Hs Hb). intros E. subst k. discriminate Hk.
  - apply in_app_or in Hin. destruct Hin as [Hin|Hin].
    + apply in_map_iff in Hin. destruct Hin as [[n f'] [Hf Hin]]. simpl in Hf. subst f'.
      exact (ctx_special_forms_pure c n f Hs Hin).
    + apply in_app_or in Hin. destruct Hin as [Hin|Hin].
      * unfold implicit_fns in Hin. apply in_prim_fns in Hin.
        destruct Hin as [n [k [Hb _]]]. exact (ctx_implicit_prims_pure c n k f Hs Hb).
      * exact (ctx_vm_core_pure c f Hs Hin).
Qed.

(* generic step: a run all of whose primitives are effect-free has no effect *)
Lemma no_effect_when_pure : forall (c : ctx) l, (forall f, In f l -> effect_of c f = []) -> effects_of c l = [].
Proof.
  intros c l. unfold effects_of. induction l as [|x xs IH]; intros Hl; simpl; [reflexivity|].
  rewrite (Hl x (or_introl eq_refl)). simpl. apply IH. intros f Hf. apply Hl. right. exact Hf.
Qed.

(* no program has any effect in ANY interpreter context whose tables are pure *)
Theorem ctx_no_effect : forall (c : ctx) p, tables_ok c = true -> effects_of c (run_abs c p) = [].
Proof.
  intros c p Hs. apply no_effect_when_pure. intros f Hf.
  apply (ctx_closure_pure c f Hs). exact (capability_closed c p f Hf).
Qed.

(* ---- the four fixed configurations ---- *)
Theorem sandbox_tables_pure : forall (c : cfg) n k f, sandboxed c = true ->
  In (n, k, f) (bindings c) -> k <> KValue -> effect_of c f = [].
Proof. intros c n k f Hs. exact (ctx_tables_pure c n k f (tables_ok_sandboxed c Hs)). Qed.

Theorem special_forms_pure : forall (c : cfg) n f, sandboxed c = true ->
  In (n, f) special_forms -> effect_of c f = [].
Proof. intros c n f Hs. exact (ctx_special_forms_pure c n f (tables_ok_sandboxed c Hs)). Qed.

Theorem implicit_prims_pure : forall (c : cfg) n k f, sandboxed c = true -> In (n, k, f) implicit_prims -> effect_of c f = [].
Proof. intros c n k f Hs. exact (ctx_implicit_prims_pure c n k f (tables_ok_sandboxed c Hs)). Qed.

Theorem vm_core_pure : forall (c : cfg) f, sandboxed c = true -> In f vm_core -> effect_of c f = [].
Proof. intros c f Hs. exact (ctx_vm_core_pure c f (tables_ok_sandboxed c Hs)). Qed.

Theorem closure_pure : forall (c : cfg) f, sandboxed c = true -> In f (closure c) -> effect_of c f = [].
Proof. intros c f Hs. exact (ctx_closure_pure c f (tables_ok_sandboxed c Hs)). Qed.

(* THE PROPERTY: in a sandboxed configuration no program has any effect. *)
Theorem sandbox_no_effect : forall (c : cfg) p, sandboxed c = true -> effects_of c (run_abs c p) = [].
Proof. intros c p Hs. exact (ctx_no_effect c p (tables_ok_sandboxed c Hs)). Qed.

(* the executable filter the check prints from finds nothing *)
Lemma impure_entries_none : forall c : cfg, sandboxed c = true -> impure_entries c = [].
Proof. intros [] H; try (vm_compute in H; discriminate H); vm_compute; reflexivity. Qed.
