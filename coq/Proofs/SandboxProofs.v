(* C08: proofs about the capability semantics (Model/Sandbox.v) over the generated tables. *)
From Coq Require Import String List Bool.
Require Import ZV.Generated.SandboxTables ZV.Model.Sandbox.
Import ListNotations.
Open Scope string_scope.
Open Scope list_scope.

(* ---- induction principle for programs (nested lists) ---- *)
Section ProgInd.
  Variable P : prog -> Prop.
  Hypothesis HConst : P PConst.
  Hypothesis HRef : forall n, P (PRef n).
  Hypothesis HCall : forall f args, P f -> Forall P args -> P (PCall f args).
  Hypothesis HSpecial : forall n args, Forall P args -> P (PSpecial n args).
  Hypothesis HMacro : forall n args, Forall P args -> P (PMacro n args).
  Hypothesis HDef : forall n e, P e -> P (PDef n e).
  Hypothesis HSeq : forall es, Forall P es -> P (PSeq es).
  Hypothesis HEval : forall e, P e -> P (PEval e).

  Fixpoint prog_ind' (p : prog) : P p :=
    let fix all (l : list prog) : Forall P l :=
      match l with
      | [] => Forall_nil P
      | x :: xs => Forall_cons x (prog_ind' x) (all xs)
      end in
    match p with
    | PConst => HConst
    | PRef n => HRef n
    | PCall f args => HCall f args (prog_ind' f) (all args)
    | PSpecial n args => HSpecial n args (all args)
    | PMacro n args => HMacro n args (all args)
    | PDef n e => HDef n e (prog_ind' e)
    | PSeq es => HSeq es (all es)
    | PEval e => HEval e (prog_ind' e)
    end.
End ProgInd.

(* ---- inclusion lemmas ---- *)

Lemma incl_flat_map : forall (A : Type) (f : A -> list string) (l : list A) (C : list string),
  (forall a, In a l -> incl (f a) C) -> incl (flat_map f l) C.
Proof.
  intros A f l C H x Hx. apply in_flat_map in Hx. destruct Hx as [a [Ha Hxa]].
  exact (H a Ha x Hxa).
Qed.

Lemma fns_named_prim : forall n bs, incl (fns_named n bs) (prim_fns bs).
Proof.
  intros n bs x Hx. unfold fns_named in Hx. apply in_flat_map in Hx.
  destruct Hx as [[[n' k] f] [Hb Hx]].
  unfold prim_fns. apply in_flat_map. exists (n', k, f). split; [exact Hb|].
  destruct (String.eqb n n'); destruct (is_value k); simpl in *; tauto.
Qed.

Lemma specials_named_incl : forall n, incl (specials_named n) (map snd special_forms).
Proof.
  intros n x Hx. unfold specials_named in Hx. apply in_flat_map in Hx.
  destruct Hx as [s [Hs Hx]]. destruct (String.eqb n (fst s)); simpl in Hx; [|tauto].
  destruct Hx as [Hx|[]]. subst x. apply in_map. exact Hs.
Qed.

Lemma closure_bind : forall c, incl (prim_fns (bindings c)) (closure c).
Proof. intros c x Hx. unfold closure. apply in_or_app. left. exact Hx. Qed.

Lemma closure_special : forall c, incl (map snd special_forms) (closure c).
Proof. intros c x Hx. unfold closure. apply in_or_app. right. apply in_or_app. left. exact Hx. Qed.

Lemma closure_implicit : forall c, incl implicit_fns (closure c).
Proof.
  intros c x Hx. unfold closure. apply in_or_app. right. apply in_or_app. right.
  apply in_or_app. left. exact Hx.
Qed.

Lemma closure_vm : forall c, incl vm_core (closure c).
Proof.
  intros c x Hx. unfold closure. apply in_or_app. right. apply in_or_app. right.
  apply in_or_app. right. exact Hx.
Qed.

Lemma resolve_incl : forall c fuel n, incl (resolve c fuel n) (closure c).
Proof.
  intros c fuel. induction fuel as [|fuel IH]; intros n; simpl.
  - apply incl_app.
    + eapply incl_tran; [apply fns_named_prim | apply closure_bind].
    + rewrite app_nil_r. eapply incl_tran; [apply specials_named_incl | apply closure_special].
  - apply incl_app.
    + eapply incl_tran; [apply fns_named_prim | apply closure_bind].
    + apply incl_app.
      * eapply incl_tran; [apply specials_named_incl | apply closure_special].
      * destruct (assoc n (script_macros c)) as [ms|].
        -- apply incl_flat_map. intros m _. apply IH.
        -- intros x [].
Qed.

Local Arguments resolve : simpl never.
Local Arguments macro_fuel : simpl never.
Local Arguments implicit_fns : simpl never.
Local Arguments vm_core : simpl never.
Local Arguments closure : simpl never.

Definition env_ok (C : list string) (env : aenv) : Prop :=
  forall a, In a env -> incl (snd a) C.

Lemma lookup_alias_incl : forall C n env, env_ok C env -> incl (lookup_alias n env) C.
Proof.
  intros C n env H. unfold lookup_alias. apply incl_flat_map. intros a Ha.
  destruct (String.eqb n (fst a)); [exact (H a Ha) | intros x []].
Qed.

Definition res_ok (C : list string) (r : res) : Prop :=
  match r with (e, h, rr) => env_ok C e /\ incl h C /\ incl rr C end.

Lemma run_list_ok : forall C (f : aenv -> prog -> res) l,
  Forall (fun p => forall env, env_ok C env -> res_ok C (f env p)) l ->
  forall env, env_ok C env -> res_ok C (run_list f env l).
Proof.
  intros C f l H. induction H as [|x xs Hx Hxs IH]; intros env He; simpl.
  - repeat split; [exact He | intros y [] | intros y []].
  - specialize (Hx env He). destruct (f env x) as [[e1 h1] r1]. destruct Hx as [He1 [Hh1 Hr1]].
    specialize (IH e1 He1). destruct (run_list f e1 xs) as [[e2 h2] r2]. destruct IH as [He2 [Hh2 Hr2]].
    repeat split; [exact He2 | apply incl_app; assumption | apply incl_app; assumption].
Qed.

Local Opaque implicit_fns vm_core resolve closure.

Lemma run_ok : forall c p env, env_ok (closure c) env -> res_ok (closure c) (run c env p).
Proof.
  intros c p. induction p using prog_ind'; intros env He.
  - simpl. repeat split; [exact He | intros y [] | intros y []].
  - simpl. repeat split; [exact He | | intros y []].
    apply incl_app; [apply lookup_alias_incl; exact He | apply resolve_incl].
  - simpl. specialize (IHp env He). destruct (run c env p) as [[e1 hf] rf]. destruct IHp as [He1 [Hhf Hrf]].
    pose proof (run_list_ok (closure c) (run c) args H e1 He1) as HL.
    destruct (run_list (run c) e1 args) as [[e2 ha] ra]. destruct HL as [He2 [Hha Hra]].
    repeat split; [exact He2 | apply incl_app; assumption |].
    repeat apply incl_app; try assumption. apply closure_implicit.
  - simpl. pose proof (run_list_ok (closure c) (run c) args H env He) as HL.
    destruct (run_list (run c) env args) as [[e2 ha] ra]. destruct HL as [He2 [Hha Hra]].
    repeat split; [exact He2 | apply incl_app; [assumption | apply resolve_incl] |].
    repeat apply incl_app; try assumption. apply resolve_incl.
  - simpl. pose proof (run_list_ok (closure c) (run c) args H env He) as HL.
    destruct (run_list (run c) env args) as [[e2 ha] ra]. destruct HL as [He2 [Hha Hra]].
    repeat split; [exact He2 | apply incl_app; [assumption | apply resolve_incl] |].
    repeat apply incl_app; try assumption. apply resolve_incl.
  - simpl. specialize (IHp env He). destruct (run c env p) as [[e1 h] r]. destruct IHp as [He1 [Hh Hr]].
    repeat split; [| exact Hh | exact Hr].
    intros a [Ha|Ha]; [subst a; exact Hh | exact (He1 a Ha)].
  - simpl. exact (run_list_ok (closure c) (run c) es H env He).
  - simpl. specialize (IHp env He). destruct (run c env p) as [[e1 h] r]. destruct IHp as [He1 [Hh Hr]].
    repeat split; [exact He1 | exact Hh |].
    repeat apply incl_app; try assumption. apply resolve_incl.
Qed.

(* aliases, eval, apply, map, macros add nothing: whatever a program reaches is in the closure *)
Theorem capability_closed : forall c p, incl (prims_reached c p) (closure c).
Proof.
  intros c p. unfold prims_reached.
  assert (He : env_ok (closure c) []) by (intros a []).
  pose proof (run_ok c p [] He) as H. destruct (run c [] p) as [[e h] r]. destruct H as [_ [_ Hr]].
  apply incl_app; [exact Hr | apply closure_vm].
Qed.

Local Transparent implicit_fns vm_core resolve closure.

(* ---- purity of the generated tables, except the explicit known leaks ---- *)

Lemma tables_ok_bare : tables_ok Bare = true. Proof. vm_compute. reflexivity. Qed.
Lemma tables_ok_std : tables_ok Std = true. Proof. vm_compute. reflexivity. Qed.
Lemma tables_ok_bin : tables_ok Bin = true. Proof. vm_compute. reflexivity. Qed.

Lemma tables_ok_sandboxed : forall c, sandboxed c = true -> tables_ok c = true.
Proof.
  intros [] H; [exact tables_ok_bare | exact tables_ok_std | exact tables_ok_bin | discriminate H].
Qed.

Lemma pure_true : forall c f, pure c f = true -> effect_of c f = [].
Proof. intros c f. unfold pure. destruct (effect_of c f); [reflexivity | discriminate]. Qed.

Lemma mem_In : forall s l, mem s l = true -> In s l.
Proof.
  intros s l H. unfold mem in H. apply existsb_exists in H. destruct H as [x [Hx He]].
  apply String.eqb_eq in He. subst x. exact Hx.
Qed.

Lemma tables_ok_parts : forall c, tables_ok c = true ->
  forallb (binding_ok c) (bindings c) = true /\ forallb (special_ok c) special_forms = true /\
  forallb (binding_pure c) implicit_prims = true /\ forallb (pure c) vm_core = true.
Proof.
  intros c H. unfold tables_ok in H.
  apply andb_prop in H. destruct H as [H1 H]. apply andb_prop in H. destruct H as [H2 H].
  apply andb_prop in H. destruct H as [H3 H4]. repeat split; assumption.
Qed.

Theorem sandbox_tables_pure_except : forall c n k f, sandboxed c = true ->
  In (n, k, f) (bindings c) -> k <> KValue -> effect_of c f <> [] -> In n (known_leak_bindings c).
Proof.
  intros c n k f Hs Hin Hk He.
  destruct (tables_ok_parts c (tables_ok_sandboxed c Hs)) as [H1 _].
  rewrite forallb_forall in H1. specialize (H1 _ Hin). simpl in H1.
  apply orb_prop in H1. destruct H1 as [H1|H1].
  - destruct k; simpl in H1; try discriminate. exfalso. apply Hk. reflexivity.
  - apply orb_prop in H1. destruct H1 as [H1|H1].
    + exfalso. apply He. apply pure_true. exact H1.
    + apply mem_In. exact H1.
Qed.

Theorem special_forms_pure_except : forall c n f, sandboxed c = true ->
  In (n, f) special_forms -> effect_of c f <> [] -> In n known_leak_specials.
Proof.
  intros c n f Hs Hin He.
  destruct (tables_ok_parts c (tables_ok_sandboxed c Hs)) as [_ [H2 _]].
  rewrite forallb_forall in H2. specialize (H2 _ Hin). unfold special_ok in H2. simpl in H2.
  apply orb_prop in H2. destruct H2 as [H2|H2].
  - exfalso. apply He. apply pure_true. exact H2.
  - apply mem_In. exact H2.
Qed.

Theorem implicit_prims_pure : forall c n k f, sandboxed c = true -> In (n, k, f) implicit_prims -> effect_of c f = [].
Proof.
  intros c n k f Hs Hin.
  destruct (tables_ok_parts c (tables_ok_sandboxed c Hs)) as [_ [_ [H3 _]]].
  rewrite forallb_forall in H3. specialize (H3 _ Hin). simpl in H3.
  apply orb_prop in H3. destruct H3 as [H3|H3].
  - (* implicit entries are never values *)
    assert (Hall : forallb (fun b => match b with (_, k, _) => negb (is_value k) end) implicit_prims = true)
      by (vm_compute; reflexivity).
    rewrite forallb_forall in Hall. specialize (Hall _ Hin). simpl in Hall.
    rewrite H3 in Hall. discriminate.
  - apply pure_true. exact H3.
Qed.

Theorem vm_core_pure : forall c f, sandboxed c = true -> In f vm_core -> effect_of c f = [].
Proof.
  intros c f Hs Hin.
  destruct (tables_ok_parts c (tables_ok_sandboxed c Hs)) as [_ [_ [_ H4]]].
  rewrite forallb_forall in H4. apply pure_true. exact (H4 _ Hin).
Qed.

Lemma in_prim_fns : forall f bs, In f (prim_fns bs) -> exists n k, In (n, k, f) bs /\ is_value k = false.
Proof.
  intros f bs H. unfold prim_fns in H. apply in_flat_map in H. destruct H as [[[n k] f'] [Hb Hx]].
  destruct (is_value k) eqn:E; simpl in Hx; [tauto|]. destruct Hx as [Hx|[]]. subst f'.
  exists n, k. split; assumption.
Qed.

Lemma in_fns_named : forall n k f bs, In (n, k, f) bs -> is_value k = false -> In f (fns_named n bs).
Proof.
  intros n k f bs Hin Hk. unfold fns_named. apply in_flat_map. exists (n, k, f). split; [exact Hin|].
  rewrite String.eqb_refl, Hk. simpl. left. reflexivity.
Qed.

Lemma closure_pure_except : forall c f, sandboxed c = true ->
  In f (closure c) -> effect_of c f <> [] -> In f (leak_fns c).
Proof.
  intros c f Hs Hin He. unfold closure in Hin.
  apply in_app_or in Hin. destruct Hin as [Hin|Hin].
  - apply in_prim_fns in Hin. destruct Hin as [n [k [Hb Hk]]].
    assert (Hn : In n (known_leak_bindings c)).
    { apply (sandbox_tables_pure_except c n k f Hs Hb); [|exact He]. intros E. subst k. discriminate Hk. }
    unfold leak_fns. apply in_or_app. left. apply in_flat_map. exists n. split; [exact Hn|].
    exact (in_fns_named n k f _ Hb Hk).
  - apply in_app_or in Hin. destruct Hin as [Hin|Hin].
    + apply in_map_iff in Hin. destruct Hin as [[n f'] [Hf Hin]]. simpl in Hf. subst f'.
      pose proof (special_forms_pure_except c n f Hs Hin He) as Hn.
      unfold leak_fns. apply in_or_app. right. apply in_flat_map. exists n. split; [exact Hn|].
      unfold specials_named. apply in_flat_map. exists (n, f). split; [exact Hin|].
      simpl. rewrite String.eqb_refl. left. reflexivity.
    + apply in_app_or in Hin. destruct Hin as [Hin|Hin].
      * exfalso. apply He. unfold implicit_fns in Hin. apply in_prim_fns in Hin.
        destruct Hin as [n [k [Hb _]]]. exact (implicit_prims_pure c n k f Hs Hb).
      * exfalso. apply He. exact (vm_core_pure c f Hs Hin).
Qed.

(* Whatever effectful primitive a program reaches in a sandboxed configuration is one of the known leaks. *)
Theorem sandbox_no_effect_except : forall c p f, sandboxed c = true ->
  In f (run_abs c p) -> effect_of c f <> [] -> In f (leak_fns c).
Proof.
  intros c p f Hs Hin He. apply (closure_pure_except c f Hs); [|exact He].
  exact (capability_closed c p f Hin).
Qed.

Lemma effect_dec : forall c f, {effect_of c f = []} + {effect_of c f <> []}.
Proof. intros c f. destruct (effect_of c f); [left; reflexivity | right; discriminate]. Qed.

(* A program that avoids the known leaks has no effect at all. *)
Theorem sandbox_no_effect : forall c p, sandboxed c = true ->
  (forall f, In f (leak_fns c) -> ~ In f (run_abs c p)) -> effects_of c (run_abs c p) = [].
Proof.
  intros c p Hs Havoid. unfold effects_of.
  assert (H : forall l, (forall f, In f l -> effect_of c f = []) -> flat_map (effect_of c) l = []).
  { induction l as [|x xs IH]; intros Hl; simpl; [reflexivity|].
    rewrite (Hl x (or_introl eq_refl)). simpl. apply IH. intros f Hf. apply Hl. right. exact Hf. }
  apply H. intros f Hf. destruct (effect_dec c f) as [E|E]; [exact E|].
  exfalso. exact (Havoid f (sandbox_no_effect_except c p f Hs Hf E) Hf).
Qed.

(* When a configuration has no known leak left and its tables are pure, no program has any effect. *)
Theorem sandbox_no_effect_when_pure : forall c p, sandboxed c = true ->
  leak_fns c = [] -> effects_of c (run_abs c p) = [].
Proof.
  intros c p Hs Hl. apply (sandbox_no_effect c p Hs). intros f Hf. rewrite Hl in Hf. destruct Hf.
Qed.

(* every entry reported impure by the executable filter is a known leak (what the check prints) *)
Lemma impure_entries_known_bare :
  forallb (fun e => match e with (t, n, _) => orb (andb (String.eqb t "binding") (mem n (known_leak_bindings Bare)))
                                                  (andb (String.eqb t "special") (mem n known_leak_specials)) end)
          (impure_entries Bare) = true.
Proof. vm_compute. reflexivity. Qed.
