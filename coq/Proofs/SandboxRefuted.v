(* C08: witnesses refuting the full purity statements on the current source (see Properties/C08Refuted.v). *)
From Coq Require Import String List Bool.
Require Import ZV.Generated.SandboxTables ZV.Model.Sandbox.
Import ListNotations.
Open Scope string_scope.
Open Scope list_scope.

Fixpoint find_binding (n : string) (bs : list (string * bkind * string)) : option (bkind * string) :=
  match bs with
  | [] => None
  | (n', k, f) :: r => if andb (String.eqb n n') (negb (is_value k)) then Some (k, f) else find_binding n r
  end.

Lemma find_binding_In : forall n bs k f, find_binding n bs = Some (k, f) -> In (n, k, f) bs /\ k <> KValue.
Proof.
  intros n bs. induction bs as [|[[n' k'] f'] r IH]; intros k f H; simpl in H; [discriminate|].
  destruct (String.eqb n n') eqn:E; simpl in H.
  - destruct (is_value k') eqn:V; simpl in H.
    + destruct (IH k f H) as [H1 H2]. split; [right; exact H1 | exact H2].
    + inversion H; subst. apply String.eqb_eq in E. subst n'. split; [left; reflexivity|].
      intros Hk. subst k. discriminate V.
  - destruct (IH k f H) as [H1 H2]. split; [right; exact H1 | exact H2].
Qed.

Lemma assoc_In : forall (n : string) (l : list (string * string)) f, assoc n l = Some f -> In (n, f) l.
Proof.
  intros n l. induction l as [|[n' f'] r IH]; intros f H; simpl in H; [discriminate|].
  destruct (String.eqb n n') eqn:E.
  - inversion H; subst. apply String.eqb_eq in E. subst n'. left. reflexivity.
  - right. exact (IH f H).
Qed.

Theorem special_forms_pure_refuted : exists n f, In (n, f) special_forms /\ effect_of Bare f <> [].
Proof.
  exists "include", "special:include". split.
  - apply assoc_In. vm_compute. reflexivity.
  - vm_compute. discriminate.
Qed.

Theorem sandbox_tables_pure_refuted_sys : exists n k f,
  In (n, k, f) (bindings Std) /\ k <> KValue /\ effect_of Std f = [Eprocess].
Proof.
  exists "sys", KBuilder, "SystemBuilder".
  assert (H : find_binding "sys" (bindings Std) = Some (KBuilder, "SystemBuilder")) by (vm_compute; reflexivity).
  destruct (find_binding_In _ _ _ _ H) as [H1 H2]. split; [exact H1|]. split; [exact H2|]. vm_compute. reflexivity.
Qed.

Theorem sandbox_tables_pure_refuted_import : exists n k f,
  In (n, k, f) (bindings Std) /\ k <> KValue /\ effect_of Std f = [Efileread].
Proof.
  exists "import", KBuilder, "ImportPackageBuilder".
  assert (H : find_binding "import" (bindings Std) = Some (KBuilder, "ImportPackageBuilder")) by (vm_compute; reflexivity).
  destruct (find_binding_In _ _ _ _ H) as [H1 H2]. split; [exact H1|]. split; [exact H2|]. vm_compute. reflexivity.
Qed.

Theorem sandbox_no_effect_refuted : exists c p, sandboxed c = true /\ effects_of c (run_abs c p) <> [].
Proof. exists Bare, (PSpecial "include" [PConst]). split; [reflexivity | vm_compute; discriminate]. Qed.
