(* The rune scanner [unfinished] of Model/Reader.v and the token scanner of Model/TokScan.v agree:
   a simulation between scan_step and lex_rune. *)
From Coq Require Import ZArith List Bool Lia.
From ZV Require Import Model.Regex Generated.LexTables Model.Lexer Model.Reader Model.TokScan Proofs.LexerProofs.
Import ListNotations.
Open Scope Z_scope.

Local Opaque re_match.

Definition plain_tok (t : token) : Prop :=
  forall d p sg, tstep (d, WFree, p, sg) t = Some (d, WFree, false, is_sign t).

Lemma decode_atom_plain : forall a t, decode_atom a = Some t -> plain_tok t.
Proof.
  intros a t. unfold decode_atom.
  set (atom := if last_rune a =? 58 then removelast a else a).
  repeat match goal with
         | |- context [if ?c then _ else _] => destruct c
         end;
    try (intros H; inversion H; subst; intros d p sg; reflexivity); try discriminate.
  destruct (decode_char atom); intros H; inversion H; subst; intros d p sg; reflexivity.
Qed.

Lemma trun_app : forall l1 l2 st, trun st (l1 ++ l2) = match trun st l1 with Some st' => trun st' l2 | None => None end.
Proof. induction l1 as [|t r IH]; intros l2 st; simpl; [reflexivity|]. destruct (tstep st t); [apply IH|reflexivity]. Qed.

Definition TR (s : lstate) (st : tstate) : Prop := trun st0 (l_tokens s) = Some st.

Lemma tr_append : forall s st t st', TR s st -> tstep st t = Some st' -> TR (append_token t s) st'.
Proof. intros s st t st' H W. unfold TR in *. destruct s; simpl in *. rewrite trun_app, H. simpl. rewrite W. reflexivity. Qed.

Definition opchars : list Z := [43; 45; 42; 60; 62; 61; 33; 38; 124; 47].

(* the relation between the rune scanner and the lexer *)
Definition Rel (sc : sstate) (s : lstate) : Prop :=
  let '(m, d, p) := sc in
  exists a p' sg, TR s (d, a, p', sg) /\
  match l_state s with
  | LNormal => m = MCode /\ a = WFree /\ (match l_buffer s with [] => p = p' | _ => p = false end)
  | LBuiltinOperator => m = MCode /\ a = WFree /\ p = false /\ l_buffer s = [] /\ In (l_prevrune s) opchars
  | LFreshAssignOrColon => m = MCode /\ a = WFree /\ p = false
  | LUnquote => m = MTilde /\ a = WFree /\ l_buffer s = []
  | LFirstFwdSlash => m = MSlash /\ a = WFree /\ (match l_buffer s with [] => p = p' | _ => p = false end)
  | LCommentLine => m = MLine /\ a = WFree /\ p = p'
  | LCommentBlock => m = MBlock /\ a = WBlock /\ p = p'
  | LCommentBlockAsterisk => m = MBlockStar /\ a = WBlock /\ p = p'
  | LBacktickString => m = MRaw /\ a = WRaw
  | LStrLit => m = MStr /\ a = WFree
  | LStrEscaped => m = MStrEsc /\ a = WFree
  | LRuneLit => m = MRune /\ a = WFree
  | LRuneEscaped => m = MRuneEsc /\ a = WFree
  end.

Ltac ds s := destruct s as [st pr tk bf pt ppt pb ln pi rg].

Lemma dump_tr : forall s s' d p' sg, dump_buffer s = Some s' -> TR s (d, WFree, p', sg) ->
  l_buffer s' = [] /\ l_state s' = l_state s /\ l_prevrune s' = l_prevrune s /\
  exists p2 sg2, TR s' (d, WFree, p2, sg2) /\ (match l_buffer s with [] => p2 = p' | _ => p2 = false end).
Proof.
  intros s s' d p' sg D H. unfold dump_buffer in D. destruct (l_buffer s) eqn:B.
  - inversion D; subst. repeat split; try assumption. exists p', sg. split; [exact H|reflexivity].
  - destruct (decode_atom (z :: l)) as [t|] eqn:E; [|discriminate]. inversion D; subst.
    split; [ds s; reflexivity|]. split; [ds s; reflexivity|]. split; [ds s; reflexivity|].
    exists false, (is_sign t). split; [|reflexivity].
    eapply tr_append; [|apply (decode_atom_plain _ _ E)]. ds s; exact H.
Qed.

Ltac inv_ok H := inversion H; subst; clear H.

Lemma rel_normal_intro : forall s d p p2 sg2 m,
  l_state s = LNormal -> TR s (d, WFree, p2, sg2) ->
  (match l_buffer s with [] => p = p2 | _ => p = false end) -> m = MCode -> Rel (m, d, p) s.
Proof. intros s d p p2 sg2 m Hs Ht Hp Hm. subst m. unfold Rel. exists WFree, p2, sg2. split; [exact Ht|]. rewrite Hs. auto. Qed.

Lemma sim_normal : forall s r s' d p p' sg,
  l_state s = LNormal -> TR s (d, WFree, p', sg) ->
  (match l_buffer s with [] => p = p' | _ => p = false end) ->
  lex_normal s r = LOk s' -> Rel (scan_code d p r) s'.
Proof.
  intros s r s' d p p' sg Hst Htr Hp H.
  (* the runes the scanner singles out *)
  destruct (Z.eq_dec r 34) as [->|N34].
  { unfold lex_normal in H; simpl in H. destruct (l_buffer s); [|discriminate]. inv_ok H.
    unfold scan_code; simpl. exists WFree, p', sg. split; [ds s; exact Htr|]. ds s; simpl. auto. }
  destruct (Z.eq_dec r 96) as [->|N96].
  { unfold lex_normal in H; simpl in H. destruct (l_buffer s); [|discriminate]. inv_ok H.
    unfold scan_code; simpl. exists WRaw, false, false. split.
    - eapply tr_append; [ds s; exact Htr|reflexivity].
    - ds s; simpl. auto. }
  destruct (Z.eq_dec r 39) as [->|N39].
  { unfold lex_normal in H; simpl in H. destruct (l_buffer s); [|discriminate]. inv_ok H.
    unfold scan_code; simpl. exists WFree, p', sg. split; [ds s; exact Htr|]. ds s; simpl. auto. }
  destruct (Z.eq_dec r 47) as [->|N47].
  { unfold lex_normal in H; simpl in H. inv_ok H.
    unfold scan_code; simpl. exists WFree, p', sg. split; [ds s; exact Htr|]. ds s; simpl in *. auto. }
  assert (forall c tok dd, r = c -> decode_brace c = tok -> tstep (d, WFree, false, false) tok = Some (dd, WFree, false, false) ->
          with_dump s (fun s1 => LOk (append_token (decode_brace r) s1)) = LOk s' ->
          Rel (MCode, dd, false) s') as Hbrace.
  { intros c tok dd -> Hc Hts Hw. unfold with_dump in Hw. destruct (dump_buffer s) as [s1|] eqn:D; [|discriminate]. inv_ok Hw.
    destruct (dump_tr _ _ _ _ _ D Htr) as (B1 & B2 & _ & p2 & sg2 & T2 & _).
    eapply (rel_normal_intro _ dd false false false); [ds s1; simpl in *; congruence| | |reflexivity].
    - eapply tr_append; [exact T2|]. revert Hts. unfold tstep, decode_brace.
      repeat match goal with |- context [if ?x then _ else _] => destruct x end; simpl;
        intros Hts; inversion Hts; subst; reflexivity.
    - ds s1; simpl in *; subst. reflexivity. }
  destruct (Z.eq_dec r 40) as [E|N40]; [subst r; replace (scan_code d p 40) with (MCode, d + 1, false) by reflexivity; apply (Hbrace 40 _ (d + 1) eq_refl eq_refl eq_refl H)|].
  destruct (Z.eq_dec r 91) as [E|N91]; [subst r; replace (scan_code d p 91) with (MCode, d + 1, false) by reflexivity; apply (Hbrace 91 _ (d + 1) eq_refl eq_refl eq_refl H)|].
  destruct (Z.eq_dec r 123) as [E|N123]; [subst r; replace (scan_code d p 123) with (MCode, d + 1, false) by reflexivity; apply (Hbrace 123 _ (d + 1) eq_refl eq_refl eq_refl H)|].
  destruct (Z.eq_dec r 41) as [E|N41]; [subst r; replace (scan_code d p 41) with (MCode, d - 1, false) by reflexivity; apply (Hbrace 41 _ (d - 1) eq_refl eq_refl eq_refl H)|].
  destruct (Z.eq_dec r 93) as [E|N93]; [subst r; replace (scan_code d p 93) with (MCode, d - 1, false) by reflexivity; apply (Hbrace 93 _ (d - 1) eq_refl eq_refl eq_refl H)|].
  destruct (Z.eq_dec r 125) as [E|N125]; [subst r; replace (scan_code d p 125) with (MCode, d - 1, false) by reflexivity; apply (Hbrace 125 _ (d - 1) eq_refl eq_refl eq_refl H)|].
  clear Hbrace.
  destruct (Z.eq_dec r 37) as [->|N37].
  { replace (scan_code d p 37) with (MCode, d, true) by reflexivity.
    unfold lex_normal in H; simpl in H. destruct (l_buffer s) eqn:B; [|discriminate]. inv_ok H. eapply (rel_normal_intro _ d true true false); [ds s; exact Hst| | |reflexivity].
    - eapply tr_append; [exact Htr|reflexivity].
    - ds s; simpl in *; subst; reflexivity. }
  destruct (Z.eq_dec r 94) as [->|N94].
  { replace (scan_code d p 94) with (MCode, d, true) by reflexivity.
    unfold lex_normal in H; simpl in H. destruct (l_buffer s) eqn:B; [|discriminate]. inv_ok H. eapply (rel_normal_intro _ d true true false); [ds s; exact Hst| | |reflexivity].
    - eapply tr_append; [exact Htr|reflexivity].
    - ds s; simpl in *; subst; reflexivity. }
  destruct (Z.eq_dec r 126) as [->|N126].
  { unfold lex_normal in H; simpl in H. destruct (l_buffer s) eqn:B; [|discriminate]. inv_ok H.
    unfold scan_code; simpl. exists WFree, p', sg. split; [ds s; exact Htr|]. ds s; simpl in *. auto. }
  assert (forall s0, l_state s0 = LNormal -> TR s0 (d, WFree, p', sg) -> l_buffer s0 = l_buffer s ->
          with_dump s0 (fun s1 => LOk s1) = LOk s' -> Rel (MCode, d, p) s') as Hws.
  { intros s0 Hs0 Ht0 Hb0 Hw. unfold with_dump in Hw. destruct (dump_buffer s0) as [s1|] eqn:D; [|discriminate]. inv_ok Hw.
    destruct (dump_tr _ _ _ _ _ D Ht0) as (B1 & B2 & _ & p2 & sg2 & T2 & P2).
    eapply (rel_normal_intro _ d p p2 sg2); [congruence|exact T2| |reflexivity].
    rewrite B1. rewrite Hb0 in P2. destruct (l_buffer s); congruence. }
  destruct (Z.eq_dec r 32) as [->|N32]; [replace (scan_code d p 32) with (MCode, d, p) by reflexivity; apply (Hws s Hst Htr eq_refl H)|].
  destruct (Z.eq_dec r 9) as [->|N9]; [replace (scan_code d p 9) with (MCode, d, p) by reflexivity; apply (Hws s Hst Htr eq_refl H)|].
  destruct (Z.eq_dec r 13) as [->|N13]; [replace (scan_code d p 13) with (MCode, d, p) by reflexivity; apply (Hws s Hst Htr eq_refl H)|].
  destruct (Z.eq_dec r 10) as [->|N10].
  { replace (scan_code d p 10) with (MCode, d, p) by reflexivity. unfold lex_normal in H; simpl in H.
    apply (Hws (set_linenum (l_linenum s + 1) s)); [ds s; exact Hst|ds s; exact Htr|ds s; reflexivity|exact H]. }
  clear Hws.
  (* any other rune: the scanner stays in code, nothing pending *)
  assert (scan_code d p r = (MCode, d, false)) as ->.
  { unfold scan_code.
    repeat match goal with |- context [?x =? ?c] => let E := fresh in assert (x =? c = false) as E by (apply Z.eqb_neq; assumption); rewrite E; clear E end.
    reflexivity. }
  unfold lex_normal in H.
  repeat match type of H with context [r =? ?c] =>
    match c with
    | 47 => rewrite (proj2 (Z.eqb_neq r 47) N47) in H | 96 => rewrite (proj2 (Z.eqb_neq r 96) N96) in H
    | 34 => rewrite (proj2 (Z.eqb_neq r 34) N34) in H | 39 => rewrite (proj2 (Z.eqb_neq r 39) N39) in H
    | 37 => rewrite (proj2 (Z.eqb_neq r 37) N37) in H | 94 => rewrite (proj2 (Z.eqb_neq r 94) N94) in H
    | 126 => rewrite (proj2 (Z.eqb_neq r 126) N126) in H | 40 => rewrite (proj2 (Z.eqb_neq r 40) N40) in H
    | 41 => rewrite (proj2 (Z.eqb_neq r 41) N41) in H | 91 => rewrite (proj2 (Z.eqb_neq r 91) N91) in H
    | 93 => rewrite (proj2 (Z.eqb_neq r 93) N93) in H | 123 => rewrite (proj2 (Z.eqb_neq r 123) N123) in H
    | 125 => rewrite (proj2 (Z.eqb_neq r 125) N125) in H | 10 => rewrite (proj2 (Z.eqb_neq r 10) N10) in H
    | 32 => rewrite (proj2 (Z.eqb_neq r 32) N32) in H | 9 => rewrite (proj2 (Z.eqb_neq r 9) N9) in H
    | 13 => rewrite (proj2 (Z.eqb_neq r 13) N13) in H
    end end.
  simpl in H.
  assert (In r opchars ->
          with_dump s (fun s1 => LOk (set_prevrune r (set_prebuiltin (twoback s1) (set_state LBuiltinOperator s1)))) = LOk s' ->
          Rel (MCode, d, false) s') as Hop.
  { intros Hin Hw. unfold with_dump in Hw. destruct (dump_buffer s) as [s1|] eqn:D; [|discriminate]. inv_ok Hw.
    destruct (dump_tr _ _ _ _ _ D Htr) as (B1 & B2 & B3 & p2 & sg2 & T2 & _).
    exists WFree, p2, sg2. split; [ds s1; exact T2|]. ds s1; simpl in *. repeat split; auto. }
  assert (forall s2, LOk (write_rune r s) = LOk s2 -> Rel (MCode, d, false) s2) as Hwr.
  { intros s2 Hw. inv_ok Hw. exists WFree, p', sg. split; [ds s; exact Htr|]. ds s; simpl in *. subst.
    repeat split; auto. destruct bf; reflexivity. }
  assert (forall tok s0, plain_tok tok -> with_dump s (fun s1 => LOk (append_token tok s1)) = LOk s0 -> Rel (MCode, d, false) s0) as Hplain.
  { intros tok s0 Hpl Hw. unfold with_dump in Hw. destruct (dump_buffer s) as [s1|] eqn:D; [|discriminate]. inv_ok Hw.
    destruct (dump_tr _ _ _ _ _ D Htr) as (B1 & B2 & _ & p2 & sg2 & T2 & _).
    eapply (rel_normal_intro _ d false false (is_sign tok)); [ds s1; simpl in *; congruence| | |reflexivity].
    - eapply tr_append; [exact T2|apply Hpl].
    - ds s1; simpl in *; subst; reflexivity. }
  destruct ((r =? 43) || (r =? 45)) eqn:C1.
  - assert (In r opchars) as Hin.
    { apply orb_prop in C1. destruct C1 as [C|C]; apply Z.eqb_eq in C; subst; simpl; auto. }
    destruct (_ && sci_prefix_ok _); [apply Hwr; exact H|apply Hop; assumption].
  - destruct ((r =? 42) || (r =? 60) || (r =? 62) || (r =? 61) || (r =? 33) || (r =? 38) || (r =? 124)) eqn:C2.
    + apply Hop; [|exact H].
      repeat (apply orb_prop in C2; destruct C2 as [C2|C2]); apply Z.eqb_eq in C2; subst; simpl; auto 12.
    + destruct (r =? 59); [eapply Hplain; [|exact H]; intros ? ? ?; reflexivity|].
      destruct (r =? 44); [eapply Hplain; [|exact H]; intros ? ? ?; reflexivity|].
      destruct (r =? 58).
      * inv_ok H. exists WFree, p', sg. split; [ds s; exact Htr|]. ds s; simpl. auto.
      * apply Hwr; exact H.
Qed.

Local Transparent re_match.
Lemma neg_not_special : forall d p r,
  (re_match re_FloatRegex [45; r] || re_match re_DecimalRegex [45; r]) = true -> scan_code d p r = (MCode, d, false).
Proof.
  intros d p r H. unfold scan_code.
  repeat match goal with
         | |- context [r =? ?c] =>
             let E := fresh "E" in destruct (r =? c) eqn:E;
             [apply Z.eqb_eq in E; subst r; vm_compute in H; discriminate|]
         end.
  reflexivity.
Qed.

Lemma op_not_special : forall d q r, In q opchars ->
  re_match re_BuiltinOpRegex [q; r] = true -> scan_code d false r = (MCode, d, false).
Proof.
  intros d q r Hin H. unfold scan_code.
  repeat match goal with
         | |- context [r =? ?c] =>
             let E := fresh "E" in destruct (r =? c) eqn:E;
             [apply Z.eqb_eq in E; subst r; simpl in Hin;
              repeat (destruct Hin as [Hin|Hin]; [subst q; vm_compute in H; try discriminate; try reflexivity|]);
              try contradiction|]
         end; simpl; try reflexivity.
Qed.
Local Opaque re_match.

Lemma sim_builtin : forall s r s' d p' sg,
  TR s (d, WFree, p', sg) -> l_buffer s = [] -> In (l_prevrune s) opchars ->
  lex_builtin s r = LOk s' -> Rel (scan_code d false r) s'.
Proof.
  intros s r s' d p' sg Htr Hb Hin H. unfold lex_builtin in H.
  replace (l_prevrune (set_state LNormal s)) with (l_prevrune s) in H by (ds s; reflexivity).
  replace (l_prebuiltin (set_state LNormal s)) with (l_prebuiltin s) in H by (ds s; reflexivity).
  destruct (l_prevrune s =? 45) eqn:E45.
  - apply Z.eqb_eq in E45. rewrite E45 in *.
    destruct (can_start_signed_after (l_prebuiltin s)); cbn [andb] in H.
    + destruct (re_match re_FloatRegex [45; r] || re_match re_DecimalRegex [45; r]) eqn:EN.
      * inv_ok H. rewrite (neg_not_special d false r EN).
        exists WFree, p', sg. split; [ds s; exact Htr|]. ds s; simpl in *. subst. repeat split; auto.
      * destruct (re_match re_BuiltinOpRegex [45; r]) eqn:EO.
        -- inv_ok H. rewrite (op_not_special d 45 r Hin EO).
           match goal with |- Rel _ ?x => eapply (rel_normal_intro x d false false _) end; [ds s; reflexivity| | |reflexivity].
           ++ eapply tr_append; [ds s; exact Htr|]. unfold tstep; simpl. reflexivity.
           ++ ds s; simpl in *; subst; reflexivity.
        -- match type of H with lex_normal ?x r = _ => eapply (sim_normal x r s' d false false _) end; [ds s; reflexivity| | |exact H].
           ++ eapply tr_append; [ds s; exact Htr|]. unfold tstep; simpl. reflexivity.
           ++ ds s; simpl in *; subst; reflexivity.
    + destruct (re_match re_BuiltinOpRegex [45; r]) eqn:EO.
      * inv_ok H. rewrite (op_not_special d 45 r Hin EO).
        match goal with |- Rel _ ?x => eapply (rel_normal_intro x d false false _) end; [ds s; reflexivity| | |reflexivity].
        -- eapply tr_append; [ds s; exact Htr|]. unfold tstep; simpl. reflexivity.
        -- ds s; simpl in *; subst; reflexivity.
      * match type of H with lex_normal ?x r = _ => eapply (sim_normal x r s' d false false _) end; [ds s; reflexivity| | |exact H].
        -- eapply tr_append; [ds s; exact Htr|]. unfold tstep; simpl. reflexivity.
        -- ds s; simpl in *; subst; reflexivity.
  - cbn [andb] in H.
    destruct (re_match re_BuiltinOpRegex [l_prevrune s; r]) eqn:EO.
    + inv_ok H. rewrite (op_not_special d _ r Hin EO).
      match goal with |- Rel _ ?x => eapply (rel_normal_intro x d false false _) end; [ds s; reflexivity| | |reflexivity].
      * eapply tr_append; [ds s; exact Htr|]. unfold tstep; simpl. reflexivity.
      * ds s; simpl in *; subst; reflexivity.
    + match type of H with lex_normal ?x r = _ => eapply (sim_normal x r s' d false false _) end; [ds s; reflexivity| | |exact H].
      * eapply tr_append; [ds s; exact Htr|]. unfold tstep; simpl. reflexivity.
      * ds s; simpl in *; subst; reflexivity.
Qed.

Lemma tr_setter : forall s s' st, l_tokens s' = l_tokens s -> TR s st -> TR s' st.
Proof. intros s s' st H T. unfold TR in *. rewrite H. exact T. Qed.

Lemma sim_step : forall sc s r s', Rel sc s -> lex_rune s r = LOk s' -> Rel (scan_step sc r) s'.
Proof.
  intros [[m d] p] s r s' HR H. unfold lex_rune in H.
  assert (Rel (m, d, p) (ring_push r s)) as HR1 by (ds s; exact HR).
  set (s1 := ring_push r s) in *. clearbody s1. clear HR.
  destruct HR1 as (a & p' & sg & Htr & Hm).
  destruct (l_state s1) eqn:Est.
  - (* normal *) destruct Hm as (-> & -> & Hp). simpl. eapply sim_normal; eauto.
  - (* comment line *) destruct Hm as (-> & -> & ->). simpl.
    destruct (r =? 10).
    + inv_ok H. eapply (rel_normal_intro _ d p' p' false); [destruct s1; reflexivity| | |reflexivity].
      * eapply tr_append; [exact Htr|reflexivity].
      * destruct s1; reflexivity.
    + inv_ok H. exists WFree, p', sg. split; [destruct s1; exact Htr|]. destruct s1; simpl in *; subst. auto.
  - (* string *) destruct Hm as (-> & ->). simpl.
    destruct (r =? 92); [inv_ok H; exists WFree, p', sg; split; [destruct s1; exact Htr|destruct s1; simpl; auto]|].
    destruct (r =? 34).
    + inv_ok H. eapply (rel_normal_intro _ d false false false); [destruct s1; reflexivity| | |reflexivity].
      * eapply tr_append; [exact Htr|reflexivity].
      * destruct s1; reflexivity.
    + inv_ok H. exists WFree, p', sg. split; [destruct s1; exact Htr|]. destruct s1; simpl in *; subst. auto.
  - (* string escape *) destruct Hm as (-> & ->). simpl.
    destruct (escape_char r); [|discriminate]. inv_ok H.
    exists WFree, p', sg. split; [destruct s1; exact Htr|]. destruct s1; simpl; auto.
  - (* unquote *) destruct Hm as (-> & -> & Hb). simpl.
    destruct (r =? 64).
    + inv_ok H. eapply (rel_normal_intro _ d true true false); [destruct s1; reflexivity| | |reflexivity].
      * eapply tr_append; [exact Htr|reflexivity].
      * destruct s1; simpl in *; subst; reflexivity.
    + match type of H with lex_normal ?x r = _ => eapply (sim_normal x r s' d true true false) end;
        [destruct s1; reflexivity| | |exact H].
      * apply (tr_setter (append_token (mkTok TTilde []) s1)); [destruct s1; reflexivity|eapply tr_append; [exact Htr|reflexivity]].
      * destruct s1; simpl in *; subst; reflexivity.
  - (* raw string *) destruct Hm as (-> & ->). simpl.
    destruct (r =? 96).
    + inv_ok H. eapply (rel_normal_intro _ d false false false); [destruct s1; reflexivity| | |reflexivity].
      * eapply tr_append; [exact Htr|reflexivity].
      * destruct s1; reflexivity.
    + inv_ok H. exists WRaw, p', sg. split; [destruct s1; exact Htr|]. destruct s1; simpl in *; subst. auto.
  - (* fresh assign or colon *) destruct Hm as (-> & -> & ->). simpl.
    unfold lex_freshassign, with_dump in H.
    assert (TR (set_state LNormal s1) (d, WFree, p', sg)) as Hn by (destruct s1; exact Htr).
    destruct (r =? 61) eqn:E61.
    + apply Z.eqb_eq in E61. subst r. replace (scan_code d false 61) with (MCode, d, false) by reflexivity.
      destruct (dump_buffer _) as [s2|] eqn:D; [|discriminate]. inv_ok H.
      destruct (dump_tr _ _ _ _ _ D Hn) as (B1 & B2 & _ & p2 & sg2 & T2 & _).
      eapply (rel_normal_intro _ d false false false); [destruct s2; destruct s1; simpl in *; exact B2| | |reflexivity].
      * eapply tr_append; [exact T2|reflexivity].
      * destruct s2; simpl in *; subst; reflexivity.
    + destruct (slice_bound _).
      * destruct (dump_buffer _) as [s2|] eqn:D; [|discriminate].
        destruct (dump_tr _ _ _ _ _ D Hn) as (B1 & B2 & _ & p2 & sg2 & T2 & _).
        match type of H with lex_normal ?x r = _ => eapply (sim_normal x r s' d false false _) end;
          [destruct s2; destruct s1; simpl in *; exact B2| | |exact H].
        -- eapply tr_append; [exact T2|reflexivity].
        -- destruct s2; simpl in *; subst; reflexivity.
      * destruct (dump_buffer _) as [s2|] eqn:D; [|discriminate].
        assert (TR (write_rune 58 (set_state LNormal s1)) (d, WFree, p', sg)) as Hn2 by (destruct s1; exact Htr).
        destruct (dump_tr _ _ _ _ _ D Hn2) as (B1 & B2 & _ & p2 & sg2 & T2 & P2).
        match type of H with lex_normal ?x r = _ => eapply (sim_normal x r s' d false p2 sg2) end;
          [destruct s2; destruct s1; simpl in *; exact B2|exact T2| |exact H].
        rewrite B1. destruct s1; simpl in P2. destruct l_buffer; simpl in P2; congruence.
  - (* first slash *) destruct Hm as (-> & -> & Hp). simpl.
    unfold lex_firstslash, with_dump in H.
    destruct (r =? 47).
    + destruct (dump_buffer s1) as [s2|] eqn:D; [|discriminate]. inv_ok H.
      destruct (dump_tr _ _ _ _ _ D Htr) as (B1 & B2 & _ & p2 & sg2 & T2 & P2).
      assert (p = p2) as -> by (destruct (l_buffer s1); congruence).
      exists WFree, p2, sg2. split; [destruct s2; exact T2|]. destruct s2; simpl. auto.
    + destruct (r =? 42).
      * destruct (dump_buffer s1) as [s2|] eqn:D; [|discriminate]. inv_ok H.
        destruct (dump_tr _ _ _ _ _ D Htr) as (B1 & B2 & _ & p2 & sg2 & T2 & P2).
        assert (p = p2) as -> by (destruct (l_buffer s1); congruence).
        exists WBlock, p2, false. split.
        -- eapply tr_append; [destruct s2; exact T2|reflexivity].
        -- destruct s2; simpl. auto.
      * destruct (dump_buffer _) as [s2|] eqn:D; [|discriminate].
        assert (TR (set_prevrune 47 (set_state LBuiltinOperator s1)) (d, WFree, p', sg)) as Hn by (destruct s1; exact Htr).
        destruct (dump_tr _ _ _ _ _ D Hn) as (B1 & B2 & B3 & p2 & sg2 & T2 & _).
        eapply sim_builtin; [exact T2|exact B1| |exact H].
        rewrite B3. destruct s1; simpl. auto 12.
  - (* block comment *) destruct Hm as (-> & -> & ->). simpl.
    destruct (r =? 10) eqn:E10.
    + apply Z.eqb_eq in E10. subst r. simpl. inv_ok H. exists WBlock, p', false. split.
      * eapply tr_append; [destruct s1; exact Htr|reflexivity].
      * destruct s1; simpl in *; subst. auto.
    + destruct (r =? 42); inv_ok H; exists WBlock, p', sg; (split; [destruct s1; exact Htr|destruct s1; simpl in *; subst; auto]).
  - (* block comment, asterisk seen *) destruct Hm as (-> & -> & ->). simpl.
    destruct (r =? 47).
    + inv_ok H. eapply (rel_normal_intro _ d p' p' false); [destruct s1; reflexivity| | |reflexivity].
      * apply (tr_setter (append_token (mkTok TEndBlockComment []) (dump_as TComment (write_runes [42; 47] s1)))); [destruct s1; reflexivity|].
        eapply tr_append; [eapply tr_append; [destruct s1; exact Htr|reflexivity]|reflexivity].
      * destruct s1; reflexivity.
    + destruct (r =? 42); inv_ok H; exists WBlock, p', sg; (split; [destruct s1; exact Htr|destruct s1; simpl in *; subst; auto]).
  - (* operator *) destruct Hm as (-> & -> & -> & Hb & Hin). simpl. eapply sim_builtin; eauto.
  - (* rune literal *) destruct Hm as (-> & ->). simpl.
    destruct (r =? 92); [inv_ok H; exists WFree, p', sg; split; [destruct s1; exact Htr|destruct s1; simpl; auto]|].
    destruct (r =? 39).
    + destruct (dump_buffer _) as [s2|] eqn:D; inv_ok H.
      * assert (TR (write_rune 39 s1) (d, WFree, p', sg)) as Hn by (destruct s1; exact Htr).
        destruct (dump_tr _ _ _ _ _ D Hn) as (B1 & B2 & _ & p2 & sg2 & T2 & P2).
        eapply (rel_normal_intro _ d false p2 sg2); [destruct s2; reflexivity|destruct s2; exact T2| |reflexivity].
        destruct s2; simpl in *. subst. destruct s1; simpl in P2. destruct l_buffer; simpl in P2; congruence.
      * exists WFree, p', sg. split; [destruct s1; exact Htr|]. destruct s1; simpl. repeat split; auto. destruct l_buffer; reflexivity.
    + inv_ok H. exists WFree, p', sg. split; [destruct s1; exact Htr|]. destruct s1; simpl in *; subst. auto.
  - (* rune escape *) destruct Hm as (-> & ->). simpl.
    destruct (escape_char r); [|discriminate]. inv_ok H.
    exists WFree, p', sg. split; [destruct s1; exact Htr|]. destruct s1; simpl; auto.
Qed.

Lemma rel_init : Rel (MCode, 0, false) init_lstate.
Proof. exists WFree, false, false. split; reflexivity || (simpl; auto). Qed.

Lemma sim_all : forall text sc s s', Rel sc s -> lex_all s text = LOk s' -> Rel (fold_left scan_step text sc) s'.
Proof.
  induction text as [|r t IH]; intros sc s s' HR H; simpl in *.
  - inv_ok H. exact HR.
  - destruct (lex_rune s r) as [s1|s1] eqn:E; [|discriminate]. eapply IH; [eapply sim_step; eauto|exact H].
Qed.

(* the scanner and the lexer agree on every lexically correct text *)
Theorem scan_simulates_lexer : forall text s', lex_all init_lstate text = LOk s' -> Rel (scan text) s'.
Proof. intros text s' H. unfold scan. eapply sim_all; [apply rel_init|exact H]. Qed.

(* the lexer modes possible right after a newline *)
Lemma dump_state : forall s s', dump_buffer s = Some s' -> l_state s' = l_state s.
Proof. intros s s' D. unfold dump_buffer in D. destruct (l_buffer s); [inv_ok D; reflexivity|]. destruct (decode_atom _); inv_ok D. ds s; reflexivity. Qed.

Lemma lex_builtin_state_nl : forall s s', lex_builtin s 10 = LOk s' -> l_state s' = LNormal.
Proof.
  intros s s'. unfold lex_builtin. destruct (_ && _ && _); [intros H; inv_ok H; ds s; reflexivity|].
  destruct (re_match re_BuiltinOpRegex _); [intros H; inv_ok H; ds s; reflexivity|].
  intros H. apply lex_normal_nl in H; [tauto|ds s; reflexivity].
Qed.

Lemma nl_mode : forall s s', lex_rune s 10 = LOk s' ->
  In (l_state s') [LNormal; LStrLit; LRuneLit; LBacktickString; LCommentBlock].
Proof.
  intros s s'. unfold lex_rune. set (s1 := ring_push 10 s). clearbody s1.
  destruct (l_state s1) eqn:Est; cbn [Z.eqb Pos.eqb].
  - intros H. apply lex_normal_nl in H; [left; symmetry; tauto|exact Est].
  - intros H; inv_ok H. left. destruct s1; reflexivity.
  - intros H; inv_ok H. right; left. destruct s1; simpl in *; congruence.
  - rewrite esc_nl; discriminate.
  - intros H. apply lex_normal_nl in H; [left; symmetry; tauto|destruct s1; reflexivity].
  - intros H; inv_ok H. do 3 right; left. destruct s1; simpl in *; congruence.
  - unfold lex_freshassign, with_dump. cbn [Z.eqb Pos.eqb].
    destruct (slice_bound _); (destruct (dump_buffer _) as [s2|] eqn:D; [|discriminate]); apply dump_state in D; intros H;
      (apply lex_normal_nl in H; [left; symmetry; tauto|]).
    + destruct s2; destruct s1; simpl in *; exact D.
    + destruct s2; destruct s1; simpl in *; exact D.
  - unfold lex_firstslash, with_dump. cbn [Z.eqb Pos.eqb].
    destruct (dump_buffer _) as [s2|]; [|discriminate]. intros H. left. symmetry. eapply lex_builtin_state_nl; exact H.
  - intros H; inv_ok H. do 4 right; left. destruct s1; simpl in *; congruence.
  - intros H; inv_ok H. do 4 right; left. destruct s1; reflexivity.
  - intros H. left. symmetry. eapply lex_builtin_state_nl; exact H.
  - intros H; inv_ok H. do 2 right; left. destruct s1; simpl in *; congruence.
  - rewrite esc_nl; discriminate.
Qed.
