(* Proofs about Model/ScopeImpl.v: the staged lookup of the real scope mechanism (live stack up to one
   function boundary, then the captured stacks along the parent chain) returns what lexical lookup on
   the static chain of the reference evaluator returns, under a relation that every scope-relevant
   event of evaluation preserves. *)
From Coq Require Import ZArith Bool List Lia.
From ZV Require Import Model.Num Model.RefSem Model.ScopeImpl.
Import ListNotations.
Open Scope Z_scope.

(* ---- 1. the staged lookup is lookup along impl_chain ---- *)

Lemma lookup_chain_app : forall fs a b x,
  lookup_chain fs (a ++ b) x =
  match lookup_chain fs a x with Some r => Some r | None => lookup_chain fs b x end.
Proof.
  induction a as [|f a IH]; intros b x; simpl; [reflexivity|].
  destruct (nth_error fs f) as [fr|]; [destruct (assoc x fr)|]; auto.
Qed.

Lemma scan_until_fun_chain : forall fs l x,
  scan_until_fun fs l x = lookup_chain fs (map sc_id (until_fun l)) x.
Proof.
  induction l as [|s r IH]; intros x; simpl; [reflexivity|].
  destruct (sc_fun s); simpl.
  - destruct (nth_error fs (sc_id s)) as [fr|]; [destruct (assoc x fr)|]; reflexivity.
  - destruct (nth_error fs (sc_id s)) as [fr|]; [destruct (assoc x fr)|]; auto.
Qed.

Lemma look_parents_chain : forall fs f x,
  look_parents fs f x = lookup_chain fs (map sc_id (pchain f)) x.
Proof.
  induction f as [|cl par IH]; intros x; simpl; [reflexivity|].
  rewrite map_app, lookup_chain_app. destruct cl as [l|]; simpl.
  - rewrite scan_until_fun_chain. destruct (lookup_chain fs (map sc_id (until_fun l)) x); auto.
  - apply IH.
Qed.

Theorem impl_lookup_chain : forall fs st x,
  impl_lookup fs st x = lookup_chain fs (map sc_id (impl_chain st)) x.
Proof.
  intros fs st x. unfold impl_lookup, impl_chain. rewrite map_app, lookup_chain_app, scan_until_fun_chain.
  destruct (lookup_chain fs (map sc_id (until_fun (live st))) x); [reflexivity|].
  destruct (cur st) as [|cl par]; [reflexivity|]. apply look_parents_chain.
Qed.

(* ---- 2. the relation and lookup_is_lexical ---- *)

(* R: the scopes the real lookup consults, in order, are the frames of the static chain *)
Definition R (env : list nat) (st : istate) : Prop := map sc_id (impl_chain st) = env.

Theorem lookup_is_lexical : forall fs env st x, R env st ->
  impl_lookup fs st x = lookup_chain fs env x.
Proof. intros fs env st x H. rewrite impl_lookup_chain, H. reflexivity. Qed.

(* def binds in the innermost frame of the static chain *)
Theorem def_target_is_lexical : forall env st, R env st -> live st <> [] ->
  bind_target st = hd O env.
Proof.
  intros env st H Hl. unfold R, impl_chain in H. unfold bind_target.
  destruct (live st) as [|s r]; [congruence|]. simpl in *. destruct (sc_fun s); simpl in H; subst env; reflexivity.
Qed.

(* set updates the frame lexical lookup finds, else defines in the innermost frame (RefSem ESet) *)
Theorem set_target_is_lexical : forall fs env st x, R env st -> live st <> [] ->
  set_target fs st x = match lookup_chain fs env x with Some (f, _) => f | None => hd O env end.
Proof.
  intros fs env st x H Hl. unfold set_target. rewrite (lookup_is_lexical fs env st x H).
  destruct (lookup_chain fs env x) as [[f v]|]; [reflexivity|]. apply def_target_is_lexical; assumption.
Qed.

(* ---- 3. closures ---- *)

Lemma until_fun_nofun : forall l, existsb sc_fun l = false -> until_fun l = l.
Proof.
  induction l as [|s r IH]; simpl; intros H; [reflexivity|]. apply orb_false_iff in H. destruct H as [H1 H2].
  rewrite H1. f_equal. apply IH. assumption.
Qed.

Lemma new_closing_until_fun : forall l, new_closing l = until_fun l.
Proof. intros l. unfold new_closing. destruct (existsb sc_fun l) eqn:E; [reflexivity|]. symmetry. apply until_fun_nofun. assumption. Qed.

Lemma until_fun_idem : forall l, until_fun (until_fun l) = until_fun l.
Proof.
  induction l as [|s r IH]; simpl; [reflexivity|]. destruct (sc_fun s) eqn:E; simpl; rewrite E; [reflexivity|]. f_equal. apply IH.
Qed.

(* vm.go:CreateClosureInstr + closing.go:NewClosing: the scopes a new closure will consult for its
   free variables are exactly the static chain of the place where it is created *)
Theorem closure_captures_static_chain : forall env st, R env st ->
  map sc_id (pchain (create_closure st)) = env.
Proof.
  intros env st H. unfold create_closure. simpl. rewrite new_closing_until_fun, until_fun_idem. exact H.
Qed.

(* ---- 4. the events of evaluation preserve the relation ---- *)

(* one activation record of the reference evaluator, paired with what the real machine did for it *)
Record jframe := mkJ {
  jf_env : list nat;      (* static chain of the code running in this record *)
  jf_base : list nat;     (* captured chain of the running closure (call records) *)
  jf_call : bool;         (* entered by a function call (owns a function scope) / by argument evaluation *)
  jf_depth : nat          (* live scopes pushed since the record was entered *)
}.

Fixpoint stack_ok (frs : list jframe) (lv : list scope) (c : fn) (sv : list fn) : Prop :=
  match frs with
  | [] => False
  | fr :: rest =>
    map sc_id (until_fun lv ++ pchain c) = jf_env fr /\
    (jf_call fr = true -> map sc_id (pchain c) = jf_base fr) /\
    (jf_depth fr <= length lv)%nat /\
    match rest with
    | [] => sv = []
    | _ :: _ => match sv with
                | [] => False
                | c2 :: sv' => stack_ok rest (skipn (jf_depth fr) lv) c2 sv'
                end
    end
  end.

Definition inv (frs : list jframe) (st : istate) : Prop := stack_ok frs (live st) (cur st) (saved st).

Lemma inv_R : forall fr rest st, inv (fr :: rest) st -> R (jf_env fr) st.
Proof. intros fr rest st H. destruct H as [H _]. exact H. Qed.

(* (i) initially: top-level code, the global scope, mainfunc *)
Theorem inv_init : inv [mkJ [O] [] false O] init_istate.
Proof. unfold inv, init_istate. simpl. repeat split; auto; try lia; try discriminate. Qed.

Definition upd_env (fr : jframe) (env : list nat) (d : nat) : jframe := mkJ env (jf_base fr) (jf_call fr) d.

(* (ii) the events.  Each constructor pairs what the reference evaluator does with its static chain
   with what the real machine does with its scope stack / current function. *)
Inductive jstep : list jframe * istate -> list jframe * istate -> Prop :=
| J_enter_scope : forall fr rest st id,                 (* let, letseq, newScope, for: AddScopeInstr *)
    jstep (fr :: rest, st)
          (upd_env fr (id :: jf_env fr) (S (jf_depth fr)) :: rest, add_scope id st)
| J_leave_scope : forall fr rest st id r d,             (* RemoveScopeInstr; one unit of a break's scopesToPop *)
    live st = mkScope id false :: r -> jf_depth fr = S d ->
    jstep (fr :: rest, st) (upd_env fr (tl (jf_env fr)) d :: rest, remove_scope st)
| J_enter_arg : forall fr rest st,                      (* EvalCallExpression of an argument / callee *)
    jstep (fr :: rest, st) (mkJ (jf_env fr) [] false O :: fr :: rest, enter_arg st)
| J_leave_arg : forall fr rest st,
    jf_call fr = false -> jf_depth fr = O -> rest <> [] ->
    jstep (fr :: rest, st) (rest, leave_fn st)
| J_call : forall frs st f cenv id,                     (* CallFunction + AddFuncScopeInstr *)
    map sc_id (pchain f) = cenv ->
    jstep (frs, st) (mkJ (id :: cenv) cenv true 1 :: frs, add_func_scope id (enter_fn f st))
| J_return : forall fr rest st,                         (* RemoveScopeInstr of the function scope + ReturnInstr *)
    jf_call fr = true -> jf_depth fr = 1%nat -> rest <> [] ->
    jstep (fr :: rest, st) (rest, leave_fn (remove_scope st))
| J_tail_call : forall fr rest st id,                   (* RemoveScope x (scopes+1); PrepareCall; Goto 0; AddFuncScope *)
    jf_call fr = true ->
    jstep (fr :: rest, st)
          (mkJ (id :: jf_base fr) (jf_base fr) true 1 :: rest, add_func_scope id (pop_scopes (jf_depth fr) st))
| J_def_set : forall frs st,                            (* def / set / closure creation: no structural change *)
    jstep (frs, st) (frs, st).

Lemma pop_scopes_live : forall k st, live (pop_scopes k st) = skipn k (live st).
Proof.
  induction k as [|k IH]; intros st; simpl; [reflexivity|]. rewrite IH. simpl. destruct (live st); [destruct k; reflexivity|reflexivity].
Qed.
Lemma pop_scopes_cur : forall k st, cur (pop_scopes k st) = cur st /\ saved (pop_scopes k st) = saved st.
Proof. induction k as [|k IH]; intros st; simpl; [auto|]. destruct (IH (remove_scope st)) as [A B]. rewrite A, B. auto. Qed.

Theorem inv_preserved : forall frs st frs' st',
  inv frs st -> jstep (frs, st) (frs', st') -> inv frs' st'.
Proof.
  intros frs st frs' st' Hinv Hs.
  inversion Hs as [fr rest st0 id | fr rest st0 id r d Hlive Hd | fr rest st0 | fr rest st0 Hc Hd Hr
                  | frs0 st0 f cenv id Hf | fr rest st0 Hc Hd Hr | fr rest st0 id Hc | frs0 st0];
    subst; clear Hs; unfold inv in *.
  - (* enter scope *)
    destruct Hinv as (E & B & D & Rest). simpl. repeat split.
    + rewrite <- E. reflexivity.
    + exact B.
    + lia.
    + destruct rest; exact Rest.
  - (* leave scope *)
    destruct Hinv as (E & B & D & Rest). simpl. rewrite Hlive in *. simpl in *. repeat split.
    + rewrite <- E. reflexivity.
    + exact B.
    + rewrite Hd in D. lia.
    + rewrite Hd in Rest. simpl in Rest. exact Rest.
  - (* enter arg *)
    destruct Hinv as (E & B & D & Rest). simpl. repeat split; auto; try lia; try discriminate.
  - (* leave arg *)
    destruct Hinv as (E & B & D & Rest). destruct frs' as [|fr2 rest]; [congruence|].
    unfold leave_fn. destruct (saved st) as [|c2 sv']; [contradiction|]. simpl. rewrite Hd in Rest. simpl in Rest. exact Rest.
  - (* call *)
    simpl. repeat split; auto; try lia.
    destruct frs as [|fr rest]; [simpl in Hinv; contradiction|exact Hinv].
  - (* return *)
    destruct Hinv as (E & B & D & Rest). destruct frs' as [|fr2 rest]; [congruence|].
    unfold leave_fn, remove_scope. simpl. destruct (saved st) as [|c2 sv']; [contradiction|]. simpl.
    rewrite Hd in Rest. simpl in Rest. destruct (live st); exact Rest.
  - (* tail call *)
    destruct Hinv as (E & B & D & Rest). simpl. rewrite pop_scopes_live.
    destruct (pop_scopes_cur (jf_depth fr) st) as [Ec Es]. rewrite Ec, Es. repeat split.
    + simpl. rewrite (B Hc). reflexivity.
    + intros _. exact (B Hc).
    + simpl. lia.
    + simpl. exact Rest.
  - exact Hinv.
Qed.

(* the relation holds after any sequence of events from the initial state *)
Inductive jsteps : list jframe * istate -> list jframe * istate -> Prop :=
| js_refl : forall j, jsteps j j
| js_step : forall a b c, jstep a b -> jsteps b c -> jsteps a c.

Theorem inv_reachable : forall frs st,
  jsteps ([mkJ [O] [] false O], init_istate) (frs, st) -> inv frs st.
Proof.
  intros frs st H. remember ([mkJ [O] [] false O], init_istate) as j0. remember (frs, st) as j1.
  assert (G : forall a b, jsteps a b -> inv (fst a) (snd a) -> inv (fst b) (snd b)).
  { clear. intros a b H. induction H; intros Hi; [exact Hi|]. apply IHjsteps.
    destruct a as [fa sa], b as [fb sb]. simpl in *. eapply inv_preserved; eauto. }
  specialize (G _ _ H). subst. simpl in G. apply G. apply inv_init.
Qed.

(* (iii) in every reachable configuration the real staged lookup is lexical lookup on the static chain
   of the running code, and def / set address the frames the reference evaluator addresses *)
Theorem reachable_lookup_is_lexical : forall fs fr rest st x,
  jsteps ([mkJ [O] [] false O], init_istate) (fr :: rest, st) ->
  impl_lookup fs st x = lookup_chain fs (jf_env fr) x.
Proof. intros. apply lookup_is_lexical. eapply inv_R. apply inv_reachable. eassumption. Qed.

(* a closure created in a reachable configuration captures the static chain of the running code, so a
   later J_call of it (whose premise is exactly this equation) runs under  new frame :: that chain *)
Theorem reachable_closure_captures : forall fr rest st,
  jsteps ([mkJ [O] [] false O], init_istate) (fr :: rest, st) ->
  map sc_id (pchain (create_closure st)) = jf_env fr.
Proof. intros. apply closure_captures_static_chain. eapply inv_R. apply inv_reachable. eassumption. Qed.

(* ================================================================= 5. the faithful layer *)

Lemma lookup_chain_none : forall fs a x,
  lookup_chain fs a x = None <-> (forall i, In i a -> frame_lookup fs i x = None).
Proof.
  induction a as [|f a IH]; intros x; simpl.
  - split; [intros _ i []|reflexivity].
  - assert (Hf : frame_lookup fs f x = None \/ exists v, frame_lookup fs f x = Some (f, v)).
    { unfold frame_lookup. destruct (nth_error fs f) as [fr|]; [destruct (assoc x fr) as [v|]|]; eauto. }
    unfold frame_lookup in Hf. split.
    + intros H i [Hi|Hi].
      * subst i. unfold frame_lookup. destruct (nth_error fs f) as [fr|]; [destruct (assoc x fr)|]; try reflexivity. discriminate.
      * destruct (nth_error fs f) as [fr|]; [destruct (assoc x fr); [discriminate|]|]; apply (proj1 (IH x) H i Hi).
    + intros H. pose proof (H f (or_introl eq_refl)) as H0. unfold frame_lookup in H0.
      destruct (nth_error fs f) as [fr|]; [destruct (assoc x fr); [discriminate|]|];
        apply (proj2 (IH x)); intros i Hi; apply H; right; assumption.
Qed.

(* scopes consulted a second time never decide *)
Lemma lookup_redundant : forall fs a b c x, incl b a ->
  lookup_chain fs (a ++ b ++ c) x = lookup_chain fs (a ++ c) x.
Proof.
  intros fs a b c x H. rewrite !lookup_chain_app.
  destruct (lookup_chain fs a x) eqn:Ea; [reflexivity|].
  assert (Eb : lookup_chain fs b x = None).
  { apply lookup_chain_none. intros i Hi. apply (proj1 (lookup_chain_none fs a x) Ea). apply H. assumption. }
  rewrite Eb. reflexivity.
Qed.

Lemma scan_ids_chain : forall fs ids x, scan_ids fs ids x = lookup_chain fs ids x.
Proof.
  induction ids as [|i r IH]; intros x; simpl; [reflexivity|]. unfold frame_lookup.
  destruct (nth_error fs i) as [fr|]; [destruct (assoc x fr)|]; auto.
Qed.

Lemma scan_until_funF_chain : forall fs l x,
  scan_until_funF fs l x = lookup_chain fs (map sf_id (until_funF l)) x.
Proof.
  induction l as [|s r IH]; intros x; simpl; [reflexivity|]. unfold frame_lookup.
  destruct (sf_fun s); simpl; destruct (nth_error fs (sf_id s)) as [fr|]; try destruct (assoc x fr); auto.
Qed.

Lemma look_parentsF_chain : forall fs f x, look_parentsF fs f x = lookup_chain fs (fullp f) x.
Proof.
  induction f as [cl|ps cl par IH]; intros x; simpl; [reflexivity|].
  rewrite lookup_chain_app. destruct cl as [l|]; simpl.
  - rewrite scan_until_funF_chain. destruct (lookup_chain fs (map sf_id (until_funF l)) x); auto.
  - apply IH.
Qed.

Lemma stage3_chain : forall fs l x, stage3 fs l x = lookup_chain fs (tmpl_of l) x.
Proof.
  induction l as [|s r IH]; intros x; simpl; [reflexivity|]. destruct (sf_fun s); [apply scan_ids_chain|apply IH].
Qed.

Definition full_ids (st : istateF) : list nat :=
  map sf_id (until_funF (liveF st)) ++
  (match curF st with GMain cl => map sf_id (until_funF cl) | f => fullp f end) ++
  tmpl_of (liveF st).

Theorem impl_lookupF_chain : forall fs st x, impl_lookupF fs st x = lookup_chain fs (full_ids st) x.
Proof.
  intros fs st x. unfold impl_lookupF, full_ids. rewrite !lookup_chain_app, scan_until_funF_chain, stage3_chain.
  destruct (lookup_chain fs (map sf_id (until_funF (liveF st))) x); [reflexivity|].
  destruct (curF st) as [cl|ps cl par].
  - simpl. rewrite scan_until_funF_chain. reflexivity.
  - rewrite look_parentsF_chain. reflexivity.
Qed.

(* the core machine, seen from the faithful state *)
Lemma until_fun_erase : forall l, map sc_id (until_fun (map eraseS l)) = map sf_id (until_funF l).
Proof. induction l as [|s r IH]; simpl; [reflexivity|]. destruct (sf_fun s); simpl; [reflexivity|]. f_equal. apply IH. Qed.

Lemma pchain_erase : forall f, map sc_id (pchain (eraseFn f)) = corep f.
Proof.
  induction f as [cl|ps cl par IH]; simpl; [reflexivity|]. destruct ps; simpl.
  - apply IH.
  - rewrite map_app, IH. f_equal. destruct cl as [l|]; simpl; [apply until_fun_erase|reflexivity].
Qed.

Lemma core_ids_erase : forall st,
  map sc_id (impl_chain (erase st)) = map sf_id (until_funF (liveF st)) ++ corep (curF st).
Proof. intros st. unfold impl_chain, erase. simpl. rewrite map_app, until_fun_erase, pchain_erase. reflexivity. Qed.

(* the captured stacks of the callExprEval functions repeat scopes consulted before them *)
Fixpoint covered (a : list nat) (f : fnF) : Prop :=
  match f with
  | GMain _ => True
  | GSub true cl par => incl (segF cl) a /\ covered a par
  | GSub false cl par => covered (a ++ segF cl) par
  end.

Lemma covered_mono : forall f a a', incl a a' -> covered a f -> covered a' f.
Proof.
  induction f as [cl|ps cl par IH]; intros a a' Hi H; simpl in *; [exact I|]. destruct ps.
  - destruct H as [H1 H2]. split; [eapply incl_tran; eauto|eapply IH; eauto].
  - eapply IH; [|exact H]. apply incl_app; [apply incl_appl; assumption|apply incl_appr; apply incl_refl].
Qed.

Lemma covered_lookup : forall fs f a c x, covered a f ->
  lookup_chain fs (a ++ fullp f ++ c) x = lookup_chain fs (a ++ corep f ++ c) x.
Proof.
  induction f as [cl|ps cl par IH]; intros a c x H; simpl in *; [reflexivity|]. destruct ps.
  - destruct H as [H1 H2]. rewrite <- app_assoc. rewrite (lookup_redundant fs a (segF cl) (fullp par ++ c) x H1).
    apply IH. assumption.
  - rewrite <- !app_assoc. rewrite !(app_assoc a (segF cl)). apply IH. assumption.
Qed.

(* the condition under which the additional stages are redundant *)
Definition cov (st : istateF) : Prop :=
  let a := map sf_id (until_funF (liveF st)) in
  (match curF st with
   | GMain cl => incl (map sf_id (until_funF cl)) a
   | f => covered a f
   end) /\
  incl (tmpl_of (liveF st)) (a ++ corep (curF st)).

(* B: under cov, the real three-stage lookup is the lookup of the core machine *)
Theorem faithful_lookup_is_core : forall fs st x, cov st ->
  impl_lookupF fs st x = impl_lookup fs (erase st) x.
Proof.
  intros fs st x [Hc Ht]. rewrite impl_lookupF_chain, impl_lookup_chain, core_ids_erase. unfold full_ids.
  set (a := map sf_id (until_funF (liveF st))) in *.
  destruct (curF st) as [cl|ps cl par] eqn:Ec.
  - simpl corep in *. rewrite app_nil_r in *.
    rewrite (lookup_redundant fs a _ (tmpl_of (liveF st)) x Hc).
    rewrite <- (app_nil_r (tmpl_of (liveF st))). rewrite (lookup_redundant fs a _ [] x Ht). rewrite app_nil_r. reflexivity.
  - rewrite (covered_lookup fs (GSub ps cl par) a (tmpl_of (liveF st)) x Hc).
    rewrite app_assoc. rewrite <- (app_nil_r (tmpl_of (liveF st))).
    rewrite (lookup_redundant fs (a ++ corep (GSub ps cl par)) _ [] x Ht). rewrite app_nil_r. reflexivity.
Qed.

(* hence, when the erased state is related to the static chain, the real lookup is lexical *)
Theorem lookup_is_lexical_faithful : forall fs env st x, cov st -> R env (erase st) ->
  impl_lookupF fs st x = lookup_chain fs env x.
Proof. intros. rewrite faithful_lookup_is_core by assumption. apply lookup_is_lexical. assumption. Qed.

(* ---- the transitions of the faithful machine erase to those of the core machine ---- *)
Lemma erase_add_scope : forall id st, erase (add_scopeF id st) = add_scope id (erase st).
Proof. reflexivity. Qed.
Lemma erase_add_func_scope : forall id t st, erase (add_func_scopeF id t st) = add_func_scope id (erase st).
Proof. reflexivity. Qed.
Lemma erase_remove_scope : forall st, erase (remove_scopeF st) = remove_scope (erase st).
Proof. intros st. unfold erase, remove_scopeF, remove_scope. destruct (liveF st) eqn:E; simpl; reflexivity. Qed.
Lemma erase_enter_fn : forall f st, erase (enter_fnF f st) = enter_fn (eraseFn f) (erase st).
Proof. reflexivity. Qed.
Lemma erase_leave_fn : forall st, erase (leave_fnF st) = leave_fn (erase st).
Proof. intros st. unfold erase, leave_fnF, leave_fn. destruct (savedF st) eqn:E; simpl; rewrite ?E; reflexivity. Qed.
Lemma erase_enter_arg : forall st, erase (enter_argF st) = enter_arg (erase st).
Proof. reflexivity. Qed.

Lemma new_closingF_until : forall l, new_closingF l = until_funF l.
Proof.
  intros l. unfold new_closingF. destruct (existsb sf_fun l) eqn:E; [reflexivity|]. symmetry.
  induction l as [|s r IH]; simpl in *; [reflexivity|]. apply orb_false_iff in E. destruct E as [E1 E2]. rewrite E1. f_equal. auto.
Qed.

Lemma until_funF_idem : forall l, until_funF (until_funF l) = until_funF l.
Proof.
  induction l as [|s r IH]; simpl; [reflexivity|]. destruct (sf_fun s) eqn:E; simpl; rewrite E; [reflexivity|]. f_equal. apply IH.
Qed.

Lemma erase_create_closure : forall st, eraseFn (create_closureF st) = create_closure (erase st).
Proof.
  intros st. unfold create_closureF, create_closure, erase. simpl. f_equal. f_equal.
  rewrite new_closingF_until, new_closing_until_fun.
  induction (liveF st) as [|s r IH]; simpl; [reflexivity|]. destruct (sf_fun s); simpl; [reflexivity|]. f_equal. apply IH.
Qed.

(* ---- C: cov is established initially and by each transition (local statements) ---- *)

Theorem cov_init : cov init_istateF.
Proof. unfold cov. simpl. split; [apply incl_refl|apply incl_nil_l]. Qed.

(* a closure can be called whenever its parent chain is covered by its own captures *)
Definition wf_clos (f : fnF) : Prop :=
  match f with GSub false cl par => covered (segF cl) par | _ => False end.

Lemma cov_cur_covered : forall st, cov st ->
  covered (map sf_id (until_funF (liveF st))) (curF st).
Proof. intros st [H _]. destruct (curF st); [exact I|exact H]. Qed.

(* vm.go:CreateClosureInstr in a covered state yields a callable closure *)
Theorem cov_create_closure : forall st, cov st -> wf_clos (create_closureF st).
Proof.
  intros st H. unfold create_closureF, wf_clos, segF. rewrite new_closingF_until, until_funF_idem.
  apply cov_cur_covered. assumption.
Qed.

(* AddScopeInstr *)
Theorem cov_add_scope : forall id st, cov st -> cov (add_scopeF id st).
Proof.
  intros id st [Hc Ht]. unfold cov, add_scopeF. simpl. split.
  - destruct (curF st) as [cl|ps cl par].
    + apply incl_tl. exact Hc.
    + apply (covered_mono (GSub ps cl par) (map sf_id (until_funF (liveF st)))); [|exact Hc]. apply incl_tl. apply incl_refl.
  - intros i Hi. right. apply Ht. exact Hi.
Qed.

(* EvalCallExpression: the callExprEval function captures what the live stack already shows *)
Theorem cov_enter_arg : forall st, cov st -> cov (enter_argF st).
Proof.
  intros st H. pose proof (cov_cur_covered st H) as Hcur. destruct H as [Hc Ht].
  unfold cov, enter_argF, enter_fnF, pseudoF. simpl. split.
  - split; [|exact Hcur]. unfold segF. rewrite new_closingF_until, until_funF_idem. apply incl_refl.
  - exact Ht.
Qed.

(* CallFunction + AddFuncScopeInstr of a callable closure whose template captured nothing outside
   the closure's own chain *)
Theorem cov_call : forall f id tmpl st, wf_clos f -> incl tmpl (corep f) ->
  cov (add_func_scopeF id tmpl (enter_fnF f st)).
Proof.
  intros f id tmpl st Hw Ht. destruct f as [cl|ps cl par]; [contradiction|]. destruct ps; [contradiction|].
  unfold cov, add_func_scopeF, enter_fnF. simpl. split.
  - apply (covered_mono par (segF cl)); [|exact Hw]. apply incl_tl. apply incl_refl.
  - intros i Hi. right. apply Ht. exact Hi.
Qed.

(* the self tail call: k scopes (the extra scopes and the function scope) are removed, a new function
   scope is added, the current function stays *)
Lemma pop_scopesF_cur : forall k st, curF (pop_scopesF k st) = curF st.
Proof. induction k as [|k IH]; intros st; simpl; [reflexivity|]. rewrite IH. reflexivity. Qed.

Theorem cov_tail_call : forall k id tmpl st cl par, curF st = GSub false cl par -> wf_clos (curF st) ->
  incl tmpl (corep (curF st)) ->
  cov (add_func_scopeF id tmpl (pop_scopesF k st)).
Proof.
  intros k id tmpl st cl par Hc Hw Ht.
  unfold cov, add_func_scopeF. simpl. rewrite pop_scopesF_cur. rewrite Hc in *. split.
  - simpl in Hw. apply (covered_mono par (segF cl)); [|exact Hw]. apply incl_tl. apply incl_refl.
  - intros i Hi. right. apply Ht. exact Hi.
Qed.

(* cov depends on the live stack and the current function only: leaving a scope, returning from a call
   and finishing an argument restore an earlier (live stack, current function) pair, for which cov held *)
Theorem cov_restore : forall st0 st1, cov st0 -> liveF st1 = liveF st0 -> curF st1 = curF st0 -> cov st1.
Proof. intros st0 st1 H Hl Hc. unfold cov in *. rewrite Hl, Hc. exact H. Qed.

(* ---- the decidable form of cov used by the replay ---- *)
Lemma inclb_sound : forall a b, inclb a b = true -> incl a b.
Proof.
  unfold inclb. intros a b H i Hi. rewrite forallb_forall in H. specialize (H i Hi).
  apply existsb_exists in H. destruct H as (j & Hj & E). apply Nat.eqb_eq in E. subst. assumption.
Qed.

Lemma coveredb_sound : forall f a, coveredb a f = true -> covered a f.
Proof.
  induction f as [cl|ps cl par IH]; intros a H; simpl in *; [exact I|]. destruct ps.
  - apply andb_prop in H. destruct H as [H1 H2]. split; [apply inclb_sound; assumption|apply IH; assumption].
  - apply IH. assumption.
Qed.

Theorem covb_sound : forall st, covb st = true -> cov st.
Proof.
  intros st H. unfold covb in H. apply andb_prop in H. destruct H as [H1 H2]. split.
  - destruct (curF st); [apply inclb_sound; assumption|apply coveredb_sound; assumption].
  - apply inclb_sound. assumption.
Qed.

Theorem call_premise_sound : forall tmpl f, call_premise_b tmpl f = true -> incl tmpl (corep f).
Proof. intros. apply inclb_sound. assumption. Qed.

(* ================================================================= 6. the faithful layer over event sequences *)
(* The local cov lemmas assembled: the events of section 4, on the faithful machine.  The frames are the
   jframes of section 4 (static chain, base chain, call flag, depth), so that one run carries both
   invariants: inv on the erased state (section 4) and cov on the faithful state.  The pool is the set of
   closures created so far (CreateClosureInstr); only those are called.  The one premise that is not
   derived is  incl tmpl (corep f)  at a function entry: the template of the function scope captured
   nothing outside the chain of the closure being entered.  It is a fact about the generator (templates
   are created at compile time in the scope in which the closure is later created); the replay tests it
   at every function entry of every run (call_premise_b). *)

Definition covLC (l : list scopeF) (c : fnF) : Prop := cov (mkIF l c []).

Lemma cov_covLC : forall st, cov st -> covLC (liveF st) (curF st).
Proof. intros st H. unfold covLC. eapply cov_restore; [exact H|reflexivity|reflexivity]. Qed.
Lemma covLC_cov : forall st, covLC (liveF st) (curF st) -> cov st.
Proof. intros st H. unfold covLC in H. eapply cov_restore; [exact H|reflexivity|reflexivity]. Qed.

(* a function scope of a callable closure: whatever lies below it on the live stack *)
Lemma covLC_func_scope : forall c id tmpl l, wf_clos c -> incl tmpl (corep c) ->
  covLC (mkScopeF id true tmpl :: l) c.
Proof.
  intros c id tmpl l Hw Ht. destruct c as [cl|ps cl par]; [contradiction|]. destruct ps; [contradiction|].
  unfold covLC, cov. simpl. split.
  - apply (covered_mono par (segF cl)); [|exact Hw]. apply incl_tl. apply incl_refl.
  - intros i Hi. right. apply Ht. exact Hi.
Qed.

Local Open Scope nat_scope.
Definition callw (fr : jframe) : nat := if jf_call fr then 1 else 0.

(* per frame: cov holds for the live stack with any number of the frame's own block scopes removed (that
   is what RemoveScopeInstr, break and continue go back to); a call frame runs a callable closure *)
Fixpoint cstack_ok (frs : list jframe) (lv : list scopeF) (c : fnF) (sv : list fnF) : Prop :=
  match frs with
  | [] => False
  | fr :: rest =>
    (forall k, k + callw fr <= jf_depth fr -> covLC (skipn k lv) c) /\
    (jf_call fr = true -> wf_clos c /\ 1 <= jf_depth fr) /\
    match rest with
    | [] => sv = []
    | _ :: _ => match sv with c2 :: sv' => cstack_ok rest (skipn (jf_depth fr) lv) c2 sv' | [] => False end
    end
  end.

Definition invF (frs : list jframe) (pool : list fnF) (st : istateF) : Prop :=
  cstack_ok frs (liveF st) (curF st) (savedF st) /\ Forall wf_clos pool.

Lemma invF_cov : forall frs pool st, invF frs pool st -> cov st.
Proof.
  intros frs pool st [H _]. destruct frs as [|fr rest]; [contradiction|]. destruct H as (C & W & _).
  apply covLC_cov. apply (C O). unfold callw. destruct (jf_call fr); [destruct (W eq_refl); lia|lia].
Qed.

Theorem invF_init : invF [mkJ [O] [] false O] [] init_istateF.
Proof.
  split; [|constructor]. simpl. split; [|split]; [|discriminate|reflexivity].
  intros k Hk. unfold callw in Hk. simpl in Hk. assert (k = O) by lia. subst. apply cov_init.
Qed.

Inductive fstep : list jframe * list fnF * istateF -> list jframe * list fnF * istateF -> Prop :=
| F_enter_scope : forall fr rest pool st id,
    fstep (fr :: rest, pool, st)
          (upd_env fr (id :: jf_env fr) (S (jf_depth fr)) :: rest, pool, add_scopeF id st)
| F_leave_scope : forall fr rest pool st id t r d,
    liveF st = mkScopeF id false t :: r -> jf_depth fr = S d -> (jf_call fr = true -> 1 <= d) ->
    fstep (fr :: rest, pool, st) (upd_env fr (tl (jf_env fr)) d :: rest, pool, remove_scopeF st)
| F_enter_arg : forall fr rest pool st,
    fstep (fr :: rest, pool, st) (mkJ (jf_env fr) [] false O :: fr :: rest, pool, enter_argF st)
| F_leave_arg : forall fr rest pool st,
    jf_call fr = false -> jf_depth fr = O -> rest <> [] ->
    fstep (fr :: rest, pool, st) (rest, pool, leave_fnF st)
| F_create_closure : forall frs pool st,               (* CreateClosureInstr: the closure joins the pool *)
    fstep (frs, pool, st) (frs, create_closureF st :: pool, st)
| F_call : forall frs pool st f id tmpl,               (* a closure of the pool; the tested premise *)
    In f pool -> incl tmpl (corep f) ->
    fstep (frs, pool, st)
          (mkJ (id :: corep f) (corep f) true 1 :: frs, pool, add_func_scopeF id tmpl (enter_fnF f st))
| F_return : forall fr rest pool st,
    jf_call fr = true -> jf_depth fr = 1%nat -> rest <> [] ->
    fstep (fr :: rest, pool, st) (rest, pool, leave_fnF (remove_scopeF st))
| F_tail_call : forall fr rest pool st id tmpl,
    jf_call fr = true -> incl tmpl (corep (curF st)) ->
    fstep (fr :: rest, pool, st)
          (mkJ (id :: jf_base fr) (jf_base fr) true 1 :: rest, pool,
           add_func_scopeF id tmpl (pop_scopesF (jf_depth fr) st))
| F_def_set : forall frs pool st,
    fstep (frs, pool, st) (frs, pool, st).

Lemma pop_scopesF_live : forall k st, liveF (pop_scopesF k st) = skipn k (liveF st).
Proof.
  induction k as [|k IH]; intros st; simpl; [reflexivity|]. rewrite IH. simpl.
  destruct (liveF st); [destruct k; reflexivity|reflexivity].
Qed.
Lemma pop_scopesF_saved : forall k st, savedF (pop_scopesF k st) = savedF st.
Proof. induction k as [|k IH]; intros st; simpl; [reflexivity|]. rewrite IH. reflexivity. Qed.

Theorem invF_preserved : forall frs pool st frs' pool' st',
  invF frs pool st -> fstep (frs, pool, st) (frs', pool', st') -> invF frs' pool' st'.
Proof.
  intros frs pool st frs' pool' st' Hinv Hs. pose proof (invF_cov _ _ _ Hinv) as Hcov.
  inversion Hs as [fr rest p0 st0 id | fr rest p0 st0 id t r d Hlive Hd Hd1 | fr rest p0 st0 | fr rest p0 st0 Hc Hd Hr
                  | frs0 p0 st0 | frs0 p0 st0 f id tmpl Hin Ht | fr rest p0 st0 Hc Hd Hr
                  | fr rest p0 st0 id tmpl Hc Ht | frs0 p0 st0];
    subst; clear Hs; destruct Hinv as [Hst Hpool]; (split; [|try exact Hpool]).
  - (* enter scope *)
    destruct Hst as (C & W & Rest). simpl. split; [|split].
    + intros k Hk. unfold callw in *. simpl in Hk. destruct k as [|k].
      * simpl. apply (cov_covLC (add_scopeF id st)). apply cov_add_scope. exact Hcov.
      * simpl. apply C. lia.
    + simpl. intros Hc. destruct (W Hc). split; [assumption|lia].
    + destruct rest; exact Rest.
  - (* leave scope *)
    destruct Hst as (C & W & Rest). simpl. rewrite Hlive in *. simpl. split; [|split].
    + intros k Hk. unfold callw in *. simpl in Hk. specialize (C (S k)). simpl in C. apply C. lia.
    + simpl. intros Hc. destruct (W Hc). split; [assumption|auto].
    + rewrite Hd in Rest. simpl in Rest. exact Rest.
  - (* enter arg *)
    simpl. split; [|split].
    + intros k Hk. unfold callw in Hk. simpl in Hk. assert (k = O) by lia. subst k. simpl.
      apply (cov_covLC (enter_argF st)). apply cov_enter_arg. exact Hcov.
    + simpl. discriminate.
    + exact Hst.
  - (* leave arg *)
    destruct Hst as (C & W & Rest). destruct frs' as [|fr2 rest]; [congruence|].
    unfold leave_fnF. destruct (savedF st) as [|c2 sv']; [contradiction|]. simpl.
    rewrite Hd in Rest. simpl in Rest. exact Rest.
  - (* create closure *)
    exact Hst.
  - constructor; [|exact Hpool]. apply cov_create_closure. exact Hcov.
  - (* call *)
    assert (Hw : wf_clos f) by (rewrite Forall_forall in Hpool; apply Hpool; exact Hin).
    simpl. split; [|split].
    + intros k Hk. unfold callw in Hk. simpl in Hk. assert (k = O) by lia. subst k. simpl.
      apply covLC_func_scope; assumption.
    + simpl. intros _. split; [exact Hw|lia].
    + destruct frs as [|fr rest]; [contradiction|exact Hst].
  - (* return *)
    destruct Hst as (C & W & Rest). destruct frs' as [|fr2 rest]; [congruence|].
    unfold leave_fnF, remove_scopeF. simpl. destruct (savedF st) as [|c2 sv']; [contradiction|]. simpl.
    rewrite Hd in Rest. simpl in Rest. destruct (liveF st); exact Rest.
  - (* tail call *)
    destruct Hst as (C & W & Rest). destruct (W Hc) as [Hw _]. simpl.
    rewrite pop_scopesF_live, pop_scopesF_cur, pop_scopesF_saved. split; [|split].
    + intros k Hk. unfold callw in Hk. simpl in Hk. assert (k = O) by lia. subst k. simpl.
      apply covLC_func_scope; assumption.
    + simpl. intros _. split; [exact Hw|lia].
    + simpl. exact Rest.
  - exact Hst.
Qed.

(* every event of the faithful machine is, after erasure, the same event of the core machine *)
Lemma erase_pop_scopes : forall k st, erase (pop_scopesF k st) = pop_scopes k (erase st).
Proof. induction k as [|k IH]; intros st; simpl; [reflexivity|]. rewrite IH, erase_remove_scope. reflexivity. Qed.

Theorem fstep_erases : forall frs pool st frs' pool' st',
  fstep (frs, pool, st) (frs', pool', st') -> jstep (frs, erase st) (frs', erase st').
Proof.
  intros frs pool st frs' pool' st' Hs.
  inversion Hs as [fr rest p0 st0 id | fr rest p0 st0 id t r d Hlive Hd Hd1 | fr rest p0 st0 | fr rest p0 st0 Hc Hd Hr
                  | frs0 p0 st0 | frs0 p0 st0 f id tmpl Hin Ht | fr rest p0 st0 Hc Hd Hr
                  | fr rest p0 st0 id tmpl Hc Ht | frs0 p0 st0];
    subst; clear Hs.
  - rewrite erase_add_scope. constructor.
  - rewrite erase_remove_scope. eapply J_leave_scope with (id := id) (r := map eraseS r); [|exact Hd].
    unfold erase. simpl. rewrite Hlive. reflexivity.
  - rewrite erase_enter_arg. constructor.
  - rewrite erase_leave_fn. constructor; assumption.
  - apply J_def_set.
  - rewrite erase_add_func_scope, erase_enter_fn. apply J_call. apply pchain_erase.
  - rewrite erase_leave_fn, erase_remove_scope. constructor; assumption.
  - rewrite erase_add_func_scope, erase_pop_scopes. constructor. assumption.
  - apply J_def_set.
Qed.

Inductive fsteps : list jframe * list fnF * istateF -> list jframe * list fnF * istateF -> Prop :=
| fs_refl : forall j, fsteps j j
| fs_step : forall a b c, fstep a b -> fsteps b c -> fsteps a c.

Definition finit : list jframe * list fnF * istateF := ([mkJ [O] [] false O], [], init_istateF).

Theorem invF_reachable : forall frs pool st, fsteps finit (frs, pool, st) -> invF frs pool st.
Proof.
  intros frs pool st H.
  assert (G : forall a b, fsteps a b ->
            invF (fst (fst a)) (snd (fst a)) (snd a) -> invF (fst (fst b)) (snd (fst b)) (snd b)).
  { clear. intros a b H. induction H; intros Hi; [exact Hi|]. apply IHfsteps.
    destruct a as [[fa pa] sa], b as [[fb pb] sb]. simpl in *. eapply invF_preserved; eauto. }
  specialize (G _ _ H). simpl in G. apply G. apply invF_init.
Qed.

Theorem fsteps_erase : forall frs pool st, fsteps finit (frs, pool, st) ->
  jsteps ([mkJ [O] [] false O], init_istate) (frs, erase st).
Proof.
  intros frs pool st H.
  assert (G : forall a b, fsteps a b ->
            jsteps (fst (fst a), erase (snd a)) (fst (fst b), erase (snd b))).
  { clear. intros a b H. induction H; [apply js_refl|]. eapply js_step; [|exact IHfsteps].
    destruct a as [[fa pa] sa], b as [[fb pb] sb]. simpl. eapply fstep_erases; eauto. }
  specialize (G _ _ H). simpl in G. exact G.
Qed.

(* in every configuration the faithful machine reaches by these events, the REAL three-stage lookup
   (live stack to the function boundary; captured stacks of the current function and its parents,
   pseudo functions and mainfunc included; captured stack of the function scope's template) is lexical
   lookup on the static chain of the running code *)
Theorem reachable_lookupF_is_lexical : forall fs fr rest pool st x,
  fsteps finit (fr :: rest, pool, st) ->
  impl_lookupF fs st x = lookup_chain fs (jf_env fr) x.
Proof.
  intros fs fr rest pool st x H. apply lookup_is_lexical_faithful.
  - eapply invF_cov. apply invF_reachable. eassumption.
  - eapply inv_R. apply inv_reachable. apply fsteps_erase in H. exact H.
Qed.

(* and a closure created there captures that static chain and is callable (joins the pool as wf_clos) *)
Theorem reachable_closureF_captures : forall fr rest pool st,
  fsteps finit (fr :: rest, pool, st) ->
  corep (create_closureF st) = jf_env fr /\ wf_clos (create_closureF st).
Proof.
  intros fr rest pool st H. split.
  - rewrite <- pchain_erase, erase_create_closure. apply closure_captures_static_chain.
    eapply inv_R. apply inv_reachable. apply fsteps_erase in H. exact H.
  - apply cov_create_closure. eapply invF_cov. apply invF_reachable. eassumption.
Qed.
