(* C12: string / backtick / character literals denote exactly the runes written — proofs over Model/StrLit.v. *)
From Coq Require Import ZArith List Bool Lia.
From ZV Require Import Model.Regex Generated.LexTables Model.Lexer Model.Reader Model.Printer Model.PrinterPretty Model.StrLit
  Proofs.LexerProofs Proofs.ReaderProofs Proofs.PrinterLex Proofs.RegexSem Proofs.Classify Proofs.PrinterProofs
  Proofs.PrinterPretty.
Import ListNotations.
Open Scope Z_scope.

(* the table generated from lexer.go EscapeChar IS the documented table (breaks when EscapeChar changes) *)
Lemma escape_table_is_std : forall x, escape_char x = std_escape x.
Proof. intros x. reflexivity. Qed.

Lemma body_in_str : forall its rs s b t p, forallb (litem_wf 34) its = true -> denote its = Some rs ->
  view s LStrLit b t p ->
  exists s1 q, lex_all s (flat_map litem_text its) = LOk s1 /\ view s1 LStrLit (b ++ rs) t q.
Proof.
  induction its as [|it its IH]; intros rs s b t p W Dn V.
  - cbn in Dn. inversion Dn; subst. exists s, p. split; [reflexivity|]. rewrite app_nil_r. exact V.
  - cbn [forallb] in W. apply andb_prop in W. destruct W as [Wi Wr]. cbn [denote] in Dn.
    destruct (litem_rune it) as [c|] eqn:Ec; [|discriminate]. destruct (denote its) as [rs'|] eqn:Er; [|discriminate].
    inversion Dn; subst rs. clear Dn.
    assert (exists s1 q, lex_all s (litem_text it) = LOk s1 /\ view s1 LStrLit (b ++ [c]) t q) as [s1 [q [E1 V1]]].
    { destruct it as [r|x]; cbn [litem_text litem_rune litem_wf] in *.
      - inversion Ec; subst r. apply andb_prop in Wi. destruct Wi as [W1 W2].
        apply negb_true_iff in W1, W2. apply Z.eqb_neq in W1, W2.
        destruct (step_str_raw s b t p c W2 W1 V) as [s1 [E1 V1]].
        exists s1, c. split; [cbn [lex_all]; rewrite E1; reflexivity|exact V1].
      - rewrite <- escape_table_is_std in Ec. destruct (step_str_esc s b t p x c Ec V) as [s1 [E1 V1]].
        exists s1, x. split; assumption. }
    destruct (IH rs' s1 (b ++ [c]) t q Wr eq_refl V1) as [s2 [q2 [E2 V2]]].
    exists s2, q2. split.
    + cbn [flat_map]. rewrite lex_all_app, E1. exact E2.
    + rewrite <- app_assoc in V2. exact V2.
Qed.

(* any mixture of raw runes and escapes between double quotes is ONE string token holding the runes denoted *)
Theorem string_literal_lexes : forall its rs, forallb (litem_wf 34) its = true -> denote its = Some rs ->
  lexes_to (str_spelling its) [mkTok TString rs].
Proof.
  intros its rs W Dn s t p d Hdl _ V. unfold str_spelling.
  destruct (step_str_open s t p V) as [s1 [E1 V1]].
  destruct (body_in_str its rs s1 [] t 34 W Dn V1) as [s2 [q [E2 V2]]].
  destruct (step_str_close s2 _ t q V2) as [s3 [E3 V3]].
  destruct (step_delim0 s3 _ 34 d Hdl V3) as [s4 [E4 V4]].
  exists s4. split; [|rewrite <- app_assoc in V4; exact V4].
  cbn [app lex_all]. rewrite E1. rewrite <- app_assoc. rewrite lex_all_app, E2. cbn [app lex_all]. rewrite E3, E4. reflexivity.
Qed.

(* anything but a backtick between backticks *)
Theorem backtick_literal_lexes : forall rs, Forall (fun c => c <> 96) rs ->
  lexes_to (bt_spelling rs) [mkTok TBeginBacktickString []; mkTok TBacktickString rs].
Proof.
  intros rs F st t p d Hd _ V. unfold bt_spelling.
  destruct (step_bt_open st t p V) as [s1 [El1 V1]].
  destruct (run_bt rs s1 [] _ 96 F V1) as [s2 [q [El2 V2]]].
  destruct (step_bt_close s2 _ _ q V2) as [s3 [El3 V3]].
  destruct (step_delim0 s3 _ 96 d Hd V3) as [s4 [El4 V4]].
  exists s4. split.
  - cbn [app lex_all]. rewrite El1. rewrite <- app_assoc. rewrite lex_all_app, El2. cbn [app lex_all]. rewrite El3, El4. reflexivity.
  - cbn [app] in V4. rewrite <- !app_assoc in V4. cbn [app] in *. exact V4.
Qed.

Theorem char_literal_lexes : forall it c, litem_wf 39 it = true -> litem_rune it = Some c -> 0 <= c <= 1114111 ->
  lexes_to (chr_spelling it) [mkTok TChar [c]].
Proof.
  intros it c W Hc Hr. destruct it as [r|x]; cbn [litem_rune litem_wf chr_spelling litem_text app] in *.
  - inversion Hc; subst r. apply andb_prop in W. destruct W as [W1 W2].
    apply negb_true_iff in W1, W2. apply Z.eqb_neq in W1, W2. apply char_denotes_raw; assumption.
  - rewrite <- escape_table_is_std in Hc. apply char_denotes_esc; assumption.
Qed.

(* ---- and the reader returns the string / character ---- *)

Definition all_print (c : Z) : bool := true.
Definition scalar (c : Z) : Prop := 0 <= c <= 1114111.

Lemma dat_str_raw : forall rs, Forall scalar rs -> dat all_print false (VStr (map Rune rs)).
Proof.
  intros rs F. cbn [dat]. apply Forall_forall. intros it Hit. apply in_map_iff in Hit. destruct Hit as [c [Hc Hin]]. subst it.
  rewrite Forall_forall in F. split; [apply F; assumption|]. right; right; left; reflexivity.
Qed.

Lemma map_rune_id : forall rs, map item_rune (map Rune rs) = rs.
Proof. intros. rewrite map_map. cbn [item_rune]. apply map_id. Qed.

Theorem string_literal_denotes : forall its rs fuel, forallb (litem_wf 34) its = true -> denote its = Some rs ->
  Forall scalar rs -> (4 <= fuel)%nat ->
  observe (parse_whole true false fuel (str_spelling its)) = (StDone, [SStr false rs]).
Proof.
  intros its rs fuel W Dn F Hf.
  pose proof (parse_of_lexes all_print (VStr (map Rune rs)) fuel (str_spelling its) (dat_str_raw rs F)) as H.
  cbn [vsize tk to_sexp] in H. rewrite map_rune_id in H. apply H; [lia|]. apply string_literal_lexes; assumption.
Qed.

Theorem backtick_literal_denotes : forall rs fuel, Forall (fun c => c <> 96) rs -> (4 <= fuel)%nat ->
  observe (parse_whole true false fuel (bt_spelling rs)) = (StDone, [SStr true rs]).
Proof.
  intros rs fuel F Hf.
  assert (dat all_print false (VBStr (map Rune rs))) as D.
  { cbn [dat]. apply Forall_forall. intros it Hit. apply in_map_iff in Hit. destruct Hit as [c [Hc Hin]]. subst it.
    rewrite Forall_forall in F. cbn. apply F. exact Hin. }
  pose proof (parse_of_lexes all_print (VBStr (map Rune rs)) fuel (bt_spelling rs) D) as H.
  cbn [vsize tk to_sexp] in H. rewrite map_rune_id in H. apply H; [lia|]. apply backtick_literal_lexes; assumption.
Qed.

Theorem char_literal_denotes : forall it c fuel, litem_wf 39 it = true -> litem_rune it = Some c -> scalar c -> (4 <= fuel)%nat ->
  observe (parse_whole true false fuel (chr_spelling it)) = (StDone, [SChar c]).
Proof.
  intros it c fuel W Hc Hr Hf.
  assert (dat all_print false (VChar c)) as D by (cbn [dat]; split; [exact Hr|right; right; left; reflexivity]).
  pose proof (parse_of_lexes all_print (VChar c) fuel (chr_spelling it) D) as H.
  cbn [vsize tk to_sexp] in H. apply H; [lia|]. apply char_literal_lexes; assumption.
Qed.
