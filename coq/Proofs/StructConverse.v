(* C17 - the converse of StructRefine: on the domain exact_dom the model of the code accepts whatever the
   specification accepts (so there code and specification accept EXACTLY the same writes, with the same resulting
   state), and the store discipline of HashSet (nothing is stored without an accepted TypeCheckField). *)
From Coq Require Import ZArith Bool List Arith Lia.
Import ListNotations.
Require Import ZV.Model.Struct ZV.Model.StructExact ZV.Proofs.StructProofs ZV.Proofs.StructRefine.

(* ---------- the creation-time type against the language's Type() ---------- *)
Lemma spec_type_of_code st : forall v t, typeful st v = true -> spec_type_of st v = Some t ->
  exists t', type_of st v = TSome t' /\ regname t' = regname t /\ ((forall id, v <> VInst id) -> t' = t).
Proof.
  induction v as [|n|n|n|b| | | |l HF|id|id|n] using value_ind'; intros t F S; simpl in S; try discriminate;
    try (inversion S; subst; eexists; split; [reflexivity | split; [reflexivity | auto]]; fail).
  - (* arrays *)
    destruct l as [|x r].
    + inversion S; subst. eexists; split; [reflexivity | split; auto].
    + inversion HF as [|? ? Px Pr]; subst.
      destruct (spec_type_of st x) as [tx|] eqn:SX; [|discriminate]. inversion S; subst t.
      change (typeful st (VArr (x :: r))) with (negb (arr_fallback x (type_of st x)) && typeful st x) in F.
      apply andb_prop in F as [F1 F2].
      destruct (Px tx F2 eq_refl) as [tx' [T1 [T2 _]]].
      exists (TNamed (NSlice (regname tx'))).
      change (type_of st (VArr (x :: r))) with (arr_type x (type_of st x)).
      apply negb_true_iff in F1. unfold arr_type. rewrite F1. rewrite T1. rewrite T2. auto.
  - (* instance *)
    simpl in F |- *. destruct (alookup id (st_store st)) as [i|]; [|discriminate].
    destruct (alookup (i_tname i) (st_reg st)) as [e|]; [|discriminate].
    inversion S; subst. eexists; split; [reflexivity|]. split; [reflexivity|].
    intros N. exfalso. apply (N id); auto.
  - (* pointer *)
    simpl. destruct (alookup id (st_store st)) as [i|]; [|discriminate].
    inversion S; subst. eexists; split; [reflexivity | split; [reflexivity | auto]].
Qed.

(* the written rule implies TypeCheckField's acceptance *)
Lemma conforms_check_value st dt v :
  value_clean st v = true -> typeful st v = true -> wf_ty dt = true ->
  spec_conforms st v dt = true -> check_value st dt v = VOk.
Proof.
  intros C F W S.
  assert (G : v <> VNil -> v <> VArr [] -> check_value st dt v = VOk).
  { intros N1 N2. rewrite spec_conforms_unfold in S by assumption.
    destruct (spec_type_of st v) as [t|] eqn:ST; [|discriminate].
    apply ty_eqb_eq in S. subst t.
    destruct (spec_type_of_code st v dt F ST) as [t' [T1 [T2 T3]]].
    assert (E : t' = dt).
    { destruct v as [|n|n|n|b| | | |l|id|id|n]; try (apply T3; intros; discriminate).
      simpl in C, T1, ST.
      destruct (alookup id (st_store st)) as [i|]; [|discriminate].
      destruct (alookup (i_tname i) (st_reg st)) as [e|]; [|discriminate].
      apply gen_eqb_eq in C. inversion T1; inversion ST; subst. rewrite C. auto. }
    subst t'. unfold check_value. rewrite T1. rewrite ty_eqb_refl. auto. }
  destruct v as [|n|n|n|b| | | |l|id|id|n]; try (apply G; discriminate).
  - reflexivity.
  - destruct l; [|apply G; discriminate].
    unfold check_value. change (type_of st (VArr [])) with (TSome (TNamed NEmpty)). cbv beta iota.
    destruct (ty_eqb (TNamed NEmpty) dt); auto.
    change (spec_conforms st (VArr []) dt) with (is_slice_name (regname dt)) in S. rewrite S. reflexivity.
Qed.

Theorem check_value_exact st dt v :
  value_clean st v = true -> typeful st v = true -> wf_ty dt = true ->
  (check_value st dt v = VOk <-> spec_conforms st v dt = true).
Proof.
  intros C F W. split.
  - apply check_value_conforms; auto.
  - apply conforms_check_value; auto.
Qed.

(* ---------- TypeCheckField / HashSet on an instance that holds a definition ---------- *)
Lemma spec_check_tcf st i d k v :
  re_defn (i_fac i) = Some d -> forallb (fun ft => wf_ty (snd ft)) d = true ->
  value_clean st v = true -> typeful st v = true ->
  spec_check st i k v = SOk -> type_check_field st i k v = (VOk, i).
Proof.
  intros D W C F S. unfold spec_check in S. unfold type_check_field.
  destruct k as [f|n|n]; try (rewrite D in S; discriminate).
  rewrite (adopt_typed _ _ _ D). rewrite D in S |- *.
  destruct (lookup_field d f) as [dt|] eqn:L; [|discriminate].
  destruct (spec_conforms st v dt) eqn:SC.
  - rewrite (conforms_check_value st dt v C F (lookup_field_wf _ _ _ W L) SC). reflexivity.
  - destruct (stale_match st v dt); [discriminate|]. destruct (spec_type_of st v); discriminate.
Qed.

Lemma spec_check_hash_set st i d k v :
  re_defn (i_fac i) = Some d -> forallb (fun ft => wf_ty (snd ft)) d = true ->
  value_clean st v = true -> typeful st v = true ->
  spec_check st i k v = SOk -> hash_set st i k v = (VOk, spec_set i k v).
Proof.
  intros D W C F S. unfold hash_set. rewrite (spec_check_tcf st i d k v D W C F S). reflexivity.
Qed.

Lemma spec_check_fac st i i' k v : i_fac i = i_fac i' -> spec_check st i k v = spec_check st i' k v.
Proof. unfold spec_check. intros E. rewrite E. reflexivity. Qed.

Lemma spec_set_all_typed st d : forall args i y,
  re_defn (i_fac i) = Some d -> forallb (fun ft => wf_ty (snd ft)) d = true ->
  (forall k v, In (k, v) args -> value_clean st v = true /\ typeful st v = true) ->
  spec_set_all st i args = (SOk, y) ->
  hash_set_all st i args = (VOk, y) /\ i_fac y = i_fac i /\
  (forall k v, In (k, v) args -> spec_check st i k v = SOk).
Proof.
  induction args as [|[k v] r IH]; simpl; intros i y D W C H.
  - inversion H; subst. repeat split; auto. intros; contradiction.
  - destruct (C k v (or_introl eq_refl)) as [CV FV].
    destruct (spec_check st i k v) eqn:S; [|discriminate].
    rewrite (spec_check_hash_set _ _ _ _ _ D W CV FV S).
    assert (D' : re_defn (i_fac (spec_set i k v)) = Some d) by (simpl; auto).
    destruct (IH (spec_set i k v) y D' W (fun k0 v0 I => C k0 v0 (or_intror I)) H) as [A [B E]].
    split; [exact A|]. split; [rewrite B; reflexivity|].
    intros k0 v0 [X|X]; [inversion X; subst; auto|].
    rewrite (spec_check_fac st i (spec_set i k v)); auto.
Qed.

Lemma check_record_from_spec st i d :
  re_defn (i_fac i) = Some d -> forallb (fun ft => wf_ty (snd ft)) d = true ->
  forall l,
  (forall k v, In (k, v) l -> value_clean st v = true /\ typeful st v = true /\ spec_check st i k v = SOk) ->
  check_record st i l = VOk.
Proof.
  intros D W. induction l as [|[k v] r IH]; simpl; intros H; auto.
  destruct (H k v (or_introl eq_refl)) as [C [F S]].
  rewrite (spec_check_tcf st i d k v D W C F S). simpl.
  apply IH. intros k0 v0 I. apply H. right; auto.
Qed.

(* a record without definition (and none to adopt) stores everything *)
Lemma hash_set_all_bare_total st : forall args i,
  (forall e, alookup (i_tname i) (st_reg st) = Some e -> re_defn e = None) ->
  re_defn (i_fac i) = None ->
  exists y, hash_set_all st i args = (VOk, y).
Proof.
  induction args as [|[k v] r IH]; simpl; intros i R D.
  - eexists; reflexivity.
  - assert (A : adopt st i = i).
    { unfold adopt. rewrite D. destruct (alookup (i_tname i) (st_reg st)) as [e|] eqn:E; auto.
      rewrite (R e eq_refl). auto. }
    assert (HS : exists y, hash_set st i k v = (VOk, y) /\ i_tname y = i_tname i /\ i_fac y = i_fac i).
    { unfold hash_set, type_check_field. destruct k; try (rewrite D; eexists; split; [reflexivity | simpl; auto]).
      rewrite A. rewrite D. eexists; split; [reflexivity | simpl; auto]. }
    destruct HS as [y [HS [N F]]]. rewrite HS.
    apply (IH y); [intros e0 E0; rewrite N in E0; auto | congruence].
Qed.

(* ---------- MakeHash ---------- *)
Lemma spec_make_model st s args i reg' :
  reg_okb (st_reg st) = true ->
  (forall k v, In (k, v) args -> value_clean st v = true /\ typeful st v = true) ->
  spec_make st s args = (SOk, i, reg') -> exists i' r', make_hash st s args = (VOk, i', r').
Proof.
  unfold make_hash, spec_make. intros R C H.
  remember {| i_tname := s;
              i_fac := match alookup s (st_reg st) with
                       | Some e => e
                       | None => {| re_gen := GBare (st_clock st); re_defn := None |}
                       end;
              i_fields := [] |} as i0.
  destruct (spec_set_all st i0 args) as [sv y] eqn:SA.
  assert (sv = SOk) by (inversion H; auto). subst sv.
  destruct (alookup s (st_reg st)) as [e|] eqn:E.
  - destruct (re_defn e) as [d|] eqn:DE.
    + assert (D0 : re_defn (i_fac i0) = Some d) by (subst i0; auto).
      assert (W : forallb (fun ft => wf_ty (snd ft)) d = true).
      { pose proof (reg_okb_lookup _ _ _ R E) as O. unfold entry_okb in O. rewrite DE in O. auto. }
      destruct (spec_set_all_typed st d args i0 y D0 W C SA) as [HA [FY SC]].
      rewrite HA.
      assert (DY : re_defn (i_fac y) = Some d) by (rewrite FY; auto).
      destruct (hash_set_all_fields _ _ _ _ _ HA) as [_ FL].
      rewrite (check_record_from_spec st y d DY W (i_fields y)).
      * eexists; eexists; reflexivity.
      * intros k v I. destruct (FL _ _ I) as [I2|I2]; [|subst i0; simpl in I2; contradiction].
        destruct (C _ _ I2) as [C1 C2]. repeat split; auto.
        rewrite (spec_check_fac st y i0); auto.
    + destruct (hash_set_all_bare_total st args i0) as [y' HA].
      * subst i0; simpl. intros e0 E0. rewrite E in E0. inversion E0; subst; auto.
      * subst i0; simpl; auto.
      * rewrite HA. eexists; eexists; reflexivity.
  - destruct (hash_set_all_bare_total st args i0) as [y' HA].
    + subst i0; simpl. intros e0 E0. rewrite E in E0. discriminate.
    + subst i0; simpl; auto.
    + rewrite HA. eexists; eexists; reflexivity.
Qed.

(* ---------- every operation ---------- *)
Opaque spec_check.
Theorem spec_accepts_model_accepts st o :
  invb st = true -> clean st o = true -> exact_dom st o = true ->
  fst (spec_step_op st o) = SOk -> fst (step_op st o) = OK.
Proof.
  unfold invb. intros I C X. apply andb_prop in I as [R I].
  destruct o as [s l|id s args|r id k v|id f g v|id k|id v|ko id s args|pid id|pid v|s]; simpl.
  - (* Declare *)
    destruct (declare st s l) as [oc st']. destruct oc; simpl; auto; discriminate.
  - (* Construct *)
    simpl in C, X. apply andb_prop in C as [CF CV].
    destruct (alookup s (st_reg st)) as [e|]; [|discriminate].
    destruct (negb (bound_entry e)); [discriminate|].
    destruct (negb (forallb _ args)); [discriminate|].
    destruct (spec_make st s args) as [[sv i] reg] eqn:M.
    destruct sv; simpl; [|discriminate]. intros _.
    destruct (spec_make_model st s args i reg R) as [i' [r' MM]]; auto.
    { intros k v IN. split; [eapply forallb_values_clean; eauto|].
      rewrite forallb_forall in X. apply (X (k, v)); auto. }
    rewrite MM. reflexivity.
  - (* Write *)
    simpl in C, X. apply andb_prop in C as [CV CT].
    destruct (route_key_ok r k) eqn:RK; simpl.
    + destruct (negb (value_ok st v)); [discriminate|].
      unfold target_typed in CT.
      destruct (alookup id (st_store st)) as [i|] eqn:A; [|discriminate].
      destruct (spec_check st i k v) eqn:S; [|discriminate]. intros _.
      unfold typed_inst in CT. destruct (re_defn (i_fac i)) as [d|] eqn:D; try discriminate.
      rewrite (spec_check_hash_set st i d k v D (typed_wf _ _ _ _ I A D) CV X S). reflexivity.
    + destruct (negb (value_ok st v)); [discriminate|].
      destruct (alookup id (st_store st)) as [i|]; [|discriminate].
      destruct (spec_check st i k v); discriminate.
  - (* Nested *)
    simpl in C, X. apply andb_prop in C as [CV CT].
    destruct (negb (value_ok st v)); [discriminate|].
    destruct (alookup id (st_store st)) as [i|] eqn:A; [|discriminate].
    destruct (flookup (KSym f) (i_fields i)) as [x|]; [|discriminate].
    destruct x; try discriminate; auto.
    destruct (alookup id0 (st_store st)) as [ij|] eqn:AJ; [|discriminate].
    destruct (spec_check st ij (KSym g) v) eqn:S; [|discriminate]. intros _.
    unfold target_typed in CT. rewrite AJ in CT.
    unfold typed_inst in CT. destruct (re_defn (i_fac ij)) as [d|] eqn:D; try discriminate.
    rewrite (spec_check_hash_set st ij d (KSym g) v D (typed_wf _ _ _ _ I AJ D) CV X S). reflexivity.
  - (* Delete *)
    destruct (alookup id (st_store st)) as [i|]; [auto | discriminate].
  - (* DerefSet *)
    destruct (alookup id (st_store st)) as [i|] eqn:A; [|discriminate].
    repeat match goal with
           | |- context [if negb ?b then _ else _] => destruct b; simpl; [|discriminate]
           end.
    destruct v; try discriminate.
    destruct (alookup id0 (st_store st)) as [ij|] eqn:AJ; [|discriminate].
    destruct (Nat.eqb (i_tname i) (i_tname ij)); [|discriminate]. auto.
  - (* Decode *)
    simpl in C, X. apply andb_prop in C as [CF CV].
    destruct (negb (forallb _ args)); [discriminate|].
    destruct (spec_make st s _) as [[sv i] reg] eqn:M.
    destruct sv; simpl; [|discriminate]. intros _.
    destruct (spec_make_model st s (map (fun kv : nat * value => (KSym (fst kv), snd kv)) (sort_args args)) i reg R) as [i' [r' MM]]; [|exact M|].
    { intros k v0 IN. apply in_map_iff in IN as [[f0 v1] [EQ IN]]. inversion EQ; subst.
      apply sort_args_in in IN. rewrite forallb_forall in CV, X.
      split; [apply (CV (f0, v0)) | apply (X (f0, v0))]; auto. }
    rewrite MM. reflexivity.
  - (* TakePtr *)
    destruct (take_ptr st pid id) as [oc st']. destruct oc; simpl; auto; discriminate.
  - (* DerefSetP *)
    simpl in X. unfold ptr_fresh in X.
    destruct (alookup pid (st_ptrs st)) as [[id [s g]]|] eqn:P; [|simpl; discriminate].
    destruct (alookup id (st_store st)) as [i|] eqn:A; [|simpl; discriminate].
    destruct (negb (value_ok st v)); [simpl; discriminate|].
    destruct v; try (simpl; discriminate).
    destruct (alookup id0 (st_store st)) as [ij|] eqn:AJ; [|simpl; discriminate].
    destruct (Nat.eqb (i_tname i) (i_tname ij)) eqn:EN; [|simpl; discriminate].
    destruct (gen_eqb (re_gen (i_fac i)) (re_gen (i_fac ij))); [|simpl; discriminate]. intros _.
    apply andb_prop in X as [X1 X2]. apply Nat.eqb_eq in X1, EN.
    unfold ptr_matches. rewrite <- EN, <- X1.
    destruct (alookup s (st_reg st)) as [e|]; [|discriminate].
    rewrite Nat.eqb_refl, X2. reflexivity.
  - (* DeclareBad *)
    discriminate.
Qed.
Transparent spec_check.

Theorem spec_refines_model st o :
  invb st = true -> clean st o = true -> exact_dom st o = true ->
  fst (spec_step st o) = SOk -> step st o = (OK, snd (spec_step st o)).
Proof.
  intros I C X. unfold step, spec_step.
  pose proof (spec_accepts_model_accepts st o I C X) as H.
  pose proof (step_op_refines st o I C) as G.
  destruct (spec_step_op st o) as [sv st1] eqn:E1. destruct (step_op st o) as [oc st2] eqn:E2.
  simpl in *. intros ->. rewrite (H eq_refl) in *. specialize (G eq_refl). inversion G; subst. reflexivity.
Qed.

Theorem accept_iff st o :
  invb st = true -> clean st o = true -> exact_dom st o = true ->
  (fst (step st o) = OK <-> fst (spec_step st o) = SOk).
Proof.
  intros I C X. split; intros H.
  - rewrite (model_refines_spec st o I C H). reflexivity.
  - rewrite (spec_refines_model st o I C X H). reflexivity.
Qed.

(* ---------- the store discipline of HashSet: nothing is stored without an accepted TypeCheckField ---------- *)
Theorem hash_set_store_checked st i k v i' :
  hash_set st i k v = (VOk, i') ->
  i_fields i' = fset k v (i_fields i) /\
  (fst (type_check_field st i k v) = VOk \/
   (fst (type_check_field st i k v) = VNotSym /\ re_defn (i_fac i') = None)).
Proof.
  unfold hash_set. destruct (type_check_field st i k v) as [x y] eqn:T.
  destruct (tcf_fields _ _ _ _ _ _ T) as [F _].
  destruct x; simpl.
  - intros H; inversion H; subst; simpl. rewrite F. auto.
  - discriminate.
  - destruct (re_defn (i_fac y)) eqn:D; [discriminate|].
    intros H; inversion H; subst; simpl. rewrite F. auto.
Qed.

Theorem hash_set_rejected_keeps_fields st i k v vd i' :
  hash_set st i k v = (vd, i') -> vd <> VOk -> i_fields i' = i_fields i.
Proof.
  unfold hash_set. destruct (type_check_field st i k v) as [x y] eqn:T.
  destruct (tcf_fields _ _ _ _ _ _ T) as [F _].
  destruct x; [| |destruct (re_defn (i_fac y))]; intros H N; inversion H; subst; simpl; auto; congruence.
Qed.

(* every route of the model stores through hash_set: a Write / Nested step that changes the fields of an
   instance is an accepted hash_set of that instance *)
Theorem write_routes_go_through_hash_set st r id k v i :
  alookup id (st_store st) = Some i ->
  fst (step_op st (Write r id k v)) = OK ->
  exists i', hash_set st i k v = (VOk, i') /\ snd (step_op st (Write r id k v)) = put st id i'.
Proof.
  intros A. simpl. destruct (negb (route_key_ok r k)); [discriminate|].
  destruct (negb (value_ok st v)); [discriminate|]. rewrite A.
  destruct (hash_set st i k v) as [vd i'] eqn:HS. simpl. intros O.
  pose proof (of_verdict_ok _ _ _ _ _ _ HS O). subst vd. eexists; split; eauto.
Qed.
