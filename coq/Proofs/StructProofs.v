(* C17 - proofs about Model/Struct.v *)
From Coq Require Import ZArith Bool List Arith Lia.
Import ListNotations.
Require Import ZV.Model.Struct.

(* ---------- boolean equalities ---------- *)
Lemma base_eqb_eq a b : base_eqb a b = true -> a = b.
Proof. destruct a, b; simpl; congruence. Qed.
Lemma tname_eqb_eq : forall a b, tname_eqb a b = true -> a = b.
Proof.
  induction a; intros b0; destruct b0; simpl; intros H; try discriminate.
  - f_equal; apply base_eqb_eq; auto.
  - apply Nat.eqb_eq in H; subst; auto.
  - f_equal; auto.
  - f_equal; auto.
  - auto.
Qed.
Lemma gen_eqb_eq a b : gen_eqb a b = true -> a = b.
Proof. destruct a, b; simpl; intros H; try discriminate; apply Nat.eqb_eq in H; subst; auto. Qed.
Lemma ty_eqb_eq a b : ty_eqb a b = true -> a = b.
Proof.
  destruct a, b; simpl; intros H; try discriminate.
  - f_equal; apply tname_eqb_eq; auto.
  - apply andb_prop in H as [H1 H2]. apply Nat.eqb_eq in H1. apply gen_eqb_eq in H2. subst; auto.
Qed.
Lemma key_eqb_eq a b : key_eqb a b = true -> a = b.
Proof.
  destruct a, b; simpl; intros H; try discriminate;
    try (apply Nat.eqb_eq in H; subst; reflexivity); apply Z.eqb_eq in H; subst; reflexivity.
Qed.
Lemma key_eqb_refl a : key_eqb a a = true.
Proof. destruct a; simpl; auto using Nat.eqb_refl, Z.eqb_refl. Qed.

(* ---------- induction over values (nested lists) ---------- *)
Lemma value_ind' (P : value -> Prop) :
  P VNil -> (forall n, P (VInt n)) -> (forall n, P (VFloat n)) -> (forall n, P (VStr n)) ->
  (forall b, P (VBool b)) -> P VSym -> P VList -> P VHash ->
  (forall l, Forall P l -> P (VArr l)) ->
  (forall id, P (VInst id)) -> (forall id, P (VPtr id)) -> (forall n, P (VPtrInt n)) ->
  forall v, P v.
Proof.
  intros H1 H2 H3 H4 H5 H6 H7 H8 HA H9 H10 H11.
  fix IH 1. intros v.
  destruct v as [|n|n|n|b| | | |l|id|id|n];
    [exact H1 | apply H2 | apply H3 | apply H4 | apply H5 | exact H6 | exact H7 | exact H8 | | apply H9 | apply H10 | apply H11].
  apply HA.
  revert l. fix IHl 1. intros l. destruct l as [|x r].
  - constructor.
  - constructor; [apply IH | apply IHl].
Qed.

(* ---------- association lists ---------- *)
Lemma alookup_aset_same {A} k (a : A) l : alookup k (aset k a l) = Some a.
Proof.
  induction l as [|[k' a'] r IH]; simpl.
  - rewrite Nat.eqb_refl; auto.
  - destruct (Nat.eqb k k') eqn:E; simpl.
    + rewrite Nat.eqb_refl; auto.
    + rewrite E; auto.
Qed.
Lemma alookup_aset_other {A} k k' (a : A) l : k' <> k -> alookup k' (aset k a l) = alookup k' l.
Proof.
  intros N. induction l as [|[k2 a2] r IH]; simpl.
  - apply Nat.eqb_neq in N. rewrite N; auto.
  - destruct (Nat.eqb k k2) eqn:E; simpl.
    + apply Nat.eqb_eq in E; subst k2. apply Nat.eqb_neq in N. rewrite N; auto.
    + destruct (Nat.eqb k' k2); auto.
Qed.
Lemma aset_same {A} k (a : A) l : alookup k l = Some a -> aset k a l = l.
Proof.
  induction l as [|[k' a'] r IH]; simpl; intros H; try discriminate.
  destruct (Nat.eqb k k') eqn:E.
  - apply Nat.eqb_eq in E; subst. inversion H; subst; auto.
  - rewrite IH; auto.
Qed.
Lemma alookup_in {A} k (a : A) l : alookup k l = Some a -> In (k, a) l.
Proof.
  induction l as [|[k' a'] r IH]; simpl; intros H; try discriminate.
  destruct (Nat.eqb k k') eqn:E.
  - apply Nat.eqb_eq in E; subst. inversion H; subst; auto.
  - right; auto.
Qed.
Lemma forallb_aset {A} (f : nat * A -> bool) k a l :
  forallb f l = true -> f (k, a) = true -> forallb f (aset k a l) = true.
Proof.
  intros Hl Ha. induction l as [|[k' a'] r IH]; simpl in *.
  - rewrite Ha; auto.
  - apply andb_prop in Hl as [H1 H2].
    destruct (Nat.eqb k k'); simpl; rewrite ?Ha, ?H1, ?H2; auto.
Qed.
Lemma forallb_fset (f : key * value -> bool) k v l :
  forallb f l = true -> f (k, v) = true -> forallb f (fset k v l) = true.
Proof.
  intros Hl Ha. induction l as [|[k' a'] r IH]; simpl in *.
  - rewrite Ha; auto.
  - apply andb_prop in Hl as [H1 H2].
    destruct (key_eqb k k'); simpl; rewrite ?Ha, ?H1, ?H2; auto.
Qed.
Lemma forallb_fdel (f : key * value -> bool) k l :
  forallb f l = true -> forallb f (fdel k l) = true.
Proof.
  intros Hl. induction l as [|[k' a'] r IH]; simpl in *; auto.
  apply andb_prop in Hl as [H1 H2].
  destruct (key_eqb k k'); simpl; auto. rewrite H1; auto.
Qed.
Lemma in_fset k v k' v' l : In (k, v) (fset k' v' l) -> (k, v) = (k', v') \/ In (k, v) l.
Proof.
  induction l as [|[k2 v2] r IH]; simpl.
  - intros [H|[]]; auto.
  - destruct (key_eqb k' k2); simpl; intros [H|H]; auto.
    destruct (IH H); auto.
Qed.
Lemma flookup_fset_same k v l : flookup k (fset k v l) = Some v.
Proof.
  induction l as [|[k' v'] r IH]; simpl.
  - rewrite key_eqb_refl; auto.
  - destruct (key_eqb k k') eqn:E; simpl.
    + rewrite key_eqb_refl; auto.
    + rewrite E; auto.
Qed.
Lemma flookup_fset_other k k' v l : key_eqb k' k = false -> flookup k' (fset k v l) = flookup k' l.
Proof.
  intros N. induction l as [|[k2 v2] r IH]; simpl.
  - rewrite N; auto.
  - destruct (key_eqb k k2) eqn:E; simpl.
    + apply key_eqb_eq in E; subst k2. rewrite N; auto.
    + destruct (key_eqb k' k2); auto.
Qed.

(* ---------- the language's Type() against the creation-time type ---------- *)
Lemma arr_type_some x r t :
  arr_type x r = TSome t ->
  t = TNamed NEmpty \/ exists tx, r = TSome tx /\ t = TNamed (NSlice (regname tx)).
Proof.
  unfold arr_type. destruct (arr_fallback x r); intros H.
  - inversion H; auto.
  - destruct r as [|t0]; try discriminate. right. exists t0; split; auto. inversion H; auto.
Qed.

(* a well-formed type name (no generic "[]" inside) is the creation-time type's name as well *)
Lemma type_of_spec st : forall v t, type_of st v = TSome t -> wf_ty t = true ->
  exists t', spec_type_of st v = Some t' /\ regname t' = regname t /\ ((forall id, v <> VInst id) -> t' = t).
Proof.
  induction v as [|n|n|n|b| | | |l HF|id|id|n] using value_ind'; intros t HT W; simpl in HT; try discriminate;
    try (inversion HT; subst; eexists; split; [reflexivity | split; [reflexivity | auto]]; fail).
  - (* arrays *)
    destruct l as [|x r].
    + inversion HT; subst. discriminate W.
    + apply arr_type_some in HT as [->|[tx [Hx Ht]]]; [discriminate W|]. subst t.
      inversion HF as [|? ? Px Pr]; subst.
      destruct (Px _ Hx W) as [t' [S1 [S2 _]]].
      exists (TNamed (NSlice (regname t'))). simpl. rewrite S1. rewrite S2. auto.
  - (* instance *)
    simpl. destruct (alookup id (st_store st)) as [i|]; try discriminate.
    destruct (alookup (i_tname i) (st_reg st)) as [e|]; try discriminate.
    inversion HT; subst. eexists; split; [reflexivity|]. split; [reflexivity|].
    intros N. exfalso. apply (N id); auto.
  - (* pointer *)
    simpl. destruct (alookup id (st_store st)) as [i|]; try discriminate.
    inversion HT; subst. eexists; split; [reflexivity | split; [reflexivity | auto]].
Qed.

Lemma tname_eqb_refl : forall a, tname_eqb a a = true.
Proof. induction a; simpl; auto using Nat.eqb_refl. destruct b; auto. Qed.
Lemma gen_eqb_refl a : gen_eqb a a = true.
Proof. destruct a; simpl; apply Nat.eqb_refl. Qed.
Lemma ty_eqb_refl a : ty_eqb a a = true.
Proof. destruct a; simpl; [apply tname_eqb_refl | rewrite Nat.eqb_refl, gen_eqb_refl; auto]. Qed.

Lemma spec_conforms_unfold st v dt :
  v <> VNil -> v <> VArr [] ->
  spec_conforms st v dt = match spec_type_of st v with Some t => ty_eqb t dt | None => false end.
Proof.
  intros N1 N2. destruct v; try reflexivity; try congruence.
  destruct l; [congruence | reflexivity].
Qed.

(* an accepted check of a clean value against a well-formed declared type implies conformance *)
Lemma check_value_conforms st dt v :
  value_clean st v = true -> wf_ty dt = true -> check_value st dt v = VOk -> spec_conforms st v dt = true.
Proof.
  intros C W H. unfold check_value in H.
  destruct (type_of st v) as [|ot] eqn:T.
  - destruct v; try discriminate; auto.
  - destruct (ty_eqb ot dt) eqn:E1.
    + apply ty_eqb_eq in E1; subst ot.
      destruct (type_of_spec st v dt T W) as [t' [S1 [S2 S3]]].
      destruct v as [|n|n|n|b| | | |l|id|id|n]; simpl in T; try discriminate T;
        try (rewrite spec_conforms_unfold by discriminate; rewrite S1;
             rewrite (S3 ltac:(intros; discriminate)); apply ty_eqb_refl).
      * (* array *)
        destruct l as [|x r].
        -- inversion T; subst. discriminate W.
        -- rewrite spec_conforms_unfold by discriminate. rewrite S1.
           rewrite (S3 ltac:(intros; discriminate)). apply ty_eqb_refl.
      * (* instance: clean means created with the current definition *)
        rewrite spec_conforms_unfold by discriminate. simpl. simpl in C.
        destruct (alookup id (st_store st)) as [i|]; try discriminate.
        destruct (alookup (i_tname i) (st_reg st)) as [e|]; try discriminate.
        inversion T; subst. apply gen_eqb_eq in C. rewrite C. apply ty_eqb_refl.
    + destruct (is_empty_arr v) eqn:E0; simpl in H; try discriminate.
      destruct (ty_eqb ot (TNamed NEmpty)) eqn:E2; simpl in H; try discriminate.
      destruct (is_slice_name (regname dt)) eqn:E3; try discriminate.
      destruct v; try discriminate E0. destruct l; try discriminate E0. simpl. auto.
Qed.

(* ---------- well-formed declared types ---------- *)
Lemma eval_texpr_wf reg : forall te t, eval_texpr reg te = Some t -> wf_ty t = true.
Proof.
  induction te; simpl; intros t H.
  - inversion H; auto.
  - destruct (alookup s reg) as [e|]; try discriminate. destruct (bound_entry e); inversion H; auto.
  - destruct (eval_texpr reg te) as [x|]; try discriminate. inversion H; subst. apply (IHte x); auto.
  - destruct (eval_texpr reg te) as [x|]; try discriminate. inversion H; subst. apply (IHte x); auto.
Qed.
Lemma eval_fields_wf reg : forall l d, eval_fields reg l = Some d -> forallb (fun ft => wf_ty (snd ft)) d = true.
Proof.
  induction l as [|[f te] r IH]; simpl; intros d H.
  - inversion H; auto.
  - destruct (eval_texpr reg te) as [x|] eqn:E; try discriminate.
    destruct (eval_fields reg r) as [d0|]; try discriminate. inversion H; subst. simpl.
    rewrite (eval_texpr_wf _ _ _ E). simpl. apply IH; auto.
Qed.
Lemma lookup_field_wf : forall d f t,
  forallb (fun ft => wf_ty (snd ft)) d = true -> lookup_field d f = Some t -> wf_ty t = true.
Proof.
  induction d as [|[f' t'] r IH]; simpl; intros f t W H; try discriminate.
  apply andb_prop in W as [W1 W2].
  destruct (lookup_field r f) as [t2|] eqn:L.
  - inversion H; subst. eapply IH; eauto.
  - destruct (Nat.eqb f f'); inversion H; subst; auto.
Qed.
Lemma reg_okb_lookup reg s e : reg_okb reg = true -> alookup s reg = Some e -> entry_okb e = true.
Proof.
  unfold reg_okb. rewrite forallb_forall. intros H A. apply alookup_in in A. apply (H _ A).
Qed.

(* ---------- every instance keeps its type name and the generation of its definition ---------- *)
Definition sig_ext (st st' : state) : Prop :=
  forall id i, alookup id (st_store st) = Some i ->
    exists i', alookup id (st_store st') = Some i' /\ i_tname i' = i_tname i /\
               re_gen (i_fac i') = re_gen (i_fac i).

Lemma sig_ext_same_store st st' : st_store st' = st_store st -> sig_ext st st'.
Proof. intros E id i H. exists i. rewrite E. auto. Qed.

Lemma sig_ext_trans a b c : sig_ext a b -> sig_ext b c -> sig_ext a c.
Proof.
  intros H1 H2 id i H. destruct (H1 _ _ H) as [i1 [A [B C]]]. destruct (H2 _ _ A) as [i2 [A2 [B2 C2]]].
  exists i2. repeat split; congruence.
Qed.

Lemma sig_ext_aset_fresh st st' id i' :
  alookup id (st_store st) = None -> st_store st' = aset id i' (st_store st) -> sig_ext st st'.
Proof.
  intros F E id0 i0 H. exists i0. rewrite E. split; auto.
  rewrite alookup_aset_other; auto. intros ->. congruence.
Qed.

Lemma sig_ext_aset_shape st st' id i i' :
  alookup id (st_store st) = Some i -> i_tname i' = i_tname i -> re_gen (i_fac i') = re_gen (i_fac i) ->
  st_store st' = aset id i' (st_store st) -> sig_ext st st'.
Proof.
  intros F T G E id0 i0 H. rewrite E.
  destruct (Nat.eq_dec id0 id) as [->|N].
  - rewrite alookup_aset_same. exists i'. rewrite F in H. inversion H; subst. auto.
  - rewrite alookup_aset_other; auto. exists i0; auto.
Qed.

Lemma spec_type_of_ext st st' : sig_ext st st' ->
  forall v t, spec_type_of st v = Some t -> spec_type_of st' v = Some t.
Proof.
  intros E. induction v as [|n|n|n|b| | | |l HF|id|id|n] using value_ind'; intros t H; simpl in *; auto.
  - destruct l as [|x r]; auto.
    inversion HF as [|? ? Px Pr]; subst.
    destruct (spec_type_of st x) as [tx|] eqn:S; try discriminate.
    rewrite (Px _ eq_refl). auto.
  - destruct (alookup id (st_store st)) as [i|] eqn:A; try discriminate.
    destruct (E _ _ A) as [i' [A' [T G]]]. rewrite A'. rewrite T, G. auto.
  - destruct (alookup id (st_store st)) as [i|] eqn:A; try discriminate.
    destruct (E _ _ A) as [i' [A' [T G]]]. rewrite A'. rewrite T. auto.
Qed.

Lemma spec_conforms_ext st st' v dt : sig_ext st st' ->
  spec_conforms st v dt = true -> spec_conforms st' v dt = true.
Proof.
  intros E H.
  destruct v as [|n|n|n|b| | | |l|id|id|n]; try exact H.
  - destruct l as [|x r]; try exact H.
    rewrite spec_conforms_unfold in * by discriminate.
    destruct (spec_type_of st (VArr (x :: r))) as [t|] eqn:S; try discriminate.
    rewrite (spec_type_of_ext _ _ E _ _ S). auto.
  - rewrite spec_conforms_unfold in * by discriminate.
    destruct (spec_type_of st (VInst id)) as [t|] eqn:S; try discriminate.
    rewrite (spec_type_of_ext _ _ E _ _ S). auto.
  - rewrite spec_conforms_unfold in * by discriminate.
    destruct (spec_type_of st (VPtr id)) as [t|] eqn:S; try discriminate.
    rewrite (spec_type_of_ext _ _ E _ _ S). auto.
Qed.

Lemma inst_okb_ext st st' i : sig_ext st st' -> inst_okb st i = true -> inst_okb st' i = true.
Proof.
  intros E. unfold inst_okb. intros H. apply andb_prop in H as [H0 H]. rewrite H0. simpl.
  destruct (re_defn (i_fac i)) as [d|]; auto. revert H.
  rewrite !forallb_forall. intros H x Hx. specialize (H x Hx).
  unfold field_okb in *. destruct (fst x); try discriminate.
  destruct (lookup_field d f); try discriminate.
  eapply spec_conforms_ext; eauto.
Qed.

Lemma sinvb_lookup st id i : sinvb st = true -> alookup id (st_store st) = Some i -> inst_okb st i = true.
Proof.
  unfold sinvb. rewrite forallb_forall. intros H A. apply alookup_in in A. apply (H _ A).
Qed.

Lemma sinvb_store_same st st' : st_store st' = st_store st -> sinvb st = true -> sinvb st' = true.
Proof.
  intros E H. unfold sinvb in *. rewrite E. rewrite forallb_forall in *. intros x Hx.
  apply inst_okb_ext with (st := st); auto. apply sig_ext_same_store; auto.
Qed.

Lemma sinvb_store_aset st st' id i' :
  sinvb st = true -> st_store st' = aset id i' (st_store st) -> sig_ext st st' ->
  inst_okb st' i' = true -> sinvb st' = true.
Proof.
  intros H E X O. unfold sinvb. rewrite E. apply forallb_aset; auto.
  unfold sinvb in H. rewrite forallb_forall in *. intros x Hx.
  apply inst_okb_ext with (st := st); auto.
Qed.

(* ---------- HashSet on an instance that holds a definition ---------- *)
Lemma adopt_typed st i d : re_defn (i_fac i) = Some d -> adopt st i = i.
Proof. unfold adopt. intros ->. auto. Qed.

Lemma check_value_notsym st dt v : check_value st dt v <> VNotSym.
Proof.
  unfold check_value. destruct (type_of st v) as [|ot]; try discriminate.
  - destruct v; discriminate.
  - destruct (ty_eqb ot dt); try discriminate.
    destruct (is_empty_arr v && ty_eqb ot (TNamed NEmpty) && is_slice_name (regname dt)); discriminate.
Qed.

Lemma inst_okb_split st i d : re_defn (i_fac i) = Some d ->
  inst_okb st i = true <->
  (forallb (fun ft => wf_ty (snd ft)) d = true /\ forallb (field_okb st d) (i_fields i) = true).
Proof.
  intros D. unfold inst_okb, entry_okb. rewrite D. rewrite andb_true_iff. tauto.
Qed.

Lemma hash_set_typed st i d k v vd i' :
  re_defn (i_fac i) = Some d -> hash_set st i k v = (vd, i') ->
  value_clean st v = true -> inst_okb st i = true ->
  i_tname i' = i_tname i /\ i_fac i' = i_fac i /\ inst_okb st i' = true /\ (vd <> VOk -> i' = i).
Proof.
  intros D H C O. unfold hash_set, type_check_field in H.
  destruct k as [f|n|n]; try (rewrite D in H; inversion H; subst; repeat split; auto; fail).
  rewrite (adopt_typed _ _ _ D) in H. rewrite D in H.
  destruct (lookup_field d f) as [dt|] eqn:L.
  - destruct (check_value st dt v) eqn:CV; try (inversion H; subst; clear H; repeat split; auto; congruence);
      try (exfalso; eapply check_value_notsym; eauto; fail).
    inversion H; subst; clear H.
    simpl. repeat split; auto; try congruence.
    apply (inst_okb_split st i d D) in O as [W O].
    apply (inst_okb_split st _ d); [simpl; auto|]. split; auto. simpl.
    apply forallb_fset; auto. unfold field_okb. simpl. rewrite L.
    apply check_value_conforms; auto. eapply lookup_field_wf; eauto.
  - inversion H; subst. repeat split; auto.
Qed.

Lemma hash_set_verdict st i k v vd i' : hash_set st i k v = (vd, i') -> vd <> VNotSym.
Proof.
  unfold hash_set. destruct (type_check_field st i k v) as [x y].
  destruct x; [| |destruct (re_defn (i_fac y))]; intros H; inversion H; congruence.
Qed.

(* ---------- MakeHash ---------- *)
Lemma adopt_fields st i : i_fields (adopt st i) = i_fields i /\ i_tname (adopt st i) = i_tname i.
Proof.
  unfold adopt. destruct (re_defn (i_fac i)); auto.
  destruct (alookup (i_tname i) (st_reg st)) as [e|]; auto. destruct (re_defn e); auto.
Qed.

Lemma tcf_fields st i k v x y :
  type_check_field st i k v = (x, y) -> i_fields y = i_fields i /\ i_tname y = i_tname i.
Proof.
  unfold type_check_field. destruct k; try (intros H; inversion H; auto; fail).
  destruct (adopt_fields st i) as [A B].
  destruct (re_defn (i_fac (adopt st i))) as [d|]; [destruct (lookup_field d f)|]; intros H; inversion H; subst; auto.
Qed.

Lemma hash_set_fields st i k v vd i' : hash_set st i k v = (vd, i') ->
  i_tname i' = i_tname i /\
  forall k0 v0, In (k0, v0) (i_fields i') -> (k0, v0) = (k, v) \/ In (k0, v0) (i_fields i).
Proof.
  unfold hash_set. destruct (type_check_field st i k v) as [x y] eqn:T.
  destruct (tcf_fields _ _ _ _ _ _ T) as [F N].
  destruct x; [| |destruct (re_defn (i_fac y))]; intros H; inversion H; subst; simpl; split; auto; intros k0 v0 I;
    try (rewrite F in I; auto; fail); apply in_fset in I; rewrite F in I; auto.
Qed.

Lemma hash_set_all_fields st : forall args i vd i', hash_set_all st i args = (vd, i') ->
  i_tname i' = i_tname i /\
  forall k0 v0, In (k0, v0) (i_fields i') -> In (k0, v0) args \/ In (k0, v0) (i_fields i).
Proof.
  induction args as [|[k v] r IH]; simpl; intros i vd i' H.
  - inversion H; subst; auto.
  - destruct (hash_set st i k v) as [x y] eqn:HS.
    destruct (hash_set_fields _ _ _ _ _ _ HS) as [N F].
    assert (G : forall k0 v0, In (k0, v0) (i_fields y) -> In (k0, v0) ((k, v) :: r) \/ In (k0, v0) (i_fields i)).
    { intros k0 v0 I. destruct (F _ _ I) as [I3|I3]; auto. inversion I3; subst; simpl; auto. }
    destruct x; try (inversion H; subst; split; auto; fail).
    destruct (IH _ _ _ H) as [N2 F2]. split; [congruence|].
    intros k0 v0 I. destruct (F2 _ _ I) as [I2|I2]; [simpl; auto | apply G; auto].
Qed.

Lemma check_record_ok st i d : re_defn (i_fac i) = Some d ->
  forallb (fun ft => wf_ty (snd ft)) d = true ->
  forall l, check_record st i l = VOk ->
  (forall k v, In (k, v) l -> value_clean st v = true) ->
  forallb (field_okb st d) l = true.
Proof.
  intros D W. induction l as [|[k v] r IH]; simpl; auto. intros H C.
  unfold type_check_field in H. destruct k; simpl in H; try discriminate.
  rewrite (adopt_typed _ _ _ D) in H. rewrite D in H.
  destruct (lookup_field d f) as [dt|] eqn:L; simpl in H; try discriminate.
  destruct (check_value st dt v) eqn:CV; try discriminate.
  unfold field_okb at 1. simpl. rewrite L.
  rewrite check_value_conforms; auto.
  - simpl. apply IH; auto. intros k0 v0 I. apply (C k0 v0). auto.
  - apply (C (KSym f) v). auto.
  - eapply lookup_field_wf; eauto.
Qed.

(* the factory of an instance is always a registry entry or the bare one MakeHash made *)
Lemma adopt_fac_ok st i : reg_okb (st_reg st) = true -> entry_okb (i_fac i) = true ->
  entry_okb (i_fac (adopt st i)) = true.
Proof.
  intros R O. unfold adopt. destruct (re_defn (i_fac i)); auto.
  destruct (alookup (i_tname i) (st_reg st)) as [e|] eqn:A; auto.
  destruct (re_defn e) eqn:D; auto. simpl. eapply reg_okb_lookup; eauto.
Qed.
Lemma hash_set_fac_ok st i k v vd i' : reg_okb (st_reg st) = true -> entry_okb (i_fac i) = true ->
  hash_set st i k v = (vd, i') -> entry_okb (i_fac i') = true.
Proof.
  intros R O. unfold hash_set, type_check_field.
  pose proof (adopt_fac_ok st i R O) as A.
  destruct k; try (destruct (re_defn (i_fac i)); intros H; inversion H; subst; simpl; auto; fail).
  destruct (re_defn (i_fac (adopt st i))) as [d|].
  - destruct (lookup_field d f) as [dt|].
    + destruct (check_value st dt v) eqn:CV; try (intros H; inversion H; subst; simpl; auto; fail).
      exfalso; eapply check_value_notsym; eauto.
    + intros H; inversion H; subst; simpl; auto.
  - intros H; inversion H; subst; simpl; auto.
Qed.
Lemma hash_set_all_fac_ok st : forall args i vd i', reg_okb (st_reg st) = true -> entry_okb (i_fac i) = true ->
  hash_set_all st i args = (vd, i') -> entry_okb (i_fac i') = true.
Proof.
  induction args as [|[k v] r IH]; simpl; intros i vd i' R O H.
  - inversion H; subst; auto.
  - destruct (hash_set st i k v) as [x y] eqn:HS.
    pose proof (hash_set_fac_ok _ _ _ _ _ _ R O HS) as Y.
    destruct x; try (inversion H; subst; auto; fail). eapply IH; eauto.
Qed.

Lemma hash_set_all_bare st : forall args i vd i',
  (forall e, alookup (i_tname i) (st_reg st) = Some e -> re_defn e = None) ->
  re_defn (i_fac i) = None ->
  hash_set_all st i args = (vd, i') -> re_defn (i_fac i') = None.
Proof.
  induction args as [|[k v] r IH]; simpl; intros i vd i' R D H.
  - inversion H; subst; auto.
  - assert (A : adopt st i = i).
    { unfold adopt. rewrite D. destruct (alookup (i_tname i) (st_reg st)) as [e|] eqn:E; auto.
      rewrite (R e eq_refl). auto. }
    assert (HS : exists y, hash_set st i k v = (VOk, y) /\ i_tname y = i_tname i /\ i_fac y = i_fac i).
    { unfold hash_set, type_check_field. destruct k; try (rewrite D; eexists; split; [reflexivity | simpl; auto]).
      rewrite A. rewrite D. eexists; split; [reflexivity | simpl; auto]. }
    destruct HS as [y [HS [N F]]]. rewrite HS in H.
    apply (IH y vd i'); [intros e0 E0; rewrite N in E0; auto | congruence | exact H].
Qed.

Lemma make_hash_ok st s args i reg' :
  reg_okb (st_reg st) = true ->
  make_hash st s args = (VOk, i, reg') ->
  (forall k v, In (k, v) args -> value_clean st v = true) ->
  inst_okb st i = true.
Proof.
  unfold make_hash. intros R H C.
  remember {| i_tname := s;
              i_fac := match alookup s (st_reg st) with
                       | Some e => e
                       | None => {| re_gen := GBare (st_clock st); re_defn := None |}
                       end;
              i_fields := [] |} as i0.
  assert (O0 : entry_okb (i_fac i0) = true).
  { subst i0. simpl. destruct (alookup s (st_reg st)) eqn:A; auto. eapply reg_okb_lookup; eauto. }
  destruct (hash_set_all st i0 args) as [vd i1] eqn:HA.
  pose proof (hash_set_all_fac_ok _ _ _ _ _ R O0 HA) as O1.
  destruct (hash_set_all_fields _ _ _ _ _ HA) as [N F].
  assert (CF : forall k v, In (k, v) (i_fields i1) -> value_clean st v = true).
  { intros k v I. destruct (F _ _ I) as [I2|I2]; [eapply C; eauto|]. subst i0. simpl in I2. contradiction. }
  destruct vd; try (inversion H; fail).
  assert (EI : i = i1).
  { destruct (alookup s (st_reg st)) as [e|]; [destruct (re_defn e)|]; inversion H; auto. }
  subst i1. unfold inst_okb. rewrite O1. simpl.
  destruct (re_defn (i_fac i)) as [d|] eqn:D; auto.
  assert (W : forallb (fun ft => wf_ty (snd ft)) d = true).
  { unfold entry_okb in O1. rewrite D in O1. auto. }
  destruct (alookup s (st_reg st)) as [e|] eqn:E.
  - destruct (re_defn e) as [d0|] eqn:DE.
    + inversion H. eapply check_record_ok; eauto.
    + exfalso.
      assert (X : re_defn (i_fac i) = None).
      { eapply hash_set_all_bare; [| |exact HA]; subst i0; simpl; auto.
        intros e0 E0. rewrite E in E0. inversion E0; subst; auto. }
      congruence.
  - exfalso.
    assert (X : re_defn (i_fac i) = None).
    { eapply hash_set_all_bare; [| |exact HA]; subst i0; simpl; auto.
      intros e0 E0. rewrite E in E0. discriminate. }
    congruence.
Qed.

Lemma make_hash_reg st s args vd i reg' :
  reg_okb (st_reg st) = true -> make_hash st s args = (vd, i, reg') -> reg_okb reg' = true.
Proof.
  unfold make_hash. intros R.
  destruct (hash_set_all st _ args) as [x y].
  destruct x; try (intros H; inversion H; subst; auto; fail).
  destruct (alookup s (st_reg st)) as [e|]; [destruct (re_defn e)|]; intros H; inversion H; subst; auto.
  apply forallb_aset; auto.
Qed.

(* ---------- every operation preserves the invariant ---------- *)
Definition good (st st' : state) : Prop := sinvb st' = true /\ sig_ext st st'.

Lemma good_refl st : sinvb st = true -> good st st.
Proof. intros H; split; auto. apply sig_ext_same_store; auto. Qed.

Lemma good_same_store st st' : st_store st' = st_store st -> sinvb st = true -> good st st'.
Proof. intros E H; split; [apply sinvb_store_same with (st := st); auto | apply sig_ext_same_store; auto]. Qed.

Lemma good_set_reg st r : sinvb st = true -> good st (set_reg st r).
Proof. intros H; split; [apply sinvb_store_same with (st := st); auto | apply sig_ext_same_store; auto]. Qed.

Lemma good_put_fresh st r id i :
  sinvb st = true -> alookup id (st_store st) = None -> inst_okb st i = true ->
  good st (put (set_reg st r) id i).
Proof.
  intros H F O.
  assert (X : sig_ext st (put (set_reg st r) id i))
    by (apply sig_ext_aset_fresh with (id := id) (i' := i); [exact F | reflexivity]).
  split; auto. apply sinvb_store_aset with (st := st) (id := id) (i' := i); auto.
  apply inst_okb_ext with (st := st); auto.
Qed.

Lemma good_put_shape st id i i' :
  sinvb st = true -> alookup id (st_store st) = Some i ->
  i_tname i' = i_tname i -> re_gen (i_fac i') = re_gen (i_fac i) -> inst_okb st i' = true ->
  good st (put st id i').
Proof.
  intros H F T G O.
  assert (X : sig_ext st (put st id i'))
    by (apply sig_ext_aset_shape with (id := id) (i := i) (i' := i'); auto).
  split; auto. apply sinvb_store_aset with (st := st) (id := id) (i' := i'); auto.
  apply inst_okb_ext with (st := st); auto.
Qed.

Lemma forallb_values_clean st (args : list (key * value)) :
  forallb (fun kv => value_clean st (snd kv)) args = true ->
  forall k v, In (k, v) args -> value_clean st v = true.
Proof. rewrite forallb_forall. intros H k v I. apply (H _ I). Qed.

Lemma step_op_good st o : reg_okb (st_reg st) = true -> sinvb st = true -> clean st o = true ->
  good st (snd (step_op st o)).
Proof.
  intros R I C. destruct o as [s l|id s args|r id k v|id f g v|id k|id v|ko id s args|pid id|pid v|s]; simpl.
  - (* Declare *)
    unfold declare. destruct (eval_fields _ l); simpl; apply good_set_reg; auto.
  - (* Construct *)
    simpl in C. apply andb_prop in C as [CF CV]. unfold fresh_id in CF.
    destruct (alookup s (st_reg st)) as [e|]; [|apply good_refl; auto].
    destruct (negb (bound_entry e)); [apply good_refl; auto|].
    destruct (negb (forallb _ args)); [apply good_refl; auto|].
    destruct (make_hash st s args) as [[vd i] reg] eqn:M.
    destruct vd; try (apply good_refl; auto; fail).
    destruct (alookup id (st_store st)) eqn:F; try discriminate.
    apply good_put_fresh; auto. eapply (make_hash_ok st); eauto. apply forallb_values_clean; auto.
  - (* Write *)
    simpl in C. apply andb_prop in C as [CV CT].
    destruct (negb (route_key_ok r k)); [apply good_refl; auto|].
    destruct (negb (value_ok st v)); [apply good_refl; auto|].
    unfold target_typed in CT.
    destruct (alookup id (st_store st)) as [i|] eqn:A; [|apply good_refl; auto].
    destruct (hash_set st i k v) as [vd i'] eqn:HS. simpl.
    unfold typed_inst in CT. destruct (re_defn (i_fac i)) as [d|] eqn:D; try discriminate.
    destruct (hash_set_typed _ _ _ _ _ _ _ D HS CV (sinvb_lookup _ _ _ I A)) as [T [F [O _]]].
    eapply good_put_shape; eauto. congruence.
  - (* Nested *)
    simpl in C. apply andb_prop in C as [CV CT].
    destruct (negb (value_ok st v)); [apply good_refl; auto|].
    destruct (alookup id (st_store st)) as [i|] eqn:A; [|apply good_refl; auto].
    destruct (flookup (KSym f) (i_fields i)) as [x|]; [|apply good_refl; auto].
    destruct x; try (apply good_refl; auto; fail).
    destruct (alookup id0 (st_store st)) as [ij|] eqn:AJ; [|apply good_refl; auto].
    destruct (hash_set st ij (KSym g) v) as [vd ij'] eqn:HS. simpl.
    unfold target_typed in CT. rewrite AJ in CT.
    unfold typed_inst in CT. destruct (re_defn (i_fac ij)) as [d|] eqn:D; try discriminate.
    destruct (hash_set_typed _ _ _ _ _ _ _ D HS CV (sinvb_lookup _ _ _ I AJ)) as [T [F [O _]]].
    eapply good_put_shape; eauto. congruence.
  - (* Delete *)
    destruct (alookup id (st_store st)) as [i|] eqn:A; [|apply good_refl; auto]. simpl.
    eapply good_put_shape; eauto.
    pose proof (sinvb_lookup _ _ _ I A) as O. unfold inst_okb in *. simpl.
    apply andb_prop in O as [O1 O2]. rewrite O1. simpl.
    destruct (re_defn (i_fac i)); auto. apply forallb_fdel; auto.
  - (* DerefSet *)
    destruct (alookup id (st_store st)) as [i|] eqn:A; [|apply good_refl; auto].
    repeat match goal with
           | |- good _ (snd (if negb ?b then _ else _)) => destruct b; simpl; [|apply good_refl; auto]
           end.
    destruct v; try (apply good_refl; auto; fail).
    destruct (alookup id0 (st_store st)) as [ij|] eqn:AJ; [|apply good_refl; auto].
    destruct (Nat.eqb (i_tname i) (i_tname ij)) eqn:E; [|apply good_refl; auto]. simpl.
    simpl in C. rewrite A, AJ in C. apply gen_eqb_eq in C. apply Nat.eqb_eq in E.
    eapply good_put_shape; eauto. eapply sinvb_lookup; eauto.
  - (* Decode *)
    simpl in C. apply andb_prop in C as [CF CV]. unfold fresh_id in CF.
    destruct (negb (forallb _ args)); [apply good_refl; auto|].
    destruct (make_hash st s _) as [[vd i] reg] eqn:M.
    destruct vd; try (apply good_refl; auto; fail).
    destruct (alookup id (st_store st)) eqn:F; try discriminate.
    apply good_put_fresh; auto. eapply (make_hash_ok st); eauto.
    (* JSON values are never instances: clean for every value of the sorted, re-keyed list *)
    intros k v0 IN. apply in_map_iff in IN as [[f0 v1] [EQ IN]]. inversion EQ; subst.
    assert (S : forall l a, In a (sort_args l) -> In a l).
    { clear. induction l as [|b r IH]; simpl; auto. intros a.
      assert (SI : forall x l0 a0, In a0 (sort_insert x l0) -> a0 = x \/ In a0 l0).
      { clear. induction l0 as [|c t IH0]; simpl; intros a0 H.
        - destruct H; auto.
        - destruct (Nat.leb (fst x) (fst c)); simpl in H.
          + destruct H as [H|[H|H]]; auto.
          + destruct H as [H|H]; auto. destruct (IH0 _ H); auto. }
      intros H. destruct (SI _ _ _ H); auto. }
    rewrite forallb_forall in CV. apply (CV (f0, v0)). apply S; auto.
  - (* TakePtr *)
    unfold take_ptr. destruct (negb (value_ok st (VPtr id))); [apply good_refl; auto|].
    destruct (alookup id (st_store st)) as [i|]; [|apply good_refl; auto].
    destruct (alookup (i_tname i) (st_reg st)) as [e|]; [|apply good_refl; auto].
    simpl. apply good_same_store; auto.
  - (* DerefSetP *)
    destruct (alookup pid (st_ptrs st)) as [[id [s g]]|] eqn:P; [|apply good_refl; auto].
    destruct (alookup id (st_store st)) as [i|] eqn:A; [|apply good_refl; auto].
    destruct (negb (value_ok st v)); [apply good_refl; auto|].
    destruct v; try (apply good_refl; auto; fail).
    destruct (alookup id0 (st_store st)) as [ij|] eqn:AJ; [|apply good_refl; auto].
    destruct (ptr_matches st s g ij); [|apply good_refl; auto]. simpl.
    simpl in C. rewrite P, A, AJ in C. apply andb_prop in C as [E C].
    apply gen_eqb_eq in C. apply Nat.eqb_eq in E.
    eapply good_put_shape; eauto. eapply sinvb_lookup; eauto.
  - (* DeclareBad *)
    unfold declare_bad. simpl. apply good_set_reg; auto.
Qed.

Lemma step_op_reg st o : reg_okb (st_reg st) = true -> reg_okb (st_reg (snd (step_op st o))) = true.
Proof.
  intros R. destruct o as [s l|id s args|r id k v|id f g v|id k|id v|ko id s args|pid id|pid v|s]; simpl.
  - unfold declare.
    assert (R1 : reg_okb (aset s {| re_gen := GPh (st_clock st); re_defn := Some [] |} (st_reg st)) = true)
      by (apply forallb_aset; auto).
    destruct (eval_fields _ l) as [d|] eqn:E; simpl; auto.
    apply forallb_aset; auto. simpl. unfold entry_okb. simpl. eapply eval_fields_wf; eauto.
  - destruct (alookup s (st_reg st)) as [e|]; auto.
    destruct (negb (bound_entry e)); auto. destruct (negb (forallb _ args)); auto.
    destruct (make_hash st s args) as [[vd i] reg] eqn:M.
    pose proof (make_hash_reg _ _ _ _ _ _ R M). destruct vd; simpl; auto.
  - destruct (negb (route_key_ok r k)); auto. destruct (negb (value_ok st v)); auto.
    destruct (alookup id (st_store st)); auto. destruct (hash_set st i k v); auto.
  - destruct (negb (value_ok st v)); auto. destruct (alookup id (st_store st)) as [i|]; auto.
    destruct (flookup (KSym f) (i_fields i)) as [x|]; auto. destruct x; auto.
    destruct (alookup id0 (st_store st)) as [ij|]; auto. destruct (hash_set st ij (KSym g) v); auto.
  - destruct (alookup id (st_store st)); auto.
  - destruct (alookup id (st_store st)) as [i|]; auto.
    repeat match goal with
           | |- reg_okb (st_reg (snd (if negb ?b then _ else _))) = true => destruct b; simpl; auto
           end.
    destruct v; auto. destruct (alookup id0 (st_store st)) as [ij|]; auto.
    destruct (Nat.eqb (i_tname i) (i_tname ij)); auto.
  - destruct (negb (forallb _ args)); auto.
    destruct (make_hash st s _) as [[vd i] reg] eqn:M.
    pose proof (make_hash_reg _ _ _ _ _ _ R M). destruct vd; simpl; auto.
  - unfold take_ptr. destruct (negb (value_ok st (VPtr id))); auto.
    destruct (alookup id (st_store st)) as [i|]; auto.
    destruct (alookup (i_tname i) (st_reg st)); auto.
  - destruct (alookup pid (st_ptrs st)) as [[id [s g]]|]; auto.
    destruct (alookup id (st_store st)) as [i|]; auto.
    destruct (negb (value_ok st v)); auto. destruct v; auto.
    destruct (alookup id0 (st_store st)) as [ij|]; auto. destruct (ptr_matches st s g ij); auto.
  - unfold declare_bad. simpl. apply forallb_aset; auto.
Qed.

Theorem step_preserves_inv st o :
  invb st = true -> clean st o = true -> invb (snd (step st o)) = true.
Proof.
  unfold invb. intros I C. apply andb_prop in I as [R I].
  unfold step. destruct (step_op st o) as [oc st'] eqn:E. simpl.
  pose proof (step_op_good st o R I C) as [G _]. pose proof (step_op_reg st o R) as R'.
  rewrite E in G, R'. simpl in G, R'. rewrite R'. simpl.
  apply sinvb_store_same with (st := st'); auto.
Qed.

Theorem keeps_creation_defn st o :
  invb st = true -> clean st o = true ->
  forall id i, alookup id (st_store st) = Some i ->
  exists i', alookup id (st_store (snd (step st o))) = Some i' /\ i_tname i' = i_tname i /\
             re_gen (i_fac i') = re_gen (i_fac i).
Proof.
  unfold invb. intros I C. apply andb_prop in I as [R I].
  unfold step. destruct (step_op st o) as [oc st'] eqn:E. simpl.
  pose proof (step_op_good st o R I C) as [_ G]. rewrite E in G. simpl in G. exact G.
Qed.

Theorem reachable_inv : forall h st,
  invb st = true -> clean_run st h = true -> invb (run st h) = true.
Proof.
  unfold run. induction h as [|o r IH]; simpl; intros st I C; auto.
  apply andb_prop in C as [C1 C2]. apply IH; auto. apply step_preserves_inv; auto.
Qed.

Corollary reachable_inv_init h : clean_run init_state h = true -> invb (run init_state h) = true.
Proof. apply reachable_inv. reflexivity. Qed.

(* ---------- a rejected operation changes no instance ---------- *)
Lemma hash_set_rejected st i d k v vd i' :
  re_defn (i_fac i) = Some d -> hash_set st i k v = (vd, i') -> vd <> VOk -> i' = i.
Proof.
  intros D H N. unfold hash_set, type_check_field in H.
  destruct k as [f|n|n]; try (rewrite D in H; inversion H; subst; auto; fail).
  rewrite (adopt_typed _ _ _ D) in H. rewrite D in H.
  destruct (lookup_field d f) as [dt|].
  - destruct (check_value st dt v) eqn:CV; try (inversion H; subst; congruence).
    exfalso; eapply check_value_notsym; eauto.
  - inversion H; subst; auto.
Qed.

Theorem rejected_write_unchanged st o :
  clean st o = true -> fst (step st o) <> OK -> st_store (snd (step st o)) = st_store st.
Proof.
  intros C. unfold step. destruct (step_op st o) as [oc st'] eqn:E. simpl. intros N.
  destruct o as [s l|id s args|r id k v|id f g v|id k|id v|ko id s args|pid id|pid v|s]; simpl in E.
  - unfold declare in E. destruct (eval_fields _ l); inversion E; subst; auto.
  - destruct (alookup s (st_reg st)) as [e|]; [|inversion E; subst; auto].
    destruct (negb (bound_entry e)); [inversion E; subst; auto|].
    destruct (negb (forallb _ args)); [inversion E; subst; auto|].
    destruct (make_hash st s args) as [[vd i] reg].
    destruct vd; inversion E; subst; auto; congruence.
  - simpl in C. apply andb_prop in C as [CV CT].
    destruct (negb (route_key_ok r k)); [inversion E; subst; auto|].
    destruct (negb (value_ok st v)); [inversion E; subst; auto|].
    unfold target_typed in CT.
    destruct (alookup id (st_store st)) as [i|] eqn:A; [|inversion E; subst; auto].
    destruct (hash_set st i k v) as [vd i'] eqn:HS. inversion E; subst. simpl.
    unfold typed_inst in CT. destruct (re_defn (i_fac i)) as [d|] eqn:D; try discriminate.
    assert (NV : vd <> VOk). { intros ->. apply N. destruct r; reflexivity. }
    rewrite (hash_set_rejected _ _ _ _ _ _ _ D HS NV). apply aset_same; auto.
  - simpl in C. apply andb_prop in C as [CV CT].
    destruct (negb (value_ok st v)); [inversion E; subst; auto|].
    destruct (alookup id (st_store st)) as [i|] eqn:A; [|inversion E; subst; auto].
    destruct (flookup (KSym f) (i_fields i)) as [x|]; [|inversion E; subst; auto].
    destruct x; try (inversion E; subst; auto; fail).
    destruct (alookup id0 (st_store st)) as [ij|] eqn:AJ; [|inversion E; subst; auto].
    destruct (hash_set st ij (KSym g) v) as [vd ij'] eqn:HS. inversion E; subst. simpl.
    unfold target_typed in CT. rewrite AJ in CT.
    unfold typed_inst in CT. destruct (re_defn (i_fac ij)) as [d|] eqn:D; try discriminate.
    assert (NV : vd <> VOk). { intros ->. apply N. reflexivity. }
    rewrite (hash_set_rejected _ _ _ _ _ _ _ D HS NV). apply aset_same; auto.
  - destruct (alookup id (st_store st)) as [i|]; inversion E; subst; auto. congruence.
  - destruct (alookup id (st_store st)) as [i|] eqn:A; [|inversion E; subst; auto].
    repeat match type of E with
           | (if negb ?b then _ else _) = _ => destruct b; simpl in E; [|inversion E; subst; auto]
           end.
    destruct v; try (inversion E; subst; auto; fail).
    destruct (alookup id0 (st_store st)) as [ij|]; [|inversion E; subst; auto].
    destruct (Nat.eqb (i_tname i) (i_tname ij)); inversion E; subst; auto. congruence.
  - destruct (negb (forallb _ args)); [inversion E; subst; auto|].
    destruct (make_hash st s _) as [[vd i] reg].
    destruct vd; inversion E; subst; auto; congruence.
  - unfold take_ptr in E. destruct (negb (value_ok st (VPtr id))); [inversion E; subst; auto|].
    destruct (alookup id (st_store st)) as [i|]; [|inversion E; subst; auto].
    destruct (alookup (i_tname i) (st_reg st)); inversion E; subst; auto.
  - destruct (alookup pid (st_ptrs st)) as [[id [s g]]|]; [|inversion E; subst; auto].
    destruct (alookup id (st_store st)) as [i|]; [|inversion E; subst; auto].
    destruct (negb (value_ok st v)); [inversion E; subst; auto|].
    destruct v; try (inversion E; subst; auto; fail).
    destruct (alookup id0 (st_store st)) as [ij|]; [|inversion E; subst; auto].
    destruct (ptr_matches st s g ij); inversion E; subst; auto. congruence.
  - unfold declare_bad in E. inversion E; subst; auto.
Qed.

(* ---------- an accepted write sets exactly that field of exactly that instance ---------- *)
Theorem accepted_write_sets st r id k v st' :
  step st (Write r id k v) = (OK, st') ->
  exists i i', alookup id (st_store st) = Some i /\ alookup id (st_store st') = Some i' /\
    flookup k (i_fields i') = Some v /\
    (forall k', key_eqb k' k = false -> flookup k' (i_fields i') = flookup k' (i_fields i)) /\
    i_tname i' = i_tname i /\
    (forall id', id' <> id -> alookup id' (st_store st') = alookup id' (st_store st)) /\
    st_reg st' = st_reg st.
Proof.
  unfold step. simpl. intros H.
  destruct (negb (route_key_ok r k)); [inversion H|].
  destruct (negb (value_ok st v)); [inversion H|].
  destruct (alookup id (st_store st)) as [i|] eqn:A; [|inversion H].
  destruct (hash_set st i k v) as [vd i'] eqn:HS. inversion H; subst; clear H. simpl.
  exists i, i'. rewrite alookup_aset_same.
  assert (VD : vd = VOk).
  { destruct vd; auto; simpl in *; try discriminate.
    exfalso; eapply hash_set_verdict; eauto. }
  subst vd. unfold hash_set in HS.
  destruct (type_check_field st i k v) as [x y] eqn:T.
  destruct (tcf_fields _ _ _ _ _ _ T) as [F N].
  assert (Y : i' = set_fields y (fset k v (i_fields y)))
    by (destruct x; [| |destruct (re_defn (i_fac y))]; inversion HS; auto).
  subst i'. simpl. rewrite F. repeat split; auto.
  - apply flookup_fset_same.
  - intros k' NE. apply flookup_fset_other; auto.
  - intros id' NE. apply alookup_aset_other; auto.
Qed.

(* ---------- derived value expressions ---------- *)
Lemma alookup_above_max {A} (l : list (nat * A)) k :
  fold_right (fun p m => Nat.max (fst p) m) 0 l < k -> alookup k l = None.
Proof.
  induction l as [|[k' a] r IH]; simpl; auto. intros H.
  destruct (Nat.eqb k k') eqn:E.
  - apply Nat.eqb_eq in E. subst. lia.
  - apply IH. lia.
Qed.

Theorem resolve_failure_is_error st e :
  eval_vexpr st e = None -> value_ok st (resolve st e) = false.
Proof.
  intros H. unfold resolve. rewrite H. simpl.
  rewrite (alookup_above_max (st_store st) (S (max_id st))); [reflexivity | unfold max_id; lia].
Qed.

Theorem resolve_concat_is_plain_array st j f l v :
  eval_vexpr st (EConcatEmpty j f l) = Some v -> v = VArr l.
Proof.
  simpl. destruct (alookup j (st_store st)) as [i|]; try discriminate.
  destruct (flookup (KSym f) (i_fields i)) as [x|]; try discriminate.
  destruct x; try discriminate. intros H; inversion H; auto.
Qed.
