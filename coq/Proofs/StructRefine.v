(* C17 - the model of the code refines the specification: a step the model accepts is accepted by
   spec_step with the same resulting state (for clean operations from a state satisfying invb). *)
From Coq Require Import ZArith Bool List Arith Lia.
Import ListNotations.
Require Import ZV.Model.Struct ZV.Proofs.StructProofs.

Lemma hash_set_typed_spec st i d k v y :
  re_defn (i_fac i) = Some d -> forallb (fun ft => wf_ty (snd ft)) d = true -> value_clean st v = true ->
  hash_set st i k v = (VOk, y) ->
  spec_check st i k v = SOk /\ y = spec_set i k v.
Proof.
  intros D W C H. unfold hash_set, type_check_field in H.
  destruct k as [f|n|n]; try (rewrite D in H; discriminate).
  rewrite (adopt_typed _ _ _ D) in H. rewrite D in H. unfold spec_check. rewrite D.
  destruct (lookup_field d f) as [dt|] eqn:L; [|discriminate].
  destruct (check_value st dt v) eqn:CV; try discriminate.
  - inversion H; subst.
    rewrite (check_value_conforms st dt v C (lookup_field_wf _ _ _ W L) CV). auto.
  - exfalso. eapply check_value_notsym; eauto.
Qed.

Lemma hash_set_all_typed_spec st d : forall args i y,
  re_defn (i_fac i) = Some d -> forallb (fun ft => wf_ty (snd ft)) d = true ->
  (forall k v, In (k, v) args -> value_clean st v = true) ->
  hash_set_all st i args = (VOk, y) -> spec_set_all st i args = (SOk, y).
Proof.
  induction args as [|[k v] r IH]; simpl; intros i y D W C H.
  - inversion H; auto.
  - pose proof (C k v (or_introl eq_refl)) as CV.
    destruct (hash_set st i k v) as [x y1] eqn:HS.
    destruct x; try discriminate.
    destruct (hash_set_typed_spec _ _ _ _ _ _ D W CV HS) as [S ->]. rewrite S.
    apply IH; auto. intros k0 v0 I. apply (C k0 v0). auto.
Qed.

(* without a definition (and none to adopt) everything is stored, and the specification agrees *)
Lemma hash_set_all_bare_spec st : forall args i y,
  (forall e, alookup (i_tname i) (st_reg st) = Some e -> re_defn e = None) ->
  re_defn (i_fac i) = None ->
  hash_set_all st i args = (VOk, y) -> spec_set_all st i args = (SOk, y).
Proof.
  induction args as [|[k v] r IH]; simpl; intros i y R D H.
  - inversion H; auto.
  - assert (A : adopt st i = i).
    { unfold adopt. rewrite D. destruct (alookup (i_tname i) (st_reg st)) as [e|] eqn:E; auto.
      rewrite (R e eq_refl). auto. }
    assert (HS : hash_set st i k v = (VOk, spec_set i k v)).
    { unfold hash_set, type_check_field, spec_set. destruct k; try (rewrite D; auto; fail). rewrite A. rewrite D. auto. }
    rewrite HS in H.
    assert (S : spec_check st i k v = SOk) by (unfold spec_check; destruct k; rewrite D; auto).
    rewrite S. apply IH; auto.
Qed.

(* keys survive later sets, and TypeCheckRecord only passes symbol keys *)
Lemma fset_has_key k v l : exists v', In (k, v') (fset k v l).
Proof.
  induction l as [|[k2 v2] r IH]; simpl.
  - eexists; eauto.
  - destruct (key_eqb k k2); simpl; [eexists; eauto|]. destruct IH as [v' I]. eexists; eauto.
Qed.
Lemma fset_keeps k0 v0 k v l : In (k0, v0) l -> exists v', In (k0, v') (fset k v l).
Proof.
  induction l as [|[k2 v2] r IH]; simpl; intros H; [contradiction|].
  destruct (key_eqb k k2) eqn:E; simpl.
  - destruct H as [H|H].
    + inversion H; subst. apply key_eqb_eq in E; subst. eexists; eauto.
    + eexists; eauto.
  - destruct H as [H|H]; [eexists; eauto|]. destruct (IH H) as [v' I]. eexists; eauto.
Qed.
Lemma hash_set_keys st i k v y : hash_set st i k v = (VOk, y) ->
  (exists v', In (k, v') (i_fields y)) /\
  (forall k0 v0, In (k0, v0) (i_fields i) -> exists v', In (k0, v') (i_fields y)).
Proof.
  unfold hash_set. destruct (type_check_field st i k v) as [x y0] eqn:T.
  destruct (tcf_fields _ _ _ _ _ _ T) as [F _].
  destruct x; [| |destruct (re_defn (i_fac y0))]; intros H; inversion H; subst; simpl; rewrite F; split;
    try apply fset_has_key; intros; eapply fset_keeps; eauto.
Qed.
Lemma hash_set_all_keys st : forall args i y, hash_set_all st i args = (VOk, y) ->
  (forall k v, In (k, v) args -> exists v', In (k, v') (i_fields y)) /\
  (forall k0 v0, In (k0, v0) (i_fields i) -> exists v', In (k0, v') (i_fields y)).
Proof.
  induction args as [|[k v] r IH]; simpl; intros i y H.
  - inversion H; subst. split; [contradiction|eauto].
  - destruct (hash_set st i k v) as [x y1] eqn:HS. destruct x; try discriminate.
    destruct (hash_set_keys _ _ _ _ _ HS) as [K1 K2]. destruct (IH _ _ H) as [A1 A2].
    split.
    + intros k0 v0 [E|I]; [inversion E; subst; destruct K1 as [v' I']; eapply A2; eauto | eapply A1; eauto].
    + intros k0 v0 I. destruct (K2 _ _ I) as [v' I']. eapply A2; eauto.
Qed.
Lemma check_record_keys st i : forall l, check_record st i l = VOk ->
  forall k v, In (k, v) l -> exists f, k = KSym f.
Proof.
  induction l as [|[k v] r IH]; simpl; intros H k0 v0 I; [contradiction|].
  destruct (fst (type_check_field st i k v)) eqn:T; try discriminate.
  destruct I as [E|I]; [|eapply IH; eauto]. inversion E; subst.
  destruct k0; [eexists; eauto | simpl in T; discriminate | simpl in T; discriminate].
Qed.

Lemma make_hash_spec st s args i reg' :
  reg_okb (st_reg st) = true ->
  (forall k v, In (k, v) args -> value_clean st v = true) ->
  make_hash st s args = (VOk, i, reg') -> spec_make st s args = (SOk, i, reg').
Proof.
  unfold make_hash, spec_make. intros R C H.
  remember {| i_tname := s;
              i_fac := match alookup s (st_reg st) with
                       | Some e => e
                       | None => {| re_gen := GBare (st_clock st); re_defn := None |}
                       end;
              i_fields := [] |} as i0.
  destruct (hash_set_all st i0 args) as [vd i1] eqn:HA.
  destruct vd; try (inversion H; fail).
  destruct (alookup s (st_reg st)) as [e|] eqn:E.
  - destruct (re_defn e) as [d|] eqn:DE.
    + inversion H; subst i1 reg'. clear H.
      assert (D0 : re_defn (i_fac i0) = Some d) by (subst i0; auto).
      assert (W : forallb (fun ft => wf_ty (snd ft)) d = true).
      { pose proof (reg_okb_lookup _ _ _ R E) as O. unfold entry_okb in O. rewrite DE in O. auto. }
      rewrite (hash_set_all_typed_spec st d args i0 i D0 W C HA). auto.
    + inversion H; subst i1 reg'.
      rewrite (hash_set_all_bare_spec st args i0 i); auto; subst i0; simpl; auto.
      intros e0 E0. rewrite E in E0. inversion E0; subst; auto.
  - inversion H; subst i1 reg'.
    rewrite (hash_set_all_bare_spec st args i0 i); auto; subst i0; simpl; auto.
    intros e0 E0. rewrite E in E0. discriminate.
Qed.

Lemma sort_args_in : forall (l : list (nat * value)) a, In a (sort_args l) -> In a l.
Proof.
  assert (SI : forall x l0 a0, In a0 (sort_insert x l0) -> a0 = x \/ In a0 l0).
  { induction l0 as [|c t IH0]; simpl; intros a0 H.
    - destruct H; auto.
    - destruct (Nat.leb (fst x) (fst c)); simpl in H.
      + destruct H as [H|[H|H]]; auto.
      + destruct H as [H|H]; auto. destruct (IH0 _ H); auto. }
  induction l as [|b r IH]; simpl; auto. intros a H. destruct (SI _ _ _ H); auto.
Qed.

Lemma of_verdict_ok st i k v vd y : hash_set st i k v = (vd, y) -> of_verdict vd = OK -> vd = VOk.
Proof.
  intros H O. destruct vd; auto; try discriminate. exfalso. eapply hash_set_verdict; eauto.
Qed.

Lemma typed_wf st id i d : sinvb st = true -> alookup id (st_store st) = Some i ->
  re_defn (i_fac i) = Some d -> forallb (fun ft => wf_ty (snd ft)) d = true.
Proof.
  intros I A D. pose proof (sinvb_lookup _ _ _ I A) as O.
  apply (inst_okb_split st i d D) in O as [W _]. auto.
Qed.

Theorem step_op_refines st o :
  invb st = true -> clean st o = true ->
  fst (step_op st o) = OK -> spec_step_op st o = (SOk, snd (step_op st o)).
Proof.
  unfold invb. intros I C. apply andb_prop in I as [R I].
  destruct o as [s l|id s args|r id k v|id f g v|id k|id v|ko id s args|pid id|pid v|s]; simpl.
  - (* Declare *)
    destruct (declare st s l) as [oc st']. simpl. intros ->. auto.
  - (* Construct *)
    simpl in C. apply andb_prop in C as [CF CV].
    destruct (alookup s (st_reg st)) as [e|]; [|discriminate].
    destruct (negb (bound_entry e)); [discriminate|].
    destruct (negb (forallb _ args)); [discriminate|].
    destruct (make_hash st s args) as [[vd i] reg] eqn:M.
    destruct vd; simpl; try discriminate. intros _.
    rewrite (make_hash_spec _ _ _ _ _ R (forallb_values_clean _ _ CV) M). auto.
  - (* Write *)
    simpl in C. apply andb_prop in C as [CV CT].
    destruct (route_key_ok r k) eqn:RK; simpl; [|discriminate].
    destruct (negb (value_ok st v)); [discriminate|].
    unfold target_typed in CT.
    destruct (alookup id (st_store st)) as [i|] eqn:A; [|discriminate].
    destruct (hash_set st i k v) as [vd i'] eqn:HS. simpl. intros O.
    pose proof (of_verdict_ok _ _ _ _ _ _ HS O). subst vd.
    unfold typed_inst in CT. destruct (re_defn (i_fac i)) as [d|] eqn:D; try discriminate.
    destruct (hash_set_typed_spec _ _ _ _ _ _ D (typed_wf _ _ _ _ I A D) CV HS) as [S ->].
    rewrite S. auto.
  - (* Nested *)
    simpl in C. apply andb_prop in C as [CV CT].
    destruct (negb (value_ok st v)); [discriminate|].
    destruct (alookup id (st_store st)) as [i|] eqn:A; [|discriminate].
    destruct (flookup (KSym f) (i_fields i)) as [x|]; [|discriminate].
    destruct x; try discriminate; auto.
    destruct (alookup id0 (st_store st)) as [ij|] eqn:AJ; [|discriminate].
    destruct (hash_set st ij (KSym g) v) as [vd ij'] eqn:HS. simpl. intros O.
    pose proof (of_verdict_ok _ _ _ _ _ _ HS O). subst vd.
    unfold target_typed in CT. rewrite AJ in CT.
    unfold typed_inst in CT. destruct (re_defn (i_fac ij)) as [d|] eqn:D; try discriminate.
    destruct (hash_set_typed_spec _ _ _ _ _ _ D (typed_wf _ _ _ _ I AJ D) CV HS) as [S ->].
    unfold spec_check in S. rewrite D in S. rewrite S. auto.
  - (* Delete *)
    destruct (alookup id (st_store st)) as [i|]; [auto | simpl; discriminate].
  - (* DerefSet *)
    destruct (alookup id (st_store st)) as [i|] eqn:A; [|discriminate].
    repeat match goal with
           | |- context [if negb ?b then _ else _] => destruct b; simpl; [|discriminate]
           end.
    destruct v; try discriminate.
    destruct (alookup id0 (st_store st)) as [ij|] eqn:AJ; [|discriminate].
    destruct (Nat.eqb (i_tname i) (i_tname ij)); [|discriminate]. simpl. intros _.
    simpl in C. rewrite A, AJ in C. rewrite C. auto.
  - (* Decode *)
    simpl in C. apply andb_prop in C as [CF CV].
    destruct (negb (forallb _ args)); [discriminate|].
    destruct (make_hash st s _) as [[vd i] reg] eqn:M.
    destruct vd; simpl; try discriminate. intros _.
    assert (CC : forall k v0, In (k, v0) (map (fun kv : nat * value => (KSym (fst kv), snd kv)) (sort_args args)) ->
                 value_clean st v0 = true).
    { intros k v0 IN. apply in_map_iff in IN as [[f0 v1] [EQ IN]]. inversion EQ; subst.
      rewrite forallb_forall in CV. apply (CV (f0, v0)). apply sort_args_in; auto. }
    rewrite (make_hash_spec _ _ _ _ _ R CC M). auto.
  - (* TakePtr *)
    destruct (take_ptr st pid id) as [oc st']. simpl. intros ->. auto.
  - (* DerefSetP *)
    destruct (alookup pid (st_ptrs st)) as [[id [s g]]|] eqn:P; [|simpl; discriminate].
    destruct (alookup id (st_store st)) as [i|] eqn:A; [|simpl; discriminate].
    destruct (negb (value_ok st v)); [simpl; discriminate|].
    destruct v; try (simpl; discriminate).
    destruct (alookup id0 (st_store st)) as [ij|] eqn:AJ; [|simpl; discriminate].
    destruct (ptr_matches st s g ij); [|simpl; discriminate]. simpl. intros _.
    simpl in C. rewrite P, A, AJ in C. apply andb_prop in C as [E C]. rewrite E, C. auto.
  - (* DeclareBad *)
    unfold declare_bad. simpl. discriminate.
Qed.

(* the statement that carries the property from the model of the code to the specification *)
Theorem model_refines_spec st o :
  invb st = true -> clean st o = true ->
  fst (step st o) = OK -> spec_step st o = (SOk, snd (step st o)).
Proof.
  intros I C. unfold step, spec_step.
  pose proof (step_op_refines st o I C) as H.
  destruct (step_op st o) as [oc st'] eqn:E. simpl in *. intros ->.
  rewrite (H eq_refl). auto.
Qed.

(* whole histories: run the specification beside the model, taking the spec's state whenever it accepts
   and keeping the state otherwise; on a clean history both end in the same state *)
Definition spec_follow (st : state) (o : op) : state :=
  match fst (step st o) with
  | OK => snd (spec_step st o)
  | _ => snd (step st o)
  end.
Theorem history_refines : forall h st,
  invb st = true -> clean_run st h = true ->
  fold_left spec_follow h st = run st h.
Proof.
  unfold run. induction h as [|o r IH]; simpl; intros st I C; auto.
  apply andb_prop in C as [C1 C2].
  assert (E : spec_follow st o = snd (step st o)).
  { unfold spec_follow. destruct (fst (step st o)) eqn:F; auto.
    rewrite (model_refines_spec st o I C1 F). auto. }
  rewrite E. apply IH; auto. apply step_preserves_inv; auto.
Qed.
