(* C17 - every write route of /repo (generated census, Generated/WriteRoutes.v) is either a call of HashSet or a
   direct write inside one of the functions the model mirrors; HashSet itself checks before it stores. *)
From Coq Require Import ZArith Bool List Arith.
Import ListNotations.
Require Import ZV.Model.Struct ZV.Model.StructExact ZV.Generated.WriteRoutes.

Lemma write_sites_covered_b : forallb (site_covered writer_tbl) write_sites = true.
Proof. vm_compute. reflexivity. Qed.

Theorem write_sites_covered : forall f fn k, In (f, fn, k) write_sites ->
  k = SCallHashSet \/ (class_of writer_tbl fn <> WOther /\ kind_allowed (class_of writer_tbl fn) k = true).
Proof.
  intros f fn k H. pose proof write_sites_covered_b as B. rewrite forallb_forall in B.
  specialize (B _ H). change (kind_allowed (class_of writer_tbl fn) k = true) in B.
  destruct k; auto; right; (split; [|exact B]); intros E; rewrite E in B; discriminate.
Qed.

Theorem hashset_shape_measured_ok : shape_ok hashset_measured = true.
Proof. vm_compute. reflexivity. Qed.

(* for ANY census: a site that writes directly outside the listed functions makes the census uncovered *)
Theorem uncovered_site_breaks_census tbl (l : list site) f fn k :
  In (f, fn, k) l -> k <> SCallHashSet -> class_of tbl fn = WOther -> forallb (site_covered tbl) l = false.
Proof.
  intros I N C. destruct (forallb (site_covered tbl) l) eqn:E; auto.
  rewrite forallb_forall in E. specialize (E _ I). change (kind_allowed (class_of tbl fn) k = true) in E. rewrite C in E.
  destruct k; try discriminate. exfalso; apply N; auto.
Qed.
