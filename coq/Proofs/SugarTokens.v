(* The reader prefixes % ^ ~ ~@ in front of a form lex to the prefix token followed by exactly the
   tokens of the form (used by C15: a template written with reader sugar is the form it abbreviates). *)
From Coq Require Import ZArith List Bool Lia.
From ZV Require Import Model.Regex Generated.LexTables Model.Lexer Proofs.LexerProofs.
Import ListNotations.
Open Scope Z_scope.

Ltac ds s := destruct s as [st pr tk bf pt ppt pb ln pi rg].
Local Opaque decode_atom re_match slice_bound escape_char sci_prefix_ok can_start_signed_after decode_brace.

(* ---- the look-back ring ---- *)
Definition ring_wf (s : lstate) : Prop := (l_priori s < 20)%nat /\ length (l_ring s) = 20%nat.
Definition ringof (s : lstate) : nat * list Z := (l_priori s, l_ring s).

Lemma twoback_ringof : forall s s', ringof s = ringof s' -> twoback s = twoback s'.
Proof. intros s s' H; destruct s, s'; unfold ringof in H; simpl in H; inversion H; subst; reflexivity. Qed.

Lemma ring_wf_ringof : forall s s', ringof s = ringof s' -> ring_wf s -> ring_wf s'.
Proof. intros s s' H; destruct s, s'; unfold ringof, ring_wf in *; simpl in *; inversion H; subst; tauto. Qed.

Lemma upd_nth_length : forall l n v, length (upd_nth n v l) = length l.
Proof. induction l as [|x l IH]; intros n v; simpl; [destruct n; reflexivity|]. destruct n; simpl; [reflexivity|rewrite IH; reflexivity]. Qed.

Lemma ring_push_wf : forall r s, ring_wf s -> ring_wf (ring_push r s).
Proof.
  intros r s [H1 H2]. ds s; unfold ring_wf in *; simpl in H1, H2. split.
  - do 20 (destruct pi as [|pi]; [vm_compute; lia|]). exfalso; lia.
  - simpl. rewrite upd_nth_length. exact H2.
Qed.

(* after two pushes, the rune before the current one is the first of the two *)
Lemma twoback_push_push : forall s r r2, ring_wf s -> twoback (ring_push r2 (ring_push r s)) = r.
Proof.
  intros s r r2 [H1 H2]. ds s. simpl in *.
  do 20 (destruct rg as [|? rg]; [discriminate|]). destruct rg; [|discriminate].
  do 20 (destruct pi as [|pi]; [reflexivity|]). exfalso; lia.
Qed.

(* lexing a rune touches the ring only by the push at the start of LexNextRune *)
Ltac crunch3 :=
  repeat (match goal with
          | |- context [if ?c then _ else _] => destruct c
          | |- context [match ?l with [] => _ | _ :: _ => _ end] => destruct l
          | |- context [match decode_atom ?x with _ => _ end] => destruct (decode_atom x)
          | |- context [match escape_char ?x with _ => _ end] => destruct (escape_char x)
          end; simpl); try reflexivity.

Lemma lex_normal_ring : forall s r, ringof (lres_state (lex_normal s r)) = ringof s.
Proof. intros s r; ds s. unfold lex_normal, with_dump, dump_buffer, append_token, write_rune, twoback, ringof; simpl. crunch3. Qed.

Lemma lex_builtin_ring : forall s r, ringof (lres_state (lex_builtin s r)) = ringof s.
Proof.
  intros s r. unfold lex_builtin. destruct (_ && _ && _); [ds s; reflexivity|].
  destruct (re_match re_BuiltinOpRegex _); [ds s; reflexivity|]. rewrite lex_normal_ring. ds s; reflexivity.
Qed.

Lemma dump_ring : forall s s', dump_buffer s = Some s' -> ringof s' = ringof s.
Proof. intros s s' H; ds s; unfold dump_buffer in H; simpl in H. destruct bf; [inversion H; reflexivity|]. destruct (decode_atom _); inversion H; reflexivity. Qed.

Lemma lex_rune_ring : forall s r, ringof (lres_state (lex_rune s r)) = ringof (ring_push r s).
Proof.
  intros s r. unfold lex_rune. set (s1 := ring_push r s). clearbody s1.
  destruct (l_state s1).
  - apply lex_normal_ring.
  - destruct (r =? 10); destruct s1; reflexivity.
  - destruct (r =? 92); [|destruct (r =? 34)]; destruct s1; reflexivity.
  - destruct (escape_char r); destruct s1; reflexivity.
  - destruct (r =? 64); [destruct s1; reflexivity|]. rewrite lex_normal_ring. destruct s1; reflexivity.
  - destruct (r =? 96); destruct s1; reflexivity.
  - unfold lex_freshassign, with_dump.
    destruct (r =? 61); [|destruct (slice_bound _)];
      (destruct (dump_buffer _) as [s2|] eqn:D; [apply dump_ring in D|destruct s1; reflexivity]).
    + simpl. destruct s2; destruct s1; exact D.
    + rewrite lex_normal_ring. destruct s2; destruct s1; exact D.
    + rewrite lex_normal_ring. rewrite D. destruct s1; reflexivity.
  - unfold lex_firstslash, with_dump.
    destruct (r =? 47); [|destruct (r =? 42)];
      (destruct (dump_buffer _) as [s2|] eqn:D; [apply dump_ring in D|destruct s1; reflexivity]).
    + simpl. destruct s2; destruct s1; exact D.
    + simpl. destruct s2; destruct s1; exact D.
    + rewrite lex_builtin_ring. rewrite D. destruct s1; reflexivity.
  - destruct (r =? 10); [|destruct (r =? 42)]; destruct s1; reflexivity.
  - destruct (r =? 47); [|destruct (r =? 42)]; destruct s1; reflexivity.
  - apply lex_builtin_ring.
  - destruct (r =? 92); [|destruct (r =? 39)]; try (destruct s1; reflexivity).
    destruct (dump_buffer _) as [s2|] eqn:D; [apply dump_ring in D; simpl; destruct s2; destruct s1; exact D|destruct s1; reflexivity].
  - destruct (escape_char r); destruct s1; reflexivity.
Qed.

(* ---- lexing does not depend on the ring beyond the class of the previous rune ---- *)
Definition cls (r : Z) : bool * bool := ((r =? 101) || (r =? 69), can_start_signed_after r).

Definition R (s s' : lstate) : Prop :=
  l_state s = l_state s' /\ l_prevrune s = l_prevrune s' /\ l_tokens s = l_tokens s' /\
  l_buffer s = l_buffer s' /\
  (* preBuiltinRune is read only in the operator mode after a minus *)
  (l_state s = LBuiltinOperator -> l_prevrune s = 45 ->
   can_start_signed_after (l_prebuiltin s) = can_start_signed_after (l_prebuiltin s')).
Definition T (s s' : lstate) : Prop := cls (twoback s) = cls (twoback s').
Definition Rres (x y : lres) : Prop :=
  match x, y with LOk a, LOk b => R a b | LErr a, LErr b => R a b | _, _ => False end.

Local Arguments Nat.modulo : simpl never.
Local Arguments nth : simpl never.

Ltac crunch4 :=
  repeat (match goal with
          | |- context [if ?c then _ else _] => destruct c
          | |- context [match ?l with [] => _ | _ :: _ => _ end] => destruct l
          | |- context [match decode_atom ?x with _ => _ end] => destruct (decode_atom x)
          | |- context [match escape_char ?x with _ => _ end] => destruct (escape_char x)
          end; simpl).

(* LexNextRune after the push into the ring *)
Definition lex_body (s : lstate) (r : Z) : lres :=
  match l_state s with
  | LCommentBlock =>
      if r =? 10 then LOk (dump_as TComment (write_rune 10 s))
      else if r =? 42 then LOk (set_state LCommentBlockAsterisk s)
      else LOk (write_rune r s)
  | LCommentBlockAsterisk =>
      if r =? 47 then
        LOk (set_state LNormal (append_token (mkTok TEndBlockComment []) (dump_as TComment (write_runes [42; 47] s))))
      else if r =? 42 then LOk (write_rune 42 s)      (* another asterisk: stay in this mode *)
      else LOk (write_rune r (set_state LCommentBlock (write_rune 42 s)))
  | LFirstFwdSlash => lex_firstslash s r
  | LCommentLine =>
      if r =? 10 then LOk (set_state LNormal (dump_as TComment s))
      else LOk (write_rune r s)
  | LBacktickString =>
      if r =? 96 then LOk (set_state LNormal (dump_as TBacktickString s))
      else LOk (write_rune r s)
  | LStrLit =>
      if r =? 92 then LOk (set_state LStrEscaped s)
      else if r =? 34 then LOk (set_state LNormal (dump_as TString s))
      else LOk (write_rune r s)
  | LStrEscaped =>
      match escape_char r with
      | Some c => LOk (set_state LStrLit (write_rune c s))
      | None => LErr s
      end
  | LRuneLit =>
      if r =? 92 then LOk (set_state LRuneEscaped s)
      else if r =? 39 then
        (* the error of dumpBuffer is dropped here: the atom then stays in the buffer *)
        let s1 := write_rune r s in
        match dump_buffer s1 with
        | Some s2 => LOk (set_state LNormal s2)
        | None => LOk (set_state LNormal s1)
        end
      else LOk (write_rune r s)
  | LRuneEscaped =>
      match escape_char r with
      | Some c => LOk (set_state LRuneLit (write_rune c s))
      | None => LErr s
      end
  | LUnquote =>
      if r =? 64 then LOk (set_state LNormal (append_token (mkTok TTildeAt []) s))
      else lex_normal (set_state LNormal (append_token (mkTok TTilde []) s)) r
  | LFreshAssignOrColon => lex_freshassign s r
  | LBuiltinOperator => lex_builtin s r
  | LNormal => lex_normal s r
  end.

Lemma lex_rune_body : forall s r, lex_rune s r = lex_body (ring_push r s) r.
Proof. reflexivity. Qed.

Lemma lex_body_R : forall s1 s1' r, R s1 s1' -> T s1 s1' -> Rres (lex_body s1 r) (lex_body s1' r).
Proof.
  intros s1 s1' r HR HT. destruct s1 as [st pr tk bf pt ppt pb ln pi rg]. destruct s1' as [st' pr' tk' bf' pt' ppt' pb' ln' pi' rg'].
  unfold R, T, cls in *. simpl in HR. destruct HR as (E1 & E2 & E3 & E4 & E5). subst st' pr' tk' bf'.
  unfold twoback, ring_size in HT. simpl in HT.
  inversion HT as [[HT1 HT2]]; clear HT.
  unfold lex_body. destruct st; simpl;
    unfold lex_normal, lex_firstslash, lex_freshassign, lex_builtin, lex_normal, with_dump, dump_buffer, dump_as, append_token, write_rune, write_runes, twoback, ring_size; simpl;
    rewrite ?HT1;
    try (destruct (pr =? 45) eqn:E45; [apply Z.eqb_eq in E45; subst pr; rewrite (E5 eq_refl eq_refl)|]; simpl);
    repeat (match goal with
          | |- context [if ?c then _ else _] => destruct c
          | |- context [match ?l with [] => _ | _ :: _ => _ end] => destruct l
          | |- context [match decode_atom ?x with _ => _ end] => destruct (decode_atom x)
          | |- context [match escape_char ?x with _ => _ end] => destruct (escape_char x)
          end; simpl; rewrite ?HT1);
    unfold Rres, R; simpl; repeat split; try reflexivity; try assumption;
    try (intros; discriminate); try (intros; assumption).
Qed.

Lemma ringof_push : forall r a a', ringof a = ringof a' -> ringof (ring_push r a) = ringof (ring_push r a').
Proof. intros r a a' H; destruct a, a'; unfold ringof in *; simpl in *; inversion H; subst; reflexivity. Qed.

Lemma R_push : forall r s s', R s s' -> R (ring_push r s) (ring_push r s').
Proof. intros r s s' H; destruct s, s'; exact H. Qed.

Definition same_out (x y : lres) : Prop :=
  l_tokens (lres_state x) = l_tokens (lres_state y) /\ lres_ok x = lres_ok y.

Lemma Rres_state : forall x y, Rres x y -> R (lres_state x) (lres_state y) /\ lres_ok x = lres_ok y.
Proof. intros [a|a] [b|b] H; simpl in *; try contradiction; split; [exact H|reflexivity|exact H|reflexivity]. Qed.

Lemma lex_all_R : forall t s s', R s s' -> ring_wf s -> ring_wf s' ->
  (forall r, T (ring_push r s) (ring_push r s')) -> same_out (lex_all s t) (lex_all s' t).
Proof.
  induction t as [|r t IH]; intros s s' HR W W' HT; simpl.
  - split; [apply HR|reflexivity].
  - pose proof (lex_body_R _ _ r (R_push r s s' HR) (HT r)) as HB. rewrite <- !lex_rune_body in HB.
    pose proof (lex_rune_ring s r) as G. pose proof (lex_rune_ring s' r) as G'.
    destruct (lex_rune s r) as [a|a]; destruct (lex_rune s' r) as [b|b]; simpl in *; try contradiction.
    + apply IH; [exact HB| | |].
      * eapply ring_wf_ringof; [symmetry; exact G|apply ring_push_wf; exact W].
      * eapply ring_wf_ringof; [symmetry; exact G'|apply ring_push_wf; exact W'].
      * intros r2. unfold T.
        rewrite (twoback_ringof _ _ (ringof_push r2 _ _ G)), (twoback_ringof _ _ (ringof_push r2 _ _ G')).
        rewrite !twoback_push_push by assumption. reflexivity.
    + split; [apply HB|reflexivity].
Qed.

(* a lexer state right after a reader prefix: normal mode, nothing pending, the prefix token queued,
   the previous rune in the same class as the start of a text *)
Definition after_prefix (s : lstate) (tok : token) : Prop :=
  R (set_tokens [] s) init_lstate /\ l_tokens s = [tok] /\ ring_wf s /\
  forall r, T (ring_push r (set_tokens [] s)) (ring_push r init_lstate).

Lemma ring_wf_init : ring_wf init_lstate.
Proof. split; [vm_compute; lia|reflexivity]. Qed.

Lemma after_prefix_tokens : forall s tok t, after_prefix s tok ->
  l_tokens (lres_state (lex_all s t)) = tok :: l_tokens (lres_state (lex_all init_lstate t)) /\
  lres_ok (lex_all s t) = lres_ok (lex_all init_lstate t).
Proof.
  intros s tok t (HR & Htk & W & HT).
  rewrite (lex_all_emptied s t). rewrite Htk.
  destruct (lex_all_R t (set_tokens [] s) init_lstate HR) as [E1 E2];
    [destruct s; exact W|apply ring_wf_init|exact HT|].
  destruct (lex_all (set_tokens [] s) t) as [a|a]; simpl in *; rewrite <- E2; (split; [|reflexivity]);
    destruct a; simpl in *; rewrite E1; reflexivity.
Qed.

Local Transparent can_start_signed_after.

Lemma after_percent : after_prefix (lres_state (lex_rune init_lstate 37)) (mkTok TQuote []).
Proof. repeat split; try (vm_compute; lia); intros r; vm_compute; reflexivity. Qed.

Lemma after_caret : after_prefix (lres_state (lex_rune init_lstate 94)) (mkTok TCaret []).
Proof. repeat split; try (vm_compute; lia); intros r; vm_compute; reflexivity. Qed.

Lemma after_tilde_at : after_prefix (lres_state (lex_all init_lstate [126; 64])) (mkTok TTildeAt []).
Proof. repeat split; try (vm_compute; lia); intros r; vm_compute; reflexivity. Qed.

(* ~ : the token is emitted when the next rune arrives; as if it had been emitted at once *)
Definition tilde_state : lstate :=
  set_state LNormal (append_token (mkTok TTilde []) (lres_state (lex_rune init_lstate 126))).

Lemma after_tilde : after_prefix tilde_state (mkTok TTilde []).
Proof. repeat split; try (vm_compute; lia); intros r; vm_compute; reflexivity. Qed.

Lemma tilde_step : forall r, (r =? 64) = false ->
  lex_rune (lres_state (lex_rune init_lstate 126)) r = lex_rune tilde_state r.
Proof.
  intros r Hr. unfold lex_rune at 1 3. cbn [lres_state].
  change (l_state (ring_push r (lres_state (lex_rune init_lstate 126)))) with LUnquote.
  change (l_state (ring_push r tilde_state)) with LNormal.
  cbv iota. rewrite Hr. reflexivity.
Qed.

Lemma lex_text_after : forall p s tok t,
  lex_all init_lstate p = LOk s -> after_prefix s tok ->
  lex_text (p ++ t) = (tok :: fst (lex_text t), snd (lex_text t)).
Proof.
  intros p s tok t Hp Ha. unfold lex_text. rewrite lex_all_app, Hp.
  destruct (after_prefix_tokens s tok t Ha) as [E1 E2]. cbn [fst snd]. rewrite E1, E2. reflexivity.
Qed.

Theorem sugar_tokens : forall t,
  lex_text (37 :: t) = (mkTok TQuote [] :: fst (lex_text t), snd (lex_text t)) /\
  lex_text (94 :: t) = (mkTok TCaret [] :: fst (lex_text t), snd (lex_text t)) /\
  lex_text (126 :: 64 :: t) = (mkTok TTildeAt [] :: fst (lex_text t), snd (lex_text t)) /\
  (forall r, r <> 64 ->
     lex_text (126 :: r :: t) = (mkTok TTilde [] :: fst (lex_text (r :: t)), snd (lex_text (r :: t)))).
Proof.
  intros t. split; [|split; [|split]].
  - apply (lex_text_after [37] _ _ t (eq_refl : lex_all init_lstate [37] = LOk _) after_percent).
  - apply (lex_text_after [94] _ _ t (eq_refl : lex_all init_lstate [94] = LOk _) after_caret).
  - apply (lex_text_after [126; 64] _ _ t (eq_refl : lex_all init_lstate [126; 64] = LOk _) after_tilde_at).
  - intros r Hr. assert ((r =? 64) = false) as Hr' by (apply Z.eqb_neq; exact Hr).
    unfold lex_text.
    change (lex_all init_lstate (126 :: r :: t))
      with (match lex_rune init_lstate 126 with
            | LOk s' => match lex_rune s' r with LOk s2 => lex_all s2 t | LErr s2 => LErr s2 end
            | LErr s' => LErr s' end).
    assert (lex_rune init_lstate 126 = LOk (lres_state (lex_rune init_lstate 126))) as -> by (vm_compute; reflexivity).
    rewrite (tilde_step r Hr').
    change (match lex_rune tilde_state r with LOk s2 => lex_all s2 t | LErr s2 => LErr s2 end) with (lex_all tilde_state (r :: t)).
    destruct (after_prefix_tokens tilde_state (mkTok TTilde []) (r :: t) after_tilde) as [E1 E2].
    cbn [fst snd]. rewrite E1, E2. reflexivity.
Qed.
