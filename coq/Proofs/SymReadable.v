(* C12: which symbol NAMES have a printed syntax (token level).
   SexpSymbol.SexpString prints the bare name; [reads_back n] = a fresh lexer (lexer.go) turns the name followed by a
   blank into exactly one TokenSymbol carrying the same name, without error.
   A: exact characterisation on the names without special runes (both directions, all rune lists).
   B: the biconditional "reads back <-> sym_ok" is FALSE of the model (operators, sign-absorbing atoms read back).
   C: converse on names with a special rune behind a plain prefix: they never read back. *)
From Coq Require Import ZArith List Bool Lia.
From ZV Require Import Model.Regex Generated.LexTables Model.Lexer Model.Reader Model.Printer
  Proofs.LexerProofs Proofs.PrinterLex Proofs.PrinterProofs.
Import ListNotations.
Open Scope Z_scope.

Definition reads_back (n : list Z) : Prop := lex_text (n ++ [32]) = ([mkTok TSymbol n], true).

Lemma init_view : view init_lstate LNormal [] [] 0.
Proof. destruct init_ring_ok as [A B]. split; try reflexivity; assumption. Qed.

(* [reach a]: a fresh lexer that has read a holds all of a in its atom buffer (normal mode, no token yet) *)
Definition reach (a : list Z) : Prop :=
  exists s1, lex_all init_lstate a = LOk s1 /\ view s1 LNormal a [] (last a 0).

Lemma plain_reach : forall a, Forall plain a -> reach a.
Proof.
  intros a F. destruct (run_plain a init_lstate [] [] 0 F init_view) as [s1 [E1 V1]]. cbn [app] in V1.
  exists s1. split; assumption.
Qed.

(* the blank behind a pending atom: dumpBuffer decides *)
Lemma blank_after : forall s b p, view s LNormal b [] p -> b <> [] ->
  match decode_atom b with
  | Some tok => exists s', lex_rune s 32 = LOk s' /\ l_tokens s' = [tok]
  | None => exists s', lex_rune s 32 = LErr s'
  end.
Proof.
  intros s b p V Hb. destruct (decode_atom b) as [tok|] eqn:E.
  - destruct (step_delim s b [] p 32 tok (or_introl eq_refl) Hb E V) as [s' [E1 V1]].
    exists s'. split; [exact E1|]. exact (v_toks _ _ _ _ _ V1).
  - rewrite lex_rune_normal by apply V.
    apply (push_view _ _ _ _ _ 32) in V. set (s1 := ring_push 32 s) in *. clearbody s1.
    rewrite lex_normal_delim by (left; reflexivity). change (32 =? 10) with false. cbv iota.
    unfold with_dump, dump_buffer. rewrite (p_buf _ _ _ _ _ _ V). destruct b; [congruence|]. rewrite E.
    eexists; reflexivity.
Qed.

(* ======== A ======== *)

Theorem plain_reads_back_iff : forall n, Forall plain n ->
  (reads_back n <-> n <> [] /\ decode_atom n = Some (mkTok TSymbol n)).
Proof.
  intros n F. destruct n as [|c n'].
  - split; [intro H; vm_compute in H; discriminate H|intros [H _]; congruence].
  - set (m := c :: n') in *. assert (m <> []) as Hm by discriminate. clearbody m.
    unfold reads_back, lex_text.
    destruct (run_plain m init_lstate [] [] 0 F init_view) as [s1 [E1 V1]]. cbn [app] in V1.
    rewrite lex_all_app, E1. cbn [lex_all].
    pose proof (blank_after s1 m _ V1 Hm) as B.
    destruct (decode_atom m) as [tok|] eqn:E.
    + destruct B as [s' [E2 T2]]. rewrite E2. cbn [lex_all lres_state lres_ok]. rewrite T2. split.
      * intro H. split; [exact Hm|]. injection H as H. rewrite H. reflexivity.
      * intros [_ H]. injection H as H. rewrite H. reflexivity.
    + destruct B as [s' E2]. rewrite E2. cbn [lex_all lres_state lres_ok]. split.
      * intro H. injection H as _ H. discriminate H.
      * intros [_ H]. discriminate H.
Qed.

(* sym_ok = no special rune, reads back, and is not the word nil (which the PARSER turns into the nil value) *)
Theorem sym_ok_iff : forall n, sym_ok n <-> Forall plain n /\ reads_back n /\ n <> str_nil.
Proof.
  intros n. unfold sym_ok. split.
  - intros [H1 [H2 [H3 H4]]]. split; [exact H2|]. split; [|exact H4]. apply plain_reads_back_iff; auto.
  - intros [H2 [H H4]]. apply plain_reads_back_iff in H; [|exact H2]. destruct H as [H1 H3]. auto.
Qed.

(* ======== B ======== *)

(* + , <= , -5x , .5e+x , -5e+1e+x : operators, and atoms that absorb a sign, read back although not sym_ok *)
Definition odd_names : list (list Z) :=
  [[43]; [60; 61]; [45; 53; 120]; [46; 53; 101; 43; 120]; [45; 53; 101; 43; 49; 101; 43; 120]].

Lemma odd_names_read_back : Forall reads_back odd_names.
Proof. repeat constructor; vm_compute; reflexivity. Qed.

Lemma has_special_not_plain : forall n, existsb (fun c => mem_z c special_runes) n = true -> ~ Forall plain n.
Proof.
  intros n H F. apply existsb_exists in H. destruct H as [x [Hin Hx]].
  rewrite Forall_forall in F. specialize (F x Hin). unfold plain in F. congruence.
Qed.

Lemma odd_names_not_plain : Forall (fun n => ~ Forall plain n) odd_names.
Proof. repeat constructor; apply has_special_not_plain; vm_compute; reflexivity. Qed.

Theorem symbol_readable_iff_sym_ok_refuted : exists n, reads_back n /\ ~ sym_ok n.
Proof.
  exists [43]. split; [vm_compute; reflexivity|].
  intros [_ [F _]]. inversion F as [|x l Hp Hr]. vm_compute in Hp. discriminate Hp.
Qed.

(* ======== C ======== *)

Lemma first_token_kept : forall text s tok X, l_tokens s = tok :: X ->
  exists Y, l_tokens (lres_state (lex_all s text)) = tok :: Y.
Proof.
  intros text s tok X H. rewrite lex_all_emptied, H.
  destruct (lex_all (set_tokens [] s) text) as [s'|s']; cbn [lres_map lres_state];
    ds s'; unfold pre_q, set_tokens; cbn [l_tokens app]; eexists; reflexivity.
Qed.

Lemma rl_len : forall l : list Z, (length (removelast l) <= length l)%nat.
Proof. induction l as [|a l IH]; simpl; [lia|]. destruct l; simpl in *; lia. Qed.

(* DecodeAtom never makes a symbol token longer than the atom *)
Lemma decode_symbol_len0 : forall x y, decode_atom x = Some (mkTok TSymbol y) ->
  (length y <= length (if (last_rune x =? 58)%Z then removelast x else x))%nat.
Proof.
  intros x y. unfold decode_atom. cbv zeta.
  set (ec := last_rune x =? 58). set (atom := if ec then removelast x else x).
  assert (length atom <= length atom)%nat as L by lia.
  clearbody atom.
  destruct (list_eqb atom [38]) eqn:E38.
  { intro H. injection H as H. subst y. apply list_eqb_eq in E38. subst atom. exact L. }
  destruct (list_eqb atom [92]); [intro H; discriminate H|].
  do 7 (match goal with |- (if ?c then _ else _) = _ -> _ => destruct c; [intro H; discriminate H|] end).
  destruct (list_eqb atom [78; 97; 78] || list_eqb atom [110; 97; 110]); [intro H; discriminate H|].
  do 2 (match goal with |- (if ?c then _ else _) = _ -> _ => destruct c; [intro H; discriminate H|] end).
  destruct (re_match re_BuiltinOpRegex atom); [intro H; injection H as H; subst y; exact L|].
  destruct (list_eqb atom [58]); [intro H; injection H as H; subst y; exact L|].
  destruct (re_match re_SymbolRegex atom).
  { destruct ec; intro H; [discriminate H|]. injection H as H; subst y; exact L. }
  destruct (re_match re_CharRegex atom); [destruct (decode_char atom); intro H; discriminate H|].
  destruct ec; intro H; discriminate H.
Qed.

Lemma decode_symbol_len : forall x y, decode_atom x = Some (mkTok TSymbol y) -> (length y <= length x)%nat.
Proof.
  intros x y H. apply decode_symbol_len0 in H. destruct (last_rune x =? 58); [|exact H].
  pose proof (rl_len x). lia.
Qed.

Lemma decode_symbol_len_colon : forall a y, decode_atom (a ++ [58]) = Some (mkTok TSymbol y) -> (length y <= length a)%nat.
Proof.
  intros a y H. apply decode_symbol_len0 in H. unfold last_rune in H. rewrite last_last in H.
  change (58 =? 58) with true in H. cbv iota in H. rewrite removelast_last in H. exact H.
Qed.

(* the special runes that end a pending atom at once (or are an error behind one): everything special except
   the signs + - (absorbed behind e / E of a number prefix) and / : (decided by the next rune) *)
Definition hard_runes : list Z :=
  [42; 60; 62; 61; 33; 38; 124; 96; 34; 39; 59; 44; 37; 94; 126; 40; 41; 91; 93; 123; 125; 10; 32; 9; 13].

Ltac hard_case x a :=
  unfold lex_normal, with_dump, dump_buffer;
  cbn [Z.eqb Pos.eqb orb andb l_buffer l_tokens l_state l_prevtok l_linenum set_state set_buffer set_tokens set_prevtok
       set_prevprevtok set_linenum set_prevrune set_prebuiltin append_token decode_brace app];
  first [exact I |
  destruct (decode_atom (x :: a)) as [tok|]; [|exact I];
  exists tok; eexists; split; [reflexivity|];
  cbn [Z.eqb Pos.eqb orb andb l_buffer l_tokens l_state l_prevtok l_linenum set_state set_buffer set_tokens set_prevtok
       set_prevprevtok set_linenum set_prevrune set_prebuiltin append_token decode_brace app];
  reflexivity].

Lemma hard_step : forall c, In c hard_runes -> forall s a p, view s LNormal a [] p -> a <> [] ->
  match lex_rune s c with
  | LErr _ => True
  | LOk s1 => exists tok X, decode_atom a = Some tok /\ l_tokens s1 = tok :: X
  end.
Proof.
  intros c Hin s a p V Ha. rewrite lex_rune_normal by apply V.
  apply (push_view _ _ _ _ _ c) in V. set (s1 := ring_push c s) in *. clearbody s1.
  destruct V as [V1 V2 V3 _ _ _]. destruct a as [|x a]; [congruence|]. clear Ha.
  destruct s1 as [st pr toks bf pt ppt pb ln pi rg].
  cbn [l_state l_buffer l_tokens] in V1, V2, V3. subst st bf toks.
  unfold hard_runes in Hin. cbn [In] in Hin.
  repeat (destruct Hin as [Hin|Hin]; [subst c; hard_case x a|]).
  contradiction.
Qed.

(* a sign behind a pending atom that is NOT absorbed (the rune before is not e / E, or the atom so far is not
   the beginning of a number in scientific notation): the atom is dumped, the sign starts an operator *)
Lemma sign_step : forall c, c = 43 \/ c = 45 -> forall s a p, view s LNormal a [] p -> a <> [] ->
  ((p =? 101) || (p =? 69)) && sci_prefix_ok a = false ->
  match lex_rune s c with
  | LErr _ => True
  | LOk s1 => exists tok X, decode_atom a = Some tok /\ l_tokens s1 = tok :: X
  end.
Proof.
  intros c Hc s a p V Ha Hns. rewrite lex_rune_normal by apply V.
  apply (push_view _ _ _ _ _ c) in V. set (s1 := ring_push c s) in *. clearbody s1.
  destruct V as [V1 V2 V3 _ _ V6]. destruct a as [|x a]; [congruence|]. clear Ha.
  unfold lex_normal. cbv zeta.
  replace ((c =? 43) || (c =? 45)) with true by (destruct Hc; subst c; reflexivity).
  rewrite V6, V2, Hns. cbv iota.
  unfold with_dump, dump_buffer. rewrite V2.
  destruct (decode_atom (x :: a)) as [tok|]; [|exact I].
  exists tok; eexists; split; [reflexivity|].
  ds s1. cbn [l_tokens] in V3. subst tk. reflexivity.
Qed.

Lemma split_general : forall a c rest, reach a -> a <> [] ->
  (forall s, view s LNormal a [] (last a 0) ->
     match lex_rune s c with
     | LErr _ => True
     | LOk s1 => exists tok X, decode_atom a = Some tok /\ l_tokens s1 = tok :: X
     end) ->
  ~ reads_back (a ++ c :: rest).
Proof.
  intros a c rest F Ha St H. unfold reads_back, lex_text in H.
  rewrite <- app_assoc in H. cbn [app] in H.
  destruct F as [s1 [E1 V1]].
  rewrite lex_all_app, E1 in H. cbn [lex_all] in H.
  pose proof (St s1 V1) as S.
  destruct (lex_rune s1 c) as [s2|s2].
  - destruct S as [tok [X [Hd Ht]]].
    destruct (first_token_kept (rest ++ [32]) s2 tok X Ht) as [Y HY].
    injection H as H1 H2. rewrite HY in H1. injection H1 as H3 H4. subst tok.
    apply decode_symbol_len in Hd. rewrite app_length in Hd. cbn [length] in Hd. lia.
  - cbn [lres_state lres_ok] in H. injection H as _ H. discriminate H.
Qed.

Theorem split_name_not_readable : forall a c rest, reach a -> a <> [] -> In c hard_runes ->
  ~ reads_back (a ++ c :: rest).
Proof.
  intros a c rest F Ha Hc. apply split_general; [exact F|exact Ha|].
  intros s V. exact (hard_step c Hc s a _ V Ha).
Qed.

Theorem sign_split_not_readable : forall a c rest, reach a -> a <> [] -> c = 43 \/ c = 45 ->
  ((last a 0 =? 101) || (last a 0 =? 69)) && sci_prefix_ok a = false ->
  ~ reads_back (a ++ c :: rest).
Proof.
  intros a c rest F Ha Hc Hns. apply split_general; [exact F|exact Ha|].
  intros s V. exact (sign_step c Hc s a _ V Ha Hns).
Qed.

(* ---- the two special runes whose effect is decided by the NEXT rune: / and : ---- *)

Lemma pre_first : forall f : lstate -> Z -> lres,
  (forall pre s r, f (pre_q pre s) r = lres_map (pre_q pre) (f s r)) ->
  forall s r tok X, l_tokens s = tok :: X -> exists Y, l_tokens (lres_state (f s r)) = tok :: Y.
Proof.
  intros f Hf s r tok X H. rewrite <- (pre_q_empty s), Hf, H.
  destruct (f (set_tokens [] s) r) as [s'|s']; cbn [lres_map lres_state];
    ds s'; unfold pre_q, set_tokens; cbn [l_tokens app]; eexists; reflexivity.
Qed.

Lemma lex_rune_slash : forall s r, l_state s = LFirstFwdSlash -> lex_rune s r = lex_firstslash (ring_push r s) r.
Proof. intros s r H. dst s; prj. subst st. reflexivity. Qed.

Definition second_ok (a : list Z) (x : lres) : Prop :=
  match x with
  | LErr _ => True
  | LOk s1 => exists tok X, (decode_atom a = Some tok \/ decode_atom (a ++ [58]) = Some tok) /\ l_tokens s1 = tok :: X
  end.

Ltac wl := cbn [l_buffer l_tokens l_state l_prevtok l_linenum l_priori l_ring l_prevrune l_prebuiltin l_prevprevtok
  set_state set_buffer set_tokens set_prevtok set_prevprevtok set_linenum set_prevrune set_prebuiltin set_priori set_ring
  append_token write_rune write_runes app].

Lemma slash_second : forall s r x a, l_state s = LFirstFwdSlash -> l_buffer s = x :: a -> l_tokens s = [] ->
  second_ok (x :: a) (lex_rune s r).
Proof.
  intros s r x a H1 H2 H3. rewrite lex_rune_slash by exact H1.
  assert (l_buffer (ring_push r s) = x :: a) as B by (ds s; exact H2).
  assert (l_tokens (ring_push r s) = []) as T by (ds s; exact H3).
  set (s1 := ring_push r s) in *. clearbody s1. clear H1 H2 H3.
  ds s1. cbn [l_buffer l_tokens] in B, T. subst bf tk.
  unfold second_ok, lex_firstslash, with_dump, dump_buffer.
  destruct (r =? 47).
  { wl. destruct (decode_atom (x :: a)) as [tok|]; [|exact I].
    exists tok; eexists; split; [left; reflexivity|]. wl. reflexivity. }
  destruct (r =? 42).
  { wl. destruct (decode_atom (x :: a)) as [tok|]; [|exact I].
    exists tok; eexists; split; [left; reflexivity|]. wl. reflexivity. }
  wl. destruct (decode_atom (x :: a)) as [tok|]; [|exact I].
  match goal with |- context [lex_builtin ?S r] =>
    destruct (pre_first lex_builtin lex_builtin_pre S r tok [] eq_refl) as [Y HY];
    destruct (lex_builtin S r) as [s2|s2]; [|exact I] end.
  exists tok, Y. split; [left; reflexivity|exact HY].
Qed.

Lemma colon_second : forall s r x a, l_state s = LFreshAssignOrColon -> l_buffer s = x :: a -> l_tokens s = [] ->
  second_ok (x :: a) (lex_rune s r).
Proof.
  intros s r x a H1 H2 H3. rewrite lex_rune_fresh by exact H1.
  assert (l_buffer (ring_push r s) = x :: a) as B by (ds s; exact H2).
  assert (l_tokens (ring_push r s) = []) as T by (ds s; exact H3).
  set (s1 := ring_push r s) in *. clearbody s1. clear H1 H2 H3.
  ds s1. cbn [l_buffer l_tokens] in B, T. subst bf tk.
  unfold second_ok, lex_freshassign, with_dump, dump_buffer.
  destruct (r =? 61).
  { wl. destruct (decode_atom (x :: a)) as [tok|]; [|exact I].
    exists tok; eexists; split; [left; reflexivity|]. wl. reflexivity. }
  wl. destruct (slice_bound (x :: a)).
  { destruct (decode_atom (x :: a)) as [tok|]; [|exact I].
    match goal with |- context [lex_normal ?S r] =>
      destruct (pre_first lex_normal lex_normal_pre S r tok [mkTok TColonOperator [58]] eq_refl) as [Y HY];
      destruct (lex_normal S r) as [s2|s2]; [|exact I] end.
    exists tok, Y. split; [left; reflexivity|exact HY]. }
  destruct (decode_atom (x :: a ++ [58])) as [tok|]; [|exact I].
  match goal with |- context [lex_normal ?S r] =>
    destruct (pre_first lex_normal lex_normal_pre S r tok [] eq_refl) as [Y HY];
    destruct (lex_normal S r) as [s2|s2]; [|exact I] end.
  exists tok, Y. split; [right; reflexivity|exact HY].
Qed.

Lemma two_step : forall c, c = 47 \/ c = 58 -> forall s r a p, view s LNormal a [] p -> a <> [] ->
  second_ok a (lex_all s [c; r]).
Proof.
  intros c Hc s r a p V Ha. destruct a as [|x a]; [congruence|]. cbn [lex_all]. destruct Hc; subst c.
  - rewrite lex_rune_normal by apply V.
    apply (push_view _ _ _ _ _ 47) in V. set (s1 := ring_push 47 s) in *. clearbody s1.
    destruct V as [V1 V2 V3 _ _ _].
    change (lex_normal s1 47) with (LOk (set_state LFirstFwdSlash s1)). cbv beta iota.
    pose proof (slash_second (set_state LFirstFwdSlash s1) r x a) as S.
    destruct (lex_rune (set_state LFirstFwdSlash s1) r) as [s2|s2]; [|exact I].
    apply S; [ds s1; reflexivity|ds s1; exact V2|ds s1; exact V3].
  - destruct (step_colon s (x :: a) [] p V) as [s1 [E1 V1]]. rewrite E1. cbv beta iota.
    pose proof (colon_second s1 r x a (v_state _ _ _ _ _ V1) (v_buf _ _ _ _ _ V1) (v_toks _ _ _ _ _ V1)) as S.
    destruct (lex_rune s1 r) as [s2|s2]; [|exact I]. exact S.
Qed.

Theorem slash_colon_split_not_readable : forall a c rest, reach a -> a <> [] -> c = 47 \/ c = 58 ->
  ~ reads_back (a ++ c :: rest).
Proof.
  intros a c rest F Ha Hc H. unfold reads_back, lex_text in H.
  rewrite <- app_assoc in H. cbn [app] in H.
  destruct F as [s1 [E1 V1]].
  rewrite lex_all_app, E1 in H.
  destruct (rest ++ [32]) as [|r rest2] eqn:E; [apply app_eq_nil in E; destruct E as [_ E]; discriminate E|].
  change (c :: r :: rest2) with ([c; r] ++ rest2) in H. rewrite lex_all_app in H.
  pose proof (two_step c Hc s1 r a _ V1 Ha) as S.
  destruct (lex_all s1 [c; r]) as [s2|s2].
  - destruct S as [tok [X [Hd Ht]]].
    destruct (first_token_kept rest2 s2 tok X Ht) as [Y HY].
    injection H as H1 H2. rewrite HY in H1. injection H1 as H3 H4. subst tok.
    assert (length (a ++ c :: rest) <= length a)%nat as L.
    { destruct Hd as [Hd|Hd]; [apply decode_symbol_len in Hd; exact Hd|apply decode_symbol_len_colon in Hd; exact Hd]. }
    rewrite app_length in L. cbn [length] in L. lia.
  - cbn [lres_state lres_ok] in H. injection H as _ H. discriminate H.
Qed.

(* all special runes together: behind a non-empty plain prefix a special rune that is not an absorbed exponent sign
   makes the name unreadable *)
Theorem special_after_reach_not_readable : forall a c rest, reach a -> a <> [] -> mem_z c special_runes = true ->
  ((c =? 43) || (c =? 45)) && ((last a 0 =? 101) || (last a 0 =? 69)) && sci_prefix_ok a = false ->
  ~ reads_back (a ++ c :: rest).
Proof.
  intros a c rest F Ha Hc Hs.
  assert (In c special_runes) as Hin.
  { clear - Hc. induction special_runes as [|k l IH]; [discriminate Hc|]. cbn [mem_z] in Hc.
    apply orb_true_iff in Hc. destruct Hc as [Hc|Hc]; [left; apply Z.eqb_eq; exact Hc|right; exact (IH Hc)]. }
  unfold special_runes in Hin. cbn [In] in Hin.
  destruct Hin as [Hin|[Hin|Hin]].
  - subst c. apply sign_split_not_readable; [exact F|exact Ha|left; reflexivity|exact Hs].
  - subst c. apply sign_split_not_readable; [exact F|exact Ha|right; reflexivity|exact Hs].
  - do 7 (destruct Hin as [Hin|Hin]; [subst c; apply split_name_not_readable; auto; unfold hard_runes; cbn [In]; tauto|]).
    destruct Hin as [Hin|Hin]; [subst c; apply slash_colon_split_not_readable; auto|].
    do 5 (destruct Hin as [Hin|Hin]; [subst c; apply split_name_not_readable; auto; unfold hard_runes; cbn [In]; tauto|]).
    destruct Hin as [Hin|Hin]; [subst c; apply slash_colon_split_not_readable; auto|].
    repeat (destruct Hin as [Hin|Hin]; [subst c; apply split_name_not_readable; auto; unfold hard_runes; cbn [In]; tauto|]).
    contradiction.
Qed.

Theorem special_after_plain_not_readable : forall a c rest, Forall plain a -> a <> [] -> mem_z c special_runes = true ->
  ((c =? 43) || (c =? 45)) && ((last a 0 =? 101) || (last a 0 =? 69)) && sci_prefix_ok a = false ->
  ~ reads_back (a ++ c :: rest).
Proof. intros a c rest F. apply special_after_reach_not_readable. apply plain_reach. exact F. Qed.

(* ======== D: every name that begins with a plain rune, exactly ======== *)

(* all of rest goes into the atom buffer behind buf: each rune is plain, or a sign directly behind e / E while the
   buffer is the beginning of a number in scientific notation (lexer.go LexerNormal, case + / -) *)
Fixpoint absorbed (buf rest : list Z) : bool :=
  match rest with
  | [] => true
  | c :: rest' =>
      if mem_z c special_runes
      then ((c =? 43) || (c =? 45)) && ((last buf 0 =? 101) || (last buf 0 =? 69)) && sci_prefix_ok buf
           && absorbed (buf ++ [c]) rest'
      else absorbed (buf ++ [c]) rest'
  end.

Lemma absorbed_run : forall rest buf s p, view s LNormal buf [] p -> p = last buf 0 -> absorbed buf rest = true ->
  exists s', lex_all s rest = LOk s' /\ view s' LNormal (buf ++ rest) [] (last (buf ++ rest) 0).
Proof.
  induction rest as [|c rest IH]; intros buf s p V Hp A.
  - exists s. split; [reflexivity|]. rewrite app_nil_r. subst p. exact V.
  - cbn [absorbed] in A. subst p.
    assert (exists s1, lex_rune s c = LOk s1 /\ view s1 LNormal (buf ++ [c]) [] c) as [s1 [E1 V1]].
    { destruct (mem_z c special_runes) eqn:Em.
      - apply andb_true_iff in A. destruct A as [A _]. apply andb_true_iff in A. destruct A as [A A3].
        apply andb_true_iff in A. destruct A as [A1 A2].
        apply (step_exp_sign s buf [] c (last buf 0)); [| |exact A3|exact V].
        + apply orb_true_iff in A1. destruct A1 as [H|H]; apply Z.eqb_eq in H; auto.
        + apply orb_true_iff in A2. destruct A2 as [H|H]; apply Z.eqb_eq in H; auto.
      - apply step_plain with (p := last buf 0); [exact Em|exact V]. }
    assert (absorbed (buf ++ [c]) rest = true) as A'.
    { destruct (mem_z c special_runes); [apply andb_true_iff in A; destruct A as [_ A]; exact A|exact A]. }
    assert (c = last (buf ++ [c]) 0) as L by (symmetry; apply last_last).
    destruct (IH (buf ++ [c]) s1 c V1 L A') as [s2 [E2 V2]].
    exists s2. split; [cbn [lex_all]; rewrite E1; exact E2|]. rewrite <- app_assoc in V2. exact V2.
Qed.

Lemma not_absorbed_split : forall rest buf, absorbed buf rest = false ->
  exists r1 c r2, rest = r1 ++ c :: r2 /\ absorbed buf r1 = true /\ mem_z c special_runes = true /\
    ((c =? 43) || (c =? 45)) && ((last (buf ++ r1) 0 =? 101) || (last (buf ++ r1) 0 =? 69)) && sci_prefix_ok (buf ++ r1) = false.
Proof.
  induction rest as [|c rest IH]; intros buf A; [discriminate A|]. cbn [absorbed] in A.
  destruct (mem_z c special_runes) eqn:Em.
  - destruct (((c =? 43) || (c =? 45)) && ((last buf 0 =? 101) || (last buf 0 =? 69)) && sci_prefix_ok buf) eqn:Es.
    + cbn [andb] in A. destruct (IH _ A) as [r1 [c' [r2 [H1 [H2 [H3 H4]]]]]].
      exists (c :: r1), c', r2. split; [rewrite H1; reflexivity|].
      split; [cbn [absorbed]; rewrite Em, Es; exact H2|]. split; [exact H3|]. rewrite <- app_assoc in H4. exact H4.
    + exists [], c, rest. split; [reflexivity|]. split; [reflexivity|]. split; [exact Em|]. rewrite app_nil_r. exact Es.
  - destruct (IH _ A) as [r1 [c' [r2 [H1 [H2 [H3 H4]]]]]].
    exists (c :: r1), c', r2. split; [rewrite H1; reflexivity|].
    split; [cbn [absorbed]; rewrite Em; exact H2|]. split; [exact H3|]. rewrite <- app_assoc in H4. exact H4.
Qed.

Lemma reach_reads_back_iff : forall m, reach m -> m <> [] ->
  (reads_back m <-> decode_atom m = Some (mkTok TSymbol m)).
Proof.
  intros m [s1 [E1 V1]] Hm. unfold reads_back, lex_text. rewrite lex_all_app, E1. cbn [lex_all].
  pose proof (blank_after s1 m _ V1 Hm) as B.
  destruct (decode_atom m) as [tok|] eqn:E.
  - destruct B as [s' [E2 T2]]. rewrite E2. cbn [lex_all lres_state lres_ok]. rewrite T2. split.
    + intro H. injection H as H. rewrite H. reflexivity.
    + intro H. injection H as H. rewrite H. reflexivity.
  - destruct B as [s' E2]. rewrite E2. cbn [lex_all lres_state lres_ok]. split.
    + intro H. injection H as _ H. discriminate H.
    + intro H. discriminate H.
Qed.

Lemma absorbed_reach : forall c rest, plain c -> absorbed [c] rest = true -> reach ([c] ++ rest).
Proof.
  intros c rest Hc A. destruct (plain_reach [c]) as [s0 [E0 V0]]; [repeat constructor; exact Hc|].
  destruct (absorbed_run rest [c] s0 _ V0 eq_refl A) as [s1 [E1 V1]].
  exists s1. split; [rewrite lex_all_app, E0; exact E1|exact V1].
Qed.

Theorem plain_first_reads_back_iff : forall c rest, plain c ->
  (reads_back (c :: rest) <->
   absorbed [c] rest = true /\ decode_atom (c :: rest) = Some (mkTok TSymbol (c :: rest))).
Proof.
  intros c rest Hc. destruct (absorbed [c] rest) eqn:A.
  - pose proof (reach_reads_back_iff ([c] ++ rest) (absorbed_reach c rest Hc A) ltac:(discriminate)) as I.
    cbn [app] in I. rewrite I. split; [intro H; split; [reflexivity|exact H]|intros [_ H]; exact H].
  - split; [|intros [H _]; discriminate H]. intro H. exfalso.
    destruct (not_absorbed_split rest [c] A) as [r1 [c' [r2 [H1 [H2 [H3 H4]]]]]]. subst rest.
    exact (special_after_reach_not_readable ([c] ++ r1) c' r2 (absorbed_reach c r1 Hc H2) ltac:(discriminate) H3 H4 H).
Qed.
