(* C12: which symbol NAMES have a printed syntax (token level).
   SexpSymbol.SexpString prints the bare name; [reads_back n] = a fresh lexer (lexer.go) turns the name followed by a
   blank into exactly one TokenSymbol carrying the same name, without error.
   A: exact characterisation on the names without special runes (both directions, all rune lists).
   B: the biconditional "reads back <-> sym_ok" is FALSE of the model (operators, sign-absorbing atoms read back).
   C: converse on names with a special rune behind a plain prefix: they never read back. *)
From Coq Require Import ZArith List Bool Lia.
From ZV Require Import Model.Regex Generated.LexTables Model.Lexer Model.Reader Model.Printer
  Proofs.LexerProofs Proofs.PrinterLex Proofs.PrinterProofs.
Import ListNotations.
Open Scope Z_scope.

Definition reads_back (n : list Z) : Prop := lex_text (n ++ [32]) = ([mkTok TSymbol n], true).

Lemma init_view : view init_lstate LNormal [] [] 0.
Proof. destruct init_ring_ok as [A B]. split; try reflexivity; assumption. Qed.

(* the blank behind a pending atom: dumpBuffer decides *)
Lemma blank_after : forall s b p, view s LNormal b [] p -> b <> [] ->
  match decode_atom b with
  | Some tok => exists s', lex_rune s 32 = LOk s' /\ l_tokens s' = [tok]
  | None => exists s', lex_rune s 32 = LErr s'
  end.
Proof.
  intros s b p V Hb. destruct (decode_atom b) as [tok|] eqn:E.
  - destruct (step_delim s b [] p 32 tok (or_introl eq_refl) Hb E V) as [s' [E1 V1]].
    exists s'. split; [exact E1|]. exact (v_toks _ _ _ _ _ V1).
  - rewrite lex_rune_normal by apply V.
    apply (push_view _ _ _ _ _ 32) in V. set (s1 := ring_push 32 s) in *. clearbody s1.
    rewrite lex_normal_delim by (left; reflexivity). change (32 =? 10) with false. cbv iota.
    unfold with_dump, dump_buffer. rewrite (p_buf _ _ _ _ _ _ V). destruct b; [congruence|]. rewrite E.
    eexists; reflexivity.
Qed.

(* ======== A ======== *)

Theorem plain_reads_back_iff : forall n, Forall plain n ->
  (reads_back n <-> n <> [] /\ decode_atom n = Some (mkTok TSymbol n)).
Proof.
  intros n F. destruct n as [|c n'].
  - split; [intro H; vm_compute in H; discriminate H|intros [H _]; congruence].
  - set (m := c :: n') in *. assert (m <> []) as Hm by discriminate. clearbody m.
    unfold reads_back, lex_text.
    destruct (run_plain m init_lstate [] [] 0 F init_view) as [s1 [E1 V1]]. cbn [app] in V1.
    rewrite lex_all_app, E1. cbn [lex_all].
    pose proof (blank_after s1 m _ V1 Hm) as B.
    destruct (decode_atom m) as [tok|] eqn:E.
    + destruct B as [s' [E2 T2]]. rewrite E2. cbn [lex_all lres_state lres_ok]. rewrite T2. split.
      * intro H. split; [exact Hm|]. injection H as H. rewrite H. reflexivity.
      * intros [_ H]. injection H as H. rewrite H. reflexivity.
    + destruct B as [s' E2]. rewrite E2. cbn [lex_all lres_state lres_ok]. split.
      * intro H. injection H as _ H. discriminate H.
      * intros [_ H]. discriminate H.
Qed.

(* sym_ok = no special rune, reads back, and is not the word nil (which the PARSER turns into the nil value) *)
Theorem sym_ok_iff : forall n, sym_ok n <-> Forall plain n /\ reads_back n /\ n <> str_nil.
Proof.
  intros n. unfold sym_ok. split.
  - intros [H1 [H2 [H3 H4]]]. split; [exact H2|]. split; [|exact H4]. apply plain_reads_back_iff; auto.
  - intros [H2 [H H4]]. apply plain_reads_back_iff in H; [|exact H2]. destruct H as [H1 H3]. auto.
Qed.

(* ======== B ======== *)

(* + , <= , -5x , .5e+x , -5e+1e+x : operators, and atoms that absorb a sign, read back although not sym_ok *)
Definition odd_names : list (list Z) :=
  [[43]; [60; 61]; [45; 53; 120]; [46; 53; 101; 43; 120]; [45; 53; 101; 43; 49; 101; 43; 120]].

Lemma odd_names_read_back : Forall reads_back odd_names.
Proof. repeat constructor; vm_compute; reflexivity. Qed.

Lemma has_special_not_plain : forall n, existsb (fun c => mem_z c special_runes) n = true -> ~ Forall plain n.
Proof.
  intros n H F. apply existsb_exists in H. destruct H as [x [Hin Hx]].
  rewrite Forall_forall in F. specialize (F x Hin). unfold plain in F. congruence.
Qed.

Lemma odd_names_not_plain : Forall (fun n => ~ Forall plain n) odd_names.
Proof. repeat constructor; apply has_special_not_plain; vm_compute; reflexivity. Qed.

Theorem symbol_readable_iff_sym_ok_refuted : exists n, reads_back n /\ ~ sym_ok n.
Proof.
  exists [43]. split; [vm_compute; reflexivity|].
  intros [_ [F _]]. inversion F as [|x l Hp Hr]. vm_compute in Hp. discriminate Hp.
Qed.

(* ======== C ======== *)

Lemma first_token_kept : forall text s tok X, l_tokens s = tok :: X ->
  exists Y, l_tokens (lres_state (lex_all s text)) = tok :: Y.
Proof.
  intros text s tok X H. rewrite lex_all_emptied, H.
  destruct (lex_all (set_tokens [] s) text) as [s'|s']; cbn [lres_map lres_state];
    ds s'; unfold pre_q, set_tokens; cbn [l_tokens app]; eexists; reflexivity.
Qed.

Lemma rl_len : forall l : list Z, (length (removelast l) <= length l)%nat.
Proof. induction l as [|a l IH]; simpl; [lia|]. destruct l; simpl in *; lia. Qed.

(* DecodeAtom never makes a symbol token longer than the atom *)
Lemma decode_symbol_len : forall x y, decode_atom x = Some (mkTok TSymbol y) -> (length y <= length x)%nat.
Proof.
  intros x y. unfold decode_atom. cbv zeta.
  set (ec := last_rune x =? 58). set (atom := if ec then removelast x else x).
  assert (length atom <= length x)%nat as L by (unfold atom; destruct ec; [apply rl_len|lia]).
  clearbody atom.
  destruct (list_eqb atom [38]) eqn:E38.
  { intro H. injection H as H. subst y. apply list_eqb_eq in E38. rewrite E38 in L. exact L. }
  destruct (list_eqb atom [92]); [intro H; discriminate H|].
  do 7 (match goal with |- (if ?c then _ else _) = _ -> _ => destruct c; [intro H; discriminate H|] end).
  destruct (list_eqb atom [78; 97; 78] || list_eqb atom [110; 97; 110]); [intro H; discriminate H|].
  do 2 (match goal with |- (if ?c then _ else _) = _ -> _ => destruct c; [intro H; discriminate H|] end).
  destruct (re_match re_BuiltinOpRegex atom); [intro H; injection H as H; subst y; exact L|].
  destruct (list_eqb atom [58]); [intro H; injection H as H; subst y; exact L|].
  destruct (re_match re_SymbolRegex atom).
  { destruct ec; intro H; [discriminate H|]. injection H as H; subst y; exact L. }
  destruct (re_match re_CharRegex atom); [destruct (decode_char atom); intro H; discriminate H|].
  destruct ec; intro H; discriminate H.
Qed.

(* the special runes that end a pending atom at once (or are an error behind one): everything special except
   the signs + - (absorbed behind e / E of a number prefix) and / : (decided by the next rune) *)
Definition hard_runes : list Z :=
  [42; 60; 62; 61; 33; 38; 124; 96; 34; 39; 59; 44; 37; 94; 126; 40; 41; 91; 93; 123; 125; 10; 32; 9; 13].

Ltac hard_case x a :=
  unfold lex_normal, with_dump, dump_buffer;
  cbn [Z.eqb Pos.eqb orb andb l_buffer l_tokens l_state l_prevtok l_linenum set_state set_buffer set_tokens set_prevtok
       set_prevprevtok set_linenum set_prevrune set_prebuiltin append_token decode_brace app];
  first [exact I |
  destruct (decode_atom (x :: a)) as [tok|]; [|exact I];
  exists tok; eexists; split; [reflexivity|];
  cbn [Z.eqb Pos.eqb orb andb l_buffer l_tokens l_state l_prevtok l_linenum set_state set_buffer set_tokens set_prevtok
       set_prevprevtok set_linenum set_prevrune set_prebuiltin append_token decode_brace app];
  reflexivity].

Lemma hard_step : forall c, In c hard_runes -> forall s a p, view s LNormal a [] p -> a <> [] ->
  match lex_rune s c with
  | LErr _ => True
  | LOk s1 => exists tok X, decode_atom a = Some tok /\ l_tokens s1 = tok :: X
  end.
Proof.
  intros c Hin s a p V Ha. rewrite lex_rune_normal by apply V.
  apply (push_view _ _ _ _ _ c) in V. set (s1 := ring_push c s) in *. clearbody s1.
  destruct V as [V1 V2 V3 _ _ _]. destruct a as [|x a]; [congruence|]. clear Ha.
  destruct s1 as [st pr toks bf pt ppt pb ln pi rg].
  cbn [l_state l_buffer l_tokens] in V1, V2, V3. subst st bf toks.
  unfold hard_runes in Hin. cbn [In] in Hin.
  repeat (destruct Hin as [Hin|Hin]; [subst c; hard_case x a|]).
  contradiction.
Qed.

(* a sign behind a pending atom that is NOT absorbed (the rune before is not e / E, or the atom so far is not
   the beginning of a number in scientific notation): the atom is dumped, the sign starts an operator *)
Lemma sign_step : forall c, c = 43 \/ c = 45 -> forall s a p, view s LNormal a [] p -> a <> [] ->
  ((p =? 101) || (p =? 69)) && sci_prefix_ok a = false ->
  match lex_rune s c with
  | LErr _ => True
  | LOk s1 => exists tok X, decode_atom a = Some tok /\ l_tokens s1 = tok :: X
  end.
Proof.
  intros c Hc s a p V Ha Hns. rewrite lex_rune_normal by apply V.
  apply (push_view _ _ _ _ _ c) in V. set (s1 := ring_push c s) in *. clearbody s1.
  destruct V as [V1 V2 V3 _ _ V6]. destruct a as [|x a]; [congruence|]. clear Ha.
  unfold lex_normal. cbv zeta.
  replace ((c =? 43) || (c =? 45)) with true by (destruct Hc; subst c; reflexivity).
  rewrite V6, V2, Hns. cbv iota.
  unfold with_dump, dump_buffer. rewrite V2.
  destruct (decode_atom (x :: a)) as [tok|]; [|exact I].
  exists tok; eexists; split; [reflexivity|].
  ds s1. cbn [l_tokens] in V3. subst tk. reflexivity.
Qed.

Lemma split_general : forall a c rest, Forall plain a -> a <> [] ->
  (forall s, view s LNormal a [] (last a 0) ->
     match lex_rune s c with
     | LErr _ => True
     | LOk s1 => exists tok X, decode_atom a = Some tok /\ l_tokens s1 = tok :: X
     end) ->
  ~ reads_back (a ++ c :: rest).
Proof.
  intros a c rest F Ha St H. unfold reads_back, lex_text in H.
  rewrite <- app_assoc in H. cbn [app] in H.
  destruct (run_plain a init_lstate [] [] 0 F init_view) as [s1 [E1 V1]]. cbn [app] in V1.
  rewrite lex_all_app, E1 in H. cbn [lex_all] in H.
  pose proof (St s1 V1) as S.
  destruct (lex_rune s1 c) as [s2|s2].
  - destruct S as [tok [X [Hd Ht]]].
    destruct (first_token_kept (rest ++ [32]) s2 tok X Ht) as [Y HY].
    injection H as H1 H2. rewrite HY in H1. injection H1 as H3 H4. subst tok.
    apply decode_symbol_len in Hd. rewrite app_length in Hd. cbn [length] in Hd. lia.
  - cbn [lres_state lres_ok] in H. injection H as _ H. discriminate H.
Qed.

Theorem split_name_not_readable : forall a c rest, Forall plain a -> a <> [] -> In c hard_runes ->
  ~ reads_back (a ++ c :: rest).
Proof.
  intros a c rest F Ha Hc. apply split_general; [exact F|exact Ha|].
  intros s V. exact (hard_step c Hc s a _ V Ha).
Qed.

Theorem sign_split_not_readable : forall a c rest, Forall plain a -> a <> [] -> c = 43 \/ c = 45 ->
  ((last a 0 =? 101) || (last a 0 =? 69)) && sci_prefix_ok a = false ->
  ~ reads_back (a ++ c :: rest).
Proof.
  intros a c rest F Ha Hc Hns. apply split_general; [exact F|exact Ha|].
  intros s V. exact (sign_step c Hc s a _ V Ha Hns).
Qed.
