(* Proofs about Model/Symtab.v (C19). *)
From Coq Require Import ZArith Bool List Lia Decimal DecimalZ FinFun.
From ZV Require Import Model.Symtab.
Import ListNotations.
Open Scope Z_scope.

(* ---------- names ---------- *)
Lemma name_eqb_eq : forall a b, name_eqb a b = true <-> a = b.
Proof.
  induction a as [|x a IH]; destruct b as [|y b]; simpl; split; intro H; try discriminate; auto.
  - apply andb_true_iff in H. destruct H as [H1 H2]. apply Z.eqb_eq in H1. apply IH in H2. congruence.
  - injection H as -> ->. rewrite Z.eqb_refl. simpl. apply IH. reflexivity.
Qed.
Lemma name_eqb_refl : forall a, name_eqb a a = true.
Proof. intro a. apply name_eqb_eq. reflexivity. Qed.
Lemma name_eqb_neq : forall a b, name_eqb a b = false <-> a <> b.
Proof.
  intros a b. split; intro H.
  - intro E. apply name_eqb_eq in E. congruence.
  - destruct (name_eqb a b) eqn:E; auto. apply name_eqb_eq in E. contradiction.
Qed.

(* ---------- decimal rendering is injective ---------- *)
Lemma digits_inj : forall a b, digits a = digits b -> a = b.
Proof.
  induction a; destruct b; simpl; intro H; try discriminate; try reflexivity;
    injection H as H; f_equal; auto.
Qed.
Lemma digits_not_minus : forall d t, digits d <> 45 :: t.
Proof. destruct d; simpl; intros t H; discriminate. Qed.
Lemma itoa_inj : forall a b, itoa a = itoa b -> a = b.
Proof.
  intros a b H. unfold itoa in H.
  assert (E : Z.to_int a = Z.to_int b).
  { destruct (Z.to_int a) as [d|d], (Z.to_int b) as [e|e].
    - apply digits_inj in H. congruence.
    - exfalso. eapply digits_not_minus. exact H.
    - exfalso. eapply digits_not_minus. symmetry. exact H.
    - injection H as H. apply digits_inj in H. congruence. }
  rewrite <- (DecimalZ.of_to a), <- (DecimalZ.of_to b). rewrite E. reflexivity.
Qed.

(* ---------- lookups ---------- *)
Lemma lookup_name_in_keys : forall nm t k, lookup_name nm t = Some k -> In nm (map fst t).
Proof.
  induction t as [|[n j] t IH]; simpl; intros k H; [discriminate|].
  destruct (name_eqb nm n) eqn:E.
  - apply name_eqb_eq in E. auto.
  - right. eapply IH. exact H.
Qed.
Lemma lookup_name_in : forall nm t k, lookup_name nm t = Some k -> In (nm, k) t.
Proof.
  induction t as [|[n j] t IH]; simpl; intros k H; [discriminate|].
  destruct (name_eqb nm n) eqn:E.
  - apply name_eqb_eq in E. injection H as ->. subst. auto.
  - right. apply IH. exact H.
Qed.
Lemma lookup_name_none_notin : forall nm t, lookup_name nm t = None -> ~ In nm (map fst t).
Proof.
  induction t as [|[n j] t IH]; simpl; intros H; [tauto|].
  destruct (name_eqb nm n) eqn:E; [discriminate|].
  apply name_eqb_neq in E. intros [H1|H1]; [congruence|]. apply IH; assumption.
Qed.
Lemma in_nodup_lookup_name : forall t nm k, NoDup (map fst t) -> In (nm, k) t -> lookup_name nm t = Some k.
Proof.
  induction t as [|[n j] t IH]; simpl; intros nm k ND H; [tauto|].
  inversion ND as [|? ? Hn ND']; subst.
  destruct H as [H|H].
  - injection H as -> ->. rewrite name_eqb_refl. reflexivity.
  - destruct (name_eqb nm n) eqn:E.
    + apply name_eqb_eq in E. subst. exfalso. apply Hn. apply (in_map fst) in H. exact H.
    + apply IH; assumption.
Qed.
Lemma lookup_num_in_keys : forall k t nm, lookup_num k t = Some nm -> In k (map fst t).
Proof.
  induction t as [|[j n] t IH]; simpl; intros nm H; [discriminate|].
  destruct (k =? j) eqn:E.
  - apply Z.eqb_eq in E. auto.
  - right. eapply IH. exact H.
Qed.
Lemma lookup_num_none_notin : forall k t, lookup_num k t = None -> ~ In k (map fst t).
Proof.
  induction t as [|[j n] t IH]; simpl; intros H; [tauto|].
  destruct (k =? j) eqn:E; [discriminate|].
  apply Z.eqb_neq in E. intros [H1|H1]; [congruence|]. apply IH; assumption.
Qed.

(* ---------- the search loops: what they return, and that the fuel suffices ---------- *)
Lemma skip_used_some : forall f rev c k, skip_used f rev c = Some k ->
  lookup_num k rev = None /\ c <= k.
Proof.
  induction f as [|f IH]; simpl; intros rev c k H; [discriminate|].
  destruct (lookup_num c rev) eqn:E.
  - apply IH in H. destruct H. split; [assumption|lia].
  - injection H as <-. split; [assumption|lia].
Qed.
Lemma skip_used_none : forall f rev c, skip_used f rev c = None ->
  forall j, (j < f)%nat -> In (c + Z.of_nat j) (map fst rev).
Proof.
  induction f as [|f IH]; simpl; intros rev c H j Hj; [lia|].
  destruct (lookup_num c rev) eqn:E; [|discriminate].
  destruct j as [|j].
  - replace (c + Z.of_nat 0) with c by lia. eapply lookup_num_in_keys. exact E.
  - replace (c + Z.of_nat (S j)) with ((c + 1) + Z.of_nat j) by lia. apply IH; [assumption|lia].
Qed.
Lemma pigeon : forall (A : Type) (g : nat -> A) (l : list A),
  (forall i j, g i = g j -> i = j) ->
  (forall j, (j < S (length l))%nat -> In (g j) l) -> False.
Proof.
  intros A g l Hinj Hin.
  assert (ND : NoDup (map g (seq 0 (S (length l))))).
  { apply Injective_map_NoDup; [intros i j; apply Hinj | apply seq_NoDup]. }
  assert (INC : incl (map g (seq 0 (S (length l)))) l).
  { intros x Hx. apply in_map_iff in Hx. destruct Hx as [j [<- Hj]]. apply in_seq in Hj. apply Hin. lia. }
  pose proof (NoDup_incl_length ND INC) as L. rewrite map_length, seq_length in L. lia.
Qed.
Lemma skip_used_enough : forall rev c, skip_used (S (length rev)) rev c <> None.
Proof.
  intros rev c H.
  apply (pigeon Z (fun j => c + Z.of_nat j) (map fst rev)).
  - intros i j E. lia.
  - intros j Hj. rewrite map_length in Hj. eapply skip_used_none; eassumption.
Qed.

Lemma is_prefix_app : forall p s, is_prefix p (p ++ s) = true.
Proof. induction p; simpl; intro s; [reflexivity|]. rewrite Z.eqb_refl. simpl. apply IHp. Qed.

Lemma gen_search_some : forall f tab p n nm, gen_search f tab p n = Some nm ->
  lookup_name nm tab = None /\ exists m, n <= m /\ nm = p ++ itoa m.
Proof.
  induction f as [|f IH]; simpl; intros tab p n nm H; [discriminate|].
  destruct (lookup_name (p ++ itoa n) tab) eqn:E.
  - apply IH in H. destruct H as [H1 [m [H2 H3]]]. split; [assumption|]. exists m. split; [lia|assumption].
  - injection H as <-. split; [assumption|]. exists n. split; [lia|reflexivity].
Qed.
Lemma gen_search_none : forall f tab p n, gen_search f tab p n = None ->
  forall j, (j < f)%nat -> In (p ++ itoa (n + Z.of_nat j)) (map fst tab).
Proof.
  induction f as [|f IH]; simpl; intros tab p n H j Hj; [lia|].
  destruct (lookup_name (p ++ itoa n) tab) eqn:E; [|discriminate].
  destruct j as [|j].
  - replace (n + Z.of_nat 0) with n by lia. eapply lookup_name_in_keys. exact E.
  - replace (n + Z.of_nat (S j)) with ((n + 1) + Z.of_nat j) by lia. apply IH; [assumption|lia].
Qed.
Lemma gen_search_enough : forall tab p n, gen_search (S (length tab)) tab p n <> None.
Proof.
  intros tab p n H.
  apply (pigeon name (fun j => p ++ itoa (n + Z.of_nat j)) (map fst tab)).
  - intros i j E. apply app_inv_head in E. apply itoa_inj in E. lia.
  - intros j Hj. rewrite map_length in Hj. eapply gen_search_none; eassumption.
Qed.

(* ---------- the invariant: the two tables are inverse partial bijections ---------- *)
Definition tables_inverse (st : state) : Prop :=
  forall nm k, lookup_name nm (symtable st) = Some k <-> lookup_num k (revsymtable st) = Some nm.

(* what one call of MakeSymbol can do *)
Inductive mk_result (st : state) (i : nat) (nm : name) (st' : state) (r : out) : Prop :=
| MkBad : nth_error (nexts st) i = None -> st' = st -> r = OBadMember -> mk_result st i nm st' r
| MkOld k : lookup_name nm (symtable st) = Some k -> st' = st -> r = OSym nm k -> mk_result st i nm st' r
| MkNew c k : nth_error (nexts st) i = Some c -> lookup_name nm (symtable st) = None ->
    lookup_num k (revsymtable st) = None -> c <= k ->
    st' = mkState ((nm, k) :: symtable st) ((k, nm) :: revsymtable st) (set_nth i (k + 1) (nexts st)) ->
    r = OSym nm k -> mk_result st i nm st' r.

Lemma make_symbol_cases : forall st i nm st' r, make_symbol st i nm = (st', r) -> mk_result st i nm st' r.
Proof.
  intros st i nm st' r H. unfold make_symbol in H.
  destruct (nth_error (nexts st) i) as [c|] eqn:Ec.
  - destruct (lookup_name nm (symtable st)) as [k|] eqn:El.
    + injection H as <- <-. eapply MkOld; eauto.
    + destruct (skip_used (S (length (revsymtable st))) (revsymtable st) c) as [k|] eqn:Es.
      * injection H as <- <-. apply skip_used_some in Es. destruct Es. eapply MkNew; eauto.
      * exfalso. eapply skip_used_enough. exact Es.
  - injection H as <- <-. apply MkBad; auto.
Qed.

Lemma inverse_cons : forall st nm k nx,
  tables_inverse st -> lookup_name nm (symtable st) = None -> lookup_num k (revsymtable st) = None ->
  tables_inverse (mkState ((nm, k) :: symtable st) ((k, nm) :: revsymtable st) nx).
Proof.
  intros st nm k nx INV Hn Hk nm' k'. simpl.
  destruct (name_eqb nm' nm) eqn:E1; destruct (k' =? k) eqn:E2.
  - apply name_eqb_eq in E1. apply Z.eqb_eq in E2. subst. tauto.
  - apply name_eqb_eq in E1. apply Z.eqb_neq in E2. subst. split; intro H.
    + congruence.
    + apply INV in H. congruence.
  - apply name_eqb_neq in E1. apply Z.eqb_eq in E2. subst. split; intro H.
    + apply INV in H. congruence.
    + congruence.
  - apply INV.
Qed.

Definition extends (st st' : state) : Prop :=
  forall nm k, lookup_name nm (symtable st) = Some k -> lookup_name nm (symtable st') = Some k.

Lemma extends_refl : forall st, extends st st.
Proof. intros st nm k H. exact H. Qed.
Lemma extends_trans : forall a b c, extends a b -> extends b c -> extends a c.
Proof. intros a b c H1 H2 nm k H. apply H2, H1, H. Qed.

Lemma mk_result_inverse : forall st i nm st' r, mk_result st i nm st' r -> tables_inverse st -> tables_inverse st'.
Proof.
  intros st i nm st' r H INV. destruct H; subst; auto. apply inverse_cons; assumption.
Qed.
Lemma mk_result_extends : forall st i nm st' r, mk_result st i nm st' r -> extends st st'.
Proof.
  intros st i nm st' r H. destruct H; subst; try apply extends_refl.
  intros nm' k' Hl. simpl. destruct (name_eqb nm' nm) eqn:E; [|assumption].
  apply name_eqb_eq in E. subst. congruence.
Qed.
Lemma mk_result_out_in_table : forall st i nm st' r n k, mk_result st i nm st' r -> r = OSym n k ->
  n = nm /\ lookup_name n (symtable st') = Some k.
Proof.
  intros st i nm st' r n k H E. destruct H; subst; try discriminate; injection E as <- <-; split; auto.
  simpl. rewrite name_eqb_refl. reflexivity.
Qed.

(* GenSymbol: the search finds a name that is not interned, then MakeSymbol takes its New branch *)
Lemma gen_symbol_cases : forall st i p st' r, gen_symbol st i p = (st', r) ->
  (nth_error (nexts st) i = None /\ st' = st /\ r = OBadMember) \/
  (exists nm m c, nth_error (nexts st) i = Some c /\ c <= m /\ nm = p ++ itoa m /\
     lookup_name nm (symtable st) = None /\ make_symbol st i nm = (st', r)).
Proof.
  intros st i p st' r H. unfold gen_symbol in H.
  destruct (nth_error (nexts st) i) as [c|] eqn:Ec.
  - destruct (gen_search (S (length (symtable st))) (symtable st) p c) as [nm|] eqn:Eg.
    + right. apply gen_search_some in Eg. destruct Eg as [Hn [m [Hm Hnm]]].
      exists nm, m, c. auto.
    + exfalso. eapply gen_search_enough. exact Eg.
  - left. injection H as <- <-. auto.
Qed.

Lemma duplicate_cases : forall st i st' r, duplicate st i = (st', r) ->
  (nth_error (nexts st) i = None /\ st' = st /\ r = OBadMember) \/
  (exists c, nth_error (nexts st) i = Some c /\ r = ONone /\
     st' = mkState (symtable st) (revsymtable st) (nexts st ++ [c])).
Proof.
  intros st i st' r H. unfold duplicate in H. destruct (nth_error (nexts st) i) as [c|] eqn:Ec.
  - right. injection H as <- <-. exists c. auto.
  - left. injection H as <- <-. auto.
Qed.

(* ---------- one step ---------- *)
Lemma step_inverse : forall st o st' r, step st o = (st', r) -> tables_inverse st -> tables_inverse st'.
Proof.
  intros st o st' r H INV. destruct o as [i nm|i p|i|i]; simpl in H.
  - eapply mk_result_inverse; [apply make_symbol_cases; exact H|exact INV].
  - apply gen_symbol_cases in H. destruct H as [[_ [-> _]]|[nm [m [c [_ [_ [_ [_ H]]]]]]]]; [exact INV|].
    eapply mk_result_inverse; [apply make_symbol_cases; exact H|exact INV].
  - apply duplicate_cases in H. destruct H as [[_ [-> _]]|[c [_ [_ ->]]]]; exact INV.
  - apply duplicate_cases in H. destruct H as [[_ [-> _]]|[c [_ [_ ->]]]]; exact INV.
Qed.
Lemma step_extends : forall st o st' r, step st o = (st', r) -> extends st st'.
Proof.
  intros st o st' r H. destruct o as [i nm|i p|i|i]; simpl in H.
  - eapply mk_result_extends. apply make_symbol_cases. exact H.
  - apply gen_symbol_cases in H. destruct H as [[_ [-> _]]|[nm [m [c [_ [_ [_ [_ H]]]]]]]]; [apply extends_refl|].
    eapply mk_result_extends. apply make_symbol_cases. exact H.
  - apply duplicate_cases in H. destruct H as [[_ [-> _]]|[c [_ [_ ->]]]]; intros nm k Hl; exact Hl.
  - apply duplicate_cases in H. destruct H as [[_ [-> _]]|[c [_ [_ ->]]]]; intros nm k Hl; exact Hl.
Qed.
Lemma step_out_in_table : forall st o st' r n k, step st o = (st', r) -> r = OSym n k ->
  lookup_name n (symtable st') = Some k.
Proof.
  intros st o st' r n k H E. destruct o as [i nm|i p|i|i]; simpl in H.
  - eapply mk_result_out_in_table; [apply make_symbol_cases; exact H|exact E].
  - apply gen_symbol_cases in H. destruct H as [[_ [_ ->]]|[nm [m [c [_ [_ [_ [_ H]]]]]]]]; [discriminate|].
    eapply mk_result_out_in_table; [apply make_symbol_cases; exact H|exact E].
  - apply duplicate_cases in H. destruct H as [[_ [_ ->]]|[c [_ [-> _]]]]; discriminate.
  - apply duplicate_cases in H. destruct H as [[_ [_ ->]]|[c [_ [-> _]]]]; discriminate.
Qed.
Lemma step_no_fuel : forall st o st' r, step st o = (st', r) -> r <> OFuel.
Proof.
  intros st o st' r H. destruct o as [i nm|i p|i|i]; simpl in H.
  - apply make_symbol_cases in H. destruct H; subst; discriminate.
  - apply gen_symbol_cases in H. destruct H as [[_ [_ ->]]|[nm [m [c [_ [_ [_ [_ H]]]]]]]]; [discriminate|].
    apply make_symbol_cases in H. destruct H; subst; discriminate.
  - apply duplicate_cases in H. destruct H as [[_ [_ ->]]|[c [_ [-> _]]]]; discriminate.
  - apply duplicate_cases in H. destruct H as [[_ [_ ->]]|[c [_ [-> _]]]]; discriminate.
Qed.

(* ---------- histories ---------- *)
Lemma run_cons : forall st o ops, run st (o :: ops) =
  (fst (run (fst (step st o)) ops), snd (step st o) :: snd (run (fst (step st o)) ops)).
Proof.
  intros st o ops. simpl. destruct (step st o) as [st1 r]. simpl. destruct (run st1 ops) as [st2 rs]. reflexivity.
Qed.

Lemma run_inverse : forall ops st, tables_inverse st -> tables_inverse (fst (run st ops)).
Proof.
  induction ops as [|o ops IH]; intros st INV; [exact INV|].
  rewrite run_cons. simpl. apply IH. destruct (step st o) as [st1 r] eqn:E. simpl. eapply step_inverse; eauto.
Qed.
Lemma run_extends : forall ops st, extends st (fst (run st ops)).
Proof.
  induction ops as [|o ops IH]; intros st; [apply extends_refl|].
  rewrite run_cons. simpl. destruct (step st o) as [st1 r] eqn:E. simpl.
  eapply extends_trans; [eapply step_extends; exact E|apply IH].
Qed.
Lemma run_outputs_in_table : forall ops st n k, In (OSym n k) (snd (run st ops)) ->
  lookup_name n (symtable (fst (run st ops))) = Some k.
Proof.
  induction ops as [|o ops IH]; intros st n k H; [destruct H|].
  rewrite run_cons in *. simpl in *. destruct (step st o) as [st1 r] eqn:E. simpl in *.
  destruct H as [H|H].
  - apply (run_extends ops st1). eapply step_out_in_table; eauto.
  - apply IH. exact H.
Qed.
Lemma run_no_fuel : forall ops st, ~ In OFuel (snd (run st ops)).
Proof.
  induction ops as [|o ops IH]; intros st H; [destruct H|].
  rewrite run_cons in H. simpl in H. destruct (step st o) as [st1 r] eqn:E. simpl in H.
  destruct H as [H|H]; [eapply step_no_fuel; eauto | eapply IH; eauto].
Qed.
Lemma run_app : forall a b st, run st (a ++ b) =
  (fst (run (fst (run st a)) b), snd (run st a) ++ snd (run (fst (run st a)) b)).
Proof.
  induction a as [|o a IH]; intros b st.
  - simpl. destruct (run st b). reflexivity.
  - rewrite <- app_comm_cons. rewrite !run_cons. simpl. rewrite IH. reflexivity.
Qed.
Lemma run_length : forall ops st, length (snd (run st ops)) = length ops.
Proof.
  induction ops as [|o ops IH]; intros st; [reflexivity|]. rewrite run_cons. simpl. rewrite IH. reflexivity.
Qed.

Lemma run_snoc : forall ops o st,
  snd (run st (ops ++ [o])) = snd (run st ops) ++ [snd (step (fst (run st ops)) o)].
Proof.
  intros ops o st. rewrite run_app. simpl. f_equal.
  destruct (step (fst (run st ops)) o) as [s r]. reflexivity.
Qed.

(* ---------- the property ---------- *)
Lemma inverse_injective : forall st a b k, tables_inverse st ->
  lookup_name a (symtable st) = Some k -> lookup_name b (symtable st) = Some k -> a = b.
Proof. intros st a b k INV Ha Hb. apply INV in Ha. apply INV in Hb. congruence. Qed.

Theorem table_equal_iff_same_name : forall st n1 k1 n2 k2, tables_inverse st ->
  lookup_name n1 (symtable st) = Some k1 -> lookup_name n2 (symtable st) = Some k2 ->
  (k1 = k2 <-> n1 = n2).
Proof.
  intros st n1 k1 n2 k2 INV H1 H2. split; intro E; subst.
  - eapply inverse_injective; eauto.
  - congruence.
Qed.

(* a symbol of a history: returned by some operation, or present in the table the history started from *)
Definition symbol_of (st : state) (ops : list op) (n : name) (k : Z) : Prop :=
  In (OSym n k) (snd (run st ops)) \/ lookup_name n (symtable st) = Some k.

Lemma symbol_of_in_final : forall st ops n k, symbol_of st ops n k ->
  lookup_name n (symtable (fst (run st ops))) = Some k.
Proof.
  intros st ops n k [H|H]; [apply run_outputs_in_table; exact H | apply (run_extends ops st); exact H].
Qed.

Theorem equal_iff_same_name : forall st ops n1 k1 n2 k2, tables_inverse st ->
  symbol_of st ops n1 k1 -> symbol_of st ops n2 k2 -> (k1 = k2 <-> n1 = n2).
Proof.
  intros st ops n1 k1 n2 k2 INV H1 H2.
  eapply table_equal_iff_same_name; [apply (run_inverse ops st INV)| |]; apply symbol_of_in_final; assumption.
Qed.

Lemma compare_symbol_zero : forall a b, compare_symbol a b = 0 <-> a = b.
Proof.
  intros a b. unfold compare_symbol. destruct (a - b >? 0) eqn:E1; [|destruct (a - b <? 0) eqn:E2]; lia.
Qed.

Theorem compare_zero_iff_same_name : forall st ops n1 k1 n2 k2, tables_inverse st ->
  symbol_of st ops n1 k1 -> symbol_of st ops n2 k2 ->
  (compare_symbol k1 k2 = 0 <-> n1 = n2) /\ (n1 = n2 -> hash_symbol k1 = hash_symbol k2).
Proof.
  intros st ops n1 k1 n2 k2 INV H1 H2. pose proof (equal_iff_same_name st ops n1 k1 n2 k2 INV H1 H2) as E.
  split; [rewrite compare_symbol_zero; exact E | unfold hash_symbol; apply E].
Qed.

(* sequences (arrays, lists) of symbols of a history compare equal exactly when their names agree position by position *)
Theorem compare_symbols_zero_iff_same_names : forall st ops (l1 l2 : list (name * Z)), tables_inverse st ->
  (forall n k, In (n, k) l1 -> symbol_of st ops n k) -> (forall n k, In (n, k) l2 -> symbol_of st ops n k) ->
  (compare_symbols (map snd l1) (map snd l2) = 0 <-> map fst l1 = map fst l2).
Proof.
  intros st ops l1. induction l1 as [|[n1 k1] l1 IH]; intros l2 INV H1 H2; destruct l2 as [|[n2 k2] l2]; simpl.
  - tauto.
  - split; intro H; [lia|discriminate].
  - split; intro H; [lia|discriminate].
  - assert (E : compare_symbol k1 k2 = 0 <-> n1 = n2).
    { apply (compare_zero_iff_same_name st ops n1 k1 n2 k2 INV); [apply H1|apply H2]; left; reflexivity. }
    assert (R : compare_symbols (map snd l1) (map snd l2) = 0 <-> map fst l1 = map fst l2).
    { apply IH; auto; intros n k Hin; [apply H1|apply H2]; right; exact Hin. }
    destruct (compare_symbol k1 k2 =? 0) eqn:C.
    + apply Z.eqb_eq in C. split; intro H.
      * f_equal; [apply E; exact C|apply R; exact H].
      * injection H as _ H. apply R. exact H.
    + apply Z.eqb_neq in C. split; intro H; [contradiction|].
      injection H as H _. exfalso. apply C. apply E. exact H.
Qed.

(* GenSymbol returns a symbol that was not in the tables before the call *)
Theorem gensym_fresh : forall st i p st' nm k, gen_symbol st i p = (st', OSym nm k) ->
  lookup_name nm (symtable st) = None /\ lookup_num k (revsymtable st) = None /\
  is_prefix p nm = true /\ lookup_name nm (symtable st') = Some k.
Proof.
  intros st i p st' nm k H. pose proof H as H0. apply gen_symbol_cases in H.
  destruct H as [[_ [_ E]]|[nm' [m [c [Hc [Hm [Hnm [Hl H]]]]]]]]; [discriminate|].
  apply make_symbol_cases in H. destruct H as [? ? E|k' Hl' ? E|c' k' ? ? Hk ? -> E]; try discriminate.
  - congruence.
  - injection E as <- <-. repeat split; auto.
    + rewrite Hnm. apply is_prefix_app.
    + simpl. rewrite name_eqb_refl. reflexivity.
Qed.

Theorem gensym_differs_from_existing : forall st i p st' nm k, tables_inverse st ->
  gen_symbol st i p = (st', OSym nm k) ->
  forall n' k', lookup_name n' (symtable st) = Some k' -> n' <> nm /\ k' <> k.
Proof.
  intros st i p st' nm k INV H n' k' Hl. apply gensym_fresh in H. destruct H as [Hn [Hk _]].
  split; intro E; subst.
  - congruence.
  - apply INV in Hl. congruence.
Qed.

(* in any history: the symbol a GenSymbol returns differs, in name and in number, from every symbol
   returned earlier by any member and from every symbol of the initial table *)
Theorem gensym_differs_from_earlier : forall st ops i p nm k, tables_inverse st ->
  snd (run st (ops ++ [GenSym i p])) = snd (run st ops) ++ [OSym nm k] ->
  forall n' k', symbol_of st ops n' k' -> n' <> nm /\ k' <> k.
Proof.
  intros st ops i p nm k INV H n' k' Hs.
  rewrite run_snoc in H. apply app_inv_head in H. simpl in H.
  destruct (gen_symbol (fst (run st ops)) i p) as [st2 r] eqn:E. simpl in H. injection H as ->.
  eapply gensym_differs_from_existing; [apply run_inverse; exact INV | exact E | apply symbol_of_in_final; exact Hs].
Qed.

(* two generated symbols of one history are different *)
Theorem two_gensyms_differ : forall st ops1 i p ops2 j q outs1 n1 k1 outs2 n2 k2, tables_inverse st ->
  snd (run st (ops1 ++ GenSym i p :: ops2 ++ [GenSym j q])) = outs1 ++ OSym n1 k1 :: outs2 ++ [OSym n2 k2] ->
  length outs1 = length ops1 -> n1 <> n2 /\ k1 <> k2.
Proof.
  intros st ops1 i p ops2 j q outs1 n1 k1 outs2 n2 k2 INV H L.
  replace (ops1 ++ GenSym i p :: ops2 ++ [GenSym j q]) with ((ops1 ++ GenSym i p :: ops2) ++ [GenSym j q]) in H
    by (rewrite <- app_assoc; reflexivity).
  replace (outs1 ++ OSym n1 k1 :: outs2 ++ [OSym n2 k2]) with ((outs1 ++ OSym n1 k1 :: outs2) ++ [OSym n2 k2]) in H
    by (rewrite <- app_assoc; reflexivity).
  set (ops := ops1 ++ GenSym i p :: ops2) in *.
  assert (E : snd (run st ops) = outs1 ++ OSym n1 k1 :: outs2).
  { rewrite run_snoc in H. apply app_inj_tail in H. apply H. }
  rewrite <- E in H.
  assert (S1 : symbol_of st ops n1 k1).
  { left. rewrite E. apply in_or_app. right. left. reflexivity. }
  destruct (gensym_differs_from_earlier st ops j q n2 k2 INV H n1 k1 S1) as [A B]. split; congruence.
Qed.

Theorem run_never_out_of_fuel : forall st ops, ~ In OFuel (snd (run st ops)).
Proof. intros st ops. apply run_no_fuel. Qed.

(* ---------- the model refines the injective-table specification ---------- *)
Definition wf_tables (st : state) : Prop := NoDup (map fst (symtable st)) /\ tables_inverse st.

Lemma num_known_true : forall k t, num_known k t = true -> exists n, In (n, k) t.
Proof.
  intros k t H. unfold num_known in H. apply existsb_exists in H. destruct H as [[n j] [Hin E]].
  simpl in E. apply Z.eqb_eq in E. subst. exists n. exact Hin.
Qed.
Lemma num_known_false : forall k t, num_known k t = false -> ~ In k (map snd t).
Proof.
  intros k t H Hin. apply in_map_iff in Hin. destruct Hin as [[n j] [E Hin]]. simpl in E. subst.
  assert (T : num_known k t = true).
  { unfold num_known. apply existsb_exists. exists (n, k). split; [exact Hin|]. simpl. apply Z.eqb_refl. }
  congruence.
Qed.

Lemma wf_num_unknown : forall st k, wf_tables st -> lookup_num k (revsymtable st) = None ->
  num_known k (symtable st) = false.
Proof.
  intros st k [ND INV] Hk. destruct (num_known k (symtable st)) eqn:E; [|reflexivity].
  apply num_known_true in E. destruct E as [n Hin].
  apply in_nodup_lookup_name in Hin; [|exact ND]. apply INV in Hin. congruence.
Qed.

Lemma mk_result_wf : forall st i nm st' r, mk_result st i nm st' r -> wf_tables st -> wf_tables st'.
Proof.
  intros st i nm st' r H [ND INV]. split; [|eapply mk_result_inverse; eauto].
  destruct H; subst; auto. simpl. constructor; [|exact ND]. apply lookup_name_none_notin. assumption.
Qed.

Lemma step_refines : forall st o st' r, wf_tables st -> step st o = (st', r) -> r <> OBadMember ->
  spec_step (symtable st) o r = VOk (symtable st') /\ wf_tables st'.
Proof.
  intros st o st' r WF H NB. destruct o as [i nm|i p|i|i]; simpl in H.
  - apply make_symbol_cases in H. split; [|eapply mk_result_wf; eauto].
    destruct H as [? ? E|k Hl -> E|c k ? Hl Hk ? -> E]; subst; simpl; try congruence.
    + rewrite name_eqb_refl, Hl, Z.eqb_refl. reflexivity.
    + rewrite name_eqb_refl, Hl. rewrite (wf_num_unknown st k WF Hk). reflexivity.
  - apply gen_symbol_cases in H. destruct H as [[_ [_ E]]|[nm [m [c [_ [_ [Hnm [Hl H]]]]]]]]; [congruence|].
    apply make_symbol_cases in H. split; [|eapply mk_result_wf; eauto].
    destruct H as [? ? E|k Hl' -> E|c' k ? _ Hk ? -> E]; subst r; simpl; try congruence.
    rewrite Hl. replace (is_prefix p nm) with true by (rewrite Hnm; symmetry; apply is_prefix_app).
    rewrite (wf_num_unknown st k WF Hk). reflexivity.
  - apply duplicate_cases in H. destruct H as [[_ [_ E]]|[c [_ [-> ->]]]]; [congruence|]. split; [reflexivity|exact WF].
  - apply duplicate_cases in H. destruct H as [[_ [_ E]]|[c [_ [-> ->]]]]; [congruence|]. split; [reflexivity|exact WF].
Qed.

Theorem model_refines_spec : forall ops st idx, wf_tables st -> ~ In OBadMember (snd (run st ops)) ->
  spec_check (symtable st) (combine ops (snd (run st ops))) idx = None.
Proof.
  induction ops as [|o ops IH]; intros st idx WF NB; [reflexivity|].
  rewrite run_cons in *. simpl in *. destruct (step st o) as [st1 r] eqn:E. simpl in *.
  destruct (step_refines st o st1 r WF E) as [S WF1]; [intro; apply NB; auto|].
  rewrite S. apply IH; [exact WF1|]. intro; apply NB; auto.
Qed.

Theorem model_accepted : forall ops st, wf_tables st -> ~ In OBadMember (snd (run st ops)) ->
  spec_accepts (symtable st) (combine ops (snd (run st ops))) = true.
Proof. intros ops st WF NB. unfold spec_accepts. rewrite model_refines_spec; auto. Qed.

(* ---------- what acceptance by the specification means (independent of the model) ---------- *)
Definition table_injective (t : symtab) : Prop := NoDup (map fst t) /\ NoDup (map snd t).

Lemma nodup_map_inj : forall (A B : Type) (f : A -> B) (l : list A) x y,
  NoDup (map f l) -> In x l -> In y l -> f x = f y -> x = y.
Proof.
  induction l as [|a l IH]; simpl; intros x y ND Hx Hy E; [tauto|].
  inversion ND as [|? ? Hn ND']; subst.
  destruct Hx as [Hx|Hx]; destruct Hy as [Hy|Hy]; subst; auto.
  - exfalso. apply Hn. rewrite E. apply in_map. exact Hy.
  - exfalso. apply Hn. rewrite <- E. apply in_map. exact Hx.
Qed.

Lemma injective_table_iff : forall t n1 k1 n2 k2, table_injective t ->
  In (n1, k1) t -> In (n2, k2) t -> (k1 = k2 <-> n1 = n2).
Proof.
  intros t n1 k1 n2 k2 [N1 N2] H1 H2. split; intro E.
  - assert (X : (n1, k1) = (n2, k2)) by (eapply (nodup_map_inj _ _ snd); eauto). congruence.
  - assert (X : (n1, k1) = (n2, k2)) by (eapply (nodup_map_inj _ _ fst); eauto). congruence.
Qed.

Fixpoint spec_known (known : symtab) (obs : list (op * out)) : option symtab :=
  match obs with
  | [] => Some known
  | (o, r) :: obs' => match spec_step known o r with VBad => None | VOk k' => spec_known k' obs' end
  end.

Lemma spec_check_known : forall obs known idx, spec_check known obs idx = None ->
  exists final, spec_known known obs = Some final.
Proof.
  induction obs as [|[o r] obs IH]; simpl; intros known idx H; [eauto|].
  destruct (spec_step known o r); [eapply IH; eauto|discriminate].
Qed.
Lemma spec_known_app : forall a b known, spec_known known (a ++ b) =
  match spec_known known a with None => None | Some m => spec_known m b end.
Proof.
  induction a as [|[o r] a IH]; simpl; intros b known; [reflexivity|].
  destruct (spec_step known o r); [apply IH|reflexivity].
Qed.

Lemma spec_step_ok : forall known o r known', table_injective known -> spec_step known o r = VOk known' ->
  table_injective known' /\ incl known known' /\ (forall n k, r = OSym n k -> In (n, k) known') /\
  (forall i p n k, o = GenSym i p -> r = OSym n k ->
     forall n' k', In (n', k') known -> n' <> n /\ k' <> k).
Proof.
  intros known o r known' [N1 N2] H.
  destruct o as [i nm|i p|i|i]; destruct r as [n k| | |]; simpl in H; try discriminate.
  - destruct (name_eqb n nm) eqn:En; [|discriminate]. apply name_eqb_eq in En. subst n.
    destruct (lookup_name nm known) as [k0|] eqn:El.
    + destruct (k =? k0) eqn:Ek; [|discriminate]. apply Z.eqb_eq in Ek. subst k0. injection H as <-.
      refine (conj _ (conj _ (conj _ _))).
      * split; assumption.
      * apply incl_refl.
      * intros n k1 E. injection E as <- <-. apply lookup_name_in. exact El.
      * intros i0 p0 n0 k1 E. discriminate.
    + destruct (num_known k known) eqn:Ek; [discriminate|]. injection H as <-.
      refine (conj _ (conj _ (conj _ _))).
      * split; simpl.
        -- constructor; [apply lookup_name_none_notin; exact El|exact N1].
        -- constructor; [apply num_known_false; exact Ek|exact N2].
      * apply incl_tl, incl_refl.
      * intros n k1 E. injection E as <- <-. left. reflexivity.
      * intros i0 p0 n0 k1 E. discriminate.
  - destruct (is_prefix p n) eqn:Ep; [|discriminate].
    destruct (lookup_name n known) as [k0|] eqn:El; [discriminate|].
    destruct (num_known k known) eqn:Ek; [discriminate|]. injection H as <-.
    refine (conj _ (conj _ (conj _ _))).
    + split; simpl.
      * constructor; [apply lookup_name_none_notin; exact El|exact N1].
      * constructor; [apply num_known_false; exact Ek|exact N2].
    + apply incl_tl, incl_refl.
    + intros n0 k1 E. injection E as <- <-. left. reflexivity.
    + intros i0 p0 n0 k1 _ E n' k' Hin. injection E as <- <-. split; intro X; subst.
      * apply lookup_name_none_notin in El. apply El. apply (in_map fst) in Hin. exact Hin.
      * apply num_known_false in Ek. apply Ek. apply (in_map snd) in Hin. exact Hin.
  - injection H as <-. refine (conj _ (conj _ (conj _ _))).
    + split; assumption.
    + apply incl_refl.
    + intros n k E. discriminate.
    + intros i0 p0 n0 k1 E. discriminate.
  - injection H as <-. refine (conj _ (conj _ (conj _ _))).
    + split; assumption.
    + apply incl_refl.
    + intros n k E. discriminate.
    + intros i0 p0 n0 k1 E. discriminate.
Qed.

Lemma spec_known_sound : forall obs known final, table_injective known -> spec_known known obs = Some final ->
  table_injective final /\ incl known final /\ (forall o n k, In (o, OSym n k) obs -> In (n, k) final).
Proof.
  induction obs as [|[o r] obs IH]; simpl; intros known final TI H.
  - injection H as <-. refine (conj TI (conj (incl_refl _) _)). intros o n k X. destruct X.
  - destruct (spec_step known o r) as [k'|] eqn:E; [|discriminate].
    destruct (spec_step_ok known o r k' TI E) as [TI' [INC [OUT _]]].
    destruct (IH k' final TI' H) as [TIf [INCf OUTf]].
    refine (conj TIf (conj _ _)).
    + eapply incl_tran; eauto.
    + intros o0 n k [X|X]; [injection X as -> ->; apply INCf, OUT; reflexivity | eapply OUTf; eauto].
Qed.

(* answers accepted by the specification satisfy the property: equal number iff equal name,
   among all symbols answered and all symbols known before *)
Theorem spec_sound_equal_iff_same_name : forall known obs n1 k1 n2 k2, table_injective known ->
  spec_accepts known obs = true ->
  ((exists o, In (o, OSym n1 k1) obs) \/ In (n1, k1) known) ->
  ((exists o, In (o, OSym n2 k2) obs) \/ In (n2, k2) known) ->
  (k1 = k2 <-> n1 = n2).
Proof.
  intros known obs n1 k1 n2 k2 TI ACC H1 H2. unfold spec_accepts in ACC.
  destruct (spec_check known obs 0) eqn:E; [discriminate|].
  apply spec_check_known in E. destruct E as [final E].
  destruct (spec_known_sound obs known final TI E) as [TIf [INC OUT]].
  apply (injective_table_iff final); auto.
  - destruct H1 as [[o H1]|H1]; [eapply OUT; eauto|apply INC; exact H1].
  - destruct H2 as [[o H2]|H2]; [eapply OUT; eauto|apply INC; exact H2].
Qed.

(* an accepted answer to GenSymbol differs in name and number from everything answered before it
   and from everything known before the history *)
Theorem spec_sound_gensym_fresh : forall known obs1 i p n k obs2 n' k', table_injective known ->
  spec_accepts known (obs1 ++ (GenSym i p, OSym n k) :: obs2) = true ->
  ((exists o, In (o, OSym n' k') obs1) \/ In (n', k') known) -> n' <> n /\ k' <> k.
Proof.
  intros known obs1 i p n k obs2 n' k' TI ACC H. unfold spec_accepts in ACC.
  destruct (spec_check known (obs1 ++ (GenSym i p, OSym n k) :: obs2) 0) eqn:E; [discriminate|].
  apply spec_check_known in E. destruct E as [final E]. rewrite spec_known_app in E.
  destruct (spec_known known obs1) as [mid|] eqn:E1; [|discriminate].
  destruct (spec_known_sound obs1 known mid TI E1) as [TIm [INC OUT]].
  change (spec_known mid ((GenSym i p, OSym n k) :: obs2)) with
    (match spec_step mid (GenSym i p) (OSym n k) with VBad => None | VOk k' => spec_known k' obs2 end) in E.
  destruct (spec_step mid (GenSym i p) (OSym n k)) as [k2|] eqn:E2; [|discriminate].
  destruct (spec_step_ok mid (GenSym i p) (OSym n k) k2 TIm E2) as [_ [_ [_ FR]]].
  apply (FR i p n k eq_refl eq_refl).
  destruct H as [[o H]|H]; [eapply OUT; eauto|apply INC; exact H].
Qed.

(* ---------- the run-time check of the invariant is sound; initial states ---------- *)
Lemma lookup_num_in : forall k t nm, lookup_num k t = Some nm -> In (k, nm) t.
Proof.
  induction t as [|[j n] t IH]; simpl; intros nm H; [discriminate|].
  destruct (k =? j) eqn:E.
  - apply Z.eqb_eq in E. injection H as ->. subst. auto.
  - right. apply IH. exact H.
Qed.

Theorem inv_check_sound : forall st, inv_check st = true -> tables_inverse st.
Proof.
  intros st H. unfold inv_check in H. apply andb_true_iff in H. destruct H as [H1 H2].
  rewrite forallb_forall in H1, H2. intros nm k. split; intro L.
  - apply lookup_name_in in L. apply H1 in L. simpl in L.
    destruct (lookup_num k (revsymtable st)) as [n|]; [|discriminate]. apply name_eqb_eq in L. congruence.
  - apply lookup_num_in in L. apply H2 in L. simpl in L.
    destruct (lookup_name nm (symtable st)) as [j|]; [|discriminate]. apply Z.eqb_eq in L. congruence.
Qed.

(* a fresh interpreter family: empty tables, any counters *)
Lemma empty_wf : forall cs, wf_tables (mkState [] [] cs).
Proof. intros cs. split; [constructor|]. intros nm k. simpl. split; discriminate. Qed.

(* ---------- non-vacuity ---------- *)
Lemma ex_itoa : itoa 0 = [48] /\ itoa 12 = [49; 50] /\ itoa 1090 = [49; 48; 57; 48] /\ itoa (-5) = [45; 53].
Proof. vm_compute. repeat split; reflexivity. Qed.

Definition nm_a : name := [97].
Definition nm_g : name := [103].
(* a duplicate made before the root interned anything has the same counter as the root:
   both generate with prefix g; the names and the numbers differ *)
Lemma ex_family_gensym :
  snd (run (mkState [] [] [5]) [Dup 0; GenSym 0 nm_g; GenSym 1 nm_g; MkSym 1 nm_a; MkSym 0 nm_a]) =
  [ONone; OSym [103; 53] 5; OSym [103; 54] 6; OSym nm_a 7; OSym nm_a 7].
Proof. vm_compute. reflexivity. Qed.
(* a script interned g6 and g7 before the counter reached 6: GenSymbol skips both names *)
Lemma ex_preinterned_shape :
  snd (run (mkState [] [] [5]) [MkSym 0 [103; 54]; MkSym 0 [103; 55]; GenSym 0 nm_g; GenSym 0 nm_g]) =
  [OSym [103; 54] 5; OSym [103; 55] 6; OSym [103; 56] 7; OSym [103; 57] 8].
Proof. vm_compute. reflexivity. Qed.
(* a member whose counter lags behind skips the numbers the others have used *)
Lemma ex_lagging_counter :
  run (mkState [] [] [5]) [Clone 0; MkSym 0 nm_a; MkSym 0 nm_g; MkSym 1 [98]] =
  (mkState [([98], 7); (nm_g, 6); (nm_a, 5)] [(7, [98]); (6, nm_g); (5, nm_a)] [7; 8],
   [ONone; OSym nm_a 5; OSym nm_g 6; OSym [98] 7]).
Proof. vm_compute. reflexivity. Qed.
Lemma ex_spec_rejects_reuse :
  spec_accepts [] [(GenSym 0 nm_g, OSym [103; 53] 5); (GenSym 1 nm_g, OSym [103; 53] 5)] = false /\
  spec_accepts [] [(MkSym 0 nm_a, OSym nm_a 5); (MkSym 1 nm_g, OSym nm_g 5)] = false /\
  spec_accepts [] [(MkSym 0 nm_a, OSym nm_a 5); (MkSym 1 nm_a, OSym nm_a 6)] = false /\
  spec_accepts [] [(MkSym 0 nm_a, OSym nm_a 5); (Dup 0, ONone); (GenSym 1 nm_g, OSym [103; 54] 6)] = true.
Proof. vm_compute. repeat split; reflexivity. Qed.
