(* Proofs about the script-level layer of the C19 model (Model/SymtabScript.v). *)
From Coq Require Import ZArith Bool List Lia.
From ZV Require Import Model.Symtab Generated.GensymSites Model.SymtabScript Proofs.SymtabProofs.
Import ListNotations.
Open Scope Z_scope.

(* ---------- tie T ---------- *)
Lemma sites_modelled_ok : sites_modelled = true.
Proof. vm_compute. reflexivity. Qed.

(* ---------- member indices: no history of existing members reaches the bad-member outcome ---------- *)
Definition op_member (o : op) : nat :=
  match o with MkSym i _ => i | GenSym i _ => i | Dup i => i | Clone i => i end.
Definition op_grows (o : op) : nat :=
  match o with Dup _ => 1%nat | Clone _ => 1%nat | _ => 0%nat end.
Fixpoint ops_grow (ops : list op) : nat :=
  match ops with [] => 0%nat | o :: r => (op_grows o + ops_grow r)%nat end.
Fixpoint ops_valid (n : nat) (ops : list op) : bool :=
  match ops with
  | [] => true
  | o :: r => Nat.ltb (op_member o) n && ops_valid (op_grows o + n) r
  end.

Lemma set_nth_length : forall l i v, length (set_nth i v l) = length l.
Proof. induction l as [|x l IH]; intros [|i] v; simpl; auto. Qed.

Lemma nth_error_lt_some : forall (l : list Z) i, (i < length l)%nat -> nth_error l i <> None.
Proof. intros l i H. apply nth_error_Some. exact H. Qed.

Lemma make_symbol_member : forall st i nm st' r, make_symbol st i nm = (st', r) ->
  (i < length (nexts st))%nat -> r <> OBadMember /\ length (nexts st') = length (nexts st).
Proof.
  intros st i nm st' r H Hi. apply make_symbol_cases in H. destruct H as [Hn| |]; subst.
  - exfalso. eapply nth_error_lt_some; eauto.
  - split; [discriminate|reflexivity].
  - split; [discriminate|]. simpl. apply set_nth_length.
Qed.

Lemma step_member : forall st o st' r, step st o = (st', r) -> (op_member o < length (nexts st))%nat ->
  r <> OBadMember /\ length (nexts st') = (op_grows o + length (nexts st))%nat.
Proof.
  intros st o st' r H Hi. destruct o as [i nm|i p|i|i]; simpl in *.
  - eapply make_symbol_member; eauto.
  - apply gen_symbol_cases in H. destruct H as [[Hn _]|[nm [m [c [_ [_ [_ [_ H]]]]]]]].
    + exfalso. eapply nth_error_lt_some; eauto.
    + eapply make_symbol_member; eauto.
  - apply duplicate_cases in H. destruct H as [[Hn _]|[c [_ [-> ->]]]].
    + exfalso. eapply nth_error_lt_some; eauto.
    + split; [discriminate|]. simpl. rewrite app_length. simpl. lia.
  - apply duplicate_cases in H. destruct H as [[Hn _]|[c [_ [-> ->]]]].
    + exfalso. eapply nth_error_lt_some; eauto.
    + split; [discriminate|]. simpl. rewrite app_length. simpl. lia.
Qed.

Lemma run_valid : forall ops st, ops_valid (length (nexts st)) ops = true ->
  ~ In OBadMember (snd (run st ops)) /\
  length (nexts (fst (run st ops))) = (ops_grow ops + length (nexts st))%nat.
Proof.
  induction ops as [|o ops IH]; intros st H; simpl in H.
  - simpl. split; [intros []|reflexivity].
  - apply andb_true_iff in H. destruct H as [H1 H2]. apply Nat.ltb_lt in H1.
    rewrite run_cons. simpl. destruct (step st o) as [st1 r] eqn:E. simpl.
    destruct (step_member _ _ _ _ E H1) as [Hr Hl].
    rewrite <- Hl in H2. destruct (IH st1 H2) as [Hb Hn]. split.
    + intros [Hx|Hx]; [apply Hr; auto|apply Hb; exact Hx].
    + rewrite Hn, Hl. lia.
Qed.

Lemma ops_valid_app : forall a b n,
  ops_valid n (a ++ b) = ops_valid n a && ops_valid (ops_grow a + n) b.
Proof.
  induction a as [|o a IH]; intros b n; simpl; [reflexivity|].
  rewrite IH, andb_assoc.
  replace (ops_grow a + (op_grows o + n))%nat with (op_grows o + ops_grow a + n)%nat by lia. reflexivity.
Qed.
Lemma ops_grow_app : forall a b, ops_grow (a ++ b) = (ops_grow a + ops_grow b)%nat.
Proof. induction a as [|o a IH]; intros b; simpl; [reflexivity|]. rewrite IH. lia. Qed.

Lemma valid_map_mk : forall own n reads, (own < n)%nat ->
  ops_valid n (map (MkSym own) reads) = true /\ ops_grow (map (MkSym own) reads) = 0%nat.
Proof.
  intros own n reads H. induction reads as [|r reads [IH1 IH2]]; simpl; [auto|].
  split; [|exact IH2]. apply andb_true_iff. split; [apply Nat.ltb_lt; exact H|exact IH1].
Qed.
Lemma valid_map_gen : forall j n ps, (j < n)%nat ->
  ops_valid n (map (GenSym j) ps) = true /\ ops_grow (map (GenSym j) ps) = 0%nat.
Proof.
  intros j n ps H. induction ps as [|r ps [IH1 IH2]]; simpl; [auto|].
  split; [|exact IH2]. apply andb_true_iff. split; [apply Nat.ltb_lt; exact H|exact IH1].
Qed.

Lemma layout_owner_lt : forall lay i, layout_ok lay = true -> (i < length lay)%nat ->
  (nth i lay i < length lay)%nat.
Proof.
  intros lay i H Hi. unfold layout_ok in H. rewrite forallb_forall in H.
  apply Nat.ltb_lt. apply H. apply nth_In. exact Hi.
Qed.

Lemma layout_ok_snoc : forall lay o, layout_ok lay = true -> (o < length lay)%nat ->
  layout_ok (lay ++ [o]) = true.
Proof.
  intros lay o H Ho. unfold layout_ok in *. rewrite forallb_forall in *. intros x Hx.
  rewrite app_length. simpl. apply Nat.ltb_lt. apply in_app_or in Hx. destruct Hx as [Hx|[<-|[]]].
  - apply H in Hx. apply Nat.ltb_lt in Hx. lia.
  - lia.
Qed.

Lemma expand_valid : forall lay i k, layout_ok lay = true -> (i < length lay)%nat ->
  ops_valid (length lay) (fst (expand lay i k)) = true /\
  length (snd (expand lay i k)) = (ops_grow (fst (expand lay i k)) + length lay)%nat /\
  layout_ok (snd (expand lay i k)) = true.
Proof.
  intros lay i k OK Hi. pose proof (layout_owner_lt lay i OK Hi) as Ho.
  destruct k as [nm|reads s|reads s|nm v|nm|  |]; simpl.
  - repeat split; auto. rewrite andb_true_r. apply Nat.ltb_lt. exact Hi.
  - rewrite ops_valid_app, ops_grow_app.
    destruct (valid_map_mk _ _ reads Ho) as [A1 A2].
    destruct (valid_map_gen i (length lay) (site_prefixes s) Hi) as [B1 B2].
    rewrite A1, A2, B2. simpl. repeat split; auto.
  - rewrite ops_valid_app, ops_grow_app.
    destruct (valid_map_mk _ _ reads Ho) as [A1 A2]. rewrite A1, A2. simpl.
    assert (Hl : (length lay < 1 + length lay)%nat) by lia.
    destruct (valid_map_gen (length lay) (1 + length lay)%nat (site_prefixes s) Hl) as [B1 B2].
    simpl in B1. rewrite B1, B2. repeat split.
    + rewrite andb_true_r. apply Nat.ltb_lt. exact Hi.
    + rewrite app_length. simpl. lia.
    + apply layout_ok_snoc; assumption.
  - repeat split; auto. rewrite andb_true_r. apply Nat.ltb_lt. exact Ho.
  - repeat split; auto. rewrite andb_true_r. apply Nat.ltb_lt. exact Ho.
  - repeat split.
    + rewrite andb_true_r. apply Nat.ltb_lt. exact Hi.
    + rewrite app_length. simpl. lia.
    + apply layout_ok_snoc; assumption.
  - repeat split.
    + rewrite andb_true_r. apply Nat.ltb_lt. exact Hi.
    + rewrite app_length. simpl. lia.
    + apply layout_ok_snoc; assumption.
Qed.

Lemma script_ops_valid : forall ks lay, layout_ok lay = true -> members_valid lay ks = true ->
  ops_valid (length lay) (script_ops lay ks) = true.
Proof.
  induction ks as [|[i k] ks IH]; intros lay OK MV; simpl in *; [reflexivity|].
  apply andb_true_iff in MV. destruct MV as [Hi MV]. apply Nat.ltb_lt in Hi.
  destruct (expand_valid lay i k OK Hi) as [V [L OK']].
  destruct (expand lay i k) as [ops lay'] eqn:E. simpl in *.
  rewrite ops_valid_app, V. simpl. rewrite <- L. apply IH; assumption.
Qed.

Theorem script_no_bad_member : forall ks lay st, length lay = length (nexts st) ->
  layout_ok lay = true -> members_valid lay ks = true ->
  ~ In OBadMember (snd (script_run st lay ks)).
Proof.
  intros ks lay st HL OK MV. unfold script_run. apply run_valid. rewrite <- HL.
  apply script_ops_valid; assumption.
Qed.

(* ---------- the table theorems carried to script histories ---------- *)
Theorem script_tables_inverse_preserved : forall ks lay st,
  tables_inverse st -> tables_inverse (fst (script_run st lay ks)).
Proof. intros ks lay st. apply run_inverse. Qed.

Theorem script_never_out_of_fuel : forall ks lay st, ~ In OFuel (snd (script_run st lay ks)).
Proof. intros ks lay st. apply run_no_fuel. Qed.

Theorem script_equal_iff_same_name : forall st lay ks n1 k1 n2 k2, tables_inverse st ->
  symbol_of st (script_ops lay ks) n1 k1 -> symbol_of st (script_ops lay ks) n2 k2 -> (k1 = k2 <-> n1 = n2).
Proof. intros st lay ks. apply equal_iff_same_name. Qed.

Theorem script_refines_spec : forall ks lay st, wf_tables st -> length lay = length (nexts st) ->
  layout_ok lay = true -> members_valid lay ks = true ->
  spec_accepts (symtable st) (combine (script_ops lay ks) (snd (script_run st lay ks))) = true.
Proof.
  intros ks lay st WF HL OK MV. apply model_accepted; [exact WF|].
  apply script_no_bad_member; assumption.
Qed.

(* a generated symbol, wherever it is generated in a history, differs from everything before it *)
Lemma generated_fresh_at : forall st ops1 j p ops2 nm k, tables_inverse st ->
  nth_error (snd (run st (ops1 ++ GenSym j p :: ops2))) (length ops1) = Some (OSym nm k) ->
  forall n' k', symbol_of st ops1 n' k' -> n' <> nm /\ k' <> k.
Proof.
  intros st ops1 j p ops2 nm k INV H. eapply gensym_differs_from_earlier with (i := j) (p := p); [exact INV|].
  rewrite run_snoc. f_equal. f_equal.
  rewrite run_app in H. cbn [snd] in H.
  rewrite nth_error_app2 in H by (rewrite run_length; lia).
  rewrite run_length, Nat.sub_diag in H. rewrite run_cons in H. cbn [snd nth_error] in H. congruence.
Qed.

Theorem script_generated_fresh : forall st lay ks ops1 j p ops2 nm k, tables_inverse st ->
  script_ops lay ks = ops1 ++ GenSym j p :: ops2 ->
  nth_error (snd (script_run st lay ks)) (length ops1) = Some (OSym nm k) ->
  forall n' k', symbol_of st ops1 n' k' -> n' <> nm /\ k' <> k.
Proof.
  intros st lay ks ops1 j p ops2 nm k INV E H. unfold script_run in H. rewrite E in H.
  eapply generated_fresh_at; eauto.
Qed.

Lemma script_ops_app : forall a b lay,
  script_ops lay (a ++ b) = script_ops lay a ++ script_ops (script_layout lay a) b.
Proof.
  induction a as [|[i k] a IH]; intros b lay; simpl; [reflexivity|].
  destruct (expand lay i k) as [ops lay']. simpl. rewrite IH, app_assoc. reflexivity.
Qed.

(* the temporaries of ONE construct: the m-th symbol generated by the compilation of a form, by any
   member, after any script history, differs from every symbol that exists then (including the
   construct's own earlier temporaries) *)
Theorem construct_temporaries_fresh : forall st lay ks1 i reads s ks2 m nm k, tables_inverse st ->
  let lay1 := script_layout lay ks1 in
  let pre := script_ops lay ks1 ++ map (MkSym (nth i lay1 i)) reads
             ++ firstn m (map (GenSym i) (site_prefixes s)) in
  (m < length (site_prefixes s))%nat ->
  nth_error (snd (script_run st lay (ks1 ++ (i, KForm reads s) :: ks2))) (length pre) = Some (OSym nm k) ->
  forall n' k', symbol_of st pre n' k' -> n' <> nm /\ k' <> k.
Proof.
  intros st lay ks1 i reads s ks2 m nm k INV lay1 pre Hm H.
  unfold script_run in H. rewrite script_ops_app in H. simpl in H. fold lay1 in H.
  destruct (nth_error (site_prefixes s) m) as [p|] eqn:Ep; [|apply nth_error_None in Ep; lia].
  assert (Hs : map (GenSym i) (site_prefixes s) =
               firstn m (map (GenSym i) (site_prefixes s)) ++ GenSym i p :: skipn (S m) (map (GenSym i) (site_prefixes s))).
  { rewrite <- (firstn_skipn m (map (GenSym i) (site_prefixes s))) at 1. f_equal.
    clear - Ep. revert m Ep. induction (site_prefixes s) as [|q l IH]; intros [|m] Ep; simpl in *; try discriminate.
    - injection Ep as ->. reflexivity.
    - apply IH. exact Ep. }
  rewrite Hs in H. rewrite <- !app_assoc in H. rewrite <- app_comm_cons in H.
  rewrite !app_assoc in H. rewrite <- (app_assoc (script_ops lay ks1)) in H.
  eapply generated_fresh_at with (j := i) (p := p)
    (ops2 := skipn (S m) (map (GenSym i) (site_prefixes s)) ++ script_ops lay1 ks2); [exact INV|].
  unfold pre in *. rewrite <- !app_assoc in H. rewrite <- !app_assoc. exact H.
Qed.

(* ---------- the shared global scope is a map keyed by NAMES ---------- *)
Definition scope_rel (st : state) (g : scope) (ng : nscope) : Prop :=
  (forall nm k, lookup_name nm (symtable st) = Some k -> scope_get k g = nscope_get nm ng) /\
  (forall k, lookup_num k (revsymtable st) = None -> scope_get k g = None) /\
  (forall nm, lookup_name nm (symtable st) = None -> nscope_get nm ng = None).

Lemma scope_rel_extends : forall st st' g ng, tables_inverse st -> tables_inverse st' ->
  extends st st' -> scope_rel st g ng -> scope_rel st' g ng.
Proof.
  intros st st' g ng INV INV' EXT [R1 [R2 R3]]. repeat split.
  - intros nm k H. destruct (lookup_name nm (symtable st)) as [k0|] eqn:E.
    + pose proof (EXT _ _ E) as E'. rewrite E' in H. injection H as <-. apply R1. exact E.
    + rewrite (R3 _ E). apply R2.
      destruct (lookup_num k (revsymtable st)) as [nm0|] eqn:Ek; [|reflexivity]. exfalso.
      apply INV in Ek. pose proof (EXT _ _ Ek) as Ek'.
      assert (nm0 = nm) by (eapply inverse_injective; eauto). subst. congruence.
  - intros k H. apply R2. destruct (lookup_num k (revsymtable st)) as [nm0|] eqn:Ek; [|reflexivity].
    exfalso. apply INV in Ek. apply EXT in Ek. apply INV' in Ek. congruence.
  - intros nm H. apply R3. destruct (lookup_name nm (symtable st)) as [k0|] eqn:E; [|reflexivity].
    apply EXT in E. congruence.
Qed.

Lemma run_one_mk : forall st own nm, (own < length (nexts st))%nat ->
  exists k, snd (run st [MkSym own nm]) = [OSym nm k] /\
            lookup_name nm (symtable (fst (run st [MkSym own nm]))) = Some k.
Proof.
  intros st own nm Ho. simpl. destruct (make_symbol st own nm) as [st1 r] eqn:E. simpl.
  pose proof (make_symbol_cases _ _ _ _ _ E) as C. destruct C as [Hn|k|c k]; subst.
  - exfalso. eapply nth_error_lt_some; eauto.
  - exists k. auto.
  - exists k. split; [reflexivity|]. simpl. rewrite name_eqb_refl. reflexivity.
Qed.

Lemma scope_get_cons : forall k j v g, scope_get k ((j, v) :: g) = if k =? j then Some v else scope_get k g.
Proof. reflexivity. Qed.

Theorem global_scope_by_name : forall ks st lay g ng, tables_inverse st -> scope_rel st g ng ->
  length lay = length (nexts st) -> layout_ok lay = true -> members_valid lay ks = true ->
  snd (scope_run st lay g ks) = nscope_run ng ks.
Proof.
  induction ks as [|[i k] ks IH]; intros st lay g ng INV REL HL OK MV; [reflexivity|].
  simpl in MV. apply andb_true_iff in MV. destruct MV as [Hi MV]. apply Nat.ltb_lt in Hi.
  destruct (expand_valid lay i k OK Hi) as [V [L OK']].
  pose proof (layout_owner_lt lay i OK Hi) as Ho.
  simpl scope_run. unfold scope_step.
  destruct (expand lay i k) as [ops lay'] eqn:E. simpl fst in *. simpl snd in *.
  rewrite HL in V. destruct (run_valid ops st V) as [_ HN].
  assert (INV' : tables_inverse (fst (run st ops))) by (apply run_inverse; exact INV).
  assert (EXT : extends st (fst (run st ops))) by apply run_extends.
  assert (HL' : length lay' = length (nexts (fst (run st ops)))) by (rewrite HN, L, HL; reflexivity).
  destruct k as [nm|reads s|reads s|nm v|nm|  |]; simpl in E.
  - injection E as <- <-. destruct (run st [MkSym i nm]) as [st1 outs] eqn:R. simpl in *.
    specialize (IH st1 lay g ng INV' (scope_rel_extends _ _ _ _ INV INV' EXT REL) HL' OK' MV).
    destruct (scope_run st1 lay g ks) as [[[a b] c] d]. simpl in *. f_equal. exact IH.
  - injection E as <- <-. destruct (run st _) as [st1 outs] eqn:R. simpl in *.
    specialize (IH st1 lay g ng INV' (scope_rel_extends _ _ _ _ INV INV' EXT REL) HL' OK' MV).
    destruct (scope_run st1 lay g ks) as [[[a b] c] d]. simpl in *. f_equal. exact IH.
  - injection E as <- <-. destruct (run st _) as [st1 outs] eqn:R. simpl in *.
    specialize (IH st1 _ g ng INV' (scope_rel_extends _ _ _ _ INV INV' EXT REL) HL' OK' MV).
    destruct (scope_run st1 _ g ks) as [[[a b] c] d]. simpl in *. f_equal. exact IH.
  - (* KDef *)
    injection E as <- <-. rewrite HL in Ho.
    destruct (run_one_mk st (nth i lay i) nm Ho) as [num [Ho1 Ho2]].
    destruct (run st [MkSym (nth i lay i) nm]) as [st1 outs] eqn:R. simpl in Ho1, Ho2, INV', EXT, HL'. subst outs.
    pose proof (scope_rel_extends _ _ _ _ INV INV' EXT REL) as [R1 [R2 R3]].
    assert (REL' : scope_rel st1 ((num, v) :: g) ((nm, v) :: ng)).
    { repeat split.
      - intros nm' k' H. rewrite scope_get_cons. simpl.
        destruct (name_eqb nm' nm) eqn:En.
        + apply name_eqb_eq in En. subst. rewrite Ho2 in H. injection H as <-. rewrite Z.eqb_refl. reflexivity.
        + destruct (k' =? num) eqn:Ek.
          * apply Z.eqb_eq in Ek. subst. apply name_eqb_neq in En. exfalso. apply En.
            eapply inverse_injective; eauto.
          * apply R1. exact H.
      - intros k' H. rewrite scope_get_cons. destruct (k' =? num) eqn:Ek.
        + apply Z.eqb_eq in Ek. subst. apply INV' in Ho2. congruence.
        + apply R2. exact H.
      - intros nm' H. simpl. destruct (name_eqb nm' nm) eqn:En.
        + apply name_eqb_eq in En. subst. congruence.
        + apply R3. exact H. }
    specialize (IH st1 lay _ _ INV' REL' HL' OK' MV).
    destruct (scope_run st1 lay ((num, v) :: g) ks) as [[[a b] c] d]. simpl in *. f_equal. exact IH.
  - (* KGet *)
    injection E as <- <-. rewrite HL in Ho.
    destruct (run_one_mk st (nth i lay i) nm Ho) as [num [Ho1 Ho2]].
    destruct (run st [MkSym (nth i lay i) nm]) as [st1 outs] eqn:R. simpl in Ho1, Ho2, INV', EXT, HL'. subst outs.
    pose proof (scope_rel_extends _ _ _ _ INV INV' EXT REL) as REL'. pose proof REL' as [R1 [R2 R3]].
    specialize (IH st1 lay g ng INV' REL' HL' OK' MV).
    destruct (scope_run st1 lay g ks) as [[[a b] c] d]. simpl in *. f_equal; [|exact IH].
    f_equal. apply R1. exact Ho2.
  - injection E as <- <-. destruct (run st _) as [st1 outs] eqn:R. simpl in *.
    specialize (IH st1 _ g ng INV' (scope_rel_extends _ _ _ _ INV INV' EXT REL) HL' OK' MV).
    destruct (scope_run st1 _ g ks) as [[[a b] c] d]. simpl in *. f_equal. exact IH.
  - injection E as <- <-. destruct (run st _) as [st1 outs] eqn:R. simpl in *.
    specialize (IH st1 _ g ng INV' (scope_rel_extends _ _ _ _ INV INV' EXT REL) HL' OK' MV).
    destruct (scope_run st1 _ g ks) as [[[a b] c] d]. simpl in *. f_equal. exact IH.
Qed.

Lemma scope_rel_empty : forall st, scope_rel st [] [].
Proof. intros st. repeat split; intros; reflexivity. Qed.

(* ---------- non-vacuity ---------- *)
Definition nm_rk : name := [114; 107].
Definition nm_x : name := [120].
Definition nm_loop7 : name := p_loop ++ itoa 7.

(* a script interned __loop7 and __loop8, then compiles a for loop with counter 7: the loop's name is __loop9 *)
Lemma ex_loop_after_colliding_names :
  snd (script_run (mkState [] [] [5]) [0%nat]
        [(0%nat, KStr2sym (p_loop ++ itoa 7)); (0%nat, KStr2sym (p_loop ++ itoa 8)); (0%nat, KForm [nm_x] GsLoop)]) =
  [OSym (p_loop ++ itoa 7) 5; OSym (p_loop ++ itoa 8) 6; OSym nm_x 7; OSym (p_loop ++ itoa 9) 8].
Proof. vm_compute. reflexivity. Qed.

(* a duplicate reads through the ROOT's parser (counter 5 -> number 5) but generates with its own stale counter *)
Lemma ex_parser_shared :
  script_run (mkState [] [] [5]) [0%nat]
    [(0%nat, KDup); (0%nat, KForm [] GsGensym); (1%nat, KForm [nm_rk] GsAnonFn); (1%nat, KInDup [] GsGensym)] =
  (mkState [(p_gensym ++ itoa 8, 8); (p_anon ++ itoa 5, 7); (nm_rk, 6); (p_gensym ++ itoa 5, 5)]
           [(8, p_gensym ++ itoa 8); (7, p_anon ++ itoa 5); (6, nm_rk); (5, p_gensym ++ itoa 5)] [7; 8; 9],
   [ONone; OSym (p_gensym ++ itoa 5) 5; OSym nm_rk 6; OSym (p_anon ++ itoa 5) 7; ONone; OSym (p_gensym ++ itoa 8) 8]).
Proof. vm_compute. reflexivity. Qed.

(* the empty name is a name like any other: interned once, found again by every member, and the
   number it occupies is skipped by a stale member (presence in the reverse table, not a non-empty name) *)
Lemma ex_empty_name :
  snd (run (mkState [] [] [5]) [Clone 0; MkSym 0 []; MkSym 1 []; MkSym 1 nm_x; GenSym 0 []; MkSym 1 (itoa 6)]) =
  [ONone; OSym [] 5; OSym [] 5; OSym nm_x 6; OSym (itoa 6) 7; OSym (itoa 6) 7].
Proof. vm_compute. reflexivity. Qed.

(* a definition made by one member under a name is found by a clone under the same name and not under another *)
Lemma ex_global_scope :
  snd (scope_run (mkState [] [] [5]) [0%nat] [] [(0%nat, KClone); (0%nat, KDef nm_x 42); (1%nat, KGet nm_x); (1%nat, KGet nm_rk)]) =
  [GNone; GVal (Some 42); GVal (Some 42); GVal None].
Proof. vm_compute. reflexivity. Qed.
