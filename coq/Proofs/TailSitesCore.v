(* C09: the positions of Model/TailSites.v on the expressions of the modelled core (RefSemTco.expr):
   the table generated from generator.go gives the flag to exactly the sub-expressions that are
   `in_tail_position` by the rules of the model's evaluator (RefSemTcoProofs.tail_flag_rules). *)
From Coq Require Import List Bool ZArith.
Require Import ZV.Model.RefSemTco ZV.Proofs.RefSemTcoProofs.
Require Import ZV.Model.TailSites ZV.Generated.TailSites ZV.Proofs.TailSitesProofs.
Import ListNotations.

Definition let_init (seq : bool) : pos := if seq then PLetseqInit else PLetInit.
Definition let_last (seq : bool) : pos := if seq then PLetseqBodyLast else PLetBodyLast.
Definition let_nonlast (seq : bool) : pos := if seq then PLetseqBodyNonLast else PLetBodyNonLast.

(* sub sits in e at the end of the path p (every sub-expression position of every core form) *)
Inductive expr_path : expr -> list pos -> expr -> Prop :=
| ep_here : forall e, expr_path e [] e
| ep_begin_last : forall es l p sub, expr_path l p sub -> expr_path (EBegin (es ++ [l])) (PBeginLast :: p) sub
| ep_begin_nonlast : forall es1 e es2 p sub, es2 <> [] -> expr_path e p sub -> expr_path (EBegin (es1 ++ e :: es2)) (PBeginNonLast :: p) sub
| ep_cond_test : forall arms1 c b arms2 d p sub, expr_path c p sub -> expr_path (ECond (arms1 ++ (c, b) :: arms2) d) (PCondTest :: p) sub
| ep_cond_arm : forall arms1 c b arms2 d p sub, expr_path b p sub -> expr_path (ECond (arms1 ++ (c, b) :: arms2) d) (PCondArm :: p) sub
| ep_cond_default : forall arms d p sub, expr_path d p sub -> expr_path (ECond arms d) (PCondDefault :: p) sub
| ep_and_last : forall es l p sub, expr_path l p sub -> expr_path (EAnd (es ++ [l])) (PAndLast :: p) sub
| ep_and_nonlast : forall es1 e es2 p sub, es2 <> [] -> expr_path e p sub -> expr_path (EAnd (es1 ++ e :: es2)) (PAndNonLast :: p) sub
| ep_or_last : forall es l p sub, expr_path l p sub -> expr_path (EOr (es ++ [l])) (POrLast :: p) sub
| ep_or_nonlast : forall es1 e es2 p sub, es2 <> [] -> expr_path e p sub -> expr_path (EOr (es1 ++ e :: es2)) (POrNonLast :: p) sub
| ep_let_init : forall q bs1 x e bs2 body p sub, expr_path e p sub -> expr_path (ELet q (bs1 ++ (x, e) :: bs2) body) (let_init q :: p) sub
| ep_let_last : forall q bs body l p sub, expr_path l p sub -> expr_path (ELet q bs (body ++ [l])) (let_last q :: p) sub
| ep_let_nonlast : forall q bs es1 e es2 p sub, es2 <> [] -> expr_path e p sub -> expr_path (ELet q bs (es1 ++ e :: es2)) (let_nonlast q :: p) sub
| ep_scope_last : forall es l p sub, expr_path l p sub -> expr_path (EScope (es ++ [l])) (PScopeLast :: p) sub
| ep_scope_nonlast : forall es1 e es2 p sub, es2 <> [] -> expr_path e p sub -> expr_path (EScope (es1 ++ e :: es2)) (PScopeNonLast :: p) sub
| ep_def : forall x e p sub, expr_path e p sub -> expr_path (EDef x e) (PDefRhs :: p) sub
| ep_set : forall x e p sub, expr_path e p sub -> expr_path (ESet x e) (PSetRhs :: p) sub
| ep_arr : forall es1 e es2 p sub, expr_path e p sub -> expr_path (EArr (es1 ++ e :: es2)) (PArrayElem :: p) sub
| ep_call_arg : forall f as1 e as2 p sub, expr_path e p sub -> expr_path (ECall f (as1 ++ e :: as2)) (PCallArg :: p) sub
| ep_for_init : forall l i t s body p sub, expr_path i p sub -> expr_path (EFor l i t s body) (PForInit :: p) sub
| ep_for_test : forall l i t s body p sub, expr_path t p sub -> expr_path (EFor l i t s body) (PForTest :: p) sub
| ep_for_step : forall l i t s body p sub, expr_path s p sub -> expr_path (EFor l i t s body) (PForStep :: p) sub
| ep_for_body_last : forall l i t s es e p sub, expr_path e p sub -> expr_path (EFor l i t s (es ++ [e])) (PForBodyLast :: p) sub
| ep_for_body_nonlast : forall l i t s es1 e es2 p sub, es2 <> [] -> expr_path e p sub -> expr_path (EFor l i t s (es1 ++ e :: es2)) (PForBodyNonLast :: p) sub
| ep_fn : forall ps r es1 e es2 p sub, expr_path e p sub -> expr_path (EFn ps r (es1 ++ e :: es2)) (PFnBody :: p) sub
| ep_defn : forall n ps r es1 e es2 p sub, expr_path e p sub -> expr_path (EDefn n ps r (es1 ++ e :: es2)) (PFnBody :: p) sub.

Lemma tail_path_in_tail_position : forall e p sub,
  expr_path e p sub -> forallb tail_pos p = true -> in_tail_position e sub.
Proof.
  induction 1 as [e| | | | | | | | | | | | | | | | | | | | | | | | |]; intros Ht; simpl in Ht;
    try discriminate; try (destruct q; discriminate).
  - apply tp_here.
  - apply tp_begin. auto.
  - apply tp_cond_arm. auto.
  - apply tp_cond_default. auto.
  - apply tp_and. auto.
  - apply tp_or. auto.
  - apply tp_let. apply IHexpr_path. destruct q; exact Ht.
  - apply tp_scope. auto.
Qed.

Lemma in_tail_position_tail_path : forall e sub,
  in_tail_position e sub -> exists p, expr_path e p sub /\ forallb tail_pos p = true.
Proof.
  induction 1 as [e|es l sub _ [p [Hp Ht]]|a1 c b a2 d sub _ [p [Hp Ht]]|arms d sub _ [p [Hp Ht]]
                 |q bs body l sub _ [p [Hp Ht]]|es l sub _ [p [Hp Ht]]|es l sub _ [p [Hp Ht]]|es l sub _ [p [Hp Ht]]].
  - exists []. split; [apply ep_here|reflexivity].
  - exists (PBeginLast :: p). split; [apply ep_begin_last; exact Hp|exact Ht].
  - exists (PCondArm :: p). split; [apply ep_cond_arm; exact Hp|exact Ht].
  - exists (PCondDefault :: p). split; [apply ep_cond_default; exact Hp|exact Ht].
  - exists (let_last q :: p). split; [apply ep_let_last; exact Hp|destruct q; exact Ht].
  - exists (PScopeLast :: p). split; [apply ep_scope_last; exact Hp|exact Ht].
  - exists (PAndLast :: p). split; [apply ep_and_last; exact Hp|exact Ht].
  - exists (POrLast :: p). split; [apply ep_or_last; exact Hp|exact Ht].
Qed.

Lemma expr_path_leak_free : forall e p sub, expr_path e p sub -> leak_free p.
Proof.
  intros e p sub _. apply all_leak_free.
Qed.

(* the flag computed from the REAL generator's table arrives at a sub-expression of a function body of the
   core iff the sub-expression is in tail position by the rules of the model's evaluator *)
Theorem generated_flag_iff_in_tail_position : forall body sub,
  in_tail_position body sub <-> exists p, expr_path body p sub /\ path_flag tail_sites p ST = Some ST.
Proof.
  intros body sub. split.
  - intros H. destruct (in_tail_position_tail_path _ _ H) as [p [Hp Ht]]. exists p. split; [exact Hp|].
    destruct (generated_flag_iff_tail_position p (expr_path_leak_free _ _ _ Hp)) as [y [Hy Hiff]].
    rewrite Hy. f_equal. apply Hiff. exact Ht.
  - intros [p [Hp Hf]]. apply (tail_path_in_tail_position _ _ _ Hp).
    destruct (generated_flag_iff_tail_position p (expr_path_leak_free _ _ _ Hp)) as [y [Hy Hiff]].
    rewrite Hy in Hf. apply Hiff. congruence.
Qed.
