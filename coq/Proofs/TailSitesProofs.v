(* C09: the tail flag over ALL nestings of ALL forms of the generator (proofs for Model/TailSites.v). *)
From Coq Require Import String List Bool Arith Lia.
Require Import ZV.Model.TailSites ZV.Generated.TailSites.
Import ListNotations.

Lemma fset_eqb_eq : forall a b, fset_eqb a b = true -> a = b.
Proof. destruct a, b; simpl; congruence. Qed.

Lemma opt_fset_eqb_eq : forall a b, opt_fset_eqb a b = true -> a = Some b.
Proof. intros [y|] b H; simpl in H; [apply fset_eqb_eq in H; congruence|discriminate]. Qed.

Lemma pos_eqb_eq : forall a b, pos_eqb a b = true -> a = b.
Proof. destruct a, b; simpl; intros H; try reflexivity; discriminate. Qed.

Lemma pos_eqb_refl : forall a, pos_eqb a a = true.
Proof. destruct a; reflexivity. Qed.

Lemma all_pos_complete : forall q, In q all_pos.
Proof. destruct q; simpl; tauto. Qed.

Lemma mem_pos_In : forall q l, mem_pos q l = true <-> In q l.
Proof.
  intros q l. unfold mem_pos. rewrite existsb_exists. split.
  - intros [x [Hin Heq]]. apply pos_eqb_eq in Heq. subst. exact Hin.
  - intros H. exists q. split; [exact H|apply pos_eqb_refl].
Qed.

(* a flag value that is a definite state: not "both" *)
Definition definite (x : fset) : Prop := x <> SBoth.

Lemma spec_step_definite : forall q x, definite x -> definite (spec_step q x).
Proof. intros q x H. unfold definite in *. destruct x; simpl; try congruence; [destruct q; congruence|destruct (tail_pos q); congruence]. Qed.

Section Sound.
  Variables (leaks : list pos) (tbl : list site) (exits : list fexit) (gotos : list fgoto).
  Hypothesis Hok : table_ok leaks tbl exits gotos = true.

  Lemma ok_pos : forall q, ~ In q leaks -> pos_ok tbl q = true.
  Proof.
    intros q Hnl. unfold table_ok in Hok. repeat rewrite andb_true_iff in Hok.
    destruct Hok as [[[[[Hp _] _] _] _] _].
    rewrite forallb_forall in Hp. specialize (Hp q (all_pos_complete q)).
    apply orb_true_iff in Hp. destruct Hp as [Hm|Hp]; [|exact Hp].
    apply mem_pos_In in Hm. contradiction.
  Qed.

  Lemma step_sound : forall q x, ~ In q leaks -> definite x -> pos_step tbl q x = Some (spec_step q x).
  Proof.
    intros q x Hnl Hd. pose proof (ok_pos q Hnl) as H. unfold pos_ok in H.
    repeat rewrite andb_true_iff in H. destruct H as [[H1 H0] Hn].
    apply opt_fset_eqb_eq in H1. apply opt_fset_eqb_eq in H0. apply opt_fset_eqb_eq in Hn.
    destruct x; [exact Hn|exact H0|exact H1|exfalso; apply Hd; reflexivity].
  Qed.

  (* the flag that arrives at the end of ANY nesting of positions is the one the specification computes *)
  Theorem path_sound : forall p x, (forall q, In q p -> ~ In q leaks) -> definite x ->
    path_flag tbl p x = Some (spec_path p x).
  Proof.
    induction p as [|q r IH]; intros x Hnl Hd; [reflexivity|].
    simpl. rewrite step_sound; [|apply Hnl; left; reflexivity|exact Hd].
    unfold spec_path in *. simpl. apply IH.
    - intros q' Hin. apply Hnl. right. exact Hin.
    - apply spec_step_definite. exact Hd.
  Qed.

  Theorem jumps_sound : forall p x, (forall q, In q p -> ~ In q leaks) -> definite x ->
    jumps tbl p x = Some (spec_jumps p x).
  Proof.
    induction p as [|q r IH]; intros x Hnl Hd; [reflexivity|].
    simpl. rewrite step_sound; [|apply Hnl; left; reflexivity|exact Hd].
    rewrite IH; [|intros q' Hin; apply Hnl; right; exact Hin|apply spec_step_definite; exact Hd].
    f_equal. destruct q, x; simpl; try reflexivity.
  Qed.

  Lemma ok_exits : forall e, In e exits -> e_in0 e = SF /\ e_in1 e <> SNone.
  Proof.
    intros e Hin. unfold table_ok in Hok. repeat rewrite andb_true_iff in Hok.
    destruct Hok as [[[[[_ He] _] _] _] _].
    rewrite forallb_forall in He. specialize (He e Hin). unfold exit_ok in He.
    apply andb_true_iff in He. destruct He as [H0 H1]. split; [apply fset_eqb_eq; exact H0|].
    intros E. rewrite E in H1. discriminate.
  Qed.

  Lemma ok_gotos : forall g, In g gotos -> g_in0 g = false /\ g_in1 g = true.
  Proof.
    intros g Hin. unfold table_ok in Hok. repeat rewrite andb_true_iff in Hok.
    destruct Hok as [[[_ Hg] _] _].
    rewrite forallb_forall in Hg. specialize (Hg g Hin). unfold goto_ok in Hg.
    repeat rewrite andb_true_iff in Hg. destruct Hg as [[_ H0] H1].
    split; [apply negb_true_iff; exact H0|exact H1].
  Qed.
End Sound.

(* ---- what the specification of a path says, in the property's words *)

Lemma spec_path_none : forall p, spec_path p SNone = SNone.
Proof. induction p as [|q r IH]; [reflexivity|]. unfold spec_path in *. simpl. exact IH. Qed.

Lemma spec_path_false : forall p, spec_path p SF = SF \/ spec_path p SF = SNone.
Proof.
  induction p as [|q r IH]; [left; reflexivity|].
  unfold spec_path in *. simpl. destruct q; try exact IH; right; apply spec_path_none.
Qed.

(* started with the flag (a function body), the flag arrives iff EVERY step is a tail position *)
Theorem spec_path_tail_iff : forall p, spec_path p ST = ST <-> forallb tail_pos p = true.
Proof.
  induction p as [|q r IH]; [simpl; tauto|].
  unfold spec_path in *. simpl. destruct (tail_pos q) eqn:E; simpl.
  - exact IH.
  - split; [|discriminate]. intros H.
    destruct (spec_path_false r) as [H'|H']; unfold spec_path in H'; rewrite H' in H; discriminate.
Qed.

Lemma spec_path_true_cases : forall p, spec_path p ST = ST \/ spec_path p ST = SF \/ spec_path p ST = SNone.
Proof.
  induction p as [|q r IH]; [left; reflexivity|].
  unfold spec_path in *. simpl. destruct (tail_pos q); [exact IH|].
  right. destruct (spec_path_false r) as [H|H]; unfold spec_path in H; rewrite H; tauto.
Qed.

(* ---- the generated table *)

Lemma generated_table_ok : table_ok known_leaks tail_sites tail_exits tail_gotos = true.
Proof. vm_compute. reflexivity. Qed.

Definition leak_free (p : list pos) : Prop := forall q, In q p -> ~ In q known_leaks.

(* generator.go as it is now: for every nesting of forms (known_leaks is empty, so leak_free is trivial), a
   sub-form is compiled with Tail = true iff every step down to it is a tail position *)
Theorem generated_flag_iff_tail_position : forall p, leak_free p ->
  exists y, path_flag tail_sites p ST = Some y /\ (y = ST <-> forallb tail_pos p = true).
Proof.
  intros p Hl. exists (spec_path p ST). split.
  - apply (path_sound known_leaks tail_sites tail_exits tail_gotos generated_table_ok); [exact Hl|discriminate].
  - apply spec_path_tail_iff.
Qed.

(* without the flag at the start (every entry into the compiler other than a function body) it never arrives *)
Theorem generated_no_flag_no_tail : forall p, leak_free p ->
  exists y, path_flag tail_sites p SF = Some y /\ y <> ST.
Proof.
  intros p Hl. exists (spec_path p SF). split.
  - apply (path_sound known_leaks tail_sites tail_exits tail_gotos generated_table_ok); [exact Hl|discriminate].
  - destruct (spec_path_false p) as [H|H]; rewrite H; discriminate.
Qed.

Theorem generated_jumps : forall p, leak_free p -> jumps tail_sites p ST = Some (spec_jumps p ST).
Proof.
  intros p Hl. apply (jumps_sound known_leaks tail_sites tail_exits tail_gotos generated_table_ok); [exact Hl|discriminate].
Qed.

Theorem generated_exits_monotone : forall e, In e tail_exits -> e_in0 e = SF /\ e_in1 e <> SNone.
Proof. exact (ok_exits known_leaks tail_sites tail_exits tail_gotos generated_table_ok). Qed.

Theorem generated_goto_needs_flag : forall g, In g tail_gotos -> g_in0 g = false /\ g_in1 g = true.
Proof. exact (ok_gotos known_leaks tail_sites tail_exits tail_gotos generated_table_ok). Qed.

(* no position is set aside: the statements hold for every path *)
Lemma all_leak_free : forall p, leak_free p.
Proof. intros p q _ H. exact H. Qed.

(* the two defects found with this table and repaired in /repo (0c81737, 9d37ebd) stay repaired: a call as the
   target of def / set and the forms of every included file are compiled without the flag *)
Theorem generated_def_target_and_include_cleared :
  forall q, In q [PDefLhs; PSetLhs; PIncludeLastFile; PIncludeNonLastFile] ->
  pos_step tail_sites q ST = Some SF /\ pos_step tail_sites q SF = Some SF.
Proof.
  intros q H. simpl in H.
  destruct H as [E|[E|[E|[E|[]]]]]; subst q; split; vm_compute; reflexivity.
Qed.
