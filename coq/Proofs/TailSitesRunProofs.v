(* C09: the precomputed step table used by the extracted runner is `pos_step` of the generated table. *)
From Coq Require Import List Bool.
Require Import ZV.Model.TailSites ZV.Generated.TailSites ZV.Model.TailSitesRun.
Import ListNotations.

Lemma gen_step_eq : forall q x, gen_step q x = pos_step tail_sites q x.
Proof. destruct q, x; vm_compute; reflexivity. Qed.

Theorem jumps_run_eq : forall p x, jumps_run p x = jumps tail_sites p x.
Proof.
  induction p as [|q r IH]; intros x; [reflexivity|].
  simpl. rewrite gen_step_eq. destruct (pos_step tail_sites q x) as [y|]; [|reflexivity].
  rewrite IH. reflexivity.
Qed.
