(* C15 — proofs about the template model (Model/Templ.v). *)
From Coq Require Import ZArith List Bool Lia.
Require Import ZV.Model.Templ.
Import ListNotations.
Open Scope Z_scope.

(* ---------------------------------------------------------------- induction principles *)
Section TmplInd.
  Variable P : tmpl -> Prop.
  Hypothesis HLit : forall v, P (TLit v).
  Hypothesis HUnq : forall e, P (TUnq e).
  Hypothesis HSpl : forall e, P (TSpl e).
  Hypothesis HList : forall l, Forall P l -> P (TList l).
  Hypothesis HArr : forall l, Forall P l -> P (TArr l).
  Hypothesis HHash : forall tn kv, Forall (fun p => P (fst p) /\ P (snd p)) kv -> P (THash tn kv).

  Fixpoint tmpl_ind' (t : tmpl) : P t :=
    match t with
    | TLit v => HLit v
    | TUnq e => HUnq e
    | TSpl e => HSpl e
    | TList l => HList l ((fix go (l : list tmpl) : Forall P l :=
                             match l with
                             | [] => Forall_nil _
                             | x :: r => Forall_cons _ (tmpl_ind' x) (go r)
                             end) l)
    | TArr l => HArr l ((fix go (l : list tmpl) : Forall P l :=
                           match l with
                           | [] => Forall_nil _
                           | x :: r => Forall_cons _ (tmpl_ind' x) (go r)
                           end) l)
    | THash tn kv =>
        HHash tn kv ((fix go (l : list (tmpl * tmpl)) : Forall (fun p => P (fst p) /\ P (snd p)) l :=
                        match l with
                        | [] => Forall_nil _
                        | x :: r => Forall_cons _ (conj (tmpl_ind' (fst x)) (tmpl_ind' (snd x))) (go r)
                        end) kv)
    end.
End TmplInd.

Section ValueInd.
  Variable P : value -> Prop.
  Hypothesis HInt : forall z, P (VInt z).
  Hypothesis HSym : forall z, P (VSym z).
  Hypothesis HStr : forall z, P (VStr z).
  Hypothesis HOpq : forall z, P (VOpq z).
  Hypothesis HList : forall l, Forall P l -> P (VList l).
  Hypothesis HArr : forall l, Forall P l -> P (VArr l).
  Hypothesis HHash : forall tn kv, Forall (fun p => P (fst p) /\ P (snd p)) kv -> P (VHash tn kv).

  Fixpoint value_ind' (v : value) : P v :=
    match v with
    | VInt z => HInt z
    | VSym z => HSym z
    | VStr z => HStr z
    | VOpq z => HOpq z
    | VList l => HList l ((fix go (l : list value) : Forall P l :=
                             match l with
                             | [] => Forall_nil _
                             | x :: r => Forall_cons _ (value_ind' x) (go r)
                             end) l)
    | VArr l => HArr l ((fix go (l : list value) : Forall P l :=
                           match l with
                           | [] => Forall_nil _
                           | x :: r => Forall_cons _ (value_ind' x) (go r)
                           end) l)
    | VHash tn kv =>
        HHash tn kv ((fix go (l : list (value * value)) : Forall (fun p => P (fst p) /\ P (snd p)) l :=
                        match l with
                        | [] => Forall_nil _
                        | x :: r => Forall_cons _ (conj (value_ind' (fst x)) (value_ind' (snd x))) (go r)
                        end) kv)
    end.
End ValueInd.

(* ---------------------------------------------------------------- the machine *)
Definition push (vs : list value) (S : stack) : stack := rev (map IVal vs) ++ S.

Definition post (r : res (list value)) (S : stack) : outcome :=
  match r with Ok vs => Done (push vs S) | Err => Fail end.

Lemma push_app : forall a b S, push (a ++ b) S = push b (push a S).
Proof. intros. unfold push. rewrite map_app, rev_app_distr, app_assoc. reflexivity. Qed.

Lemma push_one : forall v S, push [v] S = IVal v :: S.
Proof. reflexivity. Qed.

Lemma pop_vals : forall vs S, pop_to_marker (map IVal vs ++ IMark :: S) = Some (vs, S).
Proof. induction vs as [|v vs IH]; intros; simpl; [reflexivity|]. rewrite IH. reflexivity. Qed.

Lemma pop_push : forall vs S, pop_to_marker (push vs (IMark :: S)) = Some (rev vs, S).
Proof. intros. unfold push. rewrite <- map_rev. apply pop_vals. Qed.

Section Proofs.
  Variable rho : value -> option value.

  Lemma run_app : forall c1 c2 S,
      run rho (c1 ++ c2) S = match run rho c1 S with Done S' => run rho c2 S' | Fail => Fail end.
  Proof.
    induction c1 as [|i c1 IH]; intros; simpl; [reflexivity|].
    destruct (exec rho i S); [apply IH|reflexivity].
  Qed.

  (* sequential composition of pieces that each behave like "push these values or fail" *)
  Lemma run_seq : forall (X : Type) (f : X -> list instr) (g : X -> res (list value)) (l : list X),
      Forall (fun x => forall S, run rho (f x) S = post (g x) S) l ->
      forall S, run rho (concat (map f l)) S = post (cat_all (map g l)) S.
  Proof.
    intros X f g l H. induction H as [|x r Hx Hr IH]; intros S; simpl.
    - reflexivity.
    - rewrite run_app, Hx. destruct (g x) as [a|]; simpl; [|reflexivity].
      rewrite IH. destruct (cat_all (map g r)) as [b|]; simpl; [|reflexivity].
      rewrite push_app. reflexivity.
  Qed.

  (* the marker .. squash explode bracket changes nothing *)
  Lemma wrap_post : forall c r,
      (forall S, run rho c S = post r S) -> forall S, run rho (wrap c) S = post r S.
  Proof.
    intros c r H S. unfold wrap. cbn [run exec]. rewrite run_app, H.
    destruct r as [vs|]; simpl; [|reflexivity].
    rewrite pop_push, rev_involutive. reflexivity.
  Qed.

  (* ------------------------------------------------------------ facts about the specification *)
  Lemma cat_all_app : forall x y,
      cat_all (x ++ y) =
      match cat_all x, cat_all y with Ok a, Ok b => Ok (a ++ b) | _, _ => Err end.
  Proof.
    induction x as [|[a|] x IH]; intros; simpl.
    - destruct (cat_all y); reflexivity.
    - rewrite IH. destruct (cat_all x), (cat_all y); try reflexivity. rewrite app_assoc. reflexivity.
    - reflexivity.
  Qed.

  Lemma elems_single : forall t vs,
      is_splice t = false -> elems rho t = Ok vs -> exists v, vs = [v].
  Proof.
    intros t vs Hs H. destruct t; simpl in *; try discriminate.
    - inversion H. eauto.
    - destruct (rho e); inversion H. eauto.
    - destruct (cat_all (map (elems rho) l)); inversion H. eauto.
    - destruct (cat_all (map (elems rho) l)); inversion H. eauto.
    - destruct (cat_all _); [|discriminate]. destruct (make_hash tn a); inversion H. eauto.
  Qed.

  Lemma elems_short : forall t vs,
      slot_short rho t = true -> elems rho t = Ok vs -> (length vs <= 1)%nat.
  Proof.
    intros t vs Hs H. destruct (is_splice t) eqn:E.
    - destruct t; try discriminate. simpl in *.
      destruct (rho e) as [[]|]; try discriminate. inversion H; subst.
      destruct vs as [|a [|b vs]]; simpl; try lia; try discriminate.
    - destruct (elems_single t vs E H) as [v ->]. simpl. lia.
  Qed.

  Lemma rev_short : forall (a : list value), (length a <= 1)%nat -> rev a = a.
  Proof. intros [|x [|y a]] H; simpl in *; try reflexivity. lia. Qed.

  Lemma cat_all_cons : forall x r,
      cat_all (x :: r) = match x, cat_all r with Ok a, Ok b => Ok (a ++ b) | _, _ => Err end.
  Proof. intros [a|] r; simpl; [destruct (cat_all r)|]; reflexivity. Qed.

  Lemma cat_all_snoc : forall r x,
      cat_all (r ++ [x]) = match cat_all r, x with Ok a, Ok b => Ok (a ++ b) | _, _ => Err end.
  Proof.
    intros. rewrite cat_all_app. destruct (cat_all r), x; simpl; try reflexivity.
    rewrite ?app_nil_r. reflexivity.
  Qed.

  Lemma app_res_spec : forall a b,
      app_res a b = match a, b with Ok x, Ok y => Ok (x ++ y) | _, _ => Err end.
  Proof. intros [x|] [y|]; unfold app_res; cbn [cat_all]; try reflexivity. rewrite app_nil_r. reflexivity. Qed.

  (* the operand order of generateSyntaxQuoteHash against the written order *)
  Lemma hash_flat : forall (kv : list (tmpl * tmpl)),
      Forall (fun p => slot_short rho (fst p) = true /\ slot_short rho (snd p) = true) kv ->
      match cat_all (map (fun p => app_res (elems rho (fst p)) (elems rho (snd p))) kv) with
      | Ok vs => cat_all (rev (map (fun p => app_res (elems rho (snd p)) (elems rho (fst p))) kv)) = Ok (rev vs)
      | Err => cat_all (rev (map (fun p => app_res (elems rho (snd p)) (elems rho (fst p))) kv)) = Err
      end.
  Proof.
    intros kv H. induction H as [|p r [Hk Hv] Hr IH]; [reflexivity|].
    set (F := fun p : tmpl * tmpl => app_res (elems rho (fst p)) (elems rho (snd p))) in *.
    set (G := fun p : tmpl * tmpl => app_res (elems rho (snd p)) (elems rho (fst p))) in *.
    cbn [map rev]. rewrite cat_all_cons, cat_all_snoc.
    unfold F at 1. unfold G at 2 4. rewrite !app_res_spec.
    destruct (elems rho (fst p)) as [a|] eqn:Ea; destruct (elems rho (snd p)) as [b|] eqn:Eb.
    - destruct (cat_all (map F r)) as [vs|]; rewrite IH; [|reflexivity].
      rewrite !rev_app_distr.
      rewrite (rev_short a (elems_short _ _ Hk Ea)), (rev_short b (elems_short _ _ Hv Eb)).
      reflexivity.
    - destruct (cat_all (rev (map G r))); reflexivity.
    - destruct (cat_all (rev (map G r))); reflexivity.
    - destruct (cat_all (rev (map G r))); reflexivity.
  Qed.

  (* ------------------------------------------------------------ the generator is exact *)
  Lemma unq_form_None_gen : forall l,
      unq_form l = None ->
      gen_sq (VList l) =
      match l with [] => [IPush (VList [])] | _ => IPushMarker :: flat_map gen_sq l ++ [ISquash] end.
  Proof. intros l H. cbn [gen_sq]. rewrite H. reflexivity. Qed.

  Theorem gen_elems : forall t,
      wf t = true -> hshort rho t = true ->
      forall S, run rho (gen_sq (reify t)) S = post (elems rho t) S.
  Proof.
    induction t as [v|e|e|l IH|l IH|tn kv IH] using tmpl_ind'; intros Hwf Hsh S.
    - (* literal *)
      destruct v as [| | | |l| |]; simpl in Hwf; try discriminate; try reflexivity.
      destruct l; [reflexivity|discriminate].
    - (* unquote *)
      simpl. destruct (rho e); reflexivity.
    - (* splice *)
      simpl. destruct (rho e) as [[]|]; reflexivity.
    - (* list *)
      cbn [wf] in Hwf. apply andb_prop in Hwf. destruct Hwf as [Hu Hall].
      cbn [reify]. rewrite unq_form_None_gen by (destruct (unq_form (map reify l)); [discriminate|reflexivity]).
      destruct l as [|t0 l0]; [reflexivity|].
      cbn [map]. change (reify t0 :: map reify l0) with (map reify (t0 :: l0)).
      remember (t0 :: l0) as l eqn:El. clear El t0 l0.
      cbn [run exec]. rewrite run_app.
      rewrite flat_map_concat_map, map_map.
      rewrite (run_seq _ (fun t => gen_sq (reify t)) (elems rho) l).
      + cbn [elems]. destruct (cat_all (map (elems rho) l)) as [vs|]; simpl; [|reflexivity].
        rewrite pop_push, rev_involutive. reflexivity.
      + cbn [hshort] in Hsh. rewrite forallb_forall in Hall, Hsh.
        rewrite Forall_forall in *. intros x Hx S'. apply IH; auto.
    - (* array *)
      cbn [wf] in Hwf. cbn [hshort] in Hsh. cbn [reify gen_sq run exec]. rewrite run_app.
      rewrite flat_map_concat_map, map_map.
      rewrite (run_seq _ (fun t => wrap (gen_sq (reify t))) (elems rho) l).
      + cbn [elems]. destruct (cat_all (map (elems rho) l)) as [vs|]; simpl; [|reflexivity].
        rewrite pop_push, rev_involutive. reflexivity.
      + rewrite forallb_forall in Hwf, Hsh. rewrite Forall_forall in *.
        intros x Hx S'. apply wrap_post. intros S''. apply IH; auto.
    - (* hash *)
      cbn [wf] in Hwf. cbn [hshort] in Hsh. rewrite forallb_forall in Hwf, Hsh.
      cbn [reify gen_sq run exec]. rewrite run_app.
      rewrite map_map, <- map_rev.
      rewrite (run_seq _ (fun p : tmpl * tmpl =>
                            wrap (gen_sq (snd (reify (fst p), reify (snd p)))) ++
                            wrap (gen_sq (fst (reify (fst p), reify (snd p)))))
                 (fun p => app_res (elems rho (snd p)) (elems rho (fst p))) (rev kv)).
      + rewrite map_rev.
        assert (Hs : Forall (fun p => slot_short rho (fst p) = true /\ slot_short rho (snd p) = true) kv).
        { rewrite Forall_forall. intros p Hp. specialize (Hsh p Hp).
          repeat (apply andb_prop in Hsh; destruct Hsh as [Hsh ?]). auto. }
        pose proof (hash_flat kv Hs) as HF. cbn [elems].
        destruct (cat_all (map (fun p => app_res (elems rho (fst p)) (elems rho (snd p))) kv)) as [vs|];
          rewrite HF; simpl; [|reflexivity].
        rewrite pop_push, rev_involutive. destruct (make_hash tn vs); reflexivity.
      + rewrite Forall_forall in *. intros p Hp S'. apply in_rev in Hp.
        specialize (IH p Hp). destruct IH as [IHk IHv].
        specialize (Hwf p Hp). apply andb_prop in Hwf. destruct Hwf as [Hwk Hwv].
        specialize (Hsh p Hp). repeat (apply andb_prop in Hsh; destruct Hsh as [Hsh ?]).
        cbn [fst snd]. rewrite run_app.
        rewrite (wrap_post _ (elems rho (snd p))) by (intros; apply IHv; auto).
        rewrite app_res_spec.
        destruct (elems rho (snd p)) as [b|]; cbn [post]; [|reflexivity].
        rewrite (wrap_post _ (elems rho (fst p))) by (intros; apply IHk; auto).
        destruct (elems rho (fst p)) as [a|]; cbn [post]; [|reflexivity].
        rewrite push_app. reflexivity.
  Qed.

  Definition expected (t : tmpl) (S : stack) : outcome :=
    match subst rho t with Ok v => Done (IVal v :: S) | Err => Fail end.

  Theorem template_subst_short : forall t S,
      wf t = true -> is_splice t = false -> hshort rho t = true ->
      run rho (gen_sq (reify t)) S = expected t S.
  Proof.
    intros t S Hwf Hs Hsh. rewrite gen_elems by assumption. unfold expected, subst.
    destruct (elems rho t) as [vs|] eqn:E; [|reflexivity].
    destruct (elems_single t vs Hs E) as [v ->]. reflexivity.
  Qed.

  (* templates without hashes: unconditional *)
  Fixpoint no_hash (t : tmpl) : bool :=
    match t with
    | TList l | TArr l => forallb no_hash l
    | THash _ _ => false
    | _ => true
    end.

  Lemma no_hash_short : forall t, no_hash t = true -> hshort rho t = true.
  Proof.
    induction t as [v|e|e|l IH|l IH|tn kv IH] using tmpl_ind'; intros H; try reflexivity.
    - cbn [no_hash hshort] in *. rewrite forallb_forall in *. rewrite Forall_forall in IH. auto.
    - cbn [no_hash hshort] in *. rewrite forallb_forall in *. rewrite Forall_forall in IH. auto.
    - discriminate.
  Qed.

  (* hashes whose key/value slots hold no splice: also unconditional *)
  Fixpoint slots_unspliced (t : tmpl) : bool :=
    match t with
    | TList l | TArr l => forallb slots_unspliced l
    | THash _ kv =>
        forallb (fun p => negb (is_splice (fst p)) && negb (is_splice (snd p))
                          && slots_unspliced (fst p) && slots_unspliced (snd p)) kv
    | _ => true
    end.

  Lemma unspliced_short : forall t, slots_unspliced t = true -> hshort rho t = true.
  Proof.
    induction t as [v|e|e|l IH|l IH|tn kv IH] using tmpl_ind'; intros H; try reflexivity.
    - cbn [slots_unspliced hshort] in *. rewrite forallb_forall in *. rewrite Forall_forall in IH. auto.
    - cbn [slots_unspliced hshort] in *. rewrite forallb_forall in *. rewrite Forall_forall in IH. auto.
    - cbn [slots_unspliced hshort] in *. rewrite forallb_forall in *. rewrite Forall_forall in IH.
      intros p Hp. specialize (H p Hp). specialize (IH p Hp). destruct IH as [IHk IHv].
      repeat (apply andb_prop in H; destruct H as [H ?]).
      rewrite IHk, IHv by assumption.
      destruct (fst p), (snd p); simpl in *; try discriminate; reflexivity.
  Qed.

  Theorem template_subst : forall t S,
      wf t = true -> is_splice t = false -> slots_unspliced t = true ->
      run rho (gen_sq (reify t)) S = expected t S.
  Proof. intros. apply template_subst_short; auto using unspliced_short. Qed.

  Theorem template_subst_lists_arrays : forall t S,
      wf t = true -> is_splice t = false -> no_hash t = true ->
      run rho (gen_sq (reify t)) S = expected t S.
  Proof. intros. apply template_subst_short; auto using no_hash_short. Qed.

  (* stack discipline: the template code never looks at, and never changes, what is below *)
  Theorem template_frame : forall t S,
      wf t = true -> is_splice t = false -> hshort rho t = true ->
      run rho (gen_sq (reify t)) S =
      match run rho (gen_sq (reify t)) [] with Done R => Done (R ++ S) | Fail => Fail end.
  Proof.
    intros t S Hwf Hs Hsh. rewrite !template_subst_short by assumption. unfold expected.
    destruct (subst rho t); reflexivity.
  Qed.

  (* a bare splice (outside the property: not inside any container) leaves its elements *)
  Theorem bare_splice_pushes_all : forall e S,
      run rho (gen_sq (reify (TSpl e))) S =
      match rho e with Some (VList l) => Done (push l S) | _ => Fail end.
  Proof. intros. simpl. destruct (rho e) as [[]|]; reflexivity. Qed.
End Proofs.

(* ---------------------------------------------------------------- every form is a template *)
Lemma unq_form_UQ : forall l e, unq_form l = Some (UQ e) -> l = [VSym sym_unquote; e].
Proof.
  intros l e H. destruct l as [|[] [|y [|]]]; simpl in H; try discriminate.
  destruct (Z.eqb s sym_unquote) eqn:E; [|destruct (Z.eqb s sym_splice); discriminate].
  apply Z.eqb_eq in E. inversion H. subst. reflexivity.
Qed.

Lemma unq_form_SP : forall l e, unq_form l = Some (SP e) -> l = [VSym sym_splice; e].
Proof.
  intros l e H. destruct l as [|[] [|y [|]]]; simpl in H; try discriminate.
  destruct (Z.eqb s sym_unquote) eqn:E; [discriminate|].
  destruct (Z.eqb s sym_splice) eqn:E2; [|discriminate].
  apply Z.eqb_eq in E2. inversion H. subst. reflexivity.
Qed.

Lemma map_reify_view : forall l,
    Forall (fun v => reify (view v) = v /\ wf (view v) = true) l -> map reify (map view l) = l.
Proof.
  intros l H. induction H as [|y r [Hy _] Hr IHr]; [reflexivity|]. simpl. rewrite Hy, IHr. reflexivity.
Qed.

Theorem view_reify : forall v, reify (view v) = v /\ wf (view v) = true.
Proof.
  induction v as [z|z|z|z|l IH|l IH|tn kv IH] using value_ind'; try (split; reflexivity).
  - cbn [view]. destruct (unq_form l) as [[e|e]|] eqn:E.
    + apply unq_form_UQ in E. subst. split; reflexivity.
    + apply unq_form_SP in E. subst. split; reflexivity.
    + destruct l as [|x l0]; [split; reflexivity|].
      remember (x :: l0) as l eqn:El. clear El x l0.
      pose proof (map_reify_view l IH) as Hm.
      split.
      * cbn [reify]. rewrite Hm. reflexivity.
      * cbn [wf]. rewrite Hm, E. simpl.
        rewrite forallb_forall. intros t Ht. apply in_map_iff in Ht. destruct Ht as [y [<- Hy]].
        rewrite Forall_forall in IH. apply IH. assumption.
  - split.
    + cbn [view reify]. f_equal. apply map_reify_view. assumption.
    + cbn [view wf]. rewrite forallb_forall. intros t Ht. apply in_map_iff in Ht.
      destruct Ht as [y [<- Hy]]. rewrite Forall_forall in IH. apply IH. assumption.
  - split.
    + cbn [view reify]. f_equal. rewrite map_map.
      induction IH as [|[k x] r [[Hk _] [Hx _]] Hr IHr]; [reflexivity|].
      simpl in *. rewrite Hk, Hx, IHr. reflexivity.
    + cbn [view wf]. rewrite forallb_forall. intros p Hp. apply in_map_iff in Hp.
      destruct Hp as [[k x] [<- Hy]]. rewrite Forall_forall in IH.
      destruct (IH _ Hy) as [[_ Hk] [_ Hx]]. simpl in *. rewrite Hk, Hx. reflexivity.
Qed.

(* the main statement over every form the reader can hand to syntaxQuote *)
Theorem syntax_quote_exact : forall rho v S,
    is_splice (view v) = false -> hshort rho (view v) = true ->
    run rho (gen_sq v) S = expected rho (view v) S.
Proof.
  intros rho v S Hs Hsh. destruct (view_reify v) as [Hr Hw].
  rewrite <- Hr at 1. apply template_subst_short; assumption.
Qed.

(* ---------------------------------------------------------------- freshness *)
(* The value model has no object identities, so "every evaluation builds new arrays, hashes and
   lists" is stated on the code: the only literals the generated code pushes are atoms and the
   empty list; every list, array and hash of the result is therefore built at run time by
   Squash / Vectorize / Hashize (or comes out of an unquoted expression). *)
Definition push_plain (i : instr) : bool :=
  match i with IPush v => plain v | _ => true end.

Lemma wrap_in : forall c i, In i (wrap c) -> In i c \/ push_plain i = true.
Proof.
  intros c i H. unfold wrap in H. destruct H as [<-|H]; [right; reflexivity|].
  apply in_app_or in H. destruct H as [H|[<-|[<-|[]]]]; auto.
Qed.

Theorem gen_pushes_only_atoms : forall t,
    wf t = true -> forall i, In i (gen_sq (reify t)) -> push_plain i = true.
Proof.
  induction t as [v|e|e|l IH|l IH|tn kv IH] using tmpl_ind'; intros Hwf i Hi.
  - destruct v as [| | | |l| |]; simpl in Hwf; try discriminate;
      try (destruct Hi as [<-|[]]; reflexivity).
    destruct l; [|discriminate]. destruct Hi as [<-|[]]; reflexivity.
  - simpl in Hi. destruct Hi as [<-|[]]; reflexivity.
  - simpl in Hi. destruct Hi as [<-|[<-|[]]]; reflexivity.
  - cbn [wf] in Hwf. apply andb_prop in Hwf. destruct Hwf as [Hu Hall].
    cbn [reify] in Hi.
    rewrite unq_form_None_gen in Hi by (destruct (unq_form (map reify l)); [discriminate|reflexivity]).
    destruct l as [|t0 l0]; [destruct Hi as [<-|[]]; reflexivity|].
    cbn [map] in Hi. change (reify t0 :: map reify l0) with (map reify (t0 :: l0)) in Hi.
    remember (t0 :: l0) as l eqn:El. clear El t0 l0.
    destruct Hi as [<-|Hi]; [reflexivity|]. apply in_app_or in Hi.
    destruct Hi as [Hi|[<-|[]]]; [|reflexivity].
    apply in_flat_map in Hi. destruct Hi as [x [Hx Hi]]. apply in_map_iff in Hx.
    destruct Hx as [t [<- Ht]]. rewrite forallb_forall in Hall. rewrite Forall_forall in IH.
    apply (IH t Ht); auto.
  - cbn [wf] in Hwf. cbn [reify gen_sq] in Hi.
    destruct Hi as [<-|Hi]; [reflexivity|]. apply in_app_or in Hi.
    destruct Hi as [Hi|[<-|[]]]; [|reflexivity].
    apply in_flat_map in Hi. destruct Hi as [x [Hx Hi]]. apply in_map_iff in Hx.
    destruct Hx as [t [<- Ht]]. rewrite forallb_forall in Hwf. rewrite Forall_forall in IH.
    apply wrap_in in Hi. destruct Hi as [Hi|Hi]; [|assumption]. apply (IH t Ht); auto.
  - cbn [wf] in Hwf. cbn [reify gen_sq] in Hi.
    destruct Hi as [<-|Hi]; [reflexivity|]. apply in_app_or in Hi.
    destruct Hi as [Hi|[<-|[]]]; [|reflexivity].
    apply in_concat in Hi. destruct Hi as [c [Hc Hi]]. apply in_rev in Hc.
    apply in_map_iff in Hc. destruct Hc as [q [<- Hq]]. apply in_map_iff in Hq.
    destruct Hq as [p [<- Hp]]. cbn [fst snd] in Hi.
    rewrite forallb_forall in Hwf. rewrite Forall_forall in IH.
    specialize (Hwf p Hp). apply andb_prop in Hwf. destruct Hwf as [Hwk Hwv].
    destruct (IH p Hp) as [IHk IHv].
    apply in_app_or in Hi. destruct Hi as [Hi|Hi]; apply wrap_in in Hi;
      destruct Hi as [Hi|Hi]; auto.
Qed.

Theorem template_fresh : forall t,
    wf t = true -> forallb push_plain (gen_sq (reify t)) = true.
Proof. intros t H. apply forallb_forall. apply gen_pushes_only_atoms. assumption. Qed.

(* ---------------------------------------------------------------- unquotes are never tail calls *)
Theorem unquotes_not_tail : forall v tail b, In b (unq_tails tail v) -> b = false.
Proof.
  induction v as [z|z|z|z|l IH|l IH|tn kv IH] using value_ind'; intros tail b Hb;
    try (simpl in Hb; contradiction).
  - cbn [unq_tails] in Hb. destruct (unq_form l).
    + destruct Hb as [<-|[]]. reflexivity.
    + apply in_flat_map in Hb. destruct Hb as [x [Hx Hb]]. rewrite Forall_forall in IH. eapply IH; eauto.
  - cbn [unq_tails] in Hb. apply in_flat_map in Hb. destruct Hb as [x [Hx Hb]].
    rewrite Forall_forall in IH. eapply IH; eauto.
  - cbn [unq_tails] in Hb. apply in_concat in Hb. destruct Hb as [c [Hc Hb]]. apply in_rev in Hc.
    apply in_map_iff in Hc. destruct Hc as [p [<- Hp]]. rewrite Forall_forall in IH.
    destruct (IH p Hp) as [IHk IHv]. apply in_app_or in Hb. destruct Hb; eauto.
Qed.

(* ---------------------------------------------------------------- the loader's comment filter *)
Theorem strip_clean : forall v, clean (strip v) = true.
Proof.
  induction v as [z|z|z|z|l IH|l IH|tn kv IH] using value_ind'; try reflexivity.
  - cbn [strip clean]. induction IH as [|x r Hx Hr IHr]; [reflexivity|].
    cbn [flat_map]. destruct (is_comment x) eqn:E; [exact IHr|].
    cbn [app forallb]. rewrite Hx, IHr.
    destruct x; try reflexivity. simpl in E. simpl. rewrite E. reflexivity.
  - cbn [strip clean]. induction IH as [|x r Hx Hr IHr]; [reflexivity|].
    cbn [flat_map]. destruct (is_comment x) eqn:E; [exact IHr|].
    cbn [app forallb]. rewrite Hx, IHr.
    destruct x; try reflexivity. simpl in E. simpl. rewrite E. reflexivity.
Qed.

Theorem strip_id : forall v, clean v = true -> strip v = v.
Proof.
  induction v as [z|z|z|z|l IH|l IH|tn kv IH] using value_ind'; intros H; try reflexivity.
  - cbn [strip]. f_equal. cbn [clean] in H.
    induction IH as [|x r Hx Hr IHr]; [reflexivity|].
    cbn [forallb] in H. apply andb_prop in H. destruct H as [H1 H2].
    apply andb_prop in H1. destruct H1 as [Hc Hcl].
    cbn [flat_map]. destruct (is_comment x); [discriminate|].
    cbn [app]. rewrite Hx by assumption. rewrite IHr by assumption. reflexivity.
  - cbn [strip]. f_equal. cbn [clean] in H.
    induction IH as [|x r Hx Hr IHr]; [reflexivity|].
    cbn [forallb] in H. apply andb_prop in H. destruct H as [H1 H2].
    apply andb_prop in H1. destruct H1 as [Hc Hcl].
    cbn [flat_map]. destruct (is_comment x); [discriminate|].
    cbn [app]. rewrite Hx by assumption. rewrite IHr by assumption. reflexivity.
Qed.

(* ---------------------------------------------------------------- the hash order defect *)
Definition refute_rho : value -> option value := fun _ => Some (VList [VInt 1; VInt 2; VInt 3]).
Definition refute_t : tmpl := THash 9 [(TLit (VSym 5), TSpl (VSym 6))].

Theorem hash_splice_refuted :
  wf refute_t = true /\ is_splice refute_t = false /\
  subst refute_rho refute_t = Ok (VHash 9 [(VSym 5, VInt 1); (VInt 2, VInt 3)]) /\
  run refute_rho (gen_sq (reify refute_t)) [] = Done [IVal (VHash 9 [(VSym 5, VInt 3); (VInt 2, VInt 1)])].
Proof. repeat split. Qed.

(* ---------------------------------------------------------------- macros *)
Section MacroProofs.
  Variable eval_in : (Z -> option macro) -> scope -> value -> option value.
  Variable gctx : Type.
  Variable generate : gctx -> value -> option (list Z).
  Variable other_call : gctx -> Z -> list value -> option (list Z).
  (* gen.Generate of a symbol is EnvToStackInstr: the lexical lookup *)
  Hypothesis eval_sym : forall mt sc s, eval_in mt sc (VSym s) = lookup s sc.

  Definition macro_rho (mt : Z -> option macro) (dup : cstate) (m : macro) (args : list value) : value -> option value :=
    eval_in mt (combine (m_params m) args ++ global_of dup).

  Theorem expansion_is_substitution : forall mt dup m args,
      length args = length (m_params m) ->
      wf (m_body m) = true -> is_splice (m_body m) = false ->
      hshort (macro_rho mt dup m args) (m_body m) = true ->
      expand_in eval_in mt dup m args =
      match subst (macro_rho mt dup m args) (m_body m) with Ok v => Some v | Err => None end.
  Proof.
    intros mt dup m args Hl Hwf Hs Hsh. unfold expand_in. rewrite Hl, Nat.eqb_refl.
    fold (macro_rho mt dup m args). rewrite template_subst_short by assumption.
    unfold expected. destruct (subst _ _); reflexivity.
  Qed.

  (* a parameter unquoted in the body stands for the UNEVALUATED argument form *)
  Theorem param_is_argument_form : forall mt dup m args p a,
      lookup p (combine (m_params m) args ++ global_of dup) = Some a ->
      elems (macro_rho mt dup m args) (TUnq (VSym p)) = Ok [a].
  Proof. intros. unfold macro_rho. simpl. rewrite eval_sym, H. reflexivity. Qed.

  Theorem macro_call_is_expansion : forall macros ctx st s args m e,
      macros s = Some m ->
      expand_in eval_in macros (duplicate st) m args = Some e ->
      gen_call eval_in gctx generate other_call macros ctx st s args = (st, generate ctx e).
  Proof. intros. unfold gen_call. rewrite H, H0. reflexivity. Qed.

  (* the code of a macro call = the code, in the SAME generator context, of the body's template
     substituted with the argument forms and the caller's CURRENT global scope *)
  Theorem macro_call_is_substitution : forall macros ctx st s args m,
      macros s = Some m ->
      length args = length (m_params m) ->
      wf (m_body m) = true -> is_splice (m_body m) = false ->
      hshort (macro_rho macros (duplicate st) m args) (m_body m) = true ->
      gen_call eval_in gctx generate other_call macros ctx st s args =
      (st, match subst (macro_rho macros (duplicate st) m args) (m_body m) with
           | Ok e => generate ctx e
           | Err => None
           end).
  Proof.
    intros macros ctx st s args m Hm Hl Hwf Hs Hsh. unfold gen_call. rewrite Hm.
    rewrite expansion_is_substitution by assumption.
    destruct (subst _ _); reflexivity.
  Qed.

  Theorem expansion_isolated : forall macros ctx st s args,
      fst (gen_call eval_in gctx generate other_call macros ctx st s args) = st.
  Proof.
    intros. unfold gen_call. destruct (macros s); [|reflexivity].
    destruct (expand_in _ _ _ _); reflexivity.
  Qed.

  Theorem expansion_sees_global_scope_only : forall macros ctx st1 st2 s args m,
      macros s = Some m -> global_of st1 = global_of st2 ->
      snd (gen_call eval_in gctx generate other_call macros ctx st1 s args) =
      snd (gen_call eval_in gctx generate other_call macros ctx st2 s args).
  Proof.
    intros. unfold gen_call. rewrite H. unfold duplicate. rewrite H0.
    destruct (expand_in _ _ _ _); reflexivity.
  Qed.
End MacroProofs.
