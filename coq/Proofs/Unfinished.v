(* needmore_iff_unfinished for ALL texts, at the level of runes: the reader against the rune scanner
   [unfinished] of Model/Reader.v (composition of Proofs/ReaderUnfinished.v and Proofs/ScanSim.v). *)
From Coq Require Import ZArith List Bool Lia.
From ZV Require Import Model.Regex Generated.LexTables Model.Lexer Model.Reader Model.TokScan
  Proofs.LexerProofs Proofs.ReaderTotal Proofs.LexerWF Proofs.LexerBC Proofs.ReaderUnfinished Proofs.ScanSim.
Import ListNotations.
Open Scope Z_scope.

Lemma text_bc_ok : forall text, bc_ok (text_tokens text) = true.
Proof. intros text. unfold text_tokens. apply lexer_bc_ok. Qed.

Lemma last_step : forall text s', lex_all init_lstate (text ++ nl) = LOk s' ->
  exists s0, lex_all init_lstate text = LOk s0 /\ lex_rune s0 10 = LOk s'.
Proof.
  intros text s' H. rewrite lex_all_app in H. destruct (lex_all init_lstate text) as [s0|s0]; [|discriminate].
  exists s0. split; [reflexivity|]. simpl in H. destruct (lex_rune s0 10); [exact H|discriminate].
Qed.

Lemma text_tokens_ok : forall text s', lex_all init_lstate (text ++ nl) = LOk s' -> text_tokens text = l_tokens s'.
Proof. intros text s' H. unfold text_tokens. rewrite H. reflexivity. Qed.

(* what the simulation gives at the end of a lexically correct text *)
Lemma end_state : forall text s', lex_all init_lstate (text ++ nl) = LOk s' ->
  in_string_or_rune s' = false ->
  exists d a p sg, trun st0 (text_tokens text) = Some (d, a, p, sg) /\
    unfinished text = match a with
                      | WFree => if d <? 0 then None else Some ((0 <? d) || p)
                      | _ => Some true
                      end.
Proof.
  intros text s' H Hlit.
  pose proof (scan_simulates_lexer _ _ H) as HR.
  destruct (last_step _ _ H) as (s0 & _ & Hnl). pose proof (nl_mode _ _ Hnl) as Hmode.
  pose proof (last_token_kept _ _ H) as Hkept.
  unfold unfinished. destruct (scan (text ++ nl)) as [[m d] p].
  destruct HR as (a & p' & sg & Htr & Hm). unfold TR in Htr. rewrite <- (text_tokens_ok _ _ H) in Htr.
  exists d, a, p', sg. split; [exact Htr|].
  unfold in_string_or_rune in Hlit.
  simpl in Hmode. destruct Hmode as [E|[E|[E|[E|[E|[]]]]]]; rewrite <- E in *; try discriminate.
  - destruct Hm as (-> & -> & Hp). rewrite (Hkept eq_refl) in Hp. subst p'. reflexivity.
  - destruct Hm as (-> & ->). reflexivity.
  - destruct Hm as (-> & -> & _). reflexivity.
Qed.

(* (A) a text the parser accepts as complete is not an unfinished prefix *)
Theorem done_not_unfinished : forall fuel text acc f s',
  lex_all init_lstate (text ++ nl) = LOk s' ->
  parse_whole true true fuel text = ODone acc f ->
  unfinished text <> Some true.
Proof.
  intros fuel text acc f s' Hl Hd. pose proof (text_bc_ok text) as Hc.
  pose proof (done_not_in_literal _ _ _ _ Hd Hc) as Hlit. rewrite Hl in Hlit. simpl in Hlit.
  destruct (end_state _ _ Hl Hlit) as (d & a & p & sg & Ht & Hu).
  pose proof (done_implies_finished _ _ _ _ _ Hd Hc Ht) as Hf. unfold tfinal in Hf.
  rewrite Hu. destruct a; try (rewrite !andb_false_r in Hf; discriminate).
  apply andb_prop in Hf. destruct Hf as [Hf Hp]. apply andb_prop in Hf. destruct Hf as [Hd0 _].
  apply Z.eqb_eq in Hd0. subst d. destruct p; [discriminate|]. simpl. discriminate.
Qed.

(* (B) a request for more input on a text that is NOT an unfinished prefix comes from the sign-symbol
   look-ahead: the last token is the symbol - or +  (every yield: n = 0 and the '{' look-ahead, n > 0) *)
Theorem more_finished_is_sign : forall fuel text acc n toks k s',
  lex_all init_lstate (text ++ nl) = LOk s' -> in_string_or_rune s' = false ->
  parse_whole true true fuel text = OSusp acc n toks k ->
  unfinished text = Some false ->
  exists d a p, trun st0 (text_tokens text) = Some (d, a, p, true).
Proof.
  intros fuel text acc n toks k s' Hl Hlit Hs Hu. pose proof (text_bc_ok text) as Hc.
  destruct (end_state _ _ Hl Hlit) as (d & a & p & sg & Ht & Hu').
  destruct (more_implies_unfinished _ _ _ _ _ _ _ Hs Hc Ht) as (_ & Hsu & _).
  rewrite Hu in Hu'. unfold sunf in Hsu.
  destruct a; try discriminate.
  destruct (d <? 0); [discriminate|]. inversion Hu' as [Hb]. symmetry in Hb. apply orb_false_elim in Hb. destruct Hb as [Hb1 Hb2].
  rewrite Hb1, Hb2 in Hsu. simpl in Hsu. subst sg. exists d, WFree, p. exact Ht.
Qed.

(* (B') the other request for more input — the text ends inside a string or char literal — is an
   unfinished prefix for the scanner too *)
Theorem more_top_unfinished : forall fuel text acc f s',
  lex_all init_lstate (text ++ nl) = LOk s' ->
  parse_whole true true fuel text = OMoreTop acc f ->
  unfinished text = Some true.
Proof.
  intros fuel text acc f s' Hl Hm. pose proof (text_bc_ok text) as Hc.
  pose proof (more_top_in_literal _ _ _ _ Hm Hc) as Hlit. rewrite Hl in Hlit. simpl in Hlit.
  pose proof (scan_simulates_lexer _ _ Hl) as HR.
  unfold unfinished. destruct (scan (text ++ nl)) as [[m d] p].
  destruct HR as (a & p' & sg & _ & HM). unfold in_string_or_rune in Hlit.
  destruct (l_state s'); try discriminate; destruct HM as (-> & _); reflexivity.
Qed.
