(* The direction "unfinished -> more input" of needmore_iff_unfinished, for ALL texts.
   As stated (unfinished text -> parse text = NeedMore) it is FALSE of the model: a hard error of the
   parser (not of the lexer) wins over the request for more input — before the open construct ("(](")
   or inside it ("(99999999999999999999", "(a \ b c").  What holds for every lexically correct text:
     unfinished text -> parse text is NeedMore or Err              (never Done, never a panic)
     a hard error is final: parse text = Err -> parse (text ++ newline ++ more) = Err for EVERY more
     hence: an unfinished text that is the beginning (up to a line end) of ANY text whose parse is
     not a hard error asks for more input.
   The finding sign-symbol-at-end does not touch this direction (there the parser asks for more input
   on a finished text).  Composition of Proofs/Unfinished.v (done_not_unfinished), Proofs/LexerWF.v
   (whole_no_crash) and Proofs/ReaderFinal.v (pieces_is_whole_all). *)
From Coq Require Import ZArith List Bool Lia.
From ZV Require Import Model.Regex Generated.LexTables Model.Lexer Model.Reader Model.TokScan
  Proofs.LexerProofs Proofs.ReaderTotal Proofs.LexerWF Proofs.ReaderUnfinished Proofs.ScanSim
  Proofs.Unfinished Proofs.ReaderFinal Proofs.ReaderFuelAdequate.
Import ListNotations.
Open Scope Z_scope.

Definition status_of (fuel : nat) (text : list Z) : status := fst (observe (parse_whole true true fuel text)).

(* ---- 1. unfinished -> NeedMore or Err (or the model's own out-of-fuel outcome) ---- *)
Theorem unfinished_more_or_err : forall fuel text s',
  lex_all init_lstate (text ++ nl) = LOk s' ->
  unfinished text = Some true ->
  status_of fuel text = StMore \/ status_of fuel text = StErr \/ status_of fuel text = StFuel.
Proof.
  intros fuel text s' Hl Hu. unfold status_of.
  pose proof (whole_no_crash true true fuel (p_init fuel) text) as Hc. fold (parse_whole true true fuel text) in Hc.
  destruct (parse_whole true true fuel text) as [acc f|acc f|acc|site| |acc n toks k] eqn:E; simpl; auto.
  - exfalso. exact (done_not_unfinished fuel text acc f s' Hl E Hu).
  - simpl in Hc. discriminate.
Qed.

(* ---- 2. a final outcome (hard error, out of fuel) of a text is the outcome of every text that
   continues it after the line end ---- *)
Lemma deliver_fin : forall c p x, fin (ps_out p) = true -> ps_out (p_deliver true c p x) = ps_out p.
Proof.
  intros c p x H. unfold p_deliver. cbn [ps_out]. destruct (ps_out p); simpl in H; try discriminate; reflexivity.
Qed.

Theorem final_outcome_persists : forall c fuel text more,
  fin (parse_whole true c fuel text) = true ->
  parse_whole true c fuel (text ++ nl ++ more) = parse_whole true c fuel text.
Proof.
  intros c fuel text more H.
  replace (text ++ nl ++ more) with (concat [text ++ nl; more]).
  2:{ cbn [concat]. rewrite app_nil_r, <- app_assoc. reflexivity. }
  rewrite <- pieces_is_whole_all.
  unfold parse_pieces. cbn [mark_last p_deliver_all].
  unfold parse_whole, parse_after in *.
  apply deliver_fin. exact H.
Qed.

Theorem error_persists : forall c fuel text more,
  fst (observe (parse_whole true c fuel text)) = StErr ->
  fst (observe (parse_whole true c fuel (text ++ nl ++ more))) = StErr.
Proof.
  intros c fuel text more H. rewrite final_outcome_persists; [exact H|].
  destruct (parse_whole true c fuel text); simpl in *; try discriminate; reflexivity.
Qed.

(* ---- 3. the unfinished beginning (up to a line end) of a text whose parse is neither a hard error
   nor out of fuel asks for more input; no fuel condition about the beginning itself ---- *)
Theorem unfinished_prefix_asks_more : forall fuel text more s',
  lex_all init_lstate (text ++ nl) = LOk s' ->
  unfinished text = Some true ->
  status_of fuel (text ++ nl ++ more) <> StErr ->
  status_of fuel (text ++ nl ++ more) <> StFuel ->
  status_of fuel text = StMore.
Proof.
  intros fuel text more s' Hl Hu Hne Hnf.
  destruct (unfinished_more_or_err fuel text s' Hl Hu) as [H|[H|H]]; [exact H| |]; exfalso.
  - apply Hne. unfold status_of in *. apply error_persists. exact H.
  - apply Hnf. unfold status_of in *. rewrite final_outcome_persists; [exact H|].
    destruct (parse_whole true true fuel text); simpl in *; try discriminate; reflexivity.
Qed.

(* the iff that remains of needmore_iff_unfinished in this direction *)
Theorem unfinished_more_iff_no_error : forall fuel text s',
  lex_all init_lstate (text ++ nl) = LOk s' ->
  unfinished text = Some true ->
  status_of fuel text <> StFuel ->
  (status_of fuel text = StMore <-> status_of fuel text <> StErr).
Proof.
  intros fuel text s' Hl Hu Hf. destruct (unfinished_more_or_err fuel text s' Hl Hu) as [H|[H|H]].
  - rewrite H. split; [discriminate|reflexivity].
  - rewrite H. split; [discriminate|intros X; exfalso; apply X; reflexivity].
  - contradiction.
Qed.

(* ---- 3b. the same without the model's out-of-fuel outcome: fuel >= 4 * (number of tokens) + 2 is
   enough (Proofs/ReaderFuelAdequate.v enough_fuel) ---- *)
Lemma status_not_fuel : forall fuel text, (4 * length (text_tokens text) + 2 <= fuel)%nat -> status_of fuel text <> StFuel.
Proof.
  intros fuel text H. unfold status_of, parse_whole. apply is_fuel_status. apply enough_fuel. exact H.
Qed.

Theorem unfinished_more_or_err_fueled : forall fuel text s',
  (4 * length (text_tokens text) + 2 <= fuel)%nat ->
  lex_all init_lstate (text ++ nl) = LOk s' ->
  unfinished text = Some true ->
  status_of fuel text = StMore \/ status_of fuel text = StErr.
Proof.
  intros fuel text s' Hf Hl Hu. destruct (unfinished_more_or_err fuel text s' Hl Hu) as [H|[H|H]]; [left; exact H|right; exact H|].
  exfalso. exact (status_not_fuel fuel text Hf H).
Qed.

Theorem unfinished_prefix_asks_more_fueled : forall fuel text more s',
  (4 * length (text_tokens (text ++ nl ++ more)) + 2 <= fuel)%nat ->
  lex_all init_lstate (text ++ nl) = LOk s' ->
  unfinished text = Some true ->
  status_of fuel (text ++ nl ++ more) <> StErr ->
  status_of fuel text = StMore.
Proof.
  intros fuel text more s' Hf Hl Hu Hne.
  exact (unfinished_prefix_asks_more fuel text more s' Hl Hu Hne (status_not_fuel fuel _ Hf)).
Qed.

Theorem unfinished_more_iff_no_error_fueled : forall fuel text s',
  (4 * length (text_tokens text) + 2 <= fuel)%nat ->
  lex_all init_lstate (text ++ nl) = LOk s' ->
  unfinished text = Some true ->
  (status_of fuel text = StMore <-> status_of fuel text <> StErr).
Proof.
  intros fuel text s' Hf Hl Hu. exact (unfinished_more_iff_no_error fuel text s' Hl Hu (status_not_fuel fuel text Hf)).
Qed.

(* ---- 4. the unconditional statement is false: witnesses.  "(](" : the hard error precedes the open
   bracket; "(99999999999999999999" and "(a \ b c" : it lies inside the open bracket ---- *)
Definition w_before : list Z := [40; 93; 40].
Definition w_inside_num : list Z := 40 :: repeat 57 20.
Definition w_inside_dot : list Z := [40; 97; 32; 92; 32; 98; 32; 99].

Theorem unfinished_needmore_refuted : exists text s',
  lex_all init_lstate (text ++ nl) = LOk s' /\ unfinished text = Some true /\ status_of 100 text = StErr.
Proof. exists w_before. eexists. vm_compute. repeat split; reflexivity. Qed.

Theorem unfinished_needmore_refuted_inside : forall text, In text [w_inside_num; w_inside_dot] ->
  lres_ok (lex_all init_lstate (text ++ nl)) = true /\ unfinished text = Some true /\ status_of 100 text = StErr.
Proof. intros text [<-|[<-|[]]]; vm_compute; repeat split; reflexivity. Qed.
