(* C04 — soundness of the certificate checker check_fn with respect to the abstract machine.

   astep  : one step of the value-free machine (any instruction, any successor, any Explode count)
   arun   : any number of steps (reflexive-transitive closure): every control path, loops included
   conc   : concretisation of a relative abstract shape
   Inv    : "the state is described by one of the abstract states annotated at its pc"
   check_sound and its corollaries are at the end. *)
From Coq Require Import List ZArith Bool Arith Lia Relations.
Require Import ZV.Model.Bytecode ZV.Model.Verifier.
Import ListNotations.

(* ---------- the abstract machine as a relation ---------- *)

Definition astep (code : list instr) (fi : finfo) (s s' : cstate) : Prop :=
  exists i ops c n ts d' k',
    nth_error code (pc s) = Some i /\ eff fi i = Some (ops, c) /\
    crun_dops n ops (data s, sc s) = Some (d', k') /\
    targets code (pc s) c = Some ts /\ In (pc s') ts /\
    data s' = d' /\ sc s' = k' /\ ad s' = ad s /\ lp s' = lp s.

Definition arun (code : list instr) (fi : finfo) : cstate -> cstate -> Prop :=
  clos_refl_trans_1n cstate (astep code fi).

(* ---------- concretisation ---------- *)

Inductive conc : list aitem -> list item -> Prop :=
| conc_nil : conc [] []
| conc_val : forall ab c, conc ab c -> conc (AVal :: ab) (Val :: c)
| conc_marker : forall ab c, conc ab c -> conc (AMarker :: ab) (Marker :: c)
| conc_mark : forall m ab c, conc ab c -> conc (AMark m :: ab) (Mark m :: c)
| conc_many0 : forall ab c, conc ab c -> conc (AMany :: ab) c
| conc_many1 : forall ab c, conc (AMany :: ab) c -> conc (AMany :: ab) (Val :: c).

Lemma conc_push : forall it ab c, conc ab c -> conc (inj it :: ab) (it :: c).
Proof. intros [| |m] ab c H; simpl; constructor; exact H. Qed.

Lemma conc_cons_inv : forall x r c, conc (x :: r) c -> is_many x = false ->
  exists it c', c = it :: c' /\ inj it = x /\ conc r c'.
Proof.
  intros x r c H Hm. inversion H; subst; simpl in Hm; try discriminate.
  - exists Val, c0. auto.
  - exists Marker, c0. auto.
  - exists (Mark m), c0. auto.
Qed.

Lemma conc_nil_inv : forall c, conc [] c -> c = [].
Proof. intros c H. inversion H. reflexivity. Qed.

Lemma conc_rep_val : forall n c, conc (rep n AVal) c -> c = rep n Val.
Proof.
  induction n as [|n IH]; intros c H; simpl in *.
  - now apply conc_nil_inv.
  - inversion H; subst. f_equal. now apply IH.
Qed.

Lemma conc_rep_val_intro : forall n, conc (rep n AVal) (rep n Val).
Proof. induction n; simpl; constructor; assumption. Qed.

Lemma conc_explode : forall n ab c, conc ab c -> conc (AMany :: ab) (rep n Val ++ c).
Proof.
  induction n as [|n IH]; intros ab c H; simpl.
  - now apply conc_many0.
  - apply conc_many1. now apply IH.
Qed.

Lemma conc_pop_marker : forall ab c, conc ab c -> forall r base, apop_marker ab = Some r ->
  exists c', cpop_marker (c ++ base) = Some (c' ++ base) /\ conc r c'.
Proof.
  induction 1 as [|ab c H IH|ab c H IH|m ab c H IH|ab c H IH|ab c H IH]; intros r base Hp; simpl in *.
  - discriminate.
  - apply IH. exact Hp.
  - inversion Hp; subst. exists c. auto.
  - discriminate.
  - apply IH. exact Hp.
  - apply IH. exact Hp.
Qed.

Lemma conc_pop_mark : forall m ab c, conc ab c -> forall r base, apop_mark m ab = Some r ->
  exists c', cpop_mark m (c ++ base) = Some (c' ++ base) /\ conc r c'.
Proof.
  intros m. induction 1 as [|ab c H IH|ab c H IH|m' ab c H IH|ab c H IH|ab c H IH]; intros r base Hp; simpl in *.
  - discriminate.
  - apply IH. exact Hp.
  - apply IH. exact Hp.
  - destruct (Nat.eqb m m').
    + inversion Hp; subst. exists c. auto.
    + apply IH. exact Hp.
  - apply IH. exact Hp.
  - apply IH. exact Hp.
Qed.

(* ---------- one micro-operation ---------- *)

Lemma arun_dop_sound : forall is_main op ab k ab' k' c base s0 n,
  arun_dop is_main op (ab, k) = Some (ab', k') -> conc ab c -> (is_main = true -> base = []) ->
  exists c', crun_dop n op (c ++ base, s0 + k) = Some (c' ++ base, s0 + k') /\ conc ab' c'.
Proof.
  intros is_main op ab k ab' k' c base s0 n Ha Hc Hb.
  destruct op; simpl in Ha.
  - (* DPush *) inversion Ha; subst. exists (it :: c). split; [reflexivity|now apply conc_push].
  - (* DPop *) destruct ab as [|x r]; [discriminate|]. destruct (is_many x) eqn:Hm; [discriminate|].
    inversion Ha; subst. destruct (conc_cons_inv _ _ _ Hc Hm) as (it & c' & -> & _ & Hc').
    exists c'. split; [reflexivity|exact Hc'].
  - (* DPopTol *) destruct ab as [|x r].
    + destruct is_main; [|discriminate]. inversion Ha; subst.
      apply conc_nil_inv in Hc. subst c. rewrite (Hb eq_refl). exists []. split; [reflexivity|constructor].
    + destruct (is_many x) eqn:Hm; [discriminate|].
      inversion Ha; subst. destruct (conc_cons_inv _ _ _ Hc Hm) as (it & c' & -> & _ & Hc').
      exists c'. split; [reflexivity|exact Hc'].
  - (* DDup *) destruct ab as [|x r]; [discriminate|]. destruct (is_many x) eqn:Hm; [discriminate|].
    inversion Ha; subst. destruct (conc_cons_inv _ _ _ Hc Hm) as (it & c' & -> & Hi & Hc').
    exists (it :: it :: c'). split; [reflexivity|]. subst x. apply conc_push. now apply conc_push.
  - (* DExplode *) inversion Ha; subst. exists (rep n Val ++ c). split.
    + simpl. now rewrite app_assoc.
    + now apply conc_explode.
  - (* DPopToMarker *) destruct (apop_marker ab) as [r|] eqn:Hp; [|discriminate]. inversion Ha; subst.
    destruct (conc_pop_marker _ _ Hc _ base Hp) as (c' & Hq & Hc'). exists c'. simpl. rewrite Hq. auto.
  - (* DPopToMark *) destruct (apop_mark m ab) as [r|] eqn:Hp; [|discriminate]. inversion Ha; subst.
    destruct (conc_pop_mark m _ _ Hc _ base Hp) as (c' & Hq & Hc'). exists c'. simpl. rewrite Hq. auto.
  - (* DScopeUp *) inversion Ha; subst. exists c. split; [|exact Hc]. simpl. now rewrite Nat.add_succ_r.
  - (* DScopeDown *) destruct k as [|j]; [discriminate|]. inversion Ha; subst. exists c. split; [|exact Hc].
    simpl. now rewrite Nat.add_succ_r.
Qed.

Lemma arun_dops_sound : forall is_main ops ab k ab' k' c base s0 n,
  arun_dops is_main ops (ab, k) = Some (ab', k') -> conc ab c -> (is_main = true -> base = []) ->
  exists c', crun_dops n ops (c ++ base, s0 + k) = Some (c' ++ base, s0 + k') /\ conc ab' c'.
Proof.
  intros is_main ops. induction ops as [|op r IH]; intros ab k ab' k' c base s0 n Ha Hc Hb; cbn [arun_dops crun_dops] in *.
  - inversion Ha; subst. exists c. auto.
  - destruct (arun_dop is_main op (ab, k)) as [[ab1 k1]|] eqn:H1; [|discriminate].
    destruct (arun_dop_sound _ _ _ _ _ _ _ _ s0 n H1 Hc Hb) as (c1 & Hr & Hc1).
    rewrite Hr. eapply IH; eauto.
Qed.

(* ---------- membership and the checker's traversal ---------- *)

Lemma aitem_eqb_eq : forall a b, aitem_eqb a b = true -> a = b.
Proof. intros [| |m|] [| |n|]; simpl; intros H; try discriminate; try reflexivity.
  apply Nat.eqb_eq in H. now subst. Qed.

Lemma aitems_eqb_eq : forall a b, aitems_eqb a b = true -> a = b.
Proof.
  induction a as [|x r IH]; intros [|y s] H; simpl in H; try discriminate; [reflexivity|].
  apply andb_prop in H as [H1 H2]. apply aitem_eqb_eq in H1. apply IH in H2. now subst.
Qed.

Lemma astate_eqb_eq : forall a b, astate_eqb a b = true -> a = b.
Proof.
  intros [a1 a2] [b1 b2] H. unfold astate_eqb in H. simpl in H.
  apply andb_prop in H as [H1 H2]. apply aitems_eqb_eq in H1. apply Nat.eqb_eq in H2. now subst.
Qed.

Lemma mem_In : forall st l, mem st l = true -> In st l.
Proof.
  intros st l H. unfold mem in H. apply existsb_exists in H as (x & Hin & He).
  apply astate_eqb_eq in He. now subst.
Qed.

Lemma check_from_nth : forall code fi is_main a rest p0 p sts st,
  check_from code fi is_main a p0 rest = true -> nth_error rest p = Some sts -> In st sts ->
  check_state code fi is_main a (p0 + p) st = true.
Proof.
  intros code fi is_main a rest. induction rest as [|x r IH]; intros p0 p sts st H Hn Hin.
  - destruct p; discriminate.
  - simpl in H. apply andb_prop in H as [H1 H2]. destruct p as [|p]; simpl in Hn.
    + inversion Hn; subst. rewrite Nat.add_0_r. rewrite forallb_forall in H1. now apply H1.
    + replace (p0 + S p) with (S p0 + p) by lia. eapply IH; eauto.
Qed.

Lemma In_nth_default : forall (a : annot) p st, In st (nth p a []) -> exists sts, nth_error a p = Some sts /\ In st sts.
Proof.
  intros a p st H. destruct (nth_error a p) as [sts|] eqn:E.
  - exists sts. split; [reflexivity|]. now rewrite (nth_error_nth a p [] E) in H.
  - apply nth_error_None in E. rewrite nth_overflow in H by exact E. destruct H.
Qed.

(* ---------- the invariant ---------- *)

Section Sound.
  Variable code : list instr.
  Variable fi : finfo.
  Variable is_main : bool.
  Variable np : nat.
  Variable a : annot.
  Hypothesis checked : check_fn code fi is_main np a = true.

  (* what lies below the function's own operands, and the depths at entry *)
  Variable base : list item.
  Variable s0 a0 l0 : nat.
  Hypothesis main_base : is_main = true -> base = [].

  Definition described (sts_ok : astate -> Prop) (s : cstate) : Prop :=
    exists ab k c, sts_ok (ab, k) /\ conc ab c /\ data s = c ++ base /\ sc s = s0 + k.

  Definition Inv (s : cstate) : Prop :=
    ad s = a0 /\ lp s = l0 /\
    if pc s <? length code then described (fun st => In st (nth (pc s) a [])) s
    else is_main = true /\ described (fun st => final_main st = true) s.

  Lemma checked_from : code <> [] -> check_from code fi is_main a 0 a = true.
  Proof.
    intros Hne. unfold check_fn in checked. destruct code; [congruence|].
    apply andb_prop in checked as [_ H]. exact H.
  Qed.

  Lemma step_preserves : forall s s', Inv s -> astep code fi s s' -> Inv s'.
  Proof.
    intros s s' (Ha & Hl & Hd) (i & ops & c & n & ts & d' & k' & Hi & He & Hr & Ht & Hin & Hd' & Hk' & Had & Hlp).
    assert (Hlt : pc s < length code) by (apply nth_error_Some; congruence).
    assert (Hne : code <> []) by (intros E; rewrite E in Hlt; simpl in Hlt; lia).
    apply Nat.ltb_lt in Hlt. rewrite Hlt in Hd. destruct Hd as (ab & k & cc & Hmem & Hc & Hdata & Hsc).
    destruct (In_nth_default _ _ _ Hmem) as (sts & Hn & Hin2).
    pose proof (check_from_nth _ _ _ _ _ 0 _ _ _ (checked_from Hne) Hn Hin2) as Hcs. simpl in Hcs.
    unfold check_state, asucc in Hcs. rewrite Hi in Hcs.
    destruct (known i); [|discriminate]. rewrite He in Hcs.
    destruct (arun_dops is_main ops (ab, k)) as [[ab' k1]|] eqn:Hab; [|discriminate].
    destruct (arun_dops_sound _ _ _ _ _ _ _ base s0 n Hab Hc main_base) as (c' & Hcr & Hc').
    rewrite Hdata, Hsc in Hr. rewrite Hcr in Hr. inversion Hr; subst d' k'. clear Hr.
    destruct (ctl_wf code (pc s) c); [|discriminate].
    assert (Hflows : forallb (fun t => flows a (length code) is_main t (ab', k1)) ts = true).
    { destruct c; try (rewrite Ht in Hcs; exact Hcs).
      (* CHalt: no successor *) simpl in Ht. inversion Ht; subst ts. destruct Hin. }
    rewrite forallb_forall in Hflows. specialize (Hflows _ Hin). unfold flows in Hflows.
    split; [congruence|]. split; [congruence|].
    destruct (pc s' <? length code) eqn:Hlt'.
    - exists ab', k1, c'. split; [now apply mem_In|]. split; [exact Hc'|]. split; congruence.
    - apply andb_prop in Hflows as [Hm Hf]. split; [exact Hm|].
      exists ab', k1, c'. split; [exact Hf|]. split; [exact Hc'|]. split; congruence.
  Qed.

  Lemma run_preserves : forall s s', arun code fi s s' -> Inv s -> Inv s'.
  Proof.
    intros s s' H. induction H as [s|s s1 s' Hs _ IH]; intros Hinv; [exact Hinv|].
    apply IH. eapply step_preserves; eauto.
  Qed.

  (* the entry state: np argument values on top of base *)
  Definition entry (s : cstate) : Prop :=
    pc s = 0 /\ data s = rep np Val ++ base /\ sc s = s0 /\ ad s = a0 /\ lp s = l0.

  Lemma entry_inv : forall s, entry s -> Inv s.
  Proof.
    intros s (Hp & Hd & Hs & Ha & Hl). split; [exact Ha|]. split; [exact Hl|].
    rewrite Hp. unfold check_fn in checked. destruct code as [|i0 r].
    - simpl. apply andb_prop in checked as [Hm Hn]. apply Nat.eqb_eq in Hn. subst np.
      split; [exact Hm|]. exists [], 0, []. simpl. split; [reflexivity|]. split; [constructor|].
      split; [simpl in Hd; exact Hd|lia].
    - apply andb_prop in checked as [Hm _]. simpl.
      exists (rep np AVal), 0, (rep np Val). split; [now apply mem_In|].
      split; [apply conc_rep_val_intro|]. split; [exact Hd|lia].
  Qed.

  (* ----- the instruction at a reachable pc never underflows and never reaches below base ----- *)
  Lemma no_underflow_at : forall s i ops c n, Inv s ->
    nth_error code (pc s) = Some i -> eff fi i = Some (ops, c) ->
    exists c' k', crun_dops n ops (data s, sc s) = Some (c' ++ base, s0 + k').
  Proof.
    intros s i ops c n (Ha & Hl & Hd) Hi He.
    assert (Hlt : pc s < length code) by (apply nth_error_Some; congruence).
    assert (Hne : code <> []) by (intros E; rewrite E in Hlt; simpl in Hlt; lia).
    apply Nat.ltb_lt in Hlt. rewrite Hlt in Hd. destruct Hd as (ab & k & cc & Hmem & Hc & Hdata & Hsc).
    destruct (In_nth_default _ _ _ Hmem) as (sts & Hn & Hin2).
    pose proof (check_from_nth _ _ _ _ _ 0 _ _ _ (checked_from Hne) Hn Hin2) as Hcs. simpl in Hcs.
    unfold check_state, asucc in Hcs. rewrite Hi in Hcs.
    destruct (known i); [|discriminate]. rewrite He in Hcs.
    destruct (arun_dops is_main ops (ab, k)) as [[ab' k1]|] eqn:Hab; [|discriminate].
    destruct (arun_dops_sound _ _ _ _ _ _ _ base s0 n Hab Hc main_base) as (c' & Hcr & _).
    exists c', k1. now rewrite Hdata, Hsc.
  Qed.

  (* ----- Return: exactly one value above base, scope depth as at entry ----- *)
  Lemma at_return : forall s, Inv s -> nth_error code (pc s) = Some IReturn ->
    data s = Val :: base /\ sc s = s0 /\ ad s = a0 /\ lp s = l0.
  Proof.
    intros s (Ha & Hl & Hd) Hi.
    assert (Hlt : pc s < length code) by (apply nth_error_Some; congruence).
    assert (Hne : code <> []) by (intros E; rewrite E in Hlt; simpl in Hlt; lia).
    apply Nat.ltb_lt in Hlt. rewrite Hlt in Hd. destruct Hd as (ab & k & cc & Hmem & Hc & Hdata & Hsc).
    destruct (In_nth_default _ _ _ Hmem) as (sts & Hn & Hin2).
    pose proof (check_from_nth _ _ _ _ _ 0 _ _ _ (checked_from Hne) Hn Hin2) as Hcs. simpl in Hcs.
    unfold check_state, asucc in Hcs. rewrite Hi in Hcs. simpl in Hcs.
    apply astate_eqb_eq in Hcs. unfold ret_state in Hcs. inversion Hcs; subst ab k.
    apply (conc_rep_val 1) in Hc. subst cc. simpl in Hdata.
    repeat split; try assumption. lia.
  Qed.

  (* ----- the end of the top-level chunk: at most one value, scope depth as at entry ----- *)
  Lemma at_end : forall s, Inv s -> length code <= pc s ->
    (data s = [Val] \/ data s = []) /\ sc s = s0 /\ ad s = a0 /\ lp s = l0.
  Proof.
    intros s (Ha & Hl & Hd) Hge. apply Nat.ltb_ge in Hge. rewrite Hge in Hd.
    destruct Hd as (Hm & ab & k & cc & Hf & Hc & Hdata & Hsc).
    rewrite (main_base Hm) in Hdata. rewrite app_nil_r in Hdata.
    unfold final_main in Hf. simpl in Hf. apply andb_prop in Hf as [Hk Hab]. apply Nat.eqb_eq in Hk. subst k.
    split; [|repeat split; try assumption; lia].
    destruct ab as [|x [|y r]]; try discriminate.
    - apply conc_nil_inv in Hc. right. congruence.
    - destruct x; try discriminate. apply (conc_rep_val 1) in Hc. subst cc. now left.
    - destruct x; discriminate.
  Qed.
End Sound.

(* ---------- the theorems ---------- *)

(* every run of verified code from function entry that reaches a Return has popped its np
   arguments and pushed exactly one value; scope, address and loop depth are those of entry *)
Theorem check_sound_lemma : forall code fi is_main np a base s0 a0 l0 s s',
  check_fn code fi is_main np a = true -> (is_main = true -> base = []) ->
  entry np base s0 a0 l0 s -> arun code fi s s' ->
  nth_error code (pc s') = Some IReturn ->
  data s' = Val :: base /\ length (data s') = length (data s) - np + 1 /\
  sc s' = sc s /\ ad s' = ad s /\ lp s' = lp s.
Proof.
  intros code fi is_main np a base s0 a0 l0 s s' Hc Hb He Hr Hret.
  pose proof (entry_inv _ _ _ _ _ Hc _ _ _ _ _ He) as Hi.
  pose proof (run_preserves _ _ _ _ _ Hc _ _ _ _ Hb _ _ Hr Hi) as Hi'.
  destruct (at_return _ _ _ _ _ Hc _ _ _ _ _ Hi' Hret) as (Hd & Hs & Ha & Hl).
  destruct He as (_ & Hd0 & Hs0 & Ha0 & Hl0).
  split; [exact Hd|]. split.
  - rewrite Hd, Hd0. simpl. rewrite app_length. assert (length (rep np Val) = np) by (clear; induction np; simpl; congruence). lia.
  - repeat split; congruence.
Qed.

(* verified code never pops below the operands it was given and never pops a scope it did not open *)
Theorem verified_no_underflow_lemma : forall code fi is_main np a base s0 a0 l0 s s' i ops c n,
  check_fn code fi is_main np a = true -> (is_main = true -> base = []) ->
  entry np base s0 a0 l0 s -> arun code fi s s' ->
  nth_error code (pc s') = Some i -> eff fi i = Some (ops, c) ->
  exists c' k', crun_dops n ops (data s', sc s') = Some (c' ++ base, s0 + k').
Proof.
  intros code fi is_main np a base s0 a0 l0 s s' i ops c n Hc Hb He Hr Hi Heff.
  pose proof (entry_inv _ _ _ _ _ Hc _ _ _ _ _ He) as Hinv.
  pose proof (run_preserves _ _ _ _ _ Hc _ _ _ _ Hb _ _ Hr Hinv) as Hinv'.
  eapply no_underflow_at; eauto.
Qed.

(* the top level: from the interpreter at rest, an evaluation of a verified chunk that runs to
   the end of the chunk leaves the interpreter at rest (after Run has popped the result) *)
Definition rest_state (p : nat) : cstate := mkc p [] 1 0 0.

Theorem toplevel_rest_lemma : forall code fi a s s',
  check_fn code fi true 0 a = true -> at_rest s = true -> pc s = 0 ->
  arun code fi s s' -> length code <= pc s' -> at_rest (run_finish s') = true.
Proof.
  intros code fi a s s' Hc Hrest Hp Hr Hend.
  unfold at_rest in Hrest. destruct (data s) eqn:Hd; [|discriminate].
  apply andb_prop in Hrest as [Hrest Hl]. apply andb_prop in Hrest as [Hs Ha].
  apply Nat.eqb_eq in Hs, Ha, Hl.
  assert (He : entry 0 [] 1 0 0 s) by (repeat split; simpl; assumption).
  pose proof (entry_inv _ _ _ _ _ Hc _ _ _ _ _ He) as Hinv.
  pose proof (run_preserves _ _ _ _ _ Hc [] 1 0 0 (fun _ => eq_refl) _ _ Hr Hinv) as Hinv'.
  destruct (at_end _ _ _ _ _ _ _ (fun _ => eq_refl) _ Hinv' Hend) as (Hd' & Hs' & Ha' & Hl').
  destruct Hd' as [Hd'|Hd'].
  - unfold run_finish. rewrite Hd'. unfold at_rest. simpl. rewrite Hs', Ha', Hl'. reflexivity.
  - unfold run_finish. rewrite Hd'. unfold at_rest. rewrite Hd'. rewrite Hs', Ha', Hl'. reflexivity.
Qed.

(* one complete top-level evaluation of a verified chunk, as a relation on states *)
Definition eval_chunk (chunk : list instr * finfo * annot) (s s2 : cstate) : Prop :=
  let '(code, fi, a) := chunk in
  check_fn code fi true 0 a = true /\
  exists s1, arun code fi (mkc 0 (data s) (sc s) (ad s) (lp s)) s1 /\ length code <= pc s1 /\ s2 = run_finish s1.

(* any history of evaluations: states linked by eval_chunk *)
Inductive history : list (list instr * finfo * annot) -> cstate -> cstate -> Prop :=
| hist_nil : forall s, history [] s s
| hist_cons : forall ch r s s1 s2, eval_chunk ch s s1 -> history r s1 s2 -> history (ch :: r) s s2.

Theorem idle_bounded_lemma : forall chunks s s', at_rest s = true -> history chunks s s' -> at_rest s' = true.
Proof.
  intros chunks s s' Hrest H. induction H as [s|[[code fi] a] r s s1 s2 He _ IH]; [exact Hrest|].
  apply IH. destruct He as (Hc & s1' & Hr & Hend & ->).
  eapply toplevel_rest_lemma with (s := mkc 0 (data s) (sc s) (ad s) (lp s)); eauto.
Qed.

(* evaluating forms one at a time or all in one text: the abstract machine reaches the same
   rest state either way (the value-free part of "one by one = together") *)
Theorem one_by_one_eq_together_lemma : forall chunks together s s1 s2,
  at_rest s = true -> history chunks s s1 -> eval_chunk together s s2 ->
  at_rest s1 = true /\ at_rest s2 = true /\
  (data s1, sc s1, ad s1, lp s1) = (data s2, sc s2, ad s2, lp s2).
Proof.
  intros chunks together s s1 s2 Hrest H1 H2.
  pose proof (idle_bounded_lemma _ _ _ Hrest H1) as R1.
  pose proof (idle_bounded_lemma [together] _ _ Hrest (hist_cons _ _ _ _ _ H2 (hist_nil _))) as R2.
  split; [exact R1|]. split; [exact R2|].
  unfold at_rest in R1, R2.
  destruct (data s1); [|discriminate]. destruct (data s2); [|discriminate].
  apply andb_prop in R1 as [R1 L1]. apply andb_prop in R1 as [S1 A1].
  apply andb_prop in R2 as [R2 L2]. apply andb_prop in R2 as [S2 A2].
  apply Nat.eqb_eq in S1, A1, L1, S2, A2, L2. congruence.
Qed.

(* self tail call: the state in which  Goto 0  re-enters the function is the entry state again *)
Theorem tail_goto_same_annot_lemma : forall code fi is_main np a base s0 a0 l0 s s',
  check_fn code fi is_main np a = true -> (is_main = true -> base = []) ->
  tail_entry_unique np a = true ->
  entry np base s0 a0 l0 s -> arun code fi s s' -> pc s' = 0 -> 0 < length code ->
  data s' = data s /\ sc s' = sc s /\ ad s' = ad s /\ lp s' = lp s.
Proof.
  intros code fi is_main np a base s0 a0 l0 s s' Hc Hb Hu He Hr Hp Hlen.
  pose proof (entry_inv _ _ _ _ _ Hc _ _ _ _ _ He) as Hi.
  pose proof (run_preserves _ _ _ _ _ Hc _ _ _ _ Hb _ _ Hr Hi) as (Ha & Hl & Hd).
  rewrite Hp in Hd. apply Nat.ltb_lt in Hlen. rewrite Hlen in Hd.
  destruct Hd as (ab & k & c & Hin & Hcc & Hdata & Hsc).
  unfold tail_entry_unique in Hu. destruct (nth 0 a []) as [|st [|st2 r]]; try discriminate.
  apply astate_eqb_eq in Hu. subst st. destruct Hin as [Hin|[]]. unfold entry_state in Hin. inversion Hin; subst ab k.
  apply conc_rep_val in Hcc. subst c.
  destruct He as (_ & Hd0 & Hs0 & Ha0 & Hl0). repeat split; try congruence. lia.
Qed.

(* an observed transition that effect_ok accepts is a step of the abstract machine *)
Theorem effect_ok_is_step_lemma : forall code fi s s', effect_ok code fi s s' = true -> astep code fi s s'.
Proof.
  intros code fi s s' H. unfold effect_ok in H.
  destruct (nth_error code (pc s)) as [i|] eqn:Hi; [|discriminate].
  destruct (eff fi i) as [[ops c]|] eqn:He; [|discriminate].
  destruct (targets code (pc s) c) as [ts|] eqn:Ht; [|discriminate].
  destruct (crun_dops _ ops (data s, sc s)) as [[d' k']|] eqn:Hr; [|discriminate].
  repeat (apply andb_prop in H as [H ?]).
  assert (Hd : d' = data s').
  { clear - H. revert H. generalize (data s'). induction d' as [|x r IH]; intros [|y l] H; simpl in H; try discriminate; [reflexivity|].
    apply andb_prop in H as [H1 H2]. f_equal; [|now apply IH].
    destruct x, y; simpl in H1; try discriminate; try reflexivity. apply Nat.eqb_eq in H1. now subst. }
  apply Nat.eqb_eq in H3, H2, H1. apply existsb_exists in H0 as (t & Hin & Hpt). apply Nat.eqb_eq in Hpt. subst t.
  exists i, ops, c, (length (data s') + 1 - length (data s)), ts, d', k'.
  repeat split; auto; congruence.
Qed.

(* ---------- calls: the atomic call summary is justified by the callee's own certificate ----------

   bigrun executes a call to a compiled function for real: the callee is entered (enter_ok: its
   arguments on top, one address pushed, pc 0), runs to a Return, and the caller continues
   behind the call with whatever the callee left.  The theorem shows, by induction on the
   execution (hence on call depth), that in a program whose functions all pass check_fn every
   such execution stays inside the invariant of the caller — i.e. a real call behaves as the
   atomic step  "arguments popped, one result pushed, other stacks unchanged"  that astep uses. *)

Record fn := mkfn { fcode : list instr; ffi : finfo; fmain : bool; fnp : nat; fannot : annot }.

Definition fn_ok (f : fn) : Prop := check_fn (fcode f) (ffi f) (fmain f) (fnp f) (fannot f) = true.

Inductive bigrun (prog : list fn) : fn -> cstate -> cstate -> Prop :=
| B_refl : forall f s, bigrun prog f s s
| B_step : forall f s s1 s2, astep (fcode f) (ffi f) s s1 -> bigrun prog f s1 s2 -> bigrun prog f s s2
| B_call : forall f g s i e r s1 s2,
    nth_error (fcode f) (pc s) = Some i -> In g prog ->
    enter_ok i (fnp g) s e = true ->
    bigrun prog g e r -> nth_error (fcode g) (pc r) = Some IReturn ->
    s1 = mkc (S (pc s)) (data r) (sc r) (pred (ad r)) (lp r) ->
    bigrun prog f s1 s2 -> bigrun prog f s s2.

Lemma items_eqb_eq : forall x y, items_eqb x y = true -> x = y.
Proof.
  induction x as [|a r IH]; intros [|b l] H; simpl in H; try discriminate; [reflexivity|].
  apply andb_prop in H as [H1 H2]. f_equal; [|now apply IH].
  destruct a, b; simpl in H1; try discriminate; try reflexivity. apply Nat.eqb_eq in H1. now subst.
Qed.

Lemma crun_pops : forall k n ops d s, n <= length d ->
  crun_dops k (pops n ++ ops) (d, s) = crun_dops k ops (skipn n d, s).
Proof.
  intros k n. induction n as [|n IH]; intros ops d s Hle; [reflexivity|].
  destruct d as [|x r]; [simpl in Hle; lia|]. simpl. apply IH. simpl in Hle. lia.
Qed.

Lemma call_is_summary : forall code fi s i m,
  nth_error code (pc s) = Some i -> call_pops i = Some m -> m <= length (data s) ->
  astep code fi s (mkc (S (pc s)) (Val :: skipn m (data s)) (sc s) (ad s) (lp s)).
Proof.
  intros code fi s i m Hi Hm Hle.
  destruct i; simpl in Hm; try discriminate; inversion Hm; subst m.
  - (* ICall *) exists (ICall nargs), (pops nargs ++ [DPush Val]), CNext, 0, [S (pc s)], (Val :: skipn nargs (data s)), (sc s).
    repeat split; auto; try (simpl; auto; fail). rewrite crun_pops by exact Hle. reflexivity.
  - (* ICallExpr *) exists (ICallExpr nargs), [DPush Val], CNext, 0, [S (pc s)], (Val :: data s), (sc s).
    repeat split; auto; simpl; auto.
  - (* IDispatch *) exists (IDispatch nargs), (pops (S nargs) ++ [DPush Val]), CNext, 0, [S (pc s)], (Val :: skipn (S nargs) (data s)), (sc s).
    repeat split; auto; try (simpl; auto; fail). rewrite crun_pops by exact Hle. reflexivity.
Qed.

Theorem calls_justified_lemma : forall prog,
  (forall g, In g prog -> fmain g = false /\ fn_ok g) ->
  forall f s s', bigrun prog f s s' -> fn_ok f ->
  forall base s0 a0 l0, (fmain f = true -> base = []) ->
  Inv (fcode f) (fmain f) (fannot f) base s0 a0 l0 s -> Inv (fcode f) (fmain f) (fannot f) base s0 a0 l0 s'.
Proof.
  intros prog Hprog f s s' H.
  induction H as [f s|f s s1 s2 Hs _ IH|f g s i e r s1 s2 Hi Hg He Hrun IHg Hret Hs1 _ IH];
    intros Hok base s0 a0 l0 Hb Hinv.
  - exact Hinv.
  - apply IH; auto. eapply step_preserves; eauto.
  - apply IH; auto.
    destruct (Hprog g Hg) as (Hgm & Hgok).
    unfold enter_ok in He. destruct (call_pops i) as [m|] eqn:Hm; [|discriminate].
    repeat (apply andb_prop in He as [He ?]).
    apply items_eqb_eq in He. apply Nat.leb_le in H3. apply Nat.eqb_eq in H2, H1, H0, H.
    (* the callee runs from its entry state over what the caller keeps *)
    assert (Hent : entry (fnp g) (skipn m (data s)) (sc e) (ad e) (lp e) e) by (repeat split; auto).
    pose proof (entry_inv _ _ _ _ _ Hgok _ _ _ _ _ Hent) as Hinv_e.
    assert (Hgb : fmain g = true -> skipn m (data s) = []) by (rewrite Hgm; discriminate).
    pose proof (IHg Hgok _ _ _ _ Hgb Hinv_e) as Hinv_r.
    destruct (at_return _ _ _ _ _ Hgok _ _ _ _ _ Hinv_r Hret) as (Hd & Hsc & Had & Hlp).
    (* so the caller continues exactly as after the atomic call step *)
    eapply step_preserves; [exact Hok|exact Hb|exact Hinv|].
    subst s1. rewrite Hd, Hsc, Had, Hlp, <- H2, <- H1, <- H0. simpl.
    eapply call_is_summary; eauto.
Qed.
