(* C01 - no input can crash the host: the theorems about the MODELLED front half (the code
   generator's argument handling, zygo/generator.go).  The runtime half of the property (Go panics,
   fatal errors, deadlock) is decided by the panic search of harness/cmd/c01, not by a theorem.

   gen_total: for every list of top-level expressions, of any shape, arity and nesting depth, and
   for every behaviour of the three oracles (what a macro run at compile time returns, what the
   infix expansion returns, what an included file contains), the model of LoadExpressions /
   Generate never reaches a panic site: every index, slice, unchecked type assertion and explicit
   panic of the 24 special forms, of Generate, GenerateCall, GenerateAssignment, GetLHS,
   getQuotedSymbol and buildSexpFun is guarded.  gen_no_latent: no generated BindlistInstr holds a
   nil symbol.  (Both were refuted on the tree before the commits ba6ac11 and 71e544b; the former
   witnesses are now the Examples ex_include_improper / ex_mdef_list_target.) *)
From Coq Require Import List.
Import ListNotations.
Require Import ZV.Model.GenShape ZV.Proofs.GenShapeProofs ZV.Model.Lexer.
Require ZV.Model.Reader ZV.Properties.C13 ZV.Proofs.ReaderFuel ZV.Proofs.LexerCount.
Require Import ZV.Model.CallCheck ZV.Proofs.CallCheckProofs.
Require Import ZV.Model.Destructure ZV.Proofs.DestructureProofs.
Require ZV.Model.PrattTypes ZV.Model.Pratt ZV.Model.PrattShape ZV.Proofs.PrattShapeProofs ZV.Proofs.PrattFuelProofs ZV.Generated.InfixTable.

Theorem gen_total : forall omacro oinfix ofile fuel xs s,
  load omacro oinfix ofile fuel xs <> RCrash s.
Proof. exact load_no_crash. Qed.
Print Assumptions gen_total.

Theorem gen_step_total : forall omacro oinfix ofile fuel md g m e s,
  run omacro oinfix ofile fuel md g m e <> RCrash s.
Proof. exact run_no_crash. Qed.
Print Assumptions gen_step_total.

Theorem gen_no_latent : forall omacro oinfix ofile fuel xs m,
  load omacro oinfix ofile fuel xs <> ROk m true.
Proof. exact load_no_latent. Qed.
Print Assumptions gen_no_latent.

(* the lexer model of C13 (Model/Lexer.v) has no crash outcome: LexNextRune returns a state or
   an error state for every rune in every state *)
Theorem lex_total : forall s r, exists s', lex_rune s r = LOk s' \/ lex_rune s r = LErr s'.
Proof. exact lex_rune_total. Qed.
Print Assumptions lex_total.

(* the reader (Model/Reader.v, proved for C13): no text, parser state or model flag reaches one of the
   panic sites of parser.go (CBlockComment, CBacktick, CIndex, CUintSlice); re-exported *)
Theorem read_total : forall strict cfix fuel p text,
  fst (ZV.Model.Reader.observe (ZV.Model.Reader.parse_after strict cfix fuel p text)) <> ZV.Model.Reader.StCrash.
Proof. exact ZV.Properties.C13.read_total. Qed.
Print Assumptions read_total.

(* the reader RETURNS (Proofs/ReaderFuel.v): read_total excludes the panic sites but leaves the model's own
   out-of-fuel outcome open.  With fuel 3 * (number of tokens + number of '{' tokens) + 2 (read_fuel; the
   tokens are those the lexer model queues for the text) the model of ParsingIter / ParseExpression /
   ParseList / ParseArray / ParseInfix / parsePrefixOperand / ParseBlockComment / the '{' look-ahead
   never runs out of fuel: on every text, in every parser state before ResetAddNewInput, for both settings
   of the two model flags, the caller of ParseTokens observes Done, NeedMore or an error.
   reader_never_out_of_fuel is the same for ANY token queue (also one the lexer cannot produce). *)
Module RF := ZV.Proofs.ReaderFuel.
Module RD := ZV.Model.Reader.

Theorem read_returns : forall strict cfix fuel p text, (RF.read_fuel p text <= fuel)%nat ->
  fst (RD.observe (RD.parse_after strict cfix fuel p text)) = RD.StDone \/
  fst (RD.observe (RD.parse_after strict cfix fuel p text)) = RD.StMore \/
  fst (RD.observe (RD.parse_after strict cfix fuel p text)) = RD.StErr.
Proof. exact RF.whole_returns. Qed.
Print Assumptions read_returns.

Theorem read_returns_pieces : forall cfix fuel pieces, (RF.read_fuel (RD.p_init 0) (concat pieces) <= fuel)%nat ->
  fst (RD.observe (RD.parse_pieces true cfix fuel pieces)) = RD.StDone \/
  fst (RD.observe (RD.parse_pieces true cfix fuel pieces)) = RD.StMore \/
  fst (RD.observe (RD.parse_pieces true cfix fuel pieces)) = RD.StErr.
Proof. exact RF.pieces_returns. Qed.
Print Assumptions read_returns_pieces.

Theorem reader_never_out_of_fuel : forall strict cfix fuel acc q, (3 * RF.wt q + 2 <= fuel)%nat ->
  RF.is_fuel (RD.ptop strict cfix fuel acc q) = false.
Proof. exact RF.ptop_no_fuel. Qed.
Print Assumptions reader_never_out_of_fuel.

Theorem read_fuel_linear : forall p text, (RF.read_fuel p text <= 6 * length (RF.read_tokens p text) + 2)%nat.
Proof. exact RF.read_fuel_le. Qed.
Print Assumptions read_fuel_linear.

(* the same with a bound in the length of the TEXT (Proofs/LexerCount.v): LexNextRune queues at most four
   tokens per rune in every lexer state, so the queue of a text of n runes (+ the final newline of WholeText)
   has at most 4n+4 tokens and fuel 24n+26 is always enough: no proviso that mentions the model's lexer *)
Module LC := ZV.Proofs.LexerCount.

Theorem lexer_tokens_per_rune : forall s r,
  (length (l_tokens (lres_state (lex_rune s r))) <= length (l_tokens s) + 4)%nat.
Proof. exact LC.lex_rune_b. Qed.
Print Assumptions lexer_tokens_per_rune.

Theorem read_tokens_linear : forall p text, (length (RF.read_tokens p text) <= 4 * length text + 4)%nat.
Proof. exact LC.read_tokens_le. Qed.
Print Assumptions read_tokens_linear.

Theorem read_returns_text : forall strict cfix fuel p text, (24 * length text + 26 <= fuel)%nat ->
  fst (RD.observe (RD.parse_after strict cfix fuel p text)) = RD.StDone \/
  fst (RD.observe (RD.parse_after strict cfix fuel p text)) = RD.StMore \/
  fst (RD.observe (RD.parse_after strict cfix fuel p text)) = RD.StErr.
Proof. exact LC.whole_returns_text. Qed.
Print Assumptions read_returns_text.

Theorem read_returns_pieces_text : forall cfix fuel pieces, (24 * length (concat pieces) + 26 <= fuel)%nat ->
  fst (RD.observe (RD.parse_pieces true cfix fuel pieces)) = RD.StDone \/
  fst (RD.observe (RD.parse_pieces true cfix fuel pieces)) = RD.StMore \/
  fst (RD.observe (RD.parse_pieces true cfix fuel pieces)) = RD.StErr.
Proof. exact LC.pieces_returns_text. Qed.
Print Assumptions read_returns_pieces_text.

(* non-vacuity: the fuel condition matters and is met by small numbers.  `(a)`: three tokens, read_fuel 11;
   the model runs out of fuel with 3 and is done with 4.  `{a:1}`: the brace counts twice, read_fuel 17. *)
Example ex_read_fuel_paren : RF.read_fuel (RD.p_init 0) RF.text_paren_a = 11%nat.
Proof. vm_compute. reflexivity. Qed.
Example ex_read_out_of_fuel : fst (RD.observe (RD.parse_whole true true 3 RF.text_paren_a)) = RD.StFuel.
Proof. vm_compute. reflexivity. Qed.
Example ex_read_done : fst (RD.observe (RD.parse_whole true true 11 RF.text_paren_a)) = RD.StDone.
Proof. vm_compute. reflexivity. Qed.
Example ex_read_fuel_hash : RF.read_fuel (RD.p_init 0) RF.text_hash_a1 = 17%nat.
Proof. vm_compute. reflexivity. Qed.
Example ex_read_more : fst (RD.observe (RD.parse_whole true true 11 RF.text_open_a)) = RD.StMore.
Proof. vm_compute. reflexivity. Qed.

(* check.go FunctionCallNameTypeCheck + the arity test of CallFunction (VM level, outside any recover):
   for every declared parameter list with distinct names and every list of evaluated actual arguments
   (keyword symbols and values in any order, repeated, unknown, too few, too many) no unfilled slot of
   finalArgs is ever dereferenced *)
Theorem call_check_total : forall ps args, NoDup (map fst ps) -> call_check ps args <> CCrashNil.
Proof. exact call_check_no_crash. Qed.
Print Assumptions call_check_total.

Example ex_call_by_name_repeated :      (* (t a:1 a:2) with parameters a b: an error *)
  call_check [(1, TInt); (2, TStr)] [ANamed 1; AVal TInt; ANamed 1; AVal TInt] = CErrCall.
Proof. vm_compute. reflexivity. Qed.
Example ex_call_by_name_ok :
  call_check [(1, TInt); (2, TStr)] [ANamed 2; AVal TStr; ANamed 1; AVal TInt] = COkCall.
Proof. vm_compute. reflexivity. Qed.

(* vm.go AssignInstr.assign (array := array, the multiple assignment) and BindlistInstr (mdef): for every
   target list and every value sequence, of any two lengths, the value sequence is never indexed past its
   end; and the assignment succeeds exactly when the counts are equal and every target is a symbol *)
Theorem assign_arrays_total : forall lhs rhs, assign_arrays lhs rhs <> DCrash.
Proof. exact assign_arrays_no_crash. Qed.
Print Assumptions assign_arrays_total.

Theorem bindlist_total : forall syms arr, bindlist syms arr <> DCrash.
Proof. exact bindlist_no_crash. Qed.
Print Assumptions bindlist_total.

Theorem assign_arrays_ok_spec : forall lhs rhs,
  (exists b, assign_arrays lhs rhs = DOk b) <-> (length rhs = length lhs /\ Forall (fun t => t <> TNotSym) lhs).
Proof. exact assign_arrays_ok_iff. Qed.
Print Assumptions assign_arrays_ok_spec.

Example ex_assign_short : assign_arrays [TSym 1; TSym 2; TSym 3] [10; 20] = DErr.     (* {a, b, c = 1, 2} *)
Proof. vm_compute. reflexivity. Qed.
Example ex_assign_ok : assign_arrays [TSym 1; TSym 2] [10; 20] = DOk [(1, 10); (2, 20)].
Proof. vm_compute. reflexivity. Qed.
Example ex_bindlist_surplus : bindlist [1; 2] [10; 20; 30] = DOk [(1, 10); (2, 20)].
Proof. vm_compute. reflexivity. Qed.

(* ---- the infix (Pratt) front end, zygo/pratt.go (Model/PrattShape.v; GenShape's infix oracle) ----
   For EVERY token list (any length, any nesting of selector arrays, well-formed or not, every fuel) the
   model of InfixExpandArray - LabeledFor, Expression with its CnodeStack, the led dispatch and its
   `default: panic`, the if / for / break / continue munchers, normalizeArraySelector, lowerGoFor,
   lowerRangeFor with header[assignPos+1] and header[assignPos+2:], parseRangeTargets, lowerRangeBinding -
   never reaches a panic site.  Stated for any operator table and guard constants satisfying two
   decidable conditions, which the table and the constants the translator reads from pratt.go satisfy. *)
Module PS := ZV.Model.PrattShape.
Module PP := ZV.Proofs.PrattShapeProofs.
Module PT := ZV.Model.PrattTypes.
Module IT := ZV.Generated.InfixTable.

Theorem pratt_total_any_table : forall E K C, PP.table_safe E K = true -> PP.guards_ok C = true ->
  forall efuel fuel ts s, PS.stmts E K C efuel fuel ts <> PS.PCrash s.
Proof. intros E K C H1 H2 efuel fuel ts s. exact (PP.stmts_no_crash E K C H1 H2 efuel fuel ts s). Qed.
Print Assumptions pratt_total_any_table.

Theorem pratt_table_conditions :
  PP.table_safe IT.infix_entries IT.infix_lbp = true /\ PP.guards_ok IT.for_consts = true.
Proof. exact (conj PP.generated_table_safe PP.generated_guards_ok). Qed.
Print Assumptions pratt_table_conditions.

Theorem pratt_total : forall efuel fuel ts s, PS.expand_gen efuel fuel ts <> PS.PCrash s.
Proof. exact PP.expand_gen_no_crash. Qed.
Print Assumptions pratt_total.

(* Pratt.Expression at every non-negative right binding power, in every parser state (remaining tokens,
   depth of CnodeStack): no panic, and the stack depth is restored when it returns a tree *)
Theorem pratt_expression_total : forall fuel rbp ts d s, BinInt.Z.le BinNums.Z0 rbp ->
  PS.expr IT.infix_entries IT.infix_lbp IT.for_consts fuel rbp ts d <> PS.PCrash s.
Proof. intros fuel rbp ts d s H. exact (PP.expr_no_crash _ _ _ PP.generated_table_safe PP.generated_guards_ok fuel rbp ts d s H). Qed.
Print Assumptions pratt_expression_total.

Theorem pratt_stack_balanced : forall fuel rbp ts d ts' d', BinInt.Z.le BinNums.Z0 rbp ->
  PS.expr IT.infix_entries IT.infix_lbp IT.for_consts fuel rbp ts d = PS.POk (ts', d') -> d' = d.
Proof. intros fuel rbp ts d ts' d' H. exact (PP.expr_stack_balanced _ _ _ PP.generated_table_safe PP.generated_guards_ok fuel rbp ts d ts' d' H). Qed.
Print Assumptions pratt_stack_balanced.

(* normalizeArraySelector on any selector array, forOpMunchRightWithLabel on any token list *)
Theorem pratt_selector_total : forall fuel t s,
  PS.norm_sel IT.infix_entries IT.infix_lbp IT.for_consts fuel t <> PS.PCrash s.
Proof. exact (PP.norm_sel_no_crash _ _ _ PP.generated_table_safe PP.generated_guards_ok). Qed.
Print Assumptions pratt_selector_total.

Theorem pratt_for_total : forall fuel ts s,
  PS.for_munch IT.infix_entries IT.infix_lbp IT.for_consts fuel ts <> PS.PCrash s.
Proof. exact (PP.for_munch_no_crash _ _ _ PP.generated_table_safe PP.generated_guards_ok). Qed.
Print Assumptions pratt_for_total.

(* termination: with fuel linear in the weight of the token list (5 * weight + 1 per statement; what the runner
   passes) the model never runs out of fuel, so for EVERY token list InfixExpandArray's model returns a number
   of statements or an error - "the call returns either a value or an error" for the infix front end *)
Module PF := ZV.Proofs.PrattFuelProofs.
Theorem pratt_returns : forall ts, PS.expand_auto ts = PS.PErr \/ exists n, PS.expand_auto ts = PS.POk n.
Proof. exact PF.expand_returns. Qed.
Print Assumptions pratt_returns.

Theorem pratt_returns_any_table : forall E K C, PP.table_safe E K = true -> PP.guards_ok C = true -> forall ts,
  PS.stmts E K C (5 * PS.pws ts + 1) (S (PS.pws ts)) ts = PS.PErr \/
  exists n, PS.stmts E K C (5 * PS.pws ts + 1) (S (PS.pws ts)) ts = PS.POk n.
Proof. exact PF.expand_any_table_returns. Qed.
Print Assumptions pratt_returns_any_table.

Theorem generate_infix_returns : forall args,
  PS.infix_form_auto false args = PS.PErr \/ exists n, PS.infix_form_auto false args = PS.POk n.
Proof. exact PF.infix_form_returns. Qed.
Print Assumptions generate_infix_returns.

Example ex_pratt_auto_fuel : PS.expand_auto PP.toks_range_and_slice = PS.POk 2.
Proof. vm_compute. reflexivity. Qed.

(* generator.go GenerateInfix = InfixArgsToArray("infix", args) + InfixExpandArray: for every argument list of
   the (infix ...) form (any number and kind of arguments) and every token content, no panic site; the
   infixExpand builder can panic only at args[0] of an empty argument list (it runs behind the recover of
   CallUserFunction: the script sees an error) *)
Theorem generate_infix_total : forall efuel fuel args s, PS.infix_form_gen false efuel fuel args <> PS.PCrash s.
Proof. exact PP.infix_form_no_crash. Qed.
Print Assumptions generate_infix_total.

Theorem infix_expand_builder_partial : forall efuel fuel args s,
  PS.infix_form_gen true efuel fuel args = PS.PCrash s -> args = nil /\ s = PS.SArgsIndex.
Proof. exact PP.infix_expand_crashes_only_without_argument. Qed.
Print Assumptions infix_expand_builder_partial.

Example ex_infix_expand_no_argument : PS.infix_form_gen true 5 5 nil = PS.PCrash PS.SArgsIndex.    (* (infixExpand) *)
Proof. vm_compute. reflexivity. Qed.
Example ex_infix_two_arguments : PS.infix_form_gen false 5 5 [PS.AOtherArg; PS.AOtherArg] = PS.POk 0.   (* (infix 1 2) is nil *)
Proof. vm_compute. reflexivity. Qed.

(* non-vacuity: the conditions matter (a table passing a negative right binding power panics in the led
   dispatch on `1 ! 2 3`), a weakened guard of lowerRangeFor panics on `for i = { }`, and ordinary
   statements parse *)
Example ex_pratt_unsafe_table :
  PS.stmts PP.bad_entries PP.bad_lbp IT.for_consts 10 10
    PP.toks_int_bang_int_int = PS.PCrash PS.SLedDispatch.
Proof. vm_compute. reflexivity. Qed.
Example ex_pratt_weak_guard :          (* for i = { }  with the guard  len(header) <= assignPos  *)
  PS.stmts IT.infix_entries IT.infix_lbp (PT.mkFor 2 true 0 1 2) 10 10 PP.toks_for_i_assign_body = PS.PCrash PS.SHeaderIndex.
Proof. vm_compute. reflexivity. Qed.
Example ex_pratt_for_malformed :       (* the same statement with the guard of the source: not a range loop, and `i =` parses *)
  PS.expand_gen 10 10 PP.toks_for_i_assign_body = PS.POk 1.
Proof. vm_compute. reflexivity. Qed.
Example ex_pratt_range_ok :            (* for k, v := range h { } ; a[1:2] = 3 *)
  PS.expand_gen 20 20 PP.toks_range_and_slice = PS.POk 2.
Proof. vm_compute. reflexivity. Qed.
Example ex_pratt_range_missing_source : (* for i := range { } *)
  PS.expand_gen 10 10 PP.toks_range_no_source = PS.PErr.
Proof. vm_compute. reflexivity. Qed.
Example ex_pratt_two_colons :          (* a[1:2:3] *)
  PS.expand_gen 10 10 PP.toks_two_colons = PS.PErr.
Proof. vm_compute. reflexivity. Qed.

(* non-vacuity: ordinary forms generate, malformed ones are errors, not crashes *)
Example ex_include_improper : load_deferred 10 [w_include] = RErr.      (* (include ([] \ 1)) *)
Proof. exact include_improper_is_error. Qed.
Example ex_mdef_list_target : load_deferred 10 [w_mdef] = RErr.         (* (mdef (a) b 1) *)
Proof. exact mdef_list_target_is_error. Qed.
Example ex_and_empty : load_deferred 10 [lst [SSym (ysym (NForm FAnd) 1)]] = RErr.
Proof. vm_compute. reflexivity. Qed.
Example ex_let_ok :
  load_deferred 10 [lst [SSym (ysym (NForm FLet) 1); SArr [SSym (ysym NOther 2); SInt]; SSym (ysym NOther 2)]] = ROk [] false.
Proof. vm_compute. reflexivity. Qed.
Example ex_for_break :
  load_deferred 20 [lst [SSym (ysym (NForm FFor) 1); SArr [SInt; SInt; SInt]; lst [SSym (ysym (NForm FBreak) 2)]]] = ROk [] false.
Proof. vm_compute. reflexivity. Qed.
Example ex_break_outside : load_deferred 10 [lst [SSym (ysym (NForm FBreak) 2)]] = RErr.
Proof. vm_compute. reflexivity. Qed.
