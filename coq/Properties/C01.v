(* C01 - no input can crash the host: the theorems about the MODELLED front half (the code
   generator's argument handling, zygo/generator.go).  The runtime half of the property (Go panics,
   fatal errors, deadlock) is decided by the panic search of harness/cmd/c01, not by a theorem.

   gen_total: for every list of top-level expressions, of any shape, arity and nesting depth, and
   for every behaviour of the three oracles (what a macro run at compile time returns, what the
   infix expansion returns, what an included file contains), the model of LoadExpressions /
   Generate never reaches a panic site: every index, slice, unchecked type assertion and explicit
   panic of the 24 special forms, of Generate, GenerateCall, GenerateAssignment, GetLHS,
   getQuotedSymbol and buildSexpFun is guarded.  gen_no_latent: no generated BindlistInstr holds a
   nil symbol.  (Both were refuted on the tree before the commits ba6ac11 and 71e544b; the former
   witnesses are now the Examples ex_include_improper / ex_mdef_list_target.) *)
From Coq Require Import List.
Import ListNotations.
Require Import ZV.Model.GenShape ZV.Proofs.GenShapeProofs ZV.Model.Lexer.
Require ZV.Model.Reader ZV.Properties.C13.
Require Import ZV.Model.CallCheck ZV.Proofs.CallCheckProofs.
Require Import ZV.Model.Destructure ZV.Proofs.DestructureProofs.

Theorem gen_total : forall omacro oinfix ofile fuel xs s,
  load omacro oinfix ofile fuel xs <> RCrash s.
Proof. exact load_no_crash. Qed.
Print Assumptions gen_total.

Theorem gen_step_total : forall omacro oinfix ofile fuel md g m e s,
  run omacro oinfix ofile fuel md g m e <> RCrash s.
Proof. exact run_no_crash. Qed.
Print Assumptions gen_step_total.

Theorem gen_no_latent : forall omacro oinfix ofile fuel xs m,
  load omacro oinfix ofile fuel xs <> ROk m true.
Proof. exact load_no_latent. Qed.
Print Assumptions gen_no_latent.

(* the lexer model of C13 (Model/Lexer.v) has no crash outcome: LexNextRune returns a state or
   an error state for every rune in every state *)
Theorem lex_total : forall s r, exists s', lex_rune s r = LOk s' \/ lex_rune s r = LErr s'.
Proof. exact lex_rune_total. Qed.
Print Assumptions lex_total.

(* the reader (Model/Reader.v, proved for C13): no text, parser state or model flag reaches one of the
   panic sites of parser.go (CBlockComment, CBacktick, CIndex, CUintSlice); re-exported *)
Theorem read_total : forall strict cfix fuel p text,
  fst (ZV.Model.Reader.observe (ZV.Model.Reader.parse_after strict cfix fuel p text)) <> ZV.Model.Reader.StCrash.
Proof. exact ZV.Properties.C13.read_total. Qed.
Print Assumptions read_total.

(* check.go FunctionCallNameTypeCheck + the arity test of CallFunction (VM level, outside any recover):
   for every declared parameter list with distinct names and every list of evaluated actual arguments
   (keyword symbols and values in any order, repeated, unknown, too few, too many) no unfilled slot of
   finalArgs is ever dereferenced *)
Theorem call_check_total : forall ps args, NoDup (map fst ps) -> call_check ps args <> CCrashNil.
Proof. exact call_check_no_crash. Qed.
Print Assumptions call_check_total.

Example ex_call_by_name_repeated :      (* (t a:1 a:2) with parameters a b: an error *)
  call_check [(1, TInt); (2, TStr)] [ANamed 1; AVal TInt; ANamed 1; AVal TInt] = CErrCall.
Proof. vm_compute. reflexivity. Qed.
Example ex_call_by_name_ok :
  call_check [(1, TInt); (2, TStr)] [ANamed 2; AVal TStr; ANamed 1; AVal TInt] = COkCall.
Proof. vm_compute. reflexivity. Qed.

(* vm.go AssignInstr.assign (array := array, the multiple assignment) and BindlistInstr (mdef): for every
   target list and every value sequence, of any two lengths, the value sequence is never indexed past its
   end; and the assignment succeeds exactly when the counts are equal and every target is a symbol *)
Theorem assign_arrays_total : forall lhs rhs, assign_arrays lhs rhs <> DCrash.
Proof. exact assign_arrays_no_crash. Qed.
Print Assumptions assign_arrays_total.

Theorem bindlist_total : forall syms arr, bindlist syms arr <> DCrash.
Proof. exact bindlist_no_crash. Qed.
Print Assumptions bindlist_total.

Theorem assign_arrays_ok_spec : forall lhs rhs,
  (exists b, assign_arrays lhs rhs = DOk b) <-> (length rhs = length lhs /\ Forall (fun t => t <> TNotSym) lhs).
Proof. exact assign_arrays_ok_iff. Qed.
Print Assumptions assign_arrays_ok_spec.

Example ex_assign_short : assign_arrays [TSym 1; TSym 2; TSym 3] [10; 20] = DErr.     (* {a, b, c = 1, 2} *)
Proof. vm_compute. reflexivity. Qed.
Example ex_assign_ok : assign_arrays [TSym 1; TSym 2] [10; 20] = DOk [(1, 10); (2, 20)].
Proof. vm_compute. reflexivity. Qed.
Example ex_bindlist_surplus : bindlist [1; 2] [10; 20; 30] = DOk [(1, 10); (2, 20)].
Proof. vm_compute. reflexivity. Qed.

(* non-vacuity: ordinary forms generate, malformed ones are errors, not crashes *)
Example ex_include_improper : load_deferred 10 [w_include] = RErr.      (* (include ([] \ 1)) *)
Proof. exact include_improper_is_error. Qed.
Example ex_mdef_list_target : load_deferred 10 [w_mdef] = RErr.         (* (mdef (a) b 1) *)
Proof. exact mdef_list_target_is_error. Qed.
Example ex_and_empty : load_deferred 10 [lst [SSym (ysym (NForm FAnd) 1)]] = RErr.
Proof. vm_compute. reflexivity. Qed.
Example ex_let_ok :
  load_deferred 10 [lst [SSym (ysym (NForm FLet) 1); SArr [SSym (ysym NOther 2); SInt]; SSym (ysym NOther 2)]] = ROk [] false.
Proof. vm_compute. reflexivity. Qed.
Example ex_for_break :
  load_deferred 20 [lst [SSym (ysym (NForm FFor) 1); SArr [SInt; SInt; SInt]; lst [SSym (ysym (NForm FBreak) 2)]]] = ROk [] false.
Proof. vm_compute. reflexivity. Qed.
Example ex_break_outside : load_deferred 10 [lst [SSym (ysym (NForm FBreak) 2)]] = RErr.
Proof. vm_compute. reflexivity. Qed.
