(* C01 - no input can crash the host: the theorems about the MODELLED front half (the code
   generator's argument handling, zygo/generator.go).  The runtime half of the property (Go panics,
   fatal errors, deadlock) is decided by the panic search of harness/cmd/c01, not by a theorem.

   Full statement aimed at:
     gen_total : forall oracles fuel xs s, load oracles fuel xs <> RCrash s
   It is FALSE of the faithful model (and of the code): gen_total_refuted.  What holds instead
   is gen_total_partial: the type assertion in GenerateInclude is the ONLY reachable panic site;
   every index, slice, type assertion and explicit panic of the other 23 special forms, of
   Generate, GenerateCall, GenerateAssignment, GetLHS, getQuotedSymbol, buildSexpFun is guarded,
   for all arities, argument shapes, nesting depths, macro expansions, infix expansions and
   included files (the three oracles are universally quantified). *)
From Coq Require Import List.
Import ListNotations.
Require Import ZV.Model.GenShape ZV.Proofs.GenShapeProofs ZV.Model.Lexer.

Theorem gen_total_partial : forall omacro oinfix ofile fuel xs s,
  load omacro oinfix ofile fuel xs = RCrash s -> s = SiteIncludeTail.
Proof. exact load_only_include_crash. Qed.
Print Assumptions gen_total_partial.

Theorem gen_step_total_partial : forall omacro oinfix ofile fuel md g m e s,
  run omacro oinfix ofile fuel md g m e = RCrash s -> s = SiteIncludeTail.
Proof. exact run_only_include_crash. Qed.
Print Assumptions gen_step_total_partial.

(* (include ([] \ 1)) : replayed on the real code by the check (panic in GenerateInclude) *)
Theorem gen_total_refuted : exists xs, load_deferred 10 xs = RCrash SiteIncludeTail.
Proof. exists [w_include]. exact include_crashes. Qed.
Print Assumptions gen_total_refuted.

(* (mdef (a) b 1) compiles, but the emitted BindlistInstr holds a nil symbol (panics when run) *)
Theorem gen_latent_refuted : exists xs, load_deferred 10 xs = ROk [] true.
Proof. exists [w_mdef]. exact mdef_latent. Qed.
Print Assumptions gen_latent_refuted.

(* the lexer model of C13 (Model/Lexer.v) has no crash outcome: LexNextRune returns a state or
   an error state for every rune in every state *)
Theorem lex_total : forall s r, exists s', lex_rune s r = LOk s' \/ lex_rune s r = LErr s'.
Proof. exact lex_rune_total. Qed.
Print Assumptions lex_total.

(* non-vacuity: ordinary forms generate, malformed ones are errors, not crashes *)
Example ex_and_empty : load_deferred 10 [lst [SSym (ysym (NForm FAnd) 1)]] = RErr.
Proof. vm_compute. reflexivity. Qed.
Example ex_let_ok :
  load_deferred 10 [lst [SSym (ysym (NForm FLet) 1); SArr [SSym (ysym NOther 2); SInt]; SSym (ysym NOther 2)]] = ROk [] false.
Proof. vm_compute. reflexivity. Qed.
Example ex_for_break :
  load_deferred 20 [lst [SSym (ysym (NForm FFor) 1); SArr [SInt; SInt; SInt]; lst [SSym (ysym (NForm FBreak) 2)]]] = ROk [] false.
Proof. vm_compute. reflexivity. Qed.
Example ex_break_outside : load_deferred 10 [lst [SSym (ysym (NForm FBreak) 2)]] = RErr.
Proof. vm_compute. reflexivity. Qed.
