(* C02: evaluation matches the reference semantics.  Statements only. *)
From Coq Require Import ZArith List.
From ZV Require Import Model.Num Model.RefSem.
Import ListNotations.
Open Scope Z_scope.

(* non-vacuity: (def x 1) ((fn [a] (+ a x)) 41)  evaluates to 42 *)
Example ex_call :
  o_res (eval_program 50 [EDef 100 (EInt 1);
                          ECall (EFn [101] None [ECall (EVar 1) [EVar 101; EVar 100]]) [EInt 41]])
  = Done (SvInt 42).
Proof. vm_compute. reflexivity. Qed.
