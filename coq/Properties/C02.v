(* C02: evaluation matches the reference semantics: values, control flow, effect order.
   Statements only; proofs in Proofs/RefSemProofs.v.  Every theorem is about the reference
   evaluator Model/RefSem.v (eval / apply / eval_program) for ALL programs, stores and fuels;
   that the real compiler + VM compute the same observables is what the correspondence run
   of checks/c02.py establishes on generated programs (see docs/C02.md).

   Compiler fragment: Model/GenF0.v is a Gallina model of generator.go + the VM step for the
   closure-free fragment F0 (literals, variables, begin, cond, and/or, def/set, let/letseq,
   newScope; a call is ONE instruction delegated to the reference call_expr, as the real
   CallExprInstr generates and runs callee and arguments when it executes).  Section 9 states
   vm_refines_ref_F0 (proved for all nestings, values and errors).  What stays outside it --
   for loops with break/continue, closures (CreateClosure, function activation), the self tail
   call, arrays -- is named vm_refines_ref_partial: validated by the correspondence run, not proved. *)
From Coq Require Import ZArith Bool List.
From ZV Require Import Model.Num Model.RefSem Model.GenF0 Proofs.RefSemProofs Proofs.GenF0Proofs.
From ZV Require Model.GenF1 Proofs.GenF1Proofs.
Import ListNotations.
Open Scope Z_scope.

(* ---- 1. the evaluator is deterministic and monotone in fuel ---- *)

Theorem eval_fuel_mono : forall n n' env e s r s',
  eval n env e s = (r, s') -> r <> Fuel -> (n <= n')%nat -> eval n' env e s = (r, s').
Proof. exact RefSemProofs.eval_fuel_mono. Qed.
Print Assumptions eval_fuel_mono.

Theorem apply_fuel_mono : forall n n' f args s r s',
  apply n f args s = (r, s') -> r <> Fuel -> (n <= n')%nat -> apply n' f args s = (r, s').
Proof. exact RefSemProofs.apply_fuel_mono. Qed.
Print Assumptions apply_fuel_mono.

Theorem eval_deterministic : forall n1 n2 env e s r1 s1 r2 s2,
  eval n1 env e s = (r1, s1) -> eval n2 env e s = (r2, s2) -> r1 <> Fuel -> r2 <> Fuel ->
  r1 = r2 /\ s1 = s2.
Proof. exact RefSemProofs.eval_deterministic. Qed.
Print Assumptions eval_deterministic.

Theorem eval_program_fuel_mono : forall n n' k forms,
  o_res (eval_program_cfg n k forms) <> Fuel -> (n <= n')%nat ->
  eval_program_cfg n' k forms = eval_program_cfg n k forms.
Proof. exact RefSemProofs.eval_program_fuel_mono. Qed.
Print Assumptions eval_program_fuel_mono.

(* ---- 2. calls: callee, then each argument exactly once left to right, then the body ---- *)

Theorem args_once_ltr : forall n env f args s fv s1 vs s2 r s3,
  (match f with EVar _ => true | _ => cc [] f end) = true ->
  eval n env f s = (Done fv, s1) -> is_fn fv = true ->
  run_args (eval n) env args s1 vs s2 ->
  apply n fv vs s2 = (r, s3) ->
  eval (S n) env (ECall f args) s = (r, s3) /\
  exists tc ta tb, trace s1 = tc ++ trace s /\ trace s2 = ta ++ tc ++ trace s /\
                   trace s3 = tb ++ ta ++ tc ++ trace s.
Proof. exact RefSemProofs.args_once_ltr. Qed.
Print Assumptions args_once_ltr.

(* run_args (one evaluation per argument, in order, threading the store) is exactly what
   the evaluator does with an argument list *)
Theorem ev_args_iff_run_args : forall ev env es s vs s',
  ev_args ev env es s = (Done vs, s') <-> run_args ev env es s vs s'.
Proof. exact RefSemProofs.ev_args_iff_run_args. Qed.
Print Assumptions ev_args_iff_run_args.

Theorem ev_args_stops : forall ev env es1 e r s vs1 s1 g s2,
  ev_args ev env es1 s = (Done vs1, s1) -> cc [] e = true -> ev env e s1 = (Sig g, s2) ->
  ev_args ev env (es1 ++ e :: r) s = (Sig g, s2).
Proof. exact RefSemProofs.ev_args_stops. Qed.
Print Assumptions ev_args_stops.

Theorem call_callee_fails : forall n env f args s g s1,
  (match f with EVar _ => true | _ => cc [] f end) = true ->
  eval n env f s = (Sig g, s1) -> eval (S n) env (ECall f args) s = (Sig g, s1).
Proof. exact RefSemProofs.call_callee_fails. Qed.
Print Assumptions call_callee_fails.

(* ---- 3. cond / and / or evaluate only the arms they must ---- *)

Theorem cond_evaluates_only_needed : forall ev env c b r d r' d' s v s1,
  ev env c s = (Done v, s1) -> truthy v = true ->
  ev_cond ev env ((c, b) :: r) d s = ev_cond ev env ((c, b) :: r') d' s.
Proof. exact RefSemProofs.cond_only_needed. Qed.
Print Assumptions cond_evaluates_only_needed.

Theorem cond_first_true : forall ev env c b r d s v s1,
  ev env c s = (Done v, s1) -> truthy v = true ->
  ev_cond ev env ((c, b) :: r) d s = ev env b s1.
Proof. exact RefSemProofs.cond_first_true. Qed.
Print Assumptions cond_first_true.

Theorem cond_first_false : forall ev env c b r d s v s1,
  ev env c s = (Done v, s1) -> truthy v = false ->
  ev_cond ev env ((c, b) :: r) d s = ev_cond ev env r d s1.
Proof. exact RefSemProofs.cond_first_false. Qed.
Print Assumptions cond_first_false.

Theorem and_short_circuit : forall ev env e r r' s v s1,
  r <> [] -> r' <> [] -> ev env e s = (Done v, s1) -> truthy v = false ->
  ev_and ev env (e :: r) s = (Done v, s1) /\ ev_and ev env (e :: r') s = (Done v, s1).
Proof. exact RefSemProofs.and_short_circuit. Qed.
Print Assumptions and_short_circuit.

Theorem or_short_circuit : forall ev env e r r' s v s1,
  r <> [] -> r' <> [] -> ev env e s = (Done v, s1) -> truthy v = true ->
  ev_or ev env (e :: r) s = (Done v, s1) /\ ev_or ev env (e :: r') s = (Done v, s1).
Proof. exact RefSemProofs.or_short_circuit. Qed.
Print Assumptions or_short_circuit.

Theorem and_continue : forall ev env e a r s v s1,
  ev env e s = (Done v, s1) -> truthy v = true ->
  ev_and ev env (e :: a :: r) s = ev_and ev env (a :: r) s1.
Proof. exact RefSemProofs.and_continue. Qed.
Print Assumptions and_continue.

Theorem or_continue : forall ev env e a r s v s1,
  ev env e s = (Done v, s1) -> truthy v = false ->
  ev_or ev env (e :: a :: r) s = ev_or ev env (a :: r) s1.
Proof. exact RefSemProofs.or_continue. Qed.
Print Assumptions or_continue.

(* the value of and/or is the value of the last operand evaluated *)
Theorem and_last : forall ev env e s, ev_and ev env [e] s = ev env e s.
Proof. exact RefSemProofs.and_last. Qed.
Theorem or_last : forall ev env e s, ev_or ev env [e] s = ev env e s.
Proof. exact RefSemProofs.or_last. Qed.

(* ---- 4. begin ---- *)

Theorem begin_value_is_last : forall ev env es e s vs s1,
  run_all ev env es s vs s1 -> ev_begin ev env (es ++ [e]) s = ev env e s1.
Proof. exact RefSemProofs.begin_value_is_last. Qed.
Print Assumptions begin_value_is_last.

Theorem begin_stops_at_first_failure : forall ev env es e r s vs s1 g s2,
  run_all ev env es s vs s1 -> ev env e s1 = (Sig g, s2) -> r <> [] ->
  ev_begin ev env (es ++ e :: r) s = (Sig g, s2).
Proof. exact RefSemProofs.begin_stops_at_first_failure. Qed.
Print Assumptions begin_stops_at_first_failure.

(* ---- 5. break / continue leave exactly the loops up to the one they address ---- *)

Theorem break_ends_addressed_loop : forall ev k env lbl test step body s t s1 l s2,
  ev env test s = (Done t, s1) -> truthy t = true ->
  ev_begin ev env body s1 = (Sig (SBreak l), s2) -> hits l lbl = true ->
  for_loop ev (S k) env lbl test step body s = (Done VNil, s2).
Proof. exact RefSemProofs.for_loop_break_hits. Qed.
Print Assumptions break_ends_addressed_loop.

Theorem break_passes_other_loop : forall ev k env lbl test step body s t s1 l s2,
  ev env test s = (Done t, s1) -> truthy t = true ->
  ev_begin ev env body s1 = (Sig (SBreak l), s2) -> hits l lbl = false ->
  for_loop ev (S k) env lbl test step body s = (Sig (SBreak l), s2).
Proof. exact RefSemProofs.for_loop_break_passes. Qed.
Print Assumptions break_passes_other_loop.

Theorem continue_resumes_addressed_loop : forall ev k env lbl test step body s t s1 l s2,
  ev env test s = (Done t, s1) -> truthy t = true ->
  ev_begin ev env body s1 = (Sig (SCont l), s2) -> hits l lbl = true ->
  for_loop ev (S k) env lbl test step body s =
  (_ <- no_loop_sig EUnspec (ev env step) ;; for_loop ev k env lbl test step body) s2.
Proof. exact RefSemProofs.for_loop_continue_hits. Qed.
Print Assumptions continue_resumes_addressed_loop.

Theorem continue_passes_other_loop : forall ev k env lbl test step body s t s1 l s2,
  ev env test s = (Done t, s1) -> truthy t = true ->
  ev_begin ev env body s1 = (Sig (SCont l), s2) -> hits l lbl = false ->
  for_loop ev (S k) env lbl test step body s = (Sig (SCont l), s2).
Proof. exact RefSemProofs.for_loop_continue_passes. Qed.
Print Assumptions continue_passes_other_loop.

Theorem break_label_addresses : forall x mine, hits (Some x) mine = true <-> mine = Some x.
Proof. exact RefSemProofs.hits_labelled. Qed.
Theorem break_plain_addresses_innermost : forall mine, hits None mine = true.
Proof. exact RefSemProofs.hits_unlabelled. Qed.

(* a break/continue never leaves a function activation: `apply` wraps the body in no_loop_sig *)
Theorem break_never_crosses_activation : forall A e (m : M A) s r s1, no_loop_sig e m s = (r, s1) ->
  (forall l, r <> Sig (SBreak l)) /\ (forall l, r <> Sig (SCont l)).
Proof. exact RefSemProofs.no_loop_sig_spec. Qed.
Print Assumptions break_never_crosses_activation.

(* a break/continue that escapes an expression accepted by the compile check addresses one of the
   loops around it in its compile unit; nothing escapes a top-level form or a call argument *)
Theorem escaping_signal_addresses_enclosing_loop : forall n loops env e s r s',
  cc loops e = true -> eval n env e s = (r, s') ->
  match r with
  | Sig (SBreak l) | Sig (SCont l) => loop_ok l loops = true
  | _ => True
  end.
Proof. exact RefSemProofs.escaping_signal_addresses_enclosing_loop. Qed.
Print Assumptions escaping_signal_addresses_enclosing_loop.

Theorem toplevel_has_no_stray_signal : forall n env e s r s',
  cc [] e = true -> eval n env e s = (r, s') ->
  (forall l, r <> Sig (SBreak l)) /\ (forall l, r <> Sig (SCont l)).
Proof. exact RefSemProofs.toplevel_has_no_stray_signal. Qed.
Print Assumptions toplevel_has_no_stray_signal.

(* ---- 6. integer arithmetic wraps modulo 2^64 (range and congruence from C07's NumProofs) ---- *)

Theorem add_wraps : forall ap a b s,
  prim_apply ap PAdd [VInt a; VInt b] s = (Done (VInt (wrap64 (a + b))), s) /\
  in_i64 (wrap64 (a + b)) = true /\ (wrap64 (a + b) - (a + b)) mod two64 = 0.
Proof. exact RefSemProofs.add_wraps_ref. Qed.
Print Assumptions add_wraps.

Theorem sub_wraps : forall ap a b s,
  prim_apply ap PSub [VInt a; VInt b] s = (Done (VInt (wrap64 (a - b))), s) /\
  in_i64 (wrap64 (a - b)) = true /\ (wrap64 (a - b) - (a - b)) mod two64 = 0.
Proof. exact RefSemProofs.sub_wraps_ref. Qed.
Print Assumptions sub_wraps.

Theorem mul_wraps : forall ap a b s,
  prim_apply ap PMul [VInt a; VInt b] s = (Done (VInt (wrap64 (a * b))), s) /\
  in_i64 (wrap64 (a * b)) = true /\ (wrap64 (a * b) - (a * b)) mod two64 = 0.
Proof. exact RefSemProofs.mul_wraps_ref. Qed.
Print Assumptions mul_wraps.

(* ---- 7. the store only grows: the trace is extended, never rewritten ---- *)

Theorem eval_extends_store : forall n env e s r s', eval n env e s = (r, s') -> ext s s'.
Proof. exact RefSemProofs.eval_extends_store. Qed.
Print Assumptions eval_extends_store.

(* ---- 8. the generated code of the fragment F0 refines the reference evaluator ---- *)

(* whole expression: if the reference evaluator finishes on an F0 expression, the VM run on the
   code the generator emits for it finishes (given enough steps) with the same value on top of
   the stack or the same error signal, and the same store (hence the same trace) *)
Theorem vm_refines_ref_F0 : forall n e env s r s',
  f0 e = true -> eval n env e s = (r, s') -> r <> Fuel ->
  exists k, run n (gen e) k (mkVm 0 [] env s) = (r, s').
Proof. exact GenF0Proofs.vm_refines_ref_F0. Qed.
Print Assumptions vm_refines_ref_F0.

(* in any code context: the code of e placed at pc p, run with any stack below it, ends at
   p + |gen e| with exactly one more value (the jump offsets of every nested cond/and/or are
   right for sub-forms of any length; begin pops all but the last value) *)
Theorem gen_in_context : forall n code m, (m <= n)%nat ->
  forall e, f0 e = true -> forall p stk0 env s r s',
    code_at code p (gen e) -> eval m env e s = (r, s') ->
    sim n code p (p + length (gen e)) stk0 env s r s'.
Proof. exact GenF0Proofs.gen_sim. Qed.
Print Assumptions gen_in_context.

(* the compositional layout lemmas it rests on (IHexpr = "every F0 expression is simulated") *)
Theorem cond_layout : forall n code m, IHexpr n code m ->
  forall arms d, forallb (fun cb => f0 (fst cb) && f0 (snd cb)) arms = true -> f0 d = true ->
  forall p stk0 env s r s', code_at code p (gen_cond gen arms (gen d)) ->
  ev_cond (eval m) env arms d s = (r, s') ->
  sim n code p (p + length (gen_cond gen arms (gen d))) stk0 env s r s'.
Proof. exact GenF0Proofs.sim_cond. Qed.
Print Assumptions cond_layout.

Theorem shortcircuit_layout : forall n code m, IHexpr n code m ->
  forall (or : bool) es, es <> [] -> forallb f0 es = true ->
  forall p stk0 env s r s', code_at code p (gen_sc gen or es) ->
  (if or then ev_or (eval m) env es s else ev_and (eval m) env es s) = (r, s') ->
  sim n code p (p + length (gen_sc gen or es)) stk0 env s r s'.
Proof. exact GenF0Proofs.sim_sc. Qed.
Print Assumptions shortcircuit_layout.

Theorem begin_pops : forall n code m, IHexpr n code m ->
  forall es, es <> [] -> forallb (fun x => f0 x && has_code x) es = true ->
  forall p stk0 env s r s', code_at code p (gen_begin gen es) ->
  ev_begin (eval m) env es s = (r, s') ->
  sim n code p (p + length (gen_begin gen es)) stk0 env s r s'.
Proof. exact GenF0Proofs.sim_begin. Qed.
Print Assumptions begin_pops.

(* ---- 8b. fragment F1 = F0 + for loops with plain / labelled break / continue ----
   Model/GenF1.v mirrors generator.go:GenerateForLoop / GenerateBreak / GenerateContinue and the
   LoopStart / Label / PushStackmark / PopUntilStackmark / ClearStackmark / Break / Continue
   instructions of vm.go (loop record offsets, scopesToPop, environment.go:FindLoop). *)

(* if the reference evaluator finishes on an F1 expression whose break/continue all find their loop
   (cc []), the VM on the generated code finishes with the same value or error and the same store *)
Theorem vm_refines_ref_F1 : forall n e env s r s',
  GenF1.f1 e = true -> cc [] e = true -> eval n env e s = (r, s') -> r <> Fuel ->
  exists k, GenF1.run n (GenF1.gen GenF1.top 0 e) k (GenF1.mkVm 0 [] env s) = (r, s').
Proof. exact GenF1Proofs.vm_refines_ref_F1_closed. Qed.
Print Assumptions vm_refines_ref_F1.

(* in any code context and inside any enclosing loops L of the compile unit (IHexpr unfolded):
   a value ends at p + |code|; an error aborts; a break / continue lands on the exit / increment
   position of the innermost loop it addresses, with that loop's scope chain restored (scopesToPop)
   and only junk above that loop's stack mark *)
Theorem gen_in_context_F1 : forall n code, GenF1Proofs.loops_unique code -> forall m, (m <= n)%nat ->
  forall e, GenF1.f1 e = true -> forall c nid L p stk0 env s r s',
    GenF1.c_loops c = map GenF1Proofs.cl_of L ->
    Forall (fun l => (GenF1Proofs.rl_id l < nid)%nat) L ->
    GenF1Proofs.inv code L (GenF1.c_scopes c) env stk0 ->
    GenF1Proofs.code_at code p (GenF1.gen c nid e) -> eval m env e s = (r, s') ->
    GenF1Proofs.sim n code L p (p + length (GenF1.gen c nid e)) stk0 env s r s'.
Proof. exact GenF1Proofs.gen_sim. Qed.
Print Assumptions gen_in_context_F1.

(* the loop numbers the generator hands out are pairwise distinct, so FindLoop finds the right LoopStart *)
Theorem gen_loop_numbers_unique : forall c n e,
  GenF1Proofs.nodupb (GenF1Proofs.ls_ids (GenF1.gen c n e)) = true.
Proof. exact GenF1Proofs.gen_loop_numbers_unique. Qed.
Print Assumptions gen_loop_numbers_unique.

(* ---- 8c. F2 (partial): the code of a function body (generator.go:buildSexpFun) ----
   proved: AddFuncScope, PopStackPutEnv of the formals last to first, the F1 body, RemoveScope, Return,
   started with the arguments on the data stack and the closure's static chain, returns what `apply`
   of the closure returns (for bodies without a self tail call and functions without `& rest`).
   NOT proved (the rest of vm_refines_ref_F2): the self tail call RemoveScope x (scopes+1); PrepareCall;
   Goto 0 (it equals the reference call only while the function's name still resolves to the running
   closure: the tco-by-name finding is exactly the failure of that side condition), calls executed
   by one VM with an address stack instead of being delegated, closures created inside the body,
   variadic functions. *)
Theorem vm_refines_ref_F2_partial : forall n nm ps body cenv args s r s',
  forallb GenF1.f1 body = true -> GenF1.init_ne body = true -> forallb (cc []) body = true ->
  length args = length ps ->
  apply (S n) (VClos nm ps None body cenv) args s = (r, s') -> r <> Fuel ->
  exists k, GenF1.run n (GenF1.fun_code ps body) k
                      (GenF1.mkVm 0 (map GenF1.SV (rev args)) cenv s) = (r, s').
Proof. exact GenF1Proofs.vm_refines_ref_F2_partial. Qed.
Print Assumptions vm_refines_ref_F2_partial.

(* ---- 9. non-vacuity ---- *)

(* ---- values that flow through tests, concat and apply (round 4) ---- *)

(* every float is true, 0.0 included: cond / and / or / not / the test of a for loop all go through truthy *)
Theorem float_is_true : forall m e, truthy (VFlt m e) = true.
Proof. exact RefSemProofs.float_is_true_ref. Qed.

(* concat of two or more lists is the list of all elements in order; lists are values, so no argument
   changes and the store is untouched *)
Theorem concat_lists_is_append : forall ap v l l2 ls s,
  prim_apply ap PConcat (list_val (v :: l) :: list_val l2 :: map list_val ls) s
  = (Done (list_val ((v :: l) ++ l2 ++ concat ls)), s).
Proof. exact RefSemProofs.concat_lists_ref. Qed.
Print Assumptions concat_lists_is_append.

(* apply hands the elements of its second argument to the function as they are (not evaluated again;
   an array among them is the same array) *)
Theorem apply_passes_values : forall ap f a o s, is_fn f = true -> nth_error (arrays s) a = Some o ->
  prim_apply ap PApply [f; VArr a] s = ap f (a_elems o) s.
Proof. exact RefSemProofs.apply_passes_values_ref. Qed.
Theorem apply_passes_list : forall ap f v l s, is_fn f = true ->
  prim_apply ap PApply [f; list_val (v :: l)] s = ap f (v :: l) s.
Proof. exact RefSemProofs.apply_passes_list_ref. Qed.

(* integer division (round 5): exact -> integer, inexact -> the float64 quotient fdiv_z (integer arithmetic only) *)
Theorem div_int_or_float : forall ap a b s, (b =? 0) = false ->
  prim_apply ap PDiv [VInt a; VInt b] s =
  if Z.rem a b =? 0 then (Done (VInt (wrap64 (Z.quot a b))), s)
  else match flt_of_f64 (fdiv_z a b) with
       | Some me => (Done (VFlt (fst me) (snd me)), s)
       | None => (Sig (SErr EUnspec), s)
       end.
Proof. exact RefSemProofs.div_ref. Qed.
Theorem div_exact : forall ap a b s, (b =? 0) = false -> Z.rem a b = 0 ->
  prim_apply ap PDiv [VInt a; VInt b] s = (Done (VInt (wrap64 (Z.quot a b))), s).
Proof. exact RefSemProofs.div_exact_ref. Qed.
Theorem div_inexact_not_int : forall ap a b s z, (b =? 0) = false -> Z.rem a b <> 0 ->
  fst (prim_apply ap PDiv [VInt a; VInt b] s) <> Done (VInt z).
Proof. exact RefSemProofs.div_inexact_not_int_ref. Qed.
Print Assumptions div_inexact_not_int.

(* fdiv_z against C07's Flocq model Num (float64(a) / float64(b) with IEEE rounding) on operands around the
   53- and 63-bit boundaries: the only statement of this file that mentions the real-number axioms of Flocq *)
Definition f64_dyadic (f : Num.f64) : option (Z * Z) :=
  match f with
  | Flocq.IEEE754.Binary.B754_zero _ _ false => Some (0, 0)
  | Flocq.IEEE754.Binary.B754_finite _ _ sg m e _ => Some (norm2 80 (if sg then Z.neg m else Z.pos m) e)
  | _ => None
  end.
Example ex_fdiv_z_is_ieee :
  forallb (fun ab => match f64_dyadic (Num.fdiv (Num.of_Z (fst ab)) (Num.of_Z (snd ab))) with
                     | Some (m, e) => (m =? fst (fdiv_z (fst ab) (snd ab))) && (e =? snd (fdiv_z (fst ab) (snd ab)))
                     | None => false
                     end)
    [(9223372036854775807, 2); (9223372036854775807, 3); (9007199254740993, 2); (9007199254740995, 2);
     (-9223372036854775807, 7); (7, 2); (1, 3); (-1, 3); (10, -4); (4611686018427387905, 3);
     (9223372036854775806, 9223372036854775807); (3, 9223372036854775807); (1099511627777, 2147483648);
     (9007199254740991, 4); (18014398509481985, 2); (-9223372036854775808, 3); (5, 9007199254740993)] = true.
Proof. vm_compute. reflexivity. Qed.

(* characters appended to strings as UTF-8 *)
Theorem concat_str_chr : forall ap s0 c t s,
  prim_apply ap PConcat [VStr s0; VChr c; VStr t] s = (Done (VStr ((s0 ++ utf8 c) ++ t)), s) /\
  prim_apply ap PAppend [VStr s0; VChr c] s = (Done (VStr (s0 ++ utf8 c)), s).
Proof. exact RefSemProofs.concat_str_chr_ref. Qed.

(* (/ 9223372036854775807 2) is the float 2^62; (/ 7 2) = 3.5 = 7 * 2^-1; (/ 6 3) = 2 *)
Example ex_div :
  o_res (eval_program 50 [ECall (EVar 14) [ECall (EVar 25) [EInt 9223372036854775807; EInt 2];
                                          ECall (EVar 25) [EInt 7; EInt 2]; ECall (EVar 25) [EInt 6; EInt 3]]])
  = Done (SvPair (SvFlt 1 62) (SvPair (SvFlt 7 (-1)) (SvPair (SvInt 2) SvNil))).
Proof. vm_compute. reflexivity. Qed.

(* (concat "ab" 'e-acute' 'U+1F600') = "ab" ++ C3 A9 ++ F0 9F 98 80 *)
Example ex_concat_chars :
  o_res (eval_program 50 [ECall (EVar 24) [EStr [97; 98]; EQuote (DChr 233); EQuote (DChr 128512)]])
  = Done (SvStr [97; 98; 195; 169; 240; 159; 152; 128]).
Proof. vm_compute. reflexivity. Qed.

(* (list (and 0.0 7) (or 0.0 7) (not 0.0) (cond 0.0 1 2)) = (7 0.0 false 1) *)
Example ex_float_zero_true :
  o_res (eval_program 50 [ECall (EVar 14) [EAnd [EQuote (DFlt 0); EInt 7]; EOr [EQuote (DFlt 0); EInt 7];
                                          ECall (EVar 10) [EQuote (DFlt 0)];
                                          ECond [(EQuote (DFlt 0), EInt 1)] (EInt 2)]])
  = Done (SvPair (SvInt 7) (SvPair (SvFlt 0 0) (SvPair (SvBool false) (SvPair (SvInt 1) SvNil)))).
Proof. vm_compute. reflexivity. Qed.

(* (def b (quote (3 4))) (concat (quote (1 2)) b (quote (5))) b  leaves b = (3 4) *)
Example ex_concat_keeps_arguments :
  o_res (eval_program 50 [EDef 100 (EQuote (DList [DInt 3; DInt 4]));
                          ECall (EVar 24) [EQuote (DList [DInt 1; DInt 2]); EVar 100; EQuote (DList [DInt 5])];
                          EVar 100])
  = Done (SvPair (SvInt 3) (SvPair (SvInt 4) SvNil)).
Proof. vm_compute. reflexivity. Qed.

(* (def a [1 2]) (apply aset [a 0 9]) a  = [9 2]: the callee gets the array itself *)
Example ex_apply_identity :
  o_res (eval_program 50 [EDef 100 (EArr [EInt 1; EInt 2]);
                          ECall (EVar 21) [EVar 17; EArr [EVar 100; EInt 0; EInt 9]];
                          EVar 100])
  = Done (SvArr [SvInt 9; SvInt 2]).
Proof. vm_compute. reflexivity. Qed.

(* (for la: [(def i 0) (< i 3) (set i (+ i 1))] (for [(def j 0) (< j 3) (set j (+ j 1))]
      (trace j) (cond (== j 1) (break la:) nil)))  is in F1 and the VM run gives nil with trace 0 1 *)
Example ex_f1_runs :
  let e := EFor (Some 500) (EDef 200 (EInt 0)) (ECall (EVar 4) [EVar 200; EInt 3])
                (ESet 200 (ECall (EVar 1) [EVar 200; EInt 1]))
             [EFor None (EDef 201 (EInt 0)) (ECall (EVar 4) [EVar 201; EInt 3])
                   (ESet 201 (ECall (EVar 1) [EVar 201; EInt 1]))
                [ECall (EVar 22) [EVar 201];
                 ECond [(ECall (EVar 8) [EVar 201; EInt 1], EBreak (Some 500))] ENil]] in
  GenF1.f1 e = true /\ cc [] e = true /\
  (let '(r, s) := GenF1.run 50 (GenF1.gen GenF1.top 0 e) 400 (GenF1.mkVm 0 [] [0%nat] (init_store 0)) in
   (r, rev (trace s))) = (Done VNil, [[SvInt 0]; [SvInt 1]]).
Proof. vm_compute. auto. Qed.


(* the listing of (cond false 1 (and 2 nil 3)): brn 3 jumps over [push 1; jump], the jump over the rest *)
Example ex_gen_listing :
  gen (ECond [(EBool false, EInt 1)] (EAnd [EInt 2; ENil; EInt 3])) =
  [IPush (EBool false); IBranch false 3; IPush (EInt 1); IJump 10;
   IPush (EInt 2); IDup; IBranch false 7; IPop; IPush ENil; IDup; IBranch false 3; IPop; IPush (EInt 3)].
Proof. vm_compute. reflexivity. Qed.

Example ex_gen_runs :
  fst (run 10 (gen (ECond [(EBool false, EInt 1)] (EAnd [EInt 2; ENil; EInt 3]))) 50 (mkVm 0 [] [0%nat] (init_store 0)))
  = Done VNil.
Proof. vm_compute. reflexivity. Qed.


(* (def x 1) ((fn [a] (+ a x)) 41) = 42 *)
Example ex_call :
  o_res (eval_program 50 [EDef 100 (EInt 1);
                          ECall (EFn [101] None [ECall (EVar 1) [EVar 101; EVar 100]]) [EInt 41]])
  = Done (SvInt 42).
Proof. vm_compute. reflexivity. Qed.

(* ((begin (trace 0) list) (trace 1) (trace 2)): callee first, then the arguments in order *)
Example ex_order :
  o_trace (eval_program 50 [ECall (EBegin [ECall (EVar 22) [EInt 0]; EVar 14])
                                  [ECall (EVar 22) [EInt 1]; ECall (EVar 22) [EInt 2]]])
  = [[SvInt 0]; [SvInt 1]; [SvInt 2]].
Proof. vm_compute. reflexivity. Qed.

(* (for la: [(def i 0) (< i 3) (set i (+ i 1))] (for [(def j 0) (< j 3) (set j (+ j 1))]
      (trace j) (cond (== j 1) (break la:) nil)))  traces 0 1 and leaves both loops *)
Example ex_labelled_break :
  eval_program 100
    [EFor (Some 500) (EDef 200 (EInt 0)) (ECall (EVar 4) [EVar 200; EInt 3])
          (ESet 200 (ECall (EVar 1) [EVar 200; EInt 1]))
       [EFor None (EDef 201 (EInt 0)) (ECall (EVar 4) [EVar 201; EInt 3])
             (ESet 201 (ECall (EVar 1) [EVar 201; EInt 1]))
          [ECall (EVar 22) [EVar 201];
           ECond [(ECall (EVar 8) [EVar 201; EInt 1], EBreak (Some 500))] ENil]]]
  = mkOutcome (Done SvNil) [[SvInt 0]; [SvInt 1]].
Proof. vm_compute. reflexivity. Qed.

(* a break inside a call argument is rejected when the argument is compiled *)
Example ex_break_in_argument :
  o_res (eval_program 100
    [EFor None (EDef 200 (EInt 0)) (ECall (EVar 4) [EVar 200; EInt 3])
          (ESet 200 (ECall (EVar 1) [EVar 200; EInt 1]))
       [ECall (EVar 1) [EInt 1; EBreak None]]])
  = Sig (SErr ELoop).
Proof. vm_compute. reflexivity. Qed.

Example ex_wrap : o_res (eval_program 20 [ECall (EVar 1) [EInt 9223372036854775807; EInt 1]])
  = Done (SvInt (-9223372036854775808)).
Proof. vm_compute. reflexivity. Qed.

Example ex_out_of_fuel_is_distinct :
  o_res (eval_program 30 [EDefn 101 [100] None [ECall (EVar 101) [EVar 100]]; ECall (EVar 101) [EInt 1]]) = Fuel.
Proof. vm_compute. reflexivity. Qed.
