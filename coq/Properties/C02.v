(* C02: evaluation matches the reference semantics: values, control flow, effect order.
   Statements only; proofs in Proofs/RefSemProofs.v.  Every theorem is about the reference
   evaluator Model/RefSem.v (eval / apply / eval_program) for ALL programs, stores and fuels;
   that the real compiler + VM compute the same observables is what the correspondence run
   of checks/c02.py establishes on generated programs (see docs/C02.md).

   Compiler fragment: Model/GenF0.v is a Gallina model of generator.go + the VM step for the
   closure-free fragment F0 (literals, variables, begin, cond, and/or, def/set, let/letseq,
   newScope; a call is ONE instruction delegated to the reference call_expr, as the real
   CallExprInstr generates and runs callee and arguments when it executes).  Section 9 states
   vm_refines_ref_F0 (proved for all nestings, values and errors).  What stays outside it --
   for loops with break/continue, closures (CreateClosure, function activation), the self tail
   call, arrays -- is named vm_refines_ref_partial: validated by the correspondence run, not proved. *)
From Coq Require Import ZArith Bool List.
From ZV Require Import Model.Num Model.RefSem Model.GenF0 Proofs.RefSemProofs Proofs.GenF0Proofs.
From ZV Require Model.GenF1 Proofs.GenF1Proofs.
From ZV Require Model.Builtins Proofs.BuiltinsProofs.
Import ListNotations.
Open Scope Z_scope.

(* ---- 1. the evaluator is deterministic and monotone in fuel ---- *)

Theorem eval_fuel_mono : forall n n' env e s r s',
  eval n env e s = (r, s') -> r <> Fuel -> (n <= n')%nat -> eval n' env e s = (r, s').
Proof. exact RefSemProofs.eval_fuel_mono. Qed.
Print Assumptions eval_fuel_mono.

Theorem apply_fuel_mono : forall n n' f args s r s',
  apply n f args s = (r, s') -> r <> Fuel -> (n <= n')%nat -> apply n' f args s = (r, s').
Proof. exact RefSemProofs.apply_fuel_mono. Qed.
Print Assumptions apply_fuel_mono.

Theorem eval_deterministic : forall n1 n2 env e s r1 s1 r2 s2,
  eval n1 env e s = (r1, s1) -> eval n2 env e s = (r2, s2) -> r1 <> Fuel -> r2 <> Fuel ->
  r1 = r2 /\ s1 = s2.
Proof. exact RefSemProofs.eval_deterministic. Qed.
Print Assumptions eval_deterministic.

Theorem eval_program_fuel_mono : forall n n' k forms,
  o_res (eval_program_cfg n k forms) <> Fuel -> (n <= n')%nat ->
  eval_program_cfg n' k forms = eval_program_cfg n k forms.
Proof. exact RefSemProofs.eval_program_fuel_mono. Qed.
Print Assumptions eval_program_fuel_mono.

(* ---- 2. calls: callee, then each argument exactly once left to right, then the body ---- *)

Theorem args_once_ltr : forall n env f args s fv s1 vs s2 r s3,
  (match f with EVar _ => true | _ => cc [] f end) = true ->
  eval n env f s = (Done fv, s1) -> is_fn fv = true ->
  run_args (eval n) env args s1 vs s2 ->
  apply n fv vs s2 = (r, s3) ->
  eval (S n) env (ECall f args) s = (r, s3) /\
  exists tc ta tb, trace s1 = tc ++ trace s /\ trace s2 = ta ++ tc ++ trace s /\
                   trace s3 = tb ++ ta ++ tc ++ trace s.
Proof. exact RefSemProofs.args_once_ltr. Qed.
Print Assumptions args_once_ltr.

(* run_args (one evaluation per argument, in order, threading the store) is exactly what
   the evaluator does with an argument list *)
Theorem ev_args_iff_run_args : forall ev env es s vs s',
  ev_args ev env es s = (Done vs, s') <-> run_args ev env es s vs s'.
Proof. exact RefSemProofs.ev_args_iff_run_args. Qed.
Print Assumptions ev_args_iff_run_args.

Theorem ev_args_stops : forall ev env es1 e r s vs1 s1 g s2,
  ev_args ev env es1 s = (Done vs1, s1) -> cc [] e = true -> ev env e s1 = (Sig g, s2) ->
  ev_args ev env (es1 ++ e :: r) s = (Sig g, s2).
Proof. exact RefSemProofs.ev_args_stops. Qed.
Print Assumptions ev_args_stops.

Theorem call_callee_fails : forall n env f args s g s1,
  (match f with EVar _ => true | _ => cc [] f end) = true ->
  eval n env f s = (Sig g, s1) -> eval (S n) env (ECall f args) s = (Sig g, s1).
Proof. exact RefSemProofs.call_callee_fails. Qed.
Print Assumptions call_callee_fails.

(* ---- 3. cond / and / or evaluate only the arms they must ---- *)

Theorem cond_evaluates_only_needed : forall ev env c b r d r' d' s v s1,
  ev env c s = (Done v, s1) -> truthy v = true ->
  ev_cond ev env ((c, b) :: r) d s = ev_cond ev env ((c, b) :: r') d' s.
Proof. exact RefSemProofs.cond_only_needed. Qed.
Print Assumptions cond_evaluates_only_needed.

Theorem cond_first_true : forall ev env c b r d s v s1,
  ev env c s = (Done v, s1) -> truthy v = true ->
  ev_cond ev env ((c, b) :: r) d s = ev env b s1.
Proof. exact RefSemProofs.cond_first_true. Qed.
Print Assumptions cond_first_true.

Theorem cond_first_false : forall ev env c b r d s v s1,
  ev env c s = (Done v, s1) -> truthy v = false ->
  ev_cond ev env ((c, b) :: r) d s = ev_cond ev env r d s1.
Proof. exact RefSemProofs.cond_first_false. Qed.
Print Assumptions cond_first_false.

Theorem and_short_circuit : forall ev env e r r' s v s1,
  r <> [] -> r' <> [] -> ev env e s = (Done v, s1) -> truthy v = false ->
  ev_and ev env (e :: r) s = (Done v, s1) /\ ev_and ev env (e :: r') s = (Done v, s1).
Proof. exact RefSemProofs.and_short_circuit. Qed.
Print Assumptions and_short_circuit.

Theorem or_short_circuit : forall ev env e r r' s v s1,
  r <> [] -> r' <> [] -> ev env e s = (Done v, s1) -> truthy v = true ->
  ev_or ev env (e :: r) s = (Done v, s1) /\ ev_or ev env (e :: r') s = (Done v, s1).
Proof. exact RefSemProofs.or_short_circuit. Qed.
Print Assumptions or_short_circuit.

Theorem and_continue : forall ev env e a r s v s1,
  ev env e s = (Done v, s1) -> truthy v = true ->
  ev_and ev env (e :: a :: r) s = ev_and ev env (a :: r) s1.
Proof. exact RefSemProofs.and_continue. Qed.
Print Assumptions and_continue.

Theorem or_continue : forall ev env e a r s v s1,
  ev env e s = (Done v, s1) -> truthy v = false ->
  ev_or ev env (e :: a :: r) s = ev_or ev env (a :: r) s1.
Proof. exact RefSemProofs.or_continue. Qed.
Print Assumptions or_continue.

(* the value of and/or is the value of the last operand evaluated *)
Theorem and_last : forall ev env e s, ev_and ev env [e] s = ev env e s.
Proof. exact RefSemProofs.and_last. Qed.
Theorem or_last : forall ev env e s, ev_or ev env [e] s = ev env e s.
Proof. exact RefSemProofs.or_last. Qed.

(* ---- 4. begin ---- *)

Theorem begin_value_is_last : forall ev env es e s vs s1,
  run_all ev env es s vs s1 -> ev_begin ev env (es ++ [e]) s = ev env e s1.
Proof. exact RefSemProofs.begin_value_is_last. Qed.
Print Assumptions begin_value_is_last.

Theorem begin_stops_at_first_failure : forall ev env es e r s vs s1 g s2,
  run_all ev env es s vs s1 -> ev env e s1 = (Sig g, s2) -> r <> [] ->
  ev_begin ev env (es ++ e :: r) s = (Sig g, s2).
Proof. exact RefSemProofs.begin_stops_at_first_failure. Qed.
Print Assumptions begin_stops_at_first_failure.

(* ---- 5. break / continue leave exactly the loops up to the one they address ---- *)

Theorem break_ends_addressed_loop : forall ev k env lbl test step body s t s1 l s2,
  ev env test s = (Done t, s1) -> truthy t = true ->
  ev_begin ev env body s1 = (Sig (SBreak l), s2) -> hits l lbl = true ->
  for_loop ev (S k) env lbl test step body s = (Done VNil, s2).
Proof. exact RefSemProofs.for_loop_break_hits. Qed.
Print Assumptions break_ends_addressed_loop.

Theorem break_passes_other_loop : forall ev k env lbl test step body s t s1 l s2,
  ev env test s = (Done t, s1) -> truthy t = true ->
  ev_begin ev env body s1 = (Sig (SBreak l), s2) -> hits l lbl = false ->
  for_loop ev (S k) env lbl test step body s = (Sig (SBreak l), s2).
Proof. exact RefSemProofs.for_loop_break_passes. Qed.
Print Assumptions break_passes_other_loop.

Theorem continue_resumes_addressed_loop : forall ev k env lbl test step body s t s1 l s2,
  ev env test s = (Done t, s1) -> truthy t = true ->
  ev_begin ev env body s1 = (Sig (SCont l), s2) -> hits l lbl = true ->
  for_loop ev (S k) env lbl test step body s =
  (_ <- no_loop_sig EUnspec (ev env step) ;; for_loop ev k env lbl test step body) s2.
Proof. exact RefSemProofs.for_loop_continue_hits. Qed.
Print Assumptions continue_resumes_addressed_loop.

Theorem continue_passes_other_loop : forall ev k env lbl test step body s t s1 l s2,
  ev env test s = (Done t, s1) -> truthy t = true ->
  ev_begin ev env body s1 = (Sig (SCont l), s2) -> hits l lbl = false ->
  for_loop ev (S k) env lbl test step body s = (Sig (SCont l), s2).
Proof. exact RefSemProofs.for_loop_continue_passes. Qed.
Print Assumptions continue_passes_other_loop.

Theorem break_label_addresses : forall x mine, hits (Some x) mine = true <-> mine = Some x.
Proof. exact RefSemProofs.hits_labelled. Qed.
Theorem break_plain_addresses_innermost : forall mine, hits None mine = true.
Proof. exact RefSemProofs.hits_unlabelled. Qed.

(* a break/continue never leaves a function activation: `apply` wraps the body in no_loop_sig *)
Theorem break_never_crosses_activation : forall A e (m : M A) s r s1, no_loop_sig e m s = (r, s1) ->
  (forall l, r <> Sig (SBreak l)) /\ (forall l, r <> Sig (SCont l)).
Proof. exact RefSemProofs.no_loop_sig_spec. Qed.
Print Assumptions break_never_crosses_activation.

(* a break/continue that escapes an expression accepted by the compile check addresses one of the
   loops around it in its compile unit; nothing escapes a top-level form or a call argument *)
Theorem escaping_signal_addresses_enclosing_loop : forall n loops env e s r s',
  cc loops e = true -> eval n env e s = (r, s') ->
  match r with
  | Sig (SBreak l) | Sig (SCont l) => loop_ok l loops = true
  | _ => True
  end.
Proof. exact RefSemProofs.escaping_signal_addresses_enclosing_loop. Qed.
Print Assumptions escaping_signal_addresses_enclosing_loop.

Theorem toplevel_has_no_stray_signal : forall n env e s r s',
  cc [] e = true -> eval n env e s = (r, s') ->
  (forall l, r <> Sig (SBreak l)) /\ (forall l, r <> Sig (SCont l)).
Proof. exact RefSemProofs.toplevel_has_no_stray_signal. Qed.
Print Assumptions toplevel_has_no_stray_signal.

(* ---- 6. integer arithmetic wraps modulo 2^64 (range and congruence from C07's NumProofs) ---- *)

Theorem add_wraps : forall ap a b s,
  prim_apply ap PAdd [VInt a; VInt b] s = (Done (VInt (wrap64 (a + b))), s) /\
  in_i64 (wrap64 (a + b)) = true /\ (wrap64 (a + b) - (a + b)) mod two64 = 0.
Proof. exact RefSemProofs.add_wraps_ref. Qed.
Print Assumptions add_wraps.

Theorem sub_wraps : forall ap a b s,
  prim_apply ap PSub [VInt a; VInt b] s = (Done (VInt (wrap64 (a - b))), s) /\
  in_i64 (wrap64 (a - b)) = true /\ (wrap64 (a - b) - (a - b)) mod two64 = 0.
Proof. exact RefSemProofs.sub_wraps_ref. Qed.
Print Assumptions sub_wraps.

Theorem mul_wraps : forall ap a b s,
  prim_apply ap PMul [VInt a; VInt b] s = (Done (VInt (wrap64 (a * b))), s) /\
  in_i64 (wrap64 (a * b)) = true /\ (wrap64 (a * b) - (a * b)) mod two64 = 0.
Proof. exact RefSemProofs.mul_wraps_ref. Qed.
Print Assumptions mul_wraps.

(* ---- 7. the store only grows: the trace is extended, never rewritten ---- *)

Theorem eval_extends_store : forall n env e s r s', eval n env e s = (r, s') -> ext s s'.
Proof. exact RefSemProofs.eval_extends_store. Qed.
Print Assumptions eval_extends_store.

(* ---- 8. the generated code of the fragment F0 refines the reference evaluator ---- *)

(* whole expression: if the reference evaluator finishes on an F0 expression, the VM run on the
   code the generator emits for it finishes (given enough steps) with the same value on top of
   the stack or the same error signal, and the same store (hence the same trace) *)
Theorem vm_refines_ref_F0 : forall n e env s r s',
  f0 e = true -> eval n env e s = (r, s') -> r <> Fuel ->
  exists k, run n (gen e) k (mkVm 0 [] env s) = (r, s').
Proof. exact GenF0Proofs.vm_refines_ref_F0. Qed.
Print Assumptions vm_refines_ref_F0.

(* in any code context: the code of e placed at pc p, run with any stack below it, ends at
   p + |gen e| with exactly one more value (the jump offsets of every nested cond/and/or are
   right for sub-forms of any length; begin pops all but the last value) *)
Theorem gen_in_context : forall n code m, (m <= n)%nat ->
  forall e, f0 e = true -> forall p stk0 env s r s',
    code_at code p (gen e) -> eval m env e s = (r, s') ->
    sim n code p (p + length (gen e)) stk0 env s r s'.
Proof. exact GenF0Proofs.gen_sim. Qed.
Print Assumptions gen_in_context.

(* the compositional layout lemmas it rests on (IHexpr = "every F0 expression is simulated") *)
Theorem cond_layout : forall n code m, IHexpr n code m ->
  forall arms d, forallb (fun cb => f0 (fst cb) && f0 (snd cb)) arms = true -> f0 d = true ->
  forall p stk0 env s r s', code_at code p (gen_cond gen arms (gen d)) ->
  ev_cond (eval m) env arms d s = (r, s') ->
  sim n code p (p + length (gen_cond gen arms (gen d))) stk0 env s r s'.
Proof. exact GenF0Proofs.sim_cond. Qed.
Print Assumptions cond_layout.

Theorem shortcircuit_layout : forall n code m, IHexpr n code m ->
  forall (or : bool) es, es <> [] -> forallb f0 es = true ->
  forall p stk0 env s r s', code_at code p (gen_sc gen or es) ->
  (if or then ev_or (eval m) env es s else ev_and (eval m) env es s) = (r, s') ->
  sim n code p (p + length (gen_sc gen or es)) stk0 env s r s'.
Proof. exact GenF0Proofs.sim_sc. Qed.
Print Assumptions shortcircuit_layout.

Theorem begin_pops : forall n code m, IHexpr n code m ->
  forall es, es <> [] -> forallb (fun x => f0 x && has_code x) es = true ->
  forall p stk0 env s r s', code_at code p (gen_begin gen es) ->
  ev_begin (eval m) env es s = (r, s') ->
  sim n code p (p + length (gen_begin gen es)) stk0 env s r s'.
Proof. exact GenF0Proofs.sim_begin. Qed.
Print Assumptions begin_pops.

(* ---- 8b. fragment F1 = F0 + for loops with plain / labelled break / continue ----
   Model/GenF1.v mirrors generator.go:GenerateForLoop / GenerateBreak / GenerateContinue and the
   LoopStart / Label / PushStackmark / PopUntilStackmark / ClearStackmark / Break / Continue
   instructions of vm.go (loop record offsets, scopesToPop, environment.go:FindLoop). *)

(* if the reference evaluator finishes on an F1 expression whose break/continue all find their loop
   (cc []), the VM on the generated code finishes with the same value or error and the same store *)
Theorem vm_refines_ref_F1 : forall n e env s r s',
  GenF1.f1 e = true -> cc [] e = true -> eval n env e s = (r, s') -> r <> Fuel ->
  exists k, GenF1.run n (GenF1.gen GenF1.top 0 e) k (GenF1.mkVm 0 [] env s) = (r, s').
Proof. exact GenF1Proofs.vm_refines_ref_F1_closed. Qed.
Print Assumptions vm_refines_ref_F1.

(* in any code context and inside any enclosing loops L of the compile unit (IHexpr unfolded):
   a value ends at p + |code|; an error aborts; a break / continue lands on the exit / increment
   position of the innermost loop it addresses, with that loop's scope chain restored (scopesToPop)
   and only junk above that loop's stack mark *)
Theorem gen_in_context_F1 : forall n code, GenF1Proofs.loops_unique code -> forall m, (m <= n)%nat ->
  forall e, GenF1.f1 e = true -> forall c nid L p stk0 env s r s',
    GenF1.c_loops c = map GenF1Proofs.cl_of L ->
    Forall (fun l => (GenF1Proofs.rl_id l < nid)%nat) L ->
    GenF1Proofs.inv code L (GenF1.c_scopes c) env stk0 ->
    GenF1Proofs.code_at code p (GenF1.gen c nid e) -> eval m env e s = (r, s') ->
    GenF1Proofs.sim n code L p (p + length (GenF1.gen c nid e)) stk0 env s r s'.
Proof. exact GenF1Proofs.gen_sim. Qed.
Print Assumptions gen_in_context_F1.

(* the loop numbers the generator hands out are pairwise distinct, so FindLoop finds the right LoopStart *)
Theorem gen_loop_numbers_unique : forall c n e,
  GenF1Proofs.nodupb (GenF1Proofs.ls_ids (GenF1.gen c n e)) = true.
Proof. exact GenF1Proofs.gen_loop_numbers_unique. Qed.
Print Assumptions gen_loop_numbers_unique.

(* ---- 8c. F2 (partial): the code of a function body (generator.go:buildSexpFun) ----
   proved: AddFuncScope, PopStackPutEnv of the formals last to first, the F1 body, RemoveScope, Return,
   started with the arguments on the data stack and the closure's static chain, returns what `apply`
   of the closure returns (for bodies without a self tail call and functions without `& rest`).
   NOT proved (the rest of vm_refines_ref_F2): the self tail call RemoveScope x (scopes+1); PrepareCall;
   Goto 0 (it equals the reference call only while the function's name still resolves to the running
   closure: the tco-by-name finding is exactly the failure of that side condition), calls executed
   by one VM with an address stack instead of being delegated, closures created inside the body,
   variadic functions. *)
Theorem vm_refines_ref_F2_partial : forall n nm ps body cenv args s r s',
  forallb GenF1.f1 body = true -> GenF1.init_ne body = true -> forallb (cc []) body = true ->
  length args = length ps ->
  apply (S n) (VClos nm ps None body cenv) args s = (r, s') -> r <> Fuel ->
  exists k, GenF1.run n (GenF1.fun_code ps body) k
                      (GenF1.mkVm 0 (map GenF1.SV (rev args)) cenv s) = (r, s').
Proof. exact GenF1Proofs.vm_refines_ref_F2_partial. Qed.
Print Assumptions vm_refines_ref_F2_partial.

(* ---- 9. non-vacuity ---- *)

(* ---- values that flow through tests, concat and apply (round 4) ---- *)

(* every float is true, 0.0 included: cond / and / or / not / the test of a for loop all go through truthy *)
Theorem float_is_true : forall m e, truthy (VFlt m e) = true.
Proof. exact RefSemProofs.float_is_true_ref. Qed.

(* concat of two or more lists is the list of all elements in order; lists are values, so no argument
   changes and the store is untouched *)
Theorem concat_lists_is_append : forall ap v l l2 ls s,
  prim_apply ap PConcat (list_val (v :: l) :: list_val l2 :: map list_val ls) s
  = (Done (list_val ((v :: l) ++ l2 ++ concat ls)), s).
Proof. exact RefSemProofs.concat_lists_ref. Qed.
Print Assumptions concat_lists_is_append.

(* apply hands the elements of its second argument to the function as they are (not evaluated again;
   an array among them is the same array) *)
Theorem apply_passes_values : forall ap f a o s, is_fn f = true -> nth_error (arrays s) a = Some o ->
  prim_apply ap PApply [f; VArr a] s = ap f (a_elems o) s.
Proof. exact RefSemProofs.apply_passes_values_ref. Qed.
Theorem apply_passes_list : forall ap f v l s, is_fn f = true ->
  prim_apply ap PApply [f; list_val (v :: l)] s = ap f (v :: l) s.
Proof. exact RefSemProofs.apply_passes_list_ref. Qed.

(* integer division (round 5): exact -> integer, inexact -> the float64 quotient fdiv_z (integer arithmetic only) *)
Theorem div_int_or_float : forall ap a b s, (b =? 0) = false ->
  prim_apply ap PDiv [VInt a; VInt b] s =
  if Z.rem a b =? 0 then (Done (VInt (wrap64 (Z.quot a b))), s)
  else match flt_of_f64 (fdiv_z a b) with
       | Some me => (Done (VFlt (fst me) (snd me)), s)
       | None => (Sig (SErr EUnspec), s)
       end.
Proof. exact RefSemProofs.div_ref. Qed.
Theorem div_exact : forall ap a b s, (b =? 0) = false -> Z.rem a b = 0 ->
  prim_apply ap PDiv [VInt a; VInt b] s = (Done (VInt (wrap64 (Z.quot a b))), s).
Proof. exact RefSemProofs.div_exact_ref. Qed.
Theorem div_inexact_not_int : forall ap a b s z, (b =? 0) = false -> Z.rem a b <> 0 ->
  fst (prim_apply ap PDiv [VInt a; VInt b] s) <> Done (VInt z).
Proof. exact RefSemProofs.div_inexact_not_int_ref. Qed.
Print Assumptions div_inexact_not_int.

(* fdiv_z against C07's Flocq model Num (float64(a) / float64(b) with IEEE rounding) on operands around the
   53- and 63-bit boundaries: the only statement of this file that mentions the real-number axioms of Flocq *)
Definition f64_dyadic (f : Num.f64) : option (Z * Z) :=
  match f with
  | Flocq.IEEE754.Binary.B754_zero _ _ false => Some (0, 0)
  | Flocq.IEEE754.Binary.B754_finite _ _ sg m e _ => Some (norm2 80 (if sg then Z.neg m else Z.pos m) e)
  | _ => None
  end.
Example ex_fdiv_z_is_ieee :
  forallb (fun ab => match f64_dyadic (Num.fdiv (Num.of_Z (fst ab)) (Num.of_Z (snd ab))) with
                     | Some (m, e) => (m =? fst (fdiv_z (fst ab) (snd ab))) && (e =? snd (fdiv_z (fst ab) (snd ab)))
                     | None => false
                     end)
    [(9223372036854775807, 2); (9223372036854775807, 3); (9007199254740993, 2); (9007199254740995, 2);
     (-9223372036854775807, 7); (7, 2); (1, 3); (-1, 3); (10, -4); (4611686018427387905, 3);
     (9223372036854775806, 9223372036854775807); (3, 9223372036854775807); (1099511627777, 2147483648);
     (9007199254740991, 4); (18014398509481985, 2); (-9223372036854775808, 3); (5, 9007199254740993)] = true.
Proof. vm_compute. reflexivity. Qed.

(* characters appended to strings as UTF-8 *)
Theorem concat_str_chr : forall ap s0 c t s,
  prim_apply ap PConcat [VStr s0; VChr c; VStr t] s = (Done (VStr ((s0 ++ utf8 c) ++ t)), s) /\
  prim_apply ap PAppend [VStr s0; VChr c] s = (Done (VStr (s0 ++ utf8 c)), s).
Proof. exact RefSemProofs.concat_str_chr_ref. Qed.

(* (/ 9223372036854775807 2) is the float 2^62; (/ 7 2) = 3.5 = 7 * 2^-1; (/ 6 3) = 2 *)
Example ex_div :
  o_res (eval_program 50 [ECall (EVar 14) [ECall (EVar 25) [EInt 9223372036854775807; EInt 2];
                                          ECall (EVar 25) [EInt 7; EInt 2]; ECall (EVar 25) [EInt 6; EInt 3]]])
  = Done (SvPair (SvFlt 1 62) (SvPair (SvFlt 7 (-1)) (SvPair (SvInt 2) SvNil))).
Proof. vm_compute. reflexivity. Qed.

(* (concat "ab" 'e-acute' 'U+1F600') = "ab" ++ C3 A9 ++ F0 9F 98 80 *)
Example ex_concat_chars :
  o_res (eval_program 50 [ECall (EVar 24) [EStr [97; 98]; EQuote (DChr 233); EQuote (DChr 128512)]])
  = Done (SvStr [97; 98; 195; 169; 240; 159; 152; 128]).
Proof. vm_compute. reflexivity. Qed.

(* (list (and 0.0 7) (or 0.0 7) (not 0.0) (cond 0.0 1 2)) = (7 0.0 false 1) *)
Example ex_float_zero_true :
  o_res (eval_program 50 [ECall (EVar 14) [EAnd [EQuote (DFlt 0); EInt 7]; EOr [EQuote (DFlt 0); EInt 7];
                                          ECall (EVar 10) [EQuote (DFlt 0)];
                                          ECond [(EQuote (DFlt 0), EInt 1)] (EInt 2)]])
  = Done (SvPair (SvInt 7) (SvPair (SvFlt 0 0) (SvPair (SvBool false) (SvPair (SvInt 1) SvNil)))).
Proof. vm_compute. reflexivity. Qed.

(* (def b (quote (3 4))) (concat (quote (1 2)) b (quote (5))) b  leaves b = (3 4) *)
Example ex_concat_keeps_arguments :
  o_res (eval_program 50 [EDef 100 (EQuote (DList [DInt 3; DInt 4]));
                          ECall (EVar 24) [EQuote (DList [DInt 1; DInt 2]); EVar 100; EQuote (DList [DInt 5])];
                          EVar 100])
  = Done (SvPair (SvInt 3) (SvPair (SvInt 4) SvNil)).
Proof. vm_compute. reflexivity. Qed.

(* (def a [1 2]) (apply aset [a 0 9]) a  = [9 2]: the callee gets the array itself *)
Example ex_apply_identity :
  o_res (eval_program 50 [EDef 100 (EArr [EInt 1; EInt 2]);
                          ECall (EVar 21) [EVar 17; EArr [EVar 100; EInt 0; EInt 9]];
                          EVar 100])
  = Done (SvArr [SvInt 9; SvInt 2]).
Proof. vm_compute. reflexivity. Qed.

(* (for la: [(def i 0) (< i 3) (set i (+ i 1))] (for [(def j 0) (< j 3) (set j (+ j 1))]
      (trace j) (cond (== j 1) (break la:) nil)))  is in F1 and the VM run gives nil with trace 0 1 *)
Example ex_f1_runs :
  let e := EFor (Some 500) (EDef 200 (EInt 0)) (ECall (EVar 4) [EVar 200; EInt 3])
                (ESet 200 (ECall (EVar 1) [EVar 200; EInt 1]))
             [EFor None (EDef 201 (EInt 0)) (ECall (EVar 4) [EVar 201; EInt 3])
                   (ESet 201 (ECall (EVar 1) [EVar 201; EInt 1]))
                [ECall (EVar 22) [EVar 201];
                 ECond [(ECall (EVar 8) [EVar 201; EInt 1], EBreak (Some 500))] ENil]] in
  GenF1.f1 e = true /\ cc [] e = true /\
  (let '(r, s) := GenF1.run 50 (GenF1.gen GenF1.top 0 e) 400 (GenF1.mkVm 0 [] [0%nat] (init_store 0)) in
   (r, rev (trace s))) = (Done VNil, [[SvInt 0]; [SvInt 1]]).
Proof. vm_compute. auto. Qed.


(* the listing of (cond false 1 (and 2 nil 3)): brn 3 jumps over [push 1; jump], the jump over the rest *)
Example ex_gen_listing :
  gen (ECond [(EBool false, EInt 1)] (EAnd [EInt 2; ENil; EInt 3])) =
  [IPush (EBool false); IBranch false 3; IPush (EInt 1); IJump 10;
   IPush (EInt 2); IDup; IBranch false 7; IPop; IPush ENil; IDup; IBranch false 3; IPop; IPush (EInt 3)].
Proof. vm_compute. reflexivity. Qed.

Example ex_gen_runs :
  fst (run 10 (gen (ECond [(EBool false, EInt 1)] (EAnd [EInt 2; ENil; EInt 3]))) 50 (mkVm 0 [] [0%nat] (init_store 0)))
  = Done VNil.
Proof. vm_compute. reflexivity. Qed.


(* (def x 1) ((fn [a] (+ a x)) 41) = 42 *)
Example ex_call :
  o_res (eval_program 50 [EDef 100 (EInt 1);
                          ECall (EFn [101] None [ECall (EVar 1) [EVar 101; EVar 100]]) [EInt 41]])
  = Done (SvInt 42).
Proof. vm_compute. reflexivity. Qed.

(* ((begin (trace 0) list) (trace 1) (trace 2)): callee first, then the arguments in order *)
Example ex_order :
  o_trace (eval_program 50 [ECall (EBegin [ECall (EVar 22) [EInt 0]; EVar 14])
                                  [ECall (EVar 22) [EInt 1]; ECall (EVar 22) [EInt 2]]])
  = [[SvInt 0]; [SvInt 1]; [SvInt 2]].
Proof. vm_compute. reflexivity. Qed.

(* (for la: [(def i 0) (< i 3) (set i (+ i 1))] (for [(def j 0) (< j 3) (set j (+ j 1))]
      (trace j) (cond (== j 1) (break la:) nil)))  traces 0 1 and leaves both loops *)
Example ex_labelled_break :
  eval_program 100
    [EFor (Some 500) (EDef 200 (EInt 0)) (ECall (EVar 4) [EVar 200; EInt 3])
          (ESet 200 (ECall (EVar 1) [EVar 200; EInt 1]))
       [EFor None (EDef 201 (EInt 0)) (ECall (EVar 4) [EVar 201; EInt 3])
             (ESet 201 (ECall (EVar 1) [EVar 201; EInt 1]))
          [ECall (EVar 22) [EVar 201];
           ECond [(ECall (EVar 8) [EVar 201; EInt 1], EBreak (Some 500))] ENil]]]
  = mkOutcome (Done SvNil) [[SvInt 0]; [SvInt 1]].
Proof. vm_compute. reflexivity. Qed.

(* a break inside a call argument is rejected when the argument is compiled *)
Example ex_break_in_argument :
  o_res (eval_program 100
    [EFor None (EDef 200 (EInt 0)) (ECall (EVar 4) [EVar 200; EInt 3])
          (ESet 200 (ECall (EVar 1) [EVar 200; EInt 1]))
       [ECall (EVar 1) [EInt 1; EBreak None]]])
  = Sig (SErr ELoop).
Proof. vm_compute. reflexivity. Qed.

Example ex_wrap : o_res (eval_program 20 [ECall (EVar 1) [EInt 9223372036854775807; EInt 1]])
  = Done (SvInt (-9223372036854775808)).
Proof. vm_compute. reflexivity. Qed.

Example ex_out_of_fuel_is_distinct :
  o_res (eval_program 30 [EDefn 101 [100] None [ECall (EVar 101) [EVar 100]]; ECall (EVar 101) [EInt 1]]) = Fuel.
Proof. vm_compute. reflexivity. Qed.


(* ================================================================================================
   Round 6: the DATA builtins.  A second, pure model (Model/Builtins.v: values int / float64 / char /
   string / symbol / bool / nil / pair / array / builtin function; total functions mirroring
   functions.go, listutils.go, arrayutils.go, strutils.go, numerictower.go, comparisons.go; the evaluator
   beval of closed builtin-call trees with let and cond) and its laws, each for ALL values.  The model is
   tied to the real builtins by the correspondence run of harness/cmd/c02b on every check. *)
Module BuiltinLaws.
Import ZV.Model.Builtins ZV.Proofs.BuiltinsProofs.
Import ListNotations.
Open Scope Z_scope.

(* ---- lists: cons / first / rest / list / len ---- *)
Theorem bi_cons_first_rest : forall n x y l,
  bind (apply_n n FCons [x; l]) (fun p => apply_n n FFirst [p]) = Val x /\
  bind (apply_n n FCons [x; l]) (fun p => apply_n n FRest [p]) = Val l /\
  bind (apply_n n FCons [y; l]) (fun p => bind (apply_n n FCons [x; p]) (fun q => apply_n n FSecond [q])) = Val y /\
  bind (apply_n n FList (x :: l :: nil)) (fun p => apply_n n FFirst [p]) = Val x.
Proof.
  intros. repeat split.
  - exact (first_cons n x l).
  - exact (rest_cons n x l).
  - exact (second_cons_cons n x y l).
  - exact (first_list n x [l]).
Qed.
Print Assumptions bi_cons_first_rest.
Theorem bi_list_first_rest : forall n x l,
  bind (apply_n n FList (x :: l)) (fun p => apply_n n FFirst [p]) = Val x /\
  bind (apply_n n FList (x :: l)) (fun p => apply_n n FRest [p]) = apply_n n FList l.
Proof. intros; split; [exact (first_list n x l) | exact (rest_list n x l)]. Qed.
Print Assumptions bi_list_first_rest.
Theorem bi_len_list : forall l, b_len (make_list l) = Val (VInt (zlen l)).
Proof. exact len_make_list. Qed.
Print Assumptions bi_len_list.
Theorem bi_len_improper_fails : forall h t, is_list t = false -> b_len (VPair h t) = Fail.
Proof. exact len_improper_fails. Qed.
Print Assumptions bi_len_improper_fails.

(* ---- concat: = append of all the arguments, for lists, arrays, strings (chars as UTF-8);
   additive length; associativity; identity; rejection of a foreign argument ---- *)
Theorem bi_concat_lists_is_app : forall x a (ls : list (list val)),
  b_concat (List.map make_list ((x :: a) :: ls)) = Val (make_list ((x :: a) ++ List.concat ls)).
Proof. exact concat_lists_is_app. Qed.
Print Assumptions bi_concat_lists_is_app.
Theorem bi_concat_arrays_is_app : forall a (ls : list (list val)),
  b_concat (List.map VArr (a :: ls)) = Val (VArr (a ++ List.concat ls)).
Proof. exact concat_arrays_is_app. Qed.
Print Assumptions bi_concat_arrays_is_app.
Theorem bi_concat_strings_is_utf8_app : forall a xs ps,
  List.map str_piece xs = List.map Some ps ->
  b_concat (VStr a :: xs) = Val (VStr (a ++ List.concat ps)).
Proof. exact concat_strings_is_utf8_app. Qed.
Print Assumptions bi_concat_strings_is_utf8_app.
Theorem bi_concat_rejects : forall h t a s b x pre post rest,
  (is_list b = false -> b_concat (VPair h t :: b :: rest) = Fail) /\
  (is_list t = false -> b_concat (VPair h t :: b :: rest) = Fail) /\
  ((forall l, x <> VArr l) -> b_concat (VArr a :: List.map VArr pre ++ x :: post) = Fail) /\
  (str_piece x = None -> b_concat (VStr s :: x :: rest) = Fail).
Proof.
  intros. repeat split.
  - exact (concat_lists_rejects_nonlist h t b rest).
  - exact (concat_lists_rejects_improper_first h t b rest).
  - exact (concat_arrays_rejects a pre x post).
  - exact (concat_strings_rejects s x rest).
Qed.
Print Assumptions bi_concat_rejects.
Theorem bi_len_concat : forall (a : list val) (s : list Z) x l ls ss,
  bind (b_concat (List.map VArr (a :: ls))) b_len = Val (VInt (zlen a + zsum (List.map (@zlen val) ls))) /\
  bind (b_concat (List.map VStr (s :: ss))) b_len = Val (VInt (zlen s + zsum (List.map (@zlen Z) ss))) /\
  bind (b_concat (List.map make_list ((x :: l) :: ls))) b_len = Val (VInt (zlen (x :: l) + zsum (List.map (@zlen val) ls))).
Proof.
  intros. repeat split.
  - exact (len_concat_arrays a ls).
  - exact (len_concat_strings s ss).
  - exact (len_concat_lists x l ls).
Qed.
Print Assumptions bi_len_concat.
Theorem bi_concat_assoc_arrays : forall a b c,
  bind (b_concat [VArr a; VArr b]) (fun ab => b_concat [ab; VArr c])
  = bind (b_concat [VArr b; VArr c]) (fun bc => b_concat [VArr a; bc]).
Proof. exact concat_assoc_arrays. Qed.
Print Assumptions bi_concat_assoc_arrays.
Theorem bi_concat_assoc_strings : forall a b c,
  bind (b_concat [VStr a; VStr b]) (fun ab => b_concat [ab; VStr c])
  = bind (b_concat [VStr b; VStr c]) (fun bc => b_concat [VStr a; bc]).
Proof. exact concat_assoc_strings. Qed.
Print Assumptions bi_concat_assoc_strings.
Theorem bi_concat_assoc_lists : forall x a y b c,
  bind (b_concat [make_list (x :: a); make_list (y :: b)]) (fun ab => b_concat [ab; make_list c])
  = bind (b_concat [make_list (y :: b); make_list c]) (fun bc => b_concat [make_list (x :: a); bc]).
Proof. exact concat_assoc_lists. Qed.
Print Assumptions bi_concat_assoc_lists.
Theorem bi_concat_identity : forall a s x l,
  b_concat [VArr a; VArr []] = Val (VArr a) /\ b_concat [VArr []; VArr a] = Val (VArr a) /\
  b_concat [VStr s; VStr []] = Val (VStr s) /\ b_concat [VStr []; VStr s] = Val (VStr s) /\
  b_concat [make_list (x :: l); VNil] = Val (make_list (x :: l)) /\
  b_concat [VArr a] = Val (VArr a) /\ b_concat [VStr s] = Val (VStr s) /\
  b_concat [make_list (x :: l)] = Val (make_list (x :: l)).
Proof. exact concat_identity. Qed.
Print Assumptions bi_concat_identity.

(* ---- append / aget / slice ---- *)
Theorem bi_append_array : forall l x,
  b_append false (VArr l) x = Val (VArr (l ++ [x])) /\
  bind (b_append false (VArr l) x) b_len = Val (VInt (zlen l + 1)).
Proof. exact append_array. Qed.
Print Assumptions bi_append_array.
Theorem bi_aget_append : forall l x,
  b_aget [VArr (l ++ [x]); VInt (zlen l)] = Val x /\
  (forall k, 0 <= k < zlen l -> b_aget [VArr (l ++ [x]); VInt k] = b_aget [VArr l; VInt k]).
Proof. exact aget_append. Qed.
Print Assumptions bi_aget_append.
Theorem bi_aget_out_of_range : forall l k d, k < 0 \/ zlen l <= k ->
  b_aget [VArr l; VInt k] = Fail /\ b_aget [VArr l; VInt k; d] = Val d.
Proof. exact aget_out_of_range. Qed.
Print Assumptions bi_aget_out_of_range.
Theorem bi_append_string : forall s t c,
  b_append false (VStr s) (VStr t) = Val (VStr (s ++ t)) /\
  b_append false (VStr s) (VChar c) = Val (VStr (s ++ utf8 c)) /\
  b_append true (VStr s) (VStr t) = Val (VStr (s ++ t)).
Proof. exact append_string. Qed.
Print Assumptions bi_append_string.
Theorem bi_utf8_shape : forall r, (1 <= zlen (utf8 r) <= 4) /\ Forall (fun b => 0 <= b < 256) (utf8 r).
Proof. exact utf8_shape. Qed.
Print Assumptions bi_utf8_shape.
Theorem bi_slice : forall (l : list val) (s : list Z) i j, 0 <= i <= j ->
  (j <= zlen l -> b_slice (VArr l) (VInt i) (VInt j) = Val (VArr (sub l i j)) /\ zlen (sub l i j) = j - i) /\
  (j <= zlen s -> b_slice (VStr s) (VInt i) (VInt j) = Val (VStr (sub s i j)) /\ zlen (sub s i j) = j - i).
Proof. intros l s i j H. split; intro H2; [exact (slice_array l i j H H2) | exact (slice_string s i j H H2)]. Qed.
Print Assumptions bi_slice.
Theorem bi_slice_whole : forall l s,
  b_slice (VArr l) (VInt 0) (VInt (zlen l)) = Val (VArr l) /\
  b_slice (VStr s) (VInt 0) (VInt (zlen s)) = Val (VStr s).
Proof. exact slice_whole. Qed.
Print Assumptions bi_slice_whole.
Theorem bi_slice_bad_bounds_fail : forall l s i j, i < 0 \/ j < i ->
  b_slice (VArr l) (VInt i) (VInt j) = Fail /\ b_slice (VStr s) (VInt i) (VInt j) = Fail.
Proof. exact slice_bad_bounds_fail. Qed.
Print Assumptions bi_slice_bad_bounds_fail.

(* ---- map / apply: one call per element, head first, the first failing call ends the map ---- *)
Theorem bi_map_list_in_order : forall n g x l,
  apply_n (S n) FMap [VFun g; make_list (x :: l)]
  = bind (seq_out (List.map (fun y => apply_n n g [y]) (x :: l))) (fun r => Val (make_list r)).
Proof. exact map_list_in_order. Qed.
Print Assumptions bi_map_list_in_order.
Theorem bi_map_array_in_order : forall n g l,
  apply_n (S n) FMap [VFun g; VArr l]
  = bind (seq_out (List.map (fun y => apply_n n g [y]) l)) (fun r => Val (VArr r)).
Proof. exact map_array_in_order. Qed.
Print Assumptions bi_map_array_in_order.
Theorem bi_map_list_total : forall n g (f : val -> val) x l,
  (forall y, In y (x :: l) -> apply_n n g [y] = Val (f y)) ->
  apply_n (S n) FMap [VFun g; make_list (x :: l)] = Val (make_list (List.map f (x :: l))).
Proof. exact map_list_total. Qed.
Print Assumptions bi_map_list_total.
Theorem bi_map_stops_at_first_failure : forall n g pre x post vs,
  List.map (fun y => apply_n n g [y]) pre = List.map Val vs -> apply_n n g [x] = Fail ->
  apply_n (S n) FMap [VFun g; VArr (pre ++ x :: post)] = Fail /\
  (forall p0 v0, apply_n n g [p0] = Val v0 ->
     apply_n (S n) FMap [VFun g; make_list (p0 :: pre ++ x :: post)] = Fail).
Proof. exact map_stops_at_first_failure. Qed.
Print Assumptions bi_map_stops_at_first_failure.
Theorem bi_map_rejects_apply_spreads : forall n g,
  (forall v, (forall l, v <> VArr l) -> (forall h t, v <> VPair h t) -> apply_n (S n) FMap [VFun g; v] = Fail) /\
  (forall l, apply_n (S n) FApply [VFun g; VArr l] = apply_n n g l) /\
  (forall x r, apply_n (S n) FApply [VFun g; make_list (x :: r)] = apply_n n g (x :: r)).
Proof.
  intros n g. split; [exact (map_rejects n g)|].
  split; [intro l0; exact (proj1 (apply_spreads n g l0 VNil nil)) | intros x0 r0; exact (proj2 (apply_spreads n g nil x0 r0))].
Qed.
Print Assumptions bi_map_rejects_apply_spreads.

(* ---- truthiness (expressions.go:IsTruthy) for every kind of value ---- *)
Theorem bi_truthiness_table : forall v,
  is_truthy v = false <-> v = VBool false \/ v = VInt 0 \/ v = VChar 0 \/ v = VNil.
Proof. exact truthiness_table. Qed.
Print Assumptions bi_truthiness_table.
Theorem bi_truthiness_in_not_and_cond : forall n env c a b v,
  apply_n n FNot [v] = Val (VBool (negb (is_truthy v))) /\
  (beval env c = Val v -> beval env (BIf c a b) = if is_truthy v then beval env a else beval env b).
Proof. intros. split; [exact (not_is_negation n v) | exact (if_selects env c a b v)]. Qed.
Print Assumptions bi_truthiness_in_not_and_cond.

(* ---- numbers (NumericFunction over C07's NumericDo) ---- *)
Theorem bi_sum_product_wrap_once : forall l a,
  (arith_fold OpAdd (VInt a) (List.map VInt l) = Val (VInt (fold_left Z.add l a)) \/
   arith_fold OpAdd (VInt a) (List.map VInt l) = Val (VInt (wrap64 (fold_left Z.add l a)))) /\
  (l <> [] -> arith_fold OpMul (VInt a) (List.map VInt l) = Val (VInt (wrap64 (fold_left Z.mul l a)))).
Proof. intros. split; [exact (add_ints_is_wrapped_sum l a) | exact (mul_ints_is_wrapped_product l a)]. Qed.
Print Assumptions bi_sum_product_wrap_once.
Theorem bi_int_division : forall a b,
  (b = 0 -> b_arith OpDiv [VInt a; VInt b] = Fail) /\
  (b <> 0 -> Z.rem a b = 0 -> b_arith OpDiv [VInt a; VInt b] = Val (VInt (wrap64 (Z.quot a b)))) /\
  (b <> 0 -> Z.rem a b <> 0 -> b_arith OpDiv [VInt a; VInt b] = Val (VFlt (fdiv (of_Z a) (of_Z b)))).
Proof. exact int_division. Qed.
Print Assumptions bi_int_division.
Theorem bi_exact_division_inverts_multiplication : forall a b,
  in_i64 a = true -> b <> 0 -> Z.rem a b = 0 ->
  bind (b_arith OpDiv [VInt a; VInt b]) (fun q => b_arith OpMul [q; VInt b]) = Val (VInt a).
Proof. exact exact_division_inverts_multiplication. Qed.
Print Assumptions bi_exact_division_inverts_multiplication.
Theorem bi_arith_edges : forall op v a x rest,
  (op <> OpMul -> b_arith op [v] = Val v) /\ (to_num x = None -> b_arith op (a :: x :: rest) = Fail).
Proof. intros. split; [exact (arith_single_argument op v) | exact (arith_rejects_non_numbers op a x rest)]. Qed.
Print Assumptions bi_arith_edges.

(* ---- comparison ---- *)
Theorem bi_eq_reflexive_on_plain_data : forall n v, plain_data v = true ->
  apply_n n (FCmp OpEq) [v; v] = Val (VBool true) /\ apply_n n (FCmp OpNe) [v; v] = Val (VBool false) /\
  apply_n n (FCmp OpLe) [v; v] = Val (VBool true) /\ apply_n n (FCmp OpLt) [v; v] = Val (VBool false).
Proof. exact eq_reflexive_on_plain_data. Qed.
Print Assumptions bi_eq_reflexive_on_plain_data.
Theorem bi_nil_compares_lowest : forall v, cmp_val VNil v = Val (match v with VNil => 0 | _ => -1 end).
Proof. exact nil_compares_lowest. Qed.
Print Assumptions bi_nil_compares_lowest.

(* ---- symbols, flatten ---- *)
Theorem bi_sym_str_round_trip : forall n s k,
  bind (apply_n k FSym2Str [VSym n]) (fun x => apply_n k FStr2Sym [x]) = Val (VSym n) /\
  bind (apply_n k FStr2Sym [VStr s]) (fun x => apply_n k FSym2Str [x]) = Val (VStr s).
Proof. exact sym_str_round_trip. Qed.
Print Assumptions bi_sym_str_round_trip.
Theorem bi_flatten_nested_list : forall x l, b_flatten [make_list (x :: l)] = b_flatten (x :: l).
Proof. exact flatten_nested_list. Qed.
Print Assumptions bi_flatten_nested_list.
Theorem bi_flatten_words : forall ws, ws <> [] ->
  Forall (fun w => Forall (fun c => c <> 32) w) ws ->
  b_flatten (List.map VStr ws) = Val (VArr (List.map VStr ws)).
Proof. exact flatten_words. Qed.
Print Assumptions bi_flatten_words.

(* ---- the evaluator of builtin-call trees ---- *)
Theorem bi_call_evaluates_arguments_first : forall env f,
  (forall args vs, Forall2 (fun e v => beval env e = Val v) args vs ->
     beval env (BCall f args) = apply_n depth f vs) /\
  (forall pre x post vs, Forall2 (fun e v => beval env e = Val v) pre vs -> beval env x = Fail ->
     beval env (BCall f (pre ++ x :: post)) = Fail).
Proof.
  intros. split.
  - exact (call_applies_to_argument_values env f).
  - exact (call_fails_with_first_failing_argument env f).
Qed.
Print Assumptions bi_call_evaluates_arguments_first.
(* a value bound once and handed to a builtin is afterwards still the value it was (no builtin of the
   model updates an argument; the sharing stream of the tie checks exactly this on the real code) *)
Theorem bi_argument_survives_call : forall env e v f args r,
  beval env e = Val v -> beval (v :: env) (BCall f args) = Val r ->
  beval env (BLet e (BCall FList [BCall f args; BVar 0])) = Val (make_list [r; v]).
Proof. exact argument_survives_call. Qed.
Print Assumptions bi_argument_survives_call.

(* ---- non-vacuity ---- *)
(* (let [a (list 1 2)] (list (concat a (quote (3)) a) a)) = ((1 2 3 1 2) (1 2)) *)
Example bi_ex_sharing :
  beval [] (BLet (BCall FList [BLit (VInt 1); BLit (VInt 2)])
                 (BCall FList [BCall FConcat [BVar 0; BLit (make_list [VInt 3]); BVar 0]; BVar 0]))
  = Val (make_list [make_list [VInt 1; VInt 2; VInt 3; VInt 1; VInt 2]; make_list [VInt 1; VInt 2]]).
Proof. vm_compute. reflexivity. Qed.
(* (concat "a" 'é' "b") = "a\xc3\xa9b", its len is 4 *)
Example bi_ex_utf8 :
  beval [] (BCall FLen [BCall FConcat [BLit (VStr [97]); BLit (VChar 233); BLit (VStr [98])]]) = Val (VInt 4) /\
  utf8 233 = [195; 169] /\ utf8 8364 = [226; 130; 172] /\ utf8 128512 = [240; 159; 152; 128] /\ utf8 55296 = [239; 191; 189].
Proof. vm_compute. repeat split; reflexivity. Qed.
(* (map first (list [1 2] [] [3])) fails at the second element; (map not (list 1 0)) = (false true) *)
Example bi_ex_map :
  beval [] (BCall FMap [BLit (VFun FFirst); BLit (make_list [VArr [VInt 1; VInt 2]; VArr []; VArr [VInt 3]])]) = Fail /\
  beval [] (BCall FMap [BLit (VFun FNot); BLit (make_list [VInt 1; VInt 0])]) = Val (make_list [VBool false; VBool true]).
Proof. vm_compute. split; reflexivity. Qed.
(* (/ 7 2) is a float, (/ 6 3) = 2, (/ 1 0) fails, (+ 'a' 1) = 'b', (cond 0.0 1 2) = 1, (cond '\0' 1 2) = 2 *)
Example bi_ex_numbers :
  beval [] (BCall (FArith OpDiv) [BLit (VInt 6); BLit (VInt 3)]) = Val (VInt 2) /\
  beval [] (BCall (FArith OpDiv) [BLit (VInt 1); BLit (VInt 0)]) = Fail /\
  beval [] (BCall (FPred PFloat) [BCall (FArith OpDiv) [BLit (VInt 7); BLit (VInt 2)]]) = Val (VBool true) /\
  beval [] (BCall (FArith OpAdd) [BLit (VChar 97); BLit (VInt 1)]) = Val (VChar 98) /\
  beval [] (BIf (BLit (VFlt fzero)) (BLit (VInt 1)) (BLit (VInt 2))) = Val (VInt 1) /\
  beval [] (BIf (BLit (VChar 0)) (BLit (VInt 1)) (BLit (VInt 2))) = Val (VInt 2).
Proof. vm_compute. repeat split; reflexivity. Qed.
(* (str (list -12 (quote ab) "a" [1 true])) = "(-12 ab \"a\" [1 true])" ; (flatten "a b" (quote (c "d e"))) *)
Example bi_ex_str_flatten :
  beval [] (BCall FStr [BLit (make_list [VInt (-12); VSym [97; 98]; VStr [97]; VArr [VInt 1; VBool true]])])
  = Val (VStr [40; 45; 49; 50; 32; 97; 98; 32; 34; 97; 34; 32; 91; 49; 32; 116; 114; 117; 101; 93; 41]) /\
  beval [] (BCall FFlatten [BLit (VStr [97; 32; 98]); BLit (make_list [VSym [99]; VStr [100; 32; 101]])])
  = Val (VArr [VStr [97]; VStr [98]; VStr [99]; VStr [100]; VStr [101]]).
Proof. vm_compute. split; reflexivity. Qed.
End BuiltinLaws.
