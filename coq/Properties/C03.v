(* C03: lexical scoping: closures capture where they were made, never the caller.
   Statements only; proofs in Proofs/RefSemProofs.v.  All theorems are about the reference
   evaluator Model/RefSem.v (frames in a store, static chains), for all programs and stores;
   that the scope stack / captured stacks / parent chain of the real interpreter compute the
   same observables is what the correspondence run of checks/c03.py establishes (docs/C03.md). *)
From Coq Require Import ZArith Bool List.
From ZV Require Import Model.Num Model.RefSem Proofs.RefSemProofs Model.ScopeImpl Proofs.ScopeImplProofs.
Import ListNotations.
Open Scope Z_scope.

(* ---- 1. closures ignore the caller's frames ----
   F is any set of frames (the caller's locals) such that the two stores differ only in the
   contents of the frames of F and nothing outside F mentions a frame of F (rel F s1 s2: same
   number of frames, equal outside F, equal arrays / trace / counters, every value stored
   outside F or in an array has a static chain disjoint from F).  Calling a closure whose own
   static chain and arguments do not mention F then gives the same outcome (value / signal /
   out-of-fuel), related final stores (hence the same trace and the same effects on every frame
   outside F), and leaves every frame of F exactly as it was, in both runs. *)
Theorem closure_ignores_caller_env :
  forall (F : nat -> Prop), ~ F 0%nat ->
  forall n nm ps rest body cenv args s1 s2 r s1',
    rel F s1 s2 -> disj F cenv -> Forall (val_ok F) args ->
    apply n (VClos nm ps rest body cenv) args s1 = (r, s1') ->
    exists s2', apply n (VClos nm ps rest body cenv) args s2 = (r, s2') /\
                rel F s1' s2' /\ unt F s1 s1' /\ unt F s2 s2'.
Proof. exact RefSemProofs.closure_ignores_caller_frames. Qed.
Print Assumptions closure_ignores_caller_env.

(* the same for any expression evaluated under a static chain disjoint from F *)
Theorem eval_ignores_hidden_frames :
  forall (F : nat -> Prop), ~ F 0%nat ->
  forall n env e s1 s2 r s1',
    rel F s1 s2 -> disj F env -> eval n env e s1 = (r, s1') ->
    exists s2', eval n env e s2 = (r, s2') /\ rel F s1' s2' /\ unt F s1 s1' /\ unt F s2 s2'.
Proof. exact RefSemProofs.eval_ignores_hidden_frames. Qed.
Print Assumptions eval_ignores_hidden_frames.

(* a closure captures exactly the static chain of the place where it is created *)
Theorem fn_captures_env : forall n env ps rest body s,
  eval (S n) env (EFn ps rest body) s = (Done (VClos None ps rest body env), s).
Proof. exact RefSemProofs.fn_captures_env. Qed.

(* ---- 2. every activation / let / letseq / newScope / for gets a fresh frame ---- *)

Theorem fresh_frame : forall s f s1, push_frame s = (f, s1) ->
  f = length (frames s) /\ nth_error (frames s) f = None /\
  frames s1 = frames s ++ [[]] /\ nth_error (frames s1) f = Some [] /\
  (forall g, (g < length (frames s))%nat -> nth_error (frames s1) g = nth_error (frames s) g) /\
  arrays s1 = arrays s /\ trace s1 = trace s.
Proof. exact RefSemProofs.push_frame_fresh. Qed.
Print Assumptions fresh_frame.

Theorem fresh_activation : forall n nm ps rest body cenv args s binds,
  zip_params ps rest args [] = Some binds ->
  apply (S n) (VClos nm ps rest body cenv) args s =
  (_ <- bind_all (length (frames s)) binds ;;
   no_loop_sig ELoop (ev_begin (eval n) (length (frames s) :: cenv) body)) (snd (push_frame s)).
Proof. exact RefSemProofs.apply_closure_fresh. Qed.
Print Assumptions fresh_activation.

Theorem fresh_let : forall n env bs body s,
  eval (S n) env (ELet false bs body) s =
  (vs <- ev_list (eval n) (length (frames s) :: env) (map snd bs) ;;
   _ <- bind_all (length (frames s)) (rev (combine (map fst bs) vs)) ;;
   ev_begin (eval n) (length (frames s) :: env) body) (snd (push_frame s)).
Proof. exact RefSemProofs.let_fresh. Qed.

Theorem fresh_letseq : forall n env bs body s,
  eval (S n) env (ELet true bs body) s =
  (_ <- ev_letseq (eval n) (length (frames s)) (length (frames s) :: env) bs ;;
   ev_begin (eval n) (length (frames s) :: env) body) (snd (push_frame s)).
Proof. exact RefSemProofs.letseq_fresh. Qed.

Theorem fresh_scope : forall n env es s,
  eval (S n) env (EScope es) s =
  ev_begin (eval n) (length (frames s) :: env) es (snd (push_frame s)).
Proof. exact RefSemProofs.scope_fresh. Qed.

Theorem fresh_for : forall n env lbl i t st body s,
  eval (S n) env (EFor lbl i t st body) s =
  (_ <- no_loop_sig EUnspec (eval n (length (frames s) :: env) i) ;;
   for_loop (eval n) n (length (frames s) :: env) lbl t st body) (snd (push_frame s)).
Proof. exact RefSemProofs.for_fresh. Qed.

(* ---- 3. closures of one activation share its variables ---- *)

(* an update made through one static chain is seen through every chain that finds the name
   in the same frame (two closures created in one activation hold the same frame id, by
   fn_captures_env) *)
Theorem siblings_share : forall s env1 env2 x f v1 v2 v,
  lookup_chain (frames s) env1 x = Some (f, v1) ->
  lookup_chain (frames s) env2 x = Some (f, v2) ->
  lookup_chain (frames (upd_frame f x v s)) env2 x = Some (f, v).
Proof. exact RefSemProofs.update_seen_by_sibling. Qed.
Print Assumptions siblings_share.

(* ---- 4. captured variables outlive the activation: frames and bindings are never removed ---- *)

Theorem captured_frame_outlives : forall n env e s r s',
  eval n env e s = (r, s') ->
  (forall f fr x v, nth_error (frames s) f = Some fr -> assoc x fr = Some v ->
     exists fr' v', nth_error (frames s') f = Some fr' /\ assoc x fr' = Some v') /\
  (forall f, (f < length (frames s))%nat -> (f < length (frames s'))%nat).
Proof.
  intros n env e s r s' H. destruct (RefSemProofs.eval_extends_store _ _ _ _ _ _ H) as (_ & A & B & _).
  exact (conj A B).
Qed.
Print Assumptions captured_frame_outlives.

Theorem captured_frame_outlives_apply : forall n f args s r s',
  apply n f args s = (r, s') ->
  (forall g fr x v, nth_error (frames s) g = Some fr -> assoc x fr = Some v ->
     exists fr' v', nth_error (frames s') g = Some fr' /\ assoc x fr' = Some v') /\
  (forall g, (g < length (frames s))%nat -> (g < length (frames s'))%nat).
Proof.
  intros n f args s r s' H. destruct (RefSemProofs.apply_extends_store _ _ _ _ _ _ H) as (_ & A & B & _).
  exact (conj A B).
Qed.
Print Assumptions captured_frame_outlives_apply.

(* ---- 5. shadowing follows the static chain: the innermost binding wins ---- *)

Theorem shadowing_innermost : forall fs env x f v,
  lookup_chain fs env x = Some (f, v) ->
  exists env1 env2 fr,
    env = env1 ++ f :: env2 /\ nth_error fs f = Some fr /\ assoc x fr = Some v /\
    Forall (fun g => forall fg, nth_error fs g = Some fg -> assoc x fg = None) env1.
Proof. exact RefSemProofs.lookup_chain_innermost. Qed.
Print Assumptions shadowing_innermost.

Theorem lookup_head_binds : forall fs f env x fr v,
  nth_error fs f = Some fr -> assoc x fr = Some v -> lookup_chain fs (f :: env) x = Some (f, v).
Proof. exact RefSemProofs.lookup_chain_head. Qed.

Theorem lookup_skips_unbound : forall fs f env x fr,
  nth_error fs f = Some fr -> assoc x fr = None ->
  lookup_chain fs (f :: env) x = lookup_chain fs env x.
Proof. exact RefSemProofs.lookup_chain_skip. Qed.

(* ---- 6. lookup_is_lexical: the REAL scope mechanism implements the static chains ----
   Model/ScopeImpl.v mirrors environment.go:LexicalLookupSymbol / LexicalBindSymbol,
   scopes.go:LookupSymbolUntilFunction / BindSymbol, closing.go:NewClosing, expressions.go:
   LookupSymbolInParentChainOfClosures, vm.go:CreateClosureInstr / AddFuncScopeInstr / AddScopeInstr /
   RemoveScopeInstr, functions.go:MakeFunction (state: live scope stack with function-boundary flags, current
   function with captured stack and parent, saved functions).  The harness replays the real VM's scope events on
   the extracted machine and compares the lookup structure before every lookup/bind instruction. *)

(* core machine (live stack, closures' captured stacks, parent chain): the staged lookup is lexical lookup on
   the static chain whenever the scopes it consults, in order, are the frames of that chain *)
Theorem lookup_is_lexical : forall fs env st x, R env st ->
  impl_lookup fs st x = lookup_chain fs env x.
Proof. exact ScopeImplProofs.lookup_is_lexical. Qed.
Print Assumptions lookup_is_lexical.

Theorem def_target_is_lexical : forall env st, R env st -> live st <> [] -> bind_target st = hd O env.
Proof. exact ScopeImplProofs.def_target_is_lexical. Qed.

Theorem set_target_is_lexical : forall fs env st x, R env st -> live st <> [] ->
  set_target fs st x = match lookup_chain fs env x with Some (f, _) => f | None => hd O env end.
Proof. exact ScopeImplProofs.set_target_is_lexical. Qed.

(* (i) the relation holds initially; (ii) it is preserved by every scope-relevant event: entering / leaving a
   let, letseq, newScope or for scope (and each unit of a break's scopesToPop), evaluating an argument in its
   callExprEval function and leaving it, calling a closure (CallFunction + AddFuncScope), returning, the self tail
   call (remove the extra scopes and the function scope, re-enter through AddFuncScope), def / set / closure
   creation; (iii) hence in every reachable configuration the real lookup is lexical *)
Theorem scope_inv_init : inv [mkJ [O] [] false O] init_istate.
Proof. exact ScopeImplProofs.inv_init. Qed.

Theorem scope_inv_preserved : forall frs st frs' st',
  inv frs st -> jstep (frs, st) (frs', st') -> inv frs' st'.
Proof. exact ScopeImplProofs.inv_preserved. Qed.
Print Assumptions scope_inv_preserved.

Theorem reachable_lookup_is_lexical : forall fs fr rest st x,
  jsteps ([mkJ [O] [] false O], init_istate) (fr :: rest, st) ->
  impl_lookup fs st x = lookup_chain fs (jf_env fr) x.
Proof. exact ScopeImplProofs.reachable_lookup_is_lexical. Qed.
Print Assumptions reachable_lookup_is_lexical.

(* a closure created in a reachable configuration captures the static chain of the running code (NewClosing
   trims at the innermost function scope; the parent chain supplies the rest): this is the premise of J_call *)
Theorem reachable_closure_captures : forall fr rest st,
  jsteps ([mkJ [O] [] false O], init_istate) (fr :: rest, st) ->
  map sc_id (pchain (create_closure st)) = jf_env fr.
Proof. exact ScopeImplProofs.reachable_closure_captures. Qed.
Print Assumptions reachable_closure_captures.

(* faithful layer (MakeFunction snapshots for mainfunc, callExprEval functions and templates; the third stage of
   LexicalLookupSymbol): under cov the real three-stage lookup equals the lookup of the core machine, hence is
   lexical; cov holds initially and is re-established by each transition.
   The local cov lemmas are assembled into one induction over event sequences (invF_preserved / invF_reachable
   below); every event of the faithful machine erases to the same event of the core machine (fstep_erases), so one
   run carries scope_inv and cov together and reachable_lookupF_is_lexical has no cov premise.
   lookup_is_lexical_partial -- what is NOT closed: (a) the premise  incl tmpl (corep f)  of F_call / F_tail_call
   (the template's captured stack lies inside the chain of the closure entered) is a fact about when templates are
   compiled; it is not proved, the replay TESTS it at every function entry of every run (call_premise_b, sound by
   call_premise_sound) and tests cov itself at every compared point (covb, sound by covb_sound);
   (b) that RefSem.eval emits exactly these events is by construction of the evaluator, not a theorem. *)
Theorem lookup_is_lexical_faithful : forall fs env st x, cov st -> R env (erase st) ->
  impl_lookupF fs st x = lookup_chain fs env x.
Proof. exact ScopeImplProofs.lookup_is_lexical_faithful. Qed.
Print Assumptions lookup_is_lexical_faithful.

Theorem faithful_lookup_is_core : forall fs st x, cov st -> impl_lookupF fs st x = impl_lookup fs (erase st) x.
Proof. exact ScopeImplProofs.faithful_lookup_is_core. Qed.

Theorem cov_init : cov init_istateF.
Proof. exact ScopeImplProofs.cov_init. Qed.
Theorem cov_add_scope : forall id st, cov st -> cov (add_scopeF id st).
Proof. exact ScopeImplProofs.cov_add_scope. Qed.
Theorem cov_enter_arg : forall st, cov st -> cov (enter_argF st).
Proof. exact ScopeImplProofs.cov_enter_arg. Qed.
Theorem cov_create_closure : forall st, cov st -> wf_clos (create_closureF st).
Proof. exact ScopeImplProofs.cov_create_closure. Qed.
Theorem cov_call : forall f id tmpl st, wf_clos f -> incl tmpl (corep f) ->
  cov (add_func_scopeF id tmpl (enter_fnF f st)).
Proof. exact ScopeImplProofs.cov_call. Qed.
Theorem cov_tail_call : forall k id tmpl st cl par, curF st = GSub false cl par -> wf_clos (curF st) ->
  incl tmpl (corep (curF st)) -> cov (add_func_scopeF id tmpl (pop_scopesF k st)).
Proof. exact ScopeImplProofs.cov_tail_call. Qed.
Theorem cov_restore : forall st0 st1, cov st0 -> liveF st1 = liveF st0 -> curF st1 = curF st0 -> cov st1.
Proof. exact ScopeImplProofs.cov_restore. Qed.


(* the assembled form: events of the faithful machine (frames as in scope_inv; the pool holds the closures created
   so far, only those are called) *)
Theorem invF_init : invF [mkJ [O] [] false O] [] init_istateF.
Proof. exact ScopeImplProofs.invF_init. Qed.
Theorem invF_preserved : forall frs pool st frs' pool' st',
  invF frs pool st -> fstep (frs, pool, st) (frs', pool', st') -> invF frs' pool' st'.
Proof. exact ScopeImplProofs.invF_preserved. Qed.
Theorem invF_cov : forall frs pool st, invF frs pool st -> cov st.
Proof. exact ScopeImplProofs.invF_cov. Qed.
Theorem fstep_erases : forall frs pool st frs' pool' st',
  fstep (frs, pool, st) (frs', pool', st') -> jstep (frs, erase st) (frs', erase st').
Proof. exact ScopeImplProofs.fstep_erases. Qed.

(* the REAL three-stage lookup is lexical in every configuration reached by the events *)
Theorem reachable_lookupF_is_lexical : forall fs fr rest pool st x,
  fsteps finit (fr :: rest, pool, st) ->
  impl_lookupF fs st x = lookup_chain fs (jf_env fr) x.
Proof. exact ScopeImplProofs.reachable_lookupF_is_lexical. Qed.
Print Assumptions reachable_lookupF_is_lexical.

Theorem reachable_closureF_captures : forall fr rest pool st,
  fsteps finit (fr :: rest, pool, st) ->
  corep (create_closureF st) = jf_env fr /\ wf_clos (create_closureF st).
Proof. exact ScopeImplProofs.reachable_closureF_captures. Qed.
Print Assumptions reachable_closureF_captures.

(* the decidable forms the replay evaluates are sound *)
Theorem covb_sound : forall st, covb st = true -> cov st.
Proof. exact ScopeImplProofs.covb_sound. Qed.
Theorem call_premise_sound : forall tmpl f, call_premise_b tmpl f = true -> incl tmpl (corep f).
Proof. exact ScopeImplProofs.call_premise_sound. Qed.

(* the events are not vacuous: enter a let scope, create a closure there, leave, call the closure -- its body
   looks up through its function scope 2, the captured let scope 1 and the global scope 0 *)
Example ex_fsteps :
  let st1 := add_scopeF 1 init_istateF in
  let f := create_closureF st1 in
  fsteps finit ([mkJ [2; 1; 0]%nat [1; 0]%nat true 1; mkJ [O] [] false O], [f],
                add_func_scopeF 2 [] (enter_fnF f (remove_scopeF st1))).
Proof.
  simpl. eapply fs_step; [apply F_enter_scope with (id := 1%nat)|].
  eapply fs_step; [apply F_create_closure|].
  eapply fs_step; [eapply F_leave_scope with (d := O); [reflexivity|reflexivity|discriminate]|].
  eapply fs_step; [eapply (F_call _ _ _ _ 2%nat []); [left; reflexivity|apply incl_nil_l]|].
  apply fs_refl.
Qed.

(* ---- 7. non-vacuity ---- *)

(* a closure created inside function scope 1 with a let scope 2 on top, called later from elsewhere with its own
   function scope 5 on a live stack that also holds the caller's scopes 3 and 4: the lookup consults 5, then the
   captured 2 and 1, then the parent's captured global 0 -- never 3 or 4 *)
Example ex_impl_chain :
  let c := FSub (Some [mkScope 2 false; mkScope 1 true]) (FSub (Some [mkScope 0 false]) FMain) in
  map sc_id (impl_chain (mkI [mkScope 5 true; mkScope 4 false; mkScope 3 true; mkScope 0 false] c [])) = [5; 2; 1; 0]%nat.
Proof. vm_compute. reflexivity. Qed.


(* a while-style loop (nil init clause) has a scope of its own like every for (fresh_for is stated for any init):
   (def x 1) (def i 0) (for [nil (< i 1) (set i (+ i 1))] (def x 5)) x  = 1 *)
Example ex_while_loop_scope :
  o_res (eval_program 60 [EDef 100 (EInt 1); EDef 200 (EInt 0);
                          EFor None ENil (ECall (EVar 4) [EVar 200; EInt 1]) (ESet 200 (ECall (EVar 1) [EVar 200; EInt 1]))
                            [EDef 100 (EInt 5)];
                          EVar 100])
  = Done (SvInt 1).
Proof. vm_compute. reflexivity. Qed.

(* a free variable ten closure levels up is found through the static chain, whatever its length: the same-named
   global 100 is not what the innermost function sees *)
Example ex_deep_chain :
  let nest := fix nest (n : nat) (e : expr) : expr := match n with O => e | S k => EFn [] None [nest k e] end in
  let calls := fix calls (n : nat) (e : expr) : expr := match n with O => e | S k => calls k (ECall e []) end in
  o_res (eval_program 80 [EDef 100 (EInt 100); EDefn 101 [100] None [nest 10%nat (EVar 100)];
                          calls 10%nat (ECall (EVar 101) [EInt 7])])
  = Done (SvInt 7).
Proof. vm_compute. reflexivity. Qed.

(* (def x 10) (defn f [] x) (defn g [x] (f)) (g 1) = 10, not 1 *)
Example ex_not_dynamic :
  o_res (eval_program 50 [EDef 100 (EInt 10); EDefn 101 [] None [EVar 100];
                          EDefn 102 [100] None [ECall (EVar 101) []]; ECall (EVar 102) [EInt 1]])
  = Done (SvInt 10).
Proof. vm_compute. reflexivity. Qed.

(* (defn mk [] (def x 0) [(fn [] (set x (+ x 1))) (fn [] x)]) (def a (mk)) (def b (mk))
   ((aget a 0)) ((aget a 0)) (list ((aget a 1)) ((aget b 1)))  =  (2 0) *)
Example ex_counters :
  o_res (eval_program 80
    [EDefn 110 [] None [EDef 100 (EInt 0);
        EArr [EFn [] None [ESet 100 (ECall (EVar 1) [EVar 100; EInt 1])]; EFn [] None [EVar 100]]];
     EDef 111 (ECall (EVar 110) []); EDef 112 (ECall (EVar 110) []);
     ECall (ECall (EVar 16) [EVar 111; EInt 0]) [];
     ECall (ECall (EVar 16) [EVar 111; EInt 0]) [];
     ECall (EVar 14) [ECall (ECall (EVar 16) [EVar 111; EInt 1]) [];
                      ECall (ECall (EVar 16) [EVar 112; EInt 1]) []]])
  = Done (SvPair (SvInt 2) (SvPair (SvInt 0) SvNil)).
Proof. vm_compute. reflexivity. Qed.

(* the hypotheses of closure_ignores_caller_env are satisfiable with a non-empty F:
   frame 1 hidden, two stores that differ in it *)
Example ex_rel_nonempty :
  rel (fun f => f = 1%nat)
      (mkStore [global_frame; [(100, VInt 1)]] [] [] 0 0)
      (mkStore [global_frame; [(100, VInt 2)]] [] [] 0 0).
Proof.
  constructor; simpl; auto.
  - intros f ->. auto.
  - intros f Hf. destruct f as [|[|f]]; try reflexivity. congruence.
  - intros f fr Hf Hn. destruct f as [|[|f]]; simpl in Hn.
    + inversion Hn; subst. unfold global_frame. repeat constructor.
    + congruence.
    + destruct f; discriminate.
  - intros a o Ha. destruct a; discriminate.
Qed.
