(* C03: lexical scoping.  Statements only. *)
From Coq Require Import ZArith List.
From ZV Require Import Model.Num Model.RefSem.
Import ListNotations.
Open Scope Z_scope.

(* non-vacuity: (def x 10) (defn f [] x) (defn g [x] (f)) (g 1)  evaluates to 10, not 1 *)
Example ex_not_dynamic :
  o_res (eval_program 50 [EDef 100 (EInt 10); EDefn 101 [] None [EVar 100];
                          EDefn 102 [100] None [ECall (EVar 101) []]; ECall (EVar 102) [EInt 1]])
  = Done (SvInt 10).
Proof. vm_compute. reflexivity. Qed.
