(* C04 — an evaluation that succeeds leaves nothing behind in the interpreter.
   Final statements only (proofs: Proofs/VerifierProofs.v; model: Model/Bytecode.v, Model/Verifier.v).

   astep code fi    one step of the value-free abstract machine (effects of Bytecode.eff)
   arun code fi     any number of steps, every control path, loops included
   check_fn         the certificate checker that bin/check runs (extracted) on the real bytecode *)
From Coq Require Import List ZArith Bool Arith.
Require Import ZV.Model.RefSem.
Require ZV.Model.GenF1.
Require Import ZV.Model.Bytecode ZV.Model.Verifier ZV.Model.VerifierExamples ZV.Proofs.VerifierProofs.
Require Import ZV.Model.GenAnnot ZV.Proofs.GenVerifies.
Require Import ZV.Model.Resident ZV.Proofs.ResidentProofs.
Require ZV.Proofs.GenF1Proofs ZV.Proofs.GenF1Rest.
Require ZV.Proofs.GenVerifiesLoops.
Import ListNotations.
Local Open Scope nat_scope.

(* every run of a verified function from its entry (np arguments above base, depths s0 a0 l0)
   that reaches a Return has consumed its np arguments and left exactly one value above base;
   scope, address and loop depth are those of entry *)
Theorem check_sound : forall code fi is_main np a base s0 a0 l0 s s',
  check_fn code fi is_main np a = true -> (is_main = true -> base = []) ->
  entry np base s0 a0 l0 s -> arun code fi s s' ->
  nth_error code (pc s') = Some IReturn ->
  data s' = Val :: base /\ length (data s') = length (data s) - np + 1 /\
  sc s' = sc s /\ ad s' = ad s /\ lp s' = lp s.
Proof. exact check_sound_lemma. Qed.
Print Assumptions check_sound.

(* at every reachable instruction of verified code the stack operations of the instruction succeed
   and leave base (what the caller owns) and the caller's s0 scopes untouched *)
Theorem verified_no_underflow : forall code fi is_main np a base s0 a0 l0 s s' i ops c n,
  check_fn code fi is_main np a = true -> (is_main = true -> base = []) ->
  entry np base s0 a0 l0 s -> arun code fi s s' ->
  nth_error code (pc s') = Some i -> eff fi i = Some (ops, c) ->
  exists c' k', crun_dops n ops (data s', sc s') = Some (c' ++ base, s0 + k').
Proof. exact verified_no_underflow_lemma. Qed.
Print Assumptions verified_no_underflow.

(* a real call (callee entered, run to its Return, caller resumed) keeps the caller inside its
   invariant when every function of the program passes check_fn: the atomic call step of astep
   is justified by the callee's own certificate (induction over the execution / call depth) *)
Theorem calls_justified : forall prog,
  (forall g, In g prog -> fmain g = false /\ fn_ok g) ->
  forall f s s', bigrun prog f s s' -> fn_ok f ->
  forall base s0 a0 l0, (fmain f = true -> base = []) ->
  Inv (fcode f) (fmain f) (fannot f) base s0 a0 l0 s -> Inv (fcode f) (fmain f) (fannot f) base s0 a0 l0 s'.
Proof. exact calls_justified_lemma. Qed.
Print Assumptions calls_justified.

(* from the interpreter at rest, a verified top-level chunk that runs to its end leaves the
   interpreter at rest once Run has popped the result *)
Theorem toplevel_rest : forall code fi a s s',
  check_fn code fi true 0 a = true -> at_rest s = true -> pc s = 0 ->
  arun code fi s s' -> length code <= pc s' -> at_rest (run_finish s') = true.
Proof. exact toplevel_rest_lemma. Qed.
Print Assumptions toplevel_rest.

(* after ANY history of completed evaluations of verified chunks the interpreter is at rest:
   an idle interpreter does not grow with the number of evaluations it has served *)
Theorem idle_bounded : forall chunks s s', at_rest s = true -> history chunks s s' -> at_rest s' = true.
Proof. exact idle_bounded_lemma. Qed.
Print Assumptions idle_bounded.

(* forms one at a time (any split into chunks) or all in one text: the same rest state *)
Theorem one_by_one_eq_together : forall chunks together s s1 s2,
  at_rest s = true -> history chunks s s1 -> eval_chunk together s s2 ->
  at_rest s1 = true /\ at_rest s2 = true /\
  (data s1, sc s1, ad s1, lp s1) = (data s2, sc s2, ad s2, lp s2).
Proof. exact one_by_one_eq_together_lemma. Qed.
Print Assumptions one_by_one_eq_together.

(* self tail call (RemoveScope.. ; PrepareCall ; Goto 0): whenever a run is back at pc 0 the four
   stacks are exactly as at the first entry — constant space per iteration, for any number of
   iterations (cited by C09) *)
Theorem tail_goto_same_annot : forall code fi is_main np a base s0 a0 l0 s s',
  check_fn code fi is_main np a = true -> (is_main = true -> base = []) ->
  tail_entry_unique np a = true ->
  entry np base s0 a0 l0 s -> arun code fi s s' -> pc s' = 0 -> 0 < length code ->
  data s' = data s /\ sc s' = sc s /\ ad s' = ad s /\ lp s' = lp s.
Proof. exact tail_goto_same_annot_lemma. Qed.
Print Assumptions tail_goto_same_annot.

(* trace conformance is meaningful: a transition accepted by effect_ok is a step of astep *)
Theorem effect_ok_is_step : forall code fi s s', effect_ok code fi s s' = true -> astep code fi s s'.
Proof. exact effect_ok_is_step_lemma. Qed.
Print Assumptions effect_ok_is_step.

(* ---- generator + checker (with the C02 model of the real code generator, Model/GenF1.v) ----
   gen_verifies for the loop-free fragment F0 (literals, variables, calls as one instruction, begin,
   cond, and/or, def/set, let, letseq, newScope; every nesting): EVERY output of the model generator,
   mapped to the checker's instruction type by to_bytecode, is accepted by check_fn with the
   annotation annot_of built by structural recursion on the expression. *)
Theorem gen_verifies_F0 : forall fi e, GenF1.f1 e = true -> lf e = true ->
  check_fn (to_bytecode (GenF1.gen GenF1.top 0 e)) fi true 0 (annot_of e) = true.
Proof. exact gen_verifies_F0_lemma. Qed.
Print Assumptions gen_verifies_F0.

(* The full statement for F1 = F0 + for / break / continue is
     forall fi e, GenF1.f1 e = true -> cc [] e = true ->
       exists a, check_fn (to_bytecode (GenF1.gen GenF1.top 0 e)) fi true 0 a = true.
   Proved so far: the part without loops (the premise lf).  Missing: the annotation of
   GenerateForLoop (states at the continue / break labels = the loop's clean state plus one state
   per continue / break site, the increment annotated under each of them), with the two side
   lemmas it needs (jump states have the shape  junk ++ mark :: below  with marks of inner loops only;
   cc [] on init/test/step means no escaping jump).  to_bytecode already maps the loop instructions. *)
Theorem gen_verifies_F1_partial : forall fi e, GenF1.f1 e = true -> lf e = true ->
  exists a, check_fn (to_bytecode (GenF1.gen GenF1.top 0 e)) fi true 0 a = true.
Proof. intros fi e Hf Hl. exists (annot_of e). now apply gen_verifies_F0_lemma. Qed.
Print Assumptions gen_verifies_F1_partial.

(* round 7 — for loops.  GenVerifiesLoops.annL extends the compositional annotation by GenerateForLoop
   (LoopStart, AddScope, PushStackmark n, the four labels, init / increment / test / body each followed by
   its PopUntilStackmark n or Branch, the backward Jump, ClearStackmark n, RemoveScope, Push nil: the
   loop's clean state  mark n :: s, one more scope  at every label, one value more after each part);
   GenVerifiesLoops.nj e = no break / continue anywhere in e (for loops in ANY nesting with
   begin / cond / and / or / def / set / let / letseq / newScope and with each other - in init, test,
   increment and body - are allowed).  The full statement (see above) also covers break / continue; what is
   still missing for it: the states that a break / continue carries to the loop's exit / increment label
   (junk ++ marks of inner loops ++ mark n :: s) as extra members of the sets at those labels, i.e. every
   helper lemma again with "escaping jump states flow to their loop record's positions" as a hypothesis. *)
Theorem gen_verifies_F1_loops_partial : forall fi e,
  GenF1.f1 e = true -> GenVerifiesLoops.nj e = true ->
  exists a, check_fn (to_bytecode (GenF1.gen GenF1.top 0 e)) fi true 0 a = true.
Proof.
  intros fi e Hf Hn. exists (GenVerifiesLoops.annot_ofL e). now apply GenVerifiesLoops.gen_verifies_loops_lemma.
Qed.
Print Assumptions gen_verifies_F1_loops_partial.

(* the same with the annotation named: it is the compositional one *)
Theorem gen_verifies_loops : forall fi e, GenF1.f1 e = true -> GenVerifiesLoops.nj e = true ->
  check_fn (to_bytecode (GenF1.gen GenF1.top 0 e)) fi true 0 (GenVerifiesLoops.annot_ofL e) = true.
Proof. exact GenVerifiesLoops.gen_verifies_loops_lemma. Qed.
Print Assumptions gen_verifies_loops.

(* the loop-free fragment is a strict part of it *)
Theorem lf_is_jump_free : forall e, lf e = true -> GenVerifiesLoops.nj e = true.
Proof. exact GenVerifiesLoops.lf_nj. Qed.
Print Assumptions lf_is_jump_free.

(* generator + machine for programs with loops: ANY path of the value-free machine through the code of a
   jump-free F1 program (any number of iterations, both outcomes of every test) from rest to the end of
   the code leaves the interpreter at rest *)
Theorem loops_leave_nothing_behind : forall fi e s s',
  GenF1.f1 e = true -> GenVerifiesLoops.nj e = true -> at_rest s = true -> Verifier.pc s = 0 ->
  arun (to_bytecode (GenF1.gen GenF1.top 0 e)) fi s s' ->
  length (to_bytecode (GenF1.gen GenF1.top 0 e)) <= Verifier.pc s' ->
  at_rest (run_finish s') = true.
Proof. exact GenVerifiesLoops.loops_leave_nothing_behind_lemma. Qed.
Print Assumptions loops_leave_nothing_behind.

(* non-vacuity: a labelled for whose increment is a let, whose test is an and, whose body holds a second for
   (with a cond and a newScope in its body) under a letseq: in F1, jump-free, NOT loop-free, accepted *)
Example gen_verifies_loops_applies :
  let e := EBegin [EDef 1%Z (EInt 0);
                   EFor (Some 9%Z) (EDef 2%Z (EInt 0)) (EAnd [EVar 2%Z; ECall (EVar 3%Z) [EVar 2%Z]])
                        (ELet false [(4%Z, EInt 1)] [ESet 2%Z (EVar 4%Z)])
                        [ELet true [(5%Z, EVar 2%Z)]
                           [EFor None (EDef 6%Z (EInt 0)) (EVar 6%Z) (ESet 6%Z (EInt 1))
                                 [ECond [(EVar 6%Z, EScope [EInt 1; EVar 5%Z])] (EInt 2); EVar 6%Z]];
                         ESet 1%Z (EVar 2%Z)];
                   EVar 1%Z] in
  GenF1.f1 e = true /\ GenVerifiesLoops.nj e = true /\ lf e = false /\
  check_fn (to_bytecode (GenF1.gen GenF1.top 0 e)) {| f_varargs := false; f_nargs := 0 |} true 0
           (GenVerifiesLoops.annot_ofL e) = true.
Proof. vm_compute. repeat split; reflexivity. Qed.

(* generator + machine, no longer per-program translation validation: the code of ANY loop-free
   program, run from the interpreter at rest along any path to its end, leaves it at rest *)
Theorem f0_leaves_nothing_behind : forall fi e s s',
  GenF1.f1 e = true -> lf e = true -> at_rest s = true -> Verifier.pc s = 0 ->
  arun (to_bytecode (GenF1.gen GenF1.top 0 e)) fi s s' ->
  length (to_bytecode (GenF1.gen GenF1.top 0 e)) <= Verifier.pc s' ->
  at_rest (run_finish s') = true.
Proof. exact f0_leaves_nothing_behind_lemma. Qed.
Print Assumptions f0_leaves_nothing_behind.

(* the compositional annotation on a nested program, by computation *)
Example annot_of_nested :
  let e := EBegin [EDef 1%Z (EInt 3);
                   ECond [(EVar 1%Z, EAnd [EInt 1; EVar 1%Z; ECall (EVar 2%Z) [EInt 1]]);
                          (EBool true, ELet false [(3%Z, EInt 1); (4%Z, EOr [EInt 2; EInt 3])] [EVar 3%Z; ESet 3%Z (EVar 4%Z)])]
                         (ELet true [(5%Z, EInt 1); (6%Z, EVar 5%Z)] [EScope [EInt 1; EVar 6%Z]])] in
  GenF1.f1 e = true /\ lf e = true /\
  check_fn (to_bytecode (GenF1.gen GenF1.top 0 e)) {| f_varargs := false; f_nargs := 0 |} true 0 (annot_of e) = true.
Proof. vm_compute. repeat split; reflexivity. Qed.

(* ---- non-vacuity: check_fn accepts the real bytecode of real functions ---- *)
Example accepts_sumto :   (* tail-recursive, self tail call inside let inside cond *)
  check_fn code_sumto {| f_varargs := false; f_nargs := 2 |} false 2 annot_sumto = true
  /\ tail_entry_unique 2 annot_sumto = true.
Proof. vm_compute. split; reflexivity. Qed.
Example accepts_brk :     (* labelled for, break/continue through let + newScope *)
  check_fn code_brk {| f_varargs := false; f_nargs := 1 |} false 1 annot_brk = true.
Proof. vm_compute. reflexivity. Qed.
Example accepts_sq :      (* varargs, syntax-quote with unquote-splicing (Explode / Squash / Vectorize) *)
  check_fn code_sq {| f_varargs := true; f_nargs := 1 |} false 2 annot_sq = true.
Proof. vm_compute. reflexivity. Qed.
Example accepts_assign :  (* assignment to a quoted target used as the function's value *)
  check_fn code_sq0 {| f_varargs := false; f_nargs := 0 |} false 0 annot_sq0 = true.
Proof. vm_compute. reflexivity. Qed.
(* ---- and rejects the body FuncBuilder emitted for a body-less func before fix 78df25e (two values at Return) ---- *)
Example rejects_e5 :
  check_fn code_e5 {| f_varargs := false; f_nargs := 0 |} false 0 annot_e5 = false.
Proof. vm_compute. reflexivity. Qed.
(* a step of the real VM as observed by the harness: Squash over an exploded list *)
Example effect_ok_squash :
  effect_ok [IPushMarker; IPush; IExplode; ISquash] {| f_varargs := false; f_nargs := 0 |}
    (mkc 3 [Val; Val; Val; Marker; Mark 7] 2 1 0) (mkc 4 [Val; Mark 7] 2 1 0) = true.
Proof. vm_compute. reflexivity. Qed.

(* ---- for / break / continue inside the proved fragment (semantic form; with C02's gen_sim) ----
   For EVERY expression of F1 = F0 + for / break / continue (labelled or not, every nesting; cc [] =
   every jump finds its loop) whose evaluation returns a value, the run of the code that the model of the
   real generator emits, on the VM model of Model/GenF1.v (values, scope chain, stack marks), ends exactly
   at the end of the code with that one value on the data stack and the scope chain of entry: the stack
   marks of all loops, whatever a break / continue jumped away from, and every scope opened inside the
   loops are gone, for any number of iterations. *)
Theorem f1_value_run : forall n e env s v s',
  GenF1.f1 e = true -> cc [] e = true -> eval n env e s = (Done v, s') ->
  GenF1Proofs.star n (GenF1.gen GenF1.top 0 e) (GenF1.mkVm 0 [] env s)
       (GenF1.mkVm (length (GenF1.gen GenF1.top 0 e)) [GenF1.SV v] env s').
Proof. exact GenF1Rest.f1_value_run_lemma. Qed.
Print Assumptions f1_value_run.

(* ... hence from rest to rest (value-free projection GenF1Rest.proj of the VM state) *)
Theorem f1_leaves_nothing_behind : forall n e g s v s',
  GenF1.f1 e = true -> cc [] e = true -> eval n [g] e s = (Done v, s') ->
  exists final,
    GenF1Proofs.star n (GenF1.gen GenF1.top 0 e) (GenF1.mkVm 0 [] [g] s) final /\
    GenF1.pc final = length (GenF1.gen GenF1.top 0 e) /\ GenF1.st final = s' /\
    at_rest (GenF1Rest.proj (GenF1.mkVm 0 [] [g] s)) = true /\
    at_rest (run_finish (GenF1Rest.proj final)) = true.
Proof. exact GenF1Rest.f1_leaves_nothing_behind_lemma. Qed.
Print Assumptions f1_leaves_nothing_behind.

(* the two machine models agree: every step of C02's VM model (values, scope chain) that stays inside the
   code is a step of C04's value-free machine on the same code (GenAnnot.to_bytecode), between the
   projected states — GenF1.step is abstracted by astep, instruction by instruction *)
Theorem step_is_astep : forall n code fi s s', GenF1Rest.back_ok code ->
  GenF1.step n code s = GenF1.Next s' -> GenF1.pc s' <= length code ->
  astep (to_bytecode code) fi (GenF1Rest.proj s) (GenF1Rest.proj s').
Proof. exact GenF1Rest.step_is_astep_lemma. Qed.
Print Assumptions step_is_astep.

(* the code of the generator model never jumps backwards out of the code *)
Theorem gen_back_ok : forall c n e, GenF1Rest.back_ok (GenF1.gen c n e).
Proof. exact GenF1Rest.gen_back_ok. Qed.
Print Assumptions gen_back_ok.

(* for / break / continue on the value-free machine that check_fn, toplevel_rest and the trace
   conformance speak about: for EVERY F1 program whose evaluation returns a value there is a run (arun)
   of the mapped code from the interpreter at rest to the end of the code that leaves exactly one value,
   hence rest after Run has popped it *)
Theorem f1_value_arun : forall n fi e g s v s',
  GenF1.f1 e = true -> cc [] e = true -> eval n [g] e s = (Done v, s') ->
  exists c1, arun (to_bytecode (GenF1.gen GenF1.top 0 e)) fi (mkc 0 [] 1 0 0) c1 /\
             Verifier.pc c1 = length (to_bytecode (GenF1.gen GenF1.top 0 e)) /\ data c1 = [Val] /\
             at_rest (run_finish c1) = true.
Proof. exact GenF1Rest.f1_value_arun_closed_lemma. Qed.
Print Assumptions f1_value_arun.

(* non-vacuity: (for la: [(def i 0) (< i 3) (set i (+ i 1))] (for [(def j 0) (< j 3) (set j (+ j 1))]
   (trace j) (cond (== j 1) (break la:) nil))) is in F1 and its evaluation returns a value *)
Example f1_value_run_applies :
  let e := EFor (Some 500%Z) (EDef 200%Z (EInt 0)) (ECall (EVar 4%Z) [EVar 200%Z; EInt 3])
                (ESet 200%Z (ECall (EVar 1%Z) [EVar 200%Z; EInt 1]))
             [EFor None (EDef 201%Z (EInt 0)) (ECall (EVar 4%Z) [EVar 201%Z; EInt 3])
                   (ESet 201%Z (ECall (EVar 1%Z) [EVar 201%Z; EInt 1]))
                [ECall (EVar 22%Z) [EVar 201%Z];
                 ECond [(ECall (EVar 8%Z) [EVar 201%Z; EInt 1], EBreak (Some 500%Z))] ENil]] in
  GenF1.f1 e = true /\ cc [] e = true /\
  fst (eval 50 [0] e (init_store 0)) = Done VNil.
Proof. vm_compute. repeat split; reflexivity. Qed.

(* ---- every interpreter-resident structure, histories with REJECTED texts (Model/Resident.v) ---- *)

(* generator.go:GenerateForLoop pushes its loop record and pops it on EVERY way out: whatever a form
   contains — loops nested to any depth, a sub-form the generator rejects at any position, a jump to
   a label that does not exist — env.loopstack after compiling it is env.loopstack before *)
Theorem compile_keeps_loops : forall t ls, snd (compile t ls) = ls.
Proof. exact compile_keeps_loops_lemma. Qed.
Print Assumptions compile_keeps_loops.

(* one EvalString in detail (the real chunk run by the abstract machine, check_fn-verified; run-time
   failure at an arbitrary machine state followed by restoreControlState; rejection by the generator;
   rejection by the parser leaving ANY parser state) is the executable summary that bin/check runs
   against the real interpreter *)
Theorem eval_text_refines : forall f s s', quiet s = true -> eval_text f s s' ->
  exec_fate (class_of f) s = Some s'.
Proof. exact eval_text_refines_lemma. Qed.
Print Assumptions eval_text_refines.

(* after ANY history of texts — rejected by the parser, rejected by the generator inside loops,
   failed at run time, successful; any order, any length; the host never calls Clear() — no operand,
   scope, call frame or loop record is left and nothing is pending in the main function *)
Theorem resident_history : forall fs s s', quiet s = true -> rhistory fs s s' -> quiet s' = true.
Proof. exact resident_history_lemma. Qed.
Print Assumptions resident_history.

Theorem exec_history_quiet : forall ks s s', quiet s = true -> exec_history ks s = Some s' -> quiet s' = true.
Proof. exact exec_history_quiet_lemma. Qed.
Print Assumptions exec_history_quiet.

(* after a successful evaluation at the end of any such history EVERY resident structure is at rest,
   the parser included (no suspended parse, no queued token, lexer in its normal mode) even when
   earlier texts left a suspended parse behind; it holds the n forms of the last text and no more *)
Theorem rest_after_success : forall fs n t ch s s1 s',
  quiet s = true -> rhistory fs s s1 -> eval_text (FOk n t ch) s1 s' ->
  at_rest_all s' = true /\ p_exprs (i_par s') = n /\ at_rest (cs_of s') = true.
Proof. exact rest_after_success_lemma. Qed.
Print Assumptions rest_after_success.

(* whatever the interpreter has been through, the generator accepts or rejects a text exactly as a new
   interpreter does; in particular break / continue outside any loop are refused *)
Theorem accepts_as_new : forall fs s s' t, quiet s = true -> rhistory fs s s' ->
  compile t (i_loops s') = compile t (i_loops i_new).
Proof. exact accepts_as_new_lemma. Qed.
Print Assumptions accepts_as_new.
Theorem jump_outside_refused : forall fs s s' lbl, quiet s = true -> rhistory fs s s' ->
  fst (compile (TJump lbl) (i_loops s')) = false.
Proof. exact jump_outside_refused_lemma. Qed.
Print Assumptions jump_outside_refused.

(* non-vacuity: a rejection three loops deep, a jump to a missing label, a parse failure that leaves a
   suspended parse, a run-time failure with operands and then a success *)
Example resident_history_runs :
  let deep := TFor (Some 1%Z) [TFor None [TNode [TLeaf true; TFor (Some 2%Z) [TJump (Some 1%Z); TLeaf false; TLeaf true]]]; TLeaf true] in
  let nolabel := TFor (Some 1%Z) [TNode [TJump (Some 9%Z)]] in
  let good := TFor (Some 1%Z) [TFor None [TJump (Some 1%Z); TJump None]; TLeaf true; TLeaf true; TLeaf true] in
  compile deep [] = (false, []) /\ compile nolabel [] = (false, []) /\ compile good [] = (true, []) /\
  option_map obs_of (exec_history [KCompile 1 deep; KParse (mkP true 2 1 3 0); KCompile 2 nolabel;
                                   KRunErr 1 good [Val; Mark 4; Val]; KOk 3 good] i_new)
  = Some ((0, 1, 0, 0), 0, (false, 0, 0, 0, 3)).
Proof. vm_compute. repeat split; reflexivity. Qed.
