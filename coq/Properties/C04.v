(* C04 — an evaluation that succeeds leaves nothing behind in the interpreter.
   Final statements only (proofs: Proofs/VerifierProofs.v; model: Model/Bytecode.v, Model/Verifier.v).

   astep code fi    one step of the value-free abstract machine (effects of Bytecode.eff)
   arun code fi     any number of steps, every control path, loops included
   check_fn         the certificate checker that bin/check runs (extracted) on the real bytecode *)
From Coq Require Import List ZArith Bool Arith.
Require Import ZV.Model.Bytecode ZV.Model.Verifier ZV.Model.VerifierExamples ZV.Proofs.VerifierProofs.
Import ListNotations.

(* every run of a verified function from its entry (np arguments above base, depths s0 a0 l0)
   that reaches a Return has consumed its np arguments and left exactly one value above base;
   scope, address and loop depth are those of entry *)
Theorem check_sound : forall code fi is_main np a base s0 a0 l0 s s',
  check_fn code fi is_main np a = true -> (is_main = true -> base = []) ->
  entry np base s0 a0 l0 s -> arun code fi s s' ->
  nth_error code (pc s') = Some IReturn ->
  data s' = Val :: base /\ length (data s') = length (data s) - np + 1 /\
  sc s' = sc s /\ ad s' = ad s /\ lp s' = lp s.
Proof. exact check_sound_lemma. Qed.
Print Assumptions check_sound.

(* at every reachable instruction of verified code the stack operations of the instruction succeed
   and leave base (what the caller owns) and the caller's s0 scopes untouched *)
Theorem verified_no_underflow : forall code fi is_main np a base s0 a0 l0 s s' i ops c n,
  check_fn code fi is_main np a = true -> (is_main = true -> base = []) ->
  entry np base s0 a0 l0 s -> arun code fi s s' ->
  nth_error code (pc s') = Some i -> eff fi i = Some (ops, c) ->
  exists c' k', crun_dops n ops (data s', sc s') = Some (c' ++ base, s0 + k').
Proof. exact verified_no_underflow_lemma. Qed.
Print Assumptions verified_no_underflow.

(* a real call (callee entered, run to its Return, caller resumed) keeps the caller inside its
   invariant when every function of the program passes check_fn: the atomic call step of astep
   is justified by the callee's own certificate (induction over the execution / call depth) *)
Theorem calls_justified : forall prog,
  (forall g, In g prog -> fmain g = false /\ fn_ok g) ->
  forall f s s', bigrun prog f s s' -> fn_ok f ->
  forall base s0 a0 l0, (fmain f = true -> base = []) ->
  Inv (fcode f) (fmain f) (fannot f) base s0 a0 l0 s -> Inv (fcode f) (fmain f) (fannot f) base s0 a0 l0 s'.
Proof. exact calls_justified_lemma. Qed.
Print Assumptions calls_justified.

(* from the interpreter at rest, a verified top-level chunk that runs to its end leaves the
   interpreter at rest once Run has popped the result *)
Theorem toplevel_rest : forall code fi a s s',
  check_fn code fi true 0 a = true -> at_rest s = true -> pc s = 0 ->
  arun code fi s s' -> length code <= pc s' -> at_rest (run_finish s') = true.
Proof. exact toplevel_rest_lemma. Qed.
Print Assumptions toplevel_rest.

(* after ANY history of completed evaluations of verified chunks the interpreter is at rest:
   an idle interpreter does not grow with the number of evaluations it has served *)
Theorem idle_bounded : forall chunks s s', at_rest s = true -> history chunks s s' -> at_rest s' = true.
Proof. exact idle_bounded_lemma. Qed.
Print Assumptions idle_bounded.

(* forms one at a time (any split into chunks) or all in one text: the same rest state *)
Theorem one_by_one_eq_together : forall chunks together s s1 s2,
  at_rest s = true -> history chunks s s1 -> eval_chunk together s s2 ->
  at_rest s1 = true /\ at_rest s2 = true /\
  (data s1, sc s1, ad s1, lp s1) = (data s2, sc s2, ad s2, lp s2).
Proof. exact one_by_one_eq_together_lemma. Qed.
Print Assumptions one_by_one_eq_together.

(* self tail call (RemoveScope.. ; PrepareCall ; Goto 0): whenever a run is back at pc 0 the four
   stacks are exactly as at the first entry — constant space per iteration, for any number of
   iterations (cited by C09) *)
Theorem tail_goto_same_annot : forall code fi is_main np a base s0 a0 l0 s s',
  check_fn code fi is_main np a = true -> (is_main = true -> base = []) ->
  tail_entry_unique np a = true ->
  entry np base s0 a0 l0 s -> arun code fi s s' -> pc s' = 0 -> 0 < length code ->
  data s' = data s /\ sc s' = sc s /\ ad s' = ad s /\ lp s' = lp s.
Proof. exact tail_goto_same_annot_lemma. Qed.
Print Assumptions tail_goto_same_annot.

(* trace conformance is meaningful: a transition accepted by effect_ok is a step of astep *)
Theorem effect_ok_is_step : forall code fi s s', effect_ok code fi s s' = true -> astep code fi s s'.
Proof. exact effect_ok_is_step_lemma. Qed.
Print Assumptions effect_ok_is_step.

(* ---- non-vacuity: check_fn accepts the real bytecode of real functions ---- *)
Example accepts_sumto :   (* tail-recursive, self tail call inside let inside cond *)
  check_fn code_sumto {| f_varargs := false; f_nargs := 2 |} false 2 annot_sumto = true
  /\ tail_entry_unique 2 annot_sumto = true.
Proof. vm_compute. split; reflexivity. Qed.
Example accepts_brk :     (* labelled for, break/continue through let + newScope *)
  check_fn code_brk {| f_varargs := false; f_nargs := 1 |} false 1 annot_brk = true.
Proof. vm_compute. reflexivity. Qed.
Example accepts_sq :      (* varargs, syntax-quote with unquote-splicing (Explode / Squash / Vectorize) *)
  check_fn code_sq {| f_varargs := true; f_nargs := 1 |} false 2 annot_sq = true.
Proof. vm_compute. reflexivity. Qed.
Example accepts_assign :  (* assignment to a quoted target used as the function's value *)
  check_fn code_sq0 {| f_varargs := false; f_nargs := 0 |} false 0 annot_sq0 = true.
Proof. vm_compute. reflexivity. Qed.
(* ---- and rejects the body FuncBuilder emitted for a body-less func before fix 78df25e (two values at Return) ---- *)
Example rejects_e5 :
  check_fn code_e5 {| f_varargs := false; f_nargs := 0 |} false 0 annot_e5 = false.
Proof. vm_compute. reflexivity. Qed.
(* a step of the real VM as observed by the harness: Squash over an exploded list *)
Example effect_ok_squash :
  effect_ok [IPushMarker; IPush; IExplode; ISquash] {| f_varargs := false; f_nargs := 0 |}
    (mkc 3 [Val; Val; Val; Marker; Mark 7] 2 1 0) (mkc 4 [Val; Mark 7] 2 1 0) = true.
Proof. vm_compute. reflexivity. Qed.
