(* C05 — Errors are contained: a failed evaluation restores the interpreter.
   Statements only; proofs in Proofs/ErrContProofs.v and Proofs/CtrlStateProofs.v.
   Model: Model/RefSem.v (reference evaluator, failure injection by the host function failk:
   the k of fail_at is universally quantified), Model/ErrCont.v (sessions), Model/CtrlState.v
   (abstract control-state machine, census records); Generated/Reentry.v (from the Go source). *)
From Coq Require Import ZArith Bool List.
Require Import ZV.Model.RefSem ZV.Model.ErrCont ZV.Model.CtrlState ZV.Generated.Reentry.
Require Import ZV.Proofs.RefSemProofs ZV.Proofs.ErrContProofs ZV.Proofs.CtrlStateProofs.
Import ListNotations.

(* (1) the injected error is never swallowed: for every expression, environment, store, fuel and
   every k: if failk's raising call is reached during the evaluation, the outcome IS that error
   and nothing ran after it (the counter stopped at k).  There is no catcher in the core
   language; `expectError` of the real interpreter is a builder outside it (it evaluates its
   argument in a Duplicate of the interpreter) and is listed in docs/C05.md as the exception. *)
Theorem error_not_swallowed : forall n env e s r s',
  eval n env e s = (r, s') ->
  (fail_ctr s < fail_at s)%nat -> (fail_at s <= fail_ctr s')%nat ->
  r = Sig (SErr EUser) /\ fail_ctr s' = fail_at s.
Proof. exact eval_error_not_swallowed. Qed.
Print Assumptions error_not_swallowed.

Theorem error_not_swallowed_apply : forall n f args s r s',
  apply n f args s = (r, s') ->
  (fail_ctr s < fail_at s)%nat -> (fail_at s <= fail_ctr s')%nat ->
  r = Sig (SErr EUser) /\ fail_ctr s' = fail_at s.
Proof. exact apply_error_not_swallowed. Qed.
Print Assumptions error_not_swallowed_apply.

Theorem error_not_swallowed_text : forall n t s,
  (fail_ctr s < fail_at s)%nat -> (fail_at s <= fail_ctr (snd (eval_text n t s)))%nat ->
  observe (eval_text n t s) = Sig (SErr EUser) /\ fail_ctr (snd (eval_text n t s)) = fail_at s.
Proof. exact text_error_not_swallowed. Qed.
Print Assumptions error_not_swallowed_text.

(* (1, by construct) a signal (error, and break / continue alike) of a sub-evaluation in
   evaluation position is the result of the enclosing construct WITH THE SAME STORE: the store
   of the failure travels unchanged to the top (this is also part (2): nothing is undone and
   nothing more is done on the way out).  ev / ap are the evaluator / applicator of smaller fuel. *)
Theorem propagate_array_or_let_init : forall ev env pre e post s vs s1 g s2,
  ev_list ev env pre s = (Done vs, s1) -> ev env e s1 = (Sig g, s2) ->
  ev_list ev env (pre ++ e :: post) s = (Sig g, s2).
Proof. exact ev_list_sig. Qed.
Theorem propagate_begin : forall ev env pre e post s vs s1 g s2,
  ev_list ev env pre s = (Done vs, s1) -> ev env e s1 = (Sig g, s2) ->
  ev_begin ev env (pre ++ e :: post) s = (Sig g, s2).
Proof. exact ev_begin_sig. Qed.
Theorem propagate_call_argument : forall ev env pre e post s vs s1 g s2,
  ev_args ev env pre s = (Done vs, s1) -> cc [] e = true -> ev env e s1 = (Sig g, s2) ->
  ev_args ev env (pre ++ e :: post) s = (Sig g, s2).
Proof. exact ev_args_sig. Qed.
Theorem propagate_call : forall ev ap env x args s,
  (forall g s1, ev env (EVar x) s = (Sig g, s1) -> call_expr ev ap env (EVar x) args s = (Sig g, s1))
  /\ (forall fv s1 g s2, ev env (EVar x) s = (Done fv, s1) -> is_fn fv = true ->
        ev_args ev env args s1 = (Sig g, s2) -> call_expr ev ap env (EVar x) args s = (Sig g, s2))
  /\ (forall fv s1 vs s2, ev env (EVar x) s = (Done fv, s1) -> is_fn fv = true ->
        ev_args ev env args s1 = (Done vs, s2) -> call_expr ev ap env (EVar x) args s = ap fv vs s2).
Proof.
  intros. split; [intros; apply call_callee_sig; assumption|].
  split; [intros; eapply call_args_sig; eassumption|intros; eapply call_apply_result; eassumption].
Qed.
Theorem propagate_cond : forall ev env c b r d s,
  (forall g s1, ev env c s = (Sig g, s1) -> ev_cond ev env ((c, b) :: r) d s = (Sig g, s1))
  /\ (forall v s1, ev env c s = (Done v, s1) -> truthy v = true -> ev_cond ev env ((c, b) :: r) d s = ev env b s1)
  /\ (forall v s1, ev env c s = (Done v, s1) -> truthy v = false -> ev_cond ev env ((c, b) :: r) d s = ev_cond ev env r d s1).
Proof.
  intros. split; [intros; apply ev_cond_test_sig; assumption|].
  split; [intros; eapply ev_cond_arm; eassumption|intros; eapply ev_cond_skip; eassumption].
Qed.
Theorem propagate_and_or : forall ev env e r s g s1,
  ev env e s = (Sig g, s1) ->
  ev_and ev env (e :: r) s = (Sig g, s1) /\ ev_or ev env (e :: r) s = (Sig g, s1).
Proof. intros. split; [apply ev_and_sig|apply ev_or_sig]; assumption. Qed.
Theorem propagate_letseq : forall ev f env x e r s g s1,
  ev env e s = (Sig g, s1) -> ev_letseq ev f env ((x, e) :: r) s = (Sig g, s1).
Proof. exact ev_letseq_sig. Qed.
Theorem propagate_for : forall ev k env lbl test step body s,
  (forall e s1, ev env test s = (Sig (SErr e), s1) -> for_loop ev (S k) env lbl test step body s = (Sig (SErr e), s1))
  /\ (forall t s1 e s2, ev env test s = (Done t, s1) -> truthy t = true ->
        ev_begin ev env body s1 = (Sig (SErr e), s2) -> for_loop ev (S k) env lbl test step body s = (Sig (SErr e), s2))
  /\ (forall t s1 v s2 e s3, ev env test s = (Done t, s1) -> truthy t = true ->
        ev_begin ev env body s1 = (Done v, s2) -> ev env step s2 = (Sig (SErr e), s3) ->
        for_loop ev (S k) env lbl test step body s = (Sig (SErr e), s3)).
Proof.
  intros. split; [intros; apply for_test_err; assumption|].
  split; [intros; eapply for_body_err; eassumption|intros; eapply for_step_err; eassumption].
Qed.
Theorem propagate_def_set : forall n env x e s g s1,
  eval n env e s = (Sig g, s1) ->
  eval (S n) env (EDef x e) s = (Sig g, s1) /\ eval (S n) env (ESet x e) s = (Sig g, s1).
Proof. intros. split; [apply def_sig|apply set_sig]; assumption. Qed.
Theorem propagate_closure_body : forall n nm ps rest body cenv args s binds e s1,
  zip_params ps rest args [] = Some binds ->
  (_ <- bind_all (length (frames s)) binds ;;
   ev_begin (eval n) (length (frames s) :: cenv) body) (with_frames s (frames s ++ [[]])) = (Sig (SErr e), s1) ->
  apply (S n) (VClos nm ps rest body cenv) args s = (Sig (SErr e), s1).
Proof. exact closure_body_err. Qed.
Theorem propagate_map_callback : forall ap f x r t h tl s g s1,
  ap f [x] s = (Sig g, s1) -> ap f [h] s = (Sig g, s1) ->
  map_arr ap f (x :: r) t s = (Sig g, s1) /\ map_pairs ap f (VPair h tl) s = (Sig g, s1).
Proof. intros. split; [apply map_arr_sig|apply map_pairs_sig]; assumption. Qed.
Print Assumptions propagate_call.

(* (2) every definition / assignment completed before the failure is intact: whatever the outcome
   of a text, no frame, binding or array that existed before it disappears and the trace is only
   extended (ext is RefSemProofs.ext).  Together with the propagation lemmas above (the store of
   the failing sub-evaluation IS the store of the failed text) this is store_at_failure. *)
Theorem error_keeps_completed_effects : forall n t s, ext s (snd (eval_text n t s)).
Proof. exact text_keeps_effects. Qed.
Print Assumptions error_keeps_completed_effects.

(* (3) twin equivalence: for every session prefix, every failing text, every continuation and
   every k, the outcomes of the continuation in the interpreter that suffered the failure are
   those of the same evaluator started from store_at_failure (the twin) *)
Theorem twin_equiv : forall n before failing later s,
  fst (eval_session n (before ++ failing :: later) s)
  = fst (eval_session n before s)
    ++ observe (eval_text n failing (snd (eval_session n before s)))
    :: fst (eval_session n later (store_at_failure n before failing s)).
Proof. exact twin_equiv_proof. Qed.
Print Assumptions twin_equiv.

Theorem failing_text_reports_and_keeps : forall n before failing s,
  let s0 := snd (eval_session n before s) in
  (fail_ctr s0 < fail_at s0)%nat -> (fail_at s0 <= fail_ctr (store_at_failure n before failing s))%nat ->
  observe (eval_text n failing s0) = Sig (SErr EUser)
  /\ fail_ctr (store_at_failure n before failing s) = fail_at s0
  /\ ext s0 (store_at_failure n before failing s).
Proof. exact failing_text_proof. Qed.
Print Assumptions failing_text_reports_and_keeps.

(* the twin may have any larger fuel (determinism of the evaluator) *)
Theorem twin_fuel_irrelevant : forall n n' t s r s',
  (n <= n')%nat -> eval_text n t s = (r, s') -> r <> Fuel -> eval_text n' t s = (r, s').
Proof. exact eval_text_fuel_mono. Qed.
Print Assumptions twin_fuel_irrelevant.

(* (4) the abstract control state: after an error at ANY nesting depth of re-entries (Run inside
   CallUserFunction inside Run .., with or without host code that catches errors of inner
   re-entries) the stacks (contents, hence the depths), the loop depth and the current function are
   those of the top-level entry and pc is parked at the end of the function.  Crash (a frame
   popping below its entry depth: excluded by the stack discipline of compiled code) is a
   different outcome and is not an Err. *)
Theorem rest_after_error : forall body c c',
  run_top body c = Err c' ->
  dstk c' = dstk c /\ sstk c' = sstk c /\ astk c' = astk c /\ ldepth c' = ldepth c
  /\ cur c' = cur c /\ pc c' = fsize.
Proof. exact rest_after_error_proof. Qed.
Print Assumptions rest_after_error.

Theorem depths_after_error : forall body c c',
  run_top body c = Err c' ->
  (length (dstk c'), length (sstk c'), length (astk c'), ldepth c')
  = (length (dstk c), length (sstk c), length (astk c), ldepth c).
Proof. exact depths_after_error_proof. Qed.

(* local contract of EVERY re-entry point (EvalCallExpression / Apply / Force, CallUserFunction,
   EvalFunction, SourceExpressions): on error the code that made the re-entry gets back exactly the control state it
   had, so host code may handle the error and go on.  (Until /repo commit 4b37dbf EvalFunction had
   no capture/restore and this statement was refuted for it - finding evalfunction-no-restore,
   found by the harness kind catch-eval-runtime; the harness keeps that kind as a regression test.) *)
Theorem reentry_restores : forall k body base c c',
  exec base (AReenter k false body) c = Err c' -> same_ctrl c c'.
Proof. exact reentry_restores_proof. Qed.
Print Assumptions reentry_restores.

Theorem caught_reentry_invisible : forall k body base c c',
  exec base (AReenter k true body) c = OK c' ->
  (exec base (AReenter k false body) c = Err c' /\ same_ctrl c c')
  \/ exec base (AReenter k false body) c = OK c'.
Proof. exact caught_reentry_invisible_proof. Qed.
Print Assumptions caught_reentry_invisible.

(* (5) (T) the census of VM re-entry points generated from the Go source *)
Theorem reentry_census_ok : forallb reentry_ok generated_reentries = true.
Proof. vm_compute. reflexivity. Qed.
Theorem capture_census_ok :
  forallb capture_ok generated_captures = true
  /\ map c_fn generated_captures = expected_capture_sites
  /\ run_loop_restores = true.
Proof. vm_compute. repeat split; reflexivity. Qed.
Print Assumptions reentry_census_ok.

(* ---- non-vacuity ---- *)
(* (def x 1) (def y (failk 2)) with k = 1 fails with the injected error; x stays defined *)
Definition ex_forms : list expr :=
  [EDef 100 (EInt 1); EDef 101 (ECall (EVar 23) [EInt 2])].
Example ex_fails : fst (run_session 50 1 [TForms ex_forms; TForms [EVar 100]; TForms [EVar 101]])
                   = [Sig (SErr EUser); Done (SvInt 1); Sig (SErr EUnbound)].
Proof. vm_compute. reflexivity. Qed.
Example ex_clean : fst (run_session 50 0 [TForms ex_forms; TForms [EVar 101]]) = [Done (SvInt 2); Done (SvInt 2)].
Proof. vm_compute. reflexivity. Qed.
(* the host loads a text through SourceStream / SourceFile at rest and the text fails at run time *)
Example ex_source_at_rest :
  exec (capture c_rest) (AReenter KSource false [APush SScope 3; APush SData 4; AJump 10 7; AFail]) c_rest = Err c_rest.
Proof. exact source_at_rest_witness. Qed.
Example ex_evalfn_restores : exec (capture c_rest) (AReenter KEvalFn false [AFail]) c_rest = Err c_rest.
Proof. exact evalfn_restores_witness. Qed.
(* the machine: an error three re-entries deep, with a caught error on the way *)
Example ex_nested :
  run_top [APush SData 1; AReenter KUser false [AReenter KCaptured true [APush SScope 2; AFail];
                                               AReenter KEvalFn false [APush SData 3; AReenter KCaptured false [AFail]]]] c_rest
  = Err (mkCtrl [] [0%Z] [] 0 1%Z fsize).
Proof. vm_compute. reflexivity. Qed.

(* ====================================================================================
   (6) READ-time and COMPILE-time state (Model/Phases.v): one load = read (lexer streams, token
   queue, parser coroutine) ; compile (loop stack, symbol counter, main buffer appended only on
   success) ; run (from pc to the end of the buffer, restore + pc parked on error).  The theorems
   are about EVERY text, EVERY earlier history (any residual state) and EVERY failure point:
   the failure is wherever the text makes the phase fail. *)
Require Import ZV.Model.Phases ZV.Proofs.PhasesProofs.

(* read phase: whatever an earlier text left in the lexer / parser (unread rest of a text that
   failed in the middle, queued tokens, streams waiting, a suspended coroutine), a text is read as
   by a new parser: result AND residual state *)
Theorem read_after_any_history : forall n text r, read_text n text r = read_text n text r_init.
Proof. exact read_after_any_proof. Qed.
Print Assumptions read_after_any_history.

(* compile phase: whatever a form generates or fails to generate, at any nesting depth (loops in
   closures in loops ..), the loop stack is afterwards what it was *)
Theorem compile_keeps_loopstack : forall f ce r ce', gen f ce = (r, ce') -> c_loops ce' = c_loops ce.
Proof. exact compile_keeps_loopstack_proof. Qed.
Print Assumptions compile_keeps_loopstack.

(* so a break / continue outside any loop is refused whenever the interpreter is at rest *)
Theorem stray_exit_rejected : forall lbl ce, c_loops ce = [] -> fst (gen (CExit lbl) ce) = GErr.
Proof. exact stray_exit_rejected_proof. Qed.

(* the generated code does not depend on the symbol counter a failed compilation advanced *)
Theorem compile_depends_on_loopstack_only : forall l ce1 ce2,
  c_loops ce1 = c_loops ce2 -> fst (gen_list l ce1) = fst (gen_list l ce2).
Proof. exact gen_list_indep. Qed.

(* invariant over all histories: after any sequence of loads, each of which may fail in any phase
   at any point, the interpreter is at rest (loop stack empty, data stack empty, pc at the end of
   the main buffer: nothing of a failed text is left to be executed by the next load) *)
Theorem session_at_rest : forall n k texts st, at_rest st -> at_rest (snd (psession n k texts st)).
Proof. exact session_at_rest_proof. Qed.
Print Assumptions session_at_rest.

(* error_restores, read and compile phases: a load that fails while reading or compiling is
   invisible: every later sequence of loads has the outcomes it has in the interpreter that never
   saw the failed text *)
Theorem error_restores_read_compile : forall n k text later st, at_rest st ->
  (fst (load n k text st) = OReadErr \/ fst (load n k text st) = OCompileErr) ->
  fst (psession n k later (snd (load n k text st))) = fst (psession n k later st)
  /\ at_rest (snd (load n k text st)).
Proof. exact error_restores_read_compile_proof. Qed.
Print Assumptions error_restores_read_compile.

(* error_restores, run phase (failk's k-th call or an unbound global, anywhere in the text): a
   prefix of the text's code ran to its end, the failing instruction defined nothing, the global
   scope is the one that prefix produced, and every later sequence of loads has the outcomes it has
   in ANY interpreter at rest that holds this scope and counter *)
Theorem error_restores_run : forall n k text st e, at_rest st ->
  fst (load n k text st) = ORunErr e ->
  let st' := snd (load n k text st) in
  at_rest st'
  /\ (exists forms code pre i post m1,
        read_spec n text = POk forms
        /\ fst (gen_list (map classify forms) (i_ce st)) = GOk code
        /\ code = pre ++ i :: post
        /\ run_code k pre (i_m st) = (None, m1)
        /\ fst (exec_instr k i m1) = Some e
        /\ m_defs (i_m st') = m_defs m1)
  /\ (forall later st2, at_rest st2 -> i_m st2 = i_m st' ->
        fst (psession n k later st') = fst (psession n k later st2)).
Proof. exact error_restores_run_proof. Qed.
Print Assumptions error_restores_run.

(* the memo cell of a lazy argument: a failed force leaves the cell as it was (not forced, no
   value), so forcing it again evaluates again; a successful force is remembered *)
Theorem failed_force_not_memoised : forall k t m e v t' m',
  force k t m = ((Some e, v), t', m') -> t' = t /\ forall k2 m2, force k2 t' m2 = force k2 t m2.
Proof.
  intros. split; [eapply failed_force_not_memoised_proof; eassumption|eapply reforce_after_failure_proof; eassumption].
Qed.
Theorem successful_force_memoised : forall k t m v t' m',
  force k t m = ((None, v), t', m') ->
  t_forced t' = true /\ t_value t' = v /\ forall k2 m2, force k2 t' m2 = ((None, v), t', m2).
Proof. exact force_memo_proof. Qed.
Print Assumptions failed_force_not_memoised.

(* (T) the facts of the Go source the definitions of Phases.v rely on, regenerated on every run *)
Theorem phase_census_ok :
  covers lexer_fields lexer_reset_clears lexer_kept_fields = true
  /\ subset modelled_reader_fields lexer_reset_clears = true
  /\ covers parser_fields parser_reset_clears parser_kept_fields = true
  /\ subset required_reset_calls parser_reset_calls = true
  /\ parser_recur_balanced = parser_recur_incs
  /\ load_stream_resets_first = true
  /\ (forloop_pushes, forloop_deferred_pops, generator_loop_pushes, generator_loop_pops) = (1, 1, 1, 1)%nat
  /\ load_appends_after_compile = true
  /\ (force_run_guarded, force_marks_before_run) = (true, 0%nat).
Proof. vm_compute. repeat split; reflexivity. Qed.
Print Assumptions phase_census_ok.

(* ---- non-vacuity (Phases) ---- *)
Definition tk (a : Z) := TAtom a.
(* "(def a 1) ) (def b 7)": a stray closer in the middle; then "b": unbound, not 7 *)
Definition ex_mid : list tok := [TOpen; tk 105; tk 200; tk 1; TClose; TClose; TOpen; tk 105; tk 201; tk 7; TClose].
Example ex_read_error_mid_text :
  fst (psession 50 0 [ex_mid; [tk 201]; [tk 200]] i_init) = [OReadErr; ORunErr XUnbound; ORunErr XUnbound].
Proof. vm_compute. reflexivity. Qed.
(* "(for [0 false 0] (fn [] (let [q] 1)))" fails to compile inside a closure inside a loop; then "(break)" is refused *)
Definition ex_loop_bad : list tok :=
  [TOpen; tk 100; TLB; tk 0; tk 107; tk 0; TRB; TOpen; tk 103; TLB; TRB; TOpen; tk 108; TLB; tk 300; TRB; tk 1; TClose; TClose; TClose].
Example ex_compile_error_in_loop :
  psession_obs 50 0 [ex_loop_bad; [TOpen; tk 101; TClose]; [tk 7]] i_init
  = [(OCompileErr, (true, 0%nat, 0%nat)); (OCompileErr, (true, 0%nat, 0%nat)); (OVal (PvInt 7), (true, 0%nat, 0%nat))].
Proof. vm_compute. reflexivity. Qed.
(* "(def a 1) (def b (failk 2)) (def c 3)" with k = 1: a stays, b and c are not defined *)
Example ex_run_error :
  fst (psession 50 1 [[TOpen; tk 105; tk 200; tk 1; TClose; TOpen; tk 105; tk 201; TOpen; tk 106; tk 2; TClose; TClose; TOpen; tk 105; tk 202; tk 3; TClose];
                      [tk 200]; [tk 201]; [tk 202]] i_init)
  = [ORunErr XUser; OVal (PvInt 1); ORunErr XUnbound; ORunErr XUnbound].
Proof. vm_compute. reflexivity. Qed.
Example ex_failed_force :
  let t := mkT false PvNil [IPush (PvInt 4); IFailk] in
  fst (fst (force 1 t (mkM [] 0 []))) = (Some XUser, PvNil)
  /\ fst (fst (force 1 (snd (fst (force 1 t (mkM [] 0 [])))) (mkM [] 1 []))) = (None, PvInt 4).
Proof. vm_compute. split; reflexivity. Qed.
