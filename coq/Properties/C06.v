(* C06 — infix blocks mean what the precedence table says: theorem statements.
   Proofs: Proofs/PrattProofs.v (generic), Proofs/PrattInstance.v (table_ok => hypotheses). *)
From Coq Require Import ZArith String List Bool.
Import ListNotations.
Require Import ZV.Model.PrattTypes ZV.Model.Pratt ZV.Model.PrattSpec ZV.Generated.InfixTable.
Require Import ZV.Proofs.PrattProofs ZV.Proofs.PrattInstance.
Open Scope Z_scope.
Open Scope string_scope.

(* The generated table (zygo/pratt.go as it is now) agrees with the DOCUMENTED order
   (PrattSpec.Doc: assignment (right) < comma < or/and (right) < comparisons < + - < * / mod <
   ** (right) < not < indexing/slicing/dot): every documented binary operator is registered with a
   led that recurses with bp (left-assoc.) or bp-1 (right-assoc.) exactly as documented, the binding
   powers of any two of them compare as their documented levels (order-isomorphism, not numeric
   equality), `not` binds tighter than every binary operator, indexing and dot tighter than every
   right binding power, and the table contains no operator the documentation does not list. *)
Theorem documented_table : table_ok infix_entries infix_lbp = true.
Proof. vm_compute. reflexivity. Qed.
Print Assumptions documented_table.

(* Whatever the table: the in-order yield of the tree Expression returns, followed by the unread
   tokens, is the token list (nothing lost, duplicated or reordered; any fuel, any rbp). *)
Theorem pratt_yield :
  forall E K led_err eof fuel rbp ts x rest,
    m_expr E K led_err eof fuel rbp ts = ROk (x, rest) -> (yield tok x ++ rest)%list = ts.
Proof. intros E K led_err eof. exact (expr_yield tok _ _ _ _ _ _). Qed.
Print Assumptions pratt_yield.

(* For EVERY table that passes table_ok and every token list OF ANY LENGTH that the documented
   grammar recognises as one expression  "unit, then any number of (binop unit)", where a unit is any number of `not`, an operand, any number of index or dot postfixes,
   the tree the Pratt loop returns is the split-at-weakest tree of the documented table. *)
Theorem pratt_precedence_correct_any_table :
  forall E K, table_ok E K = true ->
  forall eof ts a,
    classify tok Doc.is_operand Doc.is_prefix Doc.is_binop Doc.is_postfix ts = Some a ->
    m_expr E K (fun _ => false) eof (fuel_for tok ts) 0 ts
    = ROk (split_alt tok Doc.prec Doc.rassoc a, []).
Proof. exact instance_correct. Qed.
Print Assumptions pratt_precedence_correct_any_table.

(* ... in particular for the table generated from the repository. *)
Theorem pratt_precedence_correct :
  forall eof ts a,
    classify tok Doc.is_operand Doc.is_prefix Doc.is_binop Doc.is_postfix ts = Some a ->
    m_expr infix_entries infix_lbp (fun _ => false) eof (fuel_for tok ts) 0 ts
    = ROk (split_alt tok Doc.prec Doc.rassoc a, []).
Proof. exact (instance_correct infix_entries infix_lbp documented_table). Qed.
Print Assumptions pratt_precedence_correct.

(* Statements in order: an expression followed by a token that does not bind to the left (left
   binding power <= 0: a semicolon, an operand, ...) is parsed to its oracle tree and the parser
   stops exactly in front of that token, so the next statement starts there. *)
Theorem statement_then_rest :
  forall eof a tail,
    take_expr tok Doc.is_operand Doc.is_prefix Doc.is_binop Doc.is_postfix (alt_tokens tok a ++ tail)%list = Some (a, tail) ->
    match tail with [] => True | t :: _ => exists l, lbp_of infix_entries infix_lbp t = Some l /\ l <= 0 end ->
    m_expr infix_entries infix_lbp (fun _ => false) eof (fuel_for tok (alt_tokens tok a)) 0 (alt_tokens tok a ++ tail)%list
    = ROk (split_alt tok Doc.prec Doc.rassoc a, tail).
Proof. exact (instance_stmt infix_entries infix_lbp documented_table). Qed.
Print Assumptions statement_then_rest.

(* Statements in order, whole blocks, any length: every block the documented grammar recognises -
   statements separated by semicolons or merely juxtaposed (newline), stray/leading/trailing
   semicolons allowed, a statement may start with `not` - is expanded by the model of
   InfixExpandArray (over any table passing table_ok) to exactly the specification's statement
   list: the split-at-weakest tree of each statement, in order. *)
Theorem statements_in_order_any_table :
  forall E K, table_ok E K = true ->
  forall ts xs, Doc.block ts = Some xs -> m_parse_block E K (fun _ => false) ts = ROk xs.
Proof. exact instance_block. Qed.
Print Assumptions statements_in_order_any_table.

Theorem statements_in_order :
  forall ts xs, Doc.block ts = Some xs -> m_parse_block infix_entries infix_lbp (fun _ => false) ts = ROk xs.
Proof. exact (instance_block infix_entries infix_lbp documented_table). Qed.
Print Assumptions statements_in_order.

(* non-vacuity *)
Definition s (n : string) : tok := TSym n false.
Example ex_precedence :
  m_parse_block infix_entries infix_lbp (fun _ => false) [s "a"; s "+"; s "b"; s "*"; s "c"]
  = ROk [Bin (s "+") (Leaf (s "a")) (Bin (s "*") (Leaf (s "b")) (Leaf (s "c")))].
Proof. vm_compute. reflexivity. Qed.
Example ex_classify_right_assoc :
  Doc.parse [s "a"; s "="; s "b"; s "**"; s "c"; s "**"; s "d"; TComma; s "not"; s "e"; TArr 1]
  = Some (Bin (s "=") (Leaf (s "a"))
            (Bin TComma (Bin (s "**") (Leaf (s "b")) (Bin (s "**") (Leaf (s "c")) (Leaf (s "d"))))
                        (Pre (s "not") (Post (TArr 1) (Leaf (s "e")))))).
Proof. vm_compute. reflexivity. Qed.
Example ex_model_agrees :
  m_parse_block infix_entries infix_lbp (fun _ => false)
    [s "a"; s "="; s "b"; s "**"; s "c"; s "**"; s "d"; TComma; s "not"; s "e"; TArr 1]
  = ROk [Bin (s "=") (Leaf (s "a"))
            (Bin TComma (Bin (s "**") (Leaf (s "b")) (Bin (s "**") (Leaf (s "c")) (Leaf (s "d"))))
                        (Pre (s "not") (Post (TArr 1) (Leaf (s "e")))))].
Proof. vm_compute. reflexivity. Qed.
(* the two repaired defects: a statement starting with `not` after a newline; stray semicolons *)
Example ex_not_starts_statement :
  m_parse_block infix_entries infix_lbp (fun _ => false) [s "x"; s "="; TInt 1; s "not"; s "b"]
  = ROk [Bin (s "=") (Leaf (s "x")) (Leaf (TInt 1)); Pre (s "not") (Leaf (s "b"))]
  /\ Doc.block [s "x"; s "="; TInt 1; s "not"; s "b"]
  = Some [Bin (s "=") (Leaf (s "x")) (Leaf (TInt 1)); Pre (s "not") (Leaf (s "b"))].
Proof. vm_compute. split; reflexivity. Qed.
Example ex_stray_semicolons :
  Doc.block [TSemi; s "a"; TSemi; TSemi; TArr 7; TSemi] = Some [Leaf (s "a"); Leaf (TArr 7)]
  /\ m_parse_block infix_entries infix_lbp (fun _ => false) [TSemi; s "a"; TSemi; TSemi; TArr 7; TSemi]
  = ROk [Leaf (s "a"); Leaf (TArr 7)].
Proof. vm_compute. split; reflexivity. Qed.
