(* C06 — infix blocks mean what the precedence table says: theorem statements.
   Proofs: Proofs/PrattProofs.v (generic), Proofs/PrattInstance.v (table_ok => hypotheses). *)
From Coq Require Import ZArith String List Bool.
Import ListNotations.
Require Import ZV.Model.PrattTypes ZV.Model.Pratt ZV.Model.PrattSpec ZV.Generated.InfixTable.
Require Import ZV.Model.PrattLvalue ZV.Proofs.PrattLvalueProofs ZV.Model.PrattSlice ZV.Proofs.PrattSliceProofs ZV.Model.PrattFor ZV.Proofs.PrattProofs ZV.Proofs.PrattInstance ZV.Proofs.PrattForProofs.
Open Scope Z_scope.
Open Scope string_scope.

(* The generated table (zygo/pratt.go as it is now) agrees with the DOCUMENTED order
   (PrattSpec.Doc: assignment (right) < comma < or/and (right) < comparisons < + - < * / mod <
   ** (right) < not < indexing/slicing/dot): every documented binary operator is registered with a
   led that recurses with bp (left-assoc.) or bp-1 (right-assoc.) exactly as documented, the binding
   powers of any two of them compare as their documented levels (order-isomorphism, not numeric
   equality), `not` binds tighter than every binary operator, indexing and dot tighter than every
   right binding power, and the table contains no operator the documentation does not list. *)
Theorem documented_table : table_ok infix_entries infix_lbp = true.
Proof. vm_compute. reflexivity. Qed.
Print Assumptions documented_table.

(* Whatever the table: the in-order yield of the tree Expression returns, followed by the unread
   tokens, is the token list (nothing lost, duplicated or reordered; any fuel, any rbp). *)
Theorem pratt_yield :
  forall E K led_err eof fuel rbp ts x rest,
    m_expr E K led_err eof fuel rbp ts = ROk (x, rest) -> (yield tok x ++ rest)%list = ts.
Proof. intros E K led_err eof. exact (expr_yield tok _ _ _ _ _ _). Qed.
Print Assumptions pratt_yield.

(* For EVERY table that passes table_ok and every token list OF ANY LENGTH that the documented
   grammar recognises as one expression  "unit, then any number of (binop unit)", where a unit is any number of `not`, an operand, any number of index or dot postfixes,
   the tree the Pratt loop returns is the split-at-weakest tree of the documented table. *)
Theorem pratt_precedence_correct_any_table :
  forall E K, table_ok E K = true ->
  forall eof ts a,
    classify tok Doc.is_operand Doc.is_prefix Doc.is_binop Doc.is_postfix ts = Some a ->
    m_expr E K (fun _ => false) eof (fuel_for tok ts) 0 ts
    = ROk (split_alt tok Doc.prec Doc.rassoc a, []).
Proof. exact instance_correct. Qed.
Print Assumptions pratt_precedence_correct_any_table.

(* ... in particular for the table generated from the repository. *)
Theorem pratt_precedence_correct :
  forall eof ts a,
    classify tok Doc.is_operand Doc.is_prefix Doc.is_binop Doc.is_postfix ts = Some a ->
    m_expr infix_entries infix_lbp (fun _ => false) eof (fuel_for tok ts) 0 ts
    = ROk (split_alt tok Doc.prec Doc.rassoc a, []).
Proof. exact (instance_correct infix_entries infix_lbp documented_table). Qed.
Print Assumptions pratt_precedence_correct.

(* Statements in order: an expression followed by a token that does not bind to the left (left
   binding power <= 0: a semicolon, an operand, ...) is parsed to its oracle tree and the parser
   stops exactly in front of that token, so the next statement starts there. *)
Theorem statement_then_rest :
  forall eof a tail,
    take_expr tok Doc.is_operand Doc.is_prefix Doc.is_binop Doc.is_postfix (alt_tokens tok a ++ tail)%list = Some (a, tail) ->
    match tail with [] => True | t :: _ => exists l, lbp_of infix_entries infix_lbp t = Some l /\ l <= 0 end ->
    m_expr infix_entries infix_lbp (fun _ => false) eof (fuel_for tok (alt_tokens tok a)) 0 (alt_tokens tok a ++ tail)%list
    = ROk (split_alt tok Doc.prec Doc.rassoc a, tail).
Proof. exact (instance_stmt infix_entries infix_lbp documented_table). Qed.
Print Assumptions statement_then_rest.

(* Statements in order, whole blocks, any length: every block the documented grammar recognises -
   statements separated by semicolons or merely juxtaposed (newline), stray/leading/trailing
   semicolons allowed, a statement may start with `not` - is expanded by the model of
   InfixExpandArray (over any table passing table_ok) to exactly the specification's statement
   list: the split-at-weakest tree of each statement, in order. *)
Theorem statements_in_order_any_table :
  forall E K, table_ok E K = true ->
  forall ts xs, Doc.block ts = Some xs -> m_parse_block E K (fun _ => false) ts = ROk xs.
Proof. exact instance_block. Qed.
Print Assumptions statements_in_order_any_table.

Theorem statements_in_order :
  forall ts xs, Doc.block ts = Some xs -> m_parse_block infix_entries infix_lbp (fun _ => false) ts = ROk xs.
Proof. exact (instance_block infix_entries infix_lbp documented_table). Qed.
Print Assumptions statements_in_order.

(* ---- constructs beyond the binary / prefix / index core ---- *)
Notation nf := (fun _ : tok => false).
Notation dclassify := (classify tok Doc.is_operand Doc.is_prefix Doc.is_binop Doc.is_postfix).
Notation dsplit := (split_alt tok Doc.prec Doc.rassoc).
Notation dtake_unit := (take_unit tok Doc.is_operand Doc.is_prefix Doc.is_postfix).
Notation T_E := infix_entries.
Notation T_K := infix_lbp.

(* assignment chains nest to the right whatever their length (also mixed = := += -=):
   the oracle tree of  u0 = u1 = ... is (= u0 (= u1 ...))  (and by pratt_precedence_correct so is
   the parser's) *)
Theorem assign_chain_right_assoc :
  forall u0 o u1 rest,
    (forall y, In y (map fst rest) -> Doc.prec y = Doc.prec o /\ Doc.rassoc y = true) ->
    dsplit (u0, (o, u1) :: rest) = Bin o (unit_tree tok u0) (dsplit (u1, rest)).
Proof. exact (right_chain tok Doc.prec Doc.rassoc). Qed.
Print Assumptions assign_chain_right_assoc.

(* E ++ / E -- : for every documented expression E of any length without a top-level assignment
   operator, the postfix operator applies to the whole of E ... *)
Theorem postfix_assign_parse :
  forall eof ts a q,
    dclassify ts = Some a -> Doc.no_assign a = true -> Doc.is_lowpost q = true ->
    m_expr T_E T_K nf eof (fuel_for tok (ts ++ [q])) 0 (ts ++ [q])%list = ROk (Post q (dsplit a), []).
Proof. exact (inst_postfix T_E T_K documented_table). Qed.
Print Assumptions postfix_assign_parse.

(* ... and inside the right operand of an assignment:  lhs = E ++  is (set lhs (++ E)) *)
Theorem assign_postfix_parse :
  forall eof us u asg ts a q,
    dtake_unit us = Some (u, []) -> Doc.is_binop asg = true -> Doc.prec asg <= Doc.assign_level ->
    dclassify ts = Some a -> Doc.no_assign a = true -> Doc.is_lowpost q = true ->
    m_expr T_E T_K nf eof (fuel_for tok (us ++ asg :: ts ++ [q])) 0 (us ++ asg :: ts ++ [q])%list
    = ROk (Bin asg (unit_tree tok u) (Post q (dsplit a)), []).
Proof. exact (inst_assign_postfix T_E T_K documented_table). Qed.
Print Assumptions assign_postfix_parse.

(* if / else, for ALL nestings, compositionally.  `Parses eof P r ts x`: the model of
   Expression(r), started in front of ts followed by any statement boundary satisfying P,
   returns x and stops at the boundary (with the runner's fuel). *)
Definition ParsesG := Parses T_E T_K.
Theorem doc_parses :
  forall eof P r ts a, dclassify ts = Some a -> 0 <= r <= if_cond_level T_E ->
    ParsesG eof P r ts (dsplit a).
Proof. exact (inst_doc_parses T_E T_K documented_table). Qed.
Print Assumptions doc_parses.

Theorem if_else_parse :
  forall eof P C c T t X x rbp, 0 <= rbp ->
    ParsesG eof AnyTail (if_cond_level T_E) C c -> ParsesG eof AnyTail 0 T t -> ParsesG eof P 0 X x ->
    starts_stmt T_E T_K T = true ->
    ParsesG eof P rbp (Doc.if_tok :: C ++ T ++ Doc.else_tok :: X)%list
            (Cond Doc.if_tok c t (Some (Doc.else_tok, x))).
Proof. exact (inst_if_else T_E T_K documented_table). Qed.
Print Assumptions if_else_parse.

Theorem if_noelse_parse :
  forall eof C c T t rbp, 0 <= rbp ->
    ParsesG eof AnyTail (if_cond_level T_E) C c -> ParsesG eof (NoElse eof) 0 T t ->
    starts_stmt T_E T_K T = true ->
    ParsesG eof (NoElse eof) rbp (Doc.if_tok :: C ++ T)%list (Cond Doc.if_tok c t None).
Proof. exact (inst_if_noelse T_E T_K documented_table). Qed.
Print Assumptions if_noelse_parse.

(* x = if a b else c *)
Theorem binop_then_parse :
  forall eof P us u o Y y,
    dtake_unit us = Some (u, []) -> Doc.is_binop o = true -> (forall r, 0 <= r -> ParsesG eof P r Y y) ->
    ParsesG eof P 0 (us ++ o :: Y)%list (Bin o (unit_tree tok u) y).
Proof. exact (inst_binop_then T_E T_K documented_table). Qed.
Print Assumptions binop_then_parse.

Theorem parses_is_a_run :
  forall eof P r ts x, ParsesG eof P r ts x -> P [] ->
    m_expr T_E T_K nf eof (fuel_for tok ts) r ts = ROk (x, []).
Proof. exact (Parses_run T_E T_K). Qed.
Print Assumptions parses_is_a_run.

(* indexing / slicing: the selector the model of normalizeArraySelector builds for a[...] is the
   documented one - [i] with the oracle tree of i, [a : b] / [: b] / [a :] / [:] with the oracle
   trees of the bounds (name: tokens are split into name and :), the raw tokens for a single
   token or several juxtaposed operands; for every content of any length the documentation covers *)
Theorem selector_normalised :
  forall content s, Doc.selector content = Some s ->
    norm_selector T_E T_K nf content = ROk (sel_conv s).
Proof. exact (inst_selector T_E T_K documented_table). Qed.
Print Assumptions selector_normalised.

(* ---- go-style for headers (model: Model/PrattFor.v) ---- *)
(* the guards the translator read from lowerGoFor / lowerRangeFor protect the index and slice
   sites: len(header) <= assignPos+g with index offset <= g and slice offset <= g+1; a
   three-clause header has 2 semicolons *)
Theorem for_guards_ok : for_consts_ok for_consts = true.
Proof. vm_compute. reflexivity. Qed.
Print Assumptions for_guards_ok.

(* Err, never a crash of its own: for EVERY header (well-formed or not) the model of lowerGoFor
   can only crash if Expression itself crashes on one of the clauses - header[assignPos+1] and
   header[assignPos+2:] are never out of range *)
Theorem for_index_sites_safe :
  forall E K led_err body_empty label header body,
    lower_go_for E K for_consts led_err body_empty label header body = RCrash ->
    exists src, parse_clause E K led_err src = RCrash.
Proof. intros E K led_err body_empty. exact (lower_go_for_index_safe E K for_consts led_err body_empty for_guards_ok). Qed.
Print Assumptions for_index_sites_safe.

(* for init ; test ; post body  lowers to (for [init test post] body), each clause parsed on its
   own by Expression(0) (so by pratt_precedence_correct / postfix_assign_parse to its oracle
   tree); an empty init/post is nil, an empty test is true *)
Theorem for_three_clause :
  forall E K led_err body_empty label s0 s1 s2 body,
    no_semi s0 -> no_semi s1 -> no_semi s2 ->
    lower_go_for E K for_consts led_err body_empty label (s0 ++ TSemi :: s1 ++ TSemi :: s2)%list body =
      bind_res (parse_clause E K led_err s0) (fun init =>
      bind_res (parse_clause E K led_err s1) (fun test =>
      bind_res (parse_clause E K led_err s2) (fun post =>
        ROk (FThree label init test post (body_of body_empty body))))).
Proof. intros E K led_err body_empty. exact (three_clause E K for_consts led_err body_empty for_guards_ok). Qed.
Print Assumptions for_three_clause.

(* what (arrayidx a [...]) selects: the model of SexpArraySelector.sliceBounds / RHS gives, for every
   array and every well-shaped selector [i] [lo : hi] [: hi] [lo :] [:] (any integers), exactly what Go
   slicing gives: lo defaults to 0, hi to len(a), valid iff 0 <= lo <= hi <= len(a) (an explicit 0
   is a bound like any other: a[:0] is empty), a[i] valid iff 0 <= i < len(a); otherwise an error *)
Theorem slice_selects_go_slice :
  forall (A : Type) (l : list A) sel sh,
    shape_of sel = Some sh -> select_model A l sel = select_spec A l sh.
Proof. exact select_exact. Qed.
Print Assumptions slice_selects_go_slice.

(* what an assignment through an index / field path means (specification used as the oracle of
   the lvalue family of the run): after  path = v  reading the same path gives v, and every path
   that diverges from it (another index, another field at some depth) reads as before *)
Theorem assign_read_after_write :
  forall p v d d', dset p v d = Some d' -> dget p d' = Some v.
Proof. exact dget_dset_same. Qed.
Print Assumptions assign_read_after_write.

Theorem assign_frame :
  forall p q v d d', dset p v d = Some d' -> diverge q p -> dget q d' = dget q d.
Proof. exact dget_dset_other. Qed.
Print Assumptions assign_frame.

(* non-vacuity *)
Definition s (n : string) : tok := TSym n false.
Example ex_precedence :
  m_parse_block infix_entries infix_lbp (fun _ => false) [s "a"; s "+"; s "b"; s "*"; s "c"]
  = ROk [Bin (s "+") (Leaf (s "a")) (Bin (s "*") (Leaf (s "b")) (Leaf (s "c")))].
Proof. vm_compute. reflexivity. Qed.
Example ex_classify_right_assoc :
  Doc.parse [s "a"; s "="; s "b"; s "**"; s "c"; s "**"; s "d"; TComma; s "not"; s "e"; TArr 1]
  = Some (Bin (s "=") (Leaf (s "a"))
            (Bin TComma (Bin (s "**") (Leaf (s "b")) (Bin (s "**") (Leaf (s "c")) (Leaf (s "d"))))
                        (Pre (s "not") (Post (TArr 1) (Leaf (s "e")))))).
Proof. vm_compute. reflexivity. Qed.
Example ex_model_agrees :
  m_parse_block infix_entries infix_lbp (fun _ => false)
    [s "a"; s "="; s "b"; s "**"; s "c"; s "**"; s "d"; TComma; s "not"; s "e"; TArr 1]
  = ROk [Bin (s "=") (Leaf (s "a"))
            (Bin TComma (Bin (s "**") (Leaf (s "b")) (Bin (s "**") (Leaf (s "c")) (Leaf (s "d"))))
                        (Pre (s "not") (Post (TArr 1) (Leaf (s "e")))))].
Proof. vm_compute. reflexivity. Qed.
(* the two repaired defects: a statement starting with `not` after a newline; stray semicolons *)
Example ex_not_starts_statement :
  m_parse_block infix_entries infix_lbp (fun _ => false) [s "x"; s "="; TInt 1; s "not"; s "b"]
  = ROk [Bin (s "=") (Leaf (s "x")) (Leaf (TInt 1)); Pre (s "not") (Leaf (s "b"))]
  /\ Doc.block [s "x"; s "="; TInt 1; s "not"; s "b"]
  = Some [Bin (s "=") (Leaf (s "x")) (Leaf (TInt 1)); Pre (s "not") (Leaf (s "b"))].
Proof. vm_compute. split; reflexivity. Qed.
Example ex_stray_semicolons :
  Doc.block [TSemi; s "a"; TSemi; TSemi; TArr 7; TSemi] = Some [Leaf (s "a"); Leaf (TArr 7)]
  /\ m_parse_block infix_entries infix_lbp (fun _ => false) [TSemi; s "a"; TSemi; TSemi; TArr 7; TSemi]
  = ROk [Leaf (s "a"); Leaf (TArr 7)].
Proof. vm_compute. split; reflexivity. Qed.

(* an else-if chain, derived compositionally from the theorems above (not by computation) *)
Example ex_else_if_chain :
  forall eof,
  m_expr T_E T_K nf eof 40 0
    [s "if"; s "a"; s "<"; s "b"; TPair 1; s "else"; s "if"; s "c"; TPair 2; s "else"; s "d"; s "+"; TInt 1]
  = ROk (Cond (s "if") (Bin (s "<") (Leaf (s "a")) (Leaf (s "b"))) (Leaf (TPair 1))
           (Some (s "else", Cond (s "if") (Leaf (s "c")) (Leaf (TPair 2))
                    (Some (s "else", Bin (s "+") (Leaf (s "d")) (Leaf (TInt 1)))))), []).
Proof.
  intros eof.
  assert (H : ParsesG eof AnyTail 0
     ([s "if"] ++ [s "a"; s "<"; s "b"] ++ [TPair 1] ++ s "else" :: ([s "if"] ++ [s "c"] ++ [TPair 2] ++ s "else" :: [s "d"; s "+"; TInt 1]))%list
     (Cond (s "if") (Bin (s "<") (Leaf (s "a")) (Leaf (s "b"))) (Leaf (TPair 1))
           (Some (s "else", Cond (s "if") (Leaf (s "c")) (Leaf (TPair 2))
                    (Some (s "else", Bin (s "+") (Leaf (s "d")) (Leaf (TInt 1)))))))).
  { apply (if_else_parse eof AnyTail [s "a"; s "<"; s "b"] _ [TPair 1] _ _ _ 0); try reflexivity; try apply Z.le_refl.
    - eapply (inst_doc_parses_eq T_E T_K documented_table eof AnyTail _ [s "a"; s "<"; s "b"]); [vm_compute; reflexivity | vm_compute; reflexivity | vm_compute; split; discriminate].
    - eapply (inst_doc_parses_eq T_E T_K documented_table eof AnyTail _ [TPair 1]); [vm_compute; reflexivity | vm_compute; reflexivity | vm_compute; split; discriminate].
    - apply (if_else_parse eof AnyTail [s "c"] _ [TPair 2] _ [s "d"; s "+"; TInt 1] _ 0); try reflexivity; try apply Z.le_refl.
      + eapply (inst_doc_parses_eq T_E T_K documented_table eof AnyTail _ [s "c"]); [vm_compute; reflexivity | vm_compute; reflexivity | vm_compute; split; discriminate].
      + eapply (inst_doc_parses_eq T_E T_K documented_table eof AnyTail _ [TPair 2]); [vm_compute; reflexivity | vm_compute; reflexivity | vm_compute; split; discriminate].
      + eapply (inst_doc_parses_eq T_E T_K documented_table eof AnyTail _ [s "d"; s "+"; TInt 1]); [vm_compute; reflexivity | vm_compute; reflexivity | vm_compute; split; discriminate]. }
  apply (parses_is_a_run eof AnyTail 0 _ _ H). exact I.
Qed.
Example ex_postfix_forms :
  m_parse_block T_E T_K nf [s "x"; s "="; s "a"; s "+"; s "b"; s "++"; TSemi; s "i"; s "++"]
  = ROk [Bin (s "=") (Leaf (s "x")) (Post (s "++") (Bin (s "+") (Leaf (s "a")) (Leaf (s "b"))));
         Post (s "++") (Leaf (s "i"))].
Proof. vm_compute. reflexivity. Qed.
Example ex_selector_slice :
  Doc.selector [s "i"; s "+"; TInt 1; s ":"; s "k"; s "*"; TInt 2]
  = Some (Doc.SSSlice (Some (Bin (s "+") (Leaf (s "i")) (Leaf (TInt 1))))
                      (Some (Bin (s "*") (Leaf (s "k")) (Leaf (TInt 2))))).
Proof. vm_compute. reflexivity. Qed.
Definition isb (t : tok) : bool := match t with TPair _ => true | _ => false end.
Example ex_for_three :
  for_stmt T_E T_K for_consts nf isb nf
    [s "for"; s "i"; s ":="; TInt 0; TSemi; s "i"; s "<"; TInt 3; TSemi; s "i"; s "++"; TPair 9]
  = ROk (FThree None (Some (Bin (s ":=") (Leaf (s "i")) (Leaf (TInt 0))))
                     (Some (Bin (s "<") (Leaf (s "i")) (Leaf (TInt 3))))
                     (Some (Post (s "++") (Leaf (s "i")))) (Some (TPair 9)), []).
Proof. vm_compute. reflexivity. Qed.
Example ex_for_range :
  for_stmt T_E T_K for_consts nf isb nf
    [TSym "top" true; s "for"; s "k"; TComma; s "v"; s ":="; s "range"; s "h"; TDotSym ".m"; TPair 9; s "x"]
  = ROk (FRange (Some (TSym "top" true)) [s "k"; s "v"] true (Post (TDotSym ".m") (Leaf (s "h"))) (Some (TPair 9)), [s "x"]).
Proof. vm_compute. reflexivity. Qed.
Example ex_for_malformed :
  for_stmt T_E T_K for_consts nf isb nf [s "for"; s "i"; s ":="; s "range"; TPair 9] = RErr
  /\ for_stmt T_E T_K for_consts nf isb nf [s "for"; s "i"; s "<"; TInt 3] = RErr
  /\ for_stmt T_E T_K for_consts nf isb nf [s "for"; s "i"; TSemi; TPair 9] = RErr
  /\ (exists x, for_stmt T_E T_K for_consts nf isb nf [s "for"; s "i"; s ":="; TPair 9] = ROk x).
Proof. vm_compute. repeat split; try reflexivity. eexists; reflexivity. Qed.
(* repaired by bfa83dc: a nil / char / uint64 literal starts a new statement after a newline too *)
Example ex_other_literal_starts_statement :
  m_parse_block T_E T_K nf [s "x"; s "="; TInt 5; TOther 1]
  = ROk [Bin (s "=") (Leaf (s "x")) (Leaf (TInt 5)); Leaf (TOther 1)]
  /\ Doc.block [s "x"; s "="; TInt 5; TOther 1]
     = Some [Bin (s "=") (Leaf (s "x")) (Leaf (TInt 5)); Leaf (TOther 1)]
  /\ m_parse_block T_E T_K nf [s "x"; s "="; TInt 5; TSemi; TOther 1]
     = ROk [Bin (s "=") (Leaf (s "x")) (Leaf (TInt 5)); Leaf (TOther 1)].
Proof. vm_compute. repeat split; reflexivity. Qed.
Example ex_slice_zero_bound :
  select_model Z [10; 20; 30] [SColon; SInt 0] = VSlice []
  /\ select_model Z [10; 20; 30] [SInt 1; SColon] = VSlice [20; 30]
  /\ select_model Z [10; 20; 30] [SInt 2; SColon; SInt 0] = VErr.
Proof. vm_compute. repeat split; reflexivity. Qed.

(* ===== the LEXER half: operators without surrounding blanks, sign versus operator =====
   (qualified names: Model/Lexer.v has token-kind constructors with the names of Pratt.tok's) *)
Require ZV.Model.Lexer ZV.Model.LexerPrev ZV.Proofs.SugarTokens ZV.Proofs.LexerRing.

(* the look-back ring of zygo/lexer.go (priorRune [20]rune, priori) after lexing ANY text: its k-th
   look-back, for every k up to the ring size, is the k-th previous rune of the text (0 before the start
   of the text) - every length, so every position of the ring and every number of wrap-arounds *)
Theorem ring_lookback_correct : forall (t : list Z) (s : Lexer.lstate) (k : nat),
  Lexer.lex_all Lexer.init_lstate t = Lexer.LOk s -> (1 <= k <= 20)%nat ->
  LexerPrev.kback k s = LexerPrev.true_back k t.
Proof. exact LexerRing.ring_lookback_correct_lemma. Qed.
Print Assumptions ring_lookback_correct.

(* what the sign / exponent rules of LexNextRune read (twoback, after the current rune r was pushed) is
   the last rune of the text lexed so far *)
Theorem twoback_is_previous_rune : forall (t : list Z) (s : Lexer.lstate) (r : Z),
  Lexer.lex_all Lexer.init_lstate t = Lexer.LOk s ->
  Lexer.twoback (Lexer.ring_push r s) = last t 0%Z.
Proof. exact LexerRing.twoback_is_previous_rune_lemma. Qed.
Print Assumptions twoback_is_previous_rune.

(* refinement: for EVERY text the real lexer (with the ring) yields the tokens and the error flag of the
   specification lexer that has no ring and is handed the true previous rune *)
Theorem lex_is_prev_lexer : forall t : list Z, Lexer.lex_text t = LexerPrev.lexp_text t.
Proof. exact LexerRing.lex_is_prev_lexer_lemma. Qed.
Print Assumptions lex_is_prev_lexer.

(* blanks, tabs, newlines in front of a text - any number - do not change its tokens: a block means the
   same wherever it starts *)
Theorem lex_position_independent : forall pad t : list Z,
  Forall LexerRing.blank pad -> Lexer.lex_text (pad ++ t)%list = Lexer.lex_text t.
Proof. exact LexerRing.lex_position_independent_lemma. Qed.
Print Assumptions lex_position_independent.

(* non-vacuity: 21 and 41 runes in front of "n-1 " and "n -1 " (the '-' falls on ring positions 2 and 3
   after one and two wrap-arounds): symbol minus, respectively the literal -1 *)
Example ex_ring_wrap :
  LexerPrev.lex_obs (repeat 32%Z 21 ++ [110; 45; 49; 32])%list%Z = ([(12, [110]); (12, [45]); (14, [49])], true)%Z
  /\ LexerPrev.lex_obs (repeat 32%Z 41 ++ [110; 32; 45; 49; 32])%list%Z = ([(12, [110]); (14, [45; 49])], true)%Z
  /\ LexerPrev.lexp_obs (repeat 32%Z 41 ++ [110; 32; 45; 49; 32])%list%Z = ([(12, [110]); (14, [45; 49])], true)%Z.
Proof. vm_compute. repeat split; reflexivity. Qed.

(* ===== the CnodeStack of Pratt.Expression (postfix chains in nested positions) =====
   arrayOpMunchLeft / dotOpMunchLeft read their operator token from pr.CnodeStack[0]; Model/PrattStack.v
   mirrors the push at entry, the overwrite in the led loop and the pop at exit.  For EVERY table, fuel,
   binding power, token list and initial stack contents: Expression with the stack computes exactly the
   tree of the stack-free model (each index / field node carries its own token, at every nesting depth)
   and leaves the stack as it found it. *)
Require ZV.Model.PrattStack ZV.Proofs.PrattStackProofs.
Theorem cnode_stack_top_is_operator :
  forall (tok : Type) lbp nud led is_else led_err eof_tok (fuel : nat) (rbp : Z) (st ts : list tok),
  PrattStack.exprS tok lbp nud led is_else led_err eof_tok fuel rbp st ts
  = PrattStackProofs.with_stack tok st (Pratt.expr tok lbp nud led is_else led_err eof_tok fuel rbp ts).
Proof. exact PrattStackProofs.cnode_stack_top_is_operator_lemma. Qed.
Print Assumptions cnode_stack_top_is_operator.

(* non-vacuity: {1 + pts[1] .x} with something else on the stack: the field node holds .x, not the outer + *)
Example ex_nested_postfix_chain :
  PrattStack.exprS tok (lbp_of T_E T_K) (nud_of T_E) (led_of T_E T_K) is_else nf None 20 0 [TSemi]
    [TInt 1; s "+"; s "pts"; TArr 1; TDotSym ".x"]
  = ROk (Bin (s "+") (Leaf (TInt 1)) (Post (TDotSym ".x") (Post (TArr 1) (Leaf (s "pts")))), [], [TSemi]).
Proof. vm_compute. reflexivity. Qed.

(* sign versus operator: a '-' directly followed by a digit, after ANY text t (any length / ring position)
   that leaves the lexer in normal mode with a well-formed pending atom (dump_buffer succeeds) which is not
   a mantissa followed by e / E, starts the negative literal exactly when the last rune of t is in
   canStartSignedNumberAfter (0 at the start of a text); otherwise the symbol '-' is emitted and the digit
   starts the next atom *)
Require ZV.Proofs.LexerSign.
Theorem sign_rule : forall (t : list Z) (s s1 : Lexer.lstate) (d : Z),
  Lexer.lex_all Lexer.init_lstate t = Lexer.LOk s -> Lexer.l_state s = Lexer.LNormal ->
  Lexer.dump_buffer s = Some s1 ->
  ((last t 0 =? 101) || (last t 0 =? 69))%Z && Lexer.sci_prefix_ok (Lexer.l_buffer s) = false ->
  (48 <= d <= 57)%Z ->
  exists s', Lexer.lex_all s [45; d]%Z = Lexer.LOk s' /\ Lexer.l_state s' = Lexer.LNormal /\
    if Lexer.can_start_signed_after (last t 0%Z)
    then Lexer.l_buffer s' = [45; d]%Z /\ Lexer.l_tokens s' = Lexer.l_tokens s1
    else Lexer.l_buffer s' = [d] /\ Lexer.l_tokens s' = (Lexer.l_tokens s1 ++ [Lexer.mkTok Lexer.TSymbol [45%Z]])%list.
Proof. exact LexerSign.sign_rule_lemma. Qed.
Print Assumptions sign_rule.
Example ex_sign_rule :
  LexerPrev.lex_obs [97; 45; 49; 32]%Z = ([(12, [97]); (12, [45]); (14, [49])], true)%Z
  /\ LexerPrev.lex_obs [97; 32; 45; 49; 32]%Z = ([(12, [97]); (14, [45; 49])], true)%Z
  /\ LexerPrev.lex_obs [97; 42; 45; 49; 32]%Z = ([(12, [97]); (12, [42]); (14, [45; 49])], true)%Z.
Proof. vm_compute. repeat split; reflexivity. Qed.

(* ===== round 7: the exponent rule; spacing of / , /= and := ===== *)
Require ZV.Proofs.LexerExpSlash ZV.Proofs.LexerBufLast ZV.Proofs.LexerExponent ZV.Proofs.LexerSlashSpacing.

(* after ANY text, an atom pending in normal mode ends in the last rune of the text: the rune the
   exponent rule looks back at (twoback) is the last rune of the buffered atom *)
Theorem buffer_ends_in_last_rune : forall (t : list Z) (s : Lexer.lstate),
  Lexer.lex_all Lexer.init_lstate t = Lexer.LOk s -> Lexer.l_state s = Lexer.LNormal ->
  Lexer.l_buffer s <> [] -> last (Lexer.l_buffer s) 0%Z = last t 0%Z.
Proof. exact LexerBufLast.buffer_ends_in_last_rune. Qed.
Print Assumptions buffer_ends_in_last_rune.

(* the scientific-notation test of LexNextRune on an atom m ++ [e] is "m is a mantissa" per the generated
   DecimalRegex / FloatRegex (mantissa m = re_match re_DecimalRegex m || re_match re_FloatRegex m) *)
Theorem sci_prefix_is_mantissa : forall (m : list Z) (e : Z), (e = 101 \/ e = 69)%Z ->
  Lexer.sci_prefix_ok (m ++ [e])%list = LexerExpSlash.mantissa m.
Proof. exact LexerExpSlash.sci_prefix_mantissa. Qed.
Print Assumptions sci_prefix_is_mantissa.

(* THE exponent rule, for every text t that leaves the lexer in normal mode with a pending atom m ++ [e],
   e in {e, E}, and a sign c in {+, -}: the last rune of t is that e, and
   - if m is a mantissa, c is appended to the atom (it is part of the number token), nothing is emitted;
   - otherwise (identifier "there", hex "0x1e", ...) the atom is decoded and queued and the lexer is in
     the operator mode with c pending and e recorded as the rune in front of it - the state in which the
     sign rule decides; an atom that does not decode is the lexer's error *)
Theorem exponent_rule : forall (t : list Z) (s : Lexer.lstate) (m : list Z) (e c : Z),
  Lexer.lex_all Lexer.init_lstate t = Lexer.LOk s -> Lexer.l_state s = Lexer.LNormal ->
  Lexer.l_buffer s = (m ++ [e])%list -> (e = 101 \/ e = 69)%Z -> (c = 43 \/ c = 45)%Z ->
  last t 0%Z = e /\
  if LexerExpSlash.mantissa m
  then exists s', Lexer.lex_all s [c] = Lexer.LOk s' /\ Lexer.l_state s' = Lexer.LNormal /\
                  Lexer.l_buffer s' = (m ++ [e; c])%list /\ Lexer.l_tokens s' = Lexer.l_tokens s
  else match Lexer.dump_buffer s with
       | Some s1 => exists s', Lexer.lex_all s [c] = Lexer.LOk s' /\ Lexer.l_state s' = Lexer.LBuiltinOperator /\
                               Lexer.l_buffer s' = [] /\ Lexer.l_tokens s' = Lexer.l_tokens s1 /\
                               Lexer.l_prevrune s' = c /\ Lexer.l_prebuiltin s' = e
       | None => exists s', Lexer.lex_all s [c] = Lexer.LErr s' /\ Lexer.l_tokens s' = Lexer.l_tokens s
       end.
Proof. exact LexerExponent.exponent_rule_lemma. Qed.
Print Assumptions exponent_rule.

(* joined with sign_rule: after an atom ending in e / E that is not mantissa-e, a '-' glued to a digit is
   the operator minus and the digit starts the next atom *)
Theorem exponent_rule_else_operator : forall (t : list Z) (s s1 : Lexer.lstate) (m : list Z) (e d : Z),
  Lexer.lex_all Lexer.init_lstate t = Lexer.LOk s -> Lexer.l_state s = Lexer.LNormal ->
  Lexer.l_buffer s = (m ++ [e])%list -> (e = 101 \/ e = 69)%Z -> LexerExpSlash.mantissa m = false ->
  Lexer.dump_buffer s = Some s1 -> (48 <= d <= 57)%Z ->
  exists s', Lexer.lex_all s [45; d]%Z = Lexer.LOk s' /\ Lexer.l_state s' = Lexer.LNormal /\
             Lexer.l_buffer s' = [d] /\
             Lexer.l_tokens s' = (Lexer.l_tokens s1 ++ [Lexer.mkTok Lexer.TSymbol [45%Z]])%list.
Proof. exact LexerExponent.exponent_rule_else_operator. Qed.
Print Assumptions exponent_rule_else_operator.

(* non-vacuity: "1e-5 " and "2.5E+3 " are one float each; "there-5 " and "0x1e-5 " are atom, minus, 5;
   the mantissa test on the four atoms *)
Example ex_exponent_rule :
  LexerPrev.lex_obs [49; 101; 45; 53; 32]%Z = ([(18, [49; 101; 45; 53])], true)%Z
  /\ LexerPrev.lex_obs [50; 46; 53; 69; 43; 51; 32]%Z = ([(18, [50; 46; 53; 69; 43; 51])], true)%Z
  /\ LexerPrev.lex_obs [116; 104; 101; 114; 101; 45; 53; 32]%Z
     = ([(12, [116; 104; 101; 114; 101]); (12, [45]); (14, [53])], true)%Z
  /\ LexerPrev.lex_obs [48; 120; 49; 101; 45; 53; 32]%Z = ([(15, [49; 101]); (12, [45]); (14, [53])], true)%Z
  /\ LexerExpSlash.mantissa [49]%Z = true /\ LexerExpSlash.mantissa [50; 46; 53]%Z = true
  /\ LexerExpSlash.mantissa [116; 104; 101; 114]%Z = false /\ LexerExpSlash.mantissa [48; 120; 49]%Z = false.
Proof. vm_compute. repeat split; reflexivity. Qed.

(* blanks around '/' (not followed by '/' or '*', which open comments, nor by a rune it merges with:
   BuiltinOpRegex accepts only "/="), around '/=' and around ':=' do not change the tokens, after any
   context a that leaves the lexer in normal mode *)
Theorem op_spacing_slash : forall (a b : list Z) (s : Lexer.lstate),
  Lexer.lex_all Lexer.init_lstate a = Lexer.LOk s -> Lexer.l_state s = Lexer.LNormal ->
  hd 10%Z (b ++ [10%Z])%list <> 47%Z -> hd 10%Z (b ++ [10%Z])%list <> 42%Z ->
  Regex.re_match LexTables.re_BuiltinOpRegex [47%Z; hd 10%Z (b ++ [10%Z])%list] = false ->
  Lexer.lex_text (a ++ [47%Z] ++ b ++ [10%Z])%list = Lexer.lex_text (a ++ [32; 47; 32]%Z ++ b ++ [10%Z])%list.
Proof. exact LexerSlashSpacing.op_spacing_slash. Qed.
Print Assumptions op_spacing_slash.

Theorem op_spacing_slash_eq : forall (a b : list Z) (s : Lexer.lstate),
  Lexer.lex_all Lexer.init_lstate a = Lexer.LOk s -> Lexer.l_state s = Lexer.LNormal ->
  Lexer.lex_text (a ++ [47; 61]%Z ++ b ++ [10%Z])%list = Lexer.lex_text (a ++ [32; 47; 61; 32]%Z ++ b ++ [10%Z])%list.
Proof. exact LexerSlashSpacing.op_spacing_slash_eq. Qed.
Print Assumptions op_spacing_slash_eq.

Theorem op_spacing_fresh_assign : forall (a b : list Z) (s : Lexer.lstate),
  Lexer.lex_all Lexer.init_lstate a = Lexer.LOk s -> Lexer.l_state s = Lexer.LNormal ->
  Lexer.lex_text (a ++ [58; 61]%Z ++ b ++ [10%Z])%list = Lexer.lex_text (a ++ [32; 58; 61; 32]%Z ++ b ++ [10%Z])%list.
Proof. exact LexerSlashSpacing.op_spacing_fresh_assign. Qed.
Print Assumptions op_spacing_fresh_assign.

(* non-vacuity: a/b, a/=b, a:=b spaced and unspaced; a//b is a comment, so the side condition is needed *)
Example ex_op_spacing_slash :
  Lexer.lex_text [97; 47; 98; 10]%Z = Lexer.lex_text [97; 32; 47; 32; 98; 10]%Z
  /\ Lexer.lex_text [97; 47; 61; 98; 10]%Z = Lexer.lex_text [97; 32; 47; 61; 32; 98; 10]%Z
  /\ Lexer.lex_text [97; 58; 61; 98; 10]%Z = Lexer.lex_text [97; 32; 58; 61; 32; 98; 10]%Z
  /\ map Lexer.t_kind (fst (Lexer.lex_text [97; 58; 61; 98; 10]%Z)) = [Lexer.TSymbol; Lexer.TFreshAssign; Lexer.TSymbol]
  /\ Lexer.lex_text [97; 47; 47; 98; 10]%Z <> Lexer.lex_text [97; 32; 47; 32; 47; 98; 10]%Z.
Proof. vm_compute. repeat split; try reflexivity. discriminate. Qed.
