(* C06 — infix blocks mean what the precedence table says: theorem statements. *)
From Coq Require Import ZArith String List Bool.
Import ListNotations.
Require Import ZV.Model.PrattTypes ZV.Model.Pratt ZV.Model.PrattSpec ZV.Generated.InfixTable.
Open Scope Z_scope.
Open Scope string_scope.

Example ex_precedence :
  m_parse_block infix_entries infix_lbp (fun _ => false)
    [TSym "a" false; TSym "+" false; TSym "b" false; TSym "*" false; TSym "c" false]
  = ROk [Bin (TSym "+" false) (Leaf (TSym "a" false)) (Bin (TSym "*" false) (Leaf (TSym "b" false)) (Leaf (TSym "c" false)))].
Proof. vm_compute. reflexivity. Qed.
