(* C07: numeric comparison agrees with the exact order; integer arithmetic wraps
   modulo 2^64; division is exact-or-float64, and integer division by zero is the
   only error.  Statements only; the proofs are in Proofs/NumProofs.v. *)
From Coq Require Import ZArith Bool.
From Flocq Require Import IEEE754.Binary IEEE754.Bits.
From ZV Require Import Model.Num Model.NumSpec Model.NumBits Proofs.NumProofs Proofs.NumBitsProofs Proofs.NumFoldProofs Proofs.NumOrderProofs.
Open Scope Z_scope.

(* ---- 1. master theorem: the code model equals the exact-order specification ---- *)

Theorem cmp_matches_spec : forall op a b, compare_function op a b = spec_cmp op a b.
Proof. exact NumProofs.cmp_matches_spec. Qed.
Print Assumptions cmp_matches_spec.

(* key float fact: the sign of the IEEE-rounded difference is the order, including
   underflow (gradual), overflow to infinity, signed zeros and Inf - Inf = NaN *)
Theorem signum_sub_cmp : forall x y : f64, is_nanb x = false -> is_nanb y = false ->
  signum_float (fsub x y) =
    match fcmp x y with Some Lt => -1 | Some Gt => 1 | _ => 0 end.
Proof. exact NumProofs.signum_sub_cmp. Qed.
Print Assumptions signum_sub_cmp.

Theorem of_Z_not_nan : forall z, is_nanb (of_Z z) = false.
Proof. exact NumProofs.of_Z_not_nan. Qed.
Print Assumptions of_Z_not_nan.

(* ---- 2. integer comparisons are exact (no subtraction overflow) ---- *)

Theorem cmp_int_exact : forall a b,
  compare (NInt a) (NInt b) = Ok (match a ?= b with Lt => -1 | Eq => 0 | Gt => 1 end).
Proof. exact NumProofs.cmp_int_exact. Qed.
Print Assumptions cmp_int_exact.

Theorem cmp_uint_exact : forall a b,
  compare (NUint a) (NUint b) = Ok (match a ?= b with Lt => -1 | Eq => 0 | Gt => 1 end).
Proof. exact NumProofs.cmp_uint_exact. Qed.
Print Assumptions cmp_uint_exact.

Theorem cmp_char_exact : forall a b,
  compare (NChar a) (NChar b) = Ok (match a ?= b with Lt => -1 | Eq => 0 | Gt => 1 end).
Proof. exact NumProofs.cmp_char_exact. Qed.
Print Assumptions cmp_char_exact.

Theorem cmp_int_char_exact : forall a b,
  compare (NInt a) (NChar b) = Ok (match a ?= b with Lt => -1 | Eq => 0 | Gt => 1 end) /\
  compare (NChar a) (NInt b) = Ok (match a ?= b with Lt => -1 | Eq => 0 | Gt => 1 end).
Proof. exact NumProofs.cmp_int_char_exact. Qed.
Print Assumptions cmp_int_char_exact.

(* ---- 3. NaN is unordered against every non-uint kind, on either side ---- *)

Theorem nan_unordered : forall op a b,
  is_nan_num a = true \/ is_nan_num b = true -> compare a b <> Err ->
  compare_function op a b = Ok (match op with OpNe => true | _ => false end).
Proof. exact NumProofs.nan_unordered. Qed.
Print Assumptions nan_unordered.

Theorem nan_unordered_nonuint : forall op a b,
  is_nan_num a = true \/ is_nan_num b = true -> is_uint a = false -> is_uint b = false ->
  compare_function op a b = Ok (match op with OpNe => true | _ => false end).
Proof. exact NumProofs.nan_unordered_nonuint. Qed.
Print Assumptions nan_unordered_nonuint.

(* a comparison is an error exactly when one side is a uint64 and the other is not *)
Theorem compare_err_iff : forall a b, compare a b = Err <-> is_uint a <> is_uint b.
Proof. exact NumProofs.compare_err_iff. Qed.
Print Assumptions compare_err_iff.

(* ---- 4. trichotomy and operand swap ---- *)

Theorem trichotomy : forall a b c, spec_order a b = Ok (Some c) ->
  compare_function OpLt a b = Ok (match c with Lt => true | _ => false end) /\
  compare_function OpEq a b = Ok (match c with Eq => true | _ => false end) /\
  compare_function OpGt a b = Ok (match c with Gt => true | _ => false end).
Proof. exact NumProofs.trichotomy. Qed.
Print Assumptions trichotomy.

Theorem trichotomy_exactly_one : forall a b c, spec_order a b = Ok (Some c) ->
  exists l e g,
    compare_function OpLt a b = Ok l /\ compare_function OpEq a b = Ok e /\
    compare_function OpGt a b = Ok g /\
    ((l = true /\ e = false /\ g = false) \/
     (l = false /\ e = true /\ g = false) \/
     (l = false /\ e = false /\ g = true)).
Proof. exact NumProofs.trichotomy_exactly_one. Qed.
Print Assumptions trichotomy_exactly_one.

(* the hypothesis of trichotomy holds for every comparable, NaN-free pair *)
Theorem ordered_unless_nan : forall a b,
  compare a b <> Err -> is_nan_num a = false -> is_nan_num b = false ->
  exists c, spec_order a b = Ok (Some c).
Proof. exact NumProofs.ordered_unless_nan. Qed.
Print Assumptions ordered_unless_nan.

Theorem lt_gt_swap : forall a b, compare_function OpLt a b = compare_function OpGt b a.
Proof. exact NumProofs.lt_gt_swap. Qed.
Print Assumptions lt_gt_swap.

Theorem le_ge_swap : forall a b, compare_function OpLe a b = compare_function OpGe b a.
Proof. exact NumProofs.le_ge_swap. Qed.
Print Assumptions le_ge_swap.

Theorem eq_sym_cmp : forall a b, compare_function OpEq a b = compare_function OpEq b a.
Proof. exact NumProofs.eq_sym_cmp. Qed.
Print Assumptions eq_sym_cmp.

Theorem ne_sym_cmp : forall a b, compare_function OpNe a b = compare_function OpNe b a.
Proof. exact NumProofs.ne_sym_cmp. Qed.
Print Assumptions ne_sym_cmp.

Theorem le_is_lt_or_eq : forall a b l e,
  compare_function OpLt a b = Ok l -> compare_function OpEq a b = Ok e ->
  compare_function OpLe a b = Ok (l || e).
Proof. exact NumProofs.le_is_lt_or_eq. Qed.
Print Assumptions le_is_lt_or_eq.

Theorem ne_is_not_eq : forall a b e,
  compare_function OpEq a b = Ok e -> compare_function OpNe a b = Ok (negb e).
Proof. exact NumProofs.ne_is_not_eq. Qed.
Print Assumptions ne_is_not_eq.

(* ---- 5. integer arithmetic: result in range and congruent modulo 2^64 ----
   (stated for all Z operands; in-range operands are a special case) *)

Theorem add_wraps : forall a b,
  exists r, numeric_do OpAdd (NInt a) (NInt b) = Ok (NInt r) /\
            in_i64 r = true /\ (r - (a + b)) mod two64 = 0.
Proof. exact NumProofs.add_wraps. Qed.
Print Assumptions add_wraps.

Theorem sub_wraps : forall a b,
  exists r, numeric_do OpSub (NInt a) (NInt b) = Ok (NInt r) /\
            in_i64 r = true /\ (r - (a - b)) mod two64 = 0.
Proof. exact NumProofs.sub_wraps. Qed.
Print Assumptions sub_wraps.

Theorem mul_wraps : forall a b,
  exists r, numeric_do OpMul (NInt a) (NInt b) = Ok (NInt r) /\
            in_i64 r = true /\ (r - (a * b)) mod two64 = 0.
Proof. exact NumProofs.mul_wraps. Qed.
Print Assumptions mul_wraps.

Theorem uadd_wraps : forall a b,
  exists r, numeric_do OpAdd (NUint a) (NUint b) = Ok (NUint r) /\
            in_u64 r = true /\ (r - (a + b)) mod two64 = 0.
Proof. exact NumProofs.uadd_wraps. Qed.
Print Assumptions uadd_wraps.

Theorem usub_wraps : forall a b,
  exists r, numeric_do OpSub (NUint a) (NUint b) = Ok (NUint r) /\
            in_u64 r = true /\ (r - (a - b)) mod two64 = 0.
Proof. exact NumProofs.usub_wraps. Qed.
Print Assumptions usub_wraps.

Theorem umul_wraps : forall a b,
  exists r, numeric_do OpMul (NUint a) (NUint b) = Ok (NUint r) /\
            in_u64 r = true /\ (r - (a * b)) mod two64 = 0.
Proof. exact NumProofs.umul_wraps. Qed.
Print Assumptions umul_wraps.

Theorem add_exact_in_range : forall a b, in_i64 (a + b) = true ->
  numeric_do OpAdd (NInt a) (NInt b) = Ok (NInt (a + b)).
Proof. exact NumProofs.add_exact_in_range. Qed.
Print Assumptions add_exact_in_range.

Theorem sub_exact_in_range : forall a b, in_i64 (a - b) = true ->
  numeric_do OpSub (NInt a) (NInt b) = Ok (NInt (a - b)).
Proof. exact NumProofs.sub_exact_in_range. Qed.
Print Assumptions sub_exact_in_range.

Theorem mul_exact_in_range : forall a b, in_i64 (a * b) = true ->
  numeric_do OpMul (NInt a) (NInt b) = Ok (NInt (a * b)).
Proof. exact NumProofs.mul_exact_in_range. Qed.
Print Assumptions mul_exact_in_range.

(* ---- 6. division, mixed arithmetic, totality ---- *)

Theorem div_exact_or_float : forall a b, b <> 0 ->
  numeric_do OpDiv (NInt a) (NInt b) =
    if Z.rem a b =? 0 then Ok (NInt (wrap64 (Z.quot a b)))
    else Ok (NFloat (fdiv (of_Z a) (of_Z b))).
Proof. exact NumProofs.div_exact_or_float. Qed.
Print Assumptions div_exact_or_float.

Theorem udiv_exact_or_float : forall a b, b <> 0 ->
  numeric_do OpDiv (NUint a) (NUint b) =
    if Z.rem a b =? 0 then Ok (NUint (Z.quot a b))
    else Ok (NFloat (fdiv (of_Z a) (of_Z b))).
Proof. exact NumProofs.udiv_exact_or_float. Qed.
Print Assumptions udiv_exact_or_float.

Theorem udiv_quot_in_range : forall a b, in_u64 a = true -> in_u64 b = true -> b <> 0 ->
  in_u64 (Z.quot a b) = true.
Proof. exact NumProofs.udiv_quot_in_range. Qed.
Print Assumptions udiv_quot_in_range.

Theorem div_zero_is_error : forall a, numeric_do OpDiv (NInt a) (NInt 0) = Err.
Proof. exact NumProofs.div_zero_is_error. Qed.
Print Assumptions div_zero_is_error.

Theorem udiv_zero_is_error : forall a, numeric_do OpDiv (NUint a) (NUint 0) = Err.
Proof. exact NumProofs.udiv_zero_is_error. Qed.
Print Assumptions udiv_zero_is_error.

Theorem mixed_arith_float64 : forall op a g,
  numeric_do op (NInt a) (NFloat g) = Ok (NFloat (float_do op (of_Z a) g)).
Proof. exact NumProofs.mixed_arith_float64. Qed.
Print Assumptions mixed_arith_float64.

Theorem mixed_arith_float64_sym : forall op f b,
  numeric_do op (NFloat f) (NInt b) = Ok (NFloat (float_do op f (of_Z b))).
Proof. exact NumProofs.mixed_arith_float64_sym. Qed.
Print Assumptions mixed_arith_float64_sym.

Theorem float_arith_any : forall op f b,
  numeric_do op (NFloat f) b = Ok (NFloat (float_do op f (to_float b))).
Proof. exact NumProofs.float_arith_any. Qed.
Print Assumptions float_arith_any.

Theorem any_arith_float : forall op a g,
  numeric_do op a (NFloat g) = Ok (NFloat (float_do op (to_float a) g)).
Proof. exact NumProofs.any_arith_float. Qed.
Print Assumptions any_arith_float.

(* numeric_do is total; Err exactly when the integer path divides by zero *)
Theorem arith_total : forall op a b,
  (exists r, numeric_do op a b = Ok r) \/
  (numeric_do op a b = Err /\ op = OpDiv /\ eff_divisor a b = Some 0).
Proof. exact NumProofs.arith_total. Qed.
Print Assumptions arith_total.

Theorem arith_err_iff : forall op a b,
  numeric_do op a b = Err <-> op = OpDiv /\ eff_divisor a b = Some 0.
Proof. exact NumProofs.arith_err_iff. Qed.
Print Assumptions arith_err_iff.

Theorem arith_err_iff_wf : forall op a b, wf_num a = true -> wf_num b = true ->
  (numeric_do op a b = Err <->
   op = OpDiv /\ is_float a = false /\ is_float b = false /\ int_val b = 0).
Proof. exact NumProofs.arith_err_iff_wf. Qed.
Print Assumptions arith_err_iff_wf.

(* ---- 7. non-vacuity: concrete evaluations ---- *)

Example ex_qnan_is_nan : is_nanb qnan = true.
Proof. exact NumProofs.ex_qnan_is_nan. Qed.

Example ex_int_min_lt_one :
  compare_function OpLt (NInt (-9223372036854775808)) (NInt 1) = Ok true.
Proof. exact NumProofs.ex_int_min_lt_one. Qed.

Example ex_float_lt : compare_function OpLt (NFloat (of_Z 1)) (NFloat (of_Z 2)) = Ok true.
Proof. exact NumProofs.ex_float_lt. Qed.

Example ex_int_gt_float :
  compare_function OpGt (NInt 3) (NFloat (fdiv (of_Z 5) (of_Z 2))) = Ok true.
Proof. exact NumProofs.ex_int_gt_float. Qed.

Example ex_int_float_rounding :
  compare_function OpEq (NFloat (of_Z 9007199254740992)) (NInt 9007199254740993) = Ok true /\
  compare_function OpLt (NFloat (of_Z 9007199254740992)) (NInt 9007199254740993) = Ok false.
Proof. exact NumProofs.ex_int_float_rounding. Qed.

Example ex_sub_overflow :
  bits_of_b64 (fsub fmax fmin) = 9218868437227405312 /\
  compare_function OpGt (NFloat fmax) (NFloat fmin) = Ok true.
Proof. exact NumProofs.ex_sub_overflow. Qed.

Example ex_inf_eq_inf :
  is_nanb (fsub pinf pinf) = true /\
  compare_function OpEq (NFloat pinf) (NFloat pinf) = Ok true.
Proof. exact NumProofs.ex_inf_eq_inf. Qed.

Example ex_nan_ne_nan :
  compare_function OpNe (NFloat qnan) (NFloat qnan) = Ok true /\
  compare_function OpEq (NFloat qnan) (NFloat qnan) = Ok false /\
  compare_function OpLe (NInt 0) (NFloat qnan) = Ok false /\
  compare_function OpGe (NFloat qnan) (NChar 65) = Ok false.
Proof. exact NumProofs.ex_nan_ne_nan. Qed.

Example ex_uint_mixed_err :
  compare_function OpEq (NInt 1) (NUint 1) = Err /\
  compare_function OpNe (NFloat qnan) (NUint 0) = Err.
Proof. exact NumProofs.ex_uint_mixed_err. Qed.

Example ex_add_wraps :
  numeric_do OpAdd (NInt 9223372036854775807) (NInt 1) = Ok (NInt (-9223372036854775808)).
Proof. exact NumProofs.ex_add_wraps. Qed.

Example ex_mul_wraps :
  numeric_do OpMul (NInt 4294967296) (NInt 4294967296) = Ok (NInt 0).
Proof. exact NumProofs.ex_mul_wraps. Qed.

Example ex_usub_wraps :
  numeric_do OpSub (NUint 0) (NUint 1) = Ok (NUint 18446744073709551615).
Proof. exact NumProofs.ex_usub_wraps. Qed.

Example ex_div_min_by_minus_one :
  numeric_do OpDiv (NInt (-9223372036854775808)) (NInt (-1)) = Ok (NInt (-9223372036854775808)).
Proof. exact NumProofs.ex_div_min_by_minus_one. Qed.

Example ex_div_inexact_is_float :
  match numeric_do OpDiv (NInt 7) (NInt 2) with
  | Ok (NFloat g) => bits_of_b64 g = 4615063718147915776
  | _ => False end.
Proof. exact NumProofs.ex_div_inexact_is_float. Qed.

Example ex_div_zero : numeric_do OpDiv (NInt 7) (NInt 0) = Err.
Proof. exact NumProofs.ex_div_zero. Qed.

(* ---- modulo (the `mod` builtin: IntegerDo/UintegerDo with Modulo) ---- *)
Theorem mod_zero_is_error : forall a z, (z = NInt 0 \/ z = NUint 0 \/ z = NChar 0) -> mod_do a z = Err.
Proof. exact NumProofs.mod_zero_is_error. Qed.
Print Assumptions mod_zero_is_error.

Theorem mod_int_spec : forall x y, y <> 0 ->
  mod_do (NInt x) (NInt y) = Ok (NInt (x - y * Z.quot x y)).
Proof. exact NumProofs.mod_int_spec. Qed.
Print Assumptions mod_int_spec.

Theorem mod_uint_spec : forall x y, 0 <= x -> 0 < y ->
  mod_do (NUint x) (NUint y) = Ok (NUint (x - y * (x / y))).
Proof. exact NumProofs.mod_uint_spec. Qed.
Print Assumptions mod_uint_spec.

Theorem mod_float_is_error : forall a b f, (a = NFloat f \/ b = NFloat f) -> mod_do a b = Err.
Proof. exact NumProofs.mod_float_is_error. Qed.
Print Assumptions mod_float_is_error.

Theorem mod_err_iff : forall a b, mod_do a b = Err <->
  (exists f, a = NFloat f) \/ (exists f, b = NFloat f) \/
  (match a, b with
   | NUint _, NInt j | NUint _, NChar j => wrapu64 j = 0
   | _, NInt j | _, NChar j | _, NUint j => j = 0
   | _, _ => False end).
Proof. exact NumProofs.mod_err_iff. Qed.
Print Assumptions mod_err_iff.

Example ex_mod_uint_zero : mod_do (NUint 5) (NUint 0) = Err.
Proof. reflexivity. Qed.
Example ex_mod_neg : mod_do (NInt (-7)) (NInt 2) = Ok (NInt (-1)).
Proof. reflexivity. Qed.

(* ---- n-ary arithmetic (NumericFunction folds NumericDo from the left) ---- *)
From Coq Require Import List.
Import ListNotations.
Theorem add_fold_wraps : forall a l, in_i64 a = true ->
  numeric_fold OpAdd (map NInt (a :: l)) = Ok (NInt (wrap64 (a + fold_right Z.add 0 l))).
Proof. exact NumProofs.add_fold_wraps. Qed.
Print Assumptions add_fold_wraps.

Theorem fold_two : forall op a b, numeric_fold op [a; b] = numeric_do op a b.
Proof. exact NumProofs.fold_two. Qed.
Print Assumptions fold_two.

Example ex_fold_three : numeric_fold OpAdd [NInt 9223372036854775807; NInt 0; NInt 5] = Ok (NInt (-9223372036854775804)).
Proof. reflexivity. Qed.

(* ================================================================== *)
(* round 6: the integer-only builtins (IntegerDo: sll sra srl mod bitAnd bitOr bitXor, bitNot),
   every n-ary fold, the arithmetic oracle, mixed int/float order against the exact reals. *)
From Coq Require Import Reals.
From Flocq Require Import Core.Raux.

(* ---- 7. IntegerDo equals its exact specification for all 64-bit operands of every kind ---- *)
Theorem integer_do_matches_spec : forall op a b, wf_num a = true -> wf_num b = true ->
  integer_do op a b = spec_integer op a b.
Proof. exact NumBitsProofs.integer_do_matches_spec. Qed.
Print Assumptions integer_do_matches_spec.

Theorem shl_i64_exact : forall a c, 0 <= c -> shl_i64 a c = wrap64 (a * 2 ^ c).
Proof. exact NumBitsProofs.shl_i64_exact. Qed.
Print Assumptions shl_i64_exact.

Theorem shl_u64_exact : forall a c, 0 <= c -> shl_u64 a c = wrapu64 (a * 2 ^ c).
Proof. exact NumBitsProofs.shl_u64_exact. Qed.
Print Assumptions shl_u64_exact.

Theorem sra_i64_exact : forall a c, in_i64 a = true -> 0 <= c -> sra_i64 a c = a / 2 ^ c.
Proof. exact NumBitsProofs.sra_i64_exact. Qed.
Print Assumptions sra_i64_exact.

Theorem srl_i64_exact : forall a c, 0 <= c -> srl_i64 a c = wrap64 (wrapu64 a / 2 ^ c).
Proof. exact NumBitsProofs.srl_i64_exact. Qed.
Print Assumptions srl_i64_exact.

Theorem shr_u64_exact : forall a c, in_u64 a = true -> 0 <= c -> shr_u64 a c = a / 2 ^ c.
Proof. exact NumBitsProofs.shr_u64_exact. Qed.
Print Assumptions shr_u64_exact.

Theorem land_signed_spec : forall a b, in_i64 a = true -> in_i64 b = true ->
  Z.land a b = signed64 (bitw andb 64 a b).
Proof. exact NumBitsProofs.land_signed_spec. Qed.
Print Assumptions land_signed_spec.

Theorem lor_signed_spec : forall a b, in_i64 a = true -> in_i64 b = true ->
  Z.lor a b = signed64 (bitw orb 64 a b).
Proof. exact NumBitsProofs.lor_signed_spec. Qed.
Print Assumptions lor_signed_spec.

Theorem lxor_signed_spec : forall a b, in_i64 a = true -> in_i64 b = true ->
  Z.lxor a b = signed64 (bitw xorb 64 a b).
Proof. exact NumBitsProofs.lxor_signed_spec. Qed.
Print Assumptions lxor_signed_spec.

Theorem bitop_bits : forall op f a b i, bit_fun op = Some f -> 0 <= i ->
  (forall r, int_integer_do op a b = Ok r ->
     exists z, r = NInt z /\ Z.testbit z i = f (Z.testbit a i) (Z.testbit b i)).
Proof. exact NumBitsProofs.bitop_bits. Qed.
Print Assumptions bitop_bits.

Theorem int_integer_do_wf : forall op a b r, in_i64 a = true -> in_i64 b = true ->
  int_integer_do op a b = Ok r -> wf_num r = true.
Proof. exact NumBitsProofs.int_integer_do_wf. Qed.
Print Assumptions int_integer_do_wf.

Theorem integer_do_err_iff : forall op a b, wf_num a = true -> wf_num b = true ->
  (integer_do op a b = Err <->
   is_float a = true \/ is_float b = true \/ (op = IMod /\ int_val b = 0)).
Proof. exact NumBitsProofs.integer_do_err_iff. Qed.
Print Assumptions integer_do_err_iff.

Theorem integer_do_mod : forall a b, integer_do IMod a b = mod_do a b.
Proof. exact NumBitsProofs.integer_do_mod. Qed.
Print Assumptions integer_do_mod.

Theorem int_function_two : forall op a b, int_function op (a :: b :: nil) = integer_do op a b.
Proof. exact NumBitsProofs.int_function_two. Qed.
Print Assumptions int_function_two.

Theorem int_function_arity : forall op args, length args <> 2%nat -> int_function op args = Err.
Proof. exact NumBitsProofs.int_function_arity. Qed.
Print Assumptions int_function_arity.

Theorem complement_matches_spec : forall a, complement a = spec_complement a.
Proof. exact NumBitsProofs.complement_matches_spec. Qed.
Print Assumptions complement_matches_spec.

Theorem complement_wf : forall a r, wf_num a = true -> complement a = Ok r -> wf_num r = true.
Proof. exact NumBitsProofs.complement_wf. Qed.
Print Assumptions complement_wf.

Theorem complement_involutive : forall a r, complement a = Ok r -> complement r = Ok a.
Proof. exact NumBitsProofs.complement_involutive. Qed.
Print Assumptions complement_involutive.

Example ex_sll_63 : integer_do IShl (NInt 1) (NInt 63) = Ok (NInt (-9223372036854775808)).
Proof. reflexivity. Qed.
Example ex_sll_64 : integer_do IShl (NInt 1) (NInt 64) = Ok (NInt 0).
Proof. reflexivity. Qed.
Example ex_sll_negative_count : integer_do IShl (NInt 1) (NInt (-1)) = Ok (NInt 0).
Proof. reflexivity. Qed.
Example ex_sra_sign_fill : integer_do ISra (NInt (-8)) (NInt 70) = Ok (NInt (-1)).
Proof. reflexivity. Qed.
Example ex_srl_neg : integer_do ISrl (NInt (-8)) (NInt 1) = Ok (NInt 9223372036854775804).
Proof. reflexivity. Qed.
Example ex_and_neg : integer_do IAnd (NInt (-1)) (NInt 9223372036854775807) = Ok (NInt 9223372036854775807).
Proof. reflexivity. Qed.
Example ex_xor_min : spec_integer IXor (NInt (-9223372036854775808)) (NInt (-1)) = Ok (NInt 9223372036854775807).
Proof. vm_compute. reflexivity. Qed.
Example ex_or_mixed_uint : integer_do IOr (NInt (-1)) (NUint 2) = Ok (NUint 18446744073709551615).
Proof. reflexivity. Qed.
Example ex_bitnot : complement (NInt 5) = Ok (NInt (-6)).
Proof. reflexivity. Qed.
Example ex_bitnot_uint_err : complement (NUint 5) = Err.
Proof. reflexivity. Qed.
Example ex_int_mod_zero : integer_do IMod (NChar 97) (NUint 0) = Err.
Proof. reflexivity. Qed.

(* ---- 8. the arithmetic / modulo oracle (NumSpec) is implied by the model on all in-range operands ---- *)
Theorem arith_matches_spec : forall op a b r, wf_num a = true -> wf_num b = true ->
  spec_arith op a b = Some r -> numeric_do op a b = r.
Proof. exact NumBitsProofs.arith_matches_spec. Qed.
Print Assumptions arith_matches_spec.

Theorem mod_matches_spec : forall a b r, wf_num a = true -> wf_num b = true ->
  spec_mod a b = Some r -> mod_do a b = r.
Proof. exact NumBitsProofs.mod_matches_spec. Qed.
Print Assumptions mod_matches_spec.

(* ---- 9. n-ary folds, every operator, every operand list ---- *)
Theorem int_fold_wraps : forall op a l, op <> OpDiv -> in_i64 a = true ->
  numeric_fold op (map NInt (a :: l)) = Ok (NInt (wrap64 (fold_left (exact_op op) l a))).
Proof. exact NumFoldProofs.int_fold_wraps. Qed.
Print Assumptions int_fold_wraps.

Theorem uint_fold_wraps : forall op a l, op <> OpDiv -> in_u64 a = true ->
  numeric_fold op (map NUint (a :: l)) = Ok (NUint (wrapu64 (fold_left (exact_op op) l a))).
Proof. exact NumFoldProofs.uint_fold_wraps. Qed.
Print Assumptions uint_fold_wraps.

Theorem fold_float_absorbs : forall op args r,
  numeric_fold op args = Ok r -> existsb is_float args = true -> is_float r = true.
Proof. exact NumFoldProofs.fold_float_absorbs. Qed.
Print Assumptions fold_float_absorbs.

Theorem fold_int_like : forall op args r, op <> OpDiv ->
  numeric_fold op args = Ok r -> existsb is_float args = false -> is_float r = false.
Proof. exact NumFoldProofs.fold_int_like. Qed.
Print Assumptions fold_int_like.

Theorem fold_total : forall op args, op <> OpDiv -> args <> nil -> exists r, numeric_fold op args = Ok r.
Proof. exact NumFoldProofs.fold_total. Qed.
Print Assumptions fold_total.

Theorem fold_div_err_from : forall l v,
  fold_left (fstep OpDiv) l (Ok v) = Err ->
  exists pre x post w, l = pre ++ x :: post /\ fold_left (fstep OpDiv) pre (Ok v) = Ok w /\
                       eff_divisor w x = Some 0.
Proof. exact NumFoldProofs.fold_div_err_from. Qed.
Print Assumptions fold_div_err_from.

Theorem numeric_do_wf : forall op a b r, wf_num a = true -> wf_num b = true ->
  numeric_do op a b = Ok r -> wf_num r = true.
Proof. exact NumFoldProofs.numeric_do_wf. Qed.
Print Assumptions numeric_do_wf.

Theorem fold_wf : forall op args r, forallb wf_num args = true ->
  numeric_fold op args = Ok r -> wf_num r = true.
Proof. exact NumFoldProofs.fold_wf. Qed.
Print Assumptions fold_wf.

Theorem fold_matches_spec : forall op args r, forallb wf_num args = true ->
  spec_fold op args = Some r -> numeric_fold op args = r.
Proof. exact NumFoldProofs.fold_matches_spec. Qed.
Print Assumptions fold_matches_spec.

Theorem numeric_builtin_two_or_more : forall op a b l,
  numeric_builtin op (a :: b :: l) = numeric_fold op (a :: b :: l).
Proof. exact NumFoldProofs.numeric_builtin_two_or_more. Qed.
Print Assumptions numeric_builtin_two_or_more.

Example ex_star_one_operand_is_not_arithmetic : numeric_builtin OpMul [NInt 5] = Err.
Proof. reflexivity. Qed.
Example ex_mul_fold : numeric_fold OpMul [NInt 4611686018427387904; NInt 2; NInt 2; NInt 3] = Ok (NInt 0).
Proof. reflexivity. Qed.
Example ex_sub_fold : numeric_fold OpSub [NInt (-9223372036854775808); NInt 1; NInt (-1)] = Ok (NInt (-9223372036854775808)).
Proof. reflexivity. Qed.
Example ex_unary_minus_is_identity : numeric_fold OpSub [NInt 5] = Ok (NInt 5).
Proof. reflexivity. Qed.

(* ---- 10. mixed integer / float comparison against the exact real order ---- *)
Theorem spec_order_int_float_sound : forall a z g, wf_num a = true -> int_like_val a = Some z ->
  is_finite 53 1024 g = true ->
  match spec_order a (NFloat g) with
  | Ok (Some Lt) => (IZR z < B2R 53 1024 g)%R
  | Ok (Some Gt) => (B2R 53 1024 g < IZR z)%R
  | Ok (Some Eq) => B2R 53 1024 g = rnd64 (IZR z)
  | _ => False
  end.
Proof. exact NumOrderProofs.spec_order_int_float_sound. Qed.
Print Assumptions spec_order_int_float_sound.

Theorem spec_order_float_int_sound : forall a z g, wf_num a = true -> int_like_val a = Some z ->
  is_finite 53 1024 g = true ->
  match spec_order (NFloat g) a with
  | Ok (Some Lt) => (B2R 53 1024 g < IZR z)%R
  | Ok (Some Gt) => (IZR z < B2R 53 1024 g)%R
  | Ok (Some Eq) => B2R 53 1024 g = rnd64 (IZR z)
  | _ => False
  end.
Proof. exact NumOrderProofs.spec_order_float_int_sound. Qed.
Print Assumptions spec_order_float_int_sound.

Theorem spec_order_int_float_exact : forall a z g, int_like_val a = Some z -> Z.abs z <= 2 ^ 53 ->
  is_finite 53 1024 g = true ->
  spec_order a (NFloat g) = Ok (Some (Rcompare (IZR z) (B2R 53 1024 g))).
Proof. exact NumOrderProofs.spec_order_int_float_exact. Qed.
Print Assumptions spec_order_int_float_exact.

Theorem of_Z_correct : forall z, Z.abs z <= two64 ->
  B2R 53 1024 (of_Z z) = rnd64 (IZR z) /\ is_finite 53 1024 (of_Z z) = true.
Proof. exact NumOrderProofs.of_Z_correct. Qed.
Print Assumptions of_Z_correct.

Example ex_max_int_eq_2p63_after_conversion :
  compare_function OpEq (NInt 9223372036854775807) (NFloat (of_Z 9223372036854775808)) = Ok true.
Proof. vm_compute. reflexivity. Qed.
Example ex_2p53_plus_1_lt_next :
  compare_function OpLt (NInt 9007199254740993) (NFloat (of_Z 9007199254740994)) = Ok true.
Proof. vm_compute. reflexivity. Qed.
