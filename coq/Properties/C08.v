(* C08: a sandboxed interpreter cannot reach the outside world.
   Statements only; the proofs are in Proofs/SandboxProofs.v.  Every statement quantifies over the
   tables of Generated/SandboxTables.v, regenerated from the Go source on every run of the check.

   FULL statement (false of the current source, see Properties/C08Refuted.v and the known findings):
     sandbox_tables_pure : forall c n k f, sandboxed c = true -> In (n,k,f) (bindings c) -> k <> KValue -> effect_of c f = []
     special_forms_pure  : forall c n f, sandboxed c = true -> In (n,f) special_forms -> effect_of c f = []
     sandbox_no_effect   : forall c p, sandboxed c = true -> effects_of c (run_abs c p) = []
   Proved here: the same statements EXCEPT for the explicit lists known_leak_bindings / known_leak_specials
   (closed by vm_compute over the generated tables, so any NEW impure entry breaks the proof), and the full
   statement for every program that avoids the known leaks. *)
From Coq Require Import String List Bool.
From ZV Require Import Generated.SandboxTables Model.Sandbox Proofs.SandboxProofs.
Import ListNotations.
Open Scope string_scope.

(* ---- 1. the capability closure: aliases, eval, apply, map, macros add nothing ---- *)
Theorem capability_closed : forall c p, incl (prims_reached c p) (closure c).
Proof. exact SandboxProofs.capability_closed. Qed.
Print Assumptions capability_closed.

(* ---- 2. purity of the generated tables, except the known leaks ---- *)
Theorem sandbox_tables_pure_except : forall c n k f, sandboxed c = true ->
  In (n, k, f) (bindings c) -> k <> KValue -> effect_of c f <> [] -> In n (known_leak_bindings c).
Proof. exact SandboxProofs.sandbox_tables_pure_except. Qed.
Print Assumptions sandbox_tables_pure_except.

Theorem special_forms_pure_except : forall c n f, sandboxed c = true ->
  In (n, f) special_forms -> effect_of c f <> [] -> In n known_leak_specials.
Proof. exact SandboxProofs.special_forms_pure_except. Qed.
Print Assumptions special_forms_pure_except.

Theorem implicit_prims_pure : forall c n k f, sandboxed c = true -> In (n, k, f) implicit_prims -> effect_of c f = [].
Proof. exact SandboxProofs.implicit_prims_pure. Qed.
Print Assumptions implicit_prims_pure.

Theorem vm_core_pure : forall c f, sandboxed c = true -> In f vm_core -> effect_of c f = [].
Proof. exact SandboxProofs.vm_core_pure. Qed.
Print Assumptions vm_core_pure.

(* ---- 3. no program has an effect, except through a known leak ---- *)
Theorem sandbox_no_effect_except : forall c p f, sandboxed c = true ->
  In f (run_abs c p) -> effect_of c f <> [] -> In f (leak_fns c).
Proof. exact SandboxProofs.sandbox_no_effect_except. Qed.
Print Assumptions sandbox_no_effect_except.

Theorem sandbox_no_effect_partial : forall c p, sandboxed c = true ->
  (forall f, In f (leak_fns c) -> ~ In f (run_abs c p)) -> effects_of c (run_abs c p) = [].
Proof. exact SandboxProofs.sandbox_no_effect. Qed.
Print Assumptions sandbox_no_effect_partial.

Theorem sandbox_no_effect_when_pure : forall c p, sandboxed c = true ->
  leak_fns c = [] -> effects_of c (run_abs c p) = [].
Proof. exact SandboxProofs.sandbox_no_effect_when_pure. Qed.
Print Assumptions sandbox_no_effect_when_pure.

(* ---- non-vacuity: the tables are populated, the classification sees real effects ---- *)
Example bare_has_many_bindings : Nat.leb 200 (length (bindings Bare)) = true.
Proof. vm_compute. reflexivity. Qed.
Example special_forms_many : Nat.leb 20 (length special_forms) = true.
Proof. vm_compute. reflexivity. Qed.
Example std_extends_bare : Nat.ltb (length (bindings Bare)) (length (bindings Std)) = true.
Proof. vm_compute. reflexivity. Qed.
(* the unrestricted control configuration is (correctly) seen as effectful *)
Example control_is_effectful :
  predicted_effects Full (PCall (PRef "system") [PConst]) = ["process"].
Proof. vm_compute. reflexivity. Qed.
Example control_alias_apply :
  predicted_effects Full (PSeq [PDef "g" (PRef "slurpf"); PCall (PRef "apply") [PRef "g"; PConst]]) = ["file_read"].
Proof. vm_compute. reflexivity. Qed.
Example sandbox_plain_program_pure :
  predicted_effects Std (PSeq [PDef "g" (PRef "println"); PCall (PRef "map") [PRef "g"; PConst]; PMacro "req" [PConst]]) = [].
Proof. vm_compute. reflexivity. Qed.
Example unknown_function_is_not_pure : effect_of Std "NoSuchGoFunction" = [Eunknown].
Proof. vm_compute. reflexivity. Qed.
