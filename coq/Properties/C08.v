(* C08: a sandboxed interpreter cannot reach the outside world.
   Statements only; the proofs are in Proofs/SandboxProofs.v.  Every statement quantifies over the
   tables of Generated/SandboxTables.v, regenerated from the Go source on every run of the check
   (translator/cmd/sandbox): bindings of every configuration, special forms, implicit function values
   of the VM, VM core, and the effect classes of every Go function from the intra-package call graph.
   The purity statements are closed by vm_compute over that file, so ANY impure entry breaks them. *)
From Coq Require Import String List Bool.
From ZV Require Import Generated.SandboxTables Model.Sandbox Proofs.SandboxProofs Model.Cmdline Proofs.CmdlineProofs Model.Family Proofs.FamilyProofs.
Import ListNotations.
Open Scope string_scope.

(* ---- 1. the capability closure: aliases, eval, apply, map, macros add nothing ---- *)
Theorem capability_closed : forall (c : ctx) p, incl (prims_reached c p) (closure c).
Proof. exact SandboxProofs.capability_closed. Qed.
Print Assumptions capability_closed.

(* ---- 2. purity of the generated tables ---- *)
Theorem sandbox_tables_pure : forall (c : cfg) n k f, sandboxed c = true ->
  In (n, k, f) (bindings c) -> k <> KValue -> effect_of c f = [].
Proof. exact SandboxProofs.sandbox_tables_pure. Qed.
Print Assumptions sandbox_tables_pure.

Theorem special_forms_pure : forall (c : cfg) n f, sandboxed c = true ->
  In (n, f) special_forms -> effect_of c f = [].
Proof. exact SandboxProofs.special_forms_pure. Qed.
Print Assumptions special_forms_pure.

Theorem implicit_prims_pure : forall (c : cfg) n k f, sandboxed c = true -> In (n, k, f) implicit_prims -> effect_of c f = [].
Proof. exact SandboxProofs.implicit_prims_pure. Qed.
Print Assumptions implicit_prims_pure.

Theorem vm_core_pure : forall (c : cfg) f, sandboxed c = true -> In f vm_core -> effect_of c f = [].
Proof. exact SandboxProofs.vm_core_pure. Qed.
Print Assumptions vm_core_pure.

Theorem closure_pure : forall (c : cfg) f, sandboxed c = true -> In f (closure c) -> effect_of c f = [].
Proof. exact SandboxProofs.closure_pure. Qed.
Print Assumptions closure_pure.

(* ---- 3. THE PROPERTY (full statement): no program has any effect in a sandboxed configuration ---- *)
Theorem sandbox_no_effect : forall (c : cfg) p, sandboxed c = true -> effects_of c (run_abs c p) = [].
Proof. exact SandboxProofs.sandbox_no_effect. Qed.
Print Assumptions sandbox_no_effect.

(* ---- 3b. any interpreter context (flag, tables) whose tables are pure: the statement the family theorems instantiate ---- *)
Theorem ctx_no_effect : forall (c : ctx) p, tables_ok c = true -> effects_of c (run_abs c p) = [].
Proof. exact SandboxProofs.ctx_no_effect. Qed.
Print Assumptions ctx_no_effect.

(* ---- 3c. the interpreter FAMILY (Model/Family.v): NewZlispSandbox / NewZlisp, StandardSetup, ImportDemoData,
   Duplicate, Clone (sharing the binding tables), script-level definitions -- in ANY order, any number of times,
   any number of interpreters in one process.  Invariant preserved by every operation; the registration tables,
   the copies-the-flag facts about Duplicate / Clone and ReplMain's plans are GENERATED from the Go source. ---- *)
Theorem family_invariant : forall ops, Forall known_op ops -> FInv (run_family ops).
Proof. exact FamilyProofs.family_invariant. Qed.
Print Assumptions family_invariant.

Theorem fstep_preserves_invariant : forall st op, known_op op -> FInv st -> FInv (fstep st op).
Proof. exact FamilyProofs.fstep_inv. Qed.
Print Assumptions fstep_preserves_invariant.

(* the sandboxed field of every member = "its root constructor was NewZlispSandbox" (never lost, never gained) *)
Theorem family_flag_is_origin : forall ops i it, Forall known_op ops ->
  nth_error (interps (run_family ops)) i = Some it -> iflag it = iorigin it.
Proof. exact FamilyProofs.family_flag_is_origin. Qed.
Print Assumptions family_flag_is_origin.

(* THE PROPERTY for every member of every family *)
Theorem family_no_effect : forall ops it p, Forall known_op ops ->
  In it (interps (run_family ops)) -> iorigin it = true ->
  effects_of (ctx_of_interp (run_family ops) it) (run_abs (ctx_of_interp (run_family ops) it) p) = [].
Proof. exact FamilyProofs.family_no_effect. Qed.
Print Assumptions family_no_effect.

(* ReplMain has a plan for every assignment of the flags its construction depends on ... *)
Theorem replmain_total : forall v, In v (all_vecs (length replmain_flags)) -> exists p, find_plan v replmain_plans = Some p.
Proof. exact FamilyProofs.replmain_total. Qed.
Print Assumptions replmain_total.

(* ... and under every assignment with the sandbox flag on (-demo, -c ... in any combination) the interpreter it
   builds, and everything later derived from it, is sandboxed and effect-free, whatever else the process does *)
Theorem replmain_sandboxed : forall v pl more it p,
  find_plan v replmain_plans = Some pl -> flag_value "Sandboxed" replmain_flags v = true ->
  Forall known_op more ->
  In it (interps (run_family ((plan_ops pl ++ more)%list))) -> iworld it = 0 ->
  iflag it = true /\
  effects_of (ctx_of_interp (run_family ((plan_ops pl ++ more)%list)) it) (run_abs (ctx_of_interp (run_family ((plan_ops pl ++ more)%list)) it) p) = [].
Proof. exact FamilyProofs.replmain_sandboxed. Qed.
Print Assumptions replmain_sandboxed.

Theorem cmdline_construction_sandboxed : forall (s : st) demo, sandboxed_flag s = true ->
  exists pl, construction s demo = Some (plan_ops pl) /\ fst pl = true /\ Forall known_op (plan_ops pl).
Proof. exact FamilyProofs.cmdline_construction_sandboxed. Qed.
Print Assumptions cmdline_construction_sandboxed.

(* the fixed configurations are family members: the two presentations of the generated tables agree *)
Theorem std_is_composed : bindings_std = (ctor_sandbox ++ std_regs_sb)%list.
Proof. exact FamilyProofs.std_is_composed. Qed.
Print Assumptions std_is_composed.

(* non-vacuity: a history mixing an unrestricted and a sandboxed interpreter, duplicates of both *)
Example family_history_flags :
  map (fun i => flag_of (run_family [FNewFull; FStdSetup 0; FNewSandbox; FStdSetup 1; FDup 1; FClone 2; FDup 0; FDefValue 3 "system"]) i) [0; 1; 2; 3; 4; 5]
  = [Some false; Some true; Some true; Some true; Some false; None].
Proof. vm_compute. reflexivity. Qed.
Example family_dup_of_sandbox_refuses_include :
  family_predicted (run_family [FNewSandbox; FStdSetup 0; FDup 0]) 1 (PSpecial "include" [PConst]) = [].
Proof. vm_compute. reflexivity. Qed.
Example family_dup_of_full_is_effectful :
  family_predicted (run_family [FNewFull; FStdSetup 0; FDup 0]) 1 (PSeq [PSpecial "include" [PConst]; PCall (PRef "sys") [PConst]]) = ["file_read"; "process"].
Proof. vm_compute. reflexivity. Qed.
Example family_setup_after_full_does_not_leak :
  existsb (String.eqb "sys") (names_of (run_family [FNewFull; FStdSetup 0; FNewSandbox; FStdSetup 1]) 1) = false /\
  existsb (String.eqb "sys") (names_of (run_family [FNewFull; FStdSetup 0; FNewSandbox; FStdSetup 1]) 0) = true.
Proof. vm_compute. split; reflexivity. Qed.
Example replmain_demo_sandbox_plan :
  construction {| sandboxed_flag := true; interactive := false; exitonfail := false; command := true |} true
  = Some [FNewSandbox; FStdSetup 0; FDemo 0].
Proof. vm_compute. reflexivity. Qed.
Example unknown_registration_breaks_the_invariant :
  tables_ok (ctx_of_interp (run_family [FNewSandbox; FUnknown 0]) {| iworld := 0; iflag := true; iorigin := true |}) = false.
Proof. vm_compute. reflexivity. Qed.

(* ---- 4. the command line of cmd/zygo (Model/Cmdline.v mirrors flag.FlagSet.Parse + ReplMain's choice) ----
   "run under -sandbox" = the flag part of the command line leaves the sandbox flag on; then the run is
   sandboxed whatever follows the script name (arguments that look like flags, -sandbox=false, -c ...). *)
Theorem sandbox_flag_decides : forall pre post, forallb is_flag pre = true ->
  run_cmdline (pre ++ APlain :: post) = (if last_sandbox false pre then OSandboxed else OOpen) /\
  run_cmdline (pre ++ ADashDash :: post) = (if last_sandbox false pre then OSandboxed else OOpen) /\
  run_cmdline pre = (if last_sandbox false pre then OSandboxed else OOpen).
Proof. exact CmdlineProofs.sandbox_flag_decides. Qed.
Print Assumptions sandbox_flag_decides.

Theorem args_after_script_irrelevant : forall pre post post', forallb is_flag pre = true ->
  run_cmdline (pre ++ APlain :: post) = run_cmdline (pre ++ APlain :: post') /\
  run_cmdline (pre ++ ADashDash :: post) = run_cmdline (pre ++ ADashDash :: post').
Proof. exact CmdlineProofs.args_after_script_irrelevant. Qed.
Print Assumptions args_after_script_irrelevant.

Theorem value_is_not_a_flag : forall pre a post, forallb is_flag pre = true ->
  run_cmdline (pre ++ AStr false :: a :: post) = run_cmdline (pre ++ post).
Proof. exact CmdlineProofs.value_is_not_a_flag. Qed.
Print Assumptions value_is_not_a_flag.

Theorem bad_flag_rejects : forall pre post, forallb is_flag pre = true ->
  run_cmdline (pre ++ ABad :: post) = ORejected.
Proof. exact CmdlineProofs.bad_flag_rejects. Qed.
Print Assumptions bad_flag_rejects.

(* every phase of a session (the -c command, the script, the repl a failed script drops into, the repl after -i,
   the plain repl) runs on the interpreter the command line asked for *)
Theorem session_one_interpreter : forall l fails phs ph k,
  session l fails = Some phs -> In (ph, k) phs -> k = run_cmdline l.
Proof. exact CmdlineProofs.session_one_interpreter. Qed.
Print Assumptions session_one_interpreter.

Theorem session_sandboxed : forall pre post fails phs ph k, forallb is_flag pre = true ->
  last_sandbox false pre = true ->
  session (pre ++ APlain :: post) fails = Some phs -> In (ph, k) phs -> k = OSandboxed.
Proof. exact CmdlineProofs.session_sandboxed. Qed.
Print Assumptions session_sandboxed.

Example failed_script_drops_into_repl :
  session [ASandbox None; ABool; APlain] true = Some [(PhScript, OSandboxed); (PhReplAfterFailedScript, OSandboxed)].
Proof. reflexivity. Qed.
Example exitonfail_ends_the_session :
  session [ASandbox None; AExitOnFail true; APlain] true = Some [(PhScript, OSandboxed)].
Proof. reflexivity. Qed.
Example interactive_after_script :
  session [AInteractive true; ASandbox None; APlain; ASandbox (Some false)] false = Some [(PhScript, OSandboxed); (PhReplAfterScript, OSandboxed)].
Proof. reflexivity. Qed.

Example cmdline_seed_shape : run_cmdline [ASandbox None; APlain; ABool] = OSandboxed.
Proof. reflexivity. Qed.
Example cmdline_flag_after_script_is_an_argument : run_cmdline [APlain; ASandbox None] = OOpen.
Proof. reflexivity. Qed.
Example cmdline_last_wins : run_cmdline [ASandbox None; ASandbox (Some false); APlain] = OOpen.
Proof. reflexivity. Qed.

(* ---- non-vacuity: the tables are populated, the classification sees real effects ---- *)
Example bare_has_many_bindings : Nat.leb 200 (length (bindings Bare)) = true.
Proof. vm_compute. reflexivity. Qed.
Example special_forms_many : Nat.leb 20 (length special_forms) = true.
Proof. vm_compute. reflexivity. Qed.
Example std_extends_bare : Nat.ltb (length (bindings Bare)) (length (bindings Std)) = true.
Proof. vm_compute. reflexivity. Qed.
(* the unrestricted control configuration is (correctly) seen as effectful, also through alias + apply,
   through the include special form and through the sys builder StandardSetup installs outside a sandbox *)
Example control_is_effectful :
  predicted_effects Full (PCall (PRef "system") [PConst]) = ["process"].
Proof. vm_compute. reflexivity. Qed.
Example control_alias_apply :
  predicted_effects Full (PSeq [PDef "g" (PRef "slurpf"); PCall (PRef "apply") [PRef "g"; PConst]]) = ["file_read"].
Proof. vm_compute. reflexivity. Qed.
Example control_include : predicted_effects Full (PSpecial "include" [PConst]) = ["file_read"].
Proof. vm_compute. reflexivity. Qed.
Example control_sys_builder : predicted_effects Full (PCall (PRef "sys") [PConst]) = ["process"].
Proof. vm_compute. reflexivity. Qed.
(* ... while the same programs are effect-free in the sandboxed configurations *)
Example sandbox_include_refused : predicted_effects Bare (PSpecial "include" [PConst]) = [].
Proof. vm_compute. reflexivity. Qed.
Example sandbox_sys_unbound : predicted_effects Std (PCall (PRef "sys") [PConst]) = [].
Proof. vm_compute. reflexivity. Qed.
Example sandbox_plain_program_pure :
  predicted_effects Std (PSeq [PDef "g" (PRef "println"); PCall (PRef "map") [PRef "g"; PConst]; PMacro "req" [PConst]]) = [].
Proof. vm_compute. reflexivity. Qed.
Example unknown_function_is_not_pure : effect_of Std "NoSuchGoFunction" = [Eunknown].
Proof. vm_compute. reflexivity. Qed.
