(* C08: a sandboxed interpreter cannot reach the outside world.
   Statements only; the proofs are in Proofs/SandboxProofs.v.  Every statement quantifies over the
   tables of Generated/SandboxTables.v, regenerated from the Go source on every run of the check
   (translator/cmd/sandbox): bindings of every configuration, special forms, implicit function values
   of the VM, VM core, and the effect classes of every Go function from the intra-package call graph.
   The purity statements are closed by vm_compute over that file, so ANY impure entry breaks them. *)
From Coq Require Import String List Bool.
From ZV Require Import Generated.SandboxTables Model.Sandbox Proofs.SandboxProofs Model.Cmdline Proofs.CmdlineProofs.
Import ListNotations.
Open Scope string_scope.

(* ---- 1. the capability closure: aliases, eval, apply, map, macros add nothing ---- *)
Theorem capability_closed : forall c p, incl (prims_reached c p) (closure c).
Proof. exact SandboxProofs.capability_closed. Qed.
Print Assumptions capability_closed.

(* ---- 2. purity of the generated tables ---- *)
Theorem sandbox_tables_pure : forall c n k f, sandboxed c = true ->
  In (n, k, f) (bindings c) -> k <> KValue -> effect_of c f = [].
Proof. exact SandboxProofs.sandbox_tables_pure. Qed.
Print Assumptions sandbox_tables_pure.

Theorem special_forms_pure : forall c n f, sandboxed c = true ->
  In (n, f) special_forms -> effect_of c f = [].
Proof. exact SandboxProofs.special_forms_pure. Qed.
Print Assumptions special_forms_pure.

Theorem implicit_prims_pure : forall c n k f, sandboxed c = true -> In (n, k, f) implicit_prims -> effect_of c f = [].
Proof. exact SandboxProofs.implicit_prims_pure. Qed.
Print Assumptions implicit_prims_pure.

Theorem vm_core_pure : forall c f, sandboxed c = true -> In f vm_core -> effect_of c f = [].
Proof. exact SandboxProofs.vm_core_pure. Qed.
Print Assumptions vm_core_pure.

Theorem closure_pure : forall c f, sandboxed c = true -> In f (closure c) -> effect_of c f = [].
Proof. exact SandboxProofs.closure_pure. Qed.
Print Assumptions closure_pure.

(* ---- 3. THE PROPERTY (full statement): no program has any effect in a sandboxed configuration ---- *)
Theorem sandbox_no_effect : forall c p, sandboxed c = true -> effects_of c (run_abs c p) = [].
Proof. exact SandboxProofs.sandbox_no_effect. Qed.
Print Assumptions sandbox_no_effect.

(* ---- 4. the command line of cmd/zygo (Model/Cmdline.v mirrors flag.FlagSet.Parse + ReplMain's choice) ----
   "run under -sandbox" = the flag part of the command line leaves the sandbox flag on; then the run is
   sandboxed whatever follows the script name (arguments that look like flags, -sandbox=false, -c ...). *)
Theorem sandbox_flag_decides : forall pre post, forallb is_flag pre = true ->
  run_cmdline (pre ++ APlain :: post) = (if last_sandbox false pre then OSandboxed else OOpen) /\
  run_cmdline (pre ++ ADashDash :: post) = (if last_sandbox false pre then OSandboxed else OOpen) /\
  run_cmdline pre = (if last_sandbox false pre then OSandboxed else OOpen).
Proof. exact CmdlineProofs.sandbox_flag_decides. Qed.
Print Assumptions sandbox_flag_decides.

Theorem args_after_script_irrelevant : forall pre post post', forallb is_flag pre = true ->
  run_cmdline (pre ++ APlain :: post) = run_cmdline (pre ++ APlain :: post') /\
  run_cmdline (pre ++ ADashDash :: post) = run_cmdline (pre ++ ADashDash :: post').
Proof. exact CmdlineProofs.args_after_script_irrelevant. Qed.
Print Assumptions args_after_script_irrelevant.

Theorem value_is_not_a_flag : forall pre a post, forallb is_flag pre = true ->
  run_cmdline (pre ++ AStr false :: a :: post) = run_cmdline (pre ++ post).
Proof. exact CmdlineProofs.value_is_not_a_flag. Qed.
Print Assumptions value_is_not_a_flag.

Theorem bad_flag_rejects : forall pre post, forallb is_flag pre = true ->
  run_cmdline (pre ++ ABad :: post) = ORejected.
Proof. exact CmdlineProofs.bad_flag_rejects. Qed.
Print Assumptions bad_flag_rejects.

(* every phase of a session (the -c command, the script, the repl a failed script drops into, the repl after -i,
   the plain repl) runs on the interpreter the command line asked for *)
Theorem session_one_interpreter : forall l fails phs ph k,
  session l fails = Some phs -> In (ph, k) phs -> k = run_cmdline l.
Proof. exact CmdlineProofs.session_one_interpreter. Qed.
Print Assumptions session_one_interpreter.

Theorem session_sandboxed : forall pre post fails phs ph k, forallb is_flag pre = true ->
  last_sandbox false pre = true ->
  session (pre ++ APlain :: post) fails = Some phs -> In (ph, k) phs -> k = OSandboxed.
Proof. exact CmdlineProofs.session_sandboxed. Qed.
Print Assumptions session_sandboxed.

Example failed_script_drops_into_repl :
  session [ASandbox None; ABool; APlain] true = Some [(PhScript, OSandboxed); (PhReplAfterFailedScript, OSandboxed)].
Proof. reflexivity. Qed.
Example exitonfail_ends_the_session :
  session [ASandbox None; AExitOnFail true; APlain] true = Some [(PhScript, OSandboxed)].
Proof. reflexivity. Qed.
Example interactive_after_script :
  session [AInteractive true; ASandbox None; APlain; ASandbox (Some false)] false = Some [(PhScript, OSandboxed); (PhReplAfterScript, OSandboxed)].
Proof. reflexivity. Qed.

Example cmdline_seed_shape : run_cmdline [ASandbox None; APlain; ABool] = OSandboxed.
Proof. reflexivity. Qed.
Example cmdline_flag_after_script_is_an_argument : run_cmdline [APlain; ASandbox None] = OOpen.
Proof. reflexivity. Qed.
Example cmdline_last_wins : run_cmdline [ASandbox None; ASandbox (Some false); APlain] = OOpen.
Proof. reflexivity. Qed.

(* ---- non-vacuity: the tables are populated, the classification sees real effects ---- *)
Example bare_has_many_bindings : Nat.leb 200 (length (bindings Bare)) = true.
Proof. vm_compute. reflexivity. Qed.
Example special_forms_many : Nat.leb 20 (length special_forms) = true.
Proof. vm_compute. reflexivity. Qed.
Example std_extends_bare : Nat.ltb (length (bindings Bare)) (length (bindings Std)) = true.
Proof. vm_compute. reflexivity. Qed.
(* the unrestricted control configuration is (correctly) seen as effectful, also through alias + apply,
   through the include special form and through the sys builder StandardSetup installs outside a sandbox *)
Example control_is_effectful :
  predicted_effects Full (PCall (PRef "system") [PConst]) = ["process"].
Proof. vm_compute. reflexivity. Qed.
Example control_alias_apply :
  predicted_effects Full (PSeq [PDef "g" (PRef "slurpf"); PCall (PRef "apply") [PRef "g"; PConst]]) = ["file_read"].
Proof. vm_compute. reflexivity. Qed.
Example control_include : predicted_effects Full (PSpecial "include" [PConst]) = ["file_read"].
Proof. vm_compute. reflexivity. Qed.
Example control_sys_builder : predicted_effects Full (PCall (PRef "sys") [PConst]) = ["process"].
Proof. vm_compute. reflexivity. Qed.
(* ... while the same programs are effect-free in the sandboxed configurations *)
Example sandbox_include_refused : predicted_effects Bare (PSpecial "include" [PConst]) = [].
Proof. vm_compute. reflexivity. Qed.
Example sandbox_sys_unbound : predicted_effects Std (PCall (PRef "sys") [PConst]) = [].
Proof. vm_compute. reflexivity. Qed.
Example sandbox_plain_program_pure :
  predicted_effects Std (PSeq [PDef "g" (PRef "println"); PCall (PRef "map") [PRef "g"; PConst]; PMacro "req" [PConst]]) = [].
Proof. vm_compute. reflexivity. Qed.
Example unknown_function_is_not_pure : effect_of Std "NoSuchGoFunction" = [Eunknown].
Proof. vm_compute. reflexivity. Qed.
