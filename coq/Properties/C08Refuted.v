(* C08: the FULL purity statements are false of the current source.  Concrete witnesses over the
   generated tables (proofs in Proofs/SandboxRefuted.v); each is replayed on the real interpreter by
   the harness (known findings include-special-form, stdsetup-sys, stdsetup-import).  This file is
   expected to STOP compiling when the repository is repaired; the check builds it only while those
   findings are listed in KNOWN_FINDINGS.txt. *)
From Coq Require Import String List Bool.
From ZV Require Import Generated.SandboxTables Model.Sandbox Proofs.SandboxRefuted.
Import ListNotations.
Open Scope string_scope.

Theorem special_forms_pure_refuted : exists n f, In (n, f) special_forms /\ effect_of Bare f <> [].
Proof. exact SandboxRefuted.special_forms_pure_refuted. Qed.
Print Assumptions special_forms_pure_refuted.

Theorem sandbox_tables_pure_refuted_sys : exists n k f,
  In (n, k, f) (bindings Std) /\ k <> KValue /\ effect_of Std f = [Eprocess].
Proof. exact SandboxRefuted.sandbox_tables_pure_refuted_sys. Qed.
Print Assumptions sandbox_tables_pure_refuted_sys.

Theorem sandbox_tables_pure_refuted_import : exists n k f,
  In (n, k, f) (bindings Std) /\ k <> KValue /\ effect_of Std f = [Efileread].
Proof. exact SandboxRefuted.sandbox_tables_pure_refuted_import. Qed.
Print Assumptions sandbox_tables_pure_refuted_import.

Theorem sandbox_no_effect_refuted : exists c p, sandboxed c = true /\ effects_of c (run_abs c p) <> [].
Proof. exact SandboxRefuted.sandbox_no_effect_refuted. Qed.
Print Assumptions sandbox_no_effect_refuted.
