(* C09 — tail calls are free and invisible.
   Model: Model/RefSemTco.v (eval/apply = the reference semantics without the optimisation,
   eval_tco/apply_tco/tloop = the self-tail-call jump of generator.go:GenerateCallBySymbol).
   Proofs: Proofs/RefSemTcoProofs.v.

   Side condition of invisibility.  The jump is chosen by NAME.  The strict run of the model
   (first argument true) checks at every self tail call it reaches that the name resolves,
   in the environment of the call, to the very closure that is running; when it does not, the
   run stops with the verdict SShadow.  [no_self_shadow p] := the strict run of p does not end
   with that verdict (second component of eval_program_tco = false): no executed self tail call
   found its own name rebound (by the body: let, def, set, a parameter; or from outside while an
   alias still runs the old body).  This is exactly what the finding tco-by-name violates. *)
From Coq Require Import ZArith List.
Require Import ZV.Model.RefSemTco ZV.Proofs.RefSemTcoProofs ZV.Proofs.RefSemTcoConverse ZV.Proofs.RefSemTcoSpace.
Require Import ZV.Model.TailSites ZV.Generated.TailSites ZV.Model.TailSitesRun ZV.Proofs.TailSitesProofs ZV.Proofs.TailSitesRunProofs ZV.Proofs.TailSitesCore.
Import ListNotations.
Open Scope Z_scope.

(* tail_invisible, for ALL programs of the core and all fuel: a conclusive run of the optimising
   model (not out of fuel, no_self_shadow) is a run of the reference semantics: same value
   snapshot / error class, same trace. *)
Theorem tail_invisible : forall n failat forms o h,
  eval_program_tco true false n failat forms = (o, false, h) -> o_res o <> Fuel ->
  exists k, eval_program_cfg k failat forms = o.
Proof. exact tail_invisible_proof. Qed.
Print Assumptions tail_invisible.

(* the same with the FINAL STORE: every frame (so what every closure created in an earlier
   iteration observes), every array, the trace and the failure counter are EQUAL (the model never
   removes a frame, both runs allocate the same frame ids: no renaming is needed). *)
Theorem tail_invisible_store : forall n failat forms r s',
  tev_begin (eval_tco true false n None) false [O] forms (init_store failat) = (r, s') ->
  r <> Fuel -> r <> Sig SShadow ->
  exists k, ev_begin (eval k) [O] forms (init_store failat) = (r, s').
Proof. exact tail_invisible_run_proof. Qed.
Print Assumptions tail_invisible_store.

(* and for any call of any function value in any store *)
Theorem tail_invisible_apply : forall n f args s r s',
  apply_tco true false n f args s = (r, s') -> r <> Fuel -> r <> Sig SShadow ->
  exists k, apply k f args s = (r, s').
Proof. exact tail_invisible_apply_proof. Qed.
Print Assumptions tail_invisible_apply.

(* THE CONVERSE (for ALL programs of the core): whenever the reference run finishes, the strict
   optimising run with twice the fuel finishes with the same outcome (value snapshot / error class,
   trace) -- or it stops with the verdict SShadow.  The optimisation never loses a result and
   terminates whenever the reference does.  Proof: induction on the fuel of the reference
   evaluator; a chain of nested applies of the running closure becomes iterations of tloop
   (Proofs/RefSemTcoConverse.v: conv_main). *)
Theorem tail_invisible_converse : forall k failat forms o,
  eval_program_cfg k failat forms = o -> o_res o <> Fuel ->
  (exists h, eval_program_tco true false (2 * k) failat forms = (o, false, h)) \/
  snd (fst (eval_program_tco true false (2 * k) failat forms)) = true.
Proof. exact tail_invisible_converse_proof. Qed.
Print Assumptions tail_invisible_converse.

(* the same with the final store (equal stores) *)
Theorem tail_invisible_converse_store : forall k failat forms r s',
  ev_begin (eval k) [O] forms (init_store failat) = (r, s') -> r <> Fuel ->
  tev_begin (eval_tco true false (2 * k) None) false [O] forms (init_store failat) = (r, s') \/
  exists s'', tev_begin (eval_tco true false (2 * k) None) false [O] forms (init_store failat) = (Sig SShadow, s'').
Proof. exact tail_invisible_converse_run_proof. Qed.
Print Assumptions tail_invisible_converse_store.

(* and for any call of any function value in any store *)
Theorem tail_invisible_converse_apply : forall k f args s r s',
  apply k f args s = (r, s') -> r <> Fuel ->
  apply_tco true false (2 * k) f args s = (r, s') \/ exists s'', apply_tco true false (2 * k) f args s = (Sig SShadow, s'').
Proof. exact converse_apply_proof. Qed.
Print Assumptions tail_invisible_converse_apply.

(* with the side condition as a property of the program:
   no_self_shadow failat forms := no strict run, whatever its fuel, ends with the verdict SShadow *)
Theorem tail_invisible_converse_no_self_shadow : forall k failat forms o,
  eval_program_cfg k failat forms = o -> o_res o <> Fuel -> no_self_shadow failat forms ->
  exists n h, eval_program_tco true false n failat forms = (o, false, h).
Proof. exact tail_invisible_converse_cond_proof. Qed.
Print Assumptions tail_invisible_converse_no_self_shadow.

(* the reference evaluator never produces the two signals of the optimising model *)
Theorem reference_never_signals_tail : forall k env e s r s' g,
  eval k env e s = (r, s') -> bad g -> r <> Sig g.
Proof. intros k env e s r s' g. exact (proj1 (ref_clean k) env e s r s' g). Qed.
Print Assumptions reference_never_signals_tail.

(* without the side condition the statement is false: the by-name jump (strict = false, what the
   real code does) gives 5 where the reference semantics gives 42; the strict run names it. *)
Definition shadow_witness : list expr :=
  [EDefn 100 [101] None
     [ELet false [(100, EFn [102] None [EInt 42])]
        [ECond [(ECall (EVar 5) [EVar 101; EInt 0], ECall (EVar 100) [EInt 0])] (EInt 5)]];
   ECall (EVar 100) [EInt 1]].

Theorem tail_invisible_refuted_without_side_condition :
  exists forms,
    o_res (fst (fst (eval_program_tco false false 50 0 forms))) = Done (SvInt 5) /\
    o_res (eval_program_cfg 50 0 forms) = Done (SvInt 42) /\
    snd (fst (eval_program_tco true false 50 0 forms)) = true.
Proof. exists shadow_witness. vm_compute. repeat split. Qed.
Print Assumptions tail_invisible_refuted_without_side_condition.

(* tail_space_constant, over the explicit activation counter (count = true), for every closure:
   if every single run of the body that starts at depth d with the high-water mark below B ends
   at depth d with the mark below B, then so does the loop of self tail calls, for ANY number of
   iterations (n bounds them): the mark of n iterations is that of one. *)
Theorem tail_space_constant : forall strict nm ps rest body cenv (d B : nat),
  (forall m env s0 r0 s0', depth s0 = d -> (hwm s0 <= B)%nat ->
     tev_begin (eval_tco strict true m (self_of (VClos nm ps rest body cenv))) true env body s0 = (r0, s0') ->
     depth s0' = d /\ (hwm s0' <= B)%nat) ->
  forall n binds s r s', depth s = d -> (hwm s <= B)%nat ->
    tloop strict true n (VClos nm ps rest body cenv) binds s = (r, s') ->
    depth s' = d /\ (hwm s' <= B)%nat.
Proof. exact tail_space_constant_proof. Qed.
Print Assumptions tail_space_constant.

(* tail_space_constant WITHOUT the per-iteration hypothesis, for a syntactic class of loops
   (Proofs/RefSemTcoSpace.v): [simple f np tl e] = e is built from literals, variables, fn,
   begin / cond / and / or / let / letseq / newScope / def / set (binding no first-order
   primitive name), calls whose head is the NAME of a first-order primitive (every builtin of the
   core but map and apply), and calls of f itself with np arguments where the flag tl is set
   (computed with the generator's rules, so: in tail position).  For a function
   (defn f [ps] body) without rest parameter whose body is in the class and whose static chain
   resolves the primitive names to the primitives (prims_ok: true of the global frame,
   prims_ok_init), one call is ONE activation however many iterations it makes: the depth is
   restored and the high-water mark is that of a single activation. *)
Theorem tail_space_constant_syntactic : forall strict f ps body cenv,
  is_safe_name f = false -> (forall x, In x ps -> is_safe_name x = false) ->
  simple_seq f (length ps) true body = true ->
  forall n args s r s', prims_ok s cenv ->
    apply_tco strict true n (VClos (Some f) ps None body cenv) args s = (r, s') ->
    depth s' = depth s /\ (hwm s' = hwm s \/ hwm s' = Nat.max (hwm s) (S (depth s))).
Proof. exact tail_space_constant_syntactic_proof. Qed.
Print Assumptions tail_space_constant_syntactic.

Theorem global_frame_resolves_primitives : forall failat, prims_ok (init_store failat) [O].
Proof. exact prims_ok_init. Qed.
Print Assumptions global_frame_resolves_primitives.

(* tail_positions: in_tail_position (Proofs file) is the inductive closure of: last form of
   begin / every arm body and the default of cond / last body form of let, letseq, newScope /
   last arm of and, or.  The evaluator hands its flag to exactly these sub-forms and false to
   all the others (one step; nesting is the induction of in_tail_position): *)
Theorem tail_flag_rules : forall strict count n self tl env,
  let ev := eval_tco strict count n self in
  (forall es, eval_tco strict count (S n) self tl env (EBegin es) = tev_begin ev tl env es) /\
  (forall arms d, eval_tco strict count (S n) self tl env (ECond arms d) = tev_cond ev tl env arms d) /\
  (forall es, eval_tco strict count (S n) self tl env (EAnd es) = tev_and ev tl env es) /\
  (forall es, eval_tco strict count (S n) self tl env (EOr es) = tev_or ev tl env es) /\
  (forall es s, eval_tco strict count (S n) self tl env (EScope es) s =
                let '(f, s1) := push_frame s in tev_begin ev tl (f :: env) es s1) /\
  (forall bs body s, eval_tco strict count (S n) self tl env (ELet false bs body) s =
                let '(f, s1) := push_frame s in
                (vs <- ev_list (ev false) (f :: env) (map snd bs) ;;
                 _ <- bind_all f (rev (combine (map fst bs) vs)) ;; tev_begin ev tl (f :: env) body) s1) /\
  (forall bs body s, eval_tco strict count (S n) self tl env (ELet true bs body) s =
                let '(f, s1) := push_frame s in
                (_ <- ev_letseq (ev false) f (f :: env) bs ;; tev_begin ev tl (f :: env) body) s1) /\
  (forall es, eval_tco strict count (S n) self tl env (EArr es) = (vs <- ev_list (ev false) env es ;; alloc_arr vs None)) /\
  (forall x e, eval_tco strict count (S n) self tl env (EDef x e) = (v <- ev false env e ;; _ <- bind (hd O env) x v ;; ret v)) /\
  (forall lbl i t st body s, eval_tco strict count (S n) self tl env (EFor lbl i t st body) s =
                let '(f, s1) := push_frame s in
                (_ <- no_loop_sig EUnspec (ev false (f :: env) i) ;; for_loop (ev false) n (f :: env) lbl t st body) s1) /\
  (forall f args, is_self self tl f (length args) = None ->
                eval_tco strict count (S n) self tl env (ECall f args) = call_expr (ev false) (apply_tco strict count n) env f args).
Proof. exact tail_flag_rules_proof. Qed.
Print Assumptions tail_flag_rules.

Theorem tail_begin_last : forall ev tl env es l s,
  tev_begin ev tl env (es ++ [l]) s =
  match es with [] => ev tl env l s | _ => (_ <- tev_begin ev false env es ;; ev tl env l) s end.
Proof. exact tev_begin_last. Qed.
Print Assumptions tail_begin_last.

Theorem self_call_rule : forall self tl f nargs nm c,
  is_self self tl f nargs = Some (nm, c) <->
  tl = true /\ self = Some (nm, c) /\ f = EVar nm /\ arity_fits c nargs = true.
Proof. exact self_call_rule_proof. Qed.
Print Assumptions self_call_rule.

(* ---- the compile-time side for ALL forms of the generator (Model/TailSites.v).
   tail_sites / tail_exits / tail_gotos are GENERATED from zygo/*.go on every run (translator/cmd/tailsites):
   the values Generator.Tail can have at every place where a sub-form is handed to the compiler.  A path is
   any nesting of (special form, sub-form position); path_flag follows the sites such a sub-form passes. *)

(* for ANY table that passes the boolean check, over ALL nestings that avoid the listed leaks: the flag that
   arrives is the one the specification (the property's list of tail positions) computes *)
Theorem tail_sites_sound : forall leaks tbl exits gotos, table_ok leaks tbl exits gotos = true ->
  forall p x, (forall q, In q p -> ~ In q leaks) -> x <> SBoth ->
  path_flag tbl p x = Some (spec_path p x).
Proof. exact path_sound. Qed.
Print Assumptions tail_sites_sound.

(* the table generated from the current generator.go passes the check; no position is set aside (known_leaks = []) *)
Theorem tail_sites_generated_ok : table_ok known_leaks tail_sites tail_exits tail_gotos = true.
Proof. exact generated_table_ok. Qed.
Print Assumptions tail_sites_generated_ok.

(* generator.go as it is: in a function body (flag set), for every nesting of forms, a sub-form is compiled
   with Tail = true IFF every step down to it is one of the property's tail positions *)
Theorem tail_flag_iff_tail_position_all_forms : forall p, leak_free p ->
  exists y, path_flag tail_sites p ST = Some y /\ (y = ST <-> forallb tail_pos p = true).
Proof. exact generated_flag_iff_tail_position. Qed.
Print Assumptions tail_flag_iff_tail_position_all_forms.

(* any other entry into the compiler (top level, call arguments evaluated at run time, thunks, source):
   the flag never arrives *)
Theorem no_flag_outside_function_bodies : forall p, leak_free p ->
  exists y, path_flag tail_sites p SF = Some y /\ y <> ST.
Proof. exact generated_no_flag_no_tail. Qed.
Print Assumptions no_flag_outside_function_bodies.

(* the number of goto 0 the generator emits for a nest of positions with one self call at its end; the
   extracted runner computes jumps_run (a precomputed, string-free copy), the harness counts the real bytecode *)
Theorem tail_jumps_all_forms : forall p, leak_free p -> jumps_run p ST = Some (spec_jumps p ST).
Proof. intros p H. rewrite jumps_run_eq. exact (generated_jumps p H). Qed.
Print Assumptions tail_jumps_all_forms.

(* every compiling method leaves the flag as it found it or cleared (never set after a non-tail form), and
   the jump is emitted by GenerateCallBySymbol only when it was entered with the flag *)
Theorem tail_flag_never_raised : forall e, In e tail_exits -> e_in0 e = SF /\ e_in1 e <> SNone.
Proof. exact generated_exits_monotone. Qed.
Print Assumptions tail_flag_never_raised.
Theorem goto_needs_flag : forall g, In g tail_gotos -> g_in0 g = false /\ g_in1 g = true.
Proof. exact generated_goto_needs_flag. Qed.
Print Assumptions goto_needs_flag.

(* on the expressions of the modelled core: the real generator's table gives the flag to exactly the
   sub-expressions that are in tail position by the rules of the model's evaluator (tail_flag_rules) *)
Theorem tail_sites_agree_with_model : forall body sub,
  in_tail_position body sub <-> exists p, expr_path body p sub /\ path_flag tail_sites p ST = Some ST.
Proof. exact generated_flag_iff_in_tail_position. Qed.
Print Assumptions tail_sites_agree_with_model.

(* known_leaks is empty: the statements above hold for EVERY path *)
Theorem tail_flag_iff_tail_position_every_path : forall p,
  exists y, path_flag tail_sites p ST = Some y /\ (y = ST <-> forallb tail_pos p = true).
Proof. intros p. exact (generated_flag_iff_tail_position p (all_leak_free p)). Qed.
Print Assumptions tail_flag_iff_tail_position_every_path.

(* the two defects found with this table (KNOWN_FINDINGS fixed: 0c81737, 9d37ebd) stay repaired: a call as
   the target of def / set, and the forms of every included file, are compiled WITHOUT the flag *)
Theorem def_target_and_include_are_not_tail :
  forall q, In q [PDefLhs; PSetLhs; PIncludeLastFile; PIncludeNonLastFile] ->
  pos_step tail_sites q ST = Some SF /\ pos_step tail_sites q SF = Some SF.
Proof. exact generated_def_target_and_include_cleared. Qed.
Print Assumptions def_target_and_include_are_not_tail.

(* ---- non-vacuity (tests, not theorems): the loop f(n) = if n == 0 then 0 else f(n-1) ---- *)
Definition loop_prog (tailcall : bool) (n : Z) : list expr :=
  [EDefn 100 [101] None
     [ECond [(ECall (EVar 8) [EVar 101; EInt 0], EInt 0)]
        (if tailcall then ECall (EVar 100) [ECall (EVar 2) [EVar 101; EInt 1]]
         else ECall (EVar 1) [EInt 0; ECall (EVar 100) [ECall (EVar 2) [EVar 101; EInt 1]]])];
   ECall (EVar 100) [EInt n]].

Example loop_value_40 : o_res (fst (fst (eval_program_tco true false 200 0 (loop_prog true 40)))) = Done (SvInt 0)
                        /\ snd (fst (eval_program_tco true false 200 0 (loop_prog true 40))) = false.
Proof. vm_compute. split; reflexivity. Qed.
Example loop_hwm_1 : snd (eval_program_tco false true 200 0 (loop_prog true 1)) = 1%nat.
Proof. vm_compute. reflexivity. Qed.
Example loop_hwm_40 : snd (eval_program_tco false true 200 0 (loop_prog true 40)) = 1%nat.
Proof. vm_compute. reflexivity. Qed.
Example nontail_hwm_40 : snd (eval_program_tco false true 400 0 (loop_prog false 40)) = 41%nat.
Proof. vm_compute. reflexivity. Qed.
Example class_accepts_loop :
  simple_seq 100 1 true
    [ECond [(ECall (EVar 8) [EVar 101; EInt 0], EInt 0)]
       (ELet false [(102, ECall (EVar 1) [EVar 101; EInt 1])]
          [EDef 103 (EInt 5);
           EAnd [EBool true; ECall (EVar 100) [ECall (EVar 2) [EVar 101; EInt 1]]]])] = true
  /\ simple_seq 100 1 true   (* the non-tail twin is outside the class *)
    [ECond [(ECall (EVar 8) [EVar 101; EInt 0], EInt 0)]
       (ECall (EVar 1) [EInt 0; ECall (EVar 100) [ECall (EVar 2) [EVar 101; EInt 1]]])] = false.
Proof. vm_compute. split; reflexivity. Qed.
Example in_tail_position_nested :
  in_tail_position (ECond [(EBool true, EBegin ([EInt 1] ++ [EAnd ([EBool true] ++ [EVar 7])]))] ENil) (EVar 7).
Proof. apply (tp_cond_arm [] (EBool true) _ [] ENil). apply tp_begin. apply tp_and. apply tp_here. Qed.

(* the generated table: a let body inside a cond arm inside an and is a tail path, a let initialiser is not;
   the self call in an argument of a self tail call is not a jump, the enclosing one is *)
Example tail_sites_examples :
  path_flag tail_sites [PBodyLast; PCondArm; PAndLast; PLetBodyLast; PInfixLast; PMacroExpansion] ST = Some ST
  /\ path_flag tail_sites [PBodyLast; PCondArm; PLetInit; PBeginLast] ST = Some SF
  /\ path_flag tail_sites [PBodyLast; PSqUnquoteInList] ST = Some SF
  /\ jumps_run [PBodyLast; PCondDefault; PSelfArg; PBeginLast] ST = Some 1%nat
  /\ jumps_run [PBodyLast; PForBodyLast] ST = Some 0%nat
  /\ Nat.ltb 30 (length tail_sites) = true.
Proof. vm_compute. repeat split; reflexivity. Qed.
