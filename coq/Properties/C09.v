(* C09 — tail calls are free and invisible (statements; proofs in Proofs/RefSemTcoProofs.v). *)
From Coq Require Import ZArith List.
Require Import ZV.Model.RefSemTco.
Import ListNotations.
