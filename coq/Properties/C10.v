(* C10 — records convert to Go structs and back without loss.  Final statements only.
   Model: ZV.Model.GoConv (conv/to_go mirror jsonmsgp.go:SexpToGoStructs; from_val/echo mirror
   hashutils.go:FillHashFromShadow/fillHashHelper and callgo.go).  Specification: ZV.Model.GoConvSpec.
   Reflection (reflect.Set, Field, New, unsafe) is modelled by case tables, not verified.

   PROVED for all type tables, records, states, fuel:
     to_go_fills_all          the fill loop puts every pair of the record into the slot its key resolves to
     to_go_fills_all_ptr      the same, for the object a pointer slot receives (through heap)
     to_go_shares_partial     the next reference to the same record identity gets the same pointer, allocates nothing
     unknown_field_is_error   a key that does not resolve makes the conversion of that record fail (never Ok)
     wrong_kind_is_error_partial  a scalar of a kind that does not fit the field type fails, EXCEPT the two holes
     error_propagates_*       a failing value makes the enclosing record / array fail (so a fault at any depth
                              reaches the caller)
   REFUTED on the faithful model, each witness replayed on the real code (findings):
     wrong_kind_uint_refuted, wrong_kind_float_refuted, wrong_toptype_refuted, to_go_mixed_sharing_refuted,
     from_go_to_go_time_refuted, from_go_to_go_embedded_refuted, from_go_to_go_nil_pointer_refuted

   Second round (proved):
     conv_cache_monotone      every conversion only EXTENDS the state: a dedup-cache entry, once present, stays and keeps
                              its target; the heap only grows; identities entering the cache occur in the converted value
     to_go_shares             FULL: any two conversions of records with one identity into slots of one type, anywhere
                              inside one conversion of an acyclic value (call tree `subs`: slice elements, map values,
                              record fields at any depth), yield the same content / the same heap object
     to_go_shares_ptr_and_iface, shared_hit_allocates_nothing, record_stays_cached
     from_go_to_go_scalar_fragment   echo r = Ok (expect r) for ALL struct declarations without embedded fields whose
                              fields are int64/int/float64/string/bool/[]byte and ALL records whose keys resolve to
                              fields their values fit (the fragment bounded by the four echo-* findings)
     hist_reflects_current    after ANY history of conversion steps an explicit conversion attaches an object holding
                              the conversion of every CURRENT field; receiver calls; failed steps leave nothing behind
   Sixth round (proved, for ALL type tables / nesting depths / arrays / states):
     fill_json_map_paths_sound, _complete, _distinct   the table hashutils.go:fillJsonMap builds: every entry's EmbedPath
                              leads to the field it was made from, every field reachable through embedded structs (any
                              depth) has its entry, no two entries share a path; embed_path_determines_key
     resolve_designates_field, resolve_finds_every_field   SexpToGoStructs' key lookup returns the path of a field carrying
                              that key (or its capitalised form), of that field's type; every promoted field is found
     slice_elements_pointwise element i of a converted array = conversion of element i of the source into a fresh zero
                              element (no leakage between elements / from the old slice): slice_replaces_previous_content,
                              slice_struct_element_unnamed_zero (by-value struct elements: unnamed fields are zero),
                              slice_equal_ids_share ((a b a): equal identities, equal content / one heap object)
     kind_table_total         conv follows the 13 x 13 (value kind x slot kind) table on every pair; the table refuses no
                              value the specification accepts, and every scalar the specification refuses is refused by the
                              table or is one of the two listed holes (uint64 dropped, float64 truncated into int64)
   Still not proved:
     from_go_to_go with non-nil pointer / interface fields to fragment structs (fillHashHelper handles them; needs the
     heap-stability of from_val under later allocations and freshness of identities; checked by correspondence only). *)
From Coq Require Import ZArith List Bool.
Import ListNotations.
Require Import ZV.Model.GoConv ZV.Model.GoConvSpec ZV.Model.GoConvKinds ZV.Proofs.GoConvProofs ZV.Proofs.GoConvShare ZV.Proofs.GoConvHist ZV.Proofs.GoConvRound
  ZV.Proofs.GoConvPaths ZV.Proofs.GoConvArr ZV.Proofs.GoConvKindProofs.
Open Scope Z_scope.

Theorem to_go_fills_all : forall res_ te bty cv l base st b' st',
    fold_left (fill_step res_ te bty cv) l (Ok (base, st)) = Ok (b', st') ->
    paths_independent (res_paths res_ l) = true ->
    forall k v, In (k, v) l ->
      exists path sty curv st1 nv st2,
        res_ k = Some path /\ type_at te (TStruct bty) path = Some sty /\
        cv sty curv v st1 = Ok (nv, st2) /\ get_path b' path = Some nv.
Proof. exact fill_fields_land. Qed.
Print Assumptions to_go_fills_all.

Theorem to_go_fills_all_ptr : forall f te cur id tn fs st d loc st',
    cache_find id st = None -> find_reg te tn = Some d ->
    conv (S f) te false (TPtr (s_name d)) cur (SRec id tn fs) st = Ok (GPtr (Some loc), st') ->
    paths_independent (res_paths (resolve_key f te (s_name d)) fs) = true ->
    exists obj, nth_error (heap st') loc = Some obj /\
      forall k v, In (k, v) fs ->
        exists path sty curv st1 nv st2,
          resolve_key f te (s_name d) k = Some path /\ type_at te (TStruct (s_name d)) path = Some sty /\
          conv f te false sty curv v st1 = Ok (nv, st2) /\ get_path obj path = Some nv.
Proof. exact GoConvProofs.to_go_fills_all_ptr. Qed.
Print Assumptions to_go_fills_all_ptr.

Theorem to_go_shares_partial : forall f te ty cur1 id tn fs st v st',
    ty <> TUnsupported ->
    cache_find id st = None ->
    conv (S f) te false ty cur1 (SRec id tn fs) st = Ok (v, st') ->
    forall f2 top2 cur2 tn2 fs2, conv (S f2) te top2 ty cur2 (SRec id tn2 fs2) st' = Ok (v, st').
Proof. exact shares_next. Qed.
Print Assumptions to_go_shares_partial.

Theorem to_go_shares_ptr_then_iface : forall f te top i s cur id tn fs st loc,
    cache_find id st = Some (TPtr s, GPtr (Some loc)) -> implements te s i = true ->
    conv (S f) te top (TIface i) cur (SRec id tn fs) st = Ok (GIface (Some (s, loc)), st).
Proof. exact conv_hit_iface. Qed.
Print Assumptions to_go_shares_ptr_then_iface.

Theorem unknown_field_is_error : forall f te top ty cur id tn fs st d k v r,
    cache_find id st = None -> find_reg te tn = Some d ->
    In (k, v) fs -> resolve_key f te (s_name d) k = None ->
    conv (S f) te top ty cur (SRec id tn fs) st <> Ok r.
Proof. exact unknown_field_err. Qed.
Print Assumptions unknown_field_is_error.

Theorem wrong_kind_is_error_partial : forall fuel te top ty cur s st r,
    is_scalar s = true -> scalar_fits s ty = false -> hole s ty = false ->
    conv fuel te top ty cur s st <> Ok r.
Proof. exact wrong_kind_scalar. Qed.
Print Assumptions wrong_kind_is_error_partial.

Theorem wrong_kind_container_is_error : forall fuel te top ty cur s st r,
    scalar_type ty = true ->
    match s with SArr _ => True | SRec id _ _ | SHash id _ => cache_find id st = None | _ => False end ->
    conv fuel te top ty cur s st <> Ok r.
Proof. exact wrong_kind_container. Qed.
Print Assumptions wrong_kind_container_is_error.

Theorem wrong_record_type_is_error : forall f te ty cur id tn fs st d r,
    cache_find id st = None -> find_reg te tn = Some d ->
    match ty with
    | TPtr s | TStruct s => str_eqb s (s_name d) = false
    | TIface i => implements te (s_name d) i = false
    | _ => False
    end ->
    conv (S f) te false ty cur (SRec id tn fs) st <> Ok r.
Proof. exact wrong_record_type. Qed.
Print Assumptions wrong_record_type_is_error.

Theorem error_propagates_record : forall f te top ty cur id tn fs st k v r,
    cache_find id st = None -> In (k, v) fs ->
    (forall sty curv st0 r0, conv f te false sty curv v st0 <> Ok r0) ->
    conv (S f) te top ty cur (SRec id tn fs) st <> Ok r.
Proof. exact GoConvProofs.error_propagates_record. Qed.
Print Assumptions error_propagates_record.

Theorem error_propagates_array : forall f te top ty cur l e st r,
    In e l -> (forall sty curv st0 r0, conv f te false sty curv e st0 <> Ok r0) ->
    conv (S f) te top ty cur (SArr l) st <> Ok r.
Proof. exact GoConvProofs.error_propagates_array. Qed.
Print Assumptions error_propagates_array.

(* ---- a small type table for witnesses and non-vacuity (names are byte lists) ---------------------
   L = Leaf{N int64 `n`; T time.Time `t`; U int64}   reg "l"
   D = Deep{P int64}                                  reg "d"
   B = Base{D (embedded); I int64 `i`}                reg "b"
   F = Flat{A int64 `a`; P *Leaf `p`; S Shape `s`}    reg "f";   interface "I" implemented by *L *)
Definition nL := [76]. Definition nD := [68]. Definition nB := [66]. Definition nF := [70]. Definition nI := [73].
Definition te_ex : tenv :=
  mkT [ mkS nL (Some [108]) [ mkField [78] (Some [110]) false TInt; mkField [84] (Some [116]) false TTime; mkField [85] None false TInt ];
        mkS nD (Some [100]) [ mkField [80] None false TInt ];
        mkS nB (Some [98])  [ mkField [68] None true (TStruct nD); mkField [73] (Some [105]) false TInt ];
        mkS nF (Some [102]) [ mkField [65] (Some [97]) false TInt; mkField [80] (Some [112]) false (TPtr nL);
                              mkField [83] (Some [115]) false (TIface nI) ] ]
      [ (nI, [nL]) ].

Example te_ex_wf : wf_tenv 9 te_ex = true.
Proof. vm_compute. reflexivity. Qed.

(* resolution: tag first, then capitalised Go name, through the embedded struct *)
Example resolve_tag : resolve 9 te_ex nL [110] = Some [0%nat]. Proof. vm_compute. reflexivity. Qed.
Example resolve_capitalised : resolve 9 te_ex nL [117] = Some [2%nat]. Proof. vm_compute. reflexivity. Qed.
Example resolve_embedded : resolve 9 te_ex nB [112] = Some [0%nat; 0%nat]. Proof. vm_compute. reflexivity. Qed.
Example resolve_goname_of_tagged_field_fails : resolve 9 te_ex nL [78] = None. Proof. vm_compute. reflexivity. Qed.

(* a well-typed record with sharing: (flat a:1 p:l s:l), l = (leaf n:7): model = specification, one object *)
Definition r_share := SRec 1 [102] [([97], SInt 1); ([112], SRec 0 [108] [([110], SInt 7)]); ([115], SRec 0 [108] [([110], SInt 7)])].
Example to_go_share_ok :
  to_go 9 te_ex nF r_share =
  Ok (GPtr (Some 1%nat),
      mkSt [GStruct nL [GInt 7; GTime None; GInt 0];
            GStruct nF [GInt 1; GPtr (Some 0%nat); GIface (Some (nL, 0%nat))]]
           [(0, (TPtr nL, GPtr (Some 0%nat)))]).
Proof. vm_compute. reflexivity. Qed.
Example spec_share_ok :
  spec_to_go 9 te_ex nF r_share =
  SOk (DPtr 1 (DStruct nF [DInt 1; DPtr 0 (DStruct nL [DInt 7; DTime None; DInt 0]);
                           DIface (DPtr 0 (DStruct nL [DInt 7; DTime None; DInt 0]))])).
Proof. vm_compute. reflexivity. Qed.

(* round trip on the fragment where it holds: (flat a:1 p:(leaf n:7 u:2) s:(leaf)) *)
Definition r_flat := SRec 2 [102] [([97], SInt 1); ([112], SRec 0 [108] [([110], SInt 7); ([117], SInt 2)]); ([115], SRec 1 [108] [])].
Example echo_flat_fields_equal :
  echo 9 te_ex nF r_flat =
  Ok (SRec 0 [102] [([97], SInt 1);
                    ([112], SRec 0 [108] [([110], SInt 7); ([116], SNil); ([85], SInt 2)]);
                    ([115], SRec 0 [108] [([110], SInt 0); ([116], SNil); ([85], SInt 0)])]).
Proof. vm_compute. reflexivity. Qed.

(* ---- refutations (each witness is replayed on the real code by the check: KNOWN_FINDINGS.txt) ---- *)

(* (leaf n:5ULL): the specification demands an error, the code converts and leaves N = 0 *)
Theorem wrong_kind_uint_refuted :
  exists te t r v, spec_to_go 9 te t r = SErr 3 /\ to_go 9 te t r = Ok v.
Proof. exists te_ex, nL, (SRec 0 [108] [([110], SUint 5)]). eexists. split; vm_compute; reflexivity. Qed.
Print Assumptions wrong_kind_uint_refuted.

(* (leaf n:2.5): N = 2 *)
Theorem wrong_kind_float_refuted :
  exists te t r v, spec_to_go 9 te t r = SErr 4 /\ to_go 9 te t r = Ok v.
Proof. exists te_ex, nL, (SRec 0 [108] [([110], SFloat 4612811918334230528)]). eexists. split; vm_compute; reflexivity. Qed.
Print Assumptions wrong_kind_float_refuted.

(* (flat a:7) handed to a *Leaf target at top level: accepted, N = 7 *)
Theorem wrong_toptype_refuted :
  exists te t r v, spec_to_go 9 te t r = SErr 5 /\ to_go 9 te t r = Ok v.
Proof. exists te_ex, nL, (SRec 0 [102] [([97], SInt 7)]). eexists. split; vm_compute; reflexivity. Qed.
Print Assumptions wrong_toptype_refuted.

(* (flat s:l p:l): filled in the order s, p the conversion fails; in the order p, s it succeeds *)
Theorem to_go_mixed_sharing_refuted :
  exists te t r r' v, spec_to_go 9 te t r = SOk v /\ spec_to_go 9 te t r' = SOk v /\
                      to_go 9 te t r = Err /\ (exists g, to_go 9 te t r' = Ok g).
Proof.
  exists te_ex, nF,
    (SRec 1 [102] [([115], SRec 0 [108] []); ([112], SRec 0 [108] [])]),
    (SRec 1 [102] [([112], SRec 0 [108] []); ([115], SRec 0 [108] [])]).
  eexists. repeat split; try (vm_compute; reflexivity). eexists. vm_compute. reflexivity.
Qed.
Print Assumptions to_go_mixed_sharing_refuted.

(* (leaf t:<time 5>): comes back with t:nil *)
Theorem from_go_to_go_time_refuted :
  exists te t r a b, spec_echo 9 te t r = SOk a /\ echo 9 te t r = Ok b /\ a <> b.
Proof.
  exists te_ex, nL, (SRec 0 [108] [([116], STime 5)]). eexists. eexists.
  split; [vm_compute; reflexivity|]. split; [vm_compute; reflexivity|]. discriminate.
Qed.
Print Assumptions from_go_to_go_time_refuted.

(* (base i:4): comes back with P:4 (the promoted field is read from field 0 .. of the top struct) *)
Theorem from_go_to_go_embedded_refuted :
  exists te t r a b, spec_echo 9 te t r = SOk a /\ echo 9 te t r = Ok b /\ a <> b.
Proof.
  exists te_ex, nB, (SRec 0 [98] [([105], SInt 4)]). eexists. eexists.
  split; [vm_compute; reflexivity|]. split; [vm_compute; reflexivity|]. discriminate.
Qed.
Print Assumptions from_go_to_go_embedded_refuted.

(* (flat a:1): the unset pointer field makes the conversion back fail *)
Theorem from_go_to_go_nil_pointer_refuted :
  exists te t r a, spec_echo 9 te t r = SOk a /\ echo 9 te t r = Crash 1.
Proof. exists te_ex, nF, (SRec 0 [102] [([97], SInt 1)]). eexists. split; vm_compute; reflexivity. Qed.
Print Assumptions from_go_to_go_nil_pointer_refuted.

(* ---- second round ------------------------------------------------------------------------------- *)

Theorem conv_cache_monotone : forall fuel te top ty cur s st v st',
    conv fuel te top ty cur s st = Ok (v, st') -> ext (fun id => occurs id s = true) st st'.
Proof. exact conv_ext. Qed.
Print Assumptions conv_cache_monotone.

Theorem to_go_shares : forall te root c1 c2 id tn1 fs1 tn2 fs2,
    ok te root -> acyclic (c_s root) = true ->
    subs te root c1 -> subs te root c2 ->
    c_s c1 = SRec id tn1 fs1 -> c_s c2 = SRec id tn2 fs2 ->
    c_top c1 = false -> c_top c2 = false ->
    c_ty c1 = c_ty c2 -> c_ty c1 <> TUnsupported ->
    c_v c1 = c_v c2.
Proof. exact to_go_shares_full. Qed.
Print Assumptions to_go_shares.

Theorem to_go_shares_ptr_and_iface : forall te root c1 c2 id tn1 fs1 tn2 fs2 s i,
    ok te root -> acyclic (c_s root) = true ->
    subs te root c1 -> subs te root c2 ->
    c_s c1 = SRec id tn1 fs1 -> c_s c2 = SRec id tn2 fs2 ->
    c_top c1 = false -> c_top c2 = false ->
    c_ty c1 = TPtr s -> c_ty c2 = TIface i ->
    exists loc, c_v c1 = GPtr (Some loc) /\ c_v c2 = GIface (Some (s, loc)).
Proof. exact to_go_shares_ptr_iface. Qed.
Print Assumptions to_go_shares_ptr_and_iface.

Theorem to_go_allocates_only_on_first : forall te c id tn fs,
    ok te c -> c_s c = SRec id tn fs -> cache_find id (c_st c) <> None -> c_st' c = c_st c.
Proof. exact shared_hit_allocates_nothing. Qed.
Print Assumptions to_go_allocates_only_on_first.

Theorem to_go_record_stays_cached : forall te c id tn fs fuel top ty cur s v st'',
    ok te c -> c_s c = SRec id tn fs -> c_top c = false -> c_ty c <> TUnsupported ->
    conv fuel te top ty cur s (c_st' c) = Ok (v, st'') -> cache_find id st'' <> None.
Proof. exact record_stays_cached. Qed.
Print Assumptions to_go_record_stays_cached.

Theorem from_go_to_go_scalar_fragment : forall f te T d reg,
    find_struct te T = Some d -> s_reg d = Some reg -> scalar_decl d = true ->
    forall id tn fs,
      find_reg te tn = Some d -> s_name d = T ->
      good_fs f te T d fs -> paths_independent (res_paths (resolve_key (S f) te T) fs) = true ->
      echo (S (S f)) te T (SRec id tn fs) = Ok (expect (resolve_key (S f) te T) reg (s_fields d) fs).
Proof. exact round_trip_scalar. Qed.
Print Assumptions from_go_to_go_scalar_fragment.

Theorem hist_reflects_current : forall f te ops tname id tn fs d loc h' sh',
    find_reg te tn = Some d -> s_name d = tname ->
    hist_convert (S f) te true tname id (SRec id tn fs) (fst (hist_run (S f) te ops)) (snd (hist_run (S f) te ops))
      = Ok (GPtr (Some loc), (h', sh')) ->
    paths_independent (res_paths (resolve_key f te tname) fs) = true ->
    shadow_find id sh' = Some loc /\
    exists obj, nth_error h' loc = Some obj /\
      forall k v, In (k, v) fs ->
        exists path sty curv st1 nv st2,
          resolve_key f te tname k = Some path /\ type_at te (TStruct tname) path = Some sty /\
          conv f te false sty curv v st1 = Ok (nv, st2) /\ get_path obj path = Some nv.
Proof. exact GoConvHist.hist_reflects_current. Qed.
Print Assumptions hist_reflects_current.

Theorem hist_receiver_converts_iff_unattached : forall fuel te tname id r h sh,
    (shadow_find id sh = None -> hist_receiver fuel te tname id r h sh = hist_convert fuel te true tname id r h sh) /\
    (forall loc, shadow_find id sh = Some loc -> hist_receiver fuel te tname id r h sh = Ok (GPtr (Some loc), (h, sh))).
Proof. intros. split; [apply hist_receiver_unattached|intros; apply hist_receiver_attached; assumption]. Qed.
Print Assumptions hist_receiver_converts_iff_unattached.

Theorem hist_failed_conversion_leaves_nothing : forall fuel te hs id tname r,
    (forall x, hist_convert fuel te true tname id r (fst hs) (snd hs) <> Ok x) ->
    hist_step fuel te hs (HTogo id tname r) = hs.
Proof. exact hist_failed_step_leaves_nothing. Qed.
Print Assumptions hist_failed_conversion_leaves_nothing.

(* non-vacuity of the round trip theorem: D = Deep{P int64} of the example table is in the fragment *)
Example round_trip_example :
  echo 9 te_ex nD (SRec 0 [100] [([112], SInt 42)]) = Ok (expect (resolve_key 8 te_ex nD) [100] [mkField [80] None false TInt] [([112], SInt 42)])
  /\ expect (resolve_key 8 te_ex nD) [100] [mkField [80] None false TInt] [([112], SInt 42)] = SRec 0 [100] [([80], SInt 42)].
Proof. split; vm_compute; reflexivity. Qed.

(* non-vacuity of the sharing theorem: in the conversion of (flat a:1 p:l s:l), l = (leaf n:7), the conversions of l
   into the pointer field and into the interface field are two members of the call tree *)
Definition leaf7 := SRec 0 [108] [([110], SInt 7)].
Definition r_share2 := SRec 1 [102] [([97], SInt 1); ([112], leaf7); ([115], leaf7)].
Definition zF := GStruct nF [GInt 0; GPtr None; GIface None].
Definition stL := mkSt [GStruct nL [GInt 7; GTime None; GInt 0]] [(0, (TPtr nL, GPtr (Some 0%nat)))].
Definition root_ex := mkCall 9 true (TStruct nF) zF r_share2 empty_state
                             (GStruct nF [GInt 1; GPtr (Some 0%nat); GIface (Some (nL, 0%nat))]) stL.
Definition c1_ex := mkCall 8 false (TPtr nL) (GPtr None) leaf7 empty_state (GPtr (Some 0%nat)) stL.
Definition c2_ex := mkCall 8 false (TIface nI) (GIface None) leaf7 stL (GIface (Some (nL, 0%nat))) stL.
Example shares_example :
  ok te_ex root_ex /\ acyclic (c_s root_ex) = true /\ subs te_ex root_ex c1_ex /\ subs te_ex root_ex c2_ex.
Proof.
  split; [vm_compute; reflexivity|]. split; [vm_compute; reflexivity|]. split.
  - eapply subs_step; [apply subs_refl| |vm_compute; reflexivity].
    eapply (sub_field te_ex 8 true (TStruct nF) zF 1 [102] [([97], SInt 1)] ([112], leaf7) [([115], leaf7)]);
      vm_compute; reflexivity.
  - eapply subs_step; [apply subs_refl| |vm_compute; reflexivity].
    eapply (sub_field te_ex 8 true (TStruct nF) zF 1 [102] [([97], SInt 1); ([112], leaf7)] ([115], leaf7) []);
      vm_compute; reflexivity.
Qed.

(* ---- fourth round: keys that are not symbols or strings ------------------------------------------- *)

Theorem non_name_key_is_error : forall f te top ty cur id tn fs st d k v r,
    cache_find id st = None -> find_reg te tn = Some d ->
    In (k, v) fs -> nonname_key k = true ->
    conv (S f) te top ty cur (SRec id tn fs) st <> Ok r.
Proof. exact nonname_key_err. Qed.
Print Assumptions non_name_key_is_error.

(* (def l (leaf n:7)) (hset l 5 1): the entry with the integer key 5 (encoded 0 :: "I5") makes (togo l) an error,
   at top level and inside a nested record, in the model and by the specification *)
Example int_key_is_error :
  to_go 9 te_ex nL (SRec 0 [108] [([110], SInt 7); ([0; 73; 53], SInt 1)]) = Err
  /\ spec_to_go 9 te_ex nL (SRec 0 [108] [([110], SInt 7); ([0; 73; 53], SInt 1)]) = SErr 1
  /\ to_go 9 te_ex nF (SRec 1 [102] [([112], SRec 0 [108] [([0; 67; 57; 55], SInt 1)])]) = Err.
Proof. repeat split; vm_compute; reflexivity. Qed.

(* ---- fifth round: an embedded struct addressed both by its own key and through promoted names ---------- *)

Theorem struct_valued_slot_keeps_untouched : forall f te top tname cur id tn fs st d b st' q,
    cache_find id st = None -> find_reg te tn = Some d ->
    conv (S f) te top (TStruct tname) cur (SRec id tn fs) st = Ok (b, st') ->
    (forall p, In p (res_paths (resolve_key f te (s_name d)) fs) -> is_prefix p q = false /\ is_prefix q p = false) ->
    get_path b q = get_path cur q.
Proof. exact struct_slot_keeps_untouched. Qed.
Print Assumptions struct_valued_slot_keeps_untouched.

(* (base i:4 D:(deep P:9)) and (base D:(deep P:9) i:4): both orders give Base{Deep{9}, 4}; model = specification *)
Example embedded_whole_and_promoted :
  (exists st, to_go 9 te_ex nB (SRec 1 [98] [([105], SInt 4); ([68], SRec 0 [100] [([80], SInt 9)])])
              = Ok (GPtr (Some 0%nat), st) /\ nth_error (heap st) 0 = Some (GStruct nB [GStruct nD [GInt 9]; GInt 4]))
  /\ (exists st, to_go 9 te_ex nB (SRec 1 [98] [([68], SRec 0 [100] [([80], SInt 9)]); ([105], SInt 4)])
              = Ok (GPtr (Some 0%nat), st) /\ nth_error (heap st) 0 = Some (GStruct nB [GStruct nD [GInt 9]; GInt 4]))
  /\ spec_to_go 9 te_ex nB (SRec 1 [98] [([105], SInt 4); ([68], SRec 0 [100] [([80], SInt 9)])])
     = SOk (DPtr 1 (DStruct nB [DStruct nD [DInt 9]; DInt 4])).
Proof. repeat split; try (eexists; split; vm_compute; reflexivity); vm_compute; reflexivity. Qed.

(* name clash between a field of the struct and a field promoted from an embedded struct:
   X = DocBase{Name `n`}, Y = Doc{X; Name `n`} (embedded first), Z = Doc2{Name `n`; X} (embedded last).
   For Y the code's overwrite map (last wins) and Go's selector rule (own field wins) agree; for Z the code resolves
   the key to the HIDDEN embedded field — such a table is not well-formed (reported to the lead as a defect of the
   unchanged code: SexpToGoStructs(doc2 n:..) fills Z.X.Name and leaves Z.Name empty). *)
Definition te_clash : tenv :=
  mkT [ mkS [88] (Some [120]) [ mkField [78] (Some [110]) false TString ];
        mkS [89] (Some [121]) [ mkField [88] None true (TStruct [88]); mkField [78] (Some [110]) false TString ];
        mkS [90] (Some [122]) [ mkField [78] (Some [110]) false TString; mkField [88] None true (TStruct [88]) ] ] [].
Example name_clash_resolution :
  resolve 9 te_clash [89] [110] = Some [1%nat] /\ spec_find 9 te_clash [89] [110] = Some [1%nat]
  /\ resolve 9 te_clash [90] [110] = Some [1%nat; 0%nat] /\ spec_find 9 te_clash [90] [110] = Some [0%nat]
  /\ wf_tenv 9 te_clash = false
  /\ wf_tenv 9 (mkT [ mkS [88] (Some [120]) [ mkField [78] (Some [110]) false TString ];
                      mkS [89] (Some [121]) [ mkField [88] None true (TStruct [88]); mkField [78] (Some [110]) false TString ] ] []) = true.
Proof. repeat split; vm_compute; reflexivity. Qed.

(* ---- sixth round: the field table for any nesting depth, arrays, the total kind table ------------------ *)

Theorem fill_json_map_paths_sound : forall te fuel s prefix k p,
    In (k, p) (jsonmap fuel te s prefix) ->
    exists q fld, p = prefix ++ q /\ field_at te s q = Some fld /\ key_of fld = k.
Proof. exact jsonmap_sound. Qed.
Print Assumptions fill_json_map_paths_sound.

Theorem fill_json_map_paths_complete : forall te fuel q s prefix fld,
    field_at te s q = Some fld -> (length q <= fuel)%nat ->
    In (key_of fld, prefix ++ q) (jsonmap fuel te s prefix).
Proof. exact jsonmap_complete. Qed.
Print Assumptions fill_json_map_paths_complete.

Theorem fill_json_map_paths_distinct : forall te fuel s prefix, NoDup (map snd (jsonmap fuel te s prefix)).
Proof. exact jsonmap_paths_nodup. Qed.
Print Assumptions fill_json_map_paths_distinct.

Theorem embed_path_determines_key : forall te fuel s prefix k1 k2 p,
    In (k1, p) (jsonmap fuel te s prefix) -> In (k2, p) (jsonmap fuel te s prefix) -> k1 = k2.
Proof. exact jsonmap_path_determines_key. Qed.
Print Assumptions embed_path_determines_key.

Theorem resolve_designates_field : forall fuel te s key p,
    resolve fuel te s key = Some p ->
    exists fld, field_at te s p = Some fld /\ type_at te (TStruct s) p = Some (f_type fld) /\
                (key_of fld = key \/ upper_first key = Some (key_of fld)).
Proof. exact GoConvPaths.resolve_designates_field. Qed.
Print Assumptions resolve_designates_field.

Theorem resolve_finds_every_field : forall fuel te s q fld,
    field_at te s q = Some fld -> (length q <= fuel)%nat ->
    exists p fld', resolve fuel te s (key_of fld) = Some p /\ field_at te s p = Some fld' /\ key_of fld' = key_of fld.
Proof. exact GoConvPaths.resolve_finds_every_field. Qed.
Print Assumptions resolve_finds_every_field.

(* T = Top{Shell}, Shell{Mid; Z}, Mid{Core; Y}, Core{A,B,C}: three fields behind three embeddings (EmbedPath length 4) *)
Definition te_deep : tenv :=
  mkT [ mkS [67] (Some [99]) [ mkField [65] (Some [97]) false TInt; mkField [66] (Some [98]) false TInt; mkField [67] None false TString ];
        mkS [77] (Some [109]) [ mkField [67] None true (TStruct [67]); mkField [89] (Some [121]) false TInt ];
        mkS [83] (Some [115]) [ mkField [77] None true (TStruct [77]); mkField [90] (Some [122]) false TInt ];
        mkS [84] (Some [116]) [ mkField [83] None true (TStruct [83]) ] ] [].
Example deep_paths :
  map fst (jsonmap 9 te_deep [84] []) = [[83]; [77]; [67]; [97]; [98]; [67]; [121]; [122]]
  /\ map snd (jsonmap 9 te_deep [84] []) = [[0]; [0; 0]; [0; 0; 0]; [0; 0; 0; 0]; [0; 0; 0; 1]; [0; 0; 0; 2]; [0; 0; 1]; [0; 1]]%nat
  /\ field_at te_deep [84] [0; 0; 0; 1]%nat = Some (mkField [66] (Some [98]) false TInt)
  /\ (exists st, to_go 9 te_deep [84] (SRec 0 [116] [([98], SInt 5); ([97], SInt 4)]) = Ok (GPtr (Some 0%nat), st)
                 /\ nth_error (heap st) 0 = Some (GStruct [84] [GStruct [83] [GStruct [77] [GStruct [67] [GInt 4; GInt 5; GStr []]; GInt 0]; GInt 0]])).
Proof. split; [vm_compute; reflexivity|]. split; [vm_compute; reflexivity|]. split; [vm_compute; reflexivity|]. eexists. split; vm_compute; reflexivity. Qed.

Theorem slice_elements_pointwise : forall f te top et cur l st v st',
    conv (S f) te top (TSlice et) cur (SArr l) st = Ok (v, st') ->
    exists z vs, zero_of f te et = Some z /\ v = GSlice vs /\ length vs = length l /\
      forall i e, nth_error l i = Some e ->
        exists x sta stb, nth_error vs i = Some x /\ conv f te false et z e sta = Ok (x, stb) /\
                          st_le st sta /\ st_le stb st'.
Proof. exact slice_elements_pointwise_full. Qed.
Print Assumptions slice_elements_pointwise.

Theorem slice_replaces_previous_content : forall fuel te top top' et cur cur' l st,
    conv fuel te top (TSlice et) cur (SArr l) st = conv fuel te top' (TSlice et) cur' (SArr l) st.
Proof. exact GoConvArr.slice_replaces_previous_content. Qed.
Print Assumptions slice_replaces_previous_content.

Theorem slice_struct_element_unnamed_zero : forall f te top sname cur l st v st' i id tn fs d,
    conv (S (S f)) te top (TSlice (TStruct sname)) cur (SArr l) st = Ok (v, st') ->
    nth_error l i = Some (SRec id tn fs) -> find_reg te tn = Some d ->
    exists z vs x sta stb,
      zero_of (S f) te (TStruct sname) = Some z /\ v = GSlice vs /\ nth_error vs i = Some x /\
      conv (S f) te false (TStruct sname) z (SRec id tn fs) sta = Ok (x, stb) /\ st_le st sta /\
      (cache_find id sta = None ->
       forall q, (forall p, In p (res_paths (resolve_key f te (s_name d)) fs) -> is_prefix p q = false /\ is_prefix q p = false) ->
                 get_path x q = get_path z q).
Proof. exact GoConvArr.slice_struct_element_unnamed_zero. Qed.
Print Assumptions slice_struct_element_unnamed_zero.

Theorem slice_equal_ids_share : forall f te top et cur l st v st' i j id tn1 fs1 tn2 fs2,
    et <> TUnsupported -> acyclic (SArr l) = true ->
    conv (S f) te top (TSlice et) cur (SArr l) st = Ok (v, st') ->
    nth_error l i = Some (SRec id tn1 fs1) -> nth_error l j = Some (SRec id tn2 fs2) ->
    exists vs x, v = GSlice vs /\ nth_error vs i = Some x /\ nth_error vs j = Some x.
Proof. exact GoConvArr.slice_equal_ids_share. Qed.
Print Assumptions slice_equal_ids_share.

(* [(deep P:7) (deep) (deep P:7 again, same record)] into []Deep and into []*Deep: the second element is zero, the
   third equals the first (by value: a copy; by pointer: the same object) *)
Definition d7 := SRec 5 [100] [([112], SInt 7)].
Example slice_examples :
  conv 9 te_ex false (TSlice (TStruct nD)) (GSlice [GStruct nD [GInt 99]]) (SArr [d7; SRec 6 [100] []; d7]) empty_state
    = Ok (GSlice [GStruct nD [GInt 7]; GStruct nD [GInt 0]; GStruct nD [GInt 7]],
          mkSt [] [(6, (TStruct nD, GStruct nD [GInt 0])); (5, (TStruct nD, GStruct nD [GInt 7]))])
  /\ (exists st, conv 9 te_ex false (TSlice (TPtr nD)) (GSlice []) (SArr [d7; SRec 6 [100] []; d7]) empty_state
                 = Ok (GSlice [GPtr (Some 0%nat); GPtr (Some 1%nat); GPtr (Some 0%nat)], st)).
Proof. split; [vm_compute; reflexivity|eexists; vm_compute; reflexivity]. Qed.

Theorem kind_table_total : forall f te top ty cur s st,
    first_seen s st -> follows f te top ty cur s st (kind_table (skind_of s) (tkind_of ty)).
Proof. exact kind_table_total_lemma. Qed.
Print Assumptions kind_table_total.

Theorem kind_table_refuses_no_valid_value : forall f te ty s v,
    kind_table (skind_of s) (tkind_of ty) = VReject -> denote (S f) te ty s <> SOk v.
Proof. exact table_reject_spec_rejects. Qed.
Print Assumptions kind_table_refuses_no_valid_value.

Theorem kind_table_spec_errors_rejected_or_listed_hole : forall f te ty s c,
    is_scalar s = true -> ty <> TUnsupported -> denote (S f) te ty s = SErr c ->
    kind_table (skind_of s) (tkind_of ty) = VReject \/ table_hole (skind_of s) (tkind_of ty) = true.
Proof. exact spec_rejects_table. Qed.
Print Assumptions kind_table_spec_errors_rejected_or_listed_hole.

(* the table at a glance: of the 169 pairs, 10 are accepted by value, 115 refused, 12 dropped (uint64), 11 zeroed (nil),
   7 decided by the contents, 14 outside the model (13 unsupported slot kind + record into string) — counted *)
Example kind_table_census :
  map (fun v => length (filter (fun kq => match kind_table (fst kq) (snd kq), v with
                                          | VAccept, VAccept | VReject, VReject | VKeeps, VKeeps | VZero, VZero
                                          | VDepends, VDepends | VSilent, VSilent => true | _, _ => false end)
                               (list_prod all_skinds all_tkinds)))
      [VAccept; VReject; VKeeps; VZero; VDepends; VSilent] = map Z.to_nat [10; 115; 12; 11; 7; 14].
Proof. vm_compute. reflexivity. Qed.
