(* C11: JSON and msgpack encodings round-trip and are well-formed.
   Statements only; the proofs are in Proofs/JsonParseProofs.v (reader side),
   Proofs/JsonTreeProofs.v (decoder side) and Proofs/JsonProofs.v (assembly).
   fmt = strconv.FormatFloat behind SexpFloat.SexpString, pf = the decoder's float parser,
   mp_enc/mp_dec = the msgpack codec on Go trees: oracles, quantified (msgpack_roundtrip only;
   msgpack_roundtrip_bytes, section 5c, goes through the bytes and has no codec oracle:
   Proofs/MsgpackProofs.v and Proofs/MsgpackRound.v). *)
From Coq Require Import ZArith List Bool.
Import ListNotations.
From ZV Require Import Model.Json Model.Msgpack Proofs.JsonTreeProofs Proofs.JsonParseProofs Proofs.JsonProofs Proofs.MsgpackProofs
                       Proofs.MsgpackRound.
Open Scope Z_scope.

(* ---- 1. the string lemma: every Go string (any code points, any bytes that are not UTF-8,
        written -1) quoted as encoding/json does reads back as itself, U+FFFD for the bad bytes ---- *)
Theorem json_quote_reads_back : forall s rest, str_ok s = true ->
  pstr SN (quote_body s ++ 34 :: rest) = Some (fix_str s, rest).
Proof. exact JsonParseProofs.pstr_quote. Qed.
Print Assumptions json_quote_reads_back.

(* a string is written the same way whether or not it came from a raw (backtick) literal *)
Theorem raw_flag_irrelevant : forall fmt raw s, to_json fmt (VStr raw s) = json_quote s.
Proof. intros fmt raw s. exact eq_refl. Qed.
Print Assumptions raw_flag_irrelevant.

(* ---- 2. well-formed and denotes the same data: for EVERY value of the modelled types
        (wf: int64 integers, float tokens that are JSON numbers, any strings; symbol and
        string keys; any nesting; NaN/Inf allowed) ---- *)
Theorem json_wellformed : forall fmt v, wf fmt v = true ->
  exists t, json_parse (to_json fmt v) = Some t /\ denotes fmt t v.
Proof. exact (fun fmt => JsonProofs.json_wellformed_denotes fmt (fun _ => 0)). Qed.
Print Assumptions json_wellformed.

Theorem json_wellformed_tree : forall fmt v, wf fmt v = true ->
  json_parse (to_json fmt v) = Some (tree_of fmt v).
Proof. exact JsonParseProofs.json_wellformed. Qed.
Print Assumptions json_wellformed_tree.

(* the same inside any context that continues with , ] or } and with any fuel above the length *)
Theorem json_wellformed_in_context : forall fmt v, wf fmt v = true -> forall n rest, follow_ok rest ->
  (length (to_json fmt v) <= n)%nat -> pval n (to_json fmt v ++ rest) = Some (tree_of fmt v, rest).
Proof. exact JsonParseProofs.json_wellformed_pval. Qed.
Print Assumptions json_wellformed_in_context.

Theorem tree_of_denotes : forall fmt v, wf fmt v = true -> denotes fmt (tree_of fmt v) v.
Proof. exact (fun fmt => JsonProofs.tree_of_denotes fmt (fun _ => 0)). Qed.
Print Assumptions tree_of_denotes.

Theorem data_wf : forall fmt v, data fmt v = true -> wf fmt v = true.
Proof. exact JsonProofs.data_wf. Qed.
Print Assumptions data_wf.

(* ---- 3. the decoder (Go map, sorted walk, Atype, zKeyOrder) inverts the denotation ---- *)
Theorem of_tree_tree_of : forall fmt pf,
  (forall sci b, float_finite b = true -> is_json_number (float_token fmt sci b) = true ->
                 pf (float_token fmt sci b) = b) ->
  (forall b, float_finite b = true -> has_dot_e (fmt true b) = true) ->
  forall v, data fmt v = true -> no_reserved_keys v = true ->
  of_tree pf (tree_of fmt v) = Ok (norm v).
Proof. exact JsonTreeProofs.of_tree_tree_of. Qed.
Print Assumptions of_tree_tree_of.

(* (unjson (json v)) = v with the same type names and the same field order at every level
   (norm only turns string keys into symbols and clears the printing flag of floats) *)
Theorem unjson_json : forall fmt pf,
  (forall sci b, float_finite b = true -> is_json_number (float_token fmt sci b) = true ->
                 pf (float_token fmt sci b) = b) ->
  (forall b, float_finite b = true -> has_dot_e (fmt true b) = true) ->
  forall v, data fmt v = true -> no_reserved_keys v = true ->
  unjson pf (to_json fmt v) = Ok (norm v).
Proof. exact JsonProofs.unjson_json. Qed.
Print Assumptions unjson_json.

Theorem norm_sym_keys : forall v, sym_keys v = true -> norm v = unsci v.
Proof. exact JsonProofs.norm_sym_keys. Qed.
Print Assumptions norm_sym_keys.

(* (unmsgpack (msgpack v)) under the codec oracle *)
Theorem msgpack_roundtrip : forall fmt pf,
  (forall sci b, float_finite b = true -> is_json_number (float_token fmt sci b) = true ->
                 pf (float_token fmt sci b) = b) ->
  (forall b, float_finite b = true -> has_dot_e (fmt true b) = true) ->
  forall (mp_enc : jtree -> list Z) (mp_dec : list Z -> option jtree),
  (forall t, mp_dec (mp_enc t) = Some t) ->
  forall v, data fmt v = true -> no_reserved_keys v = true ->
  exists b, msgpack fmt mp_enc v = Some b /\ unmsgpack pf mp_dec b = Ok (norm v).
Proof. exact JsonProofs.msgpack_roundtrip. Qed.
Print Assumptions msgpack_roundtrip.

(* encodings are values: several encodings kept alive and decoded in any order each give their
   own original (histories; the harness observes the real builtins on interleaved histories) *)
Theorem history_json_roundtrip : forall fmt pf,
  (forall sci b, float_finite b = true -> is_json_number (float_token fmt sci b) = true ->
                 pf (float_token fmt sci b) = b) ->
  (forall b, float_finite b = true -> has_dot_e (fmt true b) = true) ->
  forall vs, Forall (fun v => data fmt v = true /\ no_reserved_keys v = true) vs ->
  map (fun v => unjson pf (to_json fmt v)) vs = map (fun v => Ok (norm v)) vs.
Proof. exact JsonProofs.history_json_roundtrip. Qed.
Print Assumptions history_json_roundtrip.

Theorem history_msgpack_roundtrip : forall fmt pf,
  (forall sci b, float_finite b = true -> is_json_number (float_token fmt sci b) = true ->
                 pf (float_token fmt sci b) = b) ->
  (forall b, float_finite b = true -> has_dot_e (fmt true b) = true) ->
  forall (mp_enc : jtree -> list Z) (mp_dec : list Z -> option jtree),
  (forall t, mp_dec (mp_enc t) = Some t) ->
  forall vs, Forall (fun v => data fmt v = true /\ no_reserved_keys v = true) vs ->
  map (fun v => match msgpack fmt mp_enc v with Some b => unmsgpack pf mp_dec b | None => Crash end) vs
  = map (fun v => Ok (norm v)) vs.
Proof. exact JsonProofs.history_msgpack_roundtrip. Qed.
Print Assumptions history_msgpack_roundtrip.

(* values change in place (hset / hdel / aset at any depth, Model run_ops): the encoding of the
   object after any history of changes is that of the value the changes produce *)
Theorem mutation_roundtrip : forall fmt pf,
  (forall sci b, float_finite b = true -> is_json_number (float_token fmt sci b) = true ->
                 pf (float_token fmt sci b) = b) ->
  (forall b, float_finite b = true -> has_dot_e (fmt true b) = true) ->
  forall ops v0 v, run_ops ops v0 = Some v -> wf fmt v = true ->
  json_parse (to_json fmt v) = Some (tree_of fmt v) /\
  (data fmt v = true -> no_reserved_keys v = true -> unjson pf (to_json fmt v) = Ok (norm v)).
Proof. exact JsonProofs.mutation_roundtrip. Qed.
Print Assumptions mutation_roundtrip.

Theorem hset_keeps_names_distinct : forall fs t x, all_sym fs ->
  NoDup (ktexts fs) -> NoDup (ktexts (fields_set fs (KSym t) x)).
Proof. exact JsonProofs.hset_keeps_names_distinct. Qed.
Print Assumptions hset_keeps_names_distinct.

Theorem hdel_keeps_names_distinct : forall fs k, NoDup (ktexts fs) -> NoDup (ktexts (fields_del fs k)).
Proof. exact JsonProofs.hdel_keeps_names_distinct. Qed.
Print Assumptions hdel_keeps_names_distinct.

(* updating the second field keeps the first and the order; a new field goes last *)
Example ex_run_ops :
  run_ops [MSet [] (KSym [98]) (VInt 9); MSet [PKey (KSym [97])] (KSym [120]) VNil; MASet [PKey (KSym [99])] 1 (VBool true)]
          (VHash s_hash [(KSym [97], VHash s_hash []); (KSym [98], VInt 1); (KSym [99], VArr [VNil; VNil])])
  = Some (VHash s_hash [(KSym [97], VHash s_hash [(KSym [120], VNil)]); (KSym [98], VInt 9); (KSym [99], VArr [VNil; VBool true])]).
Proof. vm_compute. reflexivity. Qed.

(* ---- 4. the side condition no_reserved_keys cannot be dropped: the full statement
        "forall v, data v -> unjson (to_json v) = Ok (norm v)" is FALSE of the code
        (finding reserved-field-names; witness {Atype:"evil" a:2}, replayed on the real code) ---- *)
Theorem unjson_json_reserved_refuted : forall fmt pf,
  exists v, data fmt v = true /\ sym_keys v = true /\ no_reserved_keys v = false /\
            unjson pf (to_json fmt v) <> Ok (norm v).
Proof. exact JsonProofs.unjson_json_reserved_refuted. Qed.
Print Assumptions unjson_json_reserved_refuted.

(* ---- 5. building blocks of the decoder proof (the Go map read in sorted order) ---- *)
Theorem go_map_lookup : forall (T : Type) (l : list (list Z * T)) k x,
  NoDup (map fst l) -> In (k, x) l -> lookup k (go_map l) = Some x.
Proof. intros T l k x. exact (JsonTreeProofs.lookup_put_all_in l [] k x). Qed.
Print Assumptions go_map_lookup.

Theorem num_value_dec : forall pf z, in_i64 z = true -> num_value pf (dec z) = Ok (VInt z).
Proof. exact JsonTreeProofs.num_value_dec. Qed.
Print Assumptions num_value_dec.

Theorem dec_is_number : forall z, in_i64 z = true -> is_json_number (dec z) = true.
Proof. exact JsonParseProofs.dec_is_number. Qed.
Print Assumptions dec_is_number.

(* ---- 5b. the msgpack bytes (Model/Msgpack.v: the writer as jsonmsgp.go configures the ugorji
        msgpack handle, an independent reader of the msgpack format): for EVERY Go tree the writer can
        be handed (gt_ok: int64 integers, 64 float bits, strings of Unicode scalar values, lengths and
        counts below 2^32, maps sorted by name), at any nesting depth, inside any continuation and with
        any fuel from the nesting depth up, the reader gives back exactly that tree ---- *)
Theorem msgpack_bytes_read_back : forall g, gt_ok g = true -> forall n rest, (gdepth g <= n)%nat ->
  mp_read n (mp_bytes g ++ rest) = Some (g, rest).
Proof. exact MsgpackProofs.mp_read_bytes. Qed.
Print Assumptions msgpack_bytes_read_back.

Theorem msgpack_document_read_back : forall g, gt_ok g = true -> mp_decode (mp_bytes g) = Some g.
Proof. exact MsgpackProofs.mp_decode_bytes. Qed.
Print Assumptions msgpack_document_read_back.

(* every int64 in its shortest signed format (fixint, int8/16/32/64) reads back as itself *)
Theorem msgpack_int_read_back : forall rd z rest, in_i64 z = true ->
  match mp_int z ++ rest with
  | c :: r => mp_dispatch rd c r = Some (GInt z, rest)
  | [] => False
  end.
Proof. exact MsgpackProofs.dispatch_int. Qed.
Print Assumptions msgpack_int_read_back.

(* strict UTF-8 decoding inverts the encoding of every string of Unicode scalar values *)
Theorem utf8_read_back : forall s, str_valid s = true -> utf8_dec (utf8_bytes s) = Some s.
Proof. exact MsgpackProofs.utf8_dec_bytes. Qed.
Print Assumptions utf8_read_back.

(* a Go map filled from members that are already sorted by name with distinct names is that list:
   Canonical writing and the sorted walk of the decoder see the same order *)
Theorem go_map_sorted : forall (T : Type) (ms : list (list Z * T)),
  ssorted (map fst ms) = true -> go_map ms = ms.
Proof. exact MsgpackProofs.go_map_sorted. Qed.
Print Assumptions go_map_sorted.

(* ---- 5c. the msgpack round trip THROUGH THE BYTES, no codec oracle: SexpToJson, the RFC reader,
        JsonToGo, GoToMsgpack, the independent msgpack reader, GoToSexp.
        mp_fits (Proofs/MsgpackRound.v) is the domain of the msgpack FORMAT, not a gap of the proof:
        a float is a 64-bit pattern (true of every Go float64; the model's bits are an unbounded Z),
        the byte length of every string, the length of every array and the member count of every
        hash (fields + Atype + zKeyOrder) are below 2^32 (above, writeContainerLen truncates the count
        to uint32 and the bytes denote something else). It cannot simply be dropped: data bounds
        neither, and mp_bytes writes only the low 64 bits of a float pattern (be 8) and the low 32 bits
        of a count (this necessity is argued here, not stated as a theorem). The JSON route as the code is factored (unjson_go_json) needs no such premise. ---- *)

(* str_ltb is a strict total order, so the Go map is sorted with distinct names whatever the
   order and the repetitions of the members it is filled from *)
Theorem go_map_is_sorted : forall (T : Type) (l : list (list Z * T)), ssorted (map fst (go_map l)) = true.
Proof. exact (fun T => @MsgpackRound.ssorted_go_map T). Qed.
Print Assumptions go_map_is_sorted.

(* the Go tree of a data value: JsonToGo delivers it, it is in the writer's domain, GoToSexp
   inverts it (the analogue of of_tree_tree_of on Go trees) *)
Theorem gtree_of_data : forall fmt pf,
  (forall sci b, float_finite b = true -> is_json_number (float_token fmt sci b) = true ->
                 pf (float_token fmt sci b) = b) ->
  (forall b, float_finite b = true -> has_dot_e (fmt true b) = true) ->
  forall v, data fmt v = true -> no_reserved_keys v = true -> mp_fits v = true ->
  exists g, gtree_of fmt pf v = Some g /\ gt_ok g = true /\ sexp_of_go g = Ok (norm v).
Proof. exact MsgpackRound.gtree_of_data. Qed.
Print Assumptions gtree_of_data.

Theorem unjson_go_json : forall fmt pf,
  (forall sci b, float_finite b = true -> is_json_number (float_token fmt sci b) = true ->
                 pf (float_token fmt sci b) = b) ->
  (forall b, float_finite b = true -> has_dot_e (fmt true b) = true) ->
  forall v, data fmt v = true -> no_reserved_keys v = true ->
  unjson_go pf (to_json fmt v) = Ok (norm v).
Proof. exact MsgpackRound.unjson_go_json. Qed.
Print Assumptions unjson_go_json.

(* (unmsgpack (msgpack v)) = v through the real byte format *)
Theorem msgpack_roundtrip_bytes : forall fmt pf,
  (forall sci b, float_finite b = true -> is_json_number (float_token fmt sci b) = true ->
                 pf (float_token fmt sci b) = b) ->
  (forall b, float_finite b = true -> has_dot_e (fmt true b) = true) ->
  forall v, data fmt v = true -> no_reserved_keys v = true -> mp_fits v = true ->
  exists b, msgpack_bytes fmt pf v = Some b /\ unmsgpack_bytes b = Ok (norm v).
Proof. exact MsgpackRound.msgpack_roundtrip_bytes. Qed.
Print Assumptions msgpack_roundtrip_bytes.

Theorem history_msgpack_roundtrip_bytes : forall fmt pf,
  (forall sci b, float_finite b = true -> is_json_number (float_token fmt sci b) = true ->
                 pf (float_token fmt sci b) = b) ->
  (forall b, float_finite b = true -> has_dot_e (fmt true b) = true) ->
  forall vs, Forall (fun v => data fmt v = true /\ no_reserved_keys v = true /\ mp_fits v = true) vs ->
  map (fun v => match msgpack_bytes fmt pf v with Some b => unmsgpack_bytes b | None => Crash end) vs
  = map (fun v => Ok (norm v)) vs.
Proof. exact MsgpackRound.history_msgpack_roundtrip_bytes. Qed.
Print Assumptions history_msgpack_roundtrip_bytes.

(* ---- 6. non-vacuity: concrete evaluations ---- *)
Definition fmt0 (sci : bool) (bits : Z) : list Z :=
  if bits =? 4609434218613702656 then (if sci then [49;46;53;101;43;48;48] else [49;46;53]) else [48].
Definition pf0 (tok : list Z) : Z := 4609434218613702656.

(* a record of type Pt: field b = the string  a, quote, backslash, newline, <, e-acute, U+0001;
   field a = [1.5 nil -7] *)
Definition ex_value : value :=
  VHash [80;116] [(KSym [98], VStr true [97;34;92;10;60;233;1]);
                  (KSym [97], VArr [VFloat false 4609434218613702656; VNil; VInt (-7)])].

Example ex_data : data fmt0 ex_value = true /\ no_reserved_keys ex_value = true /\ wf fmt0 ex_value = true.
Proof. vm_compute. auto. Qed.

(* the text printed for it: Atype Pt, then b, a, then zKeyOrder [b, a]; the string with its escapes *)
Example ex_to_json : to_json fmt0 ex_value =
  [123;34;65;116;121;112;101;34;58;34;80;116;34;44;32;
   34;98;34;58;34;97;92;34;92;92;92;110;92;117;48;48;51;99;195;169;92;117;48;48;48;49;34;44;32;
   34;97;34;58;91;49;46;53;44;32;110;117;108;108;44;32;45;55;93;44;32;
   34;122;75;101;121;79;114;100;101;114;34;58;91;34;98;34;44;32;34;97;34;93;125].
Proof. vm_compute. reflexivity. Qed.

Example ex_parse : json_parse (to_json fmt0 ex_value) = Some (tree_of fmt0 ex_value).
Proof. vm_compute. reflexivity. Qed.

Example ex_unjson : unjson pf0 (to_json fmt0 ex_value) = Ok (norm ex_value).
Proof. vm_compute. reflexivity. Qed.

(* the reader is strict: raw control characters, bad escapes, leading zeros, trailing text *)
Example ex_reject :
  json_parse [34;1;34] = None /\ json_parse [34;92;120;34] = None /\ json_parse [48;49] = None /\
  json_parse [110;105;108] = None /\ json_parse [91;49;44;93] = None /\ json_parse [49;32;50] = None /\
  json_parse [34;237;160;128;34] = None.
Proof. vm_compute. auto 10. Qed.

(* escapes and surrogate pairs are decoded: backslash-u d83d, backslash-u de00, backslash-u 00e9, backslash-slash *)
Example ex_surrogates :
  json_parse [34;92;117;100;56;51;100;92;117;100;101;48;48;92;117;48;48;101;57;92;47;34] = Some (JStr [128512;233;47]).
Proof. vm_compute. reflexivity. Qed.

(* the witness of the refuted statement decodes to a corrupt record (the key order lists a field
   that is not there) *)
Example ex_reserved : unjson pf0 (to_json fmt0 witness_reserved) = Corrupt.
Proof. vm_compute. reflexivity. Qed.

(* a tree with members in any order and no zKeyOrder comes back in sorted key order *)
Example ex_sorted_walk :
  of_tree pf0 (JObj [([99], JNull); ([97], JBool true); (s_Atype, JStr [84]); ([98], JNum [49])])
  = Ok (VHash [84] [(KSym [97], VBool true); (KSym [98], VInt 1); (KSym [99], VNil)]).
Proof. vm_compute. reflexivity. Qed.

(* number tokens at the int64 boundary: 2^63 cannot be decoded, -2^63 can *)
Example ex_num_boundary :
  num_value pf0 (dec 9223372036854775807) = Ok (VInt 9223372036854775807) /\
  num_value pf0 [57;50;50;51;51;55;50;48;51;54;56;53;52;55;55;53;56;48;56] = Crash /\
  num_value pf0 (dec (-9223372036854775808)) = Ok (VInt (-9223372036854775808)).
Proof. vm_compute. auto. Qed.

(* the msgpack bytes of the record above: fixmap of 4 (members sorted by name: Atype, a, b, zKeyOrder),
   a = fixarray [float64 1.5, nil, -7], fixstr for the strings; they read back to the Go tree, and the
   whole route gives the record back *)
Example ex_msgpack_bytes : msgpack_bytes fmt0 pf0 ex_value =
  Some [132; 165;65;116;121;112;101; 162;80;116;
        161;97; 147; 203;63;248;0;0;0;0;0;0; 192; 249;
        161;98; 168;97;34;92;10;60;195;169;1;
        169;122;75;101;121;79;114;100;101;114; 146; 161;98; 161;97].
Proof. vm_compute. reflexivity. Qed.

Example ex_msgpack_route :
  (match msgpack_bytes fmt0 pf0 ex_value with Some b => unmsgpack_bytes b | None => Crash end) = Ok (norm ex_value)
  /\ unjson_go pf0 (to_json fmt0 ex_value) = Ok (norm ex_value)
  /\ (match gtree_of fmt0 pf0 ex_value with Some g => gt_ok g | None => false end) = true.
Proof. vm_compute. auto. Qed.

(* the integer formats at their boundaries, and the length prefixes at theirs *)
Example ex_msgpack_ints :
  map mp_int [0; 127; 128; 32767; 32768; -1; -32; -33; -128; -129; -32769; 2147483648; -9223372036854775808] =
  [[0]; [127]; [209;0;128]; [209;127;255]; [210;0;0;128;0]; [255]; [224]; [208;223]; [208;128]; [209;255;127];
   [210;255;255;127;255]; [211;0;0;0;0;128;0;0;0]; [211;128;0;0;0;0;0;0;0]].
Proof. vm_compute. reflexivity. Qed.

Example ex_msgpack_lens :
  map str_hdr [0; 31; 32; 255; 256; 65535; 65536] =
  [[160]; [191]; [217;32]; [217;255]; [218;1;0]; [218;255;255]; [219;0;1;0;0]] /\
  map arr_hdr [15; 16; 65536] = [[159]; [220;0;16]; [221;0;1;0;0]] /\
  map map_hdr [15; 16] = [[143]; [222;0;16]].
Proof. vm_compute. auto. Qed.

(* the reader is strict: truncated input, a str that is not UTF-8 (overlong, surrogate), a key that is
   not a str, trailing bytes, the formats the encoder never writes *)
Example ex_msgpack_reject :
  mp_decode [161] = None /\ mp_decode [162;192;128] = None /\ mp_decode [163;237;160;128] = None /\
  mp_decode [129;1;1] = None /\ mp_decode [192;192] = None /\ mp_decode [202;0;0;0;0] = None /\
  mp_decode [145] = None /\ mp_decode [221;255;255;255;255] = None.
Proof. vm_compute. auto 10. Qed.

(* unsigned formats and members out of order are read as the format says *)
Example ex_msgpack_foreign :
  mp_decode [130; 161;98; 204;200; 161;97; 207;0;0;0;0;0;0;1;0] = Some (GMap [([97], GInt 256); ([98], GInt 200)]).
Proof. vm_compute. reflexivity. Qed.

(* the premises of msgpack_roundtrip_bytes hold of a nested value (a record holding a string, an
   array and, under a STRING key, a hash holding an empty hash and an array of hashes) and the route
   through the bytes gives it back, the string key as a symbol; its Go tree is in the writer's domain *)
Definition ex_nested : value :=
  VHash [80;116] [(KSym [98], VStr true [97;34;92;10;60;233;1]);
                  (KSym [97], VArr [VFloat false 4609434218613702656; VNil; VInt (-7)]);
                  (KStr [105;110], VHash s_hash [(KSym [122], VHash s_hash []);
                                                  (KSym [121], VArr [VHash [81] [(KSym [113], VInt 300)]; VArr []])])].

Example ex_msgpack_roundtrip_bytes :
  data fmt0 ex_nested = true /\ no_reserved_keys ex_nested = true /\ mp_fits ex_nested = true /\
  (match msgpack_bytes fmt0 pf0 ex_nested with Some b => unmsgpack_bytes b | None => Crash end) = Ok (norm ex_nested) /\
  gtree_of fmt0 pf0 ex_nested = Some (gt_of ex_nested) /\ gt_ok (gt_of ex_nested) = true /\
  norm ex_nested <> ex_nested.
Proof. vm_compute. repeat split; try reflexivity. discriminate. Qed.
